import BtcModel.Model.AddrParse

/-
  Validation vectors for `Model/AddrParse.lean`, checked at elaboration time by `#guard` (the build
  fails if one of them is false).

  Every expected value was printed by the CANISTER's own parsing path,
  `ic_btc_canister::types::Address::from_str_checked(s, network)` (`/repo/canister/src/types.rs`:
  `bitcoin::Address::<NetworkUnchecked>::from_str` + `require_network(into_bitcoin_network(network))`
  of the vendored `bitcoin-dogecoin-0.32.7-doge.0`, `bech32-0.11.1`, `base58ck-0.1.0`), through the
  generator kept next to this file as `AddrParseTest.probe.rs.txt` (`cargo run --offline -- model`);
  the body below the helpers is its verbatim output. For an accepted string the script is
  `Address::script_pubkey()` and the `requestKey` line is the text the canister keeps
  (`address.to_string()`), which the probe also checks to be what `Address::from_script` derives
  for that script. `.testnet` is rust-bitcoin's `Network::Testnet4`.

  Inputs: every address kind derived for Bitcoin / Testnet4 / Regtest / Testnet(3) / Signet and read
  on each of the three canister networks; upper-case and mixed-case bech32; broken checksums;
  unknown, odd and ill-formed human-readable parts with a valid checksum; wrong version bytes and
  payload lengths in base58check; strings of `'1'`; invalid base58 characters; witness versions
  0..31 with both checksum constants; program lengths 0..41; non-zero and over-long padding; length
  90 / 91; empty, non-ASCII, white space around valid addresses; the BIP-173 and BIP-350 vectors.
-/
namespace Btc.AddrParse.Test

def hexVal (c : Char) : Nat :=
  if '0' ≤ c ∧ c ≤ '9' then c.toNat - '0'.toNat
  else if 'a' ≤ c ∧ c ≤ 'f' then c.toNat - 'a'.toNat + 10
  else 0

def hexBytes : List Char → List Nat
  | a :: b :: rest => (hexVal a * 16 + hexVal b) :: hexBytes rest
  | _ => []

def hex (s : String) : List Nat := hexBytes s.toList

def ascii (s : String) : List Nat := s.toList.map (·.toNat)

-- "19Wp98DQXk3PjGV8TsmT9LHo7RsdkJQ4qV"
#guard parseAddress .mainnet (ascii "19Wp98DQXk3PjGV8TsmT9LHo7RsdkJQ4qV") = .ok (hex "76a9145d646b727881868f979ea1a8b2bbbcc5c9d0dfe688ac")
#guard requestKey .mainnet (ascii "19Wp98DQXk3PjGV8TsmT9LHo7RsdkJQ4qV") = some (ascii "19Wp98DQXk3PjGV8TsmT9LHo7RsdkJQ4qV")
#guard parseAddress .testnet (ascii "19Wp98DQXk3PjGV8TsmT9LHo7RsdkJQ4qV") = .wrongNetwork
#guard parseAddress .regtest (ascii "19Wp98DQXk3PjGV8TsmT9LHo7RsdkJQ4qV") = .wrongNetwork
-- "mp2mSBJPLmUeWNxkBSjpyFW7yRULdVYnNF"
#guard parseAddress .mainnet (ascii "mp2mSBJPLmUeWNxkBSjpyFW7yRULdVYnNF") = .wrongNetwork
#guard parseAddress .testnet (ascii "mp2mSBJPLmUeWNxkBSjpyFW7yRULdVYnNF") = .ok (hex "76a9145d646b727881868f979ea1a8b2bbbcc5c9d0dfe688ac")
#guard requestKey .testnet (ascii "mp2mSBJPLmUeWNxkBSjpyFW7yRULdVYnNF") = some (ascii "mp2mSBJPLmUeWNxkBSjpyFW7yRULdVYnNF")
#guard parseAddress .regtest (ascii "mp2mSBJPLmUeWNxkBSjpyFW7yRULdVYnNF") = .ok (hex "76a9145d646b727881868f979ea1a8b2bbbcc5c9d0dfe688ac")
#guard requestKey .regtest (ascii "mp2mSBJPLmUeWNxkBSjpyFW7yRULdVYnNF") = some (ascii "mp2mSBJPLmUeWNxkBSjpyFW7yRULdVYnNF")
-- "39HkHDJRYTiKwBDoZLdJpE5RrhQjNDUU5M"
#guard parseAddress .mainnet (ascii "39HkHDJRYTiKwBDoZLdJpE5RrhQjNDUU5M") = .ok (hex "a914535a61686e777c8589909ba2a4adb6bfc7ced5dc87")
#guard requestKey .mainnet (ascii "39HkHDJRYTiKwBDoZLdJpE5RrhQjNDUU5M") = some (ascii "39HkHDJRYTiKwBDoZLdJpE5RrhQjNDUU5M")
#guard parseAddress .testnet (ascii "39HkHDJRYTiKwBDoZLdJpE5RrhQjNDUU5M") = .wrongNetwork
#guard parseAddress .regtest (ascii "39HkHDJRYTiKwBDoZLdJpE5RrhQjNDUU5M") = .wrongNetwork
-- "2MzqxLxET9vDg8xrMEUFBSB4h53cu7c5ott"
#guard parseAddress .mainnet (ascii "2MzqxLxET9vDg8xrMEUFBSB4h53cu7c5ott") = .wrongNetwork
#guard parseAddress .testnet (ascii "2MzqxLxET9vDg8xrMEUFBSB4h53cu7c5ott") = .ok (hex "a914535a61686e777c8589909ba2a4adb6bfc7ced5dc87")
#guard requestKey .testnet (ascii "2MzqxLxET9vDg8xrMEUFBSB4h53cu7c5ott") = some (ascii "2MzqxLxET9vDg8xrMEUFBSB4h53cu7c5ott")
#guard parseAddress .regtest (ascii "2MzqxLxET9vDg8xrMEUFBSB4h53cu7c5ott") = .ok (hex "a914535a61686e777c8589909ba2a4adb6bfc7ced5dc87")
#guard requestKey .regtest (ascii "2MzqxLxET9vDg8xrMEUFBSB4h53cu7c5ott") = some (ascii "2MzqxLxET9vDg8xrMEUFBSB4h53cu7c5ott")
-- "bc1qt4jxkuncsxrgl9u75x5t9wauchyaphlx70kgcx"
#guard parseAddress .mainnet (ascii "bc1qt4jxkuncsxrgl9u75x5t9wauchyaphlx70kgcx") = .ok (hex "00145d646b727881868f979ea1a8b2bbbcc5c9d0dfe6")
#guard requestKey .mainnet (ascii "bc1qt4jxkuncsxrgl9u75x5t9wauchyaphlx70kgcx") = some (ascii "bc1qt4jxkuncsxrgl9u75x5t9wauchyaphlx70kgcx")
#guard parseAddress .testnet (ascii "bc1qt4jxkuncsxrgl9u75x5t9wauchyaphlx70kgcx") = .wrongNetwork
#guard parseAddress .regtest (ascii "bc1qt4jxkuncsxrgl9u75x5t9wauchyaphlx70kgcx") = .wrongNetwork
-- "tb1qt4jxkuncsxrgl9u75x5t9wauchyaphlx5fdmr4"
#guard parseAddress .mainnet (ascii "tb1qt4jxkuncsxrgl9u75x5t9wauchyaphlx5fdmr4") = .wrongNetwork
#guard parseAddress .testnet (ascii "tb1qt4jxkuncsxrgl9u75x5t9wauchyaphlx5fdmr4") = .ok (hex "00145d646b727881868f979ea1a8b2bbbcc5c9d0dfe6")
#guard requestKey .testnet (ascii "tb1qt4jxkuncsxrgl9u75x5t9wauchyaphlx5fdmr4") = some (ascii "tb1qt4jxkuncsxrgl9u75x5t9wauchyaphlx5fdmr4")
#guard parseAddress .regtest (ascii "tb1qt4jxkuncsxrgl9u75x5t9wauchyaphlx5fdmr4") = .wrongNetwork
-- "bcrt1qt4jxkuncsxrgl9u75x5t9wauchyaphlxkq5k5u"
#guard parseAddress .mainnet (ascii "bcrt1qt4jxkuncsxrgl9u75x5t9wauchyaphlxkq5k5u") = .wrongNetwork
#guard parseAddress .testnet (ascii "bcrt1qt4jxkuncsxrgl9u75x5t9wauchyaphlxkq5k5u") = .wrongNetwork
#guard parseAddress .regtest (ascii "bcrt1qt4jxkuncsxrgl9u75x5t9wauchyaphlxkq5k5u") = .ok (hex "00145d646b727881868f979ea1a8b2bbbcc5c9d0dfe6")
#guard requestKey .regtest (ascii "bcrt1qt4jxkuncsxrgl9u75x5t9wauchyaphlxkq5k5u") = some (ascii "bcrt1qt4jxkuncsxrgl9u75x5t9wauchyaphlxkq5k5u")
-- "bc1qzu0z2tpj8dqyjn25tanxsut6swpc4yvc56hmf0decr9a9h89ammssm3r9e"
#guard parseAddress .mainnet (ascii "bc1qzu0z2tpj8dqyjn25tanxsut6swpc4yvc56hmf0decr9a9h89ammssm3r9e") = .ok (hex "0020171e252c323b40494d545f6668717a83838a9198a6afb4bdb9c0cbd2dce5eef7")
#guard requestKey .mainnet (ascii "bc1qzu0z2tpj8dqyjn25tanxsut6swpc4yvc56hmf0decr9a9h89ammssm3r9e") = some (ascii "bc1qzu0z2tpj8dqyjn25tanxsut6swpc4yvc56hmf0decr9a9h89ammssm3r9e")
#guard parseAddress .testnet (ascii "bc1qzu0z2tpj8dqyjn25tanxsut6swpc4yvc56hmf0decr9a9h89ammssm3r9e") = .wrongNetwork
#guard parseAddress .regtest (ascii "bc1qzu0z2tpj8dqyjn25tanxsut6swpc4yvc56hmf0decr9a9h89ammssm3r9e") = .wrongNetwork
-- "tb1qzu0z2tpj8dqyjn25tanxsut6swpc4yvc56hmf0decr9a9h89amms8n8vlk"
#guard parseAddress .mainnet (ascii "tb1qzu0z2tpj8dqyjn25tanxsut6swpc4yvc56hmf0decr9a9h89amms8n8vlk") = .wrongNetwork
#guard parseAddress .testnet (ascii "tb1qzu0z2tpj8dqyjn25tanxsut6swpc4yvc56hmf0decr9a9h89amms8n8vlk") = .ok (hex "0020171e252c323b40494d545f6668717a83838a9198a6afb4bdb9c0cbd2dce5eef7")
#guard requestKey .testnet (ascii "tb1qzu0z2tpj8dqyjn25tanxsut6swpc4yvc56hmf0decr9a9h89amms8n8vlk") = some (ascii "tb1qzu0z2tpj8dqyjn25tanxsut6swpc4yvc56hmf0decr9a9h89amms8n8vlk")
#guard parseAddress .regtest (ascii "tb1qzu0z2tpj8dqyjn25tanxsut6swpc4yvc56hmf0decr9a9h89amms8n8vlk") = .wrongNetwork
-- "bcrt1qzu0z2tpj8dqyjn25tanxsut6swpc4yvc56hmf0decr9a9h89amms22d22v"
#guard parseAddress .mainnet (ascii "bcrt1qzu0z2tpj8dqyjn25tanxsut6swpc4yvc56hmf0decr9a9h89amms22d22v") = .wrongNetwork
#guard parseAddress .testnet (ascii "bcrt1qzu0z2tpj8dqyjn25tanxsut6swpc4yvc56hmf0decr9a9h89amms22d22v") = .wrongNetwork
#guard parseAddress .regtest (ascii "bcrt1qzu0z2tpj8dqyjn25tanxsut6swpc4yvc56hmf0decr9a9h89amms22d22v") = .ok (hex "0020171e252c323b40494d545f6668717a83838a9198a6afb4bdb9c0cbd2dce5eef7")
#guard requestKey .regtest (ascii "bcrt1qzu0z2tpj8dqyjn25tanxsut6swpc4yvc56hmf0decr9a9h89amms22d22v") = some (ascii "bcrt1qzu0z2tpj8dqyjn25tanxsut6swpc4yvc56hmf0decr9a9h89amms22d22v")
-- "bc1pzu0z2tpj8dqyjn25tanxsut6swpc4yvc56hmf0decr9a9h89amms6v32a9"
#guard parseAddress .mainnet (ascii "bc1pzu0z2tpj8dqyjn25tanxsut6swpc4yvc56hmf0decr9a9h89amms6v32a9") = .ok (hex "5120171e252c323b40494d545f6668717a83838a9198a6afb4bdb9c0cbd2dce5eef7")
#guard requestKey .mainnet (ascii "bc1pzu0z2tpj8dqyjn25tanxsut6swpc4yvc56hmf0decr9a9h89amms6v32a9") = some (ascii "bc1pzu0z2tpj8dqyjn25tanxsut6swpc4yvc56hmf0decr9a9h89amms6v32a9")
#guard parseAddress .testnet (ascii "bc1pzu0z2tpj8dqyjn25tanxsut6swpc4yvc56hmf0decr9a9h89amms6v32a9") = .wrongNetwork
#guard parseAddress .regtest (ascii "bc1pzu0z2tpj8dqyjn25tanxsut6swpc4yvc56hmf0decr9a9h89amms6v32a9") = .wrongNetwork
-- "tb1pzu0z2tpj8dqyjn25tanxsut6swpc4yvc56hmf0decr9a9h89ammsdy8982"
#guard parseAddress .mainnet (ascii "tb1pzu0z2tpj8dqyjn25tanxsut6swpc4yvc56hmf0decr9a9h89ammsdy8982") = .wrongNetwork
#guard parseAddress .testnet (ascii "tb1pzu0z2tpj8dqyjn25tanxsut6swpc4yvc56hmf0decr9a9h89ammsdy8982") = .ok (hex "5120171e252c323b40494d545f6668717a83838a9198a6afb4bdb9c0cbd2dce5eef7")
#guard requestKey .testnet (ascii "tb1pzu0z2tpj8dqyjn25tanxsut6swpc4yvc56hmf0decr9a9h89ammsdy8982") = some (ascii "tb1pzu0z2tpj8dqyjn25tanxsut6swpc4yvc56hmf0decr9a9h89ammsdy8982")
#guard parseAddress .regtest (ascii "tb1pzu0z2tpj8dqyjn25tanxsut6swpc4yvc56hmf0decr9a9h89ammsdy8982") = .wrongNetwork
-- "bcrt1pzu0z2tpj8dqyjn25tanxsut6swpc4yvc56hmf0decr9a9h89ammsqadrjs"
#guard parseAddress .mainnet (ascii "bcrt1pzu0z2tpj8dqyjn25tanxsut6swpc4yvc56hmf0decr9a9h89ammsqadrjs") = .wrongNetwork
#guard parseAddress .testnet (ascii "bcrt1pzu0z2tpj8dqyjn25tanxsut6swpc4yvc56hmf0decr9a9h89ammsqadrjs") = .wrongNetwork
#guard parseAddress .regtest (ascii "bcrt1pzu0z2tpj8dqyjn25tanxsut6swpc4yvc56hmf0decr9a9h89ammsqadrjs") = .ok (hex "5120171e252c323b40494d545f6668717a83838a9198a6afb4bdb9c0cbd2dce5eef7")
#guard requestKey .regtest (ascii "bcrt1pzu0z2tpj8dqyjn25tanxsut6swpc4yvc56hmf0decr9a9h89ammsqadrjs") = some (ascii "bcrt1pzu0z2tpj8dqyjn25tanxsut6swpc4yvc56hmf0decr9a9h89ammsqadrjs")
-- "bc1p2ddxz6rwwa7gtzvsnw32ftdkhlrua4wu68mu4d"
#guard parseAddress .mainnet (ascii "bc1p2ddxz6rwwa7gtzvsnw32ftdkhlrua4wu68mu4d") = .ok (hex "5114535a61686e777c8589909ba2a4adb6bfc7ced5dc")
#guard requestKey .mainnet (ascii "bc1p2ddxz6rwwa7gtzvsnw32ftdkhlrua4wu68mu4d") = some (ascii "bc1p2ddxz6rwwa7gtzvsnw32ftdkhlrua4wu68mu4d")
#guard parseAddress .testnet (ascii "bc1p2ddxz6rwwa7gtzvsnw32ftdkhlrua4wu68mu4d") = .wrongNetwork
#guard parseAddress .regtest (ascii "bc1p2ddxz6rwwa7gtzvsnw32ftdkhlrua4wu68mu4d") = .wrongNetwork
-- "tb1p2ddxz6rwwa7gtzvsnw32ftdkhlrua4wuspq0w7"
#guard parseAddress .mainnet (ascii "tb1p2ddxz6rwwa7gtzvsnw32ftdkhlrua4wuspq0w7") = .wrongNetwork
#guard parseAddress .testnet (ascii "tb1p2ddxz6rwwa7gtzvsnw32ftdkhlrua4wuspq0w7") = .ok (hex "5114535a61686e777c8589909ba2a4adb6bfc7ced5dc")
#guard requestKey .testnet (ascii "tb1p2ddxz6rwwa7gtzvsnw32ftdkhlrua4wuspq0w7") = some (ascii "tb1p2ddxz6rwwa7gtzvsnw32ftdkhlrua4wuspq0w7")
#guard parseAddress .regtest (ascii "tb1p2ddxz6rwwa7gtzvsnw32ftdkhlrua4wuspq0w7") = .wrongNetwork
-- "bcrt1p2ddxz6rwwa7gtzvsnw32ftdkhlrua4wujgezeh"
#guard parseAddress .mainnet (ascii "bcrt1p2ddxz6rwwa7gtzvsnw32ftdkhlrua4wujgezeh") = .wrongNetwork
#guard parseAddress .testnet (ascii "bcrt1p2ddxz6rwwa7gtzvsnw32ftdkhlrua4wujgezeh") = .wrongNetwork
#guard parseAddress .regtest (ascii "bcrt1p2ddxz6rwwa7gtzvsnw32ftdkhlrua4wujgezeh") = .ok (hex "5114535a61686e777c8589909ba2a4adb6bfc7ced5dc")
#guard requestKey .regtest (ascii "bcrt1p2ddxz6rwwa7gtzvsnw32ftdkhlrua4wujgezeh") = some (ascii "bcrt1p2ddxz6rwwa7gtzvsnw32ftdkhlrua4wujgezeh")
-- "bc1sw50qgdz25j"
#guard parseAddress .mainnet (ascii "bc1sw50qgdz25j") = .ok (hex "6002751e")
#guard requestKey .mainnet (ascii "bc1sw50qgdz25j") = some (ascii "bc1sw50qgdz25j")
#guard parseAddress .testnet (ascii "bc1sw50qgdz25j") = .wrongNetwork
#guard parseAddress .regtest (ascii "bc1sw50qgdz25j") = .wrongNetwork
-- "tb1sw50qadvs0e"
#guard parseAddress .mainnet (ascii "tb1sw50qadvs0e") = .wrongNetwork
#guard parseAddress .testnet (ascii "tb1sw50qadvs0e") = .ok (hex "6002751e")
#guard requestKey .testnet (ascii "tb1sw50qadvs0e") = some (ascii "tb1sw50qadvs0e")
#guard parseAddress .regtest (ascii "tb1sw50qadvs0e") = .wrongNetwork
-- "bcrt1sw50qt2uwha"
#guard parseAddress .mainnet (ascii "bcrt1sw50qt2uwha") = .wrongNetwork
#guard parseAddress .testnet (ascii "bcrt1sw50qt2uwha") = .wrongNetwork
#guard parseAddress .regtest (ascii "bcrt1sw50qt2uwha") = .ok (hex "6002751e")
#guard requestKey .regtest (ascii "bcrt1sw50qt2uwha") = some (ascii "bcrt1sw50qt2uwha")
-- "bc1znw32nv9khlzvm5wcu04wea07qu83v8fyyg4nqw29f3t4ukrpdfeh8z5pnz0f0t99r5svzh"
#guard parseAddress .mainnet (ascii "bc1znw32nv9khlzvm5wcu04wea07qu83v8fyyg4nqw29f3t4ukrpdfeh8z5pnz0f0t99r5svzh") = .ok (hex "52289ba2a9b0b6bfc4cdd1d8e3eaecf5fe070f161d24222b3039454c575e58616a73738a81989e97aca5")
#guard requestKey .mainnet (ascii "bc1znw32nv9khlzvm5wcu04wea07qu83v8fyyg4nqw29f3t4ukrpdfeh8z5pnz0f0t99r5svzh") = some (ascii "bc1znw32nv9khlzvm5wcu04wea07qu83v8fyyg4nqw29f3t4ukrpdfeh8z5pnz0f0t99r5svzh")
#guard parseAddress .testnet (ascii "bc1znw32nv9khlzvm5wcu04wea07qu83v8fyyg4nqw29f3t4ukrpdfeh8z5pnz0f0t99r5svzh") = .wrongNetwork
#guard parseAddress .regtest (ascii "bc1znw32nv9khlzvm5wcu04wea07qu83v8fyyg4nqw29f3t4ukrpdfeh8z5pnz0f0t99r5svzh") = .wrongNetwork
-- "tb1znw32nv9khlzvm5wcu04wea07qu83v8fyyg4nqw29f3t4ukrpdfeh8z5pnz0f0t99ww4f2l"
#guard parseAddress .mainnet (ascii "tb1znw32nv9khlzvm5wcu04wea07qu83v8fyyg4nqw29f3t4ukrpdfeh8z5pnz0f0t99ww4f2l") = .wrongNetwork
#guard parseAddress .testnet (ascii "tb1znw32nv9khlzvm5wcu04wea07qu83v8fyyg4nqw29f3t4ukrpdfeh8z5pnz0f0t99ww4f2l") = .ok (hex "52289ba2a9b0b6bfc4cdd1d8e3eaecf5fe070f161d24222b3039454c575e58616a73738a81989e97aca5")
#guard requestKey .testnet (ascii "tb1znw32nv9khlzvm5wcu04wea07qu83v8fyyg4nqw29f3t4ukrpdfeh8z5pnz0f0t99ww4f2l") = some (ascii "tb1znw32nv9khlzvm5wcu04wea07qu83v8fyyg4nqw29f3t4ukrpdfeh8z5pnz0f0t99ww4f2l")
#guard parseAddress .regtest (ascii "tb1znw32nv9khlzvm5wcu04wea07qu83v8fyyg4nqw29f3t4ukrpdfeh8z5pnz0f0t99ww4f2l") = .wrongNetwork
-- "bcrt1znw32nv9khlzvm5wcu04wea07qu83v8fyyg4nqw29f3t4ukrpdfeh8z5pnz0f0t998yunvf"
#guard parseAddress .mainnet (ascii "bcrt1znw32nv9khlzvm5wcu04wea07qu83v8fyyg4nqw29f3t4ukrpdfeh8z5pnz0f0t998yunvf") = .wrongNetwork
#guard parseAddress .testnet (ascii "bcrt1znw32nv9khlzvm5wcu04wea07qu83v8fyyg4nqw29f3t4ukrpdfeh8z5pnz0f0t998yunvf") = .wrongNetwork
#guard parseAddress .regtest (ascii "bcrt1znw32nv9khlzvm5wcu04wea07qu83v8fyyg4nqw29f3t4ukrpdfeh8z5pnz0f0t998yunvf") = .ok (hex "52289ba2a9b0b6bfc4cdd1d8e3eaecf5fe070f161d24222b3039454c575e58616a73738a81989e97aca5")
#guard requestKey .regtest (ascii "bcrt1znw32nv9khlzvm5wcu04wea07qu83v8fyyg4nqw29f3t4ukrpdfeh8z5pnz0f0t998yunvf") = some (ascii "bcrt1znw32nv9khlzvm5wcu04wea07qu83v8fyyg4nqw29f3t4ukrpdfeh8z5pnz0f0t998yunvf")
-- "bc18htqu3n7hmnj74u8mqgzs69slyqhr20pmgdy9zhnydam8z7vz3w2fyw4v6ty"
#guard parseAddress .mainnet (ascii "bc18htqu3n7hmnj74u8mqgzs69slyqhr20pmgdy9zhnydam8z7vz3w2fyw4v6ty") = .ok (hex "5721bac1c8cfd7dce5eaf0fb02050d161f202e353c3b4348515e646f767179828b9492")
#guard requestKey .mainnet (ascii "bc18htqu3n7hmnj74u8mqgzs69slyqhr20pmgdy9zhnydam8z7vz3w2fyw4v6ty") = some (ascii "bc18htqu3n7hmnj74u8mqgzs69slyqhr20pmgdy9zhnydam8z7vz3w2fyw4v6ty")
#guard parseAddress .testnet (ascii "bc18htqu3n7hmnj74u8mqgzs69slyqhr20pmgdy9zhnydam8z7vz3w2fyw4v6ty") = .wrongNetwork
#guard parseAddress .regtest (ascii "bc18htqu3n7hmnj74u8mqgzs69slyqhr20pmgdy9zhnydam8z7vz3w2fyw4v6ty") = .wrongNetwork
-- "tb18htqu3n7hmnj74u8mqgzs69slyqhr20pmgdy9zhnydam8z7vz3w2fyjmugsj"
#guard parseAddress .mainnet (ascii "tb18htqu3n7hmnj74u8mqgzs69slyqhr20pmgdy9zhnydam8z7vz3w2fyjmugsj") = .wrongNetwork
#guard parseAddress .testnet (ascii "tb18htqu3n7hmnj74u8mqgzs69slyqhr20pmgdy9zhnydam8z7vz3w2fyjmugsj") = .ok (hex "5721bac1c8cfd7dce5eaf0fb02050d161f202e353c3b4348515e646f767179828b9492")
#guard requestKey .testnet (ascii "tb18htqu3n7hmnj74u8mqgzs69slyqhr20pmgdy9zhnydam8z7vz3w2fyjmugsj") = some (ascii "tb18htqu3n7hmnj74u8mqgzs69slyqhr20pmgdy9zhnydam8z7vz3w2fyjmugsj")
#guard parseAddress .regtest (ascii "tb18htqu3n7hmnj74u8mqgzs69slyqhr20pmgdy9zhnydam8z7vz3w2fyjmugsj") = .wrongNetwork
-- "bcrt18htqu3n7hmnj74u8mqgzs69slyqhr20pmgdy9zhnydam8z7vz3w2fy8egzx8"
#guard parseAddress .mainnet (ascii "bcrt18htqu3n7hmnj74u8mqgzs69slyqhr20pmgdy9zhnydam8z7vz3w2fy8egzx8") = .wrongNetwork
#guard parseAddress .testnet (ascii "bcrt18htqu3n7hmnj74u8mqgzs69slyqhr20pmgdy9zhnydam8z7vz3w2fy8egzx8") = .wrongNetwork
#guard parseAddress .regtest (ascii "bcrt18htqu3n7hmnj74u8mqgzs69slyqhr20pmgdy9zhnydam8z7vz3w2fy8egzx8") = .ok (hex "5721bac1c8cfd7dce5eaf0fb02050d161f202e353c3b4348515e646f767179828b9492")
#guard requestKey .regtest (ascii "bcrt18htqu3n7hmnj74u8mqgzs69slyqhr20pmgdy9zhnydam8z7vz3w2fy8egzx8") = some (ascii "bcrt18htqu3n7hmnj74u8mqgzs69slyqhr20pmgdy9zhnydam8z7vz3w2fy8egzx8")
-- "11112v6S9bCy7xG6JdqYFrFF14dxU5zxX"
#guard parseAddress .mainnet (ascii "11112v6S9bCy7xG6JdqYFrFF14dxU5zxX") = .ok (hex "76a9140000001f262d343a434851555c676e7079828b8b88ac")
#guard requestKey .mainnet (ascii "11112v6S9bCy7xG6JdqYFrFF14dxU5zxX") = some (ascii "11112v6S9bCy7xG6JdqYFrFF14dxU5zxX")
#guard parseAddress .testnet (ascii "11112v6S9bCy7xG6JdqYFrFF14dxU5zxX") = .wrongNetwork
#guard parseAddress .regtest (ascii "11112v6S9bCy7xG6JdqYFrFF14dxU5zxX") = .wrongNetwork
-- "mfWxJ615FB2TkERsoscDNB4a6zfLuiY1bf"
#guard parseAddress .mainnet (ascii "mfWxJ615FB2TkERsoscDNB4a6zfLuiY1bf") = .wrongNetwork
#guard parseAddress .testnet (ascii "mfWxJ615FB2TkERsoscDNB4a6zfLuiY1bf") = .ok (hex "76a9140000001f262d343a434851555c676e7079828b8b88ac")
#guard requestKey .testnet (ascii "mfWxJ615FB2TkERsoscDNB4a6zfLuiY1bf") = some (ascii "mfWxJ615FB2TkERsoscDNB4a6zfLuiY1bf")
#guard parseAddress .regtest (ascii "mfWxJ615FB2TkERsoscDNB4a6zfLuiY1bf") = .ok (hex "76a9140000001f262d343a434851555c676e7079828b8b88ac")
#guard requestKey .regtest (ascii "mfWxJ615FB2TkERsoscDNB4a6zfLuiY1bf") = some (ascii "mfWxJ615FB2TkERsoscDNB4a6zfLuiY1bf")
-- "1111111111111111111114oLvT2"
#guard parseAddress .mainnet (ascii "1111111111111111111114oLvT2") = .ok (hex "76a914000000000000000000000000000000000000000088ac")
#guard requestKey .mainnet (ascii "1111111111111111111114oLvT2") = some (ascii "1111111111111111111114oLvT2")
#guard parseAddress .testnet (ascii "1111111111111111111114oLvT2") = .wrongNetwork
#guard parseAddress .regtest (ascii "1111111111111111111114oLvT2") = .wrongNetwork
-- "mfWxJ45yp2SFn7UciZyNpvDKrzbhyfKrY8"
#guard parseAddress .mainnet (ascii "mfWxJ45yp2SFn7UciZyNpvDKrzbhyfKrY8") = .wrongNetwork
#guard parseAddress .testnet (ascii "mfWxJ45yp2SFn7UciZyNpvDKrzbhyfKrY8") = .ok (hex "76a914000000000000000000000000000000000000000088ac")
#guard requestKey .testnet (ascii "mfWxJ45yp2SFn7UciZyNpvDKrzbhyfKrY8") = some (ascii "mfWxJ45yp2SFn7UciZyNpvDKrzbhyfKrY8")
#guard parseAddress .regtest (ascii "mfWxJ45yp2SFn7UciZyNpvDKrzbhyfKrY8") = .ok (hex "76a914000000000000000000000000000000000000000088ac")
#guard requestKey .regtest (ascii "mfWxJ45yp2SFn7UciZyNpvDKrzbhyfKrY8") = some (ascii "mfWxJ45yp2SFn7UciZyNpvDKrzbhyfKrY8")
-- "3R2cuenjG5nFubqX9Wzuukdin2YfBbQ6Kw"
#guard parseAddress .mainnet (ascii "3R2cuenjG5nFubqX9Wzuukdin2YfBbQ6Kw") = .ok (hex "a914ffffffffffffffffffffffffffffffffffffffff87")
#guard requestKey .mainnet (ascii "3R2cuenjG5nFubqX9Wzuukdin2YfBbQ6Kw") = some (ascii "3R2cuenjG5nFubqX9Wzuukdin2YfBbQ6Kw")
#guard parseAddress .testnet (ascii "3R2cuenjG5nFubqX9Wzuukdin2YfBbQ6Kw") = .wrongNetwork
#guard parseAddress .regtest (ascii "3R2cuenjG5nFubqX9Wzuukdin2YfBbQ6Kw") = .wrongNetwork
-- "2NGapyPiksYHc7PU4pecnXhcyzNkq1wvz5p"
#guard parseAddress .mainnet (ascii "2NGapyPiksYHc7PU4pecnXhcyzNkq1wvz5p") = .wrongNetwork
#guard parseAddress .testnet (ascii "2NGapyPiksYHc7PU4pecnXhcyzNkq1wvz5p") = .ok (hex "a914ffffffffffffffffffffffffffffffffffffffff87")
#guard requestKey .testnet (ascii "2NGapyPiksYHc7PU4pecnXhcyzNkq1wvz5p") = some (ascii "2NGapyPiksYHc7PU4pecnXhcyzNkq1wvz5p")
#guard parseAddress .regtest (ascii "2NGapyPiksYHc7PU4pecnXhcyzNkq1wvz5p") = .ok (hex "a914ffffffffffffffffffffffffffffffffffffffff87")
#guard requestKey .regtest (ascii "2NGapyPiksYHc7PU4pecnXhcyzNkq1wvz5p") = some (ascii "2NGapyPiksYHc7PU4pecnXhcyzNkq1wvz5p")
-- "BC1QT4JXKUNCSXRGL9U75X5T9WAUCHYAPHLX70KGCX"
#guard parseAddress .mainnet (ascii "BC1QT4JXKUNCSXRGL9U75X5T9WAUCHYAPHLX70KGCX") = .ok (hex "00145d646b727881868f979ea1a8b2bbbcc5c9d0dfe6")
#guard requestKey .mainnet (ascii "BC1QT4JXKUNCSXRGL9U75X5T9WAUCHYAPHLX70KGCX") = some (ascii "bc1qt4jxkuncsxrgl9u75x5t9wauchyaphlx70kgcx")
#guard parseAddress .testnet (ascii "BC1QT4JXKUNCSXRGL9U75X5T9WAUCHYAPHLX70KGCX") = .wrongNetwork
#guard parseAddress .regtest (ascii "BC1QT4JXKUNCSXRGL9U75X5T9WAUCHYAPHLX70KGCX") = .wrongNetwork
-- "bc1qt4jxkuncsxrgl9u75x5t9wauchyaphlx70kgcX"
#guard parseAddress .mainnet (ascii "bc1qt4jxkuncsxrgl9u75x5t9wauchyaphlx70kgcX") = .malformed
#guard parseAddress .testnet (ascii "bc1qt4jxkuncsxrgl9u75x5t9wauchyaphlx70kgcX") = .malformed
#guard parseAddress .regtest (ascii "bc1qt4jxkuncsxrgl9u75x5t9wauchyaphlx70kgcX") = .malformed
-- "BC1qt4jxkuncsxrgl9u75x5t9wauchyaphlx70kgcx"
#guard parseAddress .mainnet (ascii "BC1qt4jxkuncsxrgl9u75x5t9wauchyaphlx70kgcx") = .malformed
#guard parseAddress .testnet (ascii "BC1qt4jxkuncsxrgl9u75x5t9wauchyaphlx70kgcx") = .malformed
#guard parseAddress .regtest (ascii "BC1qt4jxkuncsxrgl9u75x5t9wauchyaphlx70kgcx") = .malformed
-- "bc1QT4JXKUNCSXRGL9U75X5T9WAUCHYAPHLX70KGCX"
#guard parseAddress .mainnet (ascii "bc1QT4JXKUNCSXRGL9U75X5T9WAUCHYAPHLX70KGCX") = .malformed
#guard parseAddress .testnet (ascii "bc1QT4JXKUNCSXRGL9U75X5T9WAUCHYAPHLX70KGCX") = .malformed
#guard parseAddress .regtest (ascii "bc1QT4JXKUNCSXRGL9U75X5T9WAUCHYAPHLX70KGCX") = .malformed
-- "TB1QT4JXKUNCSXRGL9U75X5T9WAUCHYAPHLX5FDMR4"
#guard parseAddress .mainnet (ascii "TB1QT4JXKUNCSXRGL9U75X5T9WAUCHYAPHLX5FDMR4") = .wrongNetwork
#guard parseAddress .testnet (ascii "TB1QT4JXKUNCSXRGL9U75X5T9WAUCHYAPHLX5FDMR4") = .ok (hex "00145d646b727881868f979ea1a8b2bbbcc5c9d0dfe6")
#guard requestKey .testnet (ascii "TB1QT4JXKUNCSXRGL9U75X5T9WAUCHYAPHLX5FDMR4") = some (ascii "tb1qt4jxkuncsxrgl9u75x5t9wauchyaphlx5fdmr4")
#guard parseAddress .regtest (ascii "TB1QT4JXKUNCSXRGL9U75X5T9WAUCHYAPHLX5FDMR4") = .wrongNetwork
-- "tb1qt4jxkuncsxrgl9u75x5t9wauchyaphlx5fdmR4"
#guard parseAddress .mainnet (ascii "tb1qt4jxkuncsxrgl9u75x5t9wauchyaphlx5fdmR4") = .malformed
#guard parseAddress .testnet (ascii "tb1qt4jxkuncsxrgl9u75x5t9wauchyaphlx5fdmR4") = .malformed
#guard parseAddress .regtest (ascii "tb1qt4jxkuncsxrgl9u75x5t9wauchyaphlx5fdmR4") = .malformed
-- "TB1qt4jxkuncsxrgl9u75x5t9wauchyaphlx5fdmr4"
#guard parseAddress .mainnet (ascii "TB1qt4jxkuncsxrgl9u75x5t9wauchyaphlx5fdmr4") = .malformed
#guard parseAddress .testnet (ascii "TB1qt4jxkuncsxrgl9u75x5t9wauchyaphlx5fdmr4") = .malformed
#guard parseAddress .regtest (ascii "TB1qt4jxkuncsxrgl9u75x5t9wauchyaphlx5fdmr4") = .malformed
-- "tb1QT4JXKUNCSXRGL9U75X5T9WAUCHYAPHLX5FDMR4"
#guard parseAddress .mainnet (ascii "tb1QT4JXKUNCSXRGL9U75X5T9WAUCHYAPHLX5FDMR4") = .malformed
#guard parseAddress .testnet (ascii "tb1QT4JXKUNCSXRGL9U75X5T9WAUCHYAPHLX5FDMR4") = .malformed
#guard parseAddress .regtest (ascii "tb1QT4JXKUNCSXRGL9U75X5T9WAUCHYAPHLX5FDMR4") = .malformed
-- "BCRT1QT4JXKUNCSXRGL9U75X5T9WAUCHYAPHLXKQ5K5U"
#guard parseAddress .mainnet (ascii "BCRT1QT4JXKUNCSXRGL9U75X5T9WAUCHYAPHLXKQ5K5U") = .wrongNetwork
#guard parseAddress .testnet (ascii "BCRT1QT4JXKUNCSXRGL9U75X5T9WAUCHYAPHLXKQ5K5U") = .wrongNetwork
#guard parseAddress .regtest (ascii "BCRT1QT4JXKUNCSXRGL9U75X5T9WAUCHYAPHLXKQ5K5U") = .ok (hex "00145d646b727881868f979ea1a8b2bbbcc5c9d0dfe6")
#guard requestKey .regtest (ascii "BCRT1QT4JXKUNCSXRGL9U75X5T9WAUCHYAPHLXKQ5K5U") = some (ascii "bcrt1qt4jxkuncsxrgl9u75x5t9wauchyaphlxkq5k5u")
-- "bcrt1qt4jxkuncsxrgl9u75x5t9wauchyaphlxkq5k5U"
#guard parseAddress .mainnet (ascii "bcrt1qt4jxkuncsxrgl9u75x5t9wauchyaphlxkq5k5U") = .malformed
#guard parseAddress .testnet (ascii "bcrt1qt4jxkuncsxrgl9u75x5t9wauchyaphlxkq5k5U") = .malformed
#guard parseAddress .regtest (ascii "bcrt1qt4jxkuncsxrgl9u75x5t9wauchyaphlxkq5k5U") = .malformed
-- "BCRT1qt4jxkuncsxrgl9u75x5t9wauchyaphlxkq5k5u"
#guard parseAddress .mainnet (ascii "BCRT1qt4jxkuncsxrgl9u75x5t9wauchyaphlxkq5k5u") = .malformed
#guard parseAddress .testnet (ascii "BCRT1qt4jxkuncsxrgl9u75x5t9wauchyaphlxkq5k5u") = .malformed
#guard parseAddress .regtest (ascii "BCRT1qt4jxkuncsxrgl9u75x5t9wauchyaphlxkq5k5u") = .malformed
-- "bcrt1QT4JXKUNCSXRGL9U75X5T9WAUCHYAPHLXKQ5K5U"
#guard parseAddress .mainnet (ascii "bcrt1QT4JXKUNCSXRGL9U75X5T9WAUCHYAPHLXKQ5K5U") = .malformed
#guard parseAddress .testnet (ascii "bcrt1QT4JXKUNCSXRGL9U75X5T9WAUCHYAPHLXKQ5K5U") = .malformed
#guard parseAddress .regtest (ascii "bcrt1QT4JXKUNCSXRGL9U75X5T9WAUCHYAPHLXKQ5K5U") = .malformed
-- "BC1QZU0Z2TPJ8DQYJN25TANXSUT6SWPC4YVC56HMF0DECR9A9H89AMMSSM3R9E"
#guard parseAddress .mainnet (ascii "BC1QZU0Z2TPJ8DQYJN25TANXSUT6SWPC4YVC56HMF0DECR9A9H89AMMSSM3R9E") = .ok (hex "0020171e252c323b40494d545f6668717a83838a9198a6afb4bdb9c0cbd2dce5eef7")
#guard requestKey .mainnet (ascii "BC1QZU0Z2TPJ8DQYJN25TANXSUT6SWPC4YVC56HMF0DECR9A9H89AMMSSM3R9E") = some (ascii "bc1qzu0z2tpj8dqyjn25tanxsut6swpc4yvc56hmf0decr9a9h89ammssm3r9e")
#guard parseAddress .testnet (ascii "BC1QZU0Z2TPJ8DQYJN25TANXSUT6SWPC4YVC56HMF0DECR9A9H89AMMSSM3R9E") = .wrongNetwork
#guard parseAddress .regtest (ascii "BC1QZU0Z2TPJ8DQYJN25TANXSUT6SWPC4YVC56HMF0DECR9A9H89AMMSSM3R9E") = .wrongNetwork
-- "bc1qzu0z2tpj8dqyjn25tanxsut6swpc4yvc56hmf0decr9a9h89ammssm3r9E"
#guard parseAddress .mainnet (ascii "bc1qzu0z2tpj8dqyjn25tanxsut6swpc4yvc56hmf0decr9a9h89ammssm3r9E") = .malformed
#guard parseAddress .testnet (ascii "bc1qzu0z2tpj8dqyjn25tanxsut6swpc4yvc56hmf0decr9a9h89ammssm3r9E") = .malformed
#guard parseAddress .regtest (ascii "bc1qzu0z2tpj8dqyjn25tanxsut6swpc4yvc56hmf0decr9a9h89ammssm3r9E") = .malformed
-- "BC1qzu0z2tpj8dqyjn25tanxsut6swpc4yvc56hmf0decr9a9h89ammssm3r9e"
#guard parseAddress .mainnet (ascii "BC1qzu0z2tpj8dqyjn25tanxsut6swpc4yvc56hmf0decr9a9h89ammssm3r9e") = .malformed
#guard parseAddress .testnet (ascii "BC1qzu0z2tpj8dqyjn25tanxsut6swpc4yvc56hmf0decr9a9h89ammssm3r9e") = .malformed
#guard parseAddress .regtest (ascii "BC1qzu0z2tpj8dqyjn25tanxsut6swpc4yvc56hmf0decr9a9h89ammssm3r9e") = .malformed
-- "bc1QZU0Z2TPJ8DQYJN25TANXSUT6SWPC4YVC56HMF0DECR9A9H89AMMSSM3R9E"
#guard parseAddress .mainnet (ascii "bc1QZU0Z2TPJ8DQYJN25TANXSUT6SWPC4YVC56HMF0DECR9A9H89AMMSSM3R9E") = .malformed
#guard parseAddress .testnet (ascii "bc1QZU0Z2TPJ8DQYJN25TANXSUT6SWPC4YVC56HMF0DECR9A9H89AMMSSM3R9E") = .malformed
#guard parseAddress .regtest (ascii "bc1QZU0Z2TPJ8DQYJN25TANXSUT6SWPC4YVC56HMF0DECR9A9H89AMMSSM3R9E") = .malformed
-- "TB1QZU0Z2TPJ8DQYJN25TANXSUT6SWPC4YVC56HMF0DECR9A9H89AMMS8N8VLK"
#guard parseAddress .mainnet (ascii "TB1QZU0Z2TPJ8DQYJN25TANXSUT6SWPC4YVC56HMF0DECR9A9H89AMMS8N8VLK") = .wrongNetwork
#guard parseAddress .testnet (ascii "TB1QZU0Z2TPJ8DQYJN25TANXSUT6SWPC4YVC56HMF0DECR9A9H89AMMS8N8VLK") = .ok (hex "0020171e252c323b40494d545f6668717a83838a9198a6afb4bdb9c0cbd2dce5eef7")
#guard requestKey .testnet (ascii "TB1QZU0Z2TPJ8DQYJN25TANXSUT6SWPC4YVC56HMF0DECR9A9H89AMMS8N8VLK") = some (ascii "tb1qzu0z2tpj8dqyjn25tanxsut6swpc4yvc56hmf0decr9a9h89amms8n8vlk")
#guard parseAddress .regtest (ascii "TB1QZU0Z2TPJ8DQYJN25TANXSUT6SWPC4YVC56HMF0DECR9A9H89AMMS8N8VLK") = .wrongNetwork
-- "tb1qzu0z2tpj8dqyjn25tanxsut6swpc4yvc56hmf0decr9a9h89amms8n8vlK"
#guard parseAddress .mainnet (ascii "tb1qzu0z2tpj8dqyjn25tanxsut6swpc4yvc56hmf0decr9a9h89amms8n8vlK") = .malformed
#guard parseAddress .testnet (ascii "tb1qzu0z2tpj8dqyjn25tanxsut6swpc4yvc56hmf0decr9a9h89amms8n8vlK") = .malformed
#guard parseAddress .regtest (ascii "tb1qzu0z2tpj8dqyjn25tanxsut6swpc4yvc56hmf0decr9a9h89amms8n8vlK") = .malformed
-- "TB1qzu0z2tpj8dqyjn25tanxsut6swpc4yvc56hmf0decr9a9h89amms8n8vlk"
#guard parseAddress .mainnet (ascii "TB1qzu0z2tpj8dqyjn25tanxsut6swpc4yvc56hmf0decr9a9h89amms8n8vlk") = .malformed
#guard parseAddress .testnet (ascii "TB1qzu0z2tpj8dqyjn25tanxsut6swpc4yvc56hmf0decr9a9h89amms8n8vlk") = .malformed
#guard parseAddress .regtest (ascii "TB1qzu0z2tpj8dqyjn25tanxsut6swpc4yvc56hmf0decr9a9h89amms8n8vlk") = .malformed
-- "tb1QZU0Z2TPJ8DQYJN25TANXSUT6SWPC4YVC56HMF0DECR9A9H89AMMS8N8VLK"
#guard parseAddress .mainnet (ascii "tb1QZU0Z2TPJ8DQYJN25TANXSUT6SWPC4YVC56HMF0DECR9A9H89AMMS8N8VLK") = .malformed
#guard parseAddress .testnet (ascii "tb1QZU0Z2TPJ8DQYJN25TANXSUT6SWPC4YVC56HMF0DECR9A9H89AMMS8N8VLK") = .malformed
#guard parseAddress .regtest (ascii "tb1QZU0Z2TPJ8DQYJN25TANXSUT6SWPC4YVC56HMF0DECR9A9H89AMMS8N8VLK") = .malformed
-- "BCRT1QZU0Z2TPJ8DQYJN25TANXSUT6SWPC4YVC56HMF0DECR9A9H89AMMS22D22V"
#guard parseAddress .mainnet (ascii "BCRT1QZU0Z2TPJ8DQYJN25TANXSUT6SWPC4YVC56HMF0DECR9A9H89AMMS22D22V") = .wrongNetwork
#guard parseAddress .testnet (ascii "BCRT1QZU0Z2TPJ8DQYJN25TANXSUT6SWPC4YVC56HMF0DECR9A9H89AMMS22D22V") = .wrongNetwork
#guard parseAddress .regtest (ascii "BCRT1QZU0Z2TPJ8DQYJN25TANXSUT6SWPC4YVC56HMF0DECR9A9H89AMMS22D22V") = .ok (hex "0020171e252c323b40494d545f6668717a83838a9198a6afb4bdb9c0cbd2dce5eef7")
#guard requestKey .regtest (ascii "BCRT1QZU0Z2TPJ8DQYJN25TANXSUT6SWPC4YVC56HMF0DECR9A9H89AMMS22D22V") = some (ascii "bcrt1qzu0z2tpj8dqyjn25tanxsut6swpc4yvc56hmf0decr9a9h89amms22d22v")
-- "bcrt1qzu0z2tpj8dqyjn25tanxsut6swpc4yvc56hmf0decr9a9h89amms22d22V"
#guard parseAddress .mainnet (ascii "bcrt1qzu0z2tpj8dqyjn25tanxsut6swpc4yvc56hmf0decr9a9h89amms22d22V") = .malformed
#guard parseAddress .testnet (ascii "bcrt1qzu0z2tpj8dqyjn25tanxsut6swpc4yvc56hmf0decr9a9h89amms22d22V") = .malformed
#guard parseAddress .regtest (ascii "bcrt1qzu0z2tpj8dqyjn25tanxsut6swpc4yvc56hmf0decr9a9h89amms22d22V") = .malformed
-- "BCRT1qzu0z2tpj8dqyjn25tanxsut6swpc4yvc56hmf0decr9a9h89amms22d22v"
#guard parseAddress .mainnet (ascii "BCRT1qzu0z2tpj8dqyjn25tanxsut6swpc4yvc56hmf0decr9a9h89amms22d22v") = .malformed
#guard parseAddress .testnet (ascii "BCRT1qzu0z2tpj8dqyjn25tanxsut6swpc4yvc56hmf0decr9a9h89amms22d22v") = .malformed
#guard parseAddress .regtest (ascii "BCRT1qzu0z2tpj8dqyjn25tanxsut6swpc4yvc56hmf0decr9a9h89amms22d22v") = .malformed
-- "bcrt1QZU0Z2TPJ8DQYJN25TANXSUT6SWPC4YVC56HMF0DECR9A9H89AMMS22D22V"
#guard parseAddress .mainnet (ascii "bcrt1QZU0Z2TPJ8DQYJN25TANXSUT6SWPC4YVC56HMF0DECR9A9H89AMMS22D22V") = .malformed
#guard parseAddress .testnet (ascii "bcrt1QZU0Z2TPJ8DQYJN25TANXSUT6SWPC4YVC56HMF0DECR9A9H89AMMS22D22V") = .malformed
#guard parseAddress .regtest (ascii "bcrt1QZU0Z2TPJ8DQYJN25TANXSUT6SWPC4YVC56HMF0DECR9A9H89AMMS22D22V") = .malformed
-- "BC1PZU0Z2TPJ8DQYJN25TANXSUT6SWPC4YVC56HMF0DECR9A9H89AMMS6V32A9"
#guard parseAddress .mainnet (ascii "BC1PZU0Z2TPJ8DQYJN25TANXSUT6SWPC4YVC56HMF0DECR9A9H89AMMS6V32A9") = .ok (hex "5120171e252c323b40494d545f6668717a83838a9198a6afb4bdb9c0cbd2dce5eef7")
#guard requestKey .mainnet (ascii "BC1PZU0Z2TPJ8DQYJN25TANXSUT6SWPC4YVC56HMF0DECR9A9H89AMMS6V32A9") = some (ascii "bc1pzu0z2tpj8dqyjn25tanxsut6swpc4yvc56hmf0decr9a9h89amms6v32a9")
#guard parseAddress .testnet (ascii "BC1PZU0Z2TPJ8DQYJN25TANXSUT6SWPC4YVC56HMF0DECR9A9H89AMMS6V32A9") = .wrongNetwork
#guard parseAddress .regtest (ascii "BC1PZU0Z2TPJ8DQYJN25TANXSUT6SWPC4YVC56HMF0DECR9A9H89AMMS6V32A9") = .wrongNetwork
-- "bc1pzu0z2tpj8dqyjn25tanxsut6swpc4yvc56hmf0decr9a9h89amms6v32A9"
#guard parseAddress .mainnet (ascii "bc1pzu0z2tpj8dqyjn25tanxsut6swpc4yvc56hmf0decr9a9h89amms6v32A9") = .malformed
#guard parseAddress .testnet (ascii "bc1pzu0z2tpj8dqyjn25tanxsut6swpc4yvc56hmf0decr9a9h89amms6v32A9") = .malformed
#guard parseAddress .regtest (ascii "bc1pzu0z2tpj8dqyjn25tanxsut6swpc4yvc56hmf0decr9a9h89amms6v32A9") = .malformed
-- "BC1pzu0z2tpj8dqyjn25tanxsut6swpc4yvc56hmf0decr9a9h89amms6v32a9"
#guard parseAddress .mainnet (ascii "BC1pzu0z2tpj8dqyjn25tanxsut6swpc4yvc56hmf0decr9a9h89amms6v32a9") = .malformed
#guard parseAddress .testnet (ascii "BC1pzu0z2tpj8dqyjn25tanxsut6swpc4yvc56hmf0decr9a9h89amms6v32a9") = .malformed
#guard parseAddress .regtest (ascii "BC1pzu0z2tpj8dqyjn25tanxsut6swpc4yvc56hmf0decr9a9h89amms6v32a9") = .malformed
-- "bc1PZU0Z2TPJ8DQYJN25TANXSUT6SWPC4YVC56HMF0DECR9A9H89AMMS6V32A9"
#guard parseAddress .mainnet (ascii "bc1PZU0Z2TPJ8DQYJN25TANXSUT6SWPC4YVC56HMF0DECR9A9H89AMMS6V32A9") = .malformed
#guard parseAddress .testnet (ascii "bc1PZU0Z2TPJ8DQYJN25TANXSUT6SWPC4YVC56HMF0DECR9A9H89AMMS6V32A9") = .malformed
#guard parseAddress .regtest (ascii "bc1PZU0Z2TPJ8DQYJN25TANXSUT6SWPC4YVC56HMF0DECR9A9H89AMMS6V32A9") = .malformed
-- "TB1PZU0Z2TPJ8DQYJN25TANXSUT6SWPC4YVC56HMF0DECR9A9H89AMMSDY8982"
#guard parseAddress .mainnet (ascii "TB1PZU0Z2TPJ8DQYJN25TANXSUT6SWPC4YVC56HMF0DECR9A9H89AMMSDY8982") = .wrongNetwork
#guard parseAddress .testnet (ascii "TB1PZU0Z2TPJ8DQYJN25TANXSUT6SWPC4YVC56HMF0DECR9A9H89AMMSDY8982") = .ok (hex "5120171e252c323b40494d545f6668717a83838a9198a6afb4bdb9c0cbd2dce5eef7")
#guard requestKey .testnet (ascii "TB1PZU0Z2TPJ8DQYJN25TANXSUT6SWPC4YVC56HMF0DECR9A9H89AMMSDY8982") = some (ascii "tb1pzu0z2tpj8dqyjn25tanxsut6swpc4yvc56hmf0decr9a9h89ammsdy8982")
#guard parseAddress .regtest (ascii "TB1PZU0Z2TPJ8DQYJN25TANXSUT6SWPC4YVC56HMF0DECR9A9H89AMMSDY8982") = .wrongNetwork
-- "tb1pzu0z2tpj8dqyjn25tanxsut6swpc4yvc56hmf0decr9a9h89ammsdY8982"
#guard parseAddress .mainnet (ascii "tb1pzu0z2tpj8dqyjn25tanxsut6swpc4yvc56hmf0decr9a9h89ammsdY8982") = .malformed
#guard parseAddress .testnet (ascii "tb1pzu0z2tpj8dqyjn25tanxsut6swpc4yvc56hmf0decr9a9h89ammsdY8982") = .malformed
#guard parseAddress .regtest (ascii "tb1pzu0z2tpj8dqyjn25tanxsut6swpc4yvc56hmf0decr9a9h89ammsdY8982") = .malformed
-- "TB1pzu0z2tpj8dqyjn25tanxsut6swpc4yvc56hmf0decr9a9h89ammsdy8982"
#guard parseAddress .mainnet (ascii "TB1pzu0z2tpj8dqyjn25tanxsut6swpc4yvc56hmf0decr9a9h89ammsdy8982") = .malformed
#guard parseAddress .testnet (ascii "TB1pzu0z2tpj8dqyjn25tanxsut6swpc4yvc56hmf0decr9a9h89ammsdy8982") = .malformed
#guard parseAddress .regtest (ascii "TB1pzu0z2tpj8dqyjn25tanxsut6swpc4yvc56hmf0decr9a9h89ammsdy8982") = .malformed
-- "tb1PZU0Z2TPJ8DQYJN25TANXSUT6SWPC4YVC56HMF0DECR9A9H89AMMSDY8982"
#guard parseAddress .mainnet (ascii "tb1PZU0Z2TPJ8DQYJN25TANXSUT6SWPC4YVC56HMF0DECR9A9H89AMMSDY8982") = .malformed
#guard parseAddress .testnet (ascii "tb1PZU0Z2TPJ8DQYJN25TANXSUT6SWPC4YVC56HMF0DECR9A9H89AMMSDY8982") = .malformed
#guard parseAddress .regtest (ascii "tb1PZU0Z2TPJ8DQYJN25TANXSUT6SWPC4YVC56HMF0DECR9A9H89AMMSDY8982") = .malformed
-- "BCRT1PZU0Z2TPJ8DQYJN25TANXSUT6SWPC4YVC56HMF0DECR9A9H89AMMSQADRJS"
#guard parseAddress .mainnet (ascii "BCRT1PZU0Z2TPJ8DQYJN25TANXSUT6SWPC4YVC56HMF0DECR9A9H89AMMSQADRJS") = .wrongNetwork
#guard parseAddress .testnet (ascii "BCRT1PZU0Z2TPJ8DQYJN25TANXSUT6SWPC4YVC56HMF0DECR9A9H89AMMSQADRJS") = .wrongNetwork
#guard parseAddress .regtest (ascii "BCRT1PZU0Z2TPJ8DQYJN25TANXSUT6SWPC4YVC56HMF0DECR9A9H89AMMSQADRJS") = .ok (hex "5120171e252c323b40494d545f6668717a83838a9198a6afb4bdb9c0cbd2dce5eef7")
#guard requestKey .regtest (ascii "BCRT1PZU0Z2TPJ8DQYJN25TANXSUT6SWPC4YVC56HMF0DECR9A9H89AMMSQADRJS") = some (ascii "bcrt1pzu0z2tpj8dqyjn25tanxsut6swpc4yvc56hmf0decr9a9h89ammsqadrjs")
-- "bcrt1pzu0z2tpj8dqyjn25tanxsut6swpc4yvc56hmf0decr9a9h89ammsqadrjS"
#guard parseAddress .mainnet (ascii "bcrt1pzu0z2tpj8dqyjn25tanxsut6swpc4yvc56hmf0decr9a9h89ammsqadrjS") = .malformed
#guard parseAddress .testnet (ascii "bcrt1pzu0z2tpj8dqyjn25tanxsut6swpc4yvc56hmf0decr9a9h89ammsqadrjS") = .malformed
#guard parseAddress .regtest (ascii "bcrt1pzu0z2tpj8dqyjn25tanxsut6swpc4yvc56hmf0decr9a9h89ammsqadrjS") = .malformed
-- "BCRT1pzu0z2tpj8dqyjn25tanxsut6swpc4yvc56hmf0decr9a9h89ammsqadrjs"
#guard parseAddress .mainnet (ascii "BCRT1pzu0z2tpj8dqyjn25tanxsut6swpc4yvc56hmf0decr9a9h89ammsqadrjs") = .malformed
#guard parseAddress .testnet (ascii "BCRT1pzu0z2tpj8dqyjn25tanxsut6swpc4yvc56hmf0decr9a9h89ammsqadrjs") = .malformed
#guard parseAddress .regtest (ascii "BCRT1pzu0z2tpj8dqyjn25tanxsut6swpc4yvc56hmf0decr9a9h89ammsqadrjs") = .malformed
-- "bcrt1PZU0Z2TPJ8DQYJN25TANXSUT6SWPC4YVC56HMF0DECR9A9H89AMMSQADRJS"
#guard parseAddress .mainnet (ascii "bcrt1PZU0Z2TPJ8DQYJN25TANXSUT6SWPC4YVC56HMF0DECR9A9H89AMMSQADRJS") = .malformed
#guard parseAddress .testnet (ascii "bcrt1PZU0Z2TPJ8DQYJN25TANXSUT6SWPC4YVC56HMF0DECR9A9H89AMMSQADRJS") = .malformed
#guard parseAddress .regtest (ascii "bcrt1PZU0Z2TPJ8DQYJN25TANXSUT6SWPC4YVC56HMF0DECR9A9H89AMMSQADRJS") = .malformed
-- "BC1SW50QGDZ25J"
#guard parseAddress .mainnet (ascii "BC1SW50QGDZ25J") = .ok (hex "6002751e")
#guard requestKey .mainnet (ascii "BC1SW50QGDZ25J") = some (ascii "bc1sw50qgdz25j")
#guard parseAddress .testnet (ascii "BC1SW50QGDZ25J") = .wrongNetwork
#guard parseAddress .regtest (ascii "BC1SW50QGDZ25J") = .wrongNetwork
-- "bc1sw50qgdz25J"
#guard parseAddress .mainnet (ascii "bc1sw50qgdz25J") = .malformed
#guard parseAddress .testnet (ascii "bc1sw50qgdz25J") = .malformed
#guard parseAddress .regtest (ascii "bc1sw50qgdz25J") = .malformed
-- "BC1sw50qgdz25j"
#guard parseAddress .mainnet (ascii "BC1sw50qgdz25j") = .malformed
#guard parseAddress .testnet (ascii "BC1sw50qgdz25j") = .malformed
#guard parseAddress .regtest (ascii "BC1sw50qgdz25j") = .malformed
-- "bc1SW50QGDZ25J"
#guard parseAddress .mainnet (ascii "bc1SW50QGDZ25J") = .malformed
#guard parseAddress .testnet (ascii "bc1SW50QGDZ25J") = .malformed
#guard parseAddress .regtest (ascii "bc1SW50QGDZ25J") = .malformed
-- "TB1SW50QADVS0E"
#guard parseAddress .mainnet (ascii "TB1SW50QADVS0E") = .wrongNetwork
#guard parseAddress .testnet (ascii "TB1SW50QADVS0E") = .ok (hex "6002751e")
#guard requestKey .testnet (ascii "TB1SW50QADVS0E") = some (ascii "tb1sw50qadvs0e")
#guard parseAddress .regtest (ascii "TB1SW50QADVS0E") = .wrongNetwork
-- "tb1sw50qadvs0E"
#guard parseAddress .mainnet (ascii "tb1sw50qadvs0E") = .malformed
#guard parseAddress .testnet (ascii "tb1sw50qadvs0E") = .malformed
#guard parseAddress .regtest (ascii "tb1sw50qadvs0E") = .malformed
-- "TB1sw50qadvs0e"
#guard parseAddress .mainnet (ascii "TB1sw50qadvs0e") = .malformed
#guard parseAddress .testnet (ascii "TB1sw50qadvs0e") = .malformed
#guard parseAddress .regtest (ascii "TB1sw50qadvs0e") = .malformed
-- "tb1SW50QADVS0E"
#guard parseAddress .mainnet (ascii "tb1SW50QADVS0E") = .malformed
#guard parseAddress .testnet (ascii "tb1SW50QADVS0E") = .malformed
#guard parseAddress .regtest (ascii "tb1SW50QADVS0E") = .malformed
-- "BCRT1SW50QT2UWHA"
#guard parseAddress .mainnet (ascii "BCRT1SW50QT2UWHA") = .wrongNetwork
#guard parseAddress .testnet (ascii "BCRT1SW50QT2UWHA") = .wrongNetwork
#guard parseAddress .regtest (ascii "BCRT1SW50QT2UWHA") = .ok (hex "6002751e")
#guard requestKey .regtest (ascii "BCRT1SW50QT2UWHA") = some (ascii "bcrt1sw50qt2uwha")
-- "bcrt1sw50qt2uwhA"
#guard parseAddress .mainnet (ascii "bcrt1sw50qt2uwhA") = .malformed
#guard parseAddress .testnet (ascii "bcrt1sw50qt2uwhA") = .malformed
#guard parseAddress .regtest (ascii "bcrt1sw50qt2uwhA") = .malformed
-- "BCRT1sw50qt2uwha"
#guard parseAddress .mainnet (ascii "BCRT1sw50qt2uwha") = .malformed
#guard parseAddress .testnet (ascii "BCRT1sw50qt2uwha") = .malformed
#guard parseAddress .regtest (ascii "BCRT1sw50qt2uwha") = .malformed
-- "bcrt1SW50QT2UWHA"
#guard parseAddress .mainnet (ascii "bcrt1SW50QT2UWHA") = .malformed
#guard parseAddress .testnet (ascii "bcrt1SW50QT2UWHA") = .malformed
#guard parseAddress .regtest (ascii "bcrt1SW50QT2UWHA") = .malformed
-- "19WP98DQXK3PJGV8TSMT9LHO7RSDKJQ4QV"
#guard parseAddress .mainnet (ascii "19WP98DQXK3PJGV8TSMT9LHO7RSDKJQ4QV") = .malformed
#guard parseAddress .testnet (ascii "19WP98DQXK3PJGV8TSMT9LHO7RSDKJQ4QV") = .malformed
#guard parseAddress .regtest (ascii "19WP98DQXK3PJGV8TSMT9LHO7RSDKJQ4QV") = .malformed
-- "2mzqxlxet9vdg8xrmeufbsb4h53cu7c5ott"
#guard parseAddress .mainnet (ascii "2mzqxlxet9vdg8xrmeufbsb4h53cu7c5ott") = .malformed
#guard parseAddress .testnet (ascii "2mzqxlxet9vdg8xrmeufbsb4h53cu7c5ott") = .malformed
#guard parseAddress .regtest (ascii "2mzqxlxet9vdg8xrmeufbsb4h53cu7c5ott") = .malformed
-- "bc1qt4jxkuncsxrgl9u75x5t9wauchyaphlx70kgcq"
#guard parseAddress .mainnet (ascii "bc1qt4jxkuncsxrgl9u75x5t9wauchyaphlx70kgcq") = .malformed
#guard parseAddress .testnet (ascii "bc1qt4jxkuncsxrgl9u75x5t9wauchyaphlx70kgcq") = .malformed
#guard parseAddress .regtest (ascii "bc1qt4jxkuncsxrgl9u75x5t9wauchyaphlx70kgcq") = .malformed
-- "bc1qtzjxkuncsxrgl9u75x5t9wauchyaphlx70kgcx"
#guard parseAddress .mainnet (ascii "bc1qtzjxkuncsxrgl9u75x5t9wauchyaphlx70kgcx") = .malformed
#guard parseAddress .testnet (ascii "bc1qtzjxkuncsxrgl9u75x5t9wauchyaphlx70kgcx") = .malformed
#guard parseAddress .regtest (ascii "bc1qtzjxkuncsxrgl9u75x5t9wauchyaphlx70kgcx") = .malformed
-- "tb1qt4jxkuncsxrgl9u75x5t9wauchyaphlx5fdmrq"
#guard parseAddress .mainnet (ascii "tb1qt4jxkuncsxrgl9u75x5t9wauchyaphlx5fdmrq") = .malformed
#guard parseAddress .testnet (ascii "tb1qt4jxkuncsxrgl9u75x5t9wauchyaphlx5fdmrq") = .malformed
#guard parseAddress .regtest (ascii "tb1qt4jxkuncsxrgl9u75x5t9wauchyaphlx5fdmrq") = .malformed
-- "tb1qtzjxkuncsxrgl9u75x5t9wauchyaphlx5fdmr4"
#guard parseAddress .mainnet (ascii "tb1qtzjxkuncsxrgl9u75x5t9wauchyaphlx5fdmr4") = .malformed
#guard parseAddress .testnet (ascii "tb1qtzjxkuncsxrgl9u75x5t9wauchyaphlx5fdmr4") = .malformed
#guard parseAddress .regtest (ascii "tb1qtzjxkuncsxrgl9u75x5t9wauchyaphlx5fdmr4") = .malformed
-- "bcrt1qt4jxkuncsxrgl9u75x5t9wauchyaphlxkq5k5q"
#guard parseAddress .mainnet (ascii "bcrt1qt4jxkuncsxrgl9u75x5t9wauchyaphlxkq5k5q") = .malformed
#guard parseAddress .testnet (ascii "bcrt1qt4jxkuncsxrgl9u75x5t9wauchyaphlxkq5k5q") = .malformed
#guard parseAddress .regtest (ascii "bcrt1qt4jxkuncsxrgl9u75x5t9wauchyaphlxkq5k5q") = .malformed
-- "bcrt1qtzjxkuncsxrgl9u75x5t9wauchyaphlxkq5k5u"
#guard parseAddress .mainnet (ascii "bcrt1qtzjxkuncsxrgl9u75x5t9wauchyaphlxkq5k5u") = .malformed
#guard parseAddress .testnet (ascii "bcrt1qtzjxkuncsxrgl9u75x5t9wauchyaphlxkq5k5u") = .malformed
#guard parseAddress .regtest (ascii "bcrt1qtzjxkuncsxrgl9u75x5t9wauchyaphlxkq5k5u") = .malformed
-- "bc1pzu0z2tpj8dqyjn25tanxsut6swpc4yvc56hmf0decr9a9h89amms6v32aq"
#guard parseAddress .mainnet (ascii "bc1pzu0z2tpj8dqyjn25tanxsut6swpc4yvc56hmf0decr9a9h89amms6v32aq") = .malformed
#guard parseAddress .testnet (ascii "bc1pzu0z2tpj8dqyjn25tanxsut6swpc4yvc56hmf0decr9a9h89amms6v32aq") = .malformed
#guard parseAddress .regtest (ascii "bc1pzu0z2tpj8dqyjn25tanxsut6swpc4yvc56hmf0decr9a9h89amms6v32aq") = .malformed
-- "bc1pzz0z2tpj8dqyjn25tanxsut6swpc4yvc56hmf0decr9a9h89amms6v32a9"
#guard parseAddress .mainnet (ascii "bc1pzz0z2tpj8dqyjn25tanxsut6swpc4yvc56hmf0decr9a9h89amms6v32a9") = .malformed
#guard parseAddress .testnet (ascii "bc1pzz0z2tpj8dqyjn25tanxsut6swpc4yvc56hmf0decr9a9h89amms6v32a9") = .malformed
#guard parseAddress .regtest (ascii "bc1pzz0z2tpj8dqyjn25tanxsut6swpc4yvc56hmf0decr9a9h89amms6v32a9") = .malformed
-- "tb1pzu0z2tpj8dqyjn25tanxsut6swpc4yvc56hmf0decr9a9h89ammsdy898q"
#guard parseAddress .mainnet (ascii "tb1pzu0z2tpj8dqyjn25tanxsut6swpc4yvc56hmf0decr9a9h89ammsdy898q") = .malformed
#guard parseAddress .testnet (ascii "tb1pzu0z2tpj8dqyjn25tanxsut6swpc4yvc56hmf0decr9a9h89ammsdy898q") = .malformed
#guard parseAddress .regtest (ascii "tb1pzu0z2tpj8dqyjn25tanxsut6swpc4yvc56hmf0decr9a9h89ammsdy898q") = .malformed
-- "tb1pzz0z2tpj8dqyjn25tanxsut6swpc4yvc56hmf0decr9a9h89ammsdy8982"
#guard parseAddress .mainnet (ascii "tb1pzz0z2tpj8dqyjn25tanxsut6swpc4yvc56hmf0decr9a9h89ammsdy8982") = .malformed
#guard parseAddress .testnet (ascii "tb1pzz0z2tpj8dqyjn25tanxsut6swpc4yvc56hmf0decr9a9h89ammsdy8982") = .malformed
#guard parseAddress .regtest (ascii "tb1pzz0z2tpj8dqyjn25tanxsut6swpc4yvc56hmf0decr9a9h89ammsdy8982") = .malformed
-- "bcrt1pzu0z2tpj8dqyjn25tanxsut6swpc4yvc56hmf0decr9a9h89ammsqadrjq"
#guard parseAddress .mainnet (ascii "bcrt1pzu0z2tpj8dqyjn25tanxsut6swpc4yvc56hmf0decr9a9h89ammsqadrjq") = .malformed
#guard parseAddress .testnet (ascii "bcrt1pzu0z2tpj8dqyjn25tanxsut6swpc4yvc56hmf0decr9a9h89ammsqadrjq") = .malformed
#guard parseAddress .regtest (ascii "bcrt1pzu0z2tpj8dqyjn25tanxsut6swpc4yvc56hmf0decr9a9h89ammsqadrjq") = .malformed
-- "bcrt1pzz0z2tpj8dqyjn25tanxsut6swpc4yvc56hmf0decr9a9h89ammsqadrjs"
#guard parseAddress .mainnet (ascii "bcrt1pzz0z2tpj8dqyjn25tanxsut6swpc4yvc56hmf0decr9a9h89ammsqadrjs") = .malformed
#guard parseAddress .testnet (ascii "bcrt1pzz0z2tpj8dqyjn25tanxsut6swpc4yvc56hmf0decr9a9h89ammsqadrjs") = .malformed
#guard parseAddress .regtest (ascii "bcrt1pzz0z2tpj8dqyjn25tanxsut6swpc4yvc56hmf0decr9a9h89ammsqadrjs") = .malformed
-- "19Wp98DQXk3PjGV8TsmT9LHo7RsdkJQ4qq"
#guard parseAddress .mainnet (ascii "19Wp98DQXk3PjGV8TsmT9LHo7RsdkJQ4qq") = .malformed
#guard parseAddress .testnet (ascii "19Wp98DQXk3PjGV8TsmT9LHo7RsdkJQ4qq") = .malformed
#guard parseAddress .regtest (ascii "19Wp98DQXk3PjGV8TsmT9LHo7RsdkJQ4qq") = .malformed
-- "19Wp9zDQXk3PjGV8TsmT9LHo7RsdkJQ4qV"
#guard parseAddress .mainnet (ascii "19Wp9zDQXk3PjGV8TsmT9LHo7RsdkJQ4qV") = .malformed
#guard parseAddress .testnet (ascii "19Wp9zDQXk3PjGV8TsmT9LHo7RsdkJQ4qV") = .malformed
#guard parseAddress .regtest (ascii "19Wp9zDQXk3PjGV8TsmT9LHo7RsdkJQ4qV") = .malformed
-- "mp2mSBJPLmUeWNxkBSjpyFW7yRULdVYnNq"
#guard parseAddress .mainnet (ascii "mp2mSBJPLmUeWNxkBSjpyFW7yRULdVYnNq") = .malformed
#guard parseAddress .testnet (ascii "mp2mSBJPLmUeWNxkBSjpyFW7yRULdVYnNq") = .malformed
#guard parseAddress .regtest (ascii "mp2mSBJPLmUeWNxkBSjpyFW7yRULdVYnNq") = .malformed
-- "mp2mSzJPLmUeWNxkBSjpyFW7yRULdVYnNF"
#guard parseAddress .mainnet (ascii "mp2mSzJPLmUeWNxkBSjpyFW7yRULdVYnNF") = .malformed
#guard parseAddress .testnet (ascii "mp2mSzJPLmUeWNxkBSjpyFW7yRULdVYnNF") = .malformed
#guard parseAddress .regtest (ascii "mp2mSzJPLmUeWNxkBSjpyFW7yRULdVYnNF") = .malformed
-- "39HkHDJRYTiKwBDoZLdJpE5RrhQjNDUU5q"
#guard parseAddress .mainnet (ascii "39HkHDJRYTiKwBDoZLdJpE5RrhQjNDUU5q") = .malformed
#guard parseAddress .testnet (ascii "39HkHDJRYTiKwBDoZLdJpE5RrhQjNDUU5q") = .malformed
#guard parseAddress .regtest (ascii "39HkHDJRYTiKwBDoZLdJpE5RrhQjNDUU5q") = .malformed
-- "39HkHzJRYTiKwBDoZLdJpE5RrhQjNDUU5M"
#guard parseAddress .mainnet (ascii "39HkHzJRYTiKwBDoZLdJpE5RrhQjNDUU5M") = .malformed
#guard parseAddress .testnet (ascii "39HkHzJRYTiKwBDoZLdJpE5RrhQjNDUU5M") = .malformed
#guard parseAddress .regtest (ascii "39HkHzJRYTiKwBDoZLdJpE5RrhQjNDUU5M") = .malformed
-- "2MzqxLxET9vDg8xrMEUFBSB4h53cu7c5otq"
#guard parseAddress .mainnet (ascii "2MzqxLxET9vDg8xrMEUFBSB4h53cu7c5otq") = .malformed
#guard parseAddress .testnet (ascii "2MzqxLxET9vDg8xrMEUFBSB4h53cu7c5otq") = .malformed
#guard parseAddress .regtest (ascii "2MzqxLxET9vDg8xrMEUFBSB4h53cu7c5otq") = .malformed
-- "2MzqxzxET9vDg8xrMEUFBSB4h53cu7c5ott"
#guard parseAddress .mainnet (ascii "2MzqxzxET9vDg8xrMEUFBSB4h53cu7c5ott") = .malformed
#guard parseAddress .testnet (ascii "2MzqxzxET9vDg8xrMEUFBSB4h53cu7c5ott") = .malformed
#guard parseAddress .regtest (ascii "2MzqxzxET9vDg8xrMEUFBSB4h53cu7c5ott") = .malformed
-- "ltc1qt4jxkuncsxrgl9u75x5t9wauchyaphlx6nvvqk"
#guard parseAddress .mainnet (ascii "ltc1qt4jxkuncsxrgl9u75x5t9wauchyaphlx6nvvqk") = .malformed
#guard parseAddress .testnet (ascii "ltc1qt4jxkuncsxrgl9u75x5t9wauchyaphlx6nvvqk") = .malformed
#guard parseAddress .regtest (ascii "ltc1qt4jxkuncsxrgl9u75x5t9wauchyaphlx6nvvqk") = .malformed
-- "ltc1pzu0z2tpj8dqyjn25tanxsut6swpc4yvc56hmf0decr9a9h89ammsegl68q"
#guard parseAddress .mainnet (ascii "ltc1pzu0z2tpj8dqyjn25tanxsut6swpc4yvc56hmf0decr9a9h89ammsegl68q") = .malformed
#guard parseAddress .testnet (ascii "ltc1pzu0z2tpj8dqyjn25tanxsut6swpc4yvc56hmf0decr9a9h89ammsegl68q") = .malformed
#guard parseAddress .regtest (ascii "ltc1pzu0z2tpj8dqyjn25tanxsut6swpc4yvc56hmf0decr9a9h89ammsegl68q") = .malformed
-- "tc1qt4jxkuncsxrgl9u75x5t9wauchyaphlx6ehvch"
#guard parseAddress .mainnet (ascii "tc1qt4jxkuncsxrgl9u75x5t9wauchyaphlx6ehvch") = .malformed
#guard parseAddress .testnet (ascii "tc1qt4jxkuncsxrgl9u75x5t9wauchyaphlx6ehvch") = .malformed
#guard parseAddress .regtest (ascii "tc1qt4jxkuncsxrgl9u75x5t9wauchyaphlx6ehvch") = .malformed
-- "tc1pzu0z2tpj8dqyjn25tanxsut6swpc4yvc56hmf0decr9a9h89ammsvceunp"
#guard parseAddress .mainnet (ascii "tc1pzu0z2tpj8dqyjn25tanxsut6swpc4yvc56hmf0decr9a9h89ammsvceunp") = .malformed
#guard parseAddress .testnet (ascii "tc1pzu0z2tpj8dqyjn25tanxsut6swpc4yvc56hmf0decr9a9h89ammsvceunp") = .malformed
#guard parseAddress .regtest (ascii "tc1pzu0z2tpj8dqyjn25tanxsut6swpc4yvc56hmf0decr9a9h89ammsvceunp") = .malformed
-- "b1qt4jxkuncsxrgl9u75x5t9wauchyaphlxmgar0a"
#guard parseAddress .mainnet (ascii "b1qt4jxkuncsxrgl9u75x5t9wauchyaphlxmgar0a") = .malformed
#guard parseAddress .testnet (ascii "b1qt4jxkuncsxrgl9u75x5t9wauchyaphlxmgar0a") = .malformed
#guard parseAddress .regtest (ascii "b1qt4jxkuncsxrgl9u75x5t9wauchyaphlxmgar0a") = .malformed
-- "b1pzu0z2tpj8dqyjn25tanxsut6swpc4yvc56hmf0decr9a9h89ammsex0qn3"
#guard parseAddress .mainnet (ascii "b1pzu0z2tpj8dqyjn25tanxsut6swpc4yvc56hmf0decr9a9h89ammsex0qn3") = .malformed
#guard parseAddress .testnet (ascii "b1pzu0z2tpj8dqyjn25tanxsut6swpc4yvc56hmf0decr9a9h89ammsex0qn3") = .malformed
#guard parseAddress .regtest (ascii "b1pzu0z2tpj8dqyjn25tanxsut6swpc4yvc56hmf0decr9a9h89ammsex0qn3") = .malformed
-- "bcr1qt4jxkuncsxrgl9u75x5t9wauchyaphlxhfkn0k"
#guard parseAddress .mainnet (ascii "bcr1qt4jxkuncsxrgl9u75x5t9wauchyaphlxhfkn0k") = .malformed
#guard parseAddress .testnet (ascii "bcr1qt4jxkuncsxrgl9u75x5t9wauchyaphlxhfkn0k") = .malformed
#guard parseAddress .regtest (ascii "bcr1qt4jxkuncsxrgl9u75x5t9wauchyaphlxhfkn0k") = .malformed
-- "bcr1pzu0z2tpj8dqyjn25tanxsut6swpc4yvc56hmf0decr9a9h89ammskzpptr"
#guard parseAddress .mainnet (ascii "bcr1pzu0z2tpj8dqyjn25tanxsut6swpc4yvc56hmf0decr9a9h89ammskzpptr") = .malformed
#guard parseAddress .testnet (ascii "bcr1pzu0z2tpj8dqyjn25tanxsut6swpc4yvc56hmf0decr9a9h89ammskzpptr") = .malformed
#guard parseAddress .regtest (ascii "bcr1pzu0z2tpj8dqyjn25tanxsut6swpc4yvc56hmf0decr9a9h89ammskzpptr") = .malformed
-- "bcrtt1qt4jxkuncsxrgl9u75x5t9wauchyaphlxu5puhz"
#guard parseAddress .mainnet (ascii "bcrtt1qt4jxkuncsxrgl9u75x5t9wauchyaphlxu5puhz") = .malformed
#guard parseAddress .testnet (ascii "bcrtt1qt4jxkuncsxrgl9u75x5t9wauchyaphlxu5puhz") = .malformed
#guard parseAddress .regtest (ascii "bcrtt1qt4jxkuncsxrgl9u75x5t9wauchyaphlxu5puhz") = .malformed
-- "bcrtt1pzu0z2tpj8dqyjn25tanxsut6swpc4yvc56hmf0decr9a9h89ammskalp2a"
#guard parseAddress .mainnet (ascii "bcrtt1pzu0z2tpj8dqyjn25tanxsut6swpc4yvc56hmf0decr9a9h89ammskalp2a") = .malformed
#guard parseAddress .testnet (ascii "bcrtt1pzu0z2tpj8dqyjn25tanxsut6swpc4yvc56hmf0decr9a9h89ammskalp2a") = .malformed
#guard parseAddress .regtest (ascii "bcrtt1pzu0z2tpj8dqyjn25tanxsut6swpc4yvc56hmf0decr9a9h89ammskalp2a") = .malformed
-- "tbb1qt4jxkuncsxrgl9u75x5t9wauchyaphlx2e7kl0"
#guard parseAddress .mainnet (ascii "tbb1qt4jxkuncsxrgl9u75x5t9wauchyaphlx2e7kl0") = .malformed
#guard parseAddress .testnet (ascii "tbb1qt4jxkuncsxrgl9u75x5t9wauchyaphlx2e7kl0") = .malformed
#guard parseAddress .regtest (ascii "tbb1qt4jxkuncsxrgl9u75x5t9wauchyaphlx2e7kl0") = .malformed
-- "tbb1pzu0z2tpj8dqyjn25tanxsut6swpc4yvc56hmf0decr9a9h89amms6fa5cp"
#guard parseAddress .mainnet (ascii "tbb1pzu0z2tpj8dqyjn25tanxsut6swpc4yvc56hmf0decr9a9h89amms6fa5cp") = .malformed
#guard parseAddress .testnet (ascii "tbb1pzu0z2tpj8dqyjn25tanxsut6swpc4yvc56hmf0decr9a9h89amms6fa5cp") = .malformed
#guard parseAddress .regtest (ascii "tbb1pzu0z2tpj8dqyjn25tanxsut6swpc4yvc56hmf0decr9a9h89amms6fa5cp") = .malformed
-- "bc11qt4jxkuncsxrgl9u75x5t9wauchyaphlx0m4z00"
#guard parseAddress .mainnet (ascii "bc11qt4jxkuncsxrgl9u75x5t9wauchyaphlx0m4z00") = .malformed
#guard parseAddress .testnet (ascii "bc11qt4jxkuncsxrgl9u75x5t9wauchyaphlx0m4z00") = .malformed
#guard parseAddress .regtest (ascii "bc11qt4jxkuncsxrgl9u75x5t9wauchyaphlx0m4z00") = .malformed
-- "bc11pzu0z2tpj8dqyjn25tanxsut6swpc4yvc56hmf0decr9a9h89ammsdt7dfl"
#guard parseAddress .mainnet (ascii "bc11pzu0z2tpj8dqyjn25tanxsut6swpc4yvc56hmf0decr9a9h89ammsdt7dfl") = .malformed
#guard parseAddress .testnet (ascii "bc11pzu0z2tpj8dqyjn25tanxsut6swpc4yvc56hmf0decr9a9h89ammsdt7dfl") = .malformed
#guard parseAddress .regtest (ascii "bc11pzu0z2tpj8dqyjn25tanxsut6swpc4yvc56hmf0decr9a9h89ammsdt7dfl") = .malformed
-- "a1b1qt4jxkuncsxrgl9u75x5t9wauchyaphlxspmn85"
#guard parseAddress .mainnet (ascii "a1b1qt4jxkuncsxrgl9u75x5t9wauchyaphlxspmn85") = .malformed
#guard parseAddress .testnet (ascii "a1b1qt4jxkuncsxrgl9u75x5t9wauchyaphlxspmn85") = .malformed
#guard parseAddress .regtest (ascii "a1b1qt4jxkuncsxrgl9u75x5t9wauchyaphlxspmn85") = .malformed
-- "a1b1pzu0z2tpj8dqyjn25tanxsut6swpc4yvc56hmf0decr9a9h89ammsdlvjuc"
#guard parseAddress .mainnet (ascii "a1b1pzu0z2tpj8dqyjn25tanxsut6swpc4yvc56hmf0decr9a9h89ammsdlvjuc") = .malformed
#guard parseAddress .testnet (ascii "a1b1pzu0z2tpj8dqyjn25tanxsut6swpc4yvc56hmf0decr9a9h89ammsdlvjuc") = .malformed
#guard parseAddress .regtest (ascii "a1b1pzu0z2tpj8dqyjn25tanxsut6swpc4yvc56hmf0decr9a9h89ammsdlvjuc") = .malformed
-- "tb11qt4jxkuncsxrgl9u75x5t9wauchyaphlxy3rk3l"
#guard parseAddress .mainnet (ascii "tb11qt4jxkuncsxrgl9u75x5t9wauchyaphlxy3rk3l") = .malformed
#guard parseAddress .testnet (ascii "tb11qt4jxkuncsxrgl9u75x5t9wauchyaphlxy3rk3l") = .malformed
#guard parseAddress .regtest (ascii "tb11qt4jxkuncsxrgl9u75x5t9wauchyaphlxy3rk3l") = .malformed
-- "tb11pzu0z2tpj8dqyjn25tanxsut6swpc4yvc56hmf0decr9a9h89amms39wljf"
#guard parseAddress .mainnet (ascii "tb11pzu0z2tpj8dqyjn25tanxsut6swpc4yvc56hmf0decr9a9h89amms39wljf") = .malformed
#guard parseAddress .testnet (ascii "tb11pzu0z2tpj8dqyjn25tanxsut6swpc4yvc56hmf0decr9a9h89amms39wljf") = .malformed
#guard parseAddress .regtest (ascii "tb11pzu0z2tpj8dqyjn25tanxsut6swpc4yvc56hmf0decr9a9h89amms39wljf") = .malformed
-- "x1qt4jxkuncsxrgl9u75x5t9wauchyaphlx6k3feq"
#guard parseAddress .mainnet (ascii "x1qt4jxkuncsxrgl9u75x5t9wauchyaphlx6k3feq") = .malformed
#guard parseAddress .testnet (ascii "x1qt4jxkuncsxrgl9u75x5t9wauchyaphlx6k3feq") = .malformed
#guard parseAddress .regtest (ascii "x1qt4jxkuncsxrgl9u75x5t9wauchyaphlx6k3feq") = .malformed
-- "x1pzu0z2tpj8dqyjn25tanxsut6swpc4yvc56hmf0decr9a9h89ammsryst7e"
#guard parseAddress .mainnet (ascii "x1pzu0z2tpj8dqyjn25tanxsut6swpc4yvc56hmf0decr9a9h89ammsryst7e") = .malformed
#guard parseAddress .testnet (ascii "x1pzu0z2tpj8dqyjn25tanxsut6swpc4yvc56hmf0decr9a9h89ammsryst7e") = .malformed
#guard parseAddress .regtest (ascii "x1pzu0z2tpj8dqyjn25tanxsut6swpc4yvc56hmf0decr9a9h89ammsryst7e") = .malformed
-- "doge1qt4jxkuncsxrgl9u75x5t9wauchyaphlxa4epnr"
#guard parseAddress .mainnet (ascii "doge1qt4jxkuncsxrgl9u75x5t9wauchyaphlxa4epnr") = .malformed
#guard parseAddress .testnet (ascii "doge1qt4jxkuncsxrgl9u75x5t9wauchyaphlxa4epnr") = .malformed
#guard parseAddress .regtest (ascii "doge1qt4jxkuncsxrgl9u75x5t9wauchyaphlxa4epnr") = .malformed
-- "doge1pzu0z2tpj8dqyjn25tanxsut6swpc4yvc56hmf0decr9a9h89amms5pkyqm"
#guard parseAddress .mainnet (ascii "doge1pzu0z2tpj8dqyjn25tanxsut6swpc4yvc56hmf0decr9a9h89amms5pkyqm") = .malformed
#guard parseAddress .testnet (ascii "doge1pzu0z2tpj8dqyjn25tanxsut6swpc4yvc56hmf0decr9a9h89amms5pkyqm") = .malformed
#guard parseAddress .regtest (ascii "doge1pzu0z2tpj8dqyjn25tanxsut6swpc4yvc56hmf0decr9a9h89amms5pkyqm") = .malformed
-- "Bc1qt4jxkuncsxrgl9u75x5t9wauchyaphlx70kgcx"
#guard parseAddress .mainnet (ascii "Bc1qt4jxkuncsxrgl9u75x5t9wauchyaphlx70kgcx") = .malformed
#guard parseAddress .testnet (ascii "Bc1qt4jxkuncsxrgl9u75x5t9wauchyaphlx70kgcx") = .malformed
#guard parseAddress .regtest (ascii "Bc1qt4jxkuncsxrgl9u75x5t9wauchyaphlx70kgcx") = .malformed
-- "Bc1pzu0z2tpj8dqyjn25tanxsut6swpc4yvc56hmf0decr9a9h89amms6v32a9"
#guard parseAddress .mainnet (ascii "Bc1pzu0z2tpj8dqyjn25tanxsut6swpc4yvc56hmf0decr9a9h89amms6v32a9") = .malformed
#guard parseAddress .testnet (ascii "Bc1pzu0z2tpj8dqyjn25tanxsut6swpc4yvc56hmf0decr9a9h89amms6v32a9") = .malformed
#guard parseAddress .regtest (ascii "Bc1pzu0z2tpj8dqyjn25tanxsut6swpc4yvc56hmf0decr9a9h89amms6v32a9") = .malformed
-- "bC1qt4jxkuncsxrgl9u75x5t9wauchyaphlx70kgcx"
#guard parseAddress .mainnet (ascii "bC1qt4jxkuncsxrgl9u75x5t9wauchyaphlx70kgcx") = .malformed
#guard parseAddress .testnet (ascii "bC1qt4jxkuncsxrgl9u75x5t9wauchyaphlx70kgcx") = .malformed
#guard parseAddress .regtest (ascii "bC1qt4jxkuncsxrgl9u75x5t9wauchyaphlx70kgcx") = .malformed
-- "bC1pzu0z2tpj8dqyjn25tanxsut6swpc4yvc56hmf0decr9a9h89amms6v32a9"
#guard parseAddress .mainnet (ascii "bC1pzu0z2tpj8dqyjn25tanxsut6swpc4yvc56hmf0decr9a9h89amms6v32a9") = .malformed
#guard parseAddress .testnet (ascii "bC1pzu0z2tpj8dqyjn25tanxsut6swpc4yvc56hmf0decr9a9h89amms6v32a9") = .malformed
#guard parseAddress .regtest (ascii "bC1pzu0z2tpj8dqyjn25tanxsut6swpc4yvc56hmf0decr9a9h89amms6v32a9") = .malformed
-- "tB1qt4jxkuncsxrgl9u75x5t9wauchyaphlx5fdmr4"
#guard parseAddress .mainnet (ascii "tB1qt4jxkuncsxrgl9u75x5t9wauchyaphlx5fdmr4") = .malformed
#guard parseAddress .testnet (ascii "tB1qt4jxkuncsxrgl9u75x5t9wauchyaphlx5fdmr4") = .malformed
#guard parseAddress .regtest (ascii "tB1qt4jxkuncsxrgl9u75x5t9wauchyaphlx5fdmr4") = .malformed
-- "tB1pzu0z2tpj8dqyjn25tanxsut6swpc4yvc56hmf0decr9a9h89ammsdy8982"
#guard parseAddress .mainnet (ascii "tB1pzu0z2tpj8dqyjn25tanxsut6swpc4yvc56hmf0decr9a9h89ammsdy8982") = .malformed
#guard parseAddress .testnet (ascii "tB1pzu0z2tpj8dqyjn25tanxsut6swpc4yvc56hmf0decr9a9h89ammsdy8982") = .malformed
#guard parseAddress .regtest (ascii "tB1pzu0z2tpj8dqyjn25tanxsut6swpc4yvc56hmf0decr9a9h89ammsdy8982") = .malformed
-- "bcRt1qt4jxkuncsxrgl9u75x5t9wauchyaphlxkq5k5u"
#guard parseAddress .mainnet (ascii "bcRt1qt4jxkuncsxrgl9u75x5t9wauchyaphlxkq5k5u") = .malformed
#guard parseAddress .testnet (ascii "bcRt1qt4jxkuncsxrgl9u75x5t9wauchyaphlxkq5k5u") = .malformed
#guard parseAddress .regtest (ascii "bcRt1qt4jxkuncsxrgl9u75x5t9wauchyaphlxkq5k5u") = .malformed
-- "bcRt1pzu0z2tpj8dqyjn25tanxsut6swpc4yvc56hmf0decr9a9h89ammsqadrjs"
#guard parseAddress .mainnet (ascii "bcRt1pzu0z2tpj8dqyjn25tanxsut6swpc4yvc56hmf0decr9a9h89ammsqadrjs") = .malformed
#guard parseAddress .testnet (ascii "bcRt1pzu0z2tpj8dqyjn25tanxsut6swpc4yvc56hmf0decr9a9h89ammsqadrjs") = .malformed
#guard parseAddress .regtest (ascii "bcRt1pzu0z2tpj8dqyjn25tanxsut6swpc4yvc56hmf0decr9a9h89ammsqadrjs") = .malformed
-- "!1qt4jxkuncsxrgl9u75x5t9wauchyaphlx8s9vnw"
#guard parseAddress .mainnet (ascii "!1qt4jxkuncsxrgl9u75x5t9wauchyaphlx8s9vnw") = .malformed
#guard parseAddress .testnet (ascii "!1qt4jxkuncsxrgl9u75x5t9wauchyaphlx8s9vnw") = .malformed
#guard parseAddress .regtest (ascii "!1qt4jxkuncsxrgl9u75x5t9wauchyaphlx8s9vnw") = .malformed
-- "!1pzu0z2tpj8dqyjn25tanxsut6swpc4yvc56hmf0decr9a9h89ammse58ycp"
#guard parseAddress .mainnet (ascii "!1pzu0z2tpj8dqyjn25tanxsut6swpc4yvc56hmf0decr9a9h89ammse58ycp") = .malformed
#guard parseAddress .testnet (ascii "!1pzu0z2tpj8dqyjn25tanxsut6swpc4yvc56hmf0decr9a9h89ammse58ycp") = .malformed
#guard parseAddress .regtest (ascii "!1pzu0z2tpj8dqyjn25tanxsut6swpc4yvc56hmf0decr9a9h89ammse58ycp") = .malformed
-- "~~1qt4jxkuncsxrgl9u75x5t9wauchyaphlxgxtgaj"
#guard parseAddress .mainnet (ascii "~~1qt4jxkuncsxrgl9u75x5t9wauchyaphlxgxtgaj") = .malformed
#guard parseAddress .testnet (ascii "~~1qt4jxkuncsxrgl9u75x5t9wauchyaphlxgxtgaj") = .malformed
#guard parseAddress .regtest (ascii "~~1qt4jxkuncsxrgl9u75x5t9wauchyaphlxgxtgaj") = .malformed
-- "~~1pzu0z2tpj8dqyjn25tanxsut6swpc4yvc56hmf0decr9a9h89ammsm78qcp"
#guard parseAddress .mainnet (ascii "~~1pzu0z2tpj8dqyjn25tanxsut6swpc4yvc56hmf0decr9a9h89ammsm78qcp") = .malformed
#guard parseAddress .testnet (ascii "~~1pzu0z2tpj8dqyjn25tanxsut6swpc4yvc56hmf0decr9a9h89ammsm78qcp") = .malformed
#guard parseAddress .regtest (ascii "~~1pzu0z2tpj8dqyjn25tanxsut6swpc4yvc56hmf0decr9a9h89ammsm78qcp") = .malformed
-- "11qt4jxkuncsxrgl9u75x5t9wauchyaphlx32maa8"
#guard parseAddress .mainnet (ascii "11qt4jxkuncsxrgl9u75x5t9wauchyaphlx32maa8") = .malformed
#guard parseAddress .testnet (ascii "11qt4jxkuncsxrgl9u75x5t9wauchyaphlx32maa8") = .malformed
#guard parseAddress .regtest (ascii "11qt4jxkuncsxrgl9u75x5t9wauchyaphlx32maa8") = .malformed
-- "11pzu0z2tpj8dqyjn25tanxsut6swpc4yvc56hmf0decr9a9h89ammsf3trs4"
#guard parseAddress .mainnet (ascii "11pzu0z2tpj8dqyjn25tanxsut6swpc4yvc56hmf0decr9a9h89ammsf3trs4") = .malformed
#guard parseAddress .testnet (ascii "11pzu0z2tpj8dqyjn25tanxsut6swpc4yvc56hmf0decr9a9h89ammsf3trs4") = .malformed
#guard parseAddress .regtest (ascii "11pzu0z2tpj8dqyjn25tanxsut6swpc4yvc56hmf0decr9a9h89ammsf3trs4") = .malformed
-- "1qt4jxkuncsxrgl9u75x5t9wauchyaphlxfhcwma"
#guard parseAddress .mainnet (ascii "1qt4jxkuncsxrgl9u75x5t9wauchyaphlxfhcwma") = .malformed
#guard parseAddress .testnet (ascii "1qt4jxkuncsxrgl9u75x5t9wauchyaphlxfhcwma") = .malformed
#guard parseAddress .regtest (ascii "1qt4jxkuncsxrgl9u75x5t9wauchyaphlxfhcwma") = .malformed
-- " 1qt4jxkuncsxrgl9u75x5t9wauchyaphlxfqlmgv"
#guard parseAddress .mainnet (ascii " 1qt4jxkuncsxrgl9u75x5t9wauchyaphlxfqlmgv") = .malformed
#guard parseAddress .testnet (ascii " 1qt4jxkuncsxrgl9u75x5t9wauchyaphlxfqlmgv") = .malformed
#guard parseAddress .regtest (ascii " 1qt4jxkuncsxrgl9u75x5t9wauchyaphlxfqlmgv") = .malformed
-- "b c1qt4jxkuncsxrgl9u75x5t9wauchyaphlxk40pgn"
#guard parseAddress .mainnet (ascii "b c1qt4jxkuncsxrgl9u75x5t9wauchyaphlxk40pgn") = .malformed
#guard parseAddress .testnet (ascii "b c1qt4jxkuncsxrgl9u75x5t9wauchyaphlxk40pgn") = .malformed
#guard parseAddress .regtest (ascii "b c1qt4jxkuncsxrgl9u75x5t9wauchyaphlxk40pgn") = .malformed
-- "bc 1qt4jxkuncsxrgl9u75x5t9wauchyaphlxh33y6y"
#guard parseAddress .mainnet (ascii "bc 1qt4jxkuncsxrgl9u75x5t9wauchyaphlxh33y6y") = .malformed
#guard parseAddress .testnet (ascii "bc 1qt4jxkuncsxrgl9u75x5t9wauchyaphlxh33y6y") = .malformed
#guard parseAddress .regtest (ascii "bc 1qt4jxkuncsxrgl9u75x5t9wauchyaphlxh33y6y") = .malformed
-- " bc1qt4jxkuncsxrgl9u75x5t9wauchyaphlx6g40w4"
#guard parseAddress .mainnet (ascii " bc1qt4jxkuncsxrgl9u75x5t9wauchyaphlx6g40w4") = .malformed
#guard parseAddress .testnet (ascii " bc1qt4jxkuncsxrgl9u75x5t9wauchyaphlx6g40w4") = .malformed
#guard parseAddress .regtest (ascii " bc1qt4jxkuncsxrgl9u75x5t9wauchyaphlx6g40w4") = .malformed
-- "\u{7f}1qt4jxkuncsxrgl9u75x5t9wauchyaphlxea9h2w"
#guard parseAddress .mainnet (hex "7f317174346a786b756e63737872676c39753735783574397761756368796170686c78656139683277") = .malformed
#guard parseAddress .testnet (hex "7f317174346a786b756e63737872676c39753735783574397761756368796170686c78656139683277") = .malformed
#guard parseAddress .regtest (hex "7f317174346a786b756e63737872676c39753735783574397761756368796170686c78656139683277") = .malformed
-- "b\u{1}1qt4jxkuncsxrgl9u75x5t9wauchyaphlx5qlz0d"
#guard parseAddress .mainnet (hex "6201317174346a786b756e63737872676c39753735783574397761756368796170686c7835716c7a3064") = .malformed
#guard parseAddress .testnet (hex "6201317174346a786b756e63737872676c39753735783574397761756368796170686c7835716c7a3064") = .malformed
#guard parseAddress .regtest (hex "6201317174346a786b756e63737872676c39753735783574397761756368796170686c7835716c7a3064") = .malformed
-- "é1qt4jxkuncsxrgl9u75x5t9wauchyaphlx0pld62"
#guard parseAddress .mainnet (hex "c3a9317174346a786b756e63737872676c39753735783574397761756368796170686c7830706c643632") = .malformed
#guard parseAddress .testnet (hex "c3a9317174346a786b756e63737872676c39753735783574397761756368796170686c7830706c643632") = .malformed
#guard parseAddress .regtest (hex "c3a9317174346a786b756e63737872676c39753735783574397761756368796170686c7830706c643632") = .malformed
-- "bcé1qt4jxkuncsxrgl9u75x5t9wauchyaphlxa47xsq"
#guard parseAddress .mainnet (hex "6263c3a9317174346a786b756e63737872676c39753735783574397761756368796170686c78613437787371") = .malformed
#guard parseAddress .testnet (hex "6263c3a9317174346a786b756e63737872676c39753735783574397761756368796170686c78613437787371") = .malformed
#guard parseAddress .regtest (hex "6263c3a9317174346a786b756e63737872676c39753735783574397761756368796170686c78613437787371") = .malformed
-- "aaaaaaaaaaaaaaaaaaaaaaaaaaaaaaaaaaaaaaaaaaaaaaaaaaaaaaaaaaaaaaaaaaaaaaaaaaaaaa1pqypqjw2hyg"
#guard parseAddress .mainnet (ascii "aaaaaaaaaaaaaaaaaaaaaaaaaaaaaaaaaaaaaaaaaaaaaaaaaaaaaaaaaaaaaaaaaaaaaaaaaaaaaa1pqypqjw2hyg") = .malformed
#guard parseAddress .testnet (ascii "aaaaaaaaaaaaaaaaaaaaaaaaaaaaaaaaaaaaaaaaaaaaaaaaaaaaaaaaaaaaaaaaaaaaaaaaaaaaaa1pqypqjw2hyg") = .malformed
#guard parseAddress .regtest (ascii "aaaaaaaaaaaaaaaaaaaaaaaaaaaaaaaaaaaaaaaaaaaaaaaaaaaaaaaaaaaaaaaaaaaaaaaaaaaaaa1pqypqjw2hyg") = .malformed
-- "aaaaaaaaaaaaaaaaaaaaaaaaaaaaaaaaaaaaaaaaaaaaaaaaaaaaaaaaaaaaaaaaaaaaaaaaaaaaaaa1pqypqffp4gs"
#guard parseAddress .mainnet (ascii "aaaaaaaaaaaaaaaaaaaaaaaaaaaaaaaaaaaaaaaaaaaaaaaaaaaaaaaaaaaaaaaaaaaaaaaaaaaaaaa1pqypqffp4gs") = .malformed
#guard parseAddress .testnet (ascii "aaaaaaaaaaaaaaaaaaaaaaaaaaaaaaaaaaaaaaaaaaaaaaaaaaaaaaaaaaaaaaaaaaaaaaaaaaaaaaa1pqypqffp4gs") = .malformed
#guard parseAddress .regtest (ascii "aaaaaaaaaaaaaaaaaaaaaaaaaaaaaaaaaaaaaaaaaaaaaaaaaaaaaaaaaaaaaaaaaaaaaaaaaaaaaaa1pqypqffp4gs") = .malformed
-- "YrR8EWhEvWGYhdDVJ6mdTZajw8aRqphWu"
#guard parseAddress .mainnet (ascii "YrR8EWhEvWGYhdDVJ6mdTZajw8aRqphWu") = .malformed
#guard parseAddress .testnet (ascii "YrR8EWhEvWGYhdDVJ6mdTZajw8aRqphWu") = .malformed
#guard parseAddress .regtest (ascii "YrR8EWhEvWGYhdDVJ6mdTZajw8aRqphWu") = .malformed
-- "2ksE5ZQZNTtu113UZZ6j5qNwdSuQa7GfYW"
#guard parseAddress .mainnet (ascii "2ksE5ZQZNTtu113UZZ6j5qNwdSuQa7GfYW") = .malformed
#guard parseAddress .testnet (ascii "2ksE5ZQZNTtu113UZZ6j5qNwdSuQa7GfYW") = .malformed
#guard parseAddress .regtest (ascii "2ksE5ZQZNTtu113UZZ6j5qNwdSuQa7GfYW") = .malformed
-- "3ZYS3n18nppedsKecPmN45vWtTRJ1tTU85"
#guard parseAddress .mainnet (ascii "3ZYS3n18nppedsKecPmN45vWtTRJ1tTU85") = .malformed
#guard parseAddress .testnet (ascii "3ZYS3n18nppedsKecPmN45vWtTRJ1tTU85") = .malformed
#guard parseAddress .regtest (ascii "3ZYS3n18nppedsKecPmN45vWtTRJ1tTU85") = .malformed
-- "DDeugPA3q9wgGGfjCTm1h6TPzZbw3o8uXT"
#guard parseAddress .mainnet (ascii "DDeugPA3q9wgGGfjCTm1h6TPzZbw3o8uXT") = .malformed
#guard parseAddress .testnet (ascii "DDeugPA3q9wgGGfjCTm1h6TPzZbw3o8uXT") = .malformed
#guard parseAddress .regtest (ascii "DDeugPA3q9wgGGfjCTm1h6TPzZbw3o8uXT") = .malformed
-- "9zx5oWmk9iEfioZ3176Tp6H6xXYPRDT1mA"
#guard parseAddress .mainnet (ascii "9zx5oWmk9iEfioZ3176Tp6H6xXYPRDT1mA") = .malformed
#guard parseAddress .testnet (ascii "9zx5oWmk9iEfioZ3176Tp6H6xXYPRDT1mA") = .malformed
#guard parseAddress .regtest (ascii "9zx5oWmk9iEfioZ3176Tp6H6xXYPRDT1mA") = .malformed
-- "LTjmQLXEcQHSz5BHe1kkRMMZKeEuqKmw8a"
#guard parseAddress .mainnet (ascii "LTjmQLXEcQHSz5BHe1kkRMMZKeEuqKmw8a") = .malformed
#guard parseAddress .testnet (ascii "LTjmQLXEcQHSz5BHe1kkRMMZKeEuqKmw8a") = .malformed
#guard parseAddress .regtest (ascii "LTjmQLXEcQHSz5BHe1kkRMMZKeEuqKmw8a") = .malformed
-- "MGQyNZ7p2mDCcwTTgrRPPbu8aekoKficGs"
#guard parseAddress .mainnet (ascii "MGQyNZ7p2mDCcwTTgrRPPbu8aekoKficGs") = .malformed
#guard parseAddress .testnet (ascii "MGQyNZ7p2mDCcwTTgrRPPbu8aekoKficGs") = .malformed
#guard parseAddress .regtest (ascii "MGQyNZ7p2mDCcwTTgrRPPbu8aekoKficGs") = .malformed
-- "mQhAT516db1mgwpfA2QWV8ELLvDPwjJSs7"
#guard parseAddress .mainnet (ascii "mQhAT516db1mgwpfA2QWV8ELLvDPwjJSs7") = .malformed
#guard parseAddress .testnet (ascii "mQhAT516db1mgwpfA2QWV8ELLvDPwjJSs7") = .malformed
#guard parseAddress .regtest (ascii "mQhAT516db1mgwpfA2QWV8ELLvDPwjJSs7") = .malformed
-- "nDNNRHbg3wwXKp6qCs59TNmubvjHPLG8vJ"
#guard parseAddress .mainnet (ascii "nDNNRHbg3wwXKp6qCs59TNmubvjHPLG8vJ") = .malformed
#guard parseAddress .testnet (ascii "nDNNRHbg3wwXKp6qCs59TNmubvjHPLG8vJ") = .malformed
#guard parseAddress .regtest (ascii "nDNNRHbg3wwXKp6qCs59TNmubvjHPLG8vJ") = .malformed
-- "ten2B2NHQqMYQkLDbaQFDP8VfzrNhdgzXU"
#guard parseAddress .mainnet (ascii "ten2B2NHQqMYQkLDbaQFDP8VfzrNhdgzXU") = .malformed
#guard parseAddress .testnet (ascii "ten2B2NHQqMYQkLDbaQFDP8VfzrNhdgzXU") = .malformed
#guard parseAddress .regtest (ascii "ten2B2NHQqMYQkLDbaQFDP8VfzrNhdgzXU") = .malformed
-- "2McRS9JLayvQFCng2EgibhnNCqo7aPg1vpN"
#guard parseAddress .mainnet (ascii "2McRS9JLayvQFCng2EgibhnNCqo7aPg1vpN") = .malformed
#guard parseAddress .testnet (ascii "2McRS9JLayvQFCng2EgibhnNCqo7aPg1vpN") = .malformed
#guard parseAddress .regtest (ascii "2McRS9JLayvQFCng2EgibhnNCqo7aPg1vpN") = .malformed
-- "2NR6e7WwAQHKzqexCHXPEg2un6odTqaeMr6"
#guard parseAddress .mainnet (ascii "2NR6e7WwAQHKzqexCHXPEg2un6odTqaeMr6") = .malformed
#guard parseAddress .testnet (ascii "2NR6e7WwAQHKzqexCHXPEg2un6odTqaeMr6") = .malformed
#guard parseAddress .regtest (ascii "2NR6e7WwAQHKzqexCHXPEg2un6odTqaeMr6") = .malformed
-- "2fKHyU5TGDrnoBroqK9Nd3JLpXzT5bgJ7NV"
#guard parseAddress .mainnet (ascii "2fKHyU5TGDrnoBroqK9Nd3JLpXzT5bgJ7NV") = .malformed
#guard parseAddress .testnet (ascii "2fKHyU5TGDrnoBroqK9Nd3JLpXzT5bgJ7NV") = .malformed
#guard parseAddress .regtest (ascii "2fKHyU5TGDrnoBroqK9Nd3JLpXzT5bgJ7NV") = .malformed
-- "2mkhdDpDsakCpGo3DhrhioJhQc4aAz2QWRM"
#guard parseAddress .mainnet (ascii "2mkhdDpDsakCpGo3DhrhioJhQc4aAz2QWRM") = .malformed
#guard parseAddress .testnet (ascii "2mkhdDpDsakCpGo3DhrhioJhQc4aAz2QWRM") = .malformed
#guard parseAddress .regtest (ascii "2mkhdDpDsakCpGo3DhrhioJhQc4aAz2QWRM") = .malformed
-- "1Wh4bh"
#guard parseAddress .mainnet (ascii "1Wh4bh") = .malformed
#guard parseAddress .testnet (ascii "1Wh4bh") = .malformed
#guard parseAddress .regtest (ascii "1Wh4bh") = .malformed
-- "1Acusj3d"
#guard parseAddress .mainnet (ascii "1Acusj3d") = .malformed
#guard parseAddress .testnet (ascii "1Acusj3d") = .malformed
#guard parseAddress .regtest (ascii "1Acusj3d") = .malformed
-- "12mFymX1hjd5Sw3MMrLoyXetEoZgJRyFH"
#guard parseAddress .mainnet (ascii "12mFymX1hjd5Sw3MMrLoyXetEoZgJRyFH") = .malformed
#guard parseAddress .testnet (ascii "12mFymX1hjd5Sw3MMrLoyXetEoZgJRyFH") = .malformed
#guard parseAddress .regtest (ascii "12mFymX1hjd5Sw3MMrLoyXetEoZgJRyFH") = .malformed
-- "1bM9mxQecaaw9v55VpsYq6JxePF5aEEmGnW"
#guard parseAddress .mainnet (ascii "1bM9mxQecaaw9v55VpsYq6JxePF5aEEmGnW") = .malformed
#guard parseAddress .testnet (ascii "1bM9mxQecaaw9v55VpsYq6JxePF5aEEmGnW") = .malformed
#guard parseAddress .regtest (ascii "1bM9mxQecaaw9v55VpsYq6JxePF5aEEmGnW") = .malformed
-- "13cbwjRZP23En2MEzrEJ7VGSGc1B9BewfuaQD"
#guard parseAddress .mainnet (ascii "13cbwjRZP23En2MEzrEJ7VGSGc1B9BewfuaQD") = .malformed
#guard parseAddress .testnet (ascii "13cbwjRZP23En2MEzrEJ7VGSGc1B9BewfuaQD") = .malformed
#guard parseAddress .regtest (ascii "13cbwjRZP23En2MEzrEJ7VGSGc1B9BewfuaQD") = .malformed
-- "1ebRuZm6Np9vHdQ584C74onGXnhC9Dbf13Z4DRWuVeGA3FZ2MN"
#guard parseAddress .mainnet (ascii "1ebRuZm6Np9vHdQ584C74onGXnhC9Dbf13Z4DRWuVeGA3FZ2MN") = .malformed
#guard parseAddress .testnet (ascii "1ebRuZm6Np9vHdQ584C74onGXnhC9Dbf13Z4DRWuVeGA3FZ2MN") = .malformed
#guard parseAddress .regtest (ascii "1ebRuZm6Np9vHdQ584C74onGXnhC9Dbf13Z4DRWuVeGA3FZ2MN") = .malformed
-- "dDc8z6"
#guard parseAddress .mainnet (ascii "dDc8z6") = .malformed
#guard parseAddress .testnet (ascii "dDc8z6") = .malformed
#guard parseAddress .regtest (ascii "dDc8z6") = .malformed
-- "3f1d8FQG"
#guard parseAddress .mainnet (ascii "3f1d8FQG") = .malformed
#guard parseAddress .testnet (ascii "3f1d8FQG") = .malformed
#guard parseAddress .regtest (ascii "3f1d8FQG") = .malformed
-- "VCdwQ76av7iAtFgeQtfTmL4hCjpM22e8"
#guard parseAddress .mainnet (ascii "VCdwQ76av7iAtFgeQtfTmL4hCjpM22e8") = .malformed
#guard parseAddress .testnet (ascii "VCdwQ76av7iAtFgeQtfTmL4hCjpM22e8") = .malformed
#guard parseAddress .regtest (ascii "VCdwQ76av7iAtFgeQtfTmL4hCjpM22e8") = .malformed
-- "AUPmrHQBPPW4eisYP9stmnoMdzvrzDCTRh8"
#guard parseAddress .mainnet (ascii "AUPmrHQBPPW4eisYP9stmnoMdzvrzDCTRh8") = .malformed
#guard parseAddress .testnet (ascii "AUPmrHQBPPW4eisYP9stmnoMdzvrzDCTRh8") = .malformed
#guard parseAddress .regtest (ascii "AUPmrHQBPPW4eisYP9stmnoMdzvrzDCTRh8") = .malformed
-- "iouWxXPJqpKH7Vp5WnBdWh9c6JgjdZvjps7w"
#guard parseAddress .mainnet (ascii "iouWxXPJqpKH7Vp5WnBdWh9c6JgjdZvjps7w") = .malformed
#guard parseAddress .testnet (ascii "iouWxXPJqpKH7Vp5WnBdWh9c6JgjdZvjps7w") = .malformed
#guard parseAddress .regtest (ascii "iouWxXPJqpKH7Vp5WnBdWh9c6JgjdZvjps7w") = .malformed
-- "BNKK4ovMWCHbPXvc2ABsfoer6sHSfRybCQ6GxrzsmgCd4o6wqn"
#guard parseAddress .mainnet (ascii "BNKK4ovMWCHbPXvc2ABsfoer6sHSfRybCQ6GxrzsmgCd4o6wqn") = .malformed
#guard parseAddress .testnet (ascii "BNKK4ovMWCHbPXvc2ABsfoer6sHSfRybCQ6GxrzsmgCd4o6wqn") = .malformed
#guard parseAddress .regtest (ascii "BNKK4ovMWCHbPXvc2ABsfoer6sHSfRybCQ6GxrzsmgCd4o6wqn") = .malformed
-- "DcRrKez"
#guard parseAddress .mainnet (ascii "DcRrKez") = .malformed
#guard parseAddress .testnet (ascii "DcRrKez") = .malformed
#guard parseAddress .regtest (ascii "DcRrKez") = .malformed
-- "xSXxKgMj"
#guard parseAddress .mainnet (ascii "xSXxKgMj") = .malformed
#guard parseAddress .testnet (ascii "xSXxKgMj") = .malformed
#guard parseAddress .regtest (ascii "xSXxKgMj") = .malformed
-- "B9gGGmmHHxBXuTxjVujYyxrHYUSaMkpWq"
#guard parseAddress .mainnet (ascii "B9gGGmmHHxBXuTxjVujYyxrHYUSaMkpWq") = .malformed
#guard parseAddress .testnet (ascii "B9gGGmmHHxBXuTxjVujYyxrHYUSaMkpWq") = .malformed
#guard parseAddress .regtest (ascii "B9gGGmmHHxBXuTxjVujYyxrHYUSaMkpWq") = .malformed
-- "4QjMMqE2dN8vQP2ey9JQPAbBMu3UGA8kuQwY"
#guard parseAddress .mainnet (ascii "4QjMMqE2dN8vQP2ey9JQPAbBMu3UGA8kuQwY") = .malformed
#guard parseAddress .testnet (ascii "4QjMMqE2dN8vQP2ey9JQPAbBMu3UGA8kuQwY") = .malformed
#guard parseAddress .regtest (ascii "4QjMMqE2dN8vQP2ey9JQPAbBMu3UGA8kuQwY") = .malformed
-- "G3jvrwrWBWHxiCEJaodpCqKrjEhuKuLQg9FCH"
#guard parseAddress .mainnet (ascii "G3jvrwrWBWHxiCEJaodpCqKrjEhuKuLQg9FCH") = .malformed
#guard parseAddress .testnet (ascii "G3jvrwrWBWHxiCEJaodpCqKrjEhuKuLQg9FCH") = .malformed
#guard parseAddress .regtest (ascii "G3jvrwrWBWHxiCEJaodpCqKrjEhuKuLQg9FCH") = .malformed
-- "4jRE1ePJgbtHtM8ghTx6yfMjvC9QMJknzwuW8qn2FEPJw3JcAew"
#guard parseAddress .mainnet (ascii "4jRE1ePJgbtHtM8ghTx6yfMjvC9QMJknzwuW8qn2FEPJw3JcAew") = .malformed
#guard parseAddress .testnet (ascii "4jRE1ePJgbtHtM8ghTx6yfMjvC9QMJknzwuW8qn2FEPJw3JcAew") = .malformed
#guard parseAddress .regtest (ascii "4jRE1ePJgbtHtM8ghTx6yfMjvC9QMJknzwuW8qn2FEPJw3JcAew") = .malformed
-- "PA7wHSw"
#guard parseAddress .mainnet (ascii "PA7wHSw") = .malformed
#guard parseAddress .testnet (ascii "PA7wHSw") = .malformed
#guard parseAddress .regtest (ascii "PA7wHSw") = .malformed
-- "2gmbxyHej"
#guard parseAddress .mainnet (ascii "2gmbxyHej") = .malformed
#guard parseAddress .testnet (ascii "2gmbxyHej") = .malformed
#guard parseAddress .regtest (ascii "2gmbxyHej") = .malformed
-- "Ju7haVkiJ2aJCeaPMT54FyLMHGQr7fKNX"
#guard parseAddress .mainnet (ascii "Ju7haVkiJ2aJCeaPMT54FyLMHGQr7fKNX") = .malformed
#guard parseAddress .testnet (ascii "Ju7haVkiJ2aJCeaPMT54FyLMHGQr7fKNX") = .malformed
#guard parseAddress .regtest (ascii "Ju7haVkiJ2aJCeaPMT54FyLMHGQr7fKNX") = .malformed
-- "71h7w6nteVtVbpkGrBsWECTW6nW8aBzJb8oY"
#guard parseAddress .mainnet (ascii "71h7w6nteVtVbpkGrBsWECTW6nW8aBzJb8oY") = .malformed
#guard parseAddress .testnet (ascii "71h7w6nteVtVbpkGrBsWECTW6nW8aBzJb8oY") = .malformed
#guard parseAddress .regtest (ascii "71h7w6nteVtVbpkGrBsWECTW6nW8aBzJb8oY") = .malformed
-- "TY45bnZYxWWHEhjzx6yv1FZySXqaRVsC8zzP3"
#guard parseAddress .mainnet (ascii "TY45bnZYxWWHEhjzx6yv1FZySXqaRVsC8zzP3") = .malformed
#guard parseAddress .testnet (ascii "TY45bnZYxWWHEhjzx6yv1FZySXqaRVsC8zzP3") = .malformed
#guard parseAddress .regtest (ascii "TY45bnZYxWWHEhjzx6yv1FZySXqaRVsC8zzP3") = .malformed
-- "7aeW1MY27mNYM5Xdkji33vKZktVScAPDtGvesaFDjvxGsvVtzVR"
#guard parseAddress .mainnet (ascii "7aeW1MY27mNYM5Xdkji33vKZktVScAPDtGvesaFDjvxGsvVtzVR") = .malformed
#guard parseAddress .testnet (ascii "7aeW1MY27mNYM5Xdkji33vKZktVScAPDtGvesaFDjvxGsvVtzVR") = .malformed
#guard parseAddress .regtest (ascii "7aeW1MY27mNYM5Xdkji33vKZktVScAPDtGvesaFDjvxGsvVtzVR") = .malformed
-- "3QJmnh"
#guard parseAddress .mainnet (ascii "3QJmnh") = .malformed
#guard parseAddress .testnet (ascii "3QJmnh") = .malformed
#guard parseAddress .regtest (ascii "3QJmnh") = .malformed
-- "11146EAsf"
#guard parseAddress .mainnet (ascii "11146EAsf") = .malformed
#guard parseAddress .testnet (ascii "11146EAsf") = .malformed
#guard parseAddress .regtest (ascii "11146EAsf") = .malformed
-- "12JTwQsjL4cBkSHySRt8CTQ3R5HC9"
#guard parseAddress .mainnet (ascii "12JTwQsjL4cBkSHySRt8CTQ3R5HC9") = .malformed
#guard parseAddress .testnet (ascii "12JTwQsjL4cBkSHySRt8CTQ3R5HC9") = .malformed
#guard parseAddress .regtest (ascii "12JTwQsjL4cBkSHySRt8CTQ3R5HC9") = .malformed
-- "Ldp"
#guard parseAddress .mainnet (ascii "Ldp") = .malformed
#guard parseAddress .testnet (ascii "Ldp") = .malformed
#guard parseAddress .regtest (ascii "Ldp") = .malformed
-- "111"
#guard parseAddress .mainnet (ascii "111") = .malformed
#guard parseAddress .testnet (ascii "111") = .malformed
#guard parseAddress .regtest (ascii "111") = .malformed
-- "1111"
#guard parseAddress .mainnet (ascii "1111") = .malformed
#guard parseAddress .testnet (ascii "1111") = .malformed
#guard parseAddress .regtest (ascii "1111") = .malformed
-- "11111"
#guard parseAddress .mainnet (ascii "11111") = .malformed
#guard parseAddress .testnet (ascii "11111") = .malformed
#guard parseAddress .regtest (ascii "11111") = .malformed
-- "KRJtSg7nZj5gvmWB42qYZoPXE3mrhd6rpT73mrnyDFxaJ1tJfKGv"
#guard parseAddress .mainnet (ascii "KRJtSg7nZj5gvmWB42qYZoPXE3mrhd6rpT73mrnyDFxaJ1tJfKGv") = .malformed
#guard parseAddress .testnet (ascii "KRJtSg7nZj5gvmWB42qYZoPXE3mrhd6rpT73mrnyDFxaJ1tJfKGv") = .malformed
#guard parseAddress .regtest (ascii "KRJtSg7nZj5gvmWB42qYZoPXE3mrhd6rpT73mrnyDFxaJ1tJfKGv") = .malformed
-- "hV5Wm7rgW17Bf7T9mcaxrnTKqR8J3wDaBxNPc2kmCwTp1uo7xFUoBaSayuEK"
#guard parseAddress .mainnet (ascii "hV5Wm7rgW17Bf7T9mcaxrnTKqR8J3wDaBxNPc2kmCwTp1uo7xFUoBaSayuEK") = .malformed
#guard parseAddress .testnet (ascii "hV5Wm7rgW17Bf7T9mcaxrnTKqR8J3wDaBxNPc2kmCwTp1uo7xFUoBaSayuEK") = .malformed
#guard parseAddress .regtest (ascii "hV5Wm7rgW17Bf7T9mcaxrnTKqR8J3wDaBxNPc2kmCwTp1uo7xFUoBaSayuEK") = .malformed
-- "11111111111111111111111111111111111111111111111111"
#guard parseAddress .mainnet (ascii "11111111111111111111111111111111111111111111111111") = .malformed
#guard parseAddress .testnet (ascii "11111111111111111111111111111111111111111111111111") = .malformed
#guard parseAddress .regtest (ascii "11111111111111111111111111111111111111111111111111") = .malformed
-- "111111111111111111111111111111111111111111111111111"
#guard parseAddress .mainnet (ascii "111111111111111111111111111111111111111111111111111") = .malformed
#guard parseAddress .testnet (ascii "111111111111111111111111111111111111111111111111111") = .malformed
#guard parseAddress .regtest (ascii "111111111111111111111111111111111111111111111111111") = .malformed
-- "1111111111111111111111111"
#guard parseAddress .mainnet (ascii "1111111111111111111111111") = .malformed
#guard parseAddress .testnet (ascii "1111111111111111111111111") = .malformed
#guard parseAddress .regtest (ascii "1111111111111111111111111") = .malformed
-- "111111111111111111111"
#guard parseAddress .mainnet (ascii "111111111111111111111") = .malformed
#guard parseAddress .testnet (ascii "111111111111111111111") = .malformed
#guard parseAddress .regtest (ascii "111111111111111111111") = .malformed
-- "19Wp08DQXk3PjGV8TsmT9LHo7RsdkJQ4qV"
#guard parseAddress .mainnet (ascii "19Wp08DQXk3PjGV8TsmT9LHo7RsdkJQ4qV") = .malformed
#guard parseAddress .testnet (ascii "19Wp08DQXk3PjGV8TsmT9LHo7RsdkJQ4qV") = .malformed
#guard parseAddress .regtest (ascii "19Wp08DQXk3PjGV8TsmT9LHo7RsdkJQ4qV") = .malformed
-- "19WpO8DQXk3PjGV8TsmT9LHo7RsdkJQ4qV"
#guard parseAddress .mainnet (ascii "19WpO8DQXk3PjGV8TsmT9LHo7RsdkJQ4qV") = .malformed
#guard parseAddress .testnet (ascii "19WpO8DQXk3PjGV8TsmT9LHo7RsdkJQ4qV") = .malformed
#guard parseAddress .regtest (ascii "19WpO8DQXk3PjGV8TsmT9LHo7RsdkJQ4qV") = .malformed
-- "19WpI8DQXk3PjGV8TsmT9LHo7RsdkJQ4qV"
#guard parseAddress .mainnet (ascii "19WpI8DQXk3PjGV8TsmT9LHo7RsdkJQ4qV") = .malformed
#guard parseAddress .testnet (ascii "19WpI8DQXk3PjGV8TsmT9LHo7RsdkJQ4qV") = .malformed
#guard parseAddress .regtest (ascii "19WpI8DQXk3PjGV8TsmT9LHo7RsdkJQ4qV") = .malformed
-- "19Wpl8DQXk3PjGV8TsmT9LHo7RsdkJQ4qV"
#guard parseAddress .mainnet (ascii "19Wpl8DQXk3PjGV8TsmT9LHo7RsdkJQ4qV") = .malformed
#guard parseAddress .testnet (ascii "19Wpl8DQXk3PjGV8TsmT9LHo7RsdkJQ4qV") = .malformed
#guard parseAddress .regtest (ascii "19Wpl8DQXk3PjGV8TsmT9LHo7RsdkJQ4qV") = .malformed
-- "19Wp+8DQXk3PjGV8TsmT9LHo7RsdkJQ4qV"
#guard parseAddress .mainnet (ascii "19Wp+8DQXk3PjGV8TsmT9LHo7RsdkJQ4qV") = .malformed
#guard parseAddress .testnet (ascii "19Wp+8DQXk3PjGV8TsmT9LHo7RsdkJQ4qV") = .malformed
#guard parseAddress .regtest (ascii "19Wp+8DQXk3PjGV8TsmT9LHo7RsdkJQ4qV") = .malformed
-- "19Wp/8DQXk3PjGV8TsmT9LHo7RsdkJQ4qV"
#guard parseAddress .mainnet (ascii "19Wp/8DQXk3PjGV8TsmT9LHo7RsdkJQ4qV") = .malformed
#guard parseAddress .testnet (ascii "19Wp/8DQXk3PjGV8TsmT9LHo7RsdkJQ4qV") = .malformed
#guard parseAddress .regtest (ascii "19Wp/8DQXk3PjGV8TsmT9LHo7RsdkJQ4qV") = .malformed
-- "bc1qlrlsqpmsh8"
#guard parseAddress .mainnet (ascii "bc1qlrlsqpmsh8") = .malformed
#guard parseAddress .testnet (ascii "bc1qlrlsqpmsh8") = .malformed
#guard parseAddress .regtest (ascii "bc1qlrlsqpmsh8") = .malformed
-- "bc1qlrlsvrg4rg3jsv3483r575zevfkxkus0y2d4k"
#guard parseAddress .mainnet (ascii "bc1qlrlsvrg4rg3jsv3483r575zevfkxkus0y2d4k") = .malformed
#guard parseAddress .testnet (ascii "bc1qlrlsvrg4rg3jsv3483r575zevfkxkus0y2d4k") = .malformed
#guard parseAddress .regtest (ascii "bc1qlrlsvrg4rg3jsv3483r575zevfkxkus0y2d4k") = .malformed
-- "bc1qlrlsvrg4rg3jsv3483r575zevfkxkunesyr9jmd2"
#guard parseAddress .mainnet (ascii "bc1qlrlsvrg4rg3jsv3483r575zevfkxkunesyr9jmd2") = .malformed
#guard parseAddress .testnet (ascii "bc1qlrlsvrg4rg3jsv3483r575zevfkxkunesyr9jmd2") = .malformed
#guard parseAddress .regtest (ascii "bc1qlrlsvrg4rg3jsv3483r575zevfkxkunesyr9jmd2") = .malformed
-- "bc1qlrlsvrg4rg3jsv3483r575zevfkxkunesx8f089x5x5t8w7ye5qzyjq4"
#guard parseAddress .mainnet (ascii "bc1qlrlsvrg4rg3jsv3483r575zevfkxkunesx8f089x5x5t8w7ye5qzyjq4") = .malformed
#guard parseAddress .testnet (ascii "bc1qlrlsvrg4rg3jsv3483r575zevfkxkunesx8f089x5x5t8w7ye5qzyjq4") = .malformed
#guard parseAddress .regtest (ascii "bc1qlrlsvrg4rg3jsv3483r575zevfkxkunesx8f089x5x5t8w7ye5qzyjq4") = .malformed
-- "bc1qlrlsvrg4rg3jsv3483r575zevfkxkunesx8f089x5x5t8w7yehtdqkhrk4e"
#guard parseAddress .mainnet (ascii "bc1qlrlsvrg4rg3jsv3483r575zevfkxkunesx8f089x5x5t8w7yehtdqkhrk4e") = .malformed
#guard parseAddress .testnet (ascii "bc1qlrlsvrg4rg3jsv3483r575zevfkxkunesx8f089x5x5t8w7yehtdqkhrk4e") = .malformed
#guard parseAddress .regtest (ascii "bc1qlrlsvrg4rg3jsv3483r575zevfkxkunesx8f089x5x5t8w7yehtdqkhrk4e") = .malformed
-- "bc1qlrlsvrg4rg3jsv3483r575zevfkxkunesx8f089x5x5t8w7yehtdp4lwuh7lyzcqas7w45"
#guard parseAddress .mainnet (ascii "bc1qlrlsvrg4rg3jsv3483r575zevfkxkunesx8f089x5x5t8w7yehtdp4lwuh7lyzcqas7w45") = .malformed
#guard parseAddress .testnet (ascii "bc1qlrlsvrg4rg3jsv3483r575zevfkxkunesx8f089x5x5t8w7yehtdp4lwuh7lyzcqas7w45") = .malformed
#guard parseAddress .regtest (ascii "bc1qlrlsvrg4rg3jsv3483r575zevfkxkunesx8f089x5x5t8w7yehtdp4lwuh7lyzcqas7w45") = .malformed
-- "bc1qt4jxkuncsxrgl9u75x5t9wauchyaphlxtnxyay"
#guard parseAddress .mainnet (ascii "bc1qt4jxkuncsxrgl9u75x5t9wauchyaphlxtnxyay") = .malformed
#guard parseAddress .testnet (ascii "bc1qt4jxkuncsxrgl9u75x5t9wauchyaphlxtnxyay") = .malformed
#guard parseAddress .regtest (ascii "bc1qt4jxkuncsxrgl9u75x5t9wauchyaphlxtnxyay") = .malformed
-- "bc1qzu0z2tpj8dqyjn25tanxsut6swpc4yvc56hmf0decr9a9h89amms98p0qm"
#guard parseAddress .mainnet (ascii "bc1qzu0z2tpj8dqyjn25tanxsut6swpc4yvc56hmf0decr9a9h89amms98p0qm") = .malformed
#guard parseAddress .testnet (ascii "bc1qzu0z2tpj8dqyjn25tanxsut6swpc4yvc56hmf0decr9a9h89amms98p0qm") = .malformed
#guard parseAddress .regtest (ascii "bc1qzu0z2tpj8dqyjn25tanxsut6swpc4yvc56hmf0decr9a9h89amms98p0qm") = .malformed
-- "bc1pzu0z2tpj8dqyjn25tanxsut6swpc4yvc56hmf0decr9a9h89amms0spxc8"
#guard parseAddress .mainnet (ascii "bc1pzu0z2tpj8dqyjn25tanxsut6swpc4yvc56hmf0decr9a9h89amms0spxc8") = .malformed
#guard parseAddress .testnet (ascii "bc1pzu0z2tpj8dqyjn25tanxsut6swpc4yvc56hmf0decr9a9h89amms0spxc8") = .malformed
#guard parseAddress .regtest (ascii "bc1pzu0z2tpj8dqyjn25tanxsut6swpc4yvc56hmf0decr9a9h89amms0spxc8") = .malformed
-- "bc1sw50qa3jx3s"
#guard parseAddress .mainnet (ascii "bc1sw50qa3jx3s") = .malformed
#guard parseAddress .testnet (ascii "bc1sw50qa3jx3s") = .malformed
#guard parseAddress .regtest (ascii "bc1sw50qa3jx3s") = .malformed
-- "bc1pdg93mv"
#guard parseAddress .mainnet (ascii "bc1pdg93mv") = .malformed
#guard parseAddress .testnet (ascii "bc1pdg93mv") = .malformed
#guard parseAddress .regtest (ascii "bc1pdg93mv") = .malformed
-- "bc1pru2s7eck"
#guard parseAddress .mainnet (ascii "bc1pru2s7eck") = .malformed
#guard parseAddress .testnet (ascii "bc1pru2s7eck") = .malformed
#guard parseAddress .regtest (ascii "bc1pru2s7eck") = .malformed
-- "bc1prunquxa0m9"
#guard parseAddress .mainnet (ascii "bc1prunquxa0m9") = .ok (hex "51021f26")
#guard requestKey .mainnet (ascii "bc1prunquxa0m9") = some (ascii "bc1prunquxa0m9")
#guard parseAddress .testnet (ascii "bc1prunquxa0m9") = .wrongNetwork
#guard parseAddress .regtest (ascii "bc1prunquxa0m9") = .wrongNetwork
-- "bc1prunz62sspwr"
#guard parseAddress .mainnet (ascii "bc1prunz62sspwr") = .ok (hex "51031f262d")
#guard requestKey .mainnet (ascii "bc1prunz62sspwr") = some (ascii "bc1prunz62sspwr")
#guard parseAddress .testnet (ascii "bc1prunz62sspwr") = .wrongNetwork
#guard parseAddress .regtest (ascii "bc1prunz62sspwr") = .wrongNetwork
-- "bc1prunz6dp6gdy9z42uvah8q7vz3w9e9xdq46mme3wperfa4e8d7mllwrs9rsfzkgqqxmjpu"
#guard parseAddress .mainnet (ascii "bc1prunz6dp6gdy9z42uvah8q7vz3w9e9xdq46mme3wperfa4e8d7mllwrs9rsfzkgqqxmjpu") = .ok (hex "51271f262d343a434851555c676e7079828b8b9299a0aeb7bcc5c1c8d3dae4edf6fff70e051c122b20")
#guard requestKey .mainnet (ascii "bc1prunz6dp6gdy9z42uvah8q7vz3w9e9xdq46mme3wperfa4e8d7mllwrs9rsfzkgqqxmjpu") = some (ascii "bc1prunz6dp6gdy9z42uvah8q7vz3w9e9xdq46mme3wperfa4e8d7mllwrs9rsfzkgqqxmjpu")
#guard parseAddress .testnet (ascii "bc1prunz6dp6gdy9z42uvah8q7vz3w9e9xdq46mme3wperfa4e8d7mllwrs9rsfzkgqqxmjpu") = .wrongNetwork
#guard parseAddress .regtest (ascii "bc1prunz6dp6gdy9z42uvah8q7vz3w9e9xdq46mme3wperfa4e8d7mllwrs9rsfzkgqqxmjpu") = .wrongNetwork
-- "bc1prunz6dp6gdy9z42uvah8q7vz3w9e9xdq46mme3wperfa4e8d7mllwrs9rsfzkgpe358cqz"
#guard parseAddress .mainnet (ascii "bc1prunz6dp6gdy9z42uvah8q7vz3w9e9xdq46mme3wperfa4e8d7mllwrs9rsfzkgpe358cqz") = .ok (hex "51281f262d343a434851555c676e7079828b8b9299a0aeb7bcc5c1c8d3dae4edf6fff70e051c122b2039")
#guard requestKey .mainnet (ascii "bc1prunz6dp6gdy9z42uvah8q7vz3w9e9xdq46mme3wperfa4e8d7mllwrs9rsfzkgpe358cqz") = some (ascii "bc1prunz6dp6gdy9z42uvah8q7vz3w9e9xdq46mme3wperfa4e8d7mllwrs9rsfzkgpe358cqz")
#guard parseAddress .testnet (ascii "bc1prunz6dp6gdy9z42uvah8q7vz3w9e9xdq46mme3wperfa4e8d7mllwrs9rsfzkgpe358cqz") = .wrongNetwork
#guard parseAddress .regtest (ascii "bc1prunz6dp6gdy9z42uvah8q7vz3w9e9xdq46mme3wperfa4e8d7mllwrs9rsfzkgpe358cqz") = .wrongNetwork
-- "bc1prunz6dp6gdy9z42uvah8q7vz3w9e9xdq46mme3wperfa4e8d7mllwrs9rsfzkgpe85he2cua"
#guard parseAddress .mainnet (ascii "bc1prunz6dp6gdy9z42uvah8q7vz3w9e9xdq46mme3wperfa4e8d7mllwrs9rsfzkgpe85he2cua") = .malformed
#guard parseAddress .testnet (ascii "bc1prunz6dp6gdy9z42uvah8q7vz3w9e9xdq46mme3wperfa4e8d7mllwrs9rsfzkgpe85he2cua") = .malformed
#guard parseAddress .regtest (ascii "bc1prunz6dp6gdy9z42uvah8q7vz3w9e9xdq46mme3wperfa4e8d7mllwrs9rsfzkgpe85he2cua") = .malformed
-- "bc1zrms84n"
#guard parseAddress .mainnet (ascii "bc1zrms84n") = .malformed
#guard parseAddress .testnet (ascii "bc1zrms84n") = .malformed
#guard parseAddress .regtest (ascii "bc1zrms84n") = .malformed
-- "bc1z8cknjus4"
#guard parseAddress .mainnet (ascii "bc1z8cknjus4") = .malformed
#guard parseAddress .testnet (ascii "bc1z8cknjus4") = .malformed
#guard parseAddress .regtest (ascii "bc1z8cknjus4") = .malformed
-- "bc1z8ezsslcnak"
#guard parseAddress .mainnet (ascii "bc1z8ezsslcnak") = .ok (hex "52023e45")
#guard requestKey .mainnet (ascii "bc1z8ezsslcnak") = some (ascii "bc1z8ezsslcnak")
#guard parseAddress .testnet (ascii "bc1z8ezsslcnak") = .wrongNetwork
#guard parseAddress .regtest (ascii "bc1z8ezsslcnak") = .wrongNetwork
-- "bc1z8ez5c6jqqva"
#guard parseAddress .mainnet (ascii "bc1z8ez5c6jqqva") = .ok (hex "52033e454c")
#guard requestKey .mainnet (ascii "bc1z8ez5c6jqqva") = some (ascii "bc1z8ez5c6jqqva")
#guard parseAddress .testnet (ascii "bc1z8ez5c6jqqva") = .wrongNetwork
#guard parseAddress .regtest (ascii "bc1z8ez5c6jqqva") = .wrongNetwork
-- "bc1z8ez5c56mvp5kuarls6yerx4r5j4trwx8el2dmkhqa0e06pgwzugpvtfy8ve5ssgtte4vp"
#guard parseAddress .mainnet (ascii "bc1z8ez5c56mvp5kuarls6yerx4r5j4trwx8el2dmkhqa0e06pgwzugpvtfy8ve5ssgtte4vp") = .ok (hex "52273e454c535b60696e747f8689919aa3a4aab1b8c7cfd4dddae0ebf2fd050e1710162d243b334841")
#guard requestKey .mainnet (ascii "bc1z8ez5c56mvp5kuarls6yerx4r5j4trwx8el2dmkhqa0e06pgwzugpvtfy8ve5ssgtte4vp") = some (ascii "bc1z8ez5c56mvp5kuarls6yerx4r5j4trwx8el2dmkhqa0e06pgwzugpvtfy8ve5ssgtte4vp")
#guard parseAddress .testnet (ascii "bc1z8ez5c56mvp5kuarls6yerx4r5j4trwx8el2dmkhqa0e06pgwzugpvtfy8ve5ssgtte4vp") = .wrongNetwork
#guard parseAddress .regtest (ascii "bc1z8ez5c56mvp5kuarls6yerx4r5j4trwx8el2dmkhqa0e06pgwzugpvtfy8ve5ssgtte4vp") = .wrongNetwork
-- "bc1z8ez5c56mvp5kuarls6yerx4r5j4trwx8el2dmkhqa0e06pgwzugpvtfy8ve5ss2xhnmv6p"
#guard parseAddress .mainnet (ascii "bc1z8ez5c56mvp5kuarls6yerx4r5j4trwx8el2dmkhqa0e06pgwzugpvtfy8ve5ss2xhnmv6p") = .ok (hex "52283e454c535b60696e747f8689919aa3a4aab1b8c7cfd4dddae0ebf2fd050e1710162d243b33484146")
#guard requestKey .mainnet (ascii "bc1z8ez5c56mvp5kuarls6yerx4r5j4trwx8el2dmkhqa0e06pgwzugpvtfy8ve5ss2xhnmv6p") = some (ascii "bc1z8ez5c56mvp5kuarls6yerx4r5j4trwx8el2dmkhqa0e06pgwzugpvtfy8ve5ss2xhnmv6p")
#guard parseAddress .testnet (ascii "bc1z8ez5c56mvp5kuarls6yerx4r5j4trwx8el2dmkhqa0e06pgwzugpvtfy8ve5ss2xhnmv6p") = .wrongNetwork
#guard parseAddress .regtest (ascii "bc1z8ez5c56mvp5kuarls6yerx4r5j4trwx8el2dmkhqa0e06pgwzugpvtfy8ve5ss2xhnmv6p") = .wrongNetwork
-- "bc1z8ez5c56mvp5kuarls6yerx4r5j4trwx8el2dmkhqa0e06pgwzugpvtfy8ve5ss2xtscnclwh"
#guard parseAddress .mainnet (ascii "bc1z8ez5c56mvp5kuarls6yerx4r5j4trwx8el2dmkhqa0e06pgwzugpvtfy8ve5ss2xtscnclwh") = .malformed
#guard parseAddress .testnet (ascii "bc1z8ez5c56mvp5kuarls6yerx4r5j4trwx8el2dmkhqa0e06pgwzugpvtfy8ve5ss2xtscnclwh") = .malformed
#guard parseAddress .regtest (ascii "bc1z8ez5c56mvp5kuarls6yerx4r5j4trwx8el2dmkhqa0e06pgwzugpvtfy8ve5ss2xtscnclwh") = .malformed
-- "bc1s9leund"
#guard parseAddress .mainnet (ascii "bc1s9leund") = .malformed
#guard parseAddress .testnet (ascii "bc1s9leund") = .malformed
#guard parseAddress .regtest (ascii "bc1s9leund") = .malformed
-- "bc1s7q6am4j3"
#guard parseAddress .mainnet (ascii "bc1s7q6am4j3") = .malformed
#guard parseAddress .testnet (ascii "bc1s7q6am4j3") = .malformed
#guard parseAddress .regtest (ascii "bc1s7q6am4j3") = .malformed
-- "bc1s7rmsrwnw7q"
#guard parseAddress .mainnet (ascii "bc1s7rmsrwnw7q") = .ok (hex "6002f0f7")
#guard requestKey .mainnet (ascii "bc1s7rmsrwnw7q") = some (ascii "bc1s7rmsrwnw7q")
#guard parseAddress .testnet (ascii "bc1s7rmsrwnw7q") = .wrongNetwork
#guard parseAddress .regtest (ascii "bc1s7rmsrwnw7q") = .wrongNetwork
-- "bc1s7rmlud3srec"
#guard parseAddress .mainnet (ascii "bc1s7rmlud3srec") = .ok (hex "6003f0f7fe")
#guard requestKey .mainnet (ascii "bc1s7rmlud3srec") = some (ascii "bc1s7rmlud3srec")
#guard parseAddress .testnet (ascii "bc1s7rmlud3srec") = .wrongNetwork
#guard parseAddress .regtest (ascii "bc1s7rmlud3srec") = .wrongNetwork
-- "bc1s7rmlupgdzgdjq23dxsl5wjz3tfjxx6n30xrgl9y7nxs2hvauch8d3h7kahjl4uckxreuz"
#guard parseAddress .mainnet (ascii "bc1s7rmlupgdzgdjq23dxsl5wjz3tfjxx6n30xrgl9y7nxs2hvauch8d3h7kahjl4uckxreuz") = .ok (hex "6027f0f7fe050d121b202a2d343f4748515a64636a7179868f949e99a0abb3bcc5ced8dfd6ede5faf3")
#guard requestKey .mainnet (ascii "bc1s7rmlupgdzgdjq23dxsl5wjz3tfjxx6n30xrgl9y7nxs2hvauch8d3h7kahjl4uckxreuz") = some (ascii "bc1s7rmlupgdzgdjq23dxsl5wjz3tfjxx6n30xrgl9y7nxs2hvauch8d3h7kahjl4uckxreuz")
#guard parseAddress .testnet (ascii "bc1s7rmlupgdzgdjq23dxsl5wjz3tfjxx6n30xrgl9y7nxs2hvauch8d3h7kahjl4uckxreuz") = .wrongNetwork
#guard parseAddress .regtest (ascii "bc1s7rmlupgdzgdjq23dxsl5wjz3tfjxx6n30xrgl9y7nxs2hvauch8d3h7kahjl4uckxreuz") = .wrongNetwork
-- "bc1s7rmlupgdzgdjq23dxsl5wjz3tfjxx6n30xrgl9y7nxs2hvauch8d3h7kahjl4ucglg505p"
#guard parseAddress .mainnet (ascii "bc1s7rmlupgdzgdjq23dxsl5wjz3tfjxx6n30xrgl9y7nxs2hvauch8d3h7kahjl4ucglg505p") = .ok (hex "6028f0f7fe050d121b202a2d343f4748515a64636a7179868f949e99a0abb3bcc5ced8dfd6ede5faf308")
#guard requestKey .mainnet (ascii "bc1s7rmlupgdzgdjq23dxsl5wjz3tfjxx6n30xrgl9y7nxs2hvauch8d3h7kahjl4ucglg505p") = some (ascii "bc1s7rmlupgdzgdjq23dxsl5wjz3tfjxx6n30xrgl9y7nxs2hvauch8d3h7kahjl4ucglg505p")
#guard parseAddress .testnet (ascii "bc1s7rmlupgdzgdjq23dxsl5wjz3tfjxx6n30xrgl9y7nxs2hvauch8d3h7kahjl4ucglg505p") = .wrongNetwork
#guard parseAddress .regtest (ascii "bc1s7rmlupgdzgdjq23dxsl5wjz3tfjxx6n30xrgl9y7nxs2hvauch8d3h7kahjl4ucglg505p") = .wrongNetwork
-- "bc1s7rmlupgdzgdjq23dxsl5wjz3tfjxx6n30xrgl9y7nxs2hvauch8d3h7kahjl4ucgqggdjwaz"
#guard parseAddress .mainnet (ascii "bc1s7rmlupgdzgdjq23dxsl5wjz3tfjxx6n30xrgl9y7nxs2hvauch8d3h7kahjl4ucgqggdjwaz") = .malformed
#guard parseAddress .testnet (ascii "bc1s7rmlupgdzgdjq23dxsl5wjz3tfjxx6n30xrgl9y7nxs2hvauch8d3h7kahjl4ucgqggdjwaz") = .malformed
#guard parseAddress .regtest (ascii "bc1s7rmlupgdzgdjq23dxsl5wjz3tfjxx6n30xrgl9y7nxs2hvauch8d3h7kahjl4ucgqggdjwaz") = .malformed
-- "bc13zu0z2tpj8dqyjn25tanxsut6swpc4yvc56hmf0decr9a9h89ammsxctggf"
#guard parseAddress .mainnet (ascii "bc13zu0z2tpj8dqyjn25tanxsut6swpc4yvc56hmf0decr9a9h89ammsxctggf") = .malformed
#guard parseAddress .testnet (ascii "bc13zu0z2tpj8dqyjn25tanxsut6swpc4yvc56hmf0decr9a9h89ammsxctggf") = .malformed
#guard parseAddress .regtest (ascii "bc13zu0z2tpj8dqyjn25tanxsut6swpc4yvc56hmf0decr9a9h89ammsxctggf") = .malformed
-- "bc1lt4jxkuncsxrgl9u75x5t9wauchyaphlxd34ztz"
#guard parseAddress .mainnet (ascii "bc1lt4jxkuncsxrgl9u75x5t9wauchyaphlxd34ztz") = .malformed
#guard parseAddress .testnet (ascii "bc1lt4jxkuncsxrgl9u75x5t9wauchyaphlxd34ztz") = .malformed
#guard parseAddress .regtest (ascii "bc1lt4jxkuncsxrgl9u75x5t9wauchyaphlxd34ztz") = .malformed
-- "bc13zu0z2tpj8dqyjn25tanxsut6swpc4yvc56hmf0decr9a9h89ammsnymydt"
#guard parseAddress .mainnet (ascii "bc13zu0z2tpj8dqyjn25tanxsut6swpc4yvc56hmf0decr9a9h89ammsnymydt") = .malformed
#guard parseAddress .testnet (ascii "bc13zu0z2tpj8dqyjn25tanxsut6swpc4yvc56hmf0decr9a9h89ammsnymydt") = .malformed
#guard parseAddress .regtest (ascii "bc13zu0z2tpj8dqyjn25tanxsut6swpc4yvc56hmf0decr9a9h89ammsnymydt") = .malformed
-- "bc1gmk9yu"
#guard parseAddress .mainnet (ascii "bc1gmk9yu") = .malformed
#guard parseAddress .testnet (ascii "bc1gmk9yu") = .malformed
#guard parseAddress .regtest (ascii "bc1gmk9yu") = .malformed
-- "bc1a8xfp7"
#guard parseAddress .mainnet (ascii "bc1a8xfp7") = .malformed
#guard parseAddress .testnet (ascii "bc1a8xfp7") = .malformed
#guard parseAddress .regtest (ascii "bc1a8xfp7") = .malformed
-- "bc1q9zpgru"
#guard parseAddress .mainnet (ascii "bc1q9zpgru") = .malformed
#guard parseAddress .testnet (ascii "bc1q9zpgru") = .malformed
#guard parseAddress .regtest (ascii "bc1q9zpgru") = .malformed
-- "bc1qt4jxkuncsxrgl9u75x5t9wauchyaphl8reza95"
#guard parseAddress .mainnet (ascii "bc1qt4jxkuncsxrgl9u75x5t9wauchyaphl8reza95") = .ok (hex "00145d646b727881868f979ea1a8b2bbbcc5c9d0dfe7")
#guard requestKey .mainnet (ascii "bc1qt4jxkuncsxrgl9u75x5t9wauchyaphl8reza95") = some (ascii "bc1qt4jxkuncsxrgl9u75x5t9wauchyaphl8reza95")
#guard parseAddress .testnet (ascii "bc1qt4jxkuncsxrgl9u75x5t9wauchyaphl8reza95") = .wrongNetwork
#guard parseAddress .regtest (ascii "bc1qt4jxkuncsxrgl9u75x5t9wauchyaphl8reza95") = .wrongNetwork
-- "bc1qt4jxkuncsxrgl9u75x5t9wauchyaphlxqcv8fsc"
#guard parseAddress .mainnet (ascii "bc1qt4jxkuncsxrgl9u75x5t9wauchyaphlxqcv8fsc") = .malformed
#guard parseAddress .testnet (ascii "bc1qt4jxkuncsxrgl9u75x5t9wauchyaphlxqcv8fsc") = .malformed
#guard parseAddress .regtest (ascii "bc1qt4jxkuncsxrgl9u75x5t9wauchyaphlxqcv8fsc") = .malformed
-- "bc1p40x7l3kjwnt"
#guard parseAddress .mainnet (ascii "bc1p40x7l3kjwnt") = .malformed
#guard parseAddress .testnet (ascii "bc1p40x7l3kjwnt") = .malformed
#guard parseAddress .regtest (ascii "bc1p40x7l3kjwnt") = .malformed
-- "bc1p40x77qlflxfl"
#guard parseAddress .mainnet (ascii "bc1p40x77qlflxfl") = .malformed
#guard parseAddress .testnet (ascii "bc1p40x77qlflxfl") = .malformed
#guard parseAddress .regtest (ascii "bc1p40x77qlflxfl") = .malformed
-- "bc1p40x77qqdzl05n"
#guard parseAddress .mainnet (ascii "bc1p40x77qqdzl05n") = .ok (hex "5104abcdef00")
#guard requestKey .mainnet (ascii "bc1p40x77qqdzl05n") = some (ascii "bc1p40x77qqdzl05n")
#guard parseAddress .testnet (ascii "bc1p40x77qqdzl05n") = .wrongNetwork
#guard parseAddress .regtest (ascii "bc1p40x77qqdzl05n") = .wrongNetwork
-- "tb1qlrls4p42vv"
#guard parseAddress .mainnet (ascii "tb1qlrls4p42vv") = .malformed
#guard parseAddress .testnet (ascii "tb1qlrls4p42vv") = .malformed
#guard parseAddress .regtest (ascii "tb1qlrls4p42vv") = .malformed
-- "tb1qlrlsvrg4rg3jsv3483r575zevfkxkuslmd77c"
#guard parseAddress .mainnet (ascii "tb1qlrlsvrg4rg3jsv3483r575zevfkxkuslmd77c") = .malformed
#guard parseAddress .testnet (ascii "tb1qlrlsvrg4rg3jsv3483r575zevfkxkuslmd77c") = .malformed
#guard parseAddress .regtest (ascii "tb1qlrlsvrg4rg3jsv3483r575zevfkxkuslmd77c") = .malformed
-- "tb1qlrlsvrg4rg3jsv3483r575zevfkxkunesye5hldg"
#guard parseAddress .mainnet (ascii "tb1qlrlsvrg4rg3jsv3483r575zevfkxkunesye5hldg") = .malformed
#guard parseAddress .testnet (ascii "tb1qlrlsvrg4rg3jsv3483r575zevfkxkunesye5hldg") = .malformed
#guard parseAddress .regtest (ascii "tb1qlrlsvrg4rg3jsv3483r575zevfkxkunesye5hldg") = .malformed
-- "tb1qlrlsvrg4rg3jsv3483r575zevfkxkunesx8f089x5x5t8w7ye57u2hh5"
#guard parseAddress .mainnet (ascii "tb1qlrlsvrg4rg3jsv3483r575zevfkxkunesx8f089x5x5t8w7ye57u2hh5") = .malformed
#guard parseAddress .testnet (ascii "tb1qlrlsvrg4rg3jsv3483r575zevfkxkunesx8f089x5x5t8w7ye57u2hh5") = .malformed
#guard parseAddress .regtest (ascii "tb1qlrlsvrg4rg3jsv3483r575zevfkxkunesx8f089x5x5t8w7ye57u2hh5") = .malformed
-- "tb1qlrlsvrg4rg3jsv3483r575zevfkxkunesx8f089x5x5t8w7yehtdq2enyw0"
#guard parseAddress .mainnet (ascii "tb1qlrlsvrg4rg3jsv3483r575zevfkxkunesx8f089x5x5t8w7yehtdq2enyw0") = .malformed
#guard parseAddress .testnet (ascii "tb1qlrlsvrg4rg3jsv3483r575zevfkxkunesx8f089x5x5t8w7yehtdq2enyw0") = .malformed
#guard parseAddress .regtest (ascii "tb1qlrlsvrg4rg3jsv3483r575zevfkxkunesx8f089x5x5t8w7yehtdq2enyw0") = .malformed
-- "tb1qlrlsvrg4rg3jsv3483r575zevfkxkunesx8f089x5x5t8w7yehtdp4lwuh7lyzcqs2mtau"
#guard parseAddress .mainnet (ascii "tb1qlrlsvrg4rg3jsv3483r575zevfkxkunesx8f089x5x5t8w7yehtdp4lwuh7lyzcqs2mtau") = .malformed
#guard parseAddress .testnet (ascii "tb1qlrlsvrg4rg3jsv3483r575zevfkxkunesx8f089x5x5t8w7yehtdp4lwuh7lyzcqs2mtau") = .malformed
#guard parseAddress .regtest (ascii "tb1qlrlsvrg4rg3jsv3483r575zevfkxkunesx8f089x5x5t8w7yehtdp4lwuh7lyzcqs2mtau") = .malformed
-- "tb1qt4jxkuncsxrgl9u75x5t9wauchyaphlxp4ahxh"
#guard parseAddress .mainnet (ascii "tb1qt4jxkuncsxrgl9u75x5t9wauchyaphlxp4ahxh") = .malformed
#guard parseAddress .testnet (ascii "tb1qt4jxkuncsxrgl9u75x5t9wauchyaphlxp4ahxh") = .malformed
#guard parseAddress .regtest (ascii "tb1qt4jxkuncsxrgl9u75x5t9wauchyaphlxp4ahxh") = .malformed
-- "tb1qzu0z2tpj8dqyjn25tanxsut6swpc4yvc56hmf0decr9a9h89ammsj0hq65"
#guard parseAddress .mainnet (ascii "tb1qzu0z2tpj8dqyjn25tanxsut6swpc4yvc56hmf0decr9a9h89ammsj0hq65") = .malformed
#guard parseAddress .testnet (ascii "tb1qzu0z2tpj8dqyjn25tanxsut6swpc4yvc56hmf0decr9a9h89ammsj0hq65") = .malformed
#guard parseAddress .regtest (ascii "tb1qzu0z2tpj8dqyjn25tanxsut6swpc4yvc56hmf0decr9a9h89ammsj0hq65") = .malformed
-- "tb1pzu0z2tpj8dqyjn25tanxsut6swpc4yvc56hmf0decr9a9h89ammscchfzg"
#guard parseAddress .mainnet (ascii "tb1pzu0z2tpj8dqyjn25tanxsut6swpc4yvc56hmf0decr9a9h89ammscchfzg") = .malformed
#guard parseAddress .testnet (ascii "tb1pzu0z2tpj8dqyjn25tanxsut6swpc4yvc56hmf0decr9a9h89ammscchfzg") = .malformed
#guard parseAddress .regtest (ascii "tb1pzu0z2tpj8dqyjn25tanxsut6swpc4yvc56hmf0decr9a9h89ammscchfzg") = .malformed
-- "tb1sw50qg3uu2m"
#guard parseAddress .mainnet (ascii "tb1sw50qg3uu2m") = .malformed
#guard parseAddress .testnet (ascii "tb1sw50qg3uu2m") = .malformed
#guard parseAddress .regtest (ascii "tb1sw50qg3uu2m") = .malformed
-- "tb1p8sgnnl"
#guard parseAddress .mainnet (ascii "tb1p8sgnnl") = .malformed
#guard parseAddress .testnet (ascii "tb1p8sgnnl") = .malformed
#guard parseAddress .regtest (ascii "tb1p8sgnnl") = .malformed
-- "tb1pru328v0d"
#guard parseAddress .mainnet (ascii "tb1pru328v0d") = .malformed
#guard parseAddress .testnet (ascii "tb1pru328v0d") = .malformed
#guard parseAddress .regtest (ascii "tb1pru328v0d") = .malformed
-- "tb1prunqfxn4qw"
#guard parseAddress .mainnet (ascii "tb1prunqfxn4qw") = .wrongNetwork
#guard parseAddress .testnet (ascii "tb1prunqfxn4qw") = .ok (hex "51021f26")
#guard requestKey .testnet (ascii "tb1prunqfxn4qw") = some (ascii "tb1prunqfxn4qw")
#guard parseAddress .regtest (ascii "tb1prunqfxn4qw") = .wrongNetwork
-- "tb1prunz6dr53zc"
#guard parseAddress .mainnet (ascii "tb1prunz6dr53zc") = .wrongNetwork
#guard parseAddress .testnet (ascii "tb1prunz6dr53zc") = .ok (hex "51031f262d")
#guard requestKey .testnet (ascii "tb1prunz6dr53zc") = some (ascii "tb1prunz6dr53zc")
#guard parseAddress .regtest (ascii "tb1prunz6dr53zc") = .wrongNetwork
-- "tb1prunz6dp6gdy9z42uvah8q7vz3w9e9xdq46mme3wperfa4e8d7mllwrs9rsfzkgq9eaphx"
#guard parseAddress .mainnet (ascii "tb1prunz6dp6gdy9z42uvah8q7vz3w9e9xdq46mme3wperfa4e8d7mllwrs9rsfzkgq9eaphx") = .wrongNetwork
#guard parseAddress .testnet (ascii "tb1prunz6dp6gdy9z42uvah8q7vz3w9e9xdq46mme3wperfa4e8d7mllwrs9rsfzkgq9eaphx") = .ok (hex "51271f262d343a434851555c676e7079828b8b9299a0aeb7bcc5c1c8d3dae4edf6fff70e051c122b20")
#guard requestKey .testnet (ascii "tb1prunz6dp6gdy9z42uvah8q7vz3w9e9xdq46mme3wperfa4e8d7mllwrs9rsfzkgq9eaphx") = some (ascii "tb1prunz6dp6gdy9z42uvah8q7vz3w9e9xdq46mme3wperfa4e8d7mllwrs9rsfzkgq9eaphx")
#guard parseAddress .regtest (ascii "tb1prunz6dp6gdy9z42uvah8q7vz3w9e9xdq46mme3wperfa4e8d7mllwrs9rsfzkgq9eaphx") = .wrongNetwork
-- "tb1prunz6dp6gdy9z42uvah8q7vz3w9e9xdq46mme3wperfa4e8d7mllwrs9rsfzkgpeuwzag2"
#guard parseAddress .mainnet (ascii "tb1prunz6dp6gdy9z42uvah8q7vz3w9e9xdq46mme3wperfa4e8d7mllwrs9rsfzkgpeuwzag2") = .wrongNetwork
#guard parseAddress .testnet (ascii "tb1prunz6dp6gdy9z42uvah8q7vz3w9e9xdq46mme3wperfa4e8d7mllwrs9rsfzkgpeuwzag2") = .ok (hex "51281f262d343a434851555c676e7079828b8b9299a0aeb7bcc5c1c8d3dae4edf6fff70e051c122b2039")
#guard requestKey .testnet (ascii "tb1prunz6dp6gdy9z42uvah8q7vz3w9e9xdq46mme3wperfa4e8d7mllwrs9rsfzkgpeuwzag2") = some (ascii "tb1prunz6dp6gdy9z42uvah8q7vz3w9e9xdq46mme3wperfa4e8d7mllwrs9rsfzkgpeuwzag2")
#guard parseAddress .regtest (ascii "tb1prunz6dp6gdy9z42uvah8q7vz3w9e9xdq46mme3wperfa4e8d7mllwrs9rsfzkgpeuwzag2") = .wrongNetwork
-- "tb1prunz6dp6gdy9z42uvah8q7vz3w9e9xdq46mme3wperfa4e8d7mllwrs9rsfzkgpe85nqkpqe"
#guard parseAddress .mainnet (ascii "tb1prunz6dp6gdy9z42uvah8q7vz3w9e9xdq46mme3wperfa4e8d7mllwrs9rsfzkgpe85nqkpqe") = .malformed
#guard parseAddress .testnet (ascii "tb1prunz6dp6gdy9z42uvah8q7vz3w9e9xdq46mme3wperfa4e8d7mllwrs9rsfzkgpe85nqkpqe") = .malformed
#guard parseAddress .regtest (ascii "tb1prunz6dp6gdy9z42uvah8q7vz3w9e9xdq46mme3wperfa4e8d7mllwrs9rsfzkgpe85nqkpqe") = .malformed
-- "tb1zfra9aq"
#guard parseAddress .mainnet (ascii "tb1zfra9aq") = .malformed
#guard parseAddress .testnet (ascii "tb1zfra9aq") = .malformed
#guard parseAddress .regtest (ascii "tb1zfra9aq") = .malformed
-- "tb1z8cdftf8w"
#guard parseAddress .mainnet (ascii "tb1z8cdftf8w") = .malformed
#guard parseAddress .testnet (ascii "tb1z8cdftf8w") = .malformed
#guard parseAddress .regtest (ascii "tb1z8cdftf8w") = .malformed
-- "tb1z8ezs9lkfxa"
#guard parseAddress .mainnet (ascii "tb1z8ezs9lkfxa") = .wrongNetwork
#guard parseAddress .testnet (ascii "tb1z8ezs9lkfxa") = .ok (hex "52023e45")
#guard requestKey .testnet (ascii "tb1z8ezs9lkfxa") = some (ascii "tb1z8ezs9lkfxa")
#guard parseAddress .regtest (ascii "tb1z8ezs9lkfxa") = .wrongNetwork
-- "tb1z8ez5capysqx"
#guard parseAddress .mainnet (ascii "tb1z8ez5capysqx") = .wrongNetwork
#guard parseAddress .testnet (ascii "tb1z8ez5capysqx") = .ok (hex "52033e454c")
#guard requestKey .testnet (ascii "tb1z8ez5capysqx") = some (ascii "tb1z8ez5capysqx")
#guard parseAddress .regtest (ascii "tb1z8ez5capysqx") = .wrongNetwork
-- "tb1z8ez5c56mvp5kuarls6yerx4r5j4trwx8el2dmkhqa0e06pgwzugpvtfy8ve5ssgw5lx6m"
#guard parseAddress .mainnet (ascii "tb1z8ez5c56mvp5kuarls6yerx4r5j4trwx8el2dmkhqa0e06pgwzugpvtfy8ve5ssgw5lx6m") = .wrongNetwork
#guard parseAddress .testnet (ascii "tb1z8ez5c56mvp5kuarls6yerx4r5j4trwx8el2dmkhqa0e06pgwzugpvtfy8ve5ssgw5lx6m") = .ok (hex "52273e454c535b60696e747f8689919aa3a4aab1b8c7cfd4dddae0ebf2fd050e1710162d243b334841")
#guard requestKey .testnet (ascii "tb1z8ez5c56mvp5kuarls6yerx4r5j4trwx8el2dmkhqa0e06pgwzugpvtfy8ve5ssgw5lx6m") = some (ascii "tb1z8ez5c56mvp5kuarls6yerx4r5j4trwx8el2dmkhqa0e06pgwzugpvtfy8ve5ssgw5lx6m")
#guard parseAddress .regtest (ascii "tb1z8ez5c56mvp5kuarls6yerx4r5j4trwx8el2dmkhqa0e06pgwzugpvtfy8ve5ssgw5lx6m") = .wrongNetwork
-- "tb1z8ez5c56mvp5kuarls6yerx4r5j4trwx8el2dmkhqa0e06pgwzugpvtfy8ve5ss2x6f7fjf"
#guard parseAddress .mainnet (ascii "tb1z8ez5c56mvp5kuarls6yerx4r5j4trwx8el2dmkhqa0e06pgwzugpvtfy8ve5ss2x6f7fjf") = .wrongNetwork
#guard parseAddress .testnet (ascii "tb1z8ez5c56mvp5kuarls6yerx4r5j4trwx8el2dmkhqa0e06pgwzugpvtfy8ve5ss2x6f7fjf") = .ok (hex "52283e454c535b60696e747f8689919aa3a4aab1b8c7cfd4dddae0ebf2fd050e1710162d243b33484146")
#guard requestKey .testnet (ascii "tb1z8ez5c56mvp5kuarls6yerx4r5j4trwx8el2dmkhqa0e06pgwzugpvtfy8ve5ss2x6f7fjf") = some (ascii "tb1z8ez5c56mvp5kuarls6yerx4r5j4trwx8el2dmkhqa0e06pgwzugpvtfy8ve5ss2x6f7fjf")
#guard parseAddress .regtest (ascii "tb1z8ez5c56mvp5kuarls6yerx4r5j4trwx8el2dmkhqa0e06pgwzugpvtfy8ve5ss2x6f7fjf") = .wrongNetwork
-- "tb1z8ez5c56mvp5kuarls6yerx4r5j4trwx8el2dmkhqa0e06pgwzugpvtfy8ve5ss2xtsu2yxjn"
#guard parseAddress .mainnet (ascii "tb1z8ez5c56mvp5kuarls6yerx4r5j4trwx8el2dmkhqa0e06pgwzugpvtfy8ve5ss2xtsu2yxjn") = .malformed
#guard parseAddress .testnet (ascii "tb1z8ez5c56mvp5kuarls6yerx4r5j4trwx8el2dmkhqa0e06pgwzugpvtfy8ve5ss2xtsu2yxjn") = .malformed
#guard parseAddress .regtest (ascii "tb1z8ez5c56mvp5kuarls6yerx4r5j4trwx8el2dmkhqa0e06pgwzugpvtfy8ve5ss2xtsu2yxjn") = .malformed
-- "tb1s0857m7"
#guard parseAddress .mainnet (ascii "tb1s0857m7") = .malformed
#guard parseAddress .testnet (ascii "tb1s0857m7") = .malformed
#guard parseAddress .regtest (ascii "tb1s0857m7") = .malformed
-- "tb1s7qp8zq92"
#guard parseAddress .mainnet (ascii "tb1s7qp8zq92") = .malformed
#guard parseAddress .testnet (ascii "tb1s7qp8zq92") = .malformed
#guard parseAddress .regtest (ascii "tb1s7qp8zq92") = .malformed
-- "tb1s7rmskwa59t"
#guard parseAddress .mainnet (ascii "tb1s7rmskwa59t") = .wrongNetwork
#guard parseAddress .testnet (ascii "tb1s7rmskwa59t") = .ok (hex "6002f0f7")
#guard requestKey .testnet (ascii "tb1s7rmskwa59t") = some (ascii "tb1s7rmskwa59t")
#guard parseAddress .regtest (ascii "tb1s7rmskwa59t") = .wrongNetwork
-- "tb1s7rmlu2z5n4r"
#guard parseAddress .mainnet (ascii "tb1s7rmlu2z5n4r") = .wrongNetwork
#guard parseAddress .testnet (ascii "tb1s7rmlu2z5n4r") = .ok (hex "6003f0f7fe")
#guard requestKey .testnet (ascii "tb1s7rmlu2z5n4r") = some (ascii "tb1s7rmlu2z5n4r")
#guard parseAddress .regtest (ascii "tb1s7rmlu2z5n4r") = .wrongNetwork
-- "tb1s7rmlupgdzgdjq23dxsl5wjz3tfjxx6n30xrgl9y7nxs2hvauch8d3h7kahjl4ucne922c"
#guard parseAddress .mainnet (ascii "tb1s7rmlupgdzgdjq23dxsl5wjz3tfjxx6n30xrgl9y7nxs2hvauch8d3h7kahjl4ucne922c") = .wrongNetwork
#guard parseAddress .testnet (ascii "tb1s7rmlupgdzgdjq23dxsl5wjz3tfjxx6n30xrgl9y7nxs2hvauch8d3h7kahjl4ucne922c") = .ok (hex "6027f0f7fe050d121b202a2d343f4748515a64636a7179868f949e99a0abb3bcc5ced8dfd6ede5faf3")
#guard requestKey .testnet (ascii "tb1s7rmlupgdzgdjq23dxsl5wjz3tfjxx6n30xrgl9y7nxs2hvauch8d3h7kahjl4ucne922c") = some (ascii "tb1s7rmlupgdzgdjq23dxsl5wjz3tfjxx6n30xrgl9y7nxs2hvauch8d3h7kahjl4ucne922c")
#guard parseAddress .regtest (ascii "tb1s7rmlupgdzgdjq23dxsl5wjz3tfjxx6n30xrgl9y7nxs2hvauch8d3h7kahjl4ucne922c") = .wrongNetwork
-- "tb1s7rmlupgdzgdjq23dxsl5wjz3tfjxx6n30xrgl9y7nxs2hvauch8d3h7kahjl4ucgjj32uf"
#guard parseAddress .mainnet (ascii "tb1s7rmlupgdzgdjq23dxsl5wjz3tfjxx6n30xrgl9y7nxs2hvauch8d3h7kahjl4ucgjj32uf") = .wrongNetwork
#guard parseAddress .testnet (ascii "tb1s7rmlupgdzgdjq23dxsl5wjz3tfjxx6n30xrgl9y7nxs2hvauch8d3h7kahjl4ucgjj32uf") = .ok (hex "6028f0f7fe050d121b202a2d343f4748515a64636a7179868f949e99a0abb3bcc5ced8dfd6ede5faf308")
#guard requestKey .testnet (ascii "tb1s7rmlupgdzgdjq23dxsl5wjz3tfjxx6n30xrgl9y7nxs2hvauch8d3h7kahjl4ucgjj32uf") = some (ascii "tb1s7rmlupgdzgdjq23dxsl5wjz3tfjxx6n30xrgl9y7nxs2hvauch8d3h7kahjl4ucgjj32uf")
#guard parseAddress .regtest (ascii "tb1s7rmlupgdzgdjq23dxsl5wjz3tfjxx6n30xrgl9y7nxs2hvauch8d3h7kahjl4ucgjj32uf") = .wrongNetwork
-- "tb1s7rmlupgdzgdjq23dxsl5wjz3tfjxx6n30xrgl9y7nxs2hvauch8d3h7kahjl4ucgqgv5whpx"
#guard parseAddress .mainnet (ascii "tb1s7rmlupgdzgdjq23dxsl5wjz3tfjxx6n30xrgl9y7nxs2hvauch8d3h7kahjl4ucgqgv5whpx") = .malformed
#guard parseAddress .testnet (ascii "tb1s7rmlupgdzgdjq23dxsl5wjz3tfjxx6n30xrgl9y7nxs2hvauch8d3h7kahjl4ucgqgv5whpx") = .malformed
#guard parseAddress .regtest (ascii "tb1s7rmlupgdzgdjq23dxsl5wjz3tfjxx6n30xrgl9y7nxs2hvauch8d3h7kahjl4ucgqgv5whpx") = .malformed
-- "tb13zu0z2tpj8dqyjn25tanxsut6swpc4yvc56hmf0decr9a9h89amms3sa8jx"
#guard parseAddress .mainnet (ascii "tb13zu0z2tpj8dqyjn25tanxsut6swpc4yvc56hmf0decr9a9h89amms3sa8jx") = .malformed
#guard parseAddress .testnet (ascii "tb13zu0z2tpj8dqyjn25tanxsut6swpc4yvc56hmf0decr9a9h89amms3sa8jx") = .malformed
#guard parseAddress .regtest (ascii "tb13zu0z2tpj8dqyjn25tanxsut6swpc4yvc56hmf0decr9a9h89amms3sa8jx") = .malformed
-- "tb1lt4jxkuncsxrgl9u75x5t9wauchyaphlx8hw3s3"
#guard parseAddress .mainnet (ascii "tb1lt4jxkuncsxrgl9u75x5t9wauchyaphlx8hw3s3") = .malformed
#guard parseAddress .testnet (ascii "tb1lt4jxkuncsxrgl9u75x5t9wauchyaphlx8hw3s3") = .malformed
#guard parseAddress .regtest (ascii "tb1lt4jxkuncsxrgl9u75x5t9wauchyaphlx8hw3s3") = .malformed
-- "tb13zu0z2tpj8dqyjn25tanxsut6swpc4yvc56hmf0decr9a9h89ammsyvdthy"
#guard parseAddress .mainnet (ascii "tb13zu0z2tpj8dqyjn25tanxsut6swpc4yvc56hmf0decr9a9h89ammsyvdthy") = .malformed
#guard parseAddress .testnet (ascii "tb13zu0z2tpj8dqyjn25tanxsut6swpc4yvc56hmf0decr9a9h89ammsyvdthy") = .malformed
#guard parseAddress .regtest (ascii "tb13zu0z2tpj8dqyjn25tanxsut6swpc4yvc56hmf0decr9a9h89ammsyvdthy") = .malformed
-- "tb1cy0q7p"
#guard parseAddress .mainnet (ascii "tb1cy0q7p") = .malformed
#guard parseAddress .testnet (ascii "tb1cy0q7p") = .malformed
#guard parseAddress .regtest (ascii "tb1cy0q7p") = .malformed
-- "tb1dclvmr"
#guard parseAddress .mainnet (ascii "tb1dclvmr") = .malformed
#guard parseAddress .testnet (ascii "tb1dclvmr") = .malformed
#guard parseAddress .regtest (ascii "tb1dclvmr") = .malformed
-- "tb1q06v2t0"
#guard parseAddress .mainnet (ascii "tb1q06v2t0") = .malformed
#guard parseAddress .testnet (ascii "tb1q06v2t0") = .malformed
#guard parseAddress .regtest (ascii "tb1q06v2t0") = .malformed
-- "tb1qt4jxkuncsxrgl9u75x5t9wauchyaphl8flew78"
#guard parseAddress .mainnet (ascii "tb1qt4jxkuncsxrgl9u75x5t9wauchyaphl8flew78") = .wrongNetwork
#guard parseAddress .testnet (ascii "tb1qt4jxkuncsxrgl9u75x5t9wauchyaphl8flew78") = .ok (hex "00145d646b727881868f979ea1a8b2bbbcc5c9d0dfe7")
#guard requestKey .testnet (ascii "tb1qt4jxkuncsxrgl9u75x5t9wauchyaphl8flew78") = some (ascii "tb1qt4jxkuncsxrgl9u75x5t9wauchyaphl8flew78")
#guard parseAddress .regtest (ascii "tb1qt4jxkuncsxrgl9u75x5t9wauchyaphl8flew78") = .wrongNetwork
-- "tb1qt4jxkuncsxrgl9u75x5t9wauchyaphlxqnx3awg"
#guard parseAddress .mainnet (ascii "tb1qt4jxkuncsxrgl9u75x5t9wauchyaphlxqnx3awg") = .malformed
#guard parseAddress .testnet (ascii "tb1qt4jxkuncsxrgl9u75x5t9wauchyaphlxqnx3awg") = .malformed
#guard parseAddress .regtest (ascii "tb1qt4jxkuncsxrgl9u75x5t9wauchyaphlxqnx3awg") = .malformed
-- "tb1p40x7lk9k7ls"
#guard parseAddress .mainnet (ascii "tb1p40x7lk9k7ls") = .malformed
#guard parseAddress .testnet (ascii "tb1p40x7lk9k7ls") = .malformed
#guard parseAddress .regtest (ascii "tb1p40x7lk9k7ls") = .malformed
-- "tb1p40x77qd5c6n6"
#guard parseAddress .mainnet (ascii "tb1p40x77qd5c6n6") = .malformed
#guard parseAddress .testnet (ascii "tb1p40x77qd5c6n6") = .malformed
#guard parseAddress .regtest (ascii "tb1p40x77qd5c6n6") = .malformed
-- "tb1p40x77qqkp2whd"
#guard parseAddress .mainnet (ascii "tb1p40x77qqkp2whd") = .wrongNetwork
#guard parseAddress .testnet (ascii "tb1p40x77qqkp2whd") = .ok (hex "5104abcdef00")
#guard requestKey .testnet (ascii "tb1p40x77qqkp2whd") = some (ascii "tb1p40x77qqkp2whd")
#guard parseAddress .regtest (ascii "tb1p40x77qqkp2whd") = .wrongNetwork
-- "bcrt1qlrlsrx955g"
#guard parseAddress .mainnet (ascii "bcrt1qlrlsrx955g") = .malformed
#guard parseAddress .testnet (ascii "bcrt1qlrlsrx955g") = .malformed
#guard parseAddress .regtest (ascii "bcrt1qlrlsrx955g") = .malformed
-- "bcrt1qlrlsvrg4rg3jsv3483r575zevfkxkustr0dd4"
#guard parseAddress .mainnet (ascii "bcrt1qlrlsvrg4rg3jsv3483r575zevfkxkustr0dd4") = .malformed
#guard parseAddress .testnet (ascii "bcrt1qlrlsvrg4rg3jsv3483r575zevfkxkustr0dd4") = .malformed
#guard parseAddress .regtest (ascii "bcrt1qlrlsvrg4rg3jsv3483r575zevfkxkustr0dd4") = .malformed
-- "bcrt1qlrlsvrg4rg3jsv3483r575zevfkxkunesyagwjct"
#guard parseAddress .mainnet (ascii "bcrt1qlrlsvrg4rg3jsv3483r575zevfkxkunesyagwjct") = .malformed
#guard parseAddress .testnet (ascii "bcrt1qlrlsvrg4rg3jsv3483r575zevfkxkunesyagwjct") = .malformed
#guard parseAddress .regtest (ascii "bcrt1qlrlsvrg4rg3jsv3483r575zevfkxkunesyagwjct") = .malformed
-- "bcrt1qlrlsvrg4rg3jsv3483r575zevfkxkunesx8f089x5x5t8w7ye56hzxem"
#guard parseAddress .mainnet (ascii "bcrt1qlrlsvrg4rg3jsv3483r575zevfkxkunesx8f089x5x5t8w7ye56hzxem") = .malformed
#guard parseAddress .testnet (ascii "bcrt1qlrlsvrg4rg3jsv3483r575zevfkxkunesx8f089x5x5t8w7ye56hzxem") = .malformed
#guard parseAddress .regtest (ascii "bcrt1qlrlsvrg4rg3jsv3483r575zevfkxkunesx8f089x5x5t8w7ye56hzxem") = .malformed
-- "bcrt1qlrlsvrg4rg3jsv3483r575zevfkxkunesx8f089x5x5t8w7yehtdqlm8wc6"
#guard parseAddress .mainnet (ascii "bcrt1qlrlsvrg4rg3jsv3483r575zevfkxkunesx8f089x5x5t8w7yehtdqlm8wc6") = .malformed
#guard parseAddress .testnet (ascii "bcrt1qlrlsvrg4rg3jsv3483r575zevfkxkunesx8f089x5x5t8w7yehtdqlm8wc6") = .malformed
#guard parseAddress .regtest (ascii "bcrt1qlrlsvrg4rg3jsv3483r575zevfkxkunesx8f089x5x5t8w7yehtdqlm8wc6") = .malformed
-- "bcrt1qlrlsvrg4rg3jsv3483r575zevfkxkunesx8f089x5x5t8w7yehtdp4lwuh7lyzcqeqj3m2"
#guard parseAddress .mainnet (ascii "bcrt1qlrlsvrg4rg3jsv3483r575zevfkxkunesx8f089x5x5t8w7yehtdp4lwuh7lyzcqeqj3m2") = .malformed
#guard parseAddress .testnet (ascii "bcrt1qlrlsvrg4rg3jsv3483r575zevfkxkunesx8f089x5x5t8w7yehtdp4lwuh7lyzcqeqj3m2") = .malformed
#guard parseAddress .regtest (ascii "bcrt1qlrlsvrg4rg3jsv3483r575zevfkxkunesx8f089x5x5t8w7yehtdp4lwuh7lyzcqeqj3m2") = .malformed
-- "bcrt1qt4jxkuncsxrgl9u75x5t9wauchyaphlxruy637"
#guard parseAddress .mainnet (ascii "bcrt1qt4jxkuncsxrgl9u75x5t9wauchyaphlxruy637") = .malformed
#guard parseAddress .testnet (ascii "bcrt1qt4jxkuncsxrgl9u75x5t9wauchyaphlxruy637") = .malformed
#guard parseAddress .regtest (ascii "bcrt1qt4jxkuncsxrgl9u75x5t9wauchyaphlxruy637") = .malformed
-- "bcrt1qzu0z2tpj8dqyjn25tanxsut6swpc4yvc56hmf0decr9a9h89ammslkax0w"
#guard parseAddress .mainnet (ascii "bcrt1qzu0z2tpj8dqyjn25tanxsut6swpc4yvc56hmf0decr9a9h89ammslkax0w") = .malformed
#guard parseAddress .testnet (ascii "bcrt1qzu0z2tpj8dqyjn25tanxsut6swpc4yvc56hmf0decr9a9h89ammslkax0w") = .malformed
#guard parseAddress .regtest (ascii "bcrt1qzu0z2tpj8dqyjn25tanxsut6swpc4yvc56hmf0decr9a9h89ammslkax0w") = .malformed
-- "bcrt1pzu0z2tpj8dqyjn25tanxsut6swpc4yvc56hmf0decr9a9h89amms4pa0hj"
#guard parseAddress .mainnet (ascii "bcrt1pzu0z2tpj8dqyjn25tanxsut6swpc4yvc56hmf0decr9a9h89amms4pa0hj") = .malformed
#guard parseAddress .testnet (ascii "bcrt1pzu0z2tpj8dqyjn25tanxsut6swpc4yvc56hmf0decr9a9h89amms4pa0hj") = .malformed
#guard parseAddress .regtest (ascii "bcrt1pzu0z2tpj8dqyjn25tanxsut6swpc4yvc56hmf0decr9a9h89amms4pa0hj") = .malformed
-- "bcrt1sw50q7kvzjl"
#guard parseAddress .mainnet (ascii "bcrt1sw50q7kvzjl") = .malformed
#guard parseAddress .testnet (ascii "bcrt1sw50q7kvzjl") = .malformed
#guard parseAddress .regtest (ascii "bcrt1sw50q7kvzjl") = .malformed
-- "bcrt1p8d2fsg"
#guard parseAddress .mainnet (ascii "bcrt1p8d2fsg") = .malformed
#guard parseAddress .testnet (ascii "bcrt1p8d2fsg") = .malformed
#guard parseAddress .regtest (ascii "bcrt1p8d2fsg") = .malformed
-- "bcrt1pru2e7ukt"
#guard parseAddress .mainnet (ascii "bcrt1pru2e7ukt") = .malformed
#guard parseAddress .testnet (ascii "bcrt1pru2e7ukt") = .malformed
#guard parseAddress .regtest (ascii "bcrt1pru2e7ukt") = .malformed
-- "bcrt1prunqlprtc2"
#guard parseAddress .mainnet (ascii "bcrt1prunqlprtc2") = .wrongNetwork
#guard parseAddress .testnet (ascii "bcrt1prunqlprtc2") = .wrongNetwork
#guard parseAddress .regtest (ascii "bcrt1prunqlprtc2") = .ok (hex "51021f26")
#guard requestKey .regtest (ascii "bcrt1prunqlprtc2") = some (ascii "bcrt1prunqlprtc2")
-- "bcrt1prunz6rap50u"
#guard parseAddress .mainnet (ascii "bcrt1prunz6rap50u") = .wrongNetwork
#guard parseAddress .testnet (ascii "bcrt1prunz6rap50u") = .wrongNetwork
#guard parseAddress .regtest (ascii "bcrt1prunz6rap50u") = .ok (hex "51031f262d")
#guard requestKey .regtest (ascii "bcrt1prunz6rap50u") = some (ascii "bcrt1prunz6rap50u")
-- "bcrt1prunz6dp6gdy9z42uvah8q7vz3w9e9xdq46mme3wperfa4e8d7mllwrs9rsfzkgqjy0h95"
#guard parseAddress .mainnet (ascii "bcrt1prunz6dp6gdy9z42uvah8q7vz3w9e9xdq46mme3wperfa4e8d7mllwrs9rsfzkgqjy0h95") = .wrongNetwork
#guard parseAddress .testnet (ascii "bcrt1prunz6dp6gdy9z42uvah8q7vz3w9e9xdq46mme3wperfa4e8d7mllwrs9rsfzkgqjy0h95") = .wrongNetwork
#guard parseAddress .regtest (ascii "bcrt1prunz6dp6gdy9z42uvah8q7vz3w9e9xdq46mme3wperfa4e8d7mllwrs9rsfzkgqjy0h95") = .ok (hex "51271f262d343a434851555c676e7079828b8b9299a0aeb7bcc5c1c8d3dae4edf6fff70e051c122b20")
#guard requestKey .regtest (ascii "bcrt1prunz6dp6gdy9z42uvah8q7vz3w9e9xdq46mme3wperfa4e8d7mllwrs9rsfzkgqjy0h95") = some (ascii "bcrt1prunz6dp6gdy9z42uvah8q7vz3w9e9xdq46mme3wperfa4e8d7mllwrs9rsfzkgqjy0h95")
-- "bcrt1prunz6dp6gdy9z42uvah8q7vz3w9e9xdq46mme3wperfa4e8d7mllwrs9rsfzkgpe4yt8wu"
#guard parseAddress .mainnet (ascii "bcrt1prunz6dp6gdy9z42uvah8q7vz3w9e9xdq46mme3wperfa4e8d7mllwrs9rsfzkgpe4yt8wu") = .wrongNetwork
#guard parseAddress .testnet (ascii "bcrt1prunz6dp6gdy9z42uvah8q7vz3w9e9xdq46mme3wperfa4e8d7mllwrs9rsfzkgpe4yt8wu") = .wrongNetwork
#guard parseAddress .regtest (ascii "bcrt1prunz6dp6gdy9z42uvah8q7vz3w9e9xdq46mme3wperfa4e8d7mllwrs9rsfzkgpe4yt8wu") = .ok (hex "51281f262d343a434851555c676e7079828b8b9299a0aeb7bcc5c1c8d3dae4edf6fff70e051c122b2039")
#guard requestKey .regtest (ascii "bcrt1prunz6dp6gdy9z42uvah8q7vz3w9e9xdq46mme3wperfa4e8d7mllwrs9rsfzkgpe4yt8wu") = some (ascii "bcrt1prunz6dp6gdy9z42uvah8q7vz3w9e9xdq46mme3wperfa4e8d7mllwrs9rsfzkgpe4yt8wu")
-- "bcrt1prunz6dp6gdy9z42uvah8q7vz3w9e9xdq46mme3wperfa4e8d7mllwrs9rsfzkgpe85mgedvk"
#guard parseAddress .mainnet (ascii "bcrt1prunz6dp6gdy9z42uvah8q7vz3w9e9xdq46mme3wperfa4e8d7mllwrs9rsfzkgpe85mgedvk") = .malformed
#guard parseAddress .testnet (ascii "bcrt1prunz6dp6gdy9z42uvah8q7vz3w9e9xdq46mme3wperfa4e8d7mllwrs9rsfzkgpe85mgedvk") = .malformed
#guard parseAddress .regtest (ascii "bcrt1prunz6dp6gdy9z42uvah8q7vz3w9e9xdq46mme3wperfa4e8d7mllwrs9rsfzkgpe85mgedvk") = .malformed
-- "bcrt1zf7ll7h"
#guard parseAddress .mainnet (ascii "bcrt1zf7ll7h") = .malformed
#guard parseAddress .testnet (ascii "bcrt1zf7ll7h") = .malformed
#guard parseAddress .regtest (ascii "bcrt1zf7ll7h") = .malformed
-- "bcrt1z8ck6je7g"
#guard parseAddress .mainnet (ascii "bcrt1z8ck6je7g") = .malformed
#guard parseAddress .testnet (ascii "bcrt1z8ck6je7g") = .malformed
#guard parseAddress .regtest (ascii "bcrt1z8ck6je7g") = .malformed
-- "bcrt1z8ezsncxh7e"
#guard parseAddress .mainnet (ascii "bcrt1z8ezsncxh7e") = .wrongNetwork
#guard parseAddress .testnet (ascii "bcrt1z8ezsncxh7e") = .wrongNetwork
#guard parseAddress .regtest (ascii "bcrt1z8ezsncxh7e") = .ok (hex "52023e45")
#guard requestKey .regtest (ascii "bcrt1z8ezsncxh7e") = some (ascii "bcrt1z8ezsncxh7e")
-- "bcrt1z8ez5cnl34dz"
#guard parseAddress .mainnet (ascii "bcrt1z8ez5cnl34dz") = .wrongNetwork
#guard parseAddress .testnet (ascii "bcrt1z8ez5cnl34dz") = .wrongNetwork
#guard parseAddress .regtest (ascii "bcrt1z8ez5cnl34dz") = .ok (hex "52033e454c")
#guard requestKey .regtest (ascii "bcrt1z8ez5cnl34dz") = some (ascii "bcrt1z8ez5cnl34dz")
-- "bcrt1z8ez5c56mvp5kuarls6yerx4r5j4trwx8el2dmkhqa0e06pgwzugpvtfy8ve5ssgefdsgf"
#guard parseAddress .mainnet (ascii "bcrt1z8ez5c56mvp5kuarls6yerx4r5j4trwx8el2dmkhqa0e06pgwzugpvtfy8ve5ssgefdsgf") = .wrongNetwork
#guard parseAddress .testnet (ascii "bcrt1z8ez5c56mvp5kuarls6yerx4r5j4trwx8el2dmkhqa0e06pgwzugpvtfy8ve5ssgefdsgf") = .wrongNetwork
#guard parseAddress .regtest (ascii "bcrt1z8ez5c56mvp5kuarls6yerx4r5j4trwx8el2dmkhqa0e06pgwzugpvtfy8ve5ssgefdsgf") = .ok (hex "52273e454c535b60696e747f8689919aa3a4aab1b8c7cfd4dddae0ebf2fd050e1710162d243b334841")
#guard requestKey .regtest (ascii "bcrt1z8ez5c56mvp5kuarls6yerx4r5j4trwx8el2dmkhqa0e06pgwzugpvtfy8ve5ssgefdsgf") = some (ascii "bcrt1z8ez5c56mvp5kuarls6yerx4r5j4trwx8el2dmkhqa0e06pgwzugpvtfy8ve5ssgefdsgf")
-- "bcrt1z8ez5c56mvp5kuarls6yerx4r5j4trwx8el2dmkhqa0e06pgwzugpvtfy8ve5ss2xnrhn5l"
#guard parseAddress .mainnet (ascii "bcrt1z8ez5c56mvp5kuarls6yerx4r5j4trwx8el2dmkhqa0e06pgwzugpvtfy8ve5ss2xnrhn5l") = .wrongNetwork
#guard parseAddress .testnet (ascii "bcrt1z8ez5c56mvp5kuarls6yerx4r5j4trwx8el2dmkhqa0e06pgwzugpvtfy8ve5ss2xnrhn5l") = .wrongNetwork
#guard parseAddress .regtest (ascii "bcrt1z8ez5c56mvp5kuarls6yerx4r5j4trwx8el2dmkhqa0e06pgwzugpvtfy8ve5ss2xnrhn5l") = .ok (hex "52283e454c535b60696e747f8689919aa3a4aab1b8c7cfd4dddae0ebf2fd050e1710162d243b33484146")
#guard requestKey .regtest (ascii "bcrt1z8ez5c56mvp5kuarls6yerx4r5j4trwx8el2dmkhqa0e06pgwzugpvtfy8ve5ss2xnrhn5l") = some (ascii "bcrt1z8ez5c56mvp5kuarls6yerx4r5j4trwx8el2dmkhqa0e06pgwzugpvtfy8ve5ss2xnrhn5l")
-- "bcrt1z8ez5c56mvp5kuarls6yerx4r5j4trwx8el2dmkhqa0e06pgwzugpvtfy8ve5ss2xts5zt27u"
#guard parseAddress .mainnet (ascii "bcrt1z8ez5c56mvp5kuarls6yerx4r5j4trwx8el2dmkhqa0e06pgwzugpvtfy8ve5ss2xts5zt27u") = .malformed
#guard parseAddress .testnet (ascii "bcrt1z8ez5c56mvp5kuarls6yerx4r5j4trwx8el2dmkhqa0e06pgwzugpvtfy8ve5ss2xts5zt27u") = .malformed
#guard parseAddress .regtest (ascii "bcrt1z8ez5c56mvp5kuarls6yerx4r5j4trwx8el2dmkhqa0e06pgwzugpvtfy8ve5ss2xts5zt27u") = .malformed
-- "bcrt1s06kycf"
#guard parseAddress .mainnet (ascii "bcrt1s06kycf") = .malformed
#guard parseAddress .testnet (ascii "bcrt1s06kycf") = .malformed
#guard parseAddress .regtest (ascii "bcrt1s06kycf") = .malformed
-- "bcrt1s7q65msuv"
#guard parseAddress .mainnet (ascii "bcrt1s7q65msuv") = .malformed
#guard parseAddress .testnet (ascii "bcrt1s7q65msuv") = .malformed
#guard parseAddress .regtest (ascii "bcrt1s7q65msuv") = .malformed
-- "bcrt1s7rmsqfd2a0"
#guard parseAddress .mainnet (ascii "bcrt1s7rmsqfd2a0") = .wrongNetwork
#guard parseAddress .testnet (ascii "bcrt1s7rmsqfd2a0") = .wrongNetwork
#guard parseAddress .regtest (ascii "bcrt1s7rmsqfd2a0") = .ok (hex "6002f0f7")
#guard requestKey .regtest (ascii "bcrt1s7rmsqfd2a0") = some (ascii "bcrt1s7rmsqfd2a0")
-- "bcrt1s7rmluyupkc8"
#guard parseAddress .mainnet (ascii "bcrt1s7rmluyupkc8") = .wrongNetwork
#guard parseAddress .testnet (ascii "bcrt1s7rmluyupkc8") = .wrongNetwork
#guard parseAddress .regtest (ascii "bcrt1s7rmluyupkc8") = .ok (hex "6003f0f7fe")
#guard requestKey .regtest (ascii "bcrt1s7rmluyupkc8") = some (ascii "bcrt1s7rmluyupkc8")
-- "bcrt1s7rmlupgdzgdjq23dxsl5wjz3tfjxx6n30xrgl9y7nxs2hvauch8d3h7kahjl4ucyyhuc2"
#guard parseAddress .mainnet (ascii "bcrt1s7rmlupgdzgdjq23dxsl5wjz3tfjxx6n30xrgl9y7nxs2hvauch8d3h7kahjl4ucyyhuc2") = .wrongNetwork
#guard parseAddress .testnet (ascii "bcrt1s7rmlupgdzgdjq23dxsl5wjz3tfjxx6n30xrgl9y7nxs2hvauch8d3h7kahjl4ucyyhuc2") = .wrongNetwork
#guard parseAddress .regtest (ascii "bcrt1s7rmlupgdzgdjq23dxsl5wjz3tfjxx6n30xrgl9y7nxs2hvauch8d3h7kahjl4ucyyhuc2") = .ok (hex "6027f0f7fe050d121b202a2d343f4748515a64636a7179868f949e99a0abb3bcc5ced8dfd6ede5faf3")
#guard requestKey .regtest (ascii "bcrt1s7rmlupgdzgdjq23dxsl5wjz3tfjxx6n30xrgl9y7nxs2hvauch8d3h7kahjl4ucyyhuc2") = some (ascii "bcrt1s7rmlupgdzgdjq23dxsl5wjz3tfjxx6n30xrgl9y7nxs2hvauch8d3h7kahjl4ucyyhuc2")
-- "bcrt1s7rmlupgdzgdjq23dxsl5wjz3tfjxx6n30xrgl9y7nxs2hvauch8d3h7kahjl4ucgmccs6l"
#guard parseAddress .mainnet (ascii "bcrt1s7rmlupgdzgdjq23dxsl5wjz3tfjxx6n30xrgl9y7nxs2hvauch8d3h7kahjl4ucgmccs6l") = .wrongNetwork
#guard parseAddress .testnet (ascii "bcrt1s7rmlupgdzgdjq23dxsl5wjz3tfjxx6n30xrgl9y7nxs2hvauch8d3h7kahjl4ucgmccs6l") = .wrongNetwork
#guard parseAddress .regtest (ascii "bcrt1s7rmlupgdzgdjq23dxsl5wjz3tfjxx6n30xrgl9y7nxs2hvauch8d3h7kahjl4ucgmccs6l") = .ok (hex "6028f0f7fe050d121b202a2d343f4748515a64636a7179868f949e99a0abb3bcc5ced8dfd6ede5faf308")
#guard requestKey .regtest (ascii "bcrt1s7rmlupgdzgdjq23dxsl5wjz3tfjxx6n30xrgl9y7nxs2hvauch8d3h7kahjl4ucgmccs6l") = some (ascii "bcrt1s7rmlupgdzgdjq23dxsl5wjz3tfjxx6n30xrgl9y7nxs2hvauch8d3h7kahjl4ucgmccs6l")
-- "bcrt1s7rmlupgdzgdjq23dxsl5wjz3tfjxx6n30xrgl9y7nxs2hvauch8d3h7kahjl4ucgqgyupmdf"
#guard parseAddress .mainnet (ascii "bcrt1s7rmlupgdzgdjq23dxsl5wjz3tfjxx6n30xrgl9y7nxs2hvauch8d3h7kahjl4ucgqgyupmdf") = .malformed
#guard parseAddress .testnet (ascii "bcrt1s7rmlupgdzgdjq23dxsl5wjz3tfjxx6n30xrgl9y7nxs2hvauch8d3h7kahjl4ucgqgyupmdf") = .malformed
#guard parseAddress .regtest (ascii "bcrt1s7rmlupgdzgdjq23dxsl5wjz3tfjxx6n30xrgl9y7nxs2hvauch8d3h7kahjl4ucgqgyupmdf") = .malformed
-- "bcrt13zu0z2tpj8dqyjn25tanxsut6swpc4yvc56hmf0decr9a9h89ammsufhp8u"
#guard parseAddress .mainnet (ascii "bcrt13zu0z2tpj8dqyjn25tanxsut6swpc4yvc56hmf0decr9a9h89ammsufhp8u") = .malformed
#guard parseAddress .testnet (ascii "bcrt13zu0z2tpj8dqyjn25tanxsut6swpc4yvc56hmf0decr9a9h89ammsufhp8u") = .malformed
#guard parseAddress .regtest (ascii "bcrt13zu0z2tpj8dqyjn25tanxsut6swpc4yvc56hmf0decr9a9h89ammsufhp8u") = .malformed
-- "bcrt1lt4jxkuncsxrgl9u75x5t9wauchyaphlx97hu8c"
#guard parseAddress .mainnet (ascii "bcrt1lt4jxkuncsxrgl9u75x5t9wauchyaphlx97hu8c") = .malformed
#guard parseAddress .testnet (ascii "bcrt1lt4jxkuncsxrgl9u75x5t9wauchyaphlx97hu8c") = .malformed
#guard parseAddress .regtest (ascii "bcrt1lt4jxkuncsxrgl9u75x5t9wauchyaphlx97hu8c") = .malformed
-- "bcrt13zu0z2tpj8dqyjn25tanxsut6swpc4yvc56hmf0decr9a9h89ammsf48dz7"
#guard parseAddress .mainnet (ascii "bcrt13zu0z2tpj8dqyjn25tanxsut6swpc4yvc56hmf0decr9a9h89ammsf48dz7") = .malformed
#guard parseAddress .testnet (ascii "bcrt13zu0z2tpj8dqyjn25tanxsut6swpc4yvc56hmf0decr9a9h89ammsf48dz7") = .malformed
#guard parseAddress .regtest (ascii "bcrt13zu0z2tpj8dqyjn25tanxsut6swpc4yvc56hmf0decr9a9h89ammsf48dz7") = .malformed
-- "bcrt17capp7"
#guard parseAddress .mainnet (ascii "bcrt17capp7") = .malformed
#guard parseAddress .testnet (ascii "bcrt17capp7") = .malformed
#guard parseAddress .regtest (ascii "bcrt17capp7") = .malformed
-- "bcrt1tyddyu"
#guard parseAddress .mainnet (ascii "bcrt1tyddyu") = .malformed
#guard parseAddress .testnet (ascii "bcrt1tyddyu") = .malformed
#guard parseAddress .regtest (ascii "bcrt1tyddyu") = .malformed
-- "bcrt1q08wsgc"
#guard parseAddress .mainnet (ascii "bcrt1q08wsgc") = .malformed
#guard parseAddress .testnet (ascii "bcrt1q08wsgc") = .malformed
#guard parseAddress .regtest (ascii "bcrt1q08wsgc") = .malformed
-- "bcrt1qt4jxkuncsxrgl9u75x5t9wauchyaphl8tkqrfw"
#guard parseAddress .mainnet (ascii "bcrt1qt4jxkuncsxrgl9u75x5t9wauchyaphl8tkqrfw") = .wrongNetwork
#guard parseAddress .testnet (ascii "bcrt1qt4jxkuncsxrgl9u75x5t9wauchyaphl8tkqrfw") = .wrongNetwork
#guard parseAddress .regtest (ascii "bcrt1qt4jxkuncsxrgl9u75x5t9wauchyaphl8tkqrfw") = .ok (hex "00145d646b727881868f979ea1a8b2bbbcc5c9d0dfe7")
#guard requestKey .regtest (ascii "bcrt1qt4jxkuncsxrgl9u75x5t9wauchyaphl8tkqrfw") = some (ascii "bcrt1qt4jxkuncsxrgl9u75x5t9wauchyaphl8tkqrfw")
-- "bcrt1qt4jxkuncsxrgl9u75x5t9wauchyaphlxqf6af59"
#guard parseAddress .mainnet (ascii "bcrt1qt4jxkuncsxrgl9u75x5t9wauchyaphlxqf6af59") = .malformed
#guard parseAddress .testnet (ascii "bcrt1qt4jxkuncsxrgl9u75x5t9wauchyaphlxqf6af59") = .malformed
#guard parseAddress .regtest (ascii "bcrt1qt4jxkuncsxrgl9u75x5t9wauchyaphlxqf6af59") = .malformed
-- "bcrt1p40x7lcmrmj5"
#guard parseAddress .mainnet (ascii "bcrt1p40x7lcmrmj5") = .malformed
#guard parseAddress .testnet (ascii "bcrt1p40x7lcmrmj5") = .malformed
#guard parseAddress .regtest (ascii "bcrt1p40x7lcmrmj5") = .malformed
-- "bcrt1p40x77q36674s"
#guard parseAddress .mainnet (ascii "bcrt1p40x77q36674s") = .malformed
#guard parseAddress .testnet (ascii "bcrt1p40x77q36674s") = .malformed
#guard parseAddress .regtest (ascii "bcrt1p40x77q36674s") = .malformed
-- "bcrt1p40x77qquuq6ee"
#guard parseAddress .mainnet (ascii "bcrt1p40x77qquuq6ee") = .wrongNetwork
#guard parseAddress .testnet (ascii "bcrt1p40x77qquuq6ee") = .wrongNetwork
#guard parseAddress .regtest (ascii "bcrt1p40x77qquuq6ee") = .ok (hex "5104abcdef00")
#guard requestKey .regtest (ascii "bcrt1p40x77qquuq6ee") = some (ascii "bcrt1p40x77qquuq6ee")
-- "bbbbbbbbbbbbbbbbbb1p8ez5c56mvp5kuarls6yerx4r5j4trwx8el2dmkhqa0e06pgwzugpvtfy8ve5ss2x2s2vkm"
#guard parseAddress .mainnet (ascii "bbbbbbbbbbbbbbbbbb1p8ez5c56mvp5kuarls6yerx4r5j4trwx8el2dmkhqa0e06pgwzugpvtfy8ve5ss2x2s2vkm") = .malformed
#guard parseAddress .testnet (ascii "bbbbbbbbbbbbbbbbbb1p8ez5c56mvp5kuarls6yerx4r5j4trwx8el2dmkhqa0e06pgwzugpvtfy8ve5ss2x2s2vkm") = .malformed
#guard parseAddress .regtest (ascii "bbbbbbbbbbbbbbbbbb1p8ez5c56mvp5kuarls6yerx4r5j4trwx8el2dmkhqa0e06pgwzugpvtfy8ve5ss2x2s2vkm") = .malformed
-- "bbbbbbbbbbbbbbbbbbb1p8ez5c56mvp5kuarls6yerx4r5j4trwx8el2dmkhqa0e06pgwzugpvtfy8ve5ss2xc6jtak"
#guard parseAddress .mainnet (ascii "bbbbbbbbbbbbbbbbbbb1p8ez5c56mvp5kuarls6yerx4r5j4trwx8el2dmkhqa0e06pgwzugpvtfy8ve5ss2xc6jtak") = .malformed
#guard parseAddress .testnet (ascii "bbbbbbbbbbbbbbbbbbb1p8ez5c56mvp5kuarls6yerx4r5j4trwx8el2dmkhqa0e06pgwzugpvtfy8ve5ss2xc6jtak") = .malformed
#guard parseAddress .regtest (ascii "bbbbbbbbbbbbbbbbbbb1p8ez5c56mvp5kuarls6yerx4r5j4trwx8el2dmkhqa0e06pgwzugpvtfy8ve5ss2xc6jtak") = .malformed
-- ""
#guard parseAddress .mainnet (ascii "") = .malformed
#guard parseAddress .testnet (ascii "") = .malformed
#guard parseAddress .regtest (ascii "") = .malformed
-- " "
#guard parseAddress .mainnet (ascii " ") = .malformed
#guard parseAddress .testnet (ascii " ") = .malformed
#guard parseAddress .regtest (ascii " ") = .malformed
-- "1"
#guard parseAddress .mainnet (ascii "1") = .malformed
#guard parseAddress .testnet (ascii "1") = .malformed
#guard parseAddress .regtest (ascii "1") = .malformed
-- "11"
#guard parseAddress .mainnet (ascii "11") = .malformed
#guard parseAddress .testnet (ascii "11") = .malformed
#guard parseAddress .regtest (ascii "11") = .malformed
-- "q"
#guard parseAddress .mainnet (ascii "q") = .malformed
#guard parseAddress .testnet (ascii "q") = .malformed
#guard parseAddress .regtest (ascii "q") = .malformed
-- "bc"
#guard parseAddress .mainnet (ascii "bc") = .malformed
#guard parseAddress .testnet (ascii "bc") = .malformed
#guard parseAddress .regtest (ascii "bc") = .malformed
-- "bc1"
#guard parseAddress .mainnet (ascii "bc1") = .malformed
#guard parseAddress .testnet (ascii "bc1") = .malformed
#guard parseAddress .regtest (ascii "bc1") = .malformed
-- "tb1"
#guard parseAddress .mainnet (ascii "tb1") = .malformed
#guard parseAddress .testnet (ascii "tb1") = .malformed
#guard parseAddress .regtest (ascii "tb1") = .malformed
-- "bcrt1"
#guard parseAddress .mainnet (ascii "bcrt1") = .malformed
#guard parseAddress .testnet (ascii "bcrt1") = .malformed
#guard parseAddress .regtest (ascii "bcrt1") = .malformed
-- "bc1q"
#guard parseAddress .mainnet (ascii "bc1q") = .malformed
#guard parseAddress .testnet (ascii "bc1q") = .malformed
#guard parseAddress .regtest (ascii "bc1q") = .malformed
-- "bc1qqqqqq"
#guard parseAddress .mainnet (ascii "bc1qqqqqq") = .malformed
#guard parseAddress .testnet (ascii "bc1qqqqqq") = .malformed
#guard parseAddress .regtest (ascii "bc1qqqqqq") = .malformed
-- "bc1p"
#guard parseAddress .mainnet (ascii "bc1p") = .malformed
#guard parseAddress .testnet (ascii "bc1p") = .malformed
#guard parseAddress .regtest (ascii "bc1p") = .malformed
-- "1bc1q"
#guard parseAddress .mainnet (ascii "1bc1q") = .malformed
#guard parseAddress .testnet (ascii "1bc1q") = .malformed
#guard parseAddress .regtest (ascii "1bc1q") = .malformed
-- "bc11"
#guard parseAddress .mainnet (ascii "bc11") = .malformed
#guard parseAddress .testnet (ascii "bc11") = .malformed
#guard parseAddress .regtest (ascii "bc11") = .malformed
-- "bc1 "
#guard parseAddress .mainnet (ascii "bc1 ") = .malformed
#guard parseAddress .testnet (ascii "bc1 ") = .malformed
#guard parseAddress .regtest (ascii "bc1 ") = .malformed
-- "not-an-address"
#guard parseAddress .mainnet (ascii "not-an-address") = .malformed
#guard parseAddress .testnet (ascii "not-an-address") = .malformed
#guard parseAddress .regtest (ascii "not-an-address") = .malformed
-- "hello world"
#guard parseAddress .mainnet (ascii "hello world") = .malformed
#guard parseAddress .testnet (ascii "hello world") = .malformed
#guard parseAddress .regtest (ascii "hello world") = .malformed
-- "0"
#guard parseAddress .mainnet (ascii "0") = .malformed
#guard parseAddress .testnet (ascii "0") = .malformed
#guard parseAddress .regtest (ascii "0") = .malformed
-- "O"
#guard parseAddress .mainnet (ascii "O") = .malformed
#guard parseAddress .testnet (ascii "O") = .malformed
#guard parseAddress .regtest (ascii "O") = .malformed
-- "l"
#guard parseAddress .mainnet (ascii "l") = .malformed
#guard parseAddress .testnet (ascii "l") = .malformed
#guard parseAddress .regtest (ascii "l") = .malformed
-- "I"
#guard parseAddress .mainnet (ascii "I") = .malformed
#guard parseAddress .testnet (ascii "I") = .malformed
#guard parseAddress .regtest (ascii "I") = .malformed
-- "\0"
#guard parseAddress .mainnet (hex "00") = .malformed
#guard parseAddress .testnet (hex "00") = .malformed
#guard parseAddress .regtest (hex "00") = .malformed
-- "\n"
#guard parseAddress .mainnet (hex "0a") = .malformed
#guard parseAddress .testnet (hex "0a") = .malformed
#guard parseAddress .regtest (hex "0a") = .malformed
-- "é"
#guard parseAddress .mainnet (hex "c3a9") = .malformed
#guard parseAddress .testnet (hex "c3a9") = .malformed
#guard parseAddress .regtest (hex "c3a9") = .malformed
-- "日本語"
#guard parseAddress .mainnet (hex "e697a5e69cace8aa9e") = .malformed
#guard parseAddress .testnet (hex "e697a5e69cace8aa9e") = .malformed
#guard parseAddress .regtest (hex "e697a5e69cace8aa9e") = .malformed
-- "bc1qé"
#guard parseAddress .mainnet (hex "62633171c3a9") = .malformed
#guard parseAddress .testnet (hex "62633171c3a9") = .malformed
#guard parseAddress .regtest (hex "62633171c3a9") = .malformed
-- "ébc1q"
#guard parseAddress .mainnet (hex "c3a962633171") = .malformed
#guard parseAddress .testnet (hex "c3a962633171") = .malformed
#guard parseAddress .regtest (hex "c3a962633171") = .malformed
-- "1é"
#guard parseAddress .mainnet (hex "31c3a9") = .malformed
#guard parseAddress .testnet (hex "31c3a9") = .malformed
#guard parseAddress .regtest (hex "31c3a9") = .malformed
-- "😀"
#guard parseAddress .mainnet (hex "f09f9880") = .malformed
#guard parseAddress .testnet (hex "f09f9880") = .malformed
#guard parseAddress .regtest (hex "f09f9880") = .malformed
-- " 19Wp98DQXk3PjGV8TsmT9LHo7RsdkJQ4qV"
#guard parseAddress .mainnet (ascii " 19Wp98DQXk3PjGV8TsmT9LHo7RsdkJQ4qV") = .malformed
#guard parseAddress .testnet (ascii " 19Wp98DQXk3PjGV8TsmT9LHo7RsdkJQ4qV") = .malformed
#guard parseAddress .regtest (ascii " 19Wp98DQXk3PjGV8TsmT9LHo7RsdkJQ4qV") = .malformed
-- "19Wp98DQXk3PjGV8TsmT9LHo7RsdkJQ4qV "
#guard parseAddress .mainnet (ascii "19Wp98DQXk3PjGV8TsmT9LHo7RsdkJQ4qV ") = .malformed
#guard parseAddress .testnet (ascii "19Wp98DQXk3PjGV8TsmT9LHo7RsdkJQ4qV ") = .malformed
#guard parseAddress .regtest (ascii "19Wp98DQXk3PjGV8TsmT9LHo7RsdkJQ4qV ") = .malformed
-- "19Wp98DQXk3PjGV8TsmT9LHo7RsdkJQ4qV\n"
#guard parseAddress .mainnet (hex "3139577039384451586b33506a47563854736d54394c486f375273646b4a513471560a") = .malformed
#guard parseAddress .testnet (hex "3139577039384451586b33506a47563854736d54394c486f375273646b4a513471560a") = .malformed
#guard parseAddress .regtest (hex "3139577039384451586b33506a47563854736d54394c486f375273646b4a513471560a") = .malformed
-- "\t19Wp98DQXk3PjGV8TsmT9LHo7RsdkJQ4qV"
#guard parseAddress .mainnet (hex "093139577039384451586b33506a47563854736d54394c486f375273646b4a51347156") = .malformed
#guard parseAddress .testnet (hex "093139577039384451586b33506a47563854736d54394c486f375273646b4a51347156") = .malformed
#guard parseAddress .regtest (hex "093139577039384451586b33506a47563854736d54394c486f375273646b4a51347156") = .malformed
-- "19Wp98DQXk 3PjGV8TsmT9LHo7RsdkJQ4qV"
#guard parseAddress .mainnet (ascii "19Wp98DQXk 3PjGV8TsmT9LHo7RsdkJQ4qV") = .malformed
#guard parseAddress .testnet (ascii "19Wp98DQXk 3PjGV8TsmT9LHo7RsdkJQ4qV") = .malformed
#guard parseAddress .regtest (ascii "19Wp98DQXk 3PjGV8TsmT9LHo7RsdkJQ4qV") = .malformed
-- "19Wp98DQXk3PjGV8TsmT9LHo7RsdkJQ4qV\0"
#guard parseAddress .mainnet (hex "3139577039384451586b33506a47563854736d54394c486f375273646b4a5134715600") = .malformed
#guard parseAddress .testnet (hex "3139577039384451586b33506a47563854736d54394c486f375273646b4a5134715600") = .malformed
#guard parseAddress .regtest (hex "3139577039384451586b33506a47563854736d54394c486f375273646b4a5134715600") = .malformed
-- "19Wp98DQXk3PjGV8TsmT9LHo7RsdkJQ4qVé"
#guard parseAddress .mainnet (hex "3139577039384451586b33506a47563854736d54394c486f375273646b4a51347156c3a9") = .malformed
#guard parseAddress .testnet (hex "3139577039384451586b33506a47563854736d54394c486f375273646b4a51347156c3a9") = .malformed
#guard parseAddress .regtest (hex "3139577039384451586b33506a47563854736d54394c486f375273646b4a51347156c3a9") = .malformed
-- "bitcoin:19Wp98DQXk3PjGV8TsmT9LHo7RsdkJQ4qV"
#guard parseAddress .mainnet (ascii "bitcoin:19Wp98DQXk3PjGV8TsmT9LHo7RsdkJQ4qV") = .malformed
#guard parseAddress .testnet (ascii "bitcoin:19Wp98DQXk3PjGV8TsmT9LHo7RsdkJQ4qV") = .malformed
#guard parseAddress .regtest (ascii "bitcoin:19Wp98DQXk3PjGV8TsmT9LHo7RsdkJQ4qV") = .malformed
-- " mp2mSBJPLmUeWNxkBSjpyFW7yRULdVYnNF"
#guard parseAddress .mainnet (ascii " mp2mSBJPLmUeWNxkBSjpyFW7yRULdVYnNF") = .malformed
#guard parseAddress .testnet (ascii " mp2mSBJPLmUeWNxkBSjpyFW7yRULdVYnNF") = .malformed
#guard parseAddress .regtest (ascii " mp2mSBJPLmUeWNxkBSjpyFW7yRULdVYnNF") = .malformed
-- "mp2mSBJPLmUeWNxkBSjpyFW7yRULdVYnNF "
#guard parseAddress .mainnet (ascii "mp2mSBJPLmUeWNxkBSjpyFW7yRULdVYnNF ") = .malformed
#guard parseAddress .testnet (ascii "mp2mSBJPLmUeWNxkBSjpyFW7yRULdVYnNF ") = .malformed
#guard parseAddress .regtest (ascii "mp2mSBJPLmUeWNxkBSjpyFW7yRULdVYnNF ") = .malformed
-- "mp2mSBJPLmUeWNxkBSjpyFW7yRULdVYnNF\n"
#guard parseAddress .mainnet (hex "6d70326d53424a504c6d5565574e786b42536a70794657377952554c6456596e4e460a") = .malformed
#guard parseAddress .testnet (hex "6d70326d53424a504c6d5565574e786b42536a70794657377952554c6456596e4e460a") = .malformed
#guard parseAddress .regtest (hex "6d70326d53424a504c6d5565574e786b42536a70794657377952554c6456596e4e460a") = .malformed
-- "\tmp2mSBJPLmUeWNxkBSjpyFW7yRULdVYnNF"
#guard parseAddress .mainnet (hex "096d70326d53424a504c6d5565574e786b42536a70794657377952554c6456596e4e46") = .malformed
#guard parseAddress .testnet (hex "096d70326d53424a504c6d5565574e786b42536a70794657377952554c6456596e4e46") = .malformed
#guard parseAddress .regtest (hex "096d70326d53424a504c6d5565574e786b42536a70794657377952554c6456596e4e46") = .malformed
-- "mp2mSBJPLm UeWNxkBSjpyFW7yRULdVYnNF"
#guard parseAddress .mainnet (ascii "mp2mSBJPLm UeWNxkBSjpyFW7yRULdVYnNF") = .malformed
#guard parseAddress .testnet (ascii "mp2mSBJPLm UeWNxkBSjpyFW7yRULdVYnNF") = .malformed
#guard parseAddress .regtest (ascii "mp2mSBJPLm UeWNxkBSjpyFW7yRULdVYnNF") = .malformed
-- "mp2mSBJPLmUeWNxkBSjpyFW7yRULdVYnNF\0"
#guard parseAddress .mainnet (hex "6d70326d53424a504c6d5565574e786b42536a70794657377952554c6456596e4e4600") = .malformed
#guard parseAddress .testnet (hex "6d70326d53424a504c6d5565574e786b42536a70794657377952554c6456596e4e4600") = .malformed
#guard parseAddress .regtest (hex "6d70326d53424a504c6d5565574e786b42536a70794657377952554c6456596e4e4600") = .malformed
-- "mp2mSBJPLmUeWNxkBSjpyFW7yRULdVYnNFé"
#guard parseAddress .mainnet (hex "6d70326d53424a504c6d5565574e786b42536a70794657377952554c6456596e4e46c3a9") = .malformed
#guard parseAddress .testnet (hex "6d70326d53424a504c6d5565574e786b42536a70794657377952554c6456596e4e46c3a9") = .malformed
#guard parseAddress .regtest (hex "6d70326d53424a504c6d5565574e786b42536a70794657377952554c6456596e4e46c3a9") = .malformed
-- "bitcoin:mp2mSBJPLmUeWNxkBSjpyFW7yRULdVYnNF"
#guard parseAddress .mainnet (ascii "bitcoin:mp2mSBJPLmUeWNxkBSjpyFW7yRULdVYnNF") = .malformed
#guard parseAddress .testnet (ascii "bitcoin:mp2mSBJPLmUeWNxkBSjpyFW7yRULdVYnNF") = .malformed
#guard parseAddress .regtest (ascii "bitcoin:mp2mSBJPLmUeWNxkBSjpyFW7yRULdVYnNF") = .malformed
-- " bc1qt4jxkuncsxrgl9u75x5t9wauchyaphlx70kgcx"
#guard parseAddress .mainnet (ascii " bc1qt4jxkuncsxrgl9u75x5t9wauchyaphlx70kgcx") = .malformed
#guard parseAddress .testnet (ascii " bc1qt4jxkuncsxrgl9u75x5t9wauchyaphlx70kgcx") = .malformed
#guard parseAddress .regtest (ascii " bc1qt4jxkuncsxrgl9u75x5t9wauchyaphlx70kgcx") = .malformed
-- "bc1qt4jxkuncsxrgl9u75x5t9wauchyaphlx70kgcx "
#guard parseAddress .mainnet (ascii "bc1qt4jxkuncsxrgl9u75x5t9wauchyaphlx70kgcx ") = .malformed
#guard parseAddress .testnet (ascii "bc1qt4jxkuncsxrgl9u75x5t9wauchyaphlx70kgcx ") = .malformed
#guard parseAddress .regtest (ascii "bc1qt4jxkuncsxrgl9u75x5t9wauchyaphlx70kgcx ") = .malformed
-- "bc1qt4jxkuncsxrgl9u75x5t9wauchyaphlx70kgcx\n"
#guard parseAddress .mainnet (hex "6263317174346a786b756e63737872676c39753735783574397761756368796170686c7837306b6763780a") = .malformed
#guard parseAddress .testnet (hex "6263317174346a786b756e63737872676c39753735783574397761756368796170686c7837306b6763780a") = .malformed
#guard parseAddress .regtest (hex "6263317174346a786b756e63737872676c39753735783574397761756368796170686c7837306b6763780a") = .malformed
-- "\tbc1qt4jxkuncsxrgl9u75x5t9wauchyaphlx70kgcx"
#guard parseAddress .mainnet (hex "096263317174346a786b756e63737872676c39753735783574397761756368796170686c7837306b676378") = .malformed
#guard parseAddress .testnet (hex "096263317174346a786b756e63737872676c39753735783574397761756368796170686c7837306b676378") = .malformed
#guard parseAddress .regtest (hex "096263317174346a786b756e63737872676c39753735783574397761756368796170686c7837306b676378") = .malformed
-- "bc1qt4jxku ncsxrgl9u75x5t9wauchyaphlx70kgcx"
#guard parseAddress .mainnet (ascii "bc1qt4jxku ncsxrgl9u75x5t9wauchyaphlx70kgcx") = .malformed
#guard parseAddress .testnet (ascii "bc1qt4jxku ncsxrgl9u75x5t9wauchyaphlx70kgcx") = .malformed
#guard parseAddress .regtest (ascii "bc1qt4jxku ncsxrgl9u75x5t9wauchyaphlx70kgcx") = .malformed
-- "bc1qt4jxkuncsxrgl9u75x5t9wauchyaphlx70kgcx\0"
#guard parseAddress .mainnet (hex "6263317174346a786b756e63737872676c39753735783574397761756368796170686c7837306b67637800") = .malformed
#guard parseAddress .testnet (hex "6263317174346a786b756e63737872676c39753735783574397761756368796170686c7837306b67637800") = .malformed
#guard parseAddress .regtest (hex "6263317174346a786b756e63737872676c39753735783574397761756368796170686c7837306b67637800") = .malformed
-- "bc1qt4jxkuncsxrgl9u75x5t9wauchyaphlx70kgcxé"
#guard parseAddress .mainnet (hex "6263317174346a786b756e63737872676c39753735783574397761756368796170686c7837306b676378c3a9") = .malformed
#guard parseAddress .testnet (hex "6263317174346a786b756e63737872676c39753735783574397761756368796170686c7837306b676378c3a9") = .malformed
#guard parseAddress .regtest (hex "6263317174346a786b756e63737872676c39753735783574397761756368796170686c7837306b676378c3a9") = .malformed
-- "bitcoin:bc1qt4jxkuncsxrgl9u75x5t9wauchyaphlx70kgcx"
#guard parseAddress .mainnet (ascii "bitcoin:bc1qt4jxkuncsxrgl9u75x5t9wauchyaphlx70kgcx") = .malformed
#guard parseAddress .testnet (ascii "bitcoin:bc1qt4jxkuncsxrgl9u75x5t9wauchyaphlx70kgcx") = .malformed
#guard parseAddress .regtest (ascii "bitcoin:bc1qt4jxkuncsxrgl9u75x5t9wauchyaphlx70kgcx") = .malformed
-- " bcrt1qt4jxkuncsxrgl9u75x5t9wauchyaphlxkq5k5u"
#guard parseAddress .mainnet (ascii " bcrt1qt4jxkuncsxrgl9u75x5t9wauchyaphlxkq5k5u") = .malformed
#guard parseAddress .testnet (ascii " bcrt1qt4jxkuncsxrgl9u75x5t9wauchyaphlxkq5k5u") = .malformed
#guard parseAddress .regtest (ascii " bcrt1qt4jxkuncsxrgl9u75x5t9wauchyaphlxkq5k5u") = .malformed
-- "bcrt1qt4jxkuncsxrgl9u75x5t9wauchyaphlxkq5k5u "
#guard parseAddress .mainnet (ascii "bcrt1qt4jxkuncsxrgl9u75x5t9wauchyaphlxkq5k5u ") = .malformed
#guard parseAddress .testnet (ascii "bcrt1qt4jxkuncsxrgl9u75x5t9wauchyaphlxkq5k5u ") = .malformed
#guard parseAddress .regtest (ascii "bcrt1qt4jxkuncsxrgl9u75x5t9wauchyaphlxkq5k5u ") = .malformed
-- "bcrt1qt4jxkuncsxrgl9u75x5t9wauchyaphlxkq5k5u\n"
#guard parseAddress .mainnet (hex "62637274317174346a786b756e63737872676c39753735783574397761756368796170686c786b71356b35750a") = .malformed
#guard parseAddress .testnet (hex "62637274317174346a786b756e63737872676c39753735783574397761756368796170686c786b71356b35750a") = .malformed
#guard parseAddress .regtest (hex "62637274317174346a786b756e63737872676c39753735783574397761756368796170686c786b71356b35750a") = .malformed
-- "\tbcrt1qt4jxkuncsxrgl9u75x5t9wauchyaphlxkq5k5u"
#guard parseAddress .mainnet (hex "0962637274317174346a786b756e63737872676c39753735783574397761756368796170686c786b71356b3575") = .malformed
#guard parseAddress .testnet (hex "0962637274317174346a786b756e63737872676c39753735783574397761756368796170686c786b71356b3575") = .malformed
#guard parseAddress .regtest (hex "0962637274317174346a786b756e63737872676c39753735783574397761756368796170686c786b71356b3575") = .malformed
-- "bcrt1qt4jx kuncsxrgl9u75x5t9wauchyaphlxkq5k5u"
#guard parseAddress .mainnet (ascii "bcrt1qt4jx kuncsxrgl9u75x5t9wauchyaphlxkq5k5u") = .malformed
#guard parseAddress .testnet (ascii "bcrt1qt4jx kuncsxrgl9u75x5t9wauchyaphlxkq5k5u") = .malformed
#guard parseAddress .regtest (ascii "bcrt1qt4jx kuncsxrgl9u75x5t9wauchyaphlxkq5k5u") = .malformed
-- "bcrt1qt4jxkuncsxrgl9u75x5t9wauchyaphlxkq5k5u\0"
#guard parseAddress .mainnet (hex "62637274317174346a786b756e63737872676c39753735783574397761756368796170686c786b71356b357500") = .malformed
#guard parseAddress .testnet (hex "62637274317174346a786b756e63737872676c39753735783574397761756368796170686c786b71356b357500") = .malformed
#guard parseAddress .regtest (hex "62637274317174346a786b756e63737872676c39753735783574397761756368796170686c786b71356b357500") = .malformed
-- "bcrt1qt4jxkuncsxrgl9u75x5t9wauchyaphlxkq5k5ué"
#guard parseAddress .mainnet (hex "62637274317174346a786b756e63737872676c39753735783574397761756368796170686c786b71356b3575c3a9") = .malformed
#guard parseAddress .testnet (hex "62637274317174346a786b756e63737872676c39753735783574397761756368796170686c786b71356b3575c3a9") = .malformed
#guard parseAddress .regtest (hex "62637274317174346a786b756e63737872676c39753735783574397761756368796170686c786b71356b3575c3a9") = .malformed
-- "bitcoin:bcrt1qt4jxkuncsxrgl9u75x5t9wauchyaphlxkq5k5u"
#guard parseAddress .mainnet (ascii "bitcoin:bcrt1qt4jxkuncsxrgl9u75x5t9wauchyaphlxkq5k5u") = .malformed
#guard parseAddress .testnet (ascii "bitcoin:bcrt1qt4jxkuncsxrgl9u75x5t9wauchyaphlxkq5k5u") = .malformed
#guard parseAddress .regtest (ascii "bitcoin:bcrt1qt4jxkuncsxrgl9u75x5t9wauchyaphlxkq5k5u") = .malformed
-- "BC1QW508D6QEJXTDG4Y5R3ZARVARY0C5XW7KV8F3T4"
#guard parseAddress .mainnet (ascii "BC1QW508D6QEJXTDG4Y5R3ZARVARY0C5XW7KV8F3T4") = .ok (hex "0014751e76e8199196d454941c45d1b3a323f1433bd6")
#guard requestKey .mainnet (ascii "BC1QW508D6QEJXTDG4Y5R3ZARVARY0C5XW7KV8F3T4") = some (ascii "bc1qw508d6qejxtdg4y5r3zarvary0c5xw7kv8f3t4")
#guard parseAddress .testnet (ascii "BC1QW508D6QEJXTDG4Y5R3ZARVARY0C5XW7KV8F3T4") = .wrongNetwork
#guard parseAddress .regtest (ascii "BC1QW508D6QEJXTDG4Y5R3ZARVARY0C5XW7KV8F3T4") = .wrongNetwork
-- "tb1qrp33g0q5c5txsp9arysrx4k6zdkfs4nce4xj0gdcccefvpysxf3q0sl5k7"
#guard parseAddress .mainnet (ascii "tb1qrp33g0q5c5txsp9arysrx4k6zdkfs4nce4xj0gdcccefvpysxf3q0sl5k7") = .wrongNetwork
#guard parseAddress .testnet (ascii "tb1qrp33g0q5c5txsp9arysrx4k6zdkfs4nce4xj0gdcccefvpysxf3q0sl5k7") = .ok (hex "00201863143c14c5166804bd19203356da136c985678cd4d27a1b8c6329604903262")
#guard requestKey .testnet (ascii "tb1qrp33g0q5c5txsp9arysrx4k6zdkfs4nce4xj0gdcccefvpysxf3q0sl5k7") = some (ascii "tb1qrp33g0q5c5txsp9arysrx4k6zdkfs4nce4xj0gdcccefvpysxf3q0sl5k7")
#guard parseAddress .regtest (ascii "tb1qrp33g0q5c5txsp9arysrx4k6zdkfs4nce4xj0gdcccefvpysxf3q0sl5k7") = .wrongNetwork
-- "bc1pw508d6qejxtdg4y5r3zarvary0c5xw7kw508d6qejxtdg4y5r3zarvary0c5xw7k7grplx"
#guard parseAddress .mainnet (ascii "bc1pw508d6qejxtdg4y5r3zarvary0c5xw7kw508d6qejxtdg4y5r3zarvary0c5xw7k7grplx") = .malformed
#guard parseAddress .testnet (ascii "bc1pw508d6qejxtdg4y5r3zarvary0c5xw7kw508d6qejxtdg4y5r3zarvary0c5xw7k7grplx") = .malformed
#guard parseAddress .regtest (ascii "bc1pw508d6qejxtdg4y5r3zarvary0c5xw7kw508d6qejxtdg4y5r3zarvary0c5xw7k7grplx") = .malformed
-- "BC1SW50QA3JX3S"
#guard parseAddress .mainnet (ascii "BC1SW50QA3JX3S") = .malformed
#guard parseAddress .testnet (ascii "BC1SW50QA3JX3S") = .malformed
#guard parseAddress .regtest (ascii "BC1SW50QA3JX3S") = .malformed
-- "bc1zw508d6qejxtdg4y5r3zarvaryvg6kdaj"
#guard parseAddress .mainnet (ascii "bc1zw508d6qejxtdg4y5r3zarvaryvg6kdaj") = .malformed
#guard parseAddress .testnet (ascii "bc1zw508d6qejxtdg4y5r3zarvaryvg6kdaj") = .malformed
#guard parseAddress .regtest (ascii "bc1zw508d6qejxtdg4y5r3zarvaryvg6kdaj") = .malformed
-- "tb1qqqqqp399et2xygdj5xreqhjjvcmzhxw4aywxecjdzew6hylgvsesrxh6hy"
#guard parseAddress .mainnet (ascii "tb1qqqqqp399et2xygdj5xreqhjjvcmzhxw4aywxecjdzew6hylgvsesrxh6hy") = .wrongNetwork
#guard parseAddress .testnet (ascii "tb1qqqqqp399et2xygdj5xreqhjjvcmzhxw4aywxecjdzew6hylgvsesrxh6hy") = .ok (hex "0020000000c4a5cad46221b2a187905e5266362b99d5e91c6ce24d165dab93e86433")
#guard requestKey .testnet (ascii "tb1qqqqqp399et2xygdj5xreqhjjvcmzhxw4aywxecjdzew6hylgvsesrxh6hy") = some (ascii "tb1qqqqqp399et2xygdj5xreqhjjvcmzhxw4aywxecjdzew6hylgvsesrxh6hy")
#guard parseAddress .regtest (ascii "tb1qqqqqp399et2xygdj5xreqhjjvcmzhxw4aywxecjdzew6hylgvsesrxh6hy") = .wrongNetwork
-- "tc1qw508d6qejxtdg4y5r3zarvary0c5xw7kg3g4ty"
#guard parseAddress .mainnet (ascii "tc1qw508d6qejxtdg4y5r3zarvary0c5xw7kg3g4ty") = .malformed
#guard parseAddress .testnet (ascii "tc1qw508d6qejxtdg4y5r3zarvary0c5xw7kg3g4ty") = .malformed
#guard parseAddress .regtest (ascii "tc1qw508d6qejxtdg4y5r3zarvary0c5xw7kg3g4ty") = .malformed
-- "bc1qw508d6qejxtdg4y5r3zarvary0c5xw7kv8f3t5"
#guard parseAddress .mainnet (ascii "bc1qw508d6qejxtdg4y5r3zarvary0c5xw7kv8f3t5") = .malformed
#guard parseAddress .testnet (ascii "bc1qw508d6qejxtdg4y5r3zarvary0c5xw7kv8f3t5") = .malformed
#guard parseAddress .regtest (ascii "bc1qw508d6qejxtdg4y5r3zarvary0c5xw7kv8f3t5") = .malformed
-- "BC13W50QA3JX3S"
#guard parseAddress .mainnet (ascii "BC13W50QA3JX3S") = .malformed
#guard parseAddress .testnet (ascii "BC13W50QA3JX3S") = .malformed
#guard parseAddress .regtest (ascii "BC13W50QA3JX3S") = .malformed
-- "bc1rw5uspcuh"
#guard parseAddress .mainnet (ascii "bc1rw5uspcuh") = .malformed
#guard parseAddress .testnet (ascii "bc1rw5uspcuh") = .malformed
#guard parseAddress .regtest (ascii "bc1rw5uspcuh") = .malformed
-- "bc10w508d6qejxtdg4y5r3zarvary0c5xw7kw508d6qejxtdg4y5r3zarvary0c5xw7kw5rljs90"
#guard parseAddress .mainnet (ascii "bc10w508d6qejxtdg4y5r3zarvary0c5xw7kw508d6qejxtdg4y5r3zarvary0c5xw7kw5rljs90") = .malformed
#guard parseAddress .testnet (ascii "bc10w508d6qejxtdg4y5r3zarvary0c5xw7kw508d6qejxtdg4y5r3zarvary0c5xw7kw5rljs90") = .malformed
#guard parseAddress .regtest (ascii "bc10w508d6qejxtdg4y5r3zarvary0c5xw7kw508d6qejxtdg4y5r3zarvary0c5xw7kw5rljs90") = .malformed
-- "BC1QR508D6QEJXTDG4Y5R3ZARVARYV98GJ9P"
#guard parseAddress .mainnet (ascii "BC1QR508D6QEJXTDG4Y5R3ZARVARYV98GJ9P") = .malformed
#guard parseAddress .testnet (ascii "BC1QR508D6QEJXTDG4Y5R3ZARVARYV98GJ9P") = .malformed
#guard parseAddress .regtest (ascii "BC1QR508D6QEJXTDG4Y5R3ZARVARYV98GJ9P") = .malformed
-- "tb1qrp33g0q5c5txsp9arysrx4k6zdkfs4nce4xj0gdcccefvpysxf3q0sL5k7"
#guard parseAddress .mainnet (ascii "tb1qrp33g0q5c5txsp9arysrx4k6zdkfs4nce4xj0gdcccefvpysxf3q0sL5k7") = .malformed
#guard parseAddress .testnet (ascii "tb1qrp33g0q5c5txsp9arysrx4k6zdkfs4nce4xj0gdcccefvpysxf3q0sL5k7") = .malformed
#guard parseAddress .regtest (ascii "tb1qrp33g0q5c5txsp9arysrx4k6zdkfs4nce4xj0gdcccefvpysxf3q0sL5k7") = .malformed
-- "bc1zw508d6qejxtdg4y5r3zarvaryvqyzf3du"
#guard parseAddress .mainnet (ascii "bc1zw508d6qejxtdg4y5r3zarvaryvqyzf3du") = .malformed
#guard parseAddress .testnet (ascii "bc1zw508d6qejxtdg4y5r3zarvaryvqyzf3du") = .malformed
#guard parseAddress .regtest (ascii "bc1zw508d6qejxtdg4y5r3zarvaryvqyzf3du") = .malformed
-- "tb1qrp33g0q5c5txsp9arysrx4k6zdkfs4nce4xj0gdcccefvpysxf3pjxtptv"
#guard parseAddress .mainnet (ascii "tb1qrp33g0q5c5txsp9arysrx4k6zdkfs4nce4xj0gdcccefvpysxf3pjxtptv") = .malformed
#guard parseAddress .testnet (ascii "tb1qrp33g0q5c5txsp9arysrx4k6zdkfs4nce4xj0gdcccefvpysxf3pjxtptv") = .malformed
#guard parseAddress .regtest (ascii "tb1qrp33g0q5c5txsp9arysrx4k6zdkfs4nce4xj0gdcccefvpysxf3pjxtptv") = .malformed
-- "A12UEL5L"
#guard parseAddress .mainnet (ascii "A12UEL5L") = .malformed
#guard parseAddress .testnet (ascii "A12UEL5L") = .malformed
#guard parseAddress .regtest (ascii "A12UEL5L") = .malformed
-- "a12uel5l"
#guard parseAddress .mainnet (ascii "a12uel5l") = .malformed
#guard parseAddress .testnet (ascii "a12uel5l") = .malformed
#guard parseAddress .regtest (ascii "a12uel5l") = .malformed
-- "an83characterlonghumanreadablepartthatcontainsthenumber1andtheexcludedcharactersbio1tt5tgs"
#guard parseAddress .mainnet (ascii "an83characterlonghumanreadablepartthatcontainsthenumber1andtheexcludedcharactersbio1tt5tgs") = .malformed
#guard parseAddress .testnet (ascii "an83characterlonghumanreadablepartthatcontainsthenumber1andtheexcludedcharactersbio1tt5tgs") = .malformed
#guard parseAddress .regtest (ascii "an83characterlonghumanreadablepartthatcontainsthenumber1andtheexcludedcharactersbio1tt5tgs") = .malformed
-- "abcdef1qpzry9x8gf2tvdw0s3jn54khce6mua7lmqqqxw"
#guard parseAddress .mainnet (ascii "abcdef1qpzry9x8gf2tvdw0s3jn54khce6mua7lmqqqxw") = .malformed
#guard parseAddress .testnet (ascii "abcdef1qpzry9x8gf2tvdw0s3jn54khce6mua7lmqqqxw") = .malformed
#guard parseAddress .regtest (ascii "abcdef1qpzry9x8gf2tvdw0s3jn54khce6mua7lmqqqxw") = .malformed
-- "11qqqqqqqqqqqqqqqqqqqqqqqqqqqqqqqqqqqqqqqqqqqqqqqqqqqqqqqqqqqqqqqqqqqqqqqqqqqqqqqqqqc8247j"
#guard parseAddress .mainnet (ascii "11qqqqqqqqqqqqqqqqqqqqqqqqqqqqqqqqqqqqqqqqqqqqqqqqqqqqqqqqqqqqqqqqqqqqqqqqqqqqqqqqqqc8247j") = .malformed
#guard parseAddress .testnet (ascii "11qqqqqqqqqqqqqqqqqqqqqqqqqqqqqqqqqqqqqqqqqqqqqqqqqqqqqqqqqqqqqqqqqqqqqqqqqqqqqqqqqqc8247j") = .malformed
#guard parseAddress .regtest (ascii "11qqqqqqqqqqqqqqqqqqqqqqqqqqqqqqqqqqqqqqqqqqqqqqqqqqqqqqqqqqqqqqqqqqqqqqqqqqqqqqqqqqc8247j") = .malformed
-- "split1checkupstagehandshakeupstreamerranterredcaperred2y9e3w"
#guard parseAddress .mainnet (ascii "split1checkupstagehandshakeupstreamerranterredcaperred2y9e3w") = .malformed
#guard parseAddress .testnet (ascii "split1checkupstagehandshakeupstreamerranterredcaperred2y9e3w") = .malformed
#guard parseAddress .regtest (ascii "split1checkupstagehandshakeupstreamerranterredcaperred2y9e3w") = .malformed
-- "?1ezyfcl"
#guard parseAddress .mainnet (ascii "?1ezyfcl") = .malformed
#guard parseAddress .testnet (ascii "?1ezyfcl") = .malformed
#guard parseAddress .regtest (ascii "?1ezyfcl") = .malformed
-- " 1nwldj5"
#guard parseAddress .mainnet (ascii " 1nwldj5") = .malformed
#guard parseAddress .testnet (ascii " 1nwldj5") = .malformed
#guard parseAddress .regtest (ascii " 1nwldj5") = .malformed
-- "\u{7f}1axkwrx"
#guard parseAddress .mainnet (hex "7f3161786b777278") = .malformed
#guard parseAddress .testnet (hex "7f3161786b777278") = .malformed
#guard parseAddress .regtest (hex "7f3161786b777278") = .malformed
-- "\u{80}1eym55h"
#guard parseAddress .mainnet (hex "c2803165796d353568") = .malformed
#guard parseAddress .testnet (hex "c2803165796d353568") = .malformed
#guard parseAddress .regtest (hex "c2803165796d353568") = .malformed
-- "an84characterslonghumanreadablepartthatcontainsthenumber1andtheexcludedcharactersbio1569pvx"
#guard parseAddress .mainnet (ascii "an84characterslonghumanreadablepartthatcontainsthenumber1andtheexcludedcharactersbio1569pvx") = .malformed
#guard parseAddress .testnet (ascii "an84characterslonghumanreadablepartthatcontainsthenumber1andtheexcludedcharactersbio1569pvx") = .malformed
#guard parseAddress .regtest (ascii "an84characterslonghumanreadablepartthatcontainsthenumber1andtheexcludedcharactersbio1569pvx") = .malformed
-- "pzry9x0s0muk"
#guard parseAddress .mainnet (ascii "pzry9x0s0muk") = .malformed
#guard parseAddress .testnet (ascii "pzry9x0s0muk") = .malformed
#guard parseAddress .regtest (ascii "pzry9x0s0muk") = .malformed
-- "1pzry9x0s0muk"
#guard parseAddress .mainnet (ascii "1pzry9x0s0muk") = .malformed
#guard parseAddress .testnet (ascii "1pzry9x0s0muk") = .malformed
#guard parseAddress .regtest (ascii "1pzry9x0s0muk") = .malformed
-- "x1b4n0q5v"
#guard parseAddress .mainnet (ascii "x1b4n0q5v") = .malformed
#guard parseAddress .testnet (ascii "x1b4n0q5v") = .malformed
#guard parseAddress .regtest (ascii "x1b4n0q5v") = .malformed
-- "li1dgmt3"
#guard parseAddress .mainnet (ascii "li1dgmt3") = .malformed
#guard parseAddress .testnet (ascii "li1dgmt3") = .malformed
#guard parseAddress .regtest (ascii "li1dgmt3") = .malformed
-- "de1lg7wtÿ"
#guard parseAddress .mainnet (hex "6465316c67377774c3bf") = .malformed
#guard parseAddress .testnet (hex "6465316c67377774c3bf") = .malformed
#guard parseAddress .regtest (hex "6465316c67377774c3bf") = .malformed
-- "A1G7SGD8"
#guard parseAddress .mainnet (ascii "A1G7SGD8") = .malformed
#guard parseAddress .testnet (ascii "A1G7SGD8") = .malformed
#guard parseAddress .regtest (ascii "A1G7SGD8") = .malformed
-- "10a06t8"
#guard parseAddress .mainnet (ascii "10a06t8") = .malformed
#guard parseAddress .testnet (ascii "10a06t8") = .malformed
#guard parseAddress .regtest (ascii "10a06t8") = .malformed
-- "1qzzfhee"
#guard parseAddress .mainnet (ascii "1qzzfhee") = .malformed
#guard parseAddress .testnet (ascii "1qzzfhee") = .malformed
#guard parseAddress .regtest (ascii "1qzzfhee") = .malformed
-- "bc1pw508d6qejxtdg4y5r3zarvary0c5xw7kw508d6qejxtdg4y5r3zarvary0c5xw7kt5nd6y"
#guard parseAddress .mainnet (ascii "bc1pw508d6qejxtdg4y5r3zarvary0c5xw7kw508d6qejxtdg4y5r3zarvary0c5xw7kt5nd6y") = .ok (hex "5128751e76e8199196d454941c45d1b3a323f1433bd6751e76e8199196d454941c45d1b3a323f1433bd6")
#guard requestKey .mainnet (ascii "bc1pw508d6qejxtdg4y5r3zarvary0c5xw7kw508d6qejxtdg4y5r3zarvary0c5xw7kt5nd6y") = some (ascii "bc1pw508d6qejxtdg4y5r3zarvary0c5xw7kw508d6qejxtdg4y5r3zarvary0c5xw7kt5nd6y")
#guard parseAddress .testnet (ascii "bc1pw508d6qejxtdg4y5r3zarvary0c5xw7kw508d6qejxtdg4y5r3zarvary0c5xw7kt5nd6y") = .wrongNetwork
#guard parseAddress .regtest (ascii "bc1pw508d6qejxtdg4y5r3zarvary0c5xw7kw508d6qejxtdg4y5r3zarvary0c5xw7kt5nd6y") = .wrongNetwork
-- "bc1zw508d6qejxtdg4y5r3zarvaryvaxxpcs"
#guard parseAddress .mainnet (ascii "bc1zw508d6qejxtdg4y5r3zarvaryvaxxpcs") = .ok (hex "5210751e76e8199196d454941c45d1b3a323")
#guard requestKey .mainnet (ascii "bc1zw508d6qejxtdg4y5r3zarvaryvaxxpcs") = some (ascii "bc1zw508d6qejxtdg4y5r3zarvaryvaxxpcs")
#guard parseAddress .testnet (ascii "bc1zw508d6qejxtdg4y5r3zarvaryvaxxpcs") = .wrongNetwork
#guard parseAddress .regtest (ascii "bc1zw508d6qejxtdg4y5r3zarvaryvaxxpcs") = .wrongNetwork
-- "tb1pqqqqp399et2xygdj5xreqhjjvcmzhxw4aywxecjdzew6hylgvsesf3hn0c"
#guard parseAddress .mainnet (ascii "tb1pqqqqp399et2xygdj5xreqhjjvcmzhxw4aywxecjdzew6hylgvsesf3hn0c") = .wrongNetwork
#guard parseAddress .testnet (ascii "tb1pqqqqp399et2xygdj5xreqhjjvcmzhxw4aywxecjdzew6hylgvsesf3hn0c") = .ok (hex "5120000000c4a5cad46221b2a187905e5266362b99d5e91c6ce24d165dab93e86433")
#guard requestKey .testnet (ascii "tb1pqqqqp399et2xygdj5xreqhjjvcmzhxw4aywxecjdzew6hylgvsesf3hn0c") = some (ascii "tb1pqqqqp399et2xygdj5xreqhjjvcmzhxw4aywxecjdzew6hylgvsesf3hn0c")
#guard parseAddress .regtest (ascii "tb1pqqqqp399et2xygdj5xreqhjjvcmzhxw4aywxecjdzew6hylgvsesf3hn0c") = .wrongNetwork
-- "bc1p0xlxvlhemja6c4dqv22uapctqupfhlxm9h8z3k2e72q4k9hcz7vqzk5jj0"
#guard parseAddress .mainnet (ascii "bc1p0xlxvlhemja6c4dqv22uapctqupfhlxm9h8z3k2e72q4k9hcz7vqzk5jj0") = .ok (hex "512079be667ef9dcbbac55a06295ce870b07029bfcdb2dce28d959f2815b16f81798")
#guard requestKey .mainnet (ascii "bc1p0xlxvlhemja6c4dqv22uapctqupfhlxm9h8z3k2e72q4k9hcz7vqzk5jj0") = some (ascii "bc1p0xlxvlhemja6c4dqv22uapctqupfhlxm9h8z3k2e72q4k9hcz7vqzk5jj0")
#guard parseAddress .testnet (ascii "bc1p0xlxvlhemja6c4dqv22uapctqupfhlxm9h8z3k2e72q4k9hcz7vqzk5jj0") = .wrongNetwork
#guard parseAddress .regtest (ascii "bc1p0xlxvlhemja6c4dqv22uapctqupfhlxm9h8z3k2e72q4k9hcz7vqzk5jj0") = .wrongNetwork
-- "bc1p0xlxvlhemja6c4dqv22uapctqupfhlxm9h8z3k2e72q4k9hcz7vqh2y7hd"
#guard parseAddress .mainnet (ascii "bc1p0xlxvlhemja6c4dqv22uapctqupfhlxm9h8z3k2e72q4k9hcz7vqh2y7hd") = .malformed
#guard parseAddress .testnet (ascii "bc1p0xlxvlhemja6c4dqv22uapctqupfhlxm9h8z3k2e72q4k9hcz7vqh2y7hd") = .malformed
#guard parseAddress .regtest (ascii "bc1p0xlxvlhemja6c4dqv22uapctqupfhlxm9h8z3k2e72q4k9hcz7vqh2y7hd") = .malformed
-- "tb1z0xlxvlhemja6c4dqv22uapctqupfhlxm9h8z3k2e72q4k9hcz7vqglt7rf"
#guard parseAddress .mainnet (ascii "tb1z0xlxvlhemja6c4dqv22uapctqupfhlxm9h8z3k2e72q4k9hcz7vqglt7rf") = .malformed
#guard parseAddress .testnet (ascii "tb1z0xlxvlhemja6c4dqv22uapctqupfhlxm9h8z3k2e72q4k9hcz7vqglt7rf") = .malformed
#guard parseAddress .regtest (ascii "tb1z0xlxvlhemja6c4dqv22uapctqupfhlxm9h8z3k2e72q4k9hcz7vqglt7rf") = .malformed
-- "BC1S0XLXVLHEMJA6C4DQV22UAPCTQUPFHLXM9H8Z3K2E72Q4K9HCZ7VQ54WELL"
#guard parseAddress .mainnet (ascii "BC1S0XLXVLHEMJA6C4DQV22UAPCTQUPFHLXM9H8Z3K2E72Q4K9HCZ7VQ54WELL") = .malformed
#guard parseAddress .testnet (ascii "BC1S0XLXVLHEMJA6C4DQV22UAPCTQUPFHLXM9H8Z3K2E72Q4K9HCZ7VQ54WELL") = .malformed
#guard parseAddress .regtest (ascii "BC1S0XLXVLHEMJA6C4DQV22UAPCTQUPFHLXM9H8Z3K2E72Q4K9HCZ7VQ54WELL") = .malformed
-- "bc1qw508d6qejxtdg4y5r3zarvary0c5xw7kemeawh"
#guard parseAddress .mainnet (ascii "bc1qw508d6qejxtdg4y5r3zarvary0c5xw7kemeawh") = .malformed
#guard parseAddress .testnet (ascii "bc1qw508d6qejxtdg4y5r3zarvary0c5xw7kemeawh") = .malformed
#guard parseAddress .regtest (ascii "bc1qw508d6qejxtdg4y5r3zarvary0c5xw7kemeawh") = .malformed
-- "tb1q0xlxvlhemja6c4dqv22uapctqupfhlxm9h8z3k2e72q4k9hcz7vq24jc47"
#guard parseAddress .mainnet (ascii "tb1q0xlxvlhemja6c4dqv22uapctqupfhlxm9h8z3k2e72q4k9hcz7vq24jc47") = .malformed
#guard parseAddress .testnet (ascii "tb1q0xlxvlhemja6c4dqv22uapctqupfhlxm9h8z3k2e72q4k9hcz7vq24jc47") = .malformed
#guard parseAddress .regtest (ascii "tb1q0xlxvlhemja6c4dqv22uapctqupfhlxm9h8z3k2e72q4k9hcz7vq24jc47") = .malformed
-- "bc1p38j9r5y49hruaue7wxjce0updqjuyyx0kh56v8s25huc6995vvpql3jow4"
#guard parseAddress .mainnet (ascii "bc1p38j9r5y49hruaue7wxjce0updqjuyyx0kh56v8s25huc6995vvpql3jow4") = .malformed
#guard parseAddress .testnet (ascii "bc1p38j9r5y49hruaue7wxjce0updqjuyyx0kh56v8s25huc6995vvpql3jow4") = .malformed
#guard parseAddress .regtest (ascii "bc1p38j9r5y49hruaue7wxjce0updqjuyyx0kh56v8s25huc6995vvpql3jow4") = .malformed
-- "BC130XLXVLHEMJA6C4DQV22UAPCTQUPFHLXM9H8Z3K2E72Q4K9HCZ7VQ7ZWS8R"
#guard parseAddress .mainnet (ascii "BC130XLXVLHEMJA6C4DQV22UAPCTQUPFHLXM9H8Z3K2E72Q4K9HCZ7VQ7ZWS8R") = .malformed
#guard parseAddress .testnet (ascii "BC130XLXVLHEMJA6C4DQV22UAPCTQUPFHLXM9H8Z3K2E72Q4K9HCZ7VQ7ZWS8R") = .malformed
#guard parseAddress .regtest (ascii "BC130XLXVLHEMJA6C4DQV22UAPCTQUPFHLXM9H8Z3K2E72Q4K9HCZ7VQ7ZWS8R") = .malformed
-- "bc1pw5dgrnzv"
#guard parseAddress .mainnet (ascii "bc1pw5dgrnzv") = .malformed
#guard parseAddress .testnet (ascii "bc1pw5dgrnzv") = .malformed
#guard parseAddress .regtest (ascii "bc1pw5dgrnzv") = .malformed
-- "bc1p0xlxvlhemja6c4dqv22uapctqupfhlxm9h8z3k2e72q4k9hcz7v8n0nx0muaewav253zgeav"
#guard parseAddress .mainnet (ascii "bc1p0xlxvlhemja6c4dqv22uapctqupfhlxm9h8z3k2e72q4k9hcz7v8n0nx0muaewav253zgeav") = .malformed
#guard parseAddress .testnet (ascii "bc1p0xlxvlhemja6c4dqv22uapctqupfhlxm9h8z3k2e72q4k9hcz7v8n0nx0muaewav253zgeav") = .malformed
#guard parseAddress .regtest (ascii "bc1p0xlxvlhemja6c4dqv22uapctqupfhlxm9h8z3k2e72q4k9hcz7v8n0nx0muaewav253zgeav") = .malformed
-- "tb1p0xlxvlhemja6c4dqv22uapctqupfhlxm9h8z3k2e72q4k9hcz7vq47Zagq"
#guard parseAddress .mainnet (ascii "tb1p0xlxvlhemja6c4dqv22uapctqupfhlxm9h8z3k2e72q4k9hcz7vq47Zagq") = .malformed
#guard parseAddress .testnet (ascii "tb1p0xlxvlhemja6c4dqv22uapctqupfhlxm9h8z3k2e72q4k9hcz7vq47Zagq") = .malformed
#guard parseAddress .regtest (ascii "tb1p0xlxvlhemja6c4dqv22uapctqupfhlxm9h8z3k2e72q4k9hcz7vq47Zagq") = .malformed
-- "bc1p0xlxvlhemja6c4dqv22uapctqupfhlxm9h8z3k2e72q4k9hcz7v07qwwzcrf"
#guard parseAddress .mainnet (ascii "bc1p0xlxvlhemja6c4dqv22uapctqupfhlxm9h8z3k2e72q4k9hcz7v07qwwzcrf") = .malformed
#guard parseAddress .testnet (ascii "bc1p0xlxvlhemja6c4dqv22uapctqupfhlxm9h8z3k2e72q4k9hcz7v07qwwzcrf") = .malformed
#guard parseAddress .regtest (ascii "bc1p0xlxvlhemja6c4dqv22uapctqupfhlxm9h8z3k2e72q4k9hcz7v07qwwzcrf") = .malformed
-- "tb1p0xlxvlhemja6c4dqv22uapctqupfhlxm9h8z3k2e72q4k9hcz7vpggkg4j"
#guard parseAddress .mainnet (ascii "tb1p0xlxvlhemja6c4dqv22uapctqupfhlxm9h8z3k2e72q4k9hcz7vpggkg4j") = .malformed
#guard parseAddress .testnet (ascii "tb1p0xlxvlhemja6c4dqv22uapctqupfhlxm9h8z3k2e72q4k9hcz7vpggkg4j") = .malformed
#guard parseAddress .regtest (ascii "tb1p0xlxvlhemja6c4dqv22uapctqupfhlxm9h8z3k2e72q4k9hcz7vpggkg4j") = .malformed
-- "A1LQFN3A"
#guard parseAddress .mainnet (ascii "A1LQFN3A") = .malformed
#guard parseAddress .testnet (ascii "A1LQFN3A") = .malformed
#guard parseAddress .regtest (ascii "A1LQFN3A") = .malformed
-- "a1lqfn3a"
#guard parseAddress .mainnet (ascii "a1lqfn3a") = .malformed
#guard parseAddress .testnet (ascii "a1lqfn3a") = .malformed
#guard parseAddress .regtest (ascii "a1lqfn3a") = .malformed
-- "an83characterlonghumanreadablepartthatcontainsthetheexcludedcharactersbioandnumber11sg7hg6"
#guard parseAddress .mainnet (ascii "an83characterlonghumanreadablepartthatcontainsthetheexcludedcharactersbioandnumber11sg7hg6") = .malformed
#guard parseAddress .testnet (ascii "an83characterlonghumanreadablepartthatcontainsthetheexcludedcharactersbioandnumber11sg7hg6") = .malformed
#guard parseAddress .regtest (ascii "an83characterlonghumanreadablepartthatcontainsthetheexcludedcharactersbioandnumber11sg7hg6") = .malformed
-- "abcdef1l7aum6echk45nj3s0wdvt2fg8x9yrzpqzd3ryx"
#guard parseAddress .mainnet (ascii "abcdef1l7aum6echk45nj3s0wdvt2fg8x9yrzpqzd3ryx") = .malformed
#guard parseAddress .testnet (ascii "abcdef1l7aum6echk45nj3s0wdvt2fg8x9yrzpqzd3ryx") = .malformed
#guard parseAddress .regtest (ascii "abcdef1l7aum6echk45nj3s0wdvt2fg8x9yrzpqzd3ryx") = .malformed
-- "11llllllllllllllllllllllllllllllllllllllllllllllllllllllllllllllllllllllllllllllllllludsr8"
#guard parseAddress .mainnet (ascii "11llllllllllllllllllllllllllllllllllllllllllllllllllllllllllllllllllllllllllllllllllludsr8") = .malformed
#guard parseAddress .testnet (ascii "11llllllllllllllllllllllllllllllllllllllllllllllllllllllllllllllllllllllllllllllllllludsr8") = .malformed
#guard parseAddress .regtest (ascii "11llllllllllllllllllllllllllllllllllllllllllllllllllllllllllllllllllllllllllllllllllludsr8") = .malformed
-- "split1checkupstagehandshakeupstreamerranterredcaperredlc445v"
#guard parseAddress .mainnet (ascii "split1checkupstagehandshakeupstreamerranterredcaperredlc445v") = .malformed
#guard parseAddress .testnet (ascii "split1checkupstagehandshakeupstreamerranterredcaperredlc445v") = .malformed
#guard parseAddress .regtest (ascii "split1checkupstagehandshakeupstreamerranterredcaperredlc445v") = .malformed
-- "?1v759aa"
#guard parseAddress .mainnet (ascii "?1v759aa") = .malformed
#guard parseAddress .testnet (ascii "?1v759aa") = .malformed
#guard parseAddress .regtest (ascii "?1v759aa") = .malformed
-- "1A1zP1eP5QGefi2DMPTfTL5SLmv7DivfNa"
#guard parseAddress .mainnet (ascii "1A1zP1eP5QGefi2DMPTfTL5SLmv7DivfNa") = .ok (hex "76a91462e907b15cbf27d5425399ebf6f0fb50ebb88f1888ac")
#guard requestKey .mainnet (ascii "1A1zP1eP5QGefi2DMPTfTL5SLmv7DivfNa") = some (ascii "1A1zP1eP5QGefi2DMPTfTL5SLmv7DivfNa")
#guard parseAddress .testnet (ascii "1A1zP1eP5QGefi2DMPTfTL5SLmv7DivfNa") = .wrongNetwork
#guard parseAddress .regtest (ascii "1A1zP1eP5QGefi2DMPTfTL5SLmv7DivfNa") = .wrongNetwork
-- "3J98t1WpEZ73CNmQviecrnyiWrnqRhWNLy"
#guard parseAddress .mainnet (ascii "3J98t1WpEZ73CNmQviecrnyiWrnqRhWNLy") = .ok (hex "a914b472a266d0bd89c13706a4132ccfb16f7c3b9fcb87")
#guard requestKey .mainnet (ascii "3J98t1WpEZ73CNmQviecrnyiWrnqRhWNLy") = some (ascii "3J98t1WpEZ73CNmQviecrnyiWrnqRhWNLy")
#guard parseAddress .testnet (ascii "3J98t1WpEZ73CNmQviecrnyiWrnqRhWNLy") = .wrongNetwork
#guard parseAddress .regtest (ascii "3J98t1WpEZ73CNmQviecrnyiWrnqRhWNLy") = .wrongNetwork
-- "mipcBbFg9gMiCh81Kj8tqqdgoZub1ZJRfn"
#guard parseAddress .mainnet (ascii "mipcBbFg9gMiCh81Kj8tqqdgoZub1ZJRfn") = .wrongNetwork
#guard parseAddress .testnet (ascii "mipcBbFg9gMiCh81Kj8tqqdgoZub1ZJRfn") = .ok (hex "76a914243f1394f44554f4ce3fd68649c19adc483ce92488ac")
#guard requestKey .testnet (ascii "mipcBbFg9gMiCh81Kj8tqqdgoZub1ZJRfn") = some (ascii "mipcBbFg9gMiCh81Kj8tqqdgoZub1ZJRfn")
#guard parseAddress .regtest (ascii "mipcBbFg9gMiCh81Kj8tqqdgoZub1ZJRfn") = .ok (hex "76a914243f1394f44554f4ce3fd68649c19adc483ce92488ac")
#guard requestKey .regtest (ascii "mipcBbFg9gMiCh81Kj8tqqdgoZub1ZJRfn") = some (ascii "mipcBbFg9gMiCh81Kj8tqqdgoZub1ZJRfn")
-- "2MzQwSSnBHWHqSAqtTVQ6v47XtaisrJa1Vc"
#guard parseAddress .mainnet (ascii "2MzQwSSnBHWHqSAqtTVQ6v47XtaisrJa1Vc") = .wrongNetwork
#guard parseAddress .testnet (ascii "2MzQwSSnBHWHqSAqtTVQ6v47XtaisrJa1Vc") = .ok (hex "a9144e9f39ca4688ff102128ea4ccda34105324305b087")
#guard requestKey .testnet (ascii "2MzQwSSnBHWHqSAqtTVQ6v47XtaisrJa1Vc") = some (ascii "2MzQwSSnBHWHqSAqtTVQ6v47XtaisrJa1Vc")
#guard parseAddress .regtest (ascii "2MzQwSSnBHWHqSAqtTVQ6v47XtaisrJa1Vc") = .ok (hex "a9144e9f39ca4688ff102128ea4ccda34105324305b087")
#guard requestKey .regtest (ascii "2MzQwSSnBHWHqSAqtTVQ6v47XtaisrJa1Vc") = some (ascii "2MzQwSSnBHWHqSAqtTVQ6v47XtaisrJa1Vc")
-- "2N83imGV3gPwBzKJQvWJ7cRUY2SpUyU6A5e"
#guard parseAddress .mainnet (ascii "2N83imGV3gPwBzKJQvWJ7cRUY2SpUyU6A5e") = .wrongNetwork
#guard parseAddress .testnet (ascii "2N83imGV3gPwBzKJQvWJ7cRUY2SpUyU6A5e") = .ok (hex "a914a25cea75f41b63418acfbaf55b556e4632047dc587")
#guard requestKey .testnet (ascii "2N83imGV3gPwBzKJQvWJ7cRUY2SpUyU6A5e") = some (ascii "2N83imGV3gPwBzKJQvWJ7cRUY2SpUyU6A5e")
#guard parseAddress .regtest (ascii "2N83imGV3gPwBzKJQvWJ7cRUY2SpUyU6A5e") = .ok (hex "a914a25cea75f41b63418acfbaf55b556e4632047dc587")
#guard requestKey .regtest (ascii "2N83imGV3gPwBzKJQvWJ7cRUY2SpUyU6A5e") = some (ascii "2N83imGV3gPwBzKJQvWJ7cRUY2SpUyU6A5e")
-- "32iVBEu4dxkUQk9dJbZUiBiQdmypcEyJRf"
#guard parseAddress .mainnet (ascii "32iVBEu4dxkUQk9dJbZUiBiQdmypcEyJRf") = .ok (hex "a9140b3f4aaedca7abd509d5864f1fb732ec281ba46087")
#guard requestKey .mainnet (ascii "32iVBEu4dxkUQk9dJbZUiBiQdmypcEyJRf") = some (ascii "32iVBEu4dxkUQk9dJbZUiBiQdmypcEyJRf")
#guard parseAddress .testnet (ascii "32iVBEu4dxkUQk9dJbZUiBiQdmypcEyJRf") = .wrongNetwork
#guard parseAddress .regtest (ascii "32iVBEu4dxkUQk9dJbZUiBiQdmypcEyJRf") = .wrongNetwork
-- "bcrt1qg4cvn305es3k8j69x06t9hf4v5yx4mxdaeazl8"
#guard parseAddress .mainnet (ascii "bcrt1qg4cvn305es3k8j69x06t9hf4v5yx4mxdaeazl8") = .wrongNetwork
#guard parseAddress .testnet (ascii "bcrt1qg4cvn305es3k8j69x06t9hf4v5yx4mxdaeazl8") = .wrongNetwork
#guard parseAddress .regtest (ascii "bcrt1qg4cvn305es3k8j69x06t9hf4v5yx4mxdaeazl8") = .ok (hex "00144570c9c5f4cc2363cb4533f4b2dd3565086aeccd")
#guard requestKey .regtest (ascii "bcrt1qg4cvn305es3k8j69x06t9hf4v5yx4mxdaeazl8") = some (ascii "bcrt1qg4cvn305es3k8j69x06t9hf4v5yx4mxdaeazl8")
-- "bc1qar0srrr7xfkvy5l643lydnw9re59gtzzwf5mdq"
#guard parseAddress .mainnet (ascii "bc1qar0srrr7xfkvy5l643lydnw9re59gtzzwf5mdq") = .ok (hex "0014e8df018c7e326cc253faac7e46cdc51e68542c42")
#guard requestKey .mainnet (ascii "bc1qar0srrr7xfkvy5l643lydnw9re59gtzzwf5mdq") = some (ascii "bc1qar0srrr7xfkvy5l643lydnw9re59gtzzwf5mdq")
#guard parseAddress .testnet (ascii "bc1qar0srrr7xfkvy5l643lydnw9re59gtzzwf5mdq") = .wrongNetwork
#guard parseAddress .regtest (ascii "bc1qar0srrr7xfkvy5l643lydnw9re59gtzzwf5mdq") = .wrongNetwork
-- 459 inputs, 1485 guards: 108 ok, 192 wrongNetwork, 1077 malformed

end Btc.AddrParse.Test
