import Driver.Canister
import BtcModel.Lemmas.SpecsExtra

/-!
# TESTS (by evaluation, not proofs): the driver's `f64` bound against the exact bound

`Driver.testnetBound` mirrors Rust's `testnet_unstable_max_depth_difference` with IEEE doubles
(Lean's `Float` is the platform `double`, `Float.round` is C `round`: halves away from zero, like
Rust's `f64::round`). `depthBoundSpec` is the exact value (`Props/SpecsExtra.lean`). The `#guard`s
below EVALUATE both on finite ranges; they are tests, labelled as such, not theorems
(`Float` operations are opaque to the kernel).

Result: on the representative thresholds {1,2,6,144,499,500,1000} the two agree for every
`n ≤ 1500`. Over ALL thresholds 0..500 they differ at exactly five inputs, each an exact `.5`
tie of the rational value where the `f64` product `ratio * range` is rounded below the tie, so
`f64` yields the lower neighbour (still *a* nearest integer, `IsNearest`).
The Rust function itself, compiled natively (`SpecsExtraTest.probe.rs.txt`), prints the same five
`f64` values 252, 244, 251, 249, 246.
-/
namespace Btc.Model.SpecsExtraTest
open Btc.Props.SpecsExtra

/-- all `(n, thr)` in the given ranges at which `f` and `g` differ, with both values -/
def mismatches (ns thrs : List Nat) (f g : Nat → Nat → Nat) : List (Nat × Nat × Nat × Nat) :=
  ns.foldr (fun n acc =>
    thrs.foldr (fun thr acc => if f n thr != g n thr then (n, thr, f n thr, g n thr) :: acc else acc) acc) []

/-! TEST: representative thresholds, every `n` in `0..1500` (both branches of the `if`) -/
#guard mismatches (List.range 1502) [1, 2, 6, 144, 499, 500, 1000] Driver.testnetBound depthBoundSpec == []

/-! TEST: exhaustive over thresholds `0..500` (all larger thresholds behave like 499), every
    `n` in `0..1500`: `(n, thr, f64 value, exact value)` -/
#guard mismatches (List.range 1502) (List.range 501) Driver.testnetBound depthBoundSpec ==
  [(825, 50, 252, 253), (875, 62, 244, 245), (875, 74, 251, 252), (1002, 125, 249, 250),
   (1014, 125, 246, 247)]

/-! TEST: at those five inputs the exact rational is an exact half:
    `2·interpNum = (2r − 1)·MAXB` with `r` the exact bound -/
#guard [(825, 50), (875, 62), (875, 74), (1002, 125), (1014, 125)].all fun (n, thr) =>
  2 * interpNum n thr + Btc.Gen.maxUnstableBlocks == 2 * Btc.Gen.maxUnstableBlocks * depthBoundSpec n thr

/-! TEST: the `f64` value is always *a* nearest integer of the exact rational (so it can differ
    from the exact bound only at exact halves, and then only by one) -/
#guard (List.range 1500).all fun n => (List.range 501).all fun thr =>
  decide (IsNearest (interpNum n thr) Btc.Gen.maxUnstableBlocks (Driver.testnetBound n thr))

/-! TEST: `roundHalfUp` against core's exact rationals (`Rat.floor (x + 1/2)`) -/
#guard (List.range 1502).all fun n => [0, 1, 2, 6, 50, 62, 74, 125, 144, 250, 499, 500, 1000].all fun thr =>
  depthBoundRat n thr == (depthBoundSpec n thr : Int)

end Btc.Model.SpecsExtraTest
