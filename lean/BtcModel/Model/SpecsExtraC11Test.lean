/-
  Independent specification of Bitcoin's compact target encoding (`nBits`), transcribed from
  Bitcoin Core's `arith_uint256::SetCompact` (src/arith_uint256.cpp) with exact big-integer
  semantics, written with the bit operations of the C++ text (`>>`, `&`, `<<`).

  It shares nothing with `Model/Header.lean` (which mirrors rust-bitcoin's `Target::from_compact`
  with `/`, `%`, `*`): this file imports nothing.

  ```
  arith_uint256& arith_uint256::SetCompact(uint32_t nCompact, bool* pfNegative, bool* pfOverflow)
  {
      int nSize = nCompact >> 24;
      uint32_t nWord = nCompact & 0x007fffff;
      if (nSize <= 3) {
          nWord >>= 8 * (3 - nSize);
          *this = nWord;
      } else {
          *this = nWord;
          *this <<= 8 * (nSize - 3);
      }
      if (pfNegative)
          *pfNegative = nWord != 0 && (nCompact & 0x00800000) != 0;
      if (pfOverflow)
          *pfOverflow = nWord != 0 && ((nSize > 34) ||
                                       (nWord > 0xff && nSize > 33) ||
                                       (nWord > 0xffff && nSize > 32));
      return *this;
  }
  ```
  Note that in the `nSize <= 3` branch `nWord` has been shifted before the two flags are computed.
-/
namespace Btc.SpecsExtraC11

/-- `nSize = nCompact >> 24` -/
def compactSize (nCompact : Nat) : Nat := nCompact >>> 24

/-- the value of the variable `nWord` when the flags are computed: `nCompact & 0x007fffff`,
    shifted right by `8 * (3 - nSize)` if `nSize <= 3` -/
def compactWord (nCompact : Nat) : Nat :=
  let nSize := nCompact >>> 24
  let nWord := nCompact &&& 0x007fffff
  if nSize ≤ 3 then nWord >>> (8 * (3 - nSize)) else nWord

/-- **the decoded target as an unbounded integer** (before Core stores it into 256 bits) -/
def compactToTarget (nCompact : Nat) : Nat :=
  let nSize := nCompact >>> 24
  let nWord := nCompact &&& 0x007fffff
  if nSize ≤ 3 then nWord >>> (8 * (3 - nSize)) else nWord <<< (8 * (nSize - 3))

/-- what `arith_uint256` holds after `SetCompact`: the low 256 bits (`<<=` drops what is shifted
    out, and yields 0 for shifts of 256 or more) -/
def compactToTarget256 (nCompact : Nat) : Nat := compactToTarget nCompact % 2 ^ 256

/-- `*pfNegative` -/
def compactNegative (nCompact : Nat) : Bool :=
  compactWord nCompact != 0 && (nCompact &&& 0x00800000) != 0

/-- `*pfOverflow` -/
def compactOverflow (nCompact : Nat) : Bool :=
  let nSize := nCompact >>> 24
  let nWord := compactWord nCompact
  nWord != 0 && (decide (nSize > 34) || (decide (nWord > 0xff) && decide (nSize > 33)) ||
    (decide (nWord > 0xffff) && decide (nSize > 32)))

/-- the three results of `SetCompact` -/
structure Decoded where
  target : Nat
  negative : Bool
  overflow : Bool
deriving Repr, DecidableEq, BEq

def setCompact (nCompact : Nat) : Decoded :=
  ⟨compactToTarget nCompact, compactNegative nCompact, compactOverflow nCompact⟩

/-- Bitcoin Core `DeriveTarget` / the first lines of `CheckProofOfWork`:
    `if (fNegative || bnTarget == 0 || fOverflow || bnTarget > UintToArith256(pow_limit)) return {}` -/
def coreDeriveTarget (nCompact powLimit : Nat) : Option Nat :=
  if compactNegative nCompact || compactToTarget256 nCompact == 0 || compactOverflow nCompact ||
      decide (compactToTarget256 nCompact > powLimit) then none
  else some (compactToTarget256 nCompact)

/-- Core's canonical re-encoding `arith_uint256::GetCompact(fNegative = false)`:
    ```
    int nSize = (bits() + 7) / 8;
    if (nSize <= 3) nCompact = GetLow64() << 8 * (3 - nSize);
    else { bn = *this >> 8 * (nSize - 3); nCompact = bn.GetLow64(); }
    if (nCompact & 0x00800000) { nCompact >>= 8; nSize++; }
    nCompact |= nSize << 24;
    ``` -/
def getCompact (t : Nat) : Nat :=
  let nSize := (t.log2 + (if t = 0 then 0 else 1) + 7) / 8
  let nCompact := if nSize ≤ 3 then (t % 2 ^ 64) <<< (8 * (3 - nSize)) else (t >>> (8 * (nSize - 3))) % 2 ^ 64
  let (nCompact, nSize) :=
    if nCompact &&& 0x00800000 != 0 then (nCompact >>> 8, nSize + 1) else (nCompact, nSize)
  nCompact ||| (nSize <<< 24)

end Btc.SpecsExtraC11
