import BtcModel.Model.Json

/- Hex helper shared by the `JsonTest*` vector files. -/
namespace Btc.Json.Test

def hexNib (c : Char) : Nat :=
  if '0' ≤ c ∧ c ≤ '9' then c.toNat - '0'.toNat
  else if 'a' ≤ c ∧ c ≤ 'f' then c.toNat - 'a'.toNat + 10
  else 0

def hexBytes : List Char → List Nat
  | a :: b :: rest => (hexNib a * 16 + hexNib b) :: hexBytes rest
  | _ => []

/-- bytes of a lower-case hex string -/
def hex (s : String) : List Nat := hexBytes s.toList

end Btc.Json.Test
