import BtcModel.Model.TxCodec
import BtcModel.Model.Merkle

/-
  Executable model of everything the canister derives from the raw consensus bytes of a block by
  calling into the vendored crate `bitcoin-dogecoin-0.32.7-doge.0` (rust-bitcoin 0.32 fork) and its
  helper crates `base58ck-0.1.0`, `bech32-0.11.1`:

  * `src/blockdata/block.rs`        : `Header` / `Block` consensus encoding
                                      (`impl_consensus_encoding!`), `Header::block_hash`
  * `src/blockdata/transaction.rs`  : `compute_txid`, `compute_ntxid`, `is_coinbase`,
                                      `base_size`, `total_size`, `weight`, `vsize`, `OutPoint::is_null`
  * `src/blockdata/script/borrowed.rs` : `is_op_return`, `is_p2pkh`, `is_p2sh`, `witness_version`,
                                      `is_witness_program`
  * `src/blockdata/script/witness_program.rs`, `witness_version.rs` : `WitnessProgram::new`,
                                      `WitnessVersion::try_from(Opcode)`
  * `src/address/mod.rs`            : `Address::from_script`, `impl Display for AddressInner`,
                                      `KnownHrp::from_network`, `NetworkKind::from(Network)`
  * `base58ck/src/lib.rs`           : `encode_check_to_fmt`, `format_iter`
  * `bech32/src/segwit.rs`          : `encode_lower_to_fmt_unchecked` (Bech32 for v0, Bech32m else)
  * `/repo/canister/src/types.rs`   : `Address::from_script`, `into_bitcoin_network`
                                      (`Testnet ↦ Network::Testnet4`)

  Bytes are `Nat`s `< 256`. Hashes are numbers: the number whose 32-byte big-endian form is the byte
  array rust-bitcoin stores (`to_byte_array()`), the convention of `Btc.Block.hash` / `Btc.Tx.txid`.

  Import-free of Mathlib/Batteries (linked into the driver).
-/
namespace Btc.BlockCodec

open Btc.TxCodec (readBytes readLE decodeVarInt decodeN decodeVec decodeTx encodeLE encodeVarInt
  encodeVec encodeAll encodeTx encodeTxIn encodeTxOut varIntSize usesSegwit)
open Btc.Merkle (sha256d ofBeBytes)

/-! ## Header -/

/-- `block::Header`. `version` is the bit pattern (as `u32`) of the `i32`; `prev` and `merkleRoot` are
    the 32 stored bytes; `bits` is `CompactTarget::to_consensus()`. -/
structure HeaderFields where
  version : Nat
  prev : List Nat
  merkleRoot : List Nat
  time : Nat
  bits : Nat
  nonce : Nat
deriving DecidableEq, Repr

/-- `impl_consensus_encoding!(Header, version, prev_blockhash, merkle_root, time, bits, nonce)`,
    encoder. -/
def encodeHeader (h : HeaderFields) : List Nat :=
  encodeLE 4 h.version ++ (h.prev ++ (h.merkleRoot ++
    (encodeLE 4 h.time ++ (encodeLE 4 h.bits ++ encodeLE 4 h.nonce))))

/-- The decoder of the same macro: 80 bytes. -/
def decodeHeader (bs : List Nat) : Option (HeaderFields × List Nat) :=
  match readLE 4 bs with
  | none => none
  | some (version, r1) =>
    match readBytes 32 r1 with
    | none => none
    | some (prev, r2) =>
      match readBytes 32 r2 with
      | none => none
      | some (root, r3) =>
        match readLE 4 r3 with
        | none => none
        | some (time, r4) =>
          match readLE 4 r4 with
          | none => none
          | some (bits, r5) =>
            match readLE 4 r5 with
            | none => none
            | some (nonce, r6) => some (⟨version, prev, root, time, bits, nonce⟩, r6)

/-- `Header::block_hash` on the 80 encoded bytes: SHA256d, as the number with the stored bytes as
    its big-endian digits. -/
def headerHash (hdr80 : List Nat) : Nat := ofBeBytes (sha256d hdr80)

/-- `Header::block_hash`. -/
def HeaderFields.hash (h : HeaderFields) : Nat := headerHash (encodeHeader h)

/-! ## Block -/

/-- `bitcoin::Block`: header and `txdata`. -/
structure RawBlock where
  header : HeaderFields
  txs : List TxCodec.Tx
deriving DecidableEq, Repr

/-- `impl_consensus_encoding!(Block, header, txdata)`, encoder. -/
def encodeBlock (b : RawBlock) : List Nat :=
  encodeHeader b.header ++ encodeVec encodeTx b.txs

/-- `deserialize_partial::<Block>` (64-bit target): the block and the unread input. -/
def decodeBlock (bs : List Nat) : Option (RawBlock × List Nat) :=
  match decodeHeader bs with
  | none => none
  | some (h, r1) =>
    match decodeVec decodeTx r1 with
    | none => none
    | some (txs, r2) => some (⟨h, txs⟩, r2)

/-- `consensus::encode::deserialize::<Block>`: every byte must be consumed. -/
def decodeBlockExact (bs : List Nat) : Option RawBlock :=
  match decodeBlock bs with
  | some (b, []) => some b
  | _ => none

/-! ### Well-formedness (the values the Rust types can hold) -/

def HeaderFields.WF (h : HeaderFields) : Prop :=
  h.version < 4294967296 ∧ h.prev.length = 32 ∧ TxCodec.AllBytes h.prev ∧
  h.merkleRoot.length = 32 ∧ TxCodec.AllBytes h.merkleRoot ∧
  h.time < 4294967296 ∧ h.bits < 4294967296 ∧ h.nonce < 4294967296

instance (h : HeaderFields) : Decidable h.WF := by unfold HeaderFields.WF; infer_instance

def RawBlock.WF (b : RawBlock) : Prop :=
  b.header.WF ∧ b.txs.length < 18446744073709551616 ∧ ∀ t ∈ b.txs, t.WF

instance (b : RawBlock) : Decidable b.WF := by unfold RawBlock.WF; infer_instance

/-! ## Transaction attributes -/

/-- What `compute_txid` feeds to the hash engine: version, `Vec<TxIn>`, `Vec<TxOut>`, lock time —
    never the segwit marker/flag/witnesses, also for a transaction without inputs. -/
def encodeTxNoWitness (t : TxCodec.Tx) : List Nat :=
  encodeLE 4 t.version ++ (encodeVec encodeTxIn t.inputs ++ (encodeVec encodeTxOut t.outputs ++
    encodeLE 4 t.lockTime))

/-- `Transaction::compute_txid`. -/
def txidOf (t : TxCodec.Tx) : Nat := ofBeBytes (sha256d (encodeTxNoWitness t))

/-- The transaction `compute_ntxid` hashes: every `script_sig` and witness emptied. -/
def normalizeTx (t : TxCodec.Tx) : TxCodec.Tx :=
  { t with inputs := t.inputs.map (fun i => { i with scriptSig := [], witness := [] }) }

/-- `Transaction::compute_ntxid`. -/
def ntxidOf (t : TxCodec.Tx) : Nat := txidOf (normalizeTx t)

/-- `OutPoint::is_null`: all-zero txid and `vout = u32::MAX`. -/
def isNullOutPoint (i : TxCodec.TxIn) : Bool :=
  i.prevTxid.all (· == 0) && i.vout == 0xFFFFFFFF

/-- `Transaction::is_coinbase`. -/
def isCoinbase (t : TxCodec.Tx) : Bool :=
  match t.inputs with
  | [i] => isNullOutPoint i
  | _ => false

/-- `TxIn::base_size`. -/
def txInBaseSize (i : TxCodec.TxIn) : Nat :=
  36 + varIntSize i.scriptSig.length + i.scriptSig.length + 4

/-- `Witness::size`. -/
def witnessSize (w : List (List Nat)) : Nat :=
  varIntSize w.length + (w.map (fun e => varIntSize e.length + e.length)).sum

/-- `TxOut::size`. -/
def txOutSize (o : TxCodec.TxOut) : Nat := 8 + varIntSize o.script.length + o.script.length

/-- `Transaction::base_size`. -/
def baseSize (t : TxCodec.Tx) : Nat :=
  4 + varIntSize t.inputs.length + (t.inputs.map txInBaseSize).sum +
    varIntSize t.outputs.length + (t.outputs.map txOutSize).sum + 4

/-- `Transaction::total_size` with `uses_segwit` given: marker and flag, and every input with its
    witness, are counted only in the segwit format. -/
def totalSizeWith (seg : Bool) (t : TxCodec.Tx) : Nat :=
  4 + (if seg then 2 else 0) + varIntSize t.inputs.length +
    (t.inputs.map (fun i => txInBaseSize i + (if seg then witnessSize i.witness else 0))).sum +
    varIntSize t.outputs.length + (t.outputs.map txOutSize).sum + 4

/-- `Transaction::total_size`. -/
def totalSize (t : TxCodec.Tx) : Nat := totalSizeWith (usesSegwit t) t

/-- `Transaction::weight` in weight units. -/
def weightOf (t : TxCodec.Tx) : Nat := baseSize t * 3 + totalSize t

/-- `Transaction::vsize` = `Weight::to_vbytes_ceil`. -/
def vsizeOf (t : TxCodec.Tx) : Nat := (weightOf t + 3) / 4

/-! ## Script classification -/

/-- `Script::is_op_return`: the first byte is `OP_RETURN` (0x6a). -/
def isOpReturn (script : List Nat) : Bool :=
  match script with
  | b :: _ => b == 0x6a
  | [] => false

/-- `Script::is_p2pkh`: `OP_DUP OP_HASH160 OP_PUSHBYTES_20 <20> OP_EQUALVERIFY OP_CHECKSIG`. -/
def isP2pkh (s : List Nat) : Bool :=
  s.length == 25 && s.getD 0 0 == 0x76 && s.getD 1 0 == 0xa9 && s.getD 2 0 == 0x14 &&
    s.getD 23 0 == 0x88 && s.getD 24 0 == 0xac

/-- `Script::is_p2sh`: `OP_HASH160 OP_PUSHBYTES_20 <20> OP_EQUAL`. -/
def isP2sh (s : List Nat) : Bool :=
  s.length == 23 && s.getD 0 0 == 0xa9 && s.getD 1 0 == 0x14 && s.getD 22 0 == 0x87

/-- `WitnessVersion::try_from(Opcode)`: `OP_0` ↦ 0, `OP_PUSHNUM_1..16` (0x51..0x60) ↦ 1..16. -/
def witnessVersionOfOpcode (op : Nat) : Option Nat :=
  if op = 0 then some 0
  else if 0x51 ≤ op ∧ op ≤ 0x60 then some (op - 0x50)
  else none

/-- `Script::witness_version`: length 4..=42, second byte a push of 2..=40 bytes covering exactly
    the rest of the script, first byte a version opcode. -/
def witnessVersion (s : List Nat) : Option Nat :=
  if s.length < 4 ∨ 42 < s.length then none
  else
    let push := s.getD 1 0
    if push < 0x02 ∨ 0x28 < push then none
    else if s.length - 2 ≠ push then none
    else witnessVersionOfOpcode (s.getD 0 0)

/-- `WitnessProgram::new(version, bytes)` succeeds: 2..=40 bytes, and 20 or 32 for version 0. -/
def witnessProgramOk (version : Nat) (prog : List Nat) : Bool :=
  2 ≤ prog.length && prog.length ≤ 40 && (version != 0 || prog.length == 20 || prog.length == 32)

/-! ## Base58Check (`base58ck`) -/

/-- `BASE58_CHARS` = `"123456789ABCDEFGHJKLMNPQRSTUVWXYZabcdefghijkmnopqrstuvwxyz"` (ASCII codes;
    checked against the text in `BlockCodecTest.lean`). -/
def b58Alphabet : List Nat :=
  [49, 50, 51, 52, 53, 54, 55, 56, 57, 65, 66, 67, 68, 69, 70, 71, 72, 74, 75, 76, 77, 78, 80, 81,
   82, 83, 84, 85, 86, 87, 88, 89, 90, 97, 98, 99, 100, 101, 102, 103, 104, 105, 106, 107, 109, 110,
   111, 112, 113, 114, 115, 116, 117, 118, 119, 120, 121, 122]

/-- Base-58 digits (most significant first) of `n`, prepended to `acc`; no digit for `0`. `fuel`
    bounds the number of steps (`fuel = n` always suffices). -/
def b58Digits : Nat → Nat → List Nat → List Nat
  | 0, _, acc => acc
  | fuel + 1, n, acc => if n = 0 then acc else b58Digits fuel (n / 58) (n % 58 :: acc)

/-- Number of leading zero bytes. -/
def leadingZeros : List Nat → Nat
  | 0 :: bs => leadingZeros bs + 1
  | _ => 0

/-- `format_iter`: the base-58 digits of the big-endian number, one `'1'` (digit 0) per leading
    zero byte in front. -/
def base58Encode (data : List Nat) : List Nat :=
  let n := ofBeBytes data
  (List.replicate (leadingZeros data) 0 ++ b58Digits n n []).map (fun d => b58Alphabet.getD d 0)

/-- `encode_check_to_fmt`: payload followed by the first four bytes of its SHA256d. -/
def base58Check (data : List Nat) : List Nat :=
  base58Encode (data ++ (sha256d data).take 4)

/-! ## Bech32 / Bech32m (`bech32`) -/

/-- The bech32 character set `"qpzry9x8gf2tvdw0s3jn54khce6mua7l"` (ASCII codes; checked against the
    text in `BlockCodecTest.lean`). -/
def bech32Charset : List Nat :=
  [113, 112, 122, 114, 121, 57, 120, 56, 103, 102, 50, 116, 118, 100, 119, 48, 115, 51, 106, 110,
   53, 52, 107, 104, 99, 101, 54, 109, 117, 97, 55, 108]

/-- One step of the BCH checksum (`Engine::input_fe`, generator of BIP-173). -/
def polymodStep (chk v : Nat) : Nat :=
  let b := chk >>> 25
  let c := ((chk &&& 0x1ffffff) <<< 5) ^^^ v
  let c := if b &&& 1 ≠ 0 then c ^^^ 0x3b6a57b2 else c
  let c := if b &&& 2 ≠ 0 then c ^^^ 0x26508e6d else c
  let c := if b &&& 4 ≠ 0 then c ^^^ 0x1ea119fa else c
  let c := if b &&& 8 ≠ 0 then c ^^^ 0x3d4233dd else c
  if b &&& 16 ≠ 0 then c ^^^ 0x2a1462b3 else c

def polymod (values : List Nat) : Nat := values.foldl polymodStep 1

/-- `Engine::input_hrp`: high bits, a zero, low bits of every (lower-case) hrp character. -/
def hrpExpand (hrp : List Nat) : List Nat :=
  hrp.map (· >>> 5) ++ 0 :: hrp.map (· &&& 31)

/-- The six checksum field elements; `const` is 1 for Bech32, `0x2bc830a3` for Bech32m. -/
def bech32Checksum (const : Nat) (hrp : List Nat) (data : List Nat) : List Nat :=
  let pm := polymod (hrpExpand hrp ++ data ++ [0, 0, 0, 0, 0, 0]) ^^^ const
  [(pm >>> 25) &&& 31, (pm >>> 20) &&& 31, (pm >>> 15) &&& 31, (pm >>> 10) &&& 31,
   (pm >>> 5) &&& 31, pm &&& 31]

/-- The eight bits of a byte, most significant first. -/
def byteBits (b : Nat) : List Bool :=
  [b / 128 % 2 == 1, b / 64 % 2 == 1, b / 32 % 2 == 1, b / 16 % 2 == 1,
   b / 8 % 2 == 1, b / 4 % 2 == 1, b / 2 % 2 == 1, b % 2 == 1]

/-- Value of a bit string read as a 5-bit group padded with zeros on the right. -/
def fe5 (b0 b1 b2 b3 b4 : Bool) : Nat :=
  b0.toNat * 16 + b1.toNat * 8 + b2.toNat * 4 + b3.toNat * 2 + b4.toNat

/-- Groups of five bits, the last one zero-padded. -/
def groups5 : List Bool → List Nat
  | b0 :: b1 :: b2 :: b3 :: b4 :: rest => fe5 b0 b1 b2 b3 b4 :: groups5 rest
  | [b0, b1, b2, b3] => [fe5 b0 b1 b2 b3 false]
  | [b0, b1, b2] => [fe5 b0 b1 b2 false false]
  | [b0, b1] => [fe5 b0 b1 false false false]
  | [b0] => [fe5 b0 false false false false]
  | [] => []

/-- `bytes_to_fes`: regroup 8-bit bytes into 5-bit field elements, padding the last one. -/
def bytesToFes (bytes : List Nat) : List Nat := groups5 (bytes.flatMap byteBits)

/-- `segwit::encode_lower_to_fmt_unchecked`: `hrp '1' version data checksum`. -/
def segwitEncode (hrp : List Nat) (version : Nat) (prog : List Nat) : List Nat :=
  let data := version :: bytesToFes prog
  let const := if version = 0 then 1 else 0x2bc830a3
  hrp ++ 49 :: (data ++ bech32Checksum const hrp data).map (fun d => bech32Charset.getD d 0)

/-! ## Addresses -/

/-- `PUBKEY_ADDRESS_PREFIX_{MAIN,TEST}` by `NetworkKind::from(into_bitcoin_network net)`. -/
def p2pkhPrefix : Tree.Net → Nat
  | .mainnet => 0x00
  | _ => 0x6f

/-- `SCRIPT_ADDRESS_PREFIX_{MAIN,TEST}`. -/
def p2shPrefix : Tree.Net → Nat
  | .mainnet => 0x05
  | _ => 0xc4

/-- `KnownHrp::from_network(..).to_hrp()`: `bc`, `tb` (testnet4), `bcrt`. -/
def hrpOf : Tree.Net → List Nat
  | .mainnet => [98, 99]
  | .testnet => [116, 98]
  | .regtest => [98, 99, 114, 116]

/-- `types::Address::from_script(script, network)` followed by `to_string()`: the ASCII bytes of the
    address text, `none` where rust-bitcoin returns an error (`UnrecognizedScript`, or a witness
    program that `WitnessProgram::new` refuses). -/
def addressOf (net : Tree.Net) (script : List Nat) : Option (List Nat) :=
  if isP2pkh script then
    some (base58Check (p2pkhPrefix net :: (script.drop 3).take 20))
  else if isP2sh script then
    some (base58Check (p2shPrefix net :: (script.drop 2).take 20))
  else
    match witnessVersion script with
    | some v =>
      let prog := script.drop 2
      if witnessProgramOk v prog then some (segwitEncode (hrpOf net) v prog) else none
    | none => none

/-! ## The canister's view of a block -/

def hexDigitChar (n : Nat) : Char :=
  if n < 10 then Char.ofNat (48 + n) else Char.ofNat (87 + n)

/-- lower-case hex text (`hex::encode`) -/
def hexOfBytes (bs : List Nat) : String :=
  String.ofList (bs.flatMap (fun b => [hexDigitChar (b / 16), hexDigitChar (b % 16)]))

/-- The model transaction of a decoded transaction: the attributes `harness::canister::block_text`
    obtains from `ic_btc_types::Transaction` / rust-bitcoin. -/
def toModelTx (net : Tree.Net) (t : TxCodec.Tx) : Btc.Tx :=
  { txid := txidOf t
    ntxid := ntxidOf t
    coinbase := isCoinbase t
    vsize := vsizeOf t
    ins := (t.inputs.filter (fun i => !isNullOutPoint i)).map
      (fun i => ⟨ofBeBytes i.prevTxid, i.vout⟩)
    outs := t.outputs.map (fun o => ⟨o.value, addressOf net o.script, isOpReturn o.script⟩) }

/-- The model block of a decoded block; same value as `Driver.parseBlock` builds from the harness'
    text. `diffOf` supplies `Block::difficulty` (a mock value in direct-feed streams). -/
def toModelBlock (net : Tree.Net) (diffOf : HeaderFields → Nat) (raw : RawBlock) : Btc.Block :=
  let hdr := encodeHeader raw.header
  let txs := raw.txs.map (toModelTx net)
  { hash := headerHash hdr
    prev := ofBeBytes raw.header.prev
    diff := diffOf raw.header
    time := raw.header.time
    bits := raw.header.bits
    header := hexOfBytes hdr
    txs := txs
    merkleOk := Btc.Merkle.checkMerkleRoot Btc.Merkle.hashPair (ofBeBytes raw.header.merkleRoot) txs }

/-- Decode the consensus bytes of a block and build the model block. -/
def blockOfBytes (net : Tree.Net) (diffOf : HeaderFields → Nat) (bs : List Nat) : Option Btc.Block :=
  (decodeBlockExact bs).map (toModelBlock net diffOf)

/-- `Block::consensus_decode(&mut bytes.as_slice())` as `heartbeat.rs` applies it to the blobs of a
    `get_successors` response: the first block in the bytes is decoded and whatever follows it is
    ignored (unlike `consensus::deserialize`, which `send_transaction` uses for its payload). -/
def blockOfBytesPrefix (net : Tree.Net) (diffOf : HeaderFields → Nat) (bs : List Nat) : Option Btc.Block :=
  (decodeBlock bs).map (fun p => toModelBlock net diffOf p.1)

end Btc.BlockCodec
