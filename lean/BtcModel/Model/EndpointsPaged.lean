import BtcModel.Model.Endpoints

/-
  `bitcoin_get_utxos[_query]` with an arbitrary filter (none / min_confirmations / page) and
  `bitcoin_get_block_headers` with an explicit end height, as whole messages. Same code path as
  `callGetUtxos` / `callGetUtxosQuery` / `callGetBlockHeaders` (`canister/src/lib.rs`,
  `api/get_utxos.rs`, `api/get_block_headers.rs`): only the filter / end height that reaches the
  query function is a parameter.
-/
namespace Btc.State

/-- `bitcoin_get_utxos` (update) with any filter -/
def callGetUtxosF (env : Env) (s : State) (r : DataReq) (flt : UtxosFilter) :
    CallResult (QResult UtxosResponse) :=
  match s.guard env r.reqNet true with
  | some g => .trap (.refused g)
  | none =>
    let f := s.fees
    if r.available < f.getUtxosMaximum || r.available < f.getUtxosBase then .trap .cycles
    else
      let res := s.getUtxos r.addr flt r.limit
      match res with
      | .trap _ => .trap .other
      | .err e =>
        .answered (.err e) f.getUtxosBase s
      | .ok v =>
        match chargeMetered r.available f.getUtxosBase f.getUtxosCyclesPerTenInstructions f.getUtxosMaximum r.instructions false with
        | none => .trap .other
        | some acc => .answered (.ok v) acc s

/-- `bitcoin_get_utxos_query` with any filter -/
def callGetUtxosQueryF (env : Env) (s : State) (r : DataReq) (flt : UtxosFilter) :
    CallResult (QResult UtxosResponse) :=
  match s.guard env r.reqNet true with
  | some g => .trap (.refused g)
  | none =>
    match s.getUtxos r.addr flt r.limit with
    | .trap _ => .trap .other
    | res => .answered res 0 s

/-- `bitcoin_get_block_headers` with any end height -/
def callGetBlockHeadersE (env : Env) (s : State) (r : DataReq) (end_ : Option Nat) :
    CallResult (Except HeadersError (Nat × List String)) :=
  match s.guard env r.reqNet true with
  | some g => .trap (.refused g)
  | none =>
    let f := s.fees
    if r.available < f.getBlockHeadersMaximum || r.available < f.getBlockHeadersBase then .trap .cycles
    else
      match s.getBlockHeaders env.maxHeaders r.start end_ with
      | .error e => .answered (.error e) f.getBlockHeadersBase s
      | .ok v =>
        match chargeMetered r.available f.getBlockHeadersBase f.getBlockHeadersCyclesPerTenInstructions
            f.getBlockHeadersMaximum r.instructions false with
        | none => .trap .other
        | some acc => .answered (.ok v) acc s

end Btc.State
