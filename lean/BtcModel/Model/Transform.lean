/-
  Model of the watchdog HTTP-outcall transform functions:
  `watchdog/src/endpoints.rs` (the ten `endpoint_*` configs, `apply_to_body`,
  `apply_to_body_json`) and the `#[query] transform_*` entry points of `watchdog/src/lib.rs`.

  Library semantics mirrored here:
  * serde_json `Value` indexing (`value/index.rs`): `v[i]` (usize) is the array element or `Null`,
    `v["k"]` is the object member or `Null`; `as_u64` (`value/mod.rs`, `number.rs`) is `Some` only for
    `N::PosInt`.
  * serde_json `Map` keeps one value per key, the last occurrence in the source text wins.
  * `json!({"height": h}).to_string()` is the compact text `{"height":123}` / `{"height":null}`.
  * `u64::from_str`: optional single leading `+`, then at least one ASCII digit, nothing else, value
    must fit into 64 bits.

  The JSON text parser itself (`String::from_utf8` followed by `serde_json::from_str`) is a parameter
  `parseJson : List Nat → Option Json` of `transform`.

  Import-free on purpose: this file is linked into the driver executable.
-/
namespace Btc.Transform

/-- `serde_json::Value`, with numbers split according to `as_u64`. -/
inductive Json where
  | null
  | bool (b : Bool)
  /-- a number that `as_u64` accepts (`N::PosInt(n)`, so `n < 2^64`, see `Json.WF`) -/
  | uint (n : Nat)
  /-- any other number (`N::NegInt`, `N::Float`) -/
  | otherNum
  | str (s : String)
  | arr (items : List Json)
  | obj (members : List (String × Json))
deriving Repr

def two64 : Nat := 18446744073709551616

/-- Lookup in a member list in source order: the LAST member with the key wins
    (serde_json's `Map::insert` overwrites). -/
def lookupLast {α : Type} (key : String) : List (String × α) → Option α
  | [] => none
  | (k, v) :: rest =>
    match lookupLast key rest with
    | some w => some w
    | none => if k = key then some v else none

namespace Json

/-- `value["key"]` -/
def get (key : String) : Json → Json
  | obj ms => (lookupLast key ms).getD null
  | _ => null

/-- `value[i]` for a `usize` index -/
def idx (i : Nat) : Json → Json
  | arr xs => xs.getD i null
  | _ => null

/-- `Value::as_u64` -/
def asU64 : Json → Option Nat
  | uint n => some n
  | _ => none

mutual
/-- Well-formedness: every `uint n` has `n < 2^64` (it comes from a Rust `u64`). -/
def WF : Json → Bool
  | uint n => decide (n < two64)
  | arr xs => WFList xs
  | obj ms => WFMembers ms
  | _ => true
def WFList : List Json → Bool
  | [] => true
  | x :: xs => WF x && WFList xs
def WFMembers : List (String × Json) → Bool
  | [] => true
  | (_, v) :: ms => WF v && WFMembers ms
end

end Json

/-- One indexing step of an extraction path. -/
inductive Step where
  | key (k : String)
  | idx (i : Nat)
deriving Repr, DecidableEq

def Json.step : Step → Json → Json
  | .key k, j => j.get k
  | .idx i, j => j.idx i

/-- Follow an extraction path: `json[s₁][s₂]…` -/
def Json.at : List Step → Json → Json
  | [], j => j
  | s :: p, j => Json.at p (j.step s)

/-- `json[s₁][s₂]….as_u64()` -/
def extractPath (p : List Step) (j : Json) : Option Nat := (j.at p).asU64

/-- The explorer endpoints that have a `transform_*` query (names as in
    `watchdog/src/verif_hooks.rs::endpoint_names()`). -/
inductive Endpoint where
  | bitcoin_mainnet_api_bitcore_io
  | bitcoin_mainnet_api_blockchair_com
  | bitcoin_mainnet_api_blockcypher_com
  | bitcoin_mainnet_blockchain_info
  | bitcoin_mainnet_blockstream_info
  | bitcoin_mempool
  | dogecoin_mainnet_api_bitcore_io
  | dogecoin_mainnet_api_blockchair_com
  | dogecoin_mainnet_api_blockcypher_com
  | dogecoin_mainnet_psy_protocol
deriving Repr, DecidableEq

namespace Endpoint

def all : List Endpoint :=
  [bitcoin_mainnet_api_bitcore_io, bitcoin_mainnet_api_blockchair_com,
   bitcoin_mainnet_api_blockcypher_com, bitcoin_mainnet_blockchain_info,
   bitcoin_mainnet_blockstream_info, bitcoin_mempool, dogecoin_mainnet_api_bitcore_io,
   dogecoin_mainnet_api_blockchair_com, dogecoin_mainnet_api_blockcypher_com,
   dogecoin_mainnet_psy_protocol]

def name : Endpoint → String
  | bitcoin_mainnet_api_bitcore_io => "bitcoin_mainnet_api_bitcore_io"
  | bitcoin_mainnet_api_blockchair_com => "bitcoin_mainnet_api_blockchair_com"
  | bitcoin_mainnet_api_blockcypher_com => "bitcoin_mainnet_api_blockcypher_com"
  | bitcoin_mainnet_blockchain_info => "bitcoin_mainnet_blockchain_info"
  | bitcoin_mainnet_blockstream_info => "bitcoin_mainnet_blockstream_info"
  | bitcoin_mempool => "bitcoin_mempool"
  | dogecoin_mainnet_api_bitcore_io => "dogecoin_mainnet_api_bitcore_io"
  | dogecoin_mainnet_api_blockchair_com => "dogecoin_mainnet_api_blockchair_com"
  | dogecoin_mainnet_api_blockcypher_com => "dogecoin_mainnet_api_blockcypher_com"
  | dogecoin_mainnet_psy_protocol => "dogecoin_mainnet_psy_protocol"

def ofName? (s : String) : Option Endpoint := all.find? (fun e => e.name == s)

/-- `some path` for the endpoints built with `apply_to_body_json` (the path is the indexing
    chain in front of `.as_u64()`), `none` for the plain-text endpoints (`apply_to_body` with
    `text.parse::<u64>()`). -/
def path : Endpoint → Option (List Step)
  | bitcoin_mainnet_api_bitcore_io => some [.idx 0, .key "height"]
  | bitcoin_mainnet_api_blockchair_com => some [.key "data", .key "best_block_height"]
  | bitcoin_mainnet_api_blockcypher_com => some [.key "height"]
  | bitcoin_mainnet_blockchain_info => none
  | bitcoin_mainnet_blockstream_info => none
  | bitcoin_mempool => none
  | dogecoin_mainnet_api_bitcore_io => some [.idx 0, .key "height"]
  | dogecoin_mainnet_api_blockchair_com => some [.key "data", .key "best_block_height"]
  | dogecoin_mainnet_api_blockcypher_com => some [.key "height"]
  | dogecoin_mainnet_psy_protocol => none

def isJson (ep : Endpoint) : Bool := ep.path.isSome
def isText (ep : Endpoint) : Bool := ep.path.isNone

end Endpoint

/-- The height a JSON endpoint extracts from a parsed body (`none` for text endpoints, which
    never parse JSON). -/
def extract (ep : Endpoint) (j : Json) : Option Nat :=
  match ep.path with
  | some p => extractPath p j
  | none => none

/-- `HttpRequestResult` (status is a `candid::Nat`, the body a byte vector). -/
structure Response where
  status : Nat
  headers : List (String × String)
  body : List Nat
deriving Repr, DecidableEq

/-! ### `u64::from_str` on the raw body bytes -/

def isDigit (b : Nat) : Bool := 48 ≤ b && b ≤ 57

/-- Decimal value of a digit string, `none` if a non-digit byte occurs. -/
def parseDigits : List Nat → Nat → Option Nat
  | [], acc => some acc
  | b :: bs, acc => if isDigit b then parseDigits bs (acc * 10 + (b - 48)) else none

/-- Strip the optional single leading `+` (byte 43). -/
def stripPlus : List Nat → List Nat
  | 43 :: rest => rest
  | bs => bs

/-- `String::from_utf8(body).ok()?.parse::<u64>().ok()`: an optional single leading `+` (byte 43),
    then one or more ASCII digits and nothing else; the value must be `< 2^64`. Bytes outside ASCII
    (in particular every invalid UTF-8 sequence) are rejected because they are not digits. -/
def parseU64Text (bs : List Nat) : Option Nat :=
  match stripPlus bs with
  | [] => none
  | d :: ds =>
    match parseDigits (d :: ds) 0 with
    | some n => if n < two64 then some n else none
    | none => none

/-! ### `json!({"height": h}).to_string()` -/

/-- Decimal digits (ASCII bytes, most significant first, no leading zeros) with explicit fuel;
    `fuel ≥ n` is always enough. -/
def decDigitsFuel : Nat → Nat → List Nat → List Nat
  | 0, n, acc => (48 + n % 10) :: acc
  | fuel + 1, n, acc =>
    if n < 10 then (48 + n) :: acc else decDigitsFuel fuel (n / 10) ((48 + n % 10) :: acc)

/-- `itoa`: the decimal rendering of `n` as ASCII bytes. -/
def decDigits (n : Nat) : List Nat := decDigitsFuel n n []

/-- the bytes of `{"height":` -/
def heightPrefix : List Nat := [123, 34, 104, 101, 105, 103, 104, 116, 34, 58]

/-- the bytes of `null` -/
def nullBytes : List Nat := [110, 117, 108, 108]

/-- the bytes of `{"height":N}` / `{"height":null}` -/
def renderHeight : Option Nat → List Nat
  | some n => heightPrefix ++ decDigits n ++ [125]
  | none => heightPrefix ++ nullBytes ++ [125]

/-! ### The transform -/

/-- `endpoint_<ep>().transform(TransformArgs { response := r, context := _ })`.
    `parseJson` abstracts `String::from_utf8` followed by `serde_json::from_str` (`none` when either
    fails). The `context` argument is ignored by the Rust code. -/
def transform (parseJson : List Nat → Option Json) (ep : Endpoint) (r : Response) : Response :=
  { status := r.status
    headers := []
    body :=
      if r.status = 200 then
        match ep.path with
        | none =>
          match parseU64Text r.body with
          | some n => renderHeight (some n)
          | none => []
        | some p =>
          match parseJson r.body with
          | some j => renderHeight (extractPath p j)
          | none => []
      else [] }

/-- UTF-8 bytes of a string as a `List Nat` (for drivers and examples). -/
def bytesOf (s : String) : List Nat := s.toUTF8.toList.map (·.toNat)

/-- Code points of a string; equals `bytesOf` for ASCII-only strings and, unlike `bytesOf`,
    reduces in the kernel (used for readable `example`s). -/
def asciiBytes (s : String) : List Nat := s.toList.map Char.toNat

end Btc.Transform
