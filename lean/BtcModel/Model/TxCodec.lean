/-
  Executable model of the consensus (de)serialisation of a Bitcoin transaction as implemented by
  the vendored crate `bitcoin-dogecoin-0.32.7-doge.0` (rust-bitcoin 0.32 fork):

  * `src/consensus/encode.rs`      : `deserialize`, `deserialize_partial`, `VarInt`, `Vec<u8>`,
                                     `impl_vec!`, integer little-endian codecs
  * `src/blockdata/transaction.rs` : `Transaction`, `TxIn`, `TxOut`, `OutPoint`, `Sequence`, `Version`
  * `src/blockdata/witness.rs`     : `Witness`
  * `src/blockdata/script/mod.rs`  : `ScriptBuf` (= `Vec<u8>`)
  * `src/blockdata/locktime/absolute.rs` : `LockTime` (= `u32`)

  `canister/src/api/send_transaction.rs` accepts a payload iff
  `bitcoin::consensus::deserialize::<Transaction>(payload)` is `Ok`; this is `decodeExact` below.

  Bytes are `Nat`s `< 256` (`AllBytes`). Everything is total, structurally recursive and computable.
  Import-free (linked into the driver).

  The decoders take the parameter `W` = `usize::MAX + 1` of the compilation target, because the Rust
  code casts decoded lengths with `as usize` (`Vec<u8>` length, witness element count, witness element
  size). On a 64-bit target (`W = 2^64`, the native harness) the casts are the identity; on
  `wasm32-unknown-unknown` (`W = 2^32`, the production canister) they truncate.
-/
namespace Btc.TxCodec

/-- Every element is a byte. -/
def AllBytes (bs : List Nat) : Prop := ∀ b ∈ bs, b < 256

instance (bs : List Nat) : Decidable (AllBytes bs) := by unfold AllBytes; infer_instance

/-- `consensus::encode::MAX_VEC_SIZE`. -/
def MAX_VEC_SIZE : Nat := 4000000

/-- `usize::MAX + 1` on a 64-bit target. -/
def usize64 : Nat := 18446744073709551616
/-- `usize::MAX + 1` on a 32-bit target (`wasm32-unknown-unknown`). -/
def usize32 : Nat := 4294967296

/-! ## Primitive readers / writers -/

/-- `v.to_le_bytes()` for a `k`-byte integer. -/
def encodeLE : Nat → Nat → List Nat
  | 0, _ => []
  | k + 1, n => (n % 256) :: encodeLE k (n / 256)

/-- `from_le_bytes`. -/
def decodeLE : List Nat → Nat
  | [] => 0
  | b :: bs => b + 256 * decodeLE bs

/-- `read_exact` of `k` bytes from a cursor: the bytes read and the remaining input, or `none` on
    EOF. -/
def readBytes (k : Nat) (bs : List Nat) : Option (List Nat × List Nat) :=
  if k ≤ bs.length then some (bs.take k, bs.drop k) else none

/-- `read_u16` / `read_u32` / `read_u64` (`k` = 2, 4, 8). -/
def readLE (k : Nat) (bs : List Nat) : Option (Nat × List Nat) :=
  match readBytes k bs with
  | some (x, r) => some (decodeLE x, r)
  | none => none

/-! ## VarInt -/

/-- `VarInt::size`. -/
def varIntSize (n : Nat) : Nat :=
  if n < 0xFD then 1 else if n ≤ 0xFFFF then 3 else if n ≤ 0xFFFFFFFF then 5 else 9

/-- `impl Encodable for VarInt` (`n` is the `u64`). -/
def encodeVarInt (n : Nat) : List Nat :=
  if n < 0xFD then [n]
  else if n ≤ 0xFFFF then 0xFD :: encodeLE 2 n
  else if n ≤ 0xFFFFFFFF then 0xFE :: encodeLE 4 n
  else 0xFF :: encodeLE 8 n

/-- `impl Decodable for VarInt`: non-minimal encodings are refused (`Error::NonMinimalVarInt`). -/
def decodeVarInt : List Nat → Option (Nat × List Nat)
  | [] => none
  | b :: bs =>
    if b = 0xFF then
      match readLE 8 bs with
      | some (v, r) => if v < 0x100000000 then none else some (v, r)
      | none => none
    else if b = 0xFE then
      match readLE 4 bs with
      | some (v, r) => if v < 0x10000 then none else some (v, r)
      | none => none
    else if b = 0xFD then
      match readLE 2 bs with
      | some (v, r) => if v < 0xFD then none else some (v, r)
      | none => none
    else some (b, bs)

/-! ## Transactions -/

/-- `TxIn`. `prevTxid` is the 32-byte `Txid` as serialised, `vout`/`sequence` are `u32`s,
    `witness` is the list of witness stack elements. -/
structure TxIn where
  prevTxid : List Nat
  vout : Nat
  scriptSig : List Nat
  sequence : Nat
  witness : List (List Nat)
deriving DecidableEq, Repr

/-- `TxOut`: `value` is the `u64` amount. -/
structure TxOut where
  value : Nat
  script : List Nat
deriving DecidableEq, Repr

/-- `Transaction`. `version` is the bit pattern (as `u32`) of the `i32` version; `lockTime` is
    `LockTime::to_consensus_u32`. -/
structure Tx where
  version : Nat
  inputs : List TxIn
  outputs : List TxOut
  lockTime : Nat
deriving DecidableEq, Repr

/-! ### Encoding -/

/-- `consensus_encode_with_size` (`Vec<u8>`, `ScriptBuf`): varint length then the bytes. -/
def encodeVarBytes (bs : List Nat) : List Nat := encodeVarInt bs.length ++ bs

/-- `impl Encodable for TxIn` (outpoint, script_sig, sequence; NOT the witness). -/
def encodeTxIn (i : TxIn) : List Nat :=
  i.prevTxid ++ (encodeLE 4 i.vout ++ (encodeVarBytes i.scriptSig ++ encodeLE 4 i.sequence))

/-- `impl_consensus_encoding!(TxOut, value, script_pubkey)`. -/
def encodeTxOut (o : TxOut) : List Nat := encodeLE 8 o.value ++ encodeVarBytes o.script

/-- Concatenated encodings of the items of a list. -/
def encodeAll {α : Type} (enc : α → List Nat) : List α → List Nat
  | [] => []
  | a :: as => enc a ++ encodeAll enc as

/-- `impl_vec!` encoder: varint count then the items. -/
def encodeVec {α : Type} (enc : α → List Nat) (l : List α) : List Nat :=
  encodeVarInt l.length ++ encodeAll enc l

/-- `impl Encodable for Witness`: element count, then each element with its varint length. -/
def encodeWitness (w : List (List Nat)) : List Nat := encodeVec encodeVarBytes w

/-- `Transaction::uses_segwit_serialization`: some input has a non-empty witness, or there is no
    input at all. -/
def usesSegwit (t : Tx) : Bool :=
  t.inputs.any (fun i => !i.witness.isEmpty) || t.inputs.isEmpty

/-- `impl Encodable for Transaction`. -/
def encodeTx (t : Tx) : List Nat :=
  encodeLE 4 t.version ++
    ((if usesSegwit t then
        0 :: 1 :: (encodeVec encodeTxIn t.inputs ++ (encodeVec encodeTxOut t.outputs ++
          encodeAll (fun i => encodeWitness i.witness) t.inputs))
      else
        encodeVec encodeTxIn t.inputs ++ encodeVec encodeTxOut t.outputs) ++
     encodeLE 4 t.lockTime)

/-! ### Decoding -/

/-- `impl Decodable for Vec<u8>`: `len = VarInt.0 as usize`, then `len` bytes. -/
def decodeVarBytes (W : Nat) (bs : List Nat) : Option (List Nat × List Nat) :=
  match decodeVarInt bs with
  | some (n, r) => readBytes (n % W) r
  | none => none

/-- `impl Decodable for TxIn` (the witness is `Witness::default()`). -/
def decodeTxIn (W : Nat) (bs : List Nat) : Option (TxIn × List Nat) :=
  match readBytes 32 bs with
  | none => none
  | some (txid, r1) =>
    match readLE 4 r1 with
    | none => none
    | some (vout, r2) =>
      match decodeVarBytes W r2 with
      | none => none
      | some (script, r3) =>
        match readLE 4 r3 with
        | none => none
        | some (seq, r4) => some (⟨txid, vout, script, seq, []⟩, r4)

/-- `impl Decodable for TxOut`. -/
def decodeTxOut (W : Nat) (bs : List Nat) : Option (TxOut × List Nat) :=
  match readLE 8 bs with
  | none => none
  | some (value, r1) =>
    match decodeVarBytes W r1 with
    | none => none
    | some (script, r2) => some (⟨value, script⟩, r2)

/-- Decode `n` items one after the other. -/
def decodeN {α : Type} (f : List Nat → Option (α × List Nat)) :
    Nat → List Nat → Option (List α × List Nat)
  | 0, bs => some ([], bs)
  | n + 1, bs =>
    match f bs with
    | none => none
    | some (a, r) =>
      match decodeN f n r with
      | none => none
      | some (as, r') => some (a :: as, r')

/-- `impl_vec!` decoder: the count is the `u64` of the varint (the loop is `for _ in 0..len` over
    `u64`; the `as usize` there only affects the pre-allocated capacity). -/
def decodeVec {α : Type} (f : List Nat → Option (α × List Nat)) (bs : List Nat) :
    Option (List α × List Nat) :=
  match decodeVarInt bs with
  | some (n, r) => decodeN f n r
  | none => none

/-- The element loop of `impl Decodable for Witness`. `acc` is `cursor - witness_index_space`, the
    number of content bytes (length prefixes included) stored so far. The check is
    `required_len > MAX_VEC_SIZE + witness_index_space` (the two `checked_add` overflow errors are
    subsumed by it, since an overflow means the true sum is at least `W > 20 * MAX_VEC_SIZE`). -/
def decodeWitnessElems (W : Nat) : Nat → Nat → List Nat → Option (List (List Nat) × List Nat)
  | 0, _, bs => some ([], bs)
  | n + 1, acc, bs =>
    match decodeVarInt bs with
    | none => none
    | some (m, r) =>
      if MAX_VEC_SIZE < acc + m % W + varIntSize m then none
      else
        match readBytes (m % W) r with
        | none => none
        | some (e, r') =>
          match decodeWitnessElems W n (acc + m % W + varIntSize m) r' with
          | none => none
          | some (es, r'') => some (e :: es, r'')

/-- `impl Decodable for Witness`. -/
def decodeWitness (W : Nat) (bs : List Nat) : Option (List (List Nat) × List Nat) :=
  match decodeVarInt bs with
  | none => none
  | some (n, r) =>
    if MAX_VEC_SIZE < n % W then none else decodeWitnessElems W (n % W) 0 r

/-- `for txin in input.iter_mut() { txin.witness = decode(r)? }`. -/
def decodeWitnesses (W : Nat) : List TxIn → List Nat → Option (List TxIn × List Nat)
  | [], bs => some ([], bs)
  | i :: is, bs =>
    match decodeWitness W bs with
    | none => none
    | some (w, r) =>
      match decodeWitnesses W is r with
      | none => none
      | some (is', r') => some ({ i with witness := w } :: is', r')

/-- `impl Decodable for Transaction` (`consensus_decode_from_finite_reader`), returning the decoded
    transaction and the unread input. -/
def decodeTxW (W : Nat) (bs : List Nat) : Option (Tx × List Nat) :=
  match readLE 4 bs with
  | none => none
  | some (version, r1) =>
    match decodeVec (decodeTxIn W) r1 with
    | none => none
    | some (ins, r2) =>
      if ins.isEmpty then
        -- segwit marker was read as an empty input vector; next byte is the flag
        match r2 with
        | [] => none
        | flag :: r3 =>
          if flag = 1 then
            match decodeVec (decodeTxIn W) r3 with
            | none => none
            | some (ins', r4) =>
              match decodeVec (decodeTxOut W) r4 with
              | none => none
              | some (outs, r5) =>
                match decodeWitnesses W ins' r5 with
                | none => none
                | some (ins'', r6) =>
                  if !ins''.isEmpty && ins''.all (fun i => i.witness.isEmpty) then
                    none -- "witness flag set but no witnesses present"
                  else
                    match readLE 4 r6 with
                    | none => none
                    | some (lt, r7) => some (⟨version, ins'', outs, lt⟩, r7)
          else none -- UnsupportedSegwitFlag
      else
        match decodeVec (decodeTxOut W) r2 with
        | none => none
        | some (outs, r3) =>
          match readLE 4 r3 with
          | none => none
          | some (lt, r4) => some (⟨version, ins, outs, lt⟩, r4)

/-- `consensus::encode::deserialize::<Transaction>`: decode and require that every byte was
    consumed. -/
def decodeExactW (W : Nat) (bs : List Nat) : Option Tx :=
  match decodeTxW W bs with
  | some (t, []) => some t
  | _ => none

/-- `deserialize_partial` on a 64-bit target. -/
def decodeTx (bs : List Nat) : Option (Tx × List Nat) := decodeTxW usize64 bs

/-- `deserialize` on a 64-bit target (the acceptance test of `bitcoin_send_transaction`). -/
def decodeExact (bs : List Nat) : Option Tx := decodeExactW usize64 bs

/-- `deserialize` on `wasm32-unknown-unknown`. -/
def decodeExact32 (bs : List Nat) : Option Tx := decodeExactW usize32 bs

/-! ### Well-formedness (the values a Rust `Transaction` can hold) -/

/-- Number of content bytes of a witness (each element with its length prefix). -/
def witnessContentSize : List (List Nat) → Nat
  | [] => 0
  | e :: es => (e.length + varIntSize e.length) + witnessContentSize es

/-- Witnesses that `Witness::consensus_decode` can produce: at most `MAX_VEC_SIZE` elements and at
    most `MAX_VEC_SIZE` bytes of content. -/
def WitnessWF (w : List (List Nat)) : Prop :=
  w.length ≤ MAX_VEC_SIZE ∧ witnessContentSize w ≤ MAX_VEC_SIZE ∧ ∀ e ∈ w, AllBytes e

instance (w : List (List Nat)) : Decidable (WitnessWF w) := by unfold WitnessWF; infer_instance

def TxIn.WFW (W : Nat) (i : TxIn) : Prop :=
  i.prevTxid.length = 32 ∧ AllBytes i.prevTxid ∧ i.vout < 4294967296 ∧
  i.scriptSig.length < W ∧ AllBytes i.scriptSig ∧ i.sequence < 4294967296 ∧ WitnessWF i.witness

instance (W : Nat) (i : TxIn) : Decidable (i.WFW W) := by unfold TxIn.WFW; infer_instance

def TxOut.WFW (W : Nat) (o : TxOut) : Prop :=
  o.value < 18446744073709551616 ∧ o.script.length < W ∧ AllBytes o.script

instance (W : Nat) (o : TxOut) : Decidable (o.WFW W) := by unfold TxOut.WFW; infer_instance

/-- All integer fields in range, all bytes are bytes, vector lengths representable
    (`< 2^64` for the counts, `< W` for byte vectors), witness limits respected. -/
def Tx.WFW (W : Nat) (t : Tx) : Prop :=
  t.version < 4294967296 ∧ t.lockTime < 4294967296 ∧
  t.inputs.length < 18446744073709551616 ∧ t.outputs.length < 18446744073709551616 ∧
  (∀ i ∈ t.inputs, i.WFW W) ∧ (∀ o ∈ t.outputs, o.WFW W)

instance (W : Nat) (t : Tx) : Decidable (t.WFW W) := by unfold Tx.WFW; infer_instance

/-- Well-formedness on a 64-bit target. -/
def Tx.WF (t : Tx) : Prop := t.WFW usize64

instance (t : Tx) : Decidable t.WF := by unfold Tx.WF; infer_instance

end Btc.TxCodec
