import BtcModel.Model.Transform

/-
  Executable model of what the watchdog's `apply_to_body_json` does with the body BYTES before the
  extraction closure runs:

      String::from_utf8(body)                       -- `utf8Valid`
      serde_json::from_str::<serde_json::Value>(..) -- `parseValue` / `parse`

  serde_json 1.0.149 with features `default`+`std` only (no `preserve_order`, no
  `arbitrary_precision`, no `float_roundtrip`, no `unbounded_depth`; see `/repo/Cargo.lock` and
  `cargo tree -e features -i serde_json -p watchdog`). Consequences mirrored here:

  * `Map` is a `BTreeMap<String, Value>`: members are iterated in byte-lexicographic key order and a
    repeated key keeps the LAST value (`normMembers`).
  * recursion limit 128: `remaining_depth` starts at 128, every `[` / `{` decrements it and fails when
    it reaches 0, so nesting depth 127 is accepted and 128 is an error (probed).
  * numbers (`de.rs::parse_integer/parse_number/parse_decimal/parse_exponent/f64_from_parts`): a
    non-negative integer literal without fraction/exponent whose value fits into `u64` is a
    `N::PosInt`, every other literal is `NegInt`/`Float` (in particular `-0`, `1.0`, `1e3`,
    `18446744073709551616`), and a literal whose `f64` value would be infinite is an ERROR
    (`NumberOutOfRange`), which is observable by the watchdog (empty body instead of
    `{"height":null}`); `NumTok.outOfRange` simulates the u64-significand/`i32`-exponent algorithm
    of `de.rs` including its IEEE-754 round-to-nearest multiplication.
  * strings (`read.rs::parse_str_bytes`, `parse_escape`, `parse_unicode_escape`, validate = true).

  The value type keeps the number LITERAL (`NumTok`), so nothing the watchdog could observe is lost
  and `render` is an exact inverse; `toModelValue` forgets it (`uint n` / `otherNum`).

  Not modelled: `i32` wrap-around of the exponent bookkeeping, which needs a literal with
  more than 2^31 digits (bodies are at most 2 MiB).

  Mathlib-free on purpose (linked into the driver executable).
-/
namespace Btc.Json

/-! ## UTF-8 validation (`core::str::from_utf8`) -/

/-- State machine over the bytes: `need` continuation bytes are still expected, the next one must
    lie in `[lo, hi]` (the following ones in `[128, 191]`). Table 3-7 of the Unicode standard:
    no overlong forms, no surrogates `D800..DFFF`, nothing above `10FFFF`. -/
def utf8Go : Nat → Nat → Nat → List Nat → Bool
  | need, _, _, [] => need == 0
  | 0, _, _, b :: bs =>
    if b < 128 then utf8Go 0 128 191 bs
    else if 194 ≤ b && b ≤ 223 then utf8Go 1 128 191 bs
    else if b == 224 then utf8Go 2 160 191 bs
    else if (225 ≤ b && b ≤ 236) || b == 238 || b == 239 then utf8Go 2 128 191 bs
    else if b == 237 then utf8Go 2 128 159 bs
    else if b == 240 then utf8Go 3 144 191 bs
    else if 241 ≤ b && b ≤ 243 then utf8Go 3 128 191 bs
    else if b == 244 then utf8Go 3 128 143 bs
    else false
  | need + 1, lo, hi, b :: bs => if lo ≤ b && b ≤ hi then utf8Go need 128 191 bs else false

/-- `std::str::from_utf8(bytes).is_ok()` -/
def utf8Valid (bs : List Nat) : Bool := utf8Go 0 128 191 bs

/-! ## Lexical helpers -/

/-- serde_json's whitespace: space, `\t`, `\n`, `\r` -/
def isWs (b : Nat) : Bool := b == 32 || b == 9 || b == 10 || b == 13

def skipWs : List Nat → List Nat
  | [] => []
  | b :: bs => if isWs b then skipWs bs else b :: bs

def isDigit (b : Nat) : Bool := 48 ≤ b && b ≤ 57

/-- longest prefix of ASCII digits, and the rest -/
def spanDigits : List Nat → List Nat × List Nat
  | [] => ([], [])
  | b :: bs =>
    if isDigit b then
      match spanDigits bs with
      | (ds, r) => (b :: ds, r)
    else ([], b :: bs)

/-- remove the given prefix -/
def stripPrefix : List Nat → List Nat → Option (List Nat)
  | [], bs => some bs
  | _ :: _, [] => none
  | p :: ps, b :: bs => if p = b then stripPrefix ps bs else none

/-! ## Numbers -/

/-- exponent part of a number literal -/
structure ExpPart where
  /-- `E` instead of `e` -/
  upper : Bool
  /-- `some true` = `+`, `some false` = `-` -/
  sign : Option Bool
  digits : List Nat
deriving Repr, DecidableEq

/-- a number literal, split as in RFC 8259: `[-] int [. frac] [e|E [+|-] digits]` -/
structure NumTok where
  neg : Bool
  int : List Nat
  frac : Option (List Nat)
  exp : Option ExpPart
deriving Repr, DecidableEq

def digitsVal (ds : List Nat) : Nat := ds.foldl (fun a d => a * 10 + (d - 48)) 0

/-- The `significand = significand * 10 + digit` loops of `de.rs` with their `overflow!` test:
    absorb digits while the result fits into a `u64`. Returns the significand, the number of digits
    absorbed and whether the loop stopped because of an overflow. -/
def accDigits (sig : Nat) : List Nat → Nat × Nat × Bool
  | [] => (sig, 0, false)
  | d :: ds =>
    if sig * 10 + (d - 48) < Btc.Transform.two64 then
      match accDigits (sig * 10 + (d - 48)) ds with
      | (s, k, o) => (s, k + 1, o)
    else (sig, 0, true)

def bitLenFuel : Nat → Nat → Nat
  | 0, _ => 0
  | f + 1, n => if n = 0 then 0 else bitLenFuel f (n / 2) + 1

/-- number of binary digits (for numbers below `2^1100`) -/
def bitLen (n : Nat) : Nat := bitLenFuel 1100 n

/-- round to nearest, ties to even, to 53 significant bits: the value of `n as f64` and of the
    literals `1e0 … 1e308` of `de.rs::POW10` -/
def roundF64 (n : Nat) : Nat :=
  let l := bitLen n
  if l ≤ 53 then n
  else
    let sh := l - 53
    let q := n / 2 ^ sh
    let r := n % 2 ^ sh
    let half := 2 ^ (sh - 1)
    (if r > half || (r == half && q % 2 == 1) then q + 1 else q) * 2 ^ sh

/-- smallest real number that rounds to `+inf`: `f64::MAX` plus half an ulp -/
def f64InfThreshold : Nat := 2 ^ 1024 - 2 ^ 970

/-- `f64_from_parts(_, sig, e)` fails with `NumberOutOfRange` -/
def f64Overflow (sig : Nat) (e : Int) : Bool :=
  decide (0 ≤ e) && sig != 0 &&
    (decide (308 < e) || decide (f64InfThreshold ≤ roundF64 sig * roundF64 (10 ^ e.toNat)))

namespace NumTok

/-- `Number::as_u64` of the parsed literal: `Some` exactly for `ParserNumber::U64` -/
def asU64 (t : NumTok) : Option Nat :=
  if !t.neg && t.frac.isNone && t.exp.isNone && decide (digitsVal t.int < Btc.Transform.two64)
  then some (digitsVal t.int) else none

/-- serde_json rejects the (grammatically correct) literal with `NumberOutOfRange` -/
def outOfRange (t : NumTok) : Bool :=
  match accDigits 0 t.int with
  | (s0, k0, o0) =>
    if !o0 && t.frac.isNone && t.exp.isNone then false
    else
      let e0 : Int := if o0 then ((t.int.length - k0 : Nat) : Int) else 0
      let se : Nat × Int :=
        match t.frac with
        | none => (s0, e0)
        | some fd =>
          match accDigits s0 fd with
          | (s, k, _) => (s, e0 - (k : Int))
      match t.exp with
      | none => f64Overflow se.1 se.2
      | some ex =>
        let ev := digitsVal ex.digits
        let pos := ex.sign != some false
        if ev > 2147483647 then (se.1 != 0 && pos)
        else f64Overflow se.1 (if pos then se.2 + (ev : Int) else se.2 - (ev : Int))

def allDigits (ds : List Nat) : Bool := ds.all isDigit

/-- the literal follows the RFC 8259 grammar -/
def grammatical (t : NumTok) : Bool :=
  allDigits t.int && !t.int.isEmpty && (t.int.length == 1 || t.int.head? != some 48) &&
  (match t.frac with
   | none => true
   | some fd => allDigits fd && !fd.isEmpty) &&
  (match t.exp with
   | none => true
   | some ex => allDigits ex.digits && !ex.digits.isEmpty)

/-- accepted by serde_json -/
def WF (t : NumTok) : Bool := t.grammatical && !t.outOfRange

def renderSign : Option Bool → List Nat
  | none => []
  | some true => [43]
  | some false => [45]

def renderExp (ex : ExpPart) : List Nat :=
  (if ex.upper then 69 else 101) :: (renderSign ex.sign ++ ex.digits)

def renderExpOpt : Option ExpPart → List Nat
  | none => []
  | some ex => renderExp ex

def renderFrac : Option (List Nat) → List Nat
  | none => []
  | some fd => 46 :: fd

/-- the literal's bytes -/
def render (t : NumTok) : List Nat :=
  (if t.neg then [45] else []) ++ (t.int ++ (renderFrac t.frac ++ renderExpOpt t.exp))

/-- the literal of a `u64` as serde_json prints it -/
def ofNat (n : Nat) : NumTok := ⟨false, Btc.Transform.decDigits n, none, none⟩

end NumTok

/-- optional fraction -/
def scanFrac : List Nat → Option (Option (List Nat) × List Nat)
  | [] => some (none, [])
  | b :: r =>
    if b = 46 then
      match spanDigits r with
      | ([], _) => none
      | (d :: ds, r') => some (some (d :: ds), r')
    else some (none, b :: r)

/-- optional sign of an exponent -/
def scanSign : List Nat → Option Bool × List Nat
  | [] => (none, [])
  | c :: r => if c = 43 then (some true, r) else if c = 45 then (some false, r) else (none, c :: r)

/-- optional exponent -/
def scanExp : List Nat → Option (Option ExpPart × List Nat)
  | [] => some (none, [])
  | b :: r =>
    if b = 101 || b = 69 then
      match spanDigits (scanSign r).2 with
      | ([], _) => none
      | (d :: ds, r') => some (some ⟨b = 69, (scanSign r).1, d :: ds⟩, r')
    else some (none, b :: r)

/-- optional minus sign -/
def scanMinus : List Nat → Bool × List Nat
  | [] => (false, [])
  | b :: r => if b = 45 then (true, r) else (false, b :: r)

/-- `Deserializer::parse_any_number`: the literal at the head of the input and the rest -/
def scanNumber (bs : List Nat) : Option (NumTok × List Nat) :=
  match spanDigits (scanMinus bs).2 with
  | ([], _) => none
  | (d :: ds, r1) =>
    if d = 48 && !ds.isEmpty then none
    else
      match scanFrac r1 with
      | none => none
      | some (fr, r2) =>
        match scanExp r2 with
        | none => none
        | some (ex, r3) =>
          if (NumTok.mk (scanMinus bs).1 (d :: ds) fr ex).outOfRange then none
          else some (⟨(scanMinus bs).1, d :: ds, fr, ex⟩, r3)

/-! ## Strings -/

def hexVal (b : Nat) : Option Nat :=
  if 48 ≤ b && b ≤ 57 then some (b - 48)
  else if 97 ≤ b && b ≤ 102 then some (b - 87)
  else if 65 ≤ b && b ≤ 70 then some (b - 55)
  else none

/-- `push_wtf8_codepoint` (never called with a surrogate when `validate = true`) -/
def utf8Enc (n : Nat) : List Nat :=
  if n < 128 then [n]
  else if n < 2048 then [192 + n / 64, 128 + n % 64]
  else if n < 65536 then [224 + n / 4096, 128 + n / 64 % 64, 128 + n % 64]
  else [240 + n / 262144, 128 + n / 4096 % 64, 128 + n / 64 % 64, 128 + n % 64]

/-- states of the string scanner (the opening quote has been consumed) -/
inductive StrSt where
  | normal
  /-- after a backslash -/
  | esc
  /-- inside `\uXXXX`: `k` hex digits still to read, `acc` the value so far, `lead` the leading
      surrogate of a pair whose second escape is being read -/
  | hex (k : Nat) (acc : Nat) (lead : Option Nat)
  /-- after a leading surrogate: a backslash must follow -/
  | needBackslash (lead : Nat)
  /-- … and then a `u` -/
  | needU (lead : Nat)
deriving Repr, DecidableEq

def prepend (xs : List Nat) : Option (List Nat × List Nat) → Option (List Nat × List Nat)
  | some (s, r) => some (xs ++ s, r)
  | none => none

/-- `SliceRead::parse_str_bytes(validate = true)` + `parse_escape` + `parse_unicode_escape`, one
    byte per step: the decoded bytes of the string up to the closing quote, and the rest. -/
def strGo : StrSt → List Nat → Option (List Nat × List Nat)
  | _, [] => none
  | .normal, b :: bs =>
    if b = 34 then some ([], bs)
    else if b = 92 then strGo .esc bs
    else if b < 32 then none
    else prepend [b] (strGo .normal bs)
  | .esc, b :: bs =>
    if b = 34 then prepend [34] (strGo .normal bs)
    else if b = 92 then prepend [92] (strGo .normal bs)
    else if b = 47 then prepend [47] (strGo .normal bs)
    else if b = 98 then prepend [8] (strGo .normal bs)
    else if b = 102 then prepend [12] (strGo .normal bs)
    else if b = 110 then prepend [10] (strGo .normal bs)
    else if b = 114 then prepend [13] (strGo .normal bs)
    else if b = 116 then prepend [9] (strGo .normal bs)
    else if b = 117 then strGo (.hex 4 0 none) bs
    else none
  | .hex k acc lead, b :: bs =>
    match hexVal b with
    | none => none
    | some d =>
      if k ≤ 1 then
        match lead with
        | none =>
          if 56320 ≤ acc * 16 + d && acc * 16 + d ≤ 57343 then none
          else if 55296 ≤ acc * 16 + d && acc * 16 + d ≤ 56319 then
            strGo (.needBackslash (acc * 16 + d)) bs
          else prepend (utf8Enc (acc * 16 + d)) (strGo .normal bs)
        | some n1 =>
          if 56320 ≤ acc * 16 + d && acc * 16 + d ≤ 57343 then
            prepend (utf8Enc (65536 + (n1 - 55296) * 1024 + (acc * 16 + d - 56320)))
              (strGo .normal bs)
          else none
      else strGo (.hex (k - 1) (acc * 16 + d) lead) bs
  | .needBackslash n1, b :: bs => if b = 92 then strGo (.needU n1) bs else none
  | .needU n1, b :: bs => if b = 117 then strGo (.hex 4 0 (some n1)) bs else none

/-- the string whose opening quote has just been consumed -/
def parseStr (bs : List Nat) : Option (List Nat × List Nat) := strGo .normal bs

/-! ## Values -/

/-- `serde_json::Value`; strings and keys are their UTF-8 bytes, numbers their literal. -/
inductive JVal where
  | null
  | bool (b : Bool)
  | num (t : NumTok)
  | str (s : List Nat)
  | arr (items : List JVal)
  | obj (members : List (List Nat × JVal))
deriving Repr

/-- `<` of Rust `String`s: lexicographic on the bytes -/
def keyLt : List Nat → List Nat → Bool
  | [], [] => false
  | [], _ :: _ => true
  | _ :: _, [] => false
  | a :: as, b :: bs => decide (a < b) || (a == b && keyLt as bs)

/-- `BTreeMap::insert`: keep the list strictly sorted, an equal key gets the new value -/
def insertMember {α : Type} (k : List Nat) (v : α) : List (List Nat × α) → List (List Nat × α)
  | [] => [(k, v)]
  | (k', v') :: ms =>
    if k = k' then (k', v) :: ms
    else if keyLt k k' then (k, v) :: (k', v') :: ms
    else (k', v') :: insertMember k v ms

/-- the members as `serde_json::Map` holds (and iterates) them after inserting them in source order -/
def normMembers {α : Type} (ms : List (List Nat × α)) : List (List Nat × α) :=
  ms.foldl (fun acc kv => insertMember kv.1 kv.2 acc) []

mutual
/-- Parse one value after optional whitespace. `depth` is serde_json's `remaining_depth`. -/
def parseValue : Nat → Nat → List Nat → Option (JVal × List Nat)
  | 0, _, _ => none
  | fuel + 1, depth, bs =>
    match skipWs bs with
    | [] => none
    | b :: r =>
      if b = 110 then
        match stripPrefix [117, 108, 108] r with
        | some r' => some (.null, r')
        | none => none
      else if b = 116 then
        match stripPrefix [114, 117, 101] r with
        | some r' => some (.bool true, r')
        | none => none
      else if b = 102 then
        match stripPrefix [97, 108, 115, 101] r with
        | some r' => some (.bool false, r')
        | none => none
      else if b = 34 then
        match parseStr r with
        | some (s, r') => some (.str s, r')
        | none => none
      else if b = 91 then
        if depth ≤ 1 then none
        else
          match skipWs r with
          | [] => none
          | c :: r' =>
            if c = 93 then some (.arr [], r')
            else
              match parseElems fuel (depth - 1) (c :: r') with
              | some (xs, r'') => some (.arr xs, r'')
              | none => none
      else if b = 123 then
        if depth ≤ 1 then none
        else
          match skipWs r with
          | [] => none
          | c :: r' =>
            if c = 125 then some (.obj [], r')
            else
              match parseMembers fuel (depth - 1) (c :: r') with
              | some (ms, r'') => some (.obj (normMembers ms), r'')
              | none => none
      else if b = 45 || isDigit b then
        match scanNumber (b :: r) with
        | some (t, r') => some (.num t, r')
        | none => none
      else none
/-- the elements of a non-empty array up to and including the closing bracket -/
def parseElems : Nat → Nat → List Nat → Option (List JVal × List Nat)
  | 0, _, _ => none
  | fuel + 1, depth, bs =>
    match parseValue fuel depth bs with
    | none => none
    | some (v, r) =>
      match skipWs r with
      | [] => none
      | c :: r' =>
        if c = 44 then
          match parseElems fuel depth r' with
          | some (vs, r'') => some (v :: vs, r'')
          | none => none
        else if c = 93 then some ([v], r')
        else none
/-- the members (in source order) of a non-empty object up to and including the closing brace -/
def parseMembers : Nat → Nat → List Nat → Option (List (List Nat × JVal) × List Nat)
  | 0, _, _ => none
  | fuel + 1, depth, bs =>
    match skipWs bs with
    | [] => none
    | q :: r =>
      if q = 34 then
        match parseStr r with
        | none => none
        | some (k, r1) =>
          match skipWs r1 with
          | [] => none
          | c :: r2 =>
            if c = 58 then
              match parseValue fuel depth r2 with
              | none => none
              | some (v, r3) =>
                match skipWs r3 with
                | [] => none
                | c' :: r4 =>
                  if c' = 44 then
                    match parseMembers fuel depth r4 with
                    | some (ms, r5) => some ((k, v) :: ms, r5)
                    | none => none
                  else if c' = 125 then some ([(k, v)], r4)
                  else none
            else none
      else none
end

/-- enough fuel for every input of that length (every call consumes a byte within two levels) -/
def fuelFor (bs : List Nat) : Nat := 2 * bs.length + 2

/-- `serde_json::from_str::<Value>` on text that is known to be UTF-8 -/
def parseText (bs : List Nat) : Option JVal :=
  match parseValue (fuelFor bs) 128 bs with
  | some (v, r) => if (skipWs r).isEmpty then some v else none
  | none => none

/-- `String::from_utf8(body).ok().and_then(|s| serde_json::from_str::<Value>(&s).ok())` -/
def parse (bs : List Nat) : Option JVal := if utf8Valid bs then parseText bs else none

/-! ## Conversion to the value type of `Model/Transform.lean` -/

/-- bytes → `String` the way `Driver/Transform.lean` reads the protocol's hex strings (one `Char`
    per byte; injective on bytes) -/
def strOfBytes (bs : List Nat) : String := String.ofList (bs.map Char.ofNat)

mutual
def toModelValue : JVal → Btc.Transform.Json
  | .null => .null
  | .bool b => .bool b
  | .num t =>
    match t.asU64 with
    | some n => .uint n
    | none => .otherNum
  | .str s => .str (strOfBytes s)
  | .arr xs => .arr (toModelList xs)
  | .obj ms => .obj (toModelMembers ms)
def toModelList : List JVal → List Btc.Transform.Json
  | [] => []
  | x :: xs => toModelValue x :: toModelList xs
def toModelMembers : List (List Nat × JVal) → List (String × Btc.Transform.Json)
  | [] => []
  | (k, v) :: ms => (strOfBytes k, toModelValue v) :: toModelMembers ms
end

/-- the parser in the shape `Btc.Transform.transform` expects -/
def parseModel (bs : List Nat) : Option Btc.Transform.Json := (parse bs).map toModelValue

/-! ## Protocol text (`harness/src/tf.rs::value_text`) -/

def hexChar (n : Nat) : Char :=
  if n < 10 then Char.ofNat (48 + n) else Char.ofNat (87 + n)

def hexOfBytes (bs : List Nat) : List Char := bs.flatMap (fun b => [hexChar (b / 16), hexChar (b % 16)])

mutual
def protoChars : JVal → List Char
  | .null => ['n']
  | .bool true => ['t']
  | .bool false => ['f']
  | .num t =>
    match t.asU64 with
    | some n => 'u' :: (toString n).toList
    | none => ['x']
  | .str s => 's' :: hexOfBytes s
  | .arr xs => 'a' :: '(' :: protoItems xs
  | .obj ms => 'o' :: '(' :: protoMembers ms
def protoItems : List JVal → List Char
  | [] => [')']
  | x :: xs => protoChars x ++ (match xs with
    | [] => [')']
    | _ :: _ => ',' :: protoItems xs)
def protoMembers : List (List Nat × JVal) → List Char
  | [] => [')']
  | (k, v) :: ms => hexOfBytes k ++ ':' :: protoChars v ++ (match ms with
    | [] => [')']
    | _ :: _ => ',' :: protoMembers ms)
end

/-- what `harness/src/tf.rs::parsed_text` prints for a body -/
def protoOfBody (bs : List Nat) : String :=
  match parse bs with
  | some v => String.ofList (protoChars v)
  | none => "X"

/-! ## Rendering -/

def hexDigitByte (n : Nat) : Nat := if n < 10 then 48 + n else 87 + n

/-- `serde_json::ser::format_escaped_str_contents`, one byte -/
def escByte (b : Nat) : List Nat :=
  if b = 34 then [92, 34]
  else if b = 92 then [92, 92]
  else if b = 8 then [92, 98]
  else if b = 12 then [92, 102]
  else if b = 10 then [92, 110]
  else if b = 13 then [92, 114]
  else if b = 9 then [92, 116]
  else if b < 32 then [92, 117, 48, 48, hexDigitByte (b / 16), hexDigitByte (b % 16)]
  else [b]

def escape : List Nat → List Nat
  | [] => []
  | b :: bs => escByte b ++ escape bs

/-- a string with its quotes -/
def renderStr (s : List Nat) : List Nat := 34 :: (escape s ++ [34])

/-- Whitespace choice: `w path slot` is the whitespace put at slot `slot` of the array/object node
    reached by `path` (child indices from the root). Slots of an array with elements `0..n-1`:
    `0` between the brackets of an empty array, `2i+1` before and `2i+2` after element `i`.
    Slots of an object: `0` between the braces of an empty object, `4i+1` before key `i`, `4i+2`
    between the key and its colon, `4i+3` after the colon, `4i+4` after the value. -/
abbrev WsChoice := List Nat → Nat → List Nat

/-- no whitespace anywhere -/
def noWs : WsChoice := fun _ _ => []

mutual
/-- the text of a value with the chosen whitespace at every place the grammar allows inside it -/
def renderWs (w : WsChoice) : List Nat → JVal → List Nat
  | _, .null => [110, 117, 108, 108]
  | _, .bool true => [116, 114, 117, 101]
  | _, .bool false => [102, 97, 108, 115, 101]
  | _, .num t => t.render
  | _, .str s => renderStr s
  | p, .arr xs =>
    91 :: (match xs with
      | [] => w p 0 ++ [93]
      | _ :: _ => renderElemsWs w p 0 xs)
  | p, .obj ms =>
    123 :: (match ms with
      | [] => w p 0 ++ [125]
      | _ :: _ => renderMembersWs w p 0 ms)
/-- elements `i, i+1, …` of the array at `p`, with separators and the closing bracket -/
def renderElemsWs (w : WsChoice) : List Nat → Nat → List JVal → List Nat
  | _, _, [] => []
  | p, i, x :: xs =>
    w p (2 * i + 1) ++ renderWs w (p ++ [i]) x ++ w p (2 * i + 2) ++
      (if xs.isEmpty then 93 else 44) :: renderElemsWs w p (i + 1) xs
/-- members `i, i+1, …` of the object at `p`, with separators and the closing brace -/
def renderMembersWs (w : WsChoice) : List Nat → Nat → List (List Nat × JVal) → List Nat
  | _, _, [] => []
  | p, i, (k, v) :: ms =>
    w p (4 * i + 1) ++ renderStr k ++ w p (4 * i + 2) ++ 58 :: w p (4 * i + 3) ++
      renderWs w (p ++ [i]) v ++ w p (4 * i + 4) ++
      (if ms.isEmpty then 125 else 44) :: renderMembersWs w p (i + 1) ms
end

/-- compact rendering (`serde_json::to_string` for values without non-`u64` numbers) -/
def render (v : JVal) : List Nat := renderWs noWs [] v

/-! ## Normalisation, well-formedness, depth -/

mutual
/-- what the parser makes of the value: objects as `serde_json::Map` stores them -/
def normalize : JVal → JVal
  | .arr xs => .arr (normalizeList xs)
  | .obj ms => .obj (normMembers (normalizeMembers ms))
  | v => v
def normalizeList : List JVal → List JVal
  | [] => []
  | x :: xs => normalize x :: normalizeList xs
def normalizeMembers : List (List Nat × JVal) → List (List Nat × JVal)
  | [] => []
  | (k, v) :: ms => (k, normalize v) :: normalizeMembers ms
end

mutual
/-- nesting depth of arrays/objects -/
def depthOf : JVal → Nat
  | .arr xs => depthOfList xs + 1
  | .obj ms => depthOfMembers ms + 1
  | _ => 0
def depthOfList : List JVal → Nat
  | [] => 0
  | x :: xs => max (depthOf x) (depthOfList xs)
def depthOfMembers : List (List Nat × JVal) → Nat
  | [] => 0
  | (_, v) :: ms => max (depthOf v) (depthOfMembers ms)
end

mutual
/-- the value has a text: strings and keys are valid UTF-8 and number literals are accepted -/
def JVal.WF : JVal → Bool
  | .num t => t.WF
  | .str s => utf8Valid s
  | .arr xs => WFList xs
  | .obj ms => WFMembers ms
  | _ => true
def WFList : List JVal → Bool
  | [] => true
  | x :: xs => x.WF && WFList xs
def WFMembers : List (List Nat × JVal) → Bool
  | [] => true
  | (k, v) :: ms => utf8Valid k && v.WF && WFMembers ms
end

end Btc.Json
