import BtcModel.Model.Merkle

/-
  Test vectors for the executable SHA-256 / merkle root of `Model/Merkle.lean`, checked at
  elaboration time by `#guard` (the build fails if one of them is false).
-/
namespace Btc.Merkle.Test

def hexVal (c : Char) : Nat :=
  if '0' ≤ c ∧ c ≤ '9' then c.toNat - '0'.toNat
  else if 'a' ≤ c ∧ c ≤ 'f' then c.toNat - 'a'.toNat + 10
  else 0

def hexBytes : List Char → List Nat
  | a :: b :: rest => (hexVal a * 16 + hexVal b) :: hexBytes rest
  | _ => []

def hex (s : String) : List Nat := hexBytes s.toList

/-- a displayed txid / block hash (hex of the reversed bytes) as the model number -/
def ofDisplay (s : String) : Nat := ofBeBytes (hex s).reverse

def ascii (s : String) : List Nat := s.toList.map (·.toNat)

-- FIPS 180-4 / NIST vectors
#guard sha256 [] = hex "e3b0c44298fc1c149afbf4c8996fb92427ae41e4649b934ca495991b7852b855"
#guard sha256 (ascii "abc") = hex "ba7816bf8f01cfea414140de5dae2223b00361a396177a9cb410ff61f20015ad"
#guard sha256 (ascii "abcdbcdecdefdefgefghfghighijhijkijkljklmklmnlmnomnopnopq") =
  hex "248d6a61d20638b8e5c026930c3e6039a33ce45964ff2167f6ecedd419db06c1"
-- padding boundaries: 55/56/64/119 bytes
#guard sha256 (List.replicate 56 97) = hex "b35439a4ac6f0948b6d6f9e3c6af0f5f590ce20f1bde7090ef7970686ec6738a"
#guard sha256 (List.replicate 64 97) = hex "ffe054fe7ae0cb6dc65c3af9b61d5209f439851db43d0ba5997337df154668eb"
#guard sha256 (List.replicate 119 97) = hex "31eba51c313a5c08226adf18d4a359cfdfd8d2e816b13f4af952f7ea6584dcfb"
#guard (shaPad (List.replicate 55 97)).length = 64 ∧ (shaPad (List.replicate 56 97)).length = 128
#guard sha256d [] = hex "5df6e0e2761359d30a8275058e299fcc0381534545f55cf43e41983f5d4c9456"
#guard sha256d (ascii "abc") = hex "4f8b42c22dd3729b519ba6f68d2da7cc5b2d606d05daed5ad5128cc03e6c6358"

#guard ofBeBytes (beBytes 32 0x0102030405) = 0x0102030405
#guard beBytes 32 (ofBeBytes (hex "e3b0c44298fc1c149afbf4c8996fb92427ae41e4649b934ca495991b7852b855")) =
  hex "e3b0c44298fc1c149afbf4c8996fb92427ae41e4649b934ca495991b7852b855"

/-! Bitcoin mainnet block 170 (the first block with two transactions). -/
def tx170a : Nat := ofDisplay "b1fea52486ce0c62bb442b530a3f0132b826c74e473d1f2c220bfa78111c5082"
def tx170b : Nat := ofDisplay "f4184fc596403b9d638783cf57adfe4c75c605f6356fbc91338530e9831e9e16"
def root170 : Nat := ofDisplay "7dac2c5666815c17a3b36427de37bb9d2e2c5ccec3f8633eb91a4205cb4c10ff"

#guard tx170a = 58942211800964041638126981938618128479186874642947666165220901044686130904753
#guard hashPair tx170a tx170b = root170
#guard merkleRootSha [tx170a, tx170b] = some root170
#guard merkleRootSha [tx170a] = some tx170a
#guard merkleRootSha [] = none

/-! A 3-leaf tree (block 170's txids and the coinbase of block 1), root cross-checked with
    Python's hashlib, and its CVE-2012-2459 mutation. -/
def tx1 : Nat := ofDisplay "0e3e2357e806b6cdb1f70b54c3a3a17b6714ee1f0e68bebb44a74b1efd512098"
def root3 : Nat := ofBeBytes (hex "5f4fc72f67c9851822fa0db41e261a0c9e4cb56dcaf50eb8ed07f07d09d5e614")

#guard merkleRootSha [tx170a, tx170b, tx1] = some root3
#guard merkleRootSha [tx170a, tx170b, tx1, tx1] = some root3
#guard validateBlockBody hashPair root3 [(tx170a, 1, true), (tx170b, 2, false), (tx1, 3, false)] = none
#guard validateBlockBody hashPair root3
    [(tx170a, 1, true), (tx170b, 2, false), (tx1, 3, false), (tx1, 3, false)] =
  some .duplicateTransactions
#guard validateBlockBody hashPair root170 [(tx170a, 1, true), (tx170b, 2, false), (tx1, 3, false)] =
  some .invalidMerkleRoot

end Btc.Merkle.Test
