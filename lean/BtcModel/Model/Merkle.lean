import BtcModel.Model.Canister

/-
  Model of the structural block checks of `validation/src/block/mod.rs` (`validate_block`,
  `ensure_unique_transactions`) together with the merkle tree of the vendored rust-bitcoin fork
  (`merkle_tree::calculate_root`, `calculate_root_inline`, `merkle_root_r`,
  `Block::compute_merkle_root`, `Block::check_merkle_root`) and an executable SHA-256.

  Import-free of Mathlib/Batteries (linked into the driver).

  Hashes are natural numbers: the number whose 32-byte big-endian form is the stored byte vector
  (the same convention as `Btc.Tx.txid`, see `Model/Types.lean`).
-/
namespace Btc.Merkle

/-! ### The merkle tree over an abstract two-to-one hash -/

/-- One pass of `merkle_root_r` (equivalently the `while let` loop of `calculate_root`): adjacent
    hashes are combined, the last one is used twice when the count is odd
    (`idx2 = min(idx1 + 1, len - 1)`, resp. `hashes.next().unwrap_or(hash1)`). -/
def pairUp (H : Nat → Nat → Nat) : List Nat → List Nat
  | [] => []
  | [a] => [H a a]
  | a :: b :: rest => H a b :: pairUp H rest

/-- `merkle_root_r` with explicit fuel (one unit per level). `none` only for the empty list or
    when the fuel runs out (it never does for `fuel ≥ length`). -/
def merkleFuel (H : Nat → Nat → Nat) : Nat → List Nat → Option Nat
  | _, [] => none
  | _, [a] => some a
  | 0, _ :: _ :: _ => none
  | fuel + 1, a :: b :: rest => merkleFuel H fuel (pairUp H (a :: b :: rest))

/-- `merkle_tree::calculate_root` / `calculate_root_inline`: `None` for no hashes, the hash itself
    for a single one, otherwise pair up and recurse. `H left right` is the parent hash. -/
def merkleRoot (H : Nat → Nat → Nat) (l : List Nat) : Option Nat :=
  merkleFuel H l.length l

/-! ### SHA-256 (FIPS 180-4) on byte lists, `UInt32` arithmetic -/

def K256 : Array UInt32 := #[
  0x428a2f98, 0x71374491, 0xb5c0fbcf, 0xe9b5dba5, 0x3956c25b, 0x59f111f1, 0x923f82a4, 0xab1c5ed5,
  0xd807aa98, 0x12835b01, 0x243185be, 0x550c7dc3, 0x72be5d74, 0x80deb1fe, 0x9bdc06a7, 0xc19bf174,
  0xe49b69c1, 0xefbe4786, 0x0fc19dc6, 0x240ca1cc, 0x2de92c6f, 0x4a7484aa, 0x5cb0a9dc, 0x76f988da,
  0x983e5152, 0xa831c66d, 0xb00327c8, 0xbf597fc7, 0xc6e00bf3, 0xd5a79147, 0x06ca6351, 0x14292967,
  0x27b70a85, 0x2e1b2138, 0x4d2c6dfc, 0x53380d13, 0x650a7354, 0x766a0abb, 0x81c2c92e, 0x92722c85,
  0xa2bfe8a1, 0xa81a664b, 0xc24b8b70, 0xc76c51a3, 0xd192e819, 0xd6990624, 0xf40e3585, 0x106aa070,
  0x19a4c116, 0x1e376c08, 0x2748774c, 0x34b0bcb5, 0x391c0cb3, 0x4ed8aa4a, 0x5b9cca4f, 0x682e6ff3,
  0x748f82ee, 0x78a5636f, 0x84c87814, 0x8cc70208, 0x90befffa, 0xa4506ceb, 0xbef9a3f7, 0xc67178f2]

/-- the eight working variables / the chaining value -/
structure Sha where
  a : UInt32
  b : UInt32
  c : UInt32
  d : UInt32
  e : UInt32
  f : UInt32
  g : UInt32
  h : UInt32
deriving DecidableEq, Repr

def shaInit : Sha :=
  ⟨0x6a09e667, 0xbb67ae85, 0x3c6ef372, 0xa54ff53a, 0x510e527f, 0x9b05688c, 0x1f83d9ab, 0x5be0cd19⟩

@[inline] def rotr (x n : UInt32) : UInt32 := (x >>> n) ||| (x <<< (32 - n))
@[inline] def ch (x y z : UInt32) : UInt32 := (x &&& y) ^^^ (~~~x &&& z)
@[inline] def maj (x y z : UInt32) : UInt32 := (x &&& y) ^^^ (x &&& z) ^^^ (y &&& z)
@[inline] def bsig0 (x : UInt32) : UInt32 := rotr x 2 ^^^ rotr x 13 ^^^ rotr x 22
@[inline] def bsig1 (x : UInt32) : UInt32 := rotr x 6 ^^^ rotr x 11 ^^^ rotr x 25
@[inline] def ssig0 (x : UInt32) : UInt32 := rotr x 7 ^^^ rotr x 18 ^^^ (x >>> 3)
@[inline] def ssig1 (x : UInt32) : UInt32 := rotr x 17 ^^^ rotr x 19 ^^^ (x >>> 10)

/-- message padding: `0x80`, zeros up to 56 mod 64, the bit length as 8 big-endian bytes -/
def shaPad (msg : List Nat) : List Nat :=
  let n := msg.length
  msg ++ 0x80 :: List.replicate ((119 - n % 64) % 64) 0 ++ beBytes 8 (8 * n)

/-- big-endian 32-bit words of a byte list (a trailing partial word is dropped; padded
    messages have none) -/
def toWords : List Nat → List UInt32
  | a :: b :: c :: d :: rest =>
    ((UInt32.ofNat (a % 256) <<< 24) ||| (UInt32.ofNat (b % 256) <<< 16) |||
      (UInt32.ofNat (c % 256) <<< 8) ||| UInt32.ofNat (d % 256)) :: toWords rest
  | _ => []

/-- message schedule: extends the 16 block words `w[0..16]` by `n` further words starting at
    index `t` -/
def schedule : Nat → Nat → Array UInt32 → Array UInt32
  | 0, _, w => w
  | n + 1, t, w =>
    schedule n (t + 1)
      (w.push (ssig1 w[t - 2]! + w[t - 7]! + ssig0 w[t - 15]! + w[t - 16]!))

def shaRound (s : Sha) (k w : UInt32) : Sha :=
  let t1 := s.h + bsig1 s.e + ch s.e s.f s.g + k + w
  let t2 := bsig0 s.a + maj s.a s.b s.c
  ⟨t1 + t2, s.a, s.b, s.c, s.d + t1, s.e, s.f, s.g⟩

/-- `n` rounds starting at round `t` -/
def shaRounds (w : Array UInt32) : Nat → Nat → Sha → Sha
  | 0, _, s => s
  | n + 1, t, s => shaRounds w n (t + 1) (shaRound s K256[t]! w[t]!)

/-- the compression function on one 16-word block -/
def compress (s : Sha) (blk : List UInt32) : Sha :=
  let w := schedule 48 16 blk.toArray
  let r := shaRounds w 64 0 s
  ⟨s.a + r.a, s.b + r.b, s.c + r.c, s.d + r.d, s.e + r.e, s.f + r.f, s.g + r.g, s.h + r.h⟩

/-- `n` blocks of 16 words -/
def shaBlocks : Nat → List UInt32 → Sha → Sha
  | 0, _, s => s
  | n + 1, ws, s => shaBlocks n (ws.drop 16) (compress s (ws.take 16))

def wordBytes (x : UInt32) : List Nat :=
  [(x >>> 24).toNat, ((x >>> 16) &&& 0xff).toNat, ((x >>> 8) &&& 0xff).toNat, (x &&& 0xff).toNat]

def Sha.bytes (s : Sha) : List Nat :=
  wordBytes s.a ++ wordBytes s.b ++ wordBytes s.c ++ wordBytes s.d ++
    wordBytes s.e ++ wordBytes s.f ++ wordBytes s.g ++ wordBytes s.h

/-- SHA-256 of a byte list (every element is taken mod 256); 32 bytes -/
def sha256 (msg : List Nat) : List Nat :=
  let ws := toWords (shaPad msg)
  (shaBlocks (ws.length / 16) ws shaInit).bytes

/-- `sha256d::Hash`: SHA-256 applied twice -/
def sha256d (msg : List Nat) : List Nat := sha256 (sha256 msg)

/-- the number with the given big-endian bytes (inverse of `Btc.beBytes`) -/
def ofBeBytes (bs : List Nat) : Nat := bs.foldl (fun acc b => acc * 256 + b) 0

/-- parent of two merkle nodes: SHA256d of the 64 bytes `left ‖ right`
    (`hash1.consensus_encode; hash2.consensus_encode; from_engine`) -/
def hashPair (a b : Nat) : Nat := ofBeBytes (sha256d (beBytes 32 a ++ beBytes 32 b))

/-- `Block::compute_merkle_root` over the raw txid hashes -/
def merkleRootSha : List Nat → Option Nat := merkleRoot hashPair

/-! ### `validate_block` -/

/-- `validate_block` of `validation/src/block/mod.rs` (the checks after the header validation).
    A transaction is `(txid, ntxid, isCoinbase)`; `headerRoot` is `block.header.merkle_root`.
    Same checks in the same order as the Rust function:
    `NoTransactions`, `InvalidCoinbase`, `InvalidMerkleRoot` (`check_merkle_root`),
    `DuplicateTransactions` (`ensure_unique_transactions` over `compute_ntxid`). -/
def validateBlockBody (H : Nat → Nat → Nat) (headerRoot : Nat) (txs : List (Nat × Nat × Bool)) :
    Option State.BlockError :=
  match txs with
  | [] => some .noTransactions
  | first :: _ =>
    if !first.2.2 then some .invalidCoinbase
    else if !(merkleRoot H (txs.map (·.1)) == some headerRoot) then some .invalidMerkleRoot
    else if !(State.nodupNat (txs.map (·.2.1))) then some .duplicateTransactions
    else none

/-- the view of a model transaction used by `validateBlockBody` -/
def txView (t : Tx) : Nat × Nat × Bool := (t.txid, t.ntxid, t.coinbase)

/-- `check_merkle_root` of a model block whose header commits to `headerRoot` -/
def checkMerkleRoot (H : Nat → Nat → Nat) (headerRoot : Nat) (txs : List Tx) : Bool :=
  merkleRoot H (txs.map (·.txid)) == some headerRoot

/-- The CVE-2012-2459 mutation: append a copy of the last `k` elements. -/
def dupTail {α : Type} (k : Nat) (l : List α) : List α := l ++ l.drop (l.length - k)

end Btc.Merkle
