/-
  Model of `canister/src/blocktree.rs` (BlockTree) and of the tree-level decision
  functions of `canister/src/unstable_blocks.rs` (get_stable_child) and
  `canister/src/api/get_utxos.rs` (get_stability_count).

  Import-free on purpose: this file is linked into the driver executable.
-/
namespace Btc

/-- `BlockTree<Block>`: a root and its children in arrival order. -/
inductive Tree (α : Type) where
  | node (root : α) (children : List (Tree α)) : Tree α
deriving Repr

namespace Tree

variable {α : Type}

def root : Tree α → α
  | node r _ => r

def children : Tree α → List (Tree α)
  | node _ cs => cs

/-- A single-node tree (`BlockTree::new`). -/
def leaf (a : α) : Tree α := node a []

/-! ### Sizes and depths -/

mutual
/-- `BlockTree::depth`: number of blocks on the longest root-to-leaf path. -/
def depth : Tree α → Nat
  | node _ cs => depthList cs + 1
def depthList : List (Tree α) → Nat
  | [] => 0
  | c :: cs => max (depth c) (depthList cs)
end

mutual
/-- `BlockTree::blocks_count`. -/
def blocksCount : Tree α → Nat
  | node _ cs => 1 + blocksCountList cs
def blocksCountList : List (Tree α) → Nat
  | [] => 0
  | c :: cs => blocksCount c + blocksCountList cs
end

mutual
/-- `BlockTree::blocks` / `get_hashes`: all blocks in DFS pre-order, root first. -/
def blocks : Tree α → List α
  | node r cs => r :: blocksList cs
def blocksList : List (Tree α) → List α
  | [] => []
  | c :: cs => blocks c ++ blocksList cs
end

mutual
/-- `BlockTree::difficulty_based_depth`: maximum sum of difficulties from the root
    to a leaf, inclusive. -/
def diffDepth (d : α → Nat) : Tree α → Nat
  | node r cs => diffDepthList d cs + d r
def diffDepthList (d : α → Nat) : List (Tree α) → Nat
  | [] => 0
  | c :: cs => max (diffDepth d c) (diffDepthList d cs)
end

mutual
/-- `BlockTree::tip_depths`: the explicit-stack DFS of the code visits the children of a
    node last-to-first, so the depths come out in that order. -/
def tipDepthsFrom : Tree α → Nat → List Nat
  | node _ [], k => [k]
  | node _ (c :: cs), k => tipDepthsRev (c :: cs) (k + 1)
def tipDepthsRev : List (Tree α) → Nat → List Nat
  | [], _ => []
  | c :: cs, k => tipDepthsRev cs k ++ tipDepthsFrom c k
end

def tipDepths (t : Tree α) : List Nat := tipDepthsFrom t 1

mutual
/-- `BlockTree::tip_count`. -/
def tipCount : Tree α → Nat
  | node _ [] => 1
  | node _ (c :: cs) => tipCountList (c :: cs)
def tipCountList : List (Tree α) → Nat
  | [] => 0
  | c :: cs => tipCount c + tipCountList cs
end

/-! ### Main chain (`main_chain_by_difficulty`) -/

/-- Lexicographic `>` on `(accumulated difficulty, length)` – Rust tuple comparison. -/
def keyGt (a b : Nat × Nat) : Bool :=
  a.1 > b.1 || (a.1 == b.1 && a.2 > b.2)

mutual
/-- `main_chain_by_difficulty_inner`, returning `(difficulty, length, chain)` with the chain
    in root-to-tip order. The leaf special case of the code coincides with the fold over an
    empty child list (`best = (0, 0, [])`). -/
def mainChainInner (d : α → Nat) : Tree α → Nat × Nat × List α
  | node r cs =>
    let best := bestChild d cs (0, 0, [])
    (d r + best.1, 1 + best.2.1, r :: best.2.2)
/-- The loop over the children: strict `>` keeps the first child on ties. -/
def bestChild (d : α → Nat) : List (Tree α) → Nat × Nat × List α → Nat × Nat × List α
  | [], acc => acc
  | c :: cs, acc =>
    let k := mainChainInner d c
    if keyGt (k.1, k.2.1) (acc.1, acc.2.1) then bestChild d cs k else bestChild d cs acc
end

/-- `unstable_blocks::get_main_chain`. -/
def mainChain (d : α → Nat) (t : Tree α) : List α := (mainChainInner d t).2.2

mutual
/-- `main_chain_length_by_difficulty_inner` (the allocation-free twin). -/
def mainChainLenInner (d : α → Nat) : Tree α → Nat × Nat
  | node r cs =>
    let best := bestChildLen d cs (0, 0)
    (d r + best.1, 1 + best.2)
def bestChildLen (d : α → Nat) : List (Tree α) → Nat × Nat → Nat × Nat
  | [], acc => acc
  | c :: cs, acc =>
    let k := mainChainLenInner d c
    if keyGt k acc then bestChildLen d cs k else bestChildLen d cs acc
end

/-- `unstable_blocks::get_main_chain_length`. -/
def mainChainLen (d : α → Nat) (t : Tree α) : Nat := (mainChainLenInner d t).2

/-! ### Searching and extending -/

mutual
/-- `get_chain_with_tip`: the chain from the root to the first block (pre-order) whose hash
    is `tip`, together with that block's children. -/
def chainWithTip (h : α → Nat) (tip : Nat) : Tree α → Option (List α × List α)
  | node r cs =>
    if h r = tip then some ([r], rootsOf cs)
    else match chainWithTipList h tip cs with
      | some (p, s) => some (r :: p, s)
      | none => none
def chainWithTipList (h : α → Nat) (tip : Nat) : List (Tree α) → Option (List α × List α)
  | [] => none
  | c :: cs =>
    match chainWithTip h tip c with
    | some x => some x
    | none => chainWithTipList h tip cs
/-- roots of a list of trees (`get_child_blocks`) -/
def rootsOf : List (Tree α) → List α
  | [] => []
  | c :: cs => (match c with | node r _ => r) :: rootsOf cs
end

/-- `find_mut(..).1`: depth (0 = root) of the first block with the given hash. -/
def findDepth (h : α → Nat) (x : Nat) (t : Tree α) : Option Nat :=
  (chainWithTip h x t).map (fun p => p.1.length - 1)

def contains (h : α → Nat) (x : Nat) (t : Tree α) : Bool :=
  (chainWithTip h x t).isSome

mutual
/-- `BlockTree::extend`: append `b` as the last child of the first block (pre-order) whose
    hash is `prev`. -/
def extend (h : α → Nat) (prev : Nat) (b : α) : Tree α → Option (Tree α)
  | node r cs =>
    if h r = prev then some (node r (cs ++ [node b []]))
    else match extendList h prev b cs with
      | some cs' => some (node r cs')
      | none => none
def extendList (h : α → Nat) (prev : Nat) (b : α) : List (Tree α) → Option (List (Tree α))
  | [] => none
  | c :: cs =>
    match extend h prev b c with
    | some c' => some (c' :: cs)
    | none => match extendList h prev b cs with
      | some cs' => some (c :: cs')
      | none => none
end

mutual
/-- map over all blocks (used for `clear_all_metrics`). -/
def mapT {β : Type} (f : α → β) : Tree α → Tree β
  | node r cs => node (f r) (mapTList f cs)
def mapTList {β : Type} (f : α → β) : List (Tree α) → List (Tree β)
  | [] => []
  | c :: cs => mapT f c :: mapTList f cs
end

/-! ### Levels and the stability count (`block_hashes_with_depths_by_heights`,
    `get_stability_count`) -/

/-- Pointwise concatenation of two level lists. -/
def zipLevels {β : Type} : List (List β) → List (List β) → List (List β)
  | [], ys => ys
  | xs, [] => xs
  | x :: xs, y :: ys => (x ++ y) :: zipLevels xs ys

mutual
/-- For each height relative to the root, the `(hash, depth)` pairs of the blocks at that
    height. The code fills the same vector-of-vectors in post-order; only the multiset per
    height is ever used (`get_stability_count` takes a maximum). -/
def levels (h : α → Nat) : Tree α → List (List (Nat × Nat))
  | node r cs => [(h r, depthList cs + 1)] :: levelsList h cs
def levelsList (h : α → Nat) : List (Tree α) → List (List (Nat × Nat))
  | [] => []
  | c :: cs => zipLevels (levels h c) (levelsList h cs)
end

/-- `get_stability_count`. -/
def stabilityCount (level : List (Nat × Nat)) (target : Nat) : Int :=
  let maxOther := level.foldl (fun m p => if p.1 ≠ target then max m p.2 else m) 0
  let own := level.foldl (fun m p => if p.1 ≠ target then m else p.2) 0
  (own : Int) - (maxOther : Int)

/-! ### The stable child (`get_stable_child`) -/

/-- Network as far as the tree logic is concerned. -/
inductive Net where
  | mainnet | testnet | regtest
deriving DecidableEq, Repr

def Net.depthRule : Net → Bool
  | .mainnet => false
  | _ => true

/-- the part of the code's sort key that depends on the child only:
    `(difficulty_based_depth, main_chain_length_by_difficulty)` -/
def childKey (d : α → Nat) (c : Tree α) : Nat × Nat := (diffDepth d c, mainChainLen d c)

/-- children paired with their sort key and index, as built by the code -/
def childKeys (d : α → Nat) (cs : List (Tree α)) : List ((Nat × Nat) × Nat) :=
  (List.range cs.length).zip cs |>.map (fun p => (childKey d p.2, p.1))

/-- strict `<` on the code's composite sort key
    `(difficulty_based_depth, main_chain_length, Reverse(idx))`: lexicographic, the index
    compared in *descending* order. -/
def entryLt (a b : (Nat × Nat) × Nat) : Bool :=
  a.1.1 < b.1.1 || (a.1.1 == b.1.1 && (a.1.2 < b.1.2 || (a.1.2 == b.1.2 && a.2 > b.2)))

/-- insertion into an ascending list *after* the entries that are not greater: the stable
    `sort_by_key`. -/
def insertStable (x : (Nat × Nat) × Nat) : List ((Nat × Nat) × Nat) → List ((Nat × Nat) × Nat)
  | [] => [x]
  | y :: ys => if entryLt x y then x :: y :: ys else y :: insertStable x ys

/-- stable ascending sort by the composite key (behaviourally `slice::sort_by_key`). -/
def sortStable (l : List ((Nat × Nat) × Nat)) : List ((Nat × Nat) × Nat) :=
  l.foldl (fun acc x => insertStable x acc) []

def nthDepth (cs : List (Tree α)) (i : Nat) : Nat :=
  match cs[i]? with
  | some c => depth c
  | none => 0

/-- `get_stable_child`, parameterised by the depth bound
    (`testnet_unstable_max_depth_difference(blocks_count, threshold)`). -/
def stableChild (d : α → Nat) (net : Net) (thr : Nat) (bound : Nat) (t : Tree α) : Option Nat :=
  match t with
  | node r cs =>
    let sorted := sortStable (childKeys d cs)
    match sorted.reverse with
    | [] => none
    | ((deepest, _), idx) :: rest =>
      let normThr := d r * thr
      let depthEscape : Bool :=
        net.depthRule &&
          (let dd := nthDepth cs idx
           dd ≥ bound &&
             (let second := match rest with
                | [] => 0
                | (_, i2) :: _ => nthDepth cs i2
              dd - second ≥ bound))
      if depthEscape then some idx
      else if deepest < normThr then none
      else match rest with
        | [] => some idx
        | ((second, _), _) :: _ => if deepest - second < normThr then none else some idx

end Tree
end Btc
