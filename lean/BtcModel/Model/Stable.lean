import BtcModel.Model.Types

/-
  Model of `canister/src/utxo_set.rs`, `utxo_set/utxos.rs`, `utxo_set/utxos_delta.rs`:
  the stable UTXO set, its address index and balances, and time-sliced block ingestion.
  Import-free apart from `Types`.
-/
namespace Btc

/-- An entry of the address index (`AddressUtxo`); the B-tree key is `IdxEntry.key`. -/
structure IdxEntry where
  addr : Addr
  height : Nat
  op : OutPoint
deriving DecidableEq, Repr, BEq

/-- `AddressUtxo::to_bytes`: address bytes ‖ height (XOR-ed big endian) ‖ outpoint bytes. -/
def IdxEntry.key (e : IdxEntry) : List Nat := e.addr ++ heightBytes e.height ++ outPointBytes e.op

/-- `UtxosDelta`: what the block being ingested has added / removed so far (address-carrying
    outputs only). `added`/`removed` map an outpoint to its address
    (`all_added_outpoints`, `removed_outpoints`); `utxos` holds their `(TxOut, Height)`. -/
structure Delta where
  added : List (OutPoint × Addr) := []
  removed : List (OutPoint × Addr) := []
  utxos : List (OutPoint × (TxOut × Nat)) := []
deriving Repr, BEq

/-- `UtxosDelta::insert`; `none` = the assertion "Cannot add the same UTXO twice" fails. -/
def Delta.insert (d : Delta) (a : Addr) (o : OutPoint) (t : TxOut) (h : Nat) : Option Delta :=
  if AList.contains d.utxos o then none
  else some { d with added := AList.insert d.added o a, utxos := (o, (t, h)) :: d.utxos }

/-- `UtxosDelta::remove` -/
def Delta.remove (d : Delta) (a : Addr) (o : OutPoint) (t : TxOut) (h : Nat) : Option Delta :=
  if AList.contains d.added o then
    some { d with added := AList.erase d.added o, utxos := AList.erase d.utxos o }
  else if AList.contains d.utxos o then none
  else some { d with removed := AList.insert d.removed o a, utxos := (o, (t, h)) :: d.utxos }

/-- `get_added_outpoints(address)` as the ordered set it is in the code -/
def Delta.addedOf (d : Delta) (a : Addr) : List OutPoint :=
  sortBy OutPoint.lt ((d.added.filter (fun p => p.2 == a)).map (·.1))

def Delta.removedOf (d : Delta) (a : Addr) : List OutPoint :=
  sortBy OutPoint.lt ((d.removed.filter (fun p => p.2 == a)).map (·.1))

/-- `IngestingBlock` (statistics omitted) -/
structure Ingesting where
  block : Block
  txIdx : Nat := 0
  inIdx : Nat := 0
  outIdx : Nat := 0
  delta : Delta := {}
deriving Repr, BEq

/-- `UtxoSet` -/
structure UtxoSet where
  utxos : List (OutPoint × (TxOut × Nat)) := []
  index : List IdxEntry := []
  balances : List (Addr × Nat) := []
  nextHeight : Nat := 0
  ingesting : Option Ingesting := none
deriving Repr, BEq

namespace UtxoSet

/-- `UtxoSet::get_utxo`: the view with the in-progress block reverted. -/
def getUtxo (u : UtxoSet) (o : OutPoint) : Option (TxOut × Nat) :=
  match u.ingesting with
  | some b =>
    if AList.contains b.delta.removed o then AList.find? b.delta.utxos o
    else if AList.contains b.delta.added o then none
    else AList.find? u.utxos o
  | none => AList.find? u.utxos o

def sumValues (d : Delta) (os : List OutPoint) : Option Nat :=
  os.foldl (fun acc o => match acc, AList.find? d.utxos o with
    | some s, some (t, _) => some (s + t.value)
    | _, _ => none) (some 0)

/-- `UtxoSet::get_balance` (reverted view); `none` = one of its `expect`s fails. -/
def getBalance (u : UtxoSet) (a : Addr) : Option Nat :=
  let bal := (AList.find? u.balances a).getD 0
  match u.ingesting with
  | none => some bal
  | some b =>
    match sumValues b.delta (b.delta.removedOf a), sumValues b.delta (b.delta.addedOf a) with
    | some r, some ad => if bal + r < ad then none else some (bal + r - ad)
    | _, _ => none

/-- Range bounds of `AddressUtxoRange::new`. -/
def rangeStart (a : Addr) (offset : Option Utxo) : List Nat :=
  match offset with
  | some u => (IdxEntry.mk a u.height u.outpoint).key
  | none => (IdxEntry.mk a (2 ^ 32 - 1) ⟨0, 0⟩).key

def rangeEnd (a : Addr) : List Nat :=
  (IdxEntry.mk a 0 ⟨2 ^ 256 - 1, 2 ^ 32 - 1⟩).key

/-- The stable index range scan: all keys between the bounds, in increasing byte order.
    (`StableBTreeMap::range` = "the keys in the range, ascending".) -/
def rangeScan (u : UtxoSet) (a : Addr) (offset : Option Utxo) : List IdxEntry :=
  let lo := rangeStart a offset
  let hi := rangeEnd a
  sortBy (fun x y => lexLt x.key y.key)
    (u.index.filter (fun e => lexLe lo e.key && lexLe e.key hi))

/-- `UtxoSet::get_address_outpoints` -/
def getAddressOutpoints (u : UtxoSet) (a : Addr) (offset : Option Utxo) : List OutPoint :=
  let (added, removed) := match u.ingesting with
    | some b => (b.delta.addedOf a, b.delta.removedOf a)
    | none => ([], [])
  -- the byte range of `a` also covers keys of longer addresses starting with `a`: skipped
  let stable := (((rangeScan u a offset).filter (fun e => e.addr == a)).map (·.op)).filter
    (fun o => !(added.contains o))
  multiIter OutPoint.lt stable removed

/-! ### Ingestion -/

inductive StepResult where
  | ok (u : UtxoSet) (d : Delta)
  | trap (msg : String)

/-- one iteration of the loop in `remove_inputs` -/
def removeInput (u : UtxoSet) (d : Delta) (o : OutPoint) : StepResult :=
  match AList.find? u.utxos o with
  | none => .trap "outpoint not found"
  | some (t, h) =>
    let utxos := AList.erase u.utxos o
    match t.addr with
    | none => .ok { u with utxos := utxos } d
    | some a =>
      let e : IdxEntry := ⟨a, h, o⟩
      if !(u.index.contains e) then .trap "outpoint not found in the index"
      else
        let index := u.index.filter (fun x => !(x == e))
        let balances? : Option (List (Addr × Nat)) :=
          if t.value != 0 then
            match AList.find? u.balances a with
            | none => none
            | some bal =>
              if bal < t.value then none
              else if bal - t.value = 0 then some (AList.erase u.balances a)
              else some (AList.insert u.balances a (bal - t.value))
          else some u.balances
        match balances? with
        | none => .trap "address must exist in the balances map"
        | some balances =>
          match d.remove a o t h with
          | none => .trap "Cannot add the same UTXO twice into UtxosDelta"
          | some d' => .ok { u with utxos := utxos, index := index, balances := balances } d'

/-- one iteration of the loop in `insert_outputs` (`insert_utxo` for non-OP_RETURN outputs) -/
def insertOutput (u : UtxoSet) (d : Delta) (txid : Nat) (vout : Nat) (t : TxOut) : StepResult :=
  if t.opret then .ok u d
  else
    let o : OutPoint := ⟨txid, vout⟩
    let withAddr : Option (UtxoSet × Delta) :=
      match t.addr with
      | none => some (u, d)
      | some a =>
        let e : IdxEntry := ⟨a, u.nextHeight, o⟩
        let index := if u.index.contains e then u.index else e :: u.index
        let bal := (AList.find? u.balances a).getD 0
        match d.insert a o t u.nextHeight with
        | none => none
        | some d' => some ({ u with index := index, balances := AList.insert u.balances a (bal + t.value) }, d')
    match withAddr with
    | none => .trap "Cannot add the same UTXO twice into UtxosDelta"
    | some (u', d') =>
      if AList.contains u'.utxos o then .trap "Cannot insert outpoint because it was already inserted"
      else .ok { u' with utxos := (o, (t, u'.nextHeight)) :: u'.utxos } d'

inductive RoundResult where
  /-- the block was ingested completely; remaining budget -/
  | done (u : UtxoSet) (budget : Nat)
  | paused (u : UtxoSet)
  | trap (msg : String)

/-- `ingest_block_continue` for the block in `ing`, with `budget` = number of input/output
    steps `should_time_slice` still allows. `fuel` bounds the recursion (one unit per step
    or transaction boundary). -/
def ingestLoop (fuel : Nat) (u : UtxoSet) (ing : Ingesting) (budget : Nat) : RoundResult :=
  match fuel with
  | 0 => .trap "out of fuel"
  | fuel + 1 =>
    match ing.block.txs[ing.txIdx]? with
    | none =>
      -- all transactions processed
      .done { u with ingesting := none, nextHeight := u.nextHeight + 1 } budget
    | some tx =>
      if !tx.coinbase && ing.inIdx < tx.ins.length then
        -- next step: remove input `inIdx`
        if budget = 0 then .paused { u with ingesting := some { ing with outIdx := 0 } }
        else
          match tx.ins[ing.inIdx]? with
          | none => .trap "unreachable"
          | some o =>
            match removeInput u ing.delta o with
            | .trap m => .trap m
            | .ok u' d' => ingestLoop fuel u' { ing with inIdx := ing.inIdx + 1, delta := d' } (budget - 1)
      else if ing.outIdx < tx.outs.length then
        if budget = 0 then
          .paused { u with ingesting := some { ing with inIdx := tx.ins.length } }
        else
          match tx.outs[ing.outIdx]? with
          | none => .trap "unreachable"
          | some t =>
            match insertOutput u ing.delta tx.txid ing.outIdx t with
            | .trap m => .trap m
            | .ok u' d' => ingestLoop fuel u' { ing with outIdx := ing.outIdx + 1, delta := d' } (budget - 1)
      else
        ingestLoop fuel u { ing with txIdx := ing.txIdx + 1, inIdx := 0, outIdx := 0 } budget

def blockSteps (b : Block) : Nat :=
  b.txs.foldl (fun n tx => n + tx.ins.length + tx.outs.length + 1) 1

/-- `ingest_block_continue`; `none` = nothing to continue -/
def ingestContinue (u : UtxoSet) (budget : Nat) : Option RoundResult :=
  match u.ingesting with
  | none => none
  | some ing => some (ingestLoop (blockSteps ing.block + 2) { u with ingesting := none } ing budget)

/-- `ingest_block` -/
def ingestBlock (u : UtxoSet) (b : Block) (budget : Nat) : RoundResult :=
  match u.ingesting with
  | some _ => .trap "Cannot ingest new block while previous block isn't fully ingested"
  | none => ingestLoop (blockSteps b + 2) u { block := b } budget

end UtxoSet
end Btc
