import BtcModel.Lemmas.Ingest
import BtcModel.Lemmas.StableChild

/-!
  `Unstable.pop`: discarding the anchor and the siblings of the stable child keeps the caches of
  the unstable blocks exact. Tree facts (children, root paths), reference-count bookkeeping of
  `decRefs` / `removeBlocks`, and stability of `outAt` under dropping the discarded siblings.
-/
namespace Btc

open Spec

/-! ### Trees: children and root paths -/

namespace Tree
variable {α : Type}

theorem blocks_child_sublist : ∀ (cs : List (Tree α)) (i : Nat) (c : Tree α),
    cs[i]? = some c → (blocks c).Sublist (blocksList cs)
  | [], _, _, h => by simp at h
  | x :: xs, 0, c, h => by
    simp at h; subst h
    simp only [blocksList]
    exact List.sublist_append_left _ _
  | x :: xs, i + 1, c, h => by
    simp at h
    simp only [blocksList]
    exact (blocks_child_sublist xs i c h).trans (List.sublist_append_right _ _)

theorem blocksList_eraseIdx_perm : ∀ (cs : List (Tree α)) (i : Nat) (c : Tree α),
    cs[i]? = some c → (blocksList cs).Perm (blocks c ++ blocksList (cs.eraseIdx i))
  | [], _, _, h => by simp at h
  | x :: xs, 0, c, h => by
    simp at h; subst h
    simp only [blocksList, List.eraseIdx_cons_zero]
    exact List.Perm.refl _
  | x :: xs, i + 1, c, h => by
    simp at h
    simp only [blocksList, List.eraseIdx_cons_succ]
    have ih := blocksList_eraseIdx_perm xs i c h
    refine ((List.Perm.append_left (blocks x) ih)).trans ?_
    rw [← List.append_assoc, ← List.append_assoc]
    exact List.Perm.append_right _ List.perm_append_comm

mutual
theorem chainWithTip_hash (h : α → Nat) (tip : Nat) : ∀ (t : Tree α) (p s : List α),
    chainWithTip h tip t = some (p, s) → (∀ x ∈ p, x ∈ blocks t) ∧ ∃ b ∈ p, h b = tip
  | .node r cs, p, s, he => by
    simp only [chainWithTip] at he
    split at he
    · rename_i hr
      simp only [Option.some.injEq, Prod.mk.injEq] at he
      obtain ⟨rfl, _⟩ := he
      exact ⟨by simp [blocks], r, by simp, hr⟩
    · split at he
      · rename_i p' s' hc
        simp only [Option.some.injEq, Prod.mk.injEq] at he
        obtain ⟨rfl, _⟩ := he
        obtain ⟨h1, b, hb, hbt⟩ := chainWithTipList_hash h tip cs p' s' hc
        refine ⟨?_, b, List.mem_cons_of_mem _ hb, hbt⟩
        intro x hx
        simp only [blocks]
        rcases List.mem_cons.1 hx with rfl | hx
        · exact List.mem_cons_self
        · exact List.mem_cons_of_mem _ (h1 x hx)
      · cases he
theorem chainWithTipList_hash (h : α → Nat) (tip : Nat) : ∀ (cs : List (Tree α)) (p s : List α),
    chainWithTipList h tip cs = some (p, s) → (∀ x ∈ p, x ∈ blocksList cs) ∧ ∃ b ∈ p, h b = tip
  | [], _, _, he => by simp [chainWithTipList] at he
  | c :: cs, p, s, he => by
    simp only [chainWithTipList] at he
    split at he
    · rename_i x hc
      cases he
      obtain ⟨h1, h2⟩ := chainWithTip_hash h tip c p s hc
      exact ⟨fun x hx => by simp only [blocksList]; exact List.mem_append_left _ (h1 x hx), h2⟩
    · obtain ⟨h1, h2⟩ := chainWithTipList_hash h tip cs p s he
      exact ⟨fun x hx => by simp only [blocksList]; exact List.mem_append_right _ (h1 x hx), h2⟩
end

/-- no block with that hash: no path -/
theorem chainWithTip_none (h : α → Nat) (tip : Nat) (t : Tree α)
    (hno : ∀ b ∈ blocks t, h b ≠ tip) : chainWithTip h tip t = none := by
  cases hc : chainWithTip h tip t with
  | none => rfl
  | some x =>
    obtain ⟨p, s⟩ := x
    obtain ⟨h1, b, hb, hbt⟩ := chainWithTip_hash h tip t p s hc
    exact absurd hbt (hno b (h1 b hb))

/-- the search through the children finds the path in child `i` if the hash does not occur in
    the earlier children -/
theorem chainWithTipList_child (h : α → Nat) (tip : Nat) : ∀ (cs : List (Tree α)) (i : Nat)
    (c : Tree α) (x : List α × List α), cs[i]? = some c →
    (∀ j cj, j < i → cs[j]? = some cj → ∀ b ∈ blocks cj, h b ≠ tip) →
    chainWithTip h tip c = some x → chainWithTipList h tip cs = some x
  | [], _, _, _, hc, _, _ => by simp at hc
  | y :: ys, 0, c, x, hc, _, hx => by
    simp at hc; subst hc
    simp [chainWithTipList, hx]
  | y :: ys, i + 1, c, x, hc, hbefore, hx => by
    simp at hc
    have hy : chainWithTip h tip y = none :=
      chainWithTip_none h tip y (hbefore 0 y (by omega) (by simp))
    simp only [chainWithTipList, hy]
    exact chainWithTipList_child h tip ys i c x hc
      (fun j cj hj hcj => hbefore (j + 1) cj (by omega) (by simpa using hcj)) hx

mutual
/-- with pairwise distinct hashes, every block is the end of its root path -/
theorem chainWithTip_exists (h : α → Nat) : ∀ (t : Tree α), ((blocks t).map h).Nodup →
    ∀ b ∈ blocks t, ∃ p s, chainWithTip h (h b) t = some (p, s) ∧ b ∈ p
  | .node r cs, hnd, b, hb => by
    simp only [blocks, List.map_cons, List.nodup_cons] at hnd
    simp only [blocks] at hb
    simp only [chainWithTip]
    rcases List.mem_cons.1 hb with rfl | hb'
    · exact ⟨[b], rootsOf cs, by simp, by simp⟩
    · have hne : ¬ h r = h b := fun e => hnd.1 (e ▸ List.mem_map.2 ⟨b, hb', rfl⟩)
      obtain ⟨p, s, hc, hbp⟩ := chainWithTipList_exists h cs hnd.2 b hb'
      exact ⟨r :: p, s, by simp [hne, hc], List.mem_cons_of_mem _ hbp⟩
theorem chainWithTipList_exists (h : α → Nat) : ∀ (cs : List (Tree α)), ((blocksList cs).map h).Nodup →
    ∀ b ∈ blocksList cs, ∃ p s, chainWithTipList h (h b) cs = some (p, s) ∧ b ∈ p
  | [], _, _, hb => by simp [blocksList] at hb
  | c :: cs, hnd, b, hb => by
    simp only [blocksList, List.map_append, List.nodup_append] at hnd
    simp only [blocksList] at hb
    simp only [chainWithTipList]
    rcases List.mem_append.1 hb with hb' | hb'
    · obtain ⟨p, s, hc, hbp⟩ := chainWithTip_exists h c hnd.1 b hb'
      exact ⟨p, s, by simp [hc], hbp⟩
    · have hnone : chainWithTip h (h b) c = none := by
        apply chainWithTip_none
        intro b' hb'' he
        exact hnd.2.2 (h b') (List.mem_map.2 ⟨b', hb'', rfl⟩) (h b) (List.mem_map.2 ⟨b, hb', rfl⟩) he
      obtain ⟨p, s, hc, hbp⟩ := chainWithTipList_exists h cs hnd.2.1 b hb'
      exact ⟨p, s, by simp [hnone, hc], hbp⟩
end

/-- **A root path of a child, prefixed by the root, is a root path of the tree** (distinct
    hashes). -/
theorem chainWithTip_of_child (h : α → Nat) (tip : Nat) (r : α) (cs : List (Tree α)) (i : Nat)
    (c : Tree α) (p s : List α) (hnd : ((blocks (.node r cs)).map h).Nodup)
    (hc : cs[i]? = some c) (hp : chainWithTip h tip c = some (p, s)) :
    chainWithTip h tip (.node r cs) = some (r :: p, s) := by
  obtain ⟨hsub, b, hb, hbt⟩ := chainWithTip_hash h tip c p s hp
  have hbc : b ∈ blocks c := hsub b hb
  simp only [blocks, List.map_cons, List.nodup_cons] at hnd
  have hbl : b ∈ blocksList cs := (blocks_child_sublist cs i c hc).subset hbc
  have hne : ¬ h r = tip := by
    intro e
    exact hnd.1 (by rw [e, ← hbt]; exact List.mem_map.2 ⟨b, hbl, rfl⟩)
  simp only [chainWithTip, hne, if_false]
  have hbefore : ∀ j cj, j < i → cs[j]? = some cj → ∀ b' ∈ blocks cj, h b' ≠ tip := by
    intro j cj hj hcj b' hb' he
    -- b' in child j, b in child i, same hash: contradiction with distinct hashes
    have hi : i < cs.length := (List.getElem?_eq_some_iff.1 hc).1
    have hsplit : cs = cs.take i ++ c :: cs.drop (i + 1) := by
      have h1 := (List.getElem?_eq_some_iff.1 hc).2
      rw [← h1]
      simp
    have hcj' : (cs.take i)[j]? = some cj := by
      rw [List.getElem?_take]; simp [hj, hcj]
    have hb1 : b' ∈ blocksList (cs.take i) := (blocks_child_sublist _ j cj hcj').subset hb'
    rw [hsplit, blocksList_append] at hnd
    simp only [blocksList, List.map_append, List.nodup_append] at hnd
    have := hnd.2.2.2 (h b') (List.mem_map.2 ⟨b', hb1, rfl⟩) (h b)
      (List.mem_append_left _ (List.mem_map.2 ⟨b, hbc, rfl⟩))
    exact this (by rw [he, hbt])
  rw [chainWithTipList_child h tip cs i c (p, s) hc hbefore hp]

end Tree
end Btc

/-! ### Reference counts: `decRef`, `decRefs`, `removeBlocks` -/

namespace Btc
open Spec

/-- all stored counts are positive -/
def PositiveCounts (m : List (OutPoint × TxOutInfo)) : Prop :=
  ∀ o i, AList.find? m o = some i → 0 < i.count

/-- the stored count of an outpoint (`0` when absent) -/
def cntOf (m : List (OutPoint × TxOutInfo)) (o : OutPoint) : Nat :=
  match AList.find? m o with
  | none => 0
  | some i => i.count

/-- what remains of an entry after `n` decrements -/
def decEntry (e : Option TxOutInfo) (n : Nat) : Option TxOutInfo :=
  match e with
  | none => none
  | some i => if i.count ≤ n then none else some { i with count := i.count - n }

theorem decRef_spec (m : List (OutPoint × TxOutInfo)) (r : OutPoint) (i : TxOutInfo)
    (hf : AList.find? m r = some i) (hnd : (m.map (·.1)).Nodup) :
    ∃ m', decRef m r = some m' ∧ (m'.map (·.1)).Nodup ∧
      ∀ o, AList.find? m' o = if r == o then decEntry (some i) 1 else AList.find? m o := by
  unfold decRef
  rw [hf]
  by_cases hc : i.count ≤ 1
  · simp only [hc, if_true]
    refine ⟨_, rfl, AList.nodup_keys_erase _ _ hnd, ?_⟩
    intro o
    rw [AList.find?_erase]
    simp [decEntry, hc]
  · simp only [hc, if_false]
    refine ⟨_, rfl, AList.nodup_keys_insert _ _ _ hnd, ?_⟩
    intro o
    rw [AList.find?_insert]
    simp [decEntry, hc]

/-- **`decRefs` succeeds when every outpoint is referenced at most as often as its count says**,
    and then subtracts the number of occurrences from each count (dropping exhausted entries). -/
theorem decRefs_spec : ∀ (refs : List OutPoint) (m : List (OutPoint × TxOutInfo)),
    PositiveCounts m → (m.map (·.1)).Nodup → (∀ o, refs.count o ≤ cntOf m o) →
    ∃ m', decRefs m refs = some m' ∧ (m'.map (·.1)).Nodup ∧
      ∀ o, AList.find? m' o = decEntry (AList.find? m o) (refs.count o)
  | [], m, hpos, hnd, _ => by
    refine ⟨m, rfl, hnd, ?_⟩
    intro o
    cases hf : AList.find? m o with
    | none => rfl
    | some i =>
      have := hpos o i hf
      have hne : ¬ i.count ≤ 0 := by omega
      simp [decEntry, hne]
  | r :: refs, m, hpos, hnd, hle => by
    have hr := hle r
    simp only [List.count_cons_self] at hr
    cases hf : AList.find? m r with
    | none => simp [cntOf, hf] at hr
    | some i =>
      have hic : refs.count r + 1 ≤ i.count := by simpa [cntOf, hf] using hr
      obtain ⟨m1, hm1, hnd1, hfind1⟩ := decRef_spec m r i hf hnd
      have hpos1 : PositiveCounts m1 := by
        intro o j hj
        rw [hfind1] at hj
        by_cases hro : r == o
        · simp only [hro, if_true, decEntry] at hj
          split at hj
          · cases hj
          · simp only [Option.some.injEq] at hj
            subst hj
            simp only
            omega
        · simp only [hro, Bool.false_eq_true, if_false] at hj
          exact hpos o j hj
      have hle1 : ∀ o, refs.count o ≤ cntOf m1 o := by
        intro o
        have h0 := hle o
        rw [List.count_cons] at h0
        unfold cntOf at h0 ⊢
        rw [hfind1]
        by_cases hro : r == o
        · have : r = o := eq_of_beq hro
          subst this
          simp only [hf, beq_self_eq_true, if_true] at h0
          simp only [beq_self_eq_true, if_true, decEntry]
          by_cases h1 : i.count ≤ 1
          · simp only [h1, if_true]; omega
          · simp only [h1, if_false]; omega
        · simp only [hro, Bool.false_eq_true, if_false, Nat.add_zero] at h0 ⊢
          exact h0
      obtain ⟨m', hm', hnd', hfind'⟩ := decRefs_spec refs m1 hpos1 hnd1 hle1
      refine ⟨m', by simp only [decRefs, hm1, hm'], hnd', ?_⟩
      intro o
      rw [hfind', hfind1, List.count_cons]
      by_cases hro : r == o
      · have : r = o := eq_of_beq hro
        subst this
        simp only [beq_self_eq_true, if_true, hf, decEntry]
        by_cases h1 : i.count ≤ 1
        · have h2 : i.count ≤ refs.count r + 1 := by omega
          simp [h1, h2]
        · simp only [h1, if_false]
          by_cases h2 : i.count - 1 ≤ refs.count r
          · have h3 : i.count ≤ refs.count r + 1 := by omega
            simp [h2, h3]
          · have h3 : ¬ i.count ≤ refs.count r + 1 := by omega
            simp only [h2, h3, if_false, Option.some.injEq]
            congr 1
            omega
      · simp [hro]

theorem decRefs_append (m : List (OutPoint × TxOutInfo)) (a b : List OutPoint) :
    decRefs m (a ++ b) = (decRefs m a).bind (fun m' => decRefs m' b) := by
  induction a generalizing m with
  | nil => simp [decRefs]
  | cons x xs ih =>
    simp only [List.cons_append, decRefs]
    cases decRef m x with
    | none => simp
    | some m1 => simp [ih]

/-- all outpoints referenced by a list of cached blocks, in the order `removeBlocks` visits them -/
def refsOf (D : List CBlock) : List OutPoint := D.flatMap (fun b => blockRefs b.blk)

/-- erase the entries of all of `D`'s hashes -/
def eraseHashes {ν : Type} (m : List (Nat × ν)) (D : List CBlock) : List (Nat × ν) :=
  D.foldl (fun acc b => AList.erase acc b.blk.hash) m

theorem removeBlocks_eq : ∀ (D : List CBlock) (c : OutPointsCache),
    Unstable.removeBlocks c D = (decRefs c.txOuts (refsOf D)).map (fun m =>
      { txOuts := m, added := eraseHashes c.added D, removed := eraseHashes c.removed D })
  | [], c => by simp [Unstable.removeBlocks, refsOf, decRefs, eraseHashes]
  | b :: bs, c => by
    simp only [Unstable.removeBlocks, OutPointsCache.remove, refsOf, List.flatMap_cons,
      decRefs_append]
    cases decRefs c.txOuts (blockRefs b.blk) with
    | none => simp
    | some m1 =>
      simp only [Option.bind_some]
      rw [removeBlocks_eq bs]
      simp [refsOf, eraseHashes]

theorem find?_eraseHashes {ν : Type} : ∀ (D : List CBlock) (m : List (Nat × ν)) (k : Nat),
    AList.find? (eraseHashes m D) k =
      if k ∈ D.map CBlock.hash then none else AList.find? m k
  | [], m, k => by simp [eraseHashes]
  | b :: bs, m, k => by
    have ih := find?_eraseHashes bs (AList.erase m b.blk.hash) k
    simp only [eraseHashes, List.foldl_cons] at ih ⊢
    rw [ih, AList.find?_erase]
    simp only [List.map_cons, List.mem_cons]
    by_cases h1 : k ∈ bs.map CBlock.hash
    · rw [if_pos h1, if_pos (Or.inr h1)]
    · rw [if_neg h1]
      by_cases h2 : b.blk.hash = k
      · rw [if_pos (Or.inl (show k = b.hash from h2.symm))]; simp [h2]
      · have h3 : ¬ (k = b.hash ∨ k ∈ bs.map CBlock.hash) := by
          rintro (h | h)
          · exact h2 h.symm
          · exact h1 h
        rw [if_neg h3]; simp [h2]

end Btc

/-! ### `outAt` does not depend on discarded blocks -/

namespace Btc
open Spec

theorem outAt_stable (hist hist' : List Block) (o : OutPoint) (hcons : TxidsConsistent hist)
    (hsub : ∀ tx ∈ txsOf hist', tx ∈ txsOf hist) (hex : ∃ tx ∈ txsOf hist', tx.txid = o.txid) :
    outAt hist' o = outAt hist o := by
  obtain ⟨tx, htx, hid⟩ := hex
  unfold outAt
  cases h1 : (txsOf hist').find? (fun tx => tx.txid == o.txid) with
  | none =>
    exfalso
    have := List.find?_eq_none.1 h1 tx htx
    simp [hid] at this
  | some t1 =>
    cases h2 : (txsOf hist).find? (fun tx => tx.txid == o.txid) with
    | none =>
      exfalso
      have := List.find?_eq_none.1 h2 tx (hsub tx htx)
      simp [hid] at this
    | some t2 =>
      have e1 : t1.txid = o.txid := by simpa using List.find?_some h1
      have e2 : t2.txid = o.txid := by simpa using List.find?_some h2
      have : t1 = t2 := hcons t1 (hsub _ (List.mem_of_find?_eq_some h1)) t2
        (List.mem_of_find?_eq_some h2) (by rw [e1, e2])
      subst this
      rfl

theorem removedSpec_congr (h1 h2 : List Block) (b : Block) (a : Addr)
    (hc : ∀ tx ∈ b.txs, ∀ o ∈ tx.ins, outAt h1 o = outAt h2 o) :
    removedSpec h1 b a = removedSpec h2 b a := by
  unfold removedSpec
  suffices h : ∀ txs : List Tx, (∀ tx ∈ txs, ∀ o ∈ tx.ins, outAt h1 o = outAt h2 o) →
      txs.flatMap (fun tx => tx.ins.filter (fun o => ((outAt h1 o).bind (·.addr)) == some a)) =
      txs.flatMap (fun tx => tx.ins.filter (fun o => ((outAt h2 o).bind (·.addr)) == some a)) from
    h b.txs hc
  intro txs
  induction txs with
  | nil => intro _; rfl
  | cons tx txs ih =>
    intro hc
    simp only [List.flatMap_cons]
    rw [ih (fun tx' h' => hc tx' (List.mem_cons_of_mem _ h'))]
    congr 1
    apply List.filter_congr
    intro o ho
    rw [hc tx List.mem_cons_self o ho]

theorem mem_blockRefs (b : Block) (o : OutPoint) :
    o ∈ blockRefs b ↔ ∃ tx ∈ b.txs, o ∈ tx.ins ∨ (o.txid = tx.txid ∧ o.vout < tx.outs.length) := by
  unfold blockRefs
  simp only [List.mem_flatMap, List.mem_append, List.mem_map, List.mem_range]
  constructor
  · rintro ⟨tx, htx, h | ⟨i, hi, rfl⟩⟩
    · exact ⟨tx, htx, Or.inl h⟩
    · exact ⟨tx, htx, Or.inr ⟨rfl, hi⟩⟩
  · rintro ⟨tx, htx, h | ⟨h1, h2⟩⟩
    · exact ⟨tx, htx, Or.inl h⟩
    · refine ⟨tx, htx, Or.inr ⟨o.vout, h2, ?_⟩⟩
      cases o; simp_all

theorem refCount_eq (t : Tree CBlock) (o : OutPoint) : refCount t o = (refsOf t.blocks).count o := rfl

/-- the reference count of the tree splits into the stable child's and the discarded blocks' -/
theorem refCount_split (r : CBlock) (cs : List (Tree CBlock)) (idx : Nat) (child : Tree CBlock)
    (hchild : cs[idx]? = some child) (o : OutPoint) :
    refCount (.node r cs) o =
      refCount child o + (refsOf (Tree.node r (cs.eraseIdx idx)).blocks).count o := by
  rw [refCount_eq, refCount_eq]
  have hperm : ((Tree.node r cs).blocks).Perm
      (child.blocks ++ (Tree.node r (cs.eraseIdx idx)).blocks) := by
    simp only [Tree.blocks]
    exact ((Tree.blocksList_eraseIdx_perm cs idx child hchild).cons r).trans List.perm_middle.symm
  have : (refsOf (Tree.node r cs).blocks).Perm
      (refsOf (child.blocks ++ (Tree.node r (cs.eraseIdx idx)).blocks)) :=
    List.Perm.flatMap_right _ hperm
  rw [this.count_eq]
  simp [refsOf, List.count_append]

/-! ### `pop` keeps the caches exact -/

/-- Everything `pop` needs from the invariant, for the unstable part only. -/
structure PopPre (u : Unstable) (G : List Block) : Prop where
  hashesNodup : ((G ++ u.tree.blocks.map (·.blk)).map (·.hash)).Nodup
  caches : CachesExact u (G ++ u.tree.blocks.map (·.blk))
  txids : TxidsConsistent (G ++ u.tree.blocks.map (·.blk))
  valid : ∀ tip p, pathBlocks u.tree tip = some p → TxValid (G ++ p)

theorem pathBlocks_of_child (r : CBlock) (cs : List (Tree CBlock)) (i : Nat) (c : Tree CBlock)
    (tip : Nat) (p : List Block)
    (hnd : (((Tree.node r cs).blocks).map CBlock.hash).Nodup) (hc : cs[i]? = some c)
    (hp : pathBlocks c tip = some p) : pathBlocks (.node r cs) tip = some (r.blk :: p) := by
  unfold pathBlocks at hp ⊢
  cases hcw : Tree.chainWithTip CBlock.hash tip c with
  | none => rw [hcw] at hp; cases hp
  | some x =>
    obtain ⟨p', s⟩ := x
    rw [hcw] at hp
    simp only [Option.map_some, Option.some.injEq] at hp
    rw [Tree.chainWithTip_of_child CBlock.hash tip r cs i c p' s hnd hc hcw]
    simp [← hp]

theorem pop_caches (bound : Unstable.BoundFn) (u : Unstable) (G : List Block) (sh : Nat)
    (r : CBlock) (cs : List (Tree CBlock)) (idx : Nat) (child : Tree CBlock)
    (htree : u.tree = .node r cs) (hidx : Unstable.stableChildIdx bound u = some idx)
    (hchild : cs[idx]? = some child) (hpre : PopPre u G) :
    ∃ u', Unstable.pop bound u sh = .ok u' r.blk ∧ u'.tree = child ∧ u'.thr = u.thr ∧
      u'.net = u.net ∧
      CachesExact u' ((G ++ [r.blk]) ++ child.blocks.map (·.blk)) := by
  obtain ⟨hnd, hC, hcons, hvalid⟩ := hpre
  rw [htree] at hnd hC hcons hvalid
  -- notation
  let D : List CBlock := (Tree.node r (cs.eraseIdx idx)).blocks
  have hDdef : D = r :: Tree.blocksList (cs.eraseIdx idx) := rfl
  have hT : (Tree.node r cs).blocks = r :: Tree.blocksList cs := rfl
  -- the tree's blocks are the child's plus the discarded ones
  have hperm : ((Tree.node r cs).blocks).Perm (child.blocks ++ D) := by
    rw [hT, hDdef]
    exact ((Tree.blocksList_eraseIdx_perm cs idx child hchild).cons r).trans List.perm_middle.symm
  have hTnd : (((Tree.node r cs).blocks).map CBlock.hash).Nodup := by
    rw [List.map_append, List.nodup_append] at hnd
    have := hnd.2.1
    rw [List.map_map] at this
    exact this
  have hCDnd : ((child.blocks ++ D).map CBlock.hash).Nodup :=
    ((hperm.map CBlock.hash).nodup_iff).1 hTnd
  rw [List.map_append, List.nodup_append] at hCDnd
  have hchildT : ∀ b ∈ child.blocks, b ∈ (Tree.node r cs).blocks :=
    fun b hb => hperm.mem_iff.2 (List.mem_append_left _ hb)
  have hnotD : ∀ b ∈ child.blocks, b.hash ∉ D.map CBlock.hash := by
    intro b hb hm
    exact hCDnd.2.2 b.hash (List.mem_map.2 ⟨b, hb, rfl⟩) b.hash hm rfl
  have hmemT : ∀ h, h ∈ ((Tree.node r cs).blocks).map CBlock.hash ↔
      h ∈ child.blocks.map CBlock.hash ∨ h ∈ D.map CBlock.hash := by
    intro h
    rw [(hperm.map CBlock.hash).mem_iff, List.map_append, List.mem_append]
  have hkeys : ∀ h, (h ∉ D.map CBlock.hash ∧ h ∈ ((Tree.node r cs).blocks).map CBlock.hash) ↔
      h ∈ child.blocks.map CBlock.hash := by
    intro h
    rw [hmemT]
    constructor
    · rintro ⟨h1, h2 | h2⟩
      · exact h2
      · exact absurd h2 h1
    · intro h1
      exact ⟨fun h2 => hCDnd.2.2 h h1 h h2 rfl, Or.inl h1⟩
  -- reference counts
  have hcount : ∀ o, refCount (Tree.node r cs) o = refCount child o + (refsOf D).count o := by
    intro o
    rw [refCount_eq, refCount_eq]
    have : (refsOf (Tree.node r cs).blocks).Perm (refsOf (child.blocks ++ D)) :=
      List.Perm.flatMap_right _ hperm
    rw [this.count_eq]
    simp [refsOf, List.count_append]
  have htxo := hC.txOuts
  rw [htree] at htxo
  have hpos : PositiveCounts u.cache.txOuts := by
    intro o i hf
    have := htxo o
    rw [hf] at this
    exact this.2.1
  have hle : ∀ o, (refsOf D).count o ≤ cntOf u.cache.txOuts o := by
    intro o
    have h1 := htxo o
    have h2 := hcount o
    unfold cntOf
    cases hf : AList.find? u.cache.txOuts o with
    | none => rw [hf] at h1; simp only at h1 ⊢; omega
    | some i => rw [hf] at h1; simp only at h1 ⊢; omega
  obtain ⟨m', hm', hnd', hfind'⟩ := decRefs_spec (refsOf D) u.cache.txOuts hpos hC.txOutsNodup hle
  have hrem : Unstable.removeBlocks u.cache D = some
      { txOuts := m', added := eraseHashes u.cache.added D, removed := eraseHashes u.cache.removed D } := by
    rw [removeBlocks_eq, hm']; rfl
  -- block cache
  have hbc := hC.blockCache
  rw [htree] at hbc
  have hall : (D.map CBlock.hash).all (fun h => u.blockCache.contains h) = true := by
    rw [List.all_eq_true]
    intro h hh
    rw [hbc]
    exact List.contains_iff_mem.2 ((hmemT h).2 (Or.inr hh))
  refine ⟨{ u with tree := child,
                   cache := { txOuts := m', added := eraseHashes u.cache.added D,
                              removed := eraseHashes u.cache.removed D },
                   next := u.next.removeUntil sh,
                   tipDepthsCache := child.tipDepths,
                   blockCache := u.blockCache.filter (fun h => !((D.map CBlock.hash).contains h)) },
    ?_, rfl, rfl, rfl, ?_⟩
  · unfold Unstable.pop
    rw [hidx]
    simp only
    rw [htree]
    simp only [hchild]
    have hrem' : Unstable.removeBlocks u.cache (Tree.node r (cs.eraseIdx idx)).blocks = some
      { txOuts := m', added := eraseHashes u.cache.added D, removed := eraseHashes u.cache.removed D } := hrem
    rw [hrem']
    simp only
    have hall' : (List.map CBlock.hash (Tree.node r (cs.eraseIdx idx)).blocks).all
        (fun h => u.blockCache.contains h) = true := hall
    rw [hall']
    simp only [Bool.not_true, Bool.false_eq_true, if_false]
    rfl
  · -- exactness of the caches of the new state
    have hblocks' : ∀ B, B ∈ (G ++ [r.blk]) ++ child.blocks.map (·.blk) →
        B ∈ G ++ (Tree.node r cs).blocks.map (·.blk) := by
      intro B hB
      simp only [List.mem_append, List.mem_singleton, List.mem_map] at hB ⊢
      rcases hB with (hB | hB) | ⟨b, hb, rfl⟩
      · exact Or.inl hB
      · exact Or.inr ⟨r, by simp [hT], hB.symm⟩
      · exact Or.inr ⟨b, hchildT b hb, rfl⟩
    have hsub : ∀ tx ∈ txsOf ((G ++ [r.blk]) ++ child.blocks.map (·.blk)),
        tx ∈ txsOf (G ++ (Tree.node r cs).blocks.map (·.blk)) := by
      intro tx htx
      rw [mem_txsOf] at htx ⊢
      obtain ⟨B, hB, h⟩ := htx
      exact ⟨B, hblocks' B hB, h⟩
    -- outpoints referenced by a block of the child resolve identically
    have hres : ∀ B ∈ child.blocks, ∀ o ∈ blockRefs B.blk,
        outAt ((G ++ [r.blk]) ++ child.blocks.map (·.blk)) o =
          outAt (G ++ (Tree.node r cs).blocks.map (·.blk)) o := by
      intro B hB o ho
      apply outAt_stable _ _ o hcons hsub
      obtain ⟨tx, htx, h | h⟩ := (mem_blockRefs B.blk o).1 ho
      · -- an input: created on the root path of `B`
        have hcnd : ((child.blocks).map CBlock.hash).Nodup := hCDnd.1
        obtain ⟨p', s, hcw, hBp⟩ := Tree.chainWithTip_exists CBlock.hash child hcnd B hB
        have hpb : pathBlocks child (CBlock.hash B) = some (p'.map (·.blk)) := by
          simp [pathBlocks, hcw]
        have hpb' := pathBlocks_of_child r cs idx child _ _ hTnd hchild hpb
        have hv := hvalid _ _ hpb'
        obtain ⟨tx', htx', hid⟩ := TxValid_input_source _ hv B.blk
          (List.mem_append_right _ (List.mem_cons_of_mem _ (List.mem_map.2 ⟨B, hBp, rfl⟩))) tx htx o h
        refine ⟨tx', ?_, hid⟩
        rw [mem_txsOf] at htx' ⊢
        obtain ⟨B', hB', h'⟩ := htx'
        refine ⟨B', ?_, h'⟩
        simp only [List.mem_append, List.mem_cons, List.mem_map,
          List.not_mem_nil, or_false] at hB' ⊢
        rcases hB' with hB' | hB' | ⟨b, hb, rfl⟩
        · exact Or.inl (Or.inl hB')
        · exact Or.inl (Or.inr hB')
        · exact Or.inr ⟨b, (Tree.chainWithTip_hash CBlock.hash _ child p' s hcw).1 b hb, rfl⟩
      · -- an output: created by `B` itself
        refine ⟨tx, ?_, h.1.symm⟩
        rw [mem_txsOf]
        exact ⟨B.blk, List.mem_append_right _ (List.mem_map.2 ⟨B, hB, rfl⟩), htx⟩
    have hadded := hC.added
    have hremoved := hC.removed
    have haddedK := hC.addedKeys
    have hremovedK := hC.removedKeys
    rw [htree] at hadded hremoved haddedK hremovedK
    refine ⟨?_, ?_, ?_, ?_, hnd', ?_, ?_, rfl⟩
    · intro b hb a
      have h1 := hadded b (hchildT b hb) a
      rw [← h1]
      simp only [OutPointsCache.getAdded]
      rw [find?_eraseHashes, if_neg (hnotD b hb)]
    · intro b hb a
      have h1 := hremoved b (hchildT b hb) a
      rw [removedSpec_congr _ (G ++ (Tree.node r cs).blocks.map (·.blk)) b.blk a, ← h1]
      · simp only [OutPointsCache.getRemoved]
        rw [find?_eraseHashes, if_neg (hnotD b hb)]
      · intro tx htx o ho
        apply hres b hb o
        rw [mem_blockRefs]
        exact ⟨tx, htx, Or.inl ho⟩
    · intro h
      have h1 := haddedK h
      simp only [AList.contains] at h1 ⊢
      rw [find?_eraseHashes]
      rw [Bool.eq_iff_iff, List.contains_iff_mem, ← hkeys h]
      rw [Bool.eq_iff_iff, List.contains_iff_mem] at h1
      by_cases hd : h ∈ D.map CBlock.hash
      · simp [hd]
      · simp only [hd, if_false, not_false_eq_true, true_and]
        exact h1
    · intro h
      have h1 := hremovedK h
      simp only [AList.contains] at h1 ⊢
      rw [find?_eraseHashes]
      rw [Bool.eq_iff_iff, List.contains_iff_mem, ← hkeys h]
      rw [Bool.eq_iff_iff, List.contains_iff_mem] at h1
      by_cases hd : h ∈ D.map CBlock.hash
      · simp [hd]
      · simp only [hd, if_false, not_false_eq_true, true_and]
        exact h1
    · intro o
      have h1 := htxo o
      have h2 := hcount o
      have h3 := hfind' o
      show match AList.find? m' o with
        | none => refCount child o = 0
        | some info => refCount child o = info.count ∧ 0 < info.count ∧
            outAt ((G ++ [r.blk]) ++ child.blocks.map (·.blk)) o = some info.txout
      cases hf : AList.find? u.cache.txOuts o with
      | none =>
        rw [hf] at h1 h3
        simp only [decEntry] at h3
        rw [h3]
        simp only at h1 ⊢
        omega
      | some info =>
        rw [hf] at h1 h3
        simp only [decEntry] at h3
        simp only at h1
        by_cases hc : info.count ≤ (refsOf D).count o
        · simp only [hc, if_true] at h3
          rw [h3]
          simp only
          omega
        · simp only [hc, if_false] at h3
          rw [h3]
          simp only
          refine ⟨by omega, by omega, ?_⟩
          rw [← h1.2.2]
          have hposc : 0 < (refsOf child.blocks).count o := by
            rw [← refCount_eq]; omega
          have hmem : o ∈ refsOf child.blocks := List.count_pos_iff.1 hposc
          obtain ⟨B, hB, hoB⟩ := List.mem_flatMap.1 hmem
          exact hres B hB o hoB
    · intro h
      have h1 := hbc h
      show (u.blockCache.filter (fun h => !((D.map CBlock.hash).contains h))).contains h = _
      rw [Bool.eq_iff_iff, List.contains_iff_mem, List.contains_iff_mem, List.mem_filter, ← hkeys h]
      rw [Bool.eq_iff_iff, List.contains_iff_mem, List.contains_iff_mem] at h1
      rw [h1]
      simp only [Bool.not_eq_true', List.contains_eq_mem, decide_eq_false_iff_not]
      exact And.comm

end Btc
