import BtcModel.Lemmas.MainChain

/-! Helper lemmas for C04: `block_hashes_with_depths_by_heights` (`Tree.levels`) lists, per
    relative height, exactly the subtrees of the specification (`Spec.subtreesAt`), and
    `get_stability_count` is "own depth minus the deepest competitor". -/
namespace Btc
open Tree Spec

variable {α : Type}

/-! ### `zipLevels` -/

theorem zipLevels_nil_right {β : Type} (xs : List (List β)) : zipLevels xs [] = xs := by
  cases xs <;> rfl

theorem zipLevels_getD {β : Type} (xs ys : List (List β)) (i : Nat) :
    (zipLevels xs ys).getD i [] = xs.getD i [] ++ ys.getD i [] := by
  induction xs generalizing ys i with
  | nil => simp [zipLevels]
  | cons x xs ih =>
    cases ys with
    | nil => simp [zipLevels]
    | cons y ys =>
      cases i with
      | zero => simp [zipLevels]
      | succ i =>
        simp only [zipLevels, List.getD_cons_succ]
        exact ih ys i

/-! ### `subtreesAt` -/

mutual
theorem subtreesAt_height_ge : ∀ (t : Tree α) (k : Nat), ∀ p ∈ subtreesAt t k, k ≤ p.1
  | .node r cs, k => by
    intro p hp
    simp only [subtreesAt, List.mem_cons] at hp
    rcases hp with rfl | hp
    · exact Nat.le_refl _
    · have := subtreesAtList_height_ge cs (k + 1) p hp
      omega
theorem subtreesAtList_height_ge : ∀ (cs : List (Tree α)) (k : Nat), ∀ p ∈ subtreesAtList cs k, k ≤ p.1
  | [], _ => by simp [subtreesAtList]
  | c :: cs, k => by
    intro p hp
    simp only [subtreesAtList, List.mem_append] at hp
    rcases hp with hp | hp
    · exact subtreesAt_height_ge c k p hp
    · exact subtreesAtList_height_ge cs k p hp
end

mutual
/-- the roots of all subtrees, in order, are the blocks of the tree -/
theorem subtreesAt_roots : ∀ (t : Tree α) (k : Nat),
    (subtreesAt t k).map (fun p => p.2.root) = t.blocks
  | .node r cs, k => by
    simp only [subtreesAt, List.map_cons, blocks]
    rw [subtreesAtList_roots cs (k + 1)]
    rfl
theorem subtreesAtList_roots : ∀ (cs : List (Tree α)) (k : Nat),
    (subtreesAtList cs k).map (fun p => p.2.root) = blocksList cs
  | [], _ => by simp [subtreesAtList, blocksList]
  | c :: cs, k => by
    simp only [subtreesAtList, List.map_append, blocksList]
    rw [subtreesAt_roots c k, subtreesAtList_roots cs k]
end

/-- The `(hash, depth)` pairs of the subtrees of `t` whose height relative to the root is `i`,
    in DFS pre-order: the specification-side description of one level. -/
def specLevel (h : α → Nat) (t : Tree α) (i : Nat) : List (Nat × Nat) :=
  ((subtreesAt t 0).filter (fun p => p.1 == i)).map (fun p => (h p.2.root, p.2.depth))

mutual
theorem levels_getD_offset : ∀ (h : α → Nat) (t : Tree α) (k i : Nat),
    (levels h t).getD i [] =
      ((subtreesAt t k).filter (fun p => p.1 == i + k)).map (fun p => (h p.2.root, p.2.depth))
  | h, .node r cs, k, i => by
    cases i with
    | zero =>
      have hnone : (subtreesAtList cs (k + 1)).filter (fun p => p.1 == 0 + k) = [] := by
        rw [List.filter_eq_nil_iff]
        intro p hp
        have := subtreesAtList_height_ge cs (k + 1) p hp
        simp only [beq_iff_eq]
        omega
      simp only [levels, subtreesAt, List.getD_cons_zero]
      rw [List.filter_cons_of_pos (by simp), hnone]
      simp [Tree.root, depth]
    | succ i =>
      simp only [levels, subtreesAt, List.getD_cons_succ]
      rw [List.filter_cons_of_neg (by simp only [beq_iff_eq]; omega)]
      rw [levelsList_getD_offset h cs (k + 1) i]
      have : i + (k + 1) = i + 1 + k := by omega
      rw [this]
theorem levelsList_getD_offset : ∀ (h : α → Nat) (cs : List (Tree α)) (k i : Nat),
    (levelsList h cs).getD i [] =
      ((subtreesAtList cs k).filter (fun p => p.1 == i + k)).map (fun p => (h p.2.root, p.2.depth))
  | h, [], k, i => by simp [levelsList, subtreesAtList]
  | h, c :: cs, k, i => by
    simp only [levelsList, subtreesAtList, zipLevels_getD, List.filter_append, List.map_append]
    rw [levels_getD_offset h c k i, levelsList_getD_offset h cs k i]
end

/-- **Characterisation of `levels`** (even as lists, not just up to permutation): the level at
    relative height `i` consists of the `(hash, depth)` pairs of the subtrees at height `i`. -/
theorem levels_getD (h : α → Nat) (t : Tree α) (i : Nat) :
    (levels h t).getD i [] = specLevel h t i :=
  levels_getD_offset h t 0 i

theorem levels_getD_perm (h : α → Nat) (t : Tree α) (i : Nat) :
    ((levels h t).getD i []).Perm
      (((subtreesAt t 0).filter (fun p => p.1 == i)).map (fun p => (h p.2.root, p.2.depth))) := by
  rw [levels_getD]; exact List.Perm.refl _

/-- hashes on one level are pairwise distinct if all block hashes of the tree are -/
theorem specLevel_nodup (h : α → Nat) (t : Tree α) (i : Nat) (hnd : (t.blocks.map h).Nodup) :
    ((specLevel h t i).map (·.1)).Nodup := by
  have hsub : ((specLevel h t i).map (·.1)).Sublist (t.blocks.map h) := by
    rw [← subtreesAt_roots t 0]
    simp only [specLevel, List.map_map]
    exact List.Sublist.map _ List.filter_sublist
  exact hsub.nodup hnd

/-! ### `stabilityCount` -/

/-- the fold computing the deepest competitor -/
def maxOther (lv : List (Nat × Nat)) (x : Nat) : Nat :=
  lv.foldl (fun m p => if p.1 ≠ x then max m p.2 else m) 0

/-- the fold computing the target's own depth -/
def ownDepth (lv : List (Nat × Nat)) (x : Nat) : Nat :=
  lv.foldl (fun m p => if p.1 ≠ x then m else p.2) 0

/-- (the model's folds are elaborated over `Int`; they are the casts of the `Nat` folds) -/
theorem ownDepth_cast (lv : List (Nat × Nat)) (x a : Nat) :
    lv.foldl (fun (m : Int) p => if p.1 ≠ x then m else (p.2 : Int)) (a : Int) =
      ((lv.foldl (fun m p => if p.1 ≠ x then m else p.2) a : Nat) : Int) := by
  induction lv generalizing a with
  | nil => rfl
  | cons q qs ih =>
    simp only [List.foldl_cons]
    by_cases hq : q.1 ≠ x
    · rw [if_pos hq, if_pos hq]; exact ih a
    · rw [if_neg hq, if_neg hq]; exact ih q.2

theorem maxOther_cast (lv : List (Nat × Nat)) (x a : Nat) :
    lv.foldl (fun (m : Int) p => if p.1 ≠ x then max m (p.2 : Int) else m) (a : Int) =
      ((lv.foldl (fun m p => if p.1 ≠ x then max m p.2 else m) a : Nat) : Int) := by
  induction lv generalizing a with
  | nil => rfl
  | cons q qs ih =>
    simp only [List.foldl_cons]
    by_cases hq : q.1 ≠ x
    · rw [if_pos hq, if_pos hq]
      have : max (a : Int) (q.2 : Int) = ((max a q.2 : Nat) : Int) := by omega
      rw [this]; exact ih _
    · rw [if_neg hq, if_neg hq]; exact ih a

theorem stabilityCount_eq_sub (lv : List (Nat × Nat)) (x : Nat) :
    stabilityCount lv x = (ownDepth lv x : Int) - (maxOther lv x : Int) := by
  have h1 := ownDepth_cast lv x 0
  have h2 := maxOther_cast lv x 0
  simp only [stabilityCount, ownDepth, maxOther]
  simp only [Int.natCast_zero] at h1 h2
  rw [h1, h2]

theorem maxOther_fold_init (lv : List (Nat × Nat)) (x a : Nat) :
    lv.foldl (fun m p => if p.1 ≠ x then max m p.2 else m) a = max a (maxOther lv x) := by
  unfold maxOther
  induction lv generalizing a with
  | nil => simp
  | cons p ps ih =>
    simp only [List.foldl_cons]
    rw [ih, ih (if p.1 ≠ x then max 0 p.2 else 0)]
    split <;> omega

theorem maxOther_cons (p : Nat × Nat) (ps : List (Nat × Nat)) (x : Nat) :
    maxOther (p :: ps) x = if p.1 ≠ x then max p.2 (maxOther ps x) else maxOther ps x := by
  show List.foldl _ 0 (p :: ps) = _
  simp only [List.foldl_cons]
  rw [maxOther_fold_init]
  split <;> omega

/-- `maxOther` is an upper bound of the competitors' depths ... -/
theorem maxOther_ge (lv : List (Nat × Nat)) (x : Nat) :
    ∀ p ∈ lv, p.1 ≠ x → p.2 ≤ maxOther lv x := by
  induction lv with
  | nil => simp
  | cons q qs ih =>
    intro p hp hne
    rw [maxOther_cons]
    rcases List.mem_cons.mp hp with rfl | hp
    · rw [if_pos hne]; omega
    · have := ih p hp hne
      split <;> omega

/-- ... and it is attained (or `0` when there is no competitor) -/
theorem maxOther_attained (lv : List (Nat × Nat)) (x : Nat) :
    maxOther lv x = 0 ∨ ∃ p ∈ lv, p.1 ≠ x ∧ p.2 = maxOther lv x := by
  induction lv with
  | nil => left; rfl
  | cons q qs ih =>
    rw [maxOther_cons]
    by_cases hq : q.1 ≠ x
    · rw [if_pos hq]
      by_cases hle : maxOther qs x ≤ q.2
      · right; exact ⟨q, List.mem_cons_self, hq, by omega⟩
      · rcases ih with h0 | ⟨p, hp, hne, he⟩
        · omega
        · right; exact ⟨p, List.mem_cons_of_mem _ hp, hne, by omega⟩
    · rw [if_neg hq]
      rcases ih with h0 | ⟨p, hp, hne, he⟩
      · left; exact h0
      · right; exact ⟨p, List.mem_cons_of_mem _ hp, hne, he⟩

theorem maxOther_le_iff (lv : List (Nat × Nat)) (x n : Nat) :
    maxOther lv x ≤ n ↔ ∀ p ∈ lv, p.1 ≠ x → p.2 ≤ n := by
  constructor
  · intro h p hp hne
    have := maxOther_ge lv x p hp hne
    omega
  · intro h
    rcases maxOther_attained lv x with h0 | ⟨p, hp, hne, he⟩
    · omega
    · have := h p hp hne
      omega

theorem ownDepth_fold (lv : List (Nat × Nat)) (x dx a : Nat)
    (hall : ∀ p ∈ lv, p.1 = x → p.2 = dx) :
    lv.foldl (fun m p => if p.1 ≠ x then m else p.2) a = a ∨
    lv.foldl (fun m p => if p.1 ≠ x then m else p.2) a = dx := by
  induction lv generalizing a with
  | nil => left; rfl
  | cons q qs ih =>
    simp only [List.foldl_cons]
    have hall' : ∀ p ∈ qs, p.1 = x → p.2 = dx := fun p hp => hall p (List.mem_cons_of_mem _ hp)
    by_cases hq : q.1 ≠ x
    · rw [if_pos hq]; exact ih a hall'
    · rw [if_neg hq]
      have hqd : q.2 = dx := hall q List.mem_cons_self (by simpa using hq)
      rw [hqd]
      rcases ih dx hall' with h | h <;> (right; exact h)

/-- if every entry carrying hash `x` has depth `dx` and there is one, the own-depth fold
    returns `dx` whatever the initial value -/
theorem ownDepth_fold_mem (lv : List (Nat × Nat)) (x dx a : Nat)
    (hall : ∀ p ∈ lv, p.1 = x → p.2 = dx) (hmem : (x, dx) ∈ lv) :
    lv.foldl (fun m p => if p.1 ≠ x then m else p.2) a = dx := by
  induction lv generalizing a with
  | nil => simp at hmem
  | cons q qs ih =>
    simp only [List.foldl_cons]
    have hall' : ∀ p ∈ qs, p.1 = x → p.2 = dx := fun p hp => hall p (List.mem_cons_of_mem _ hp)
    rcases List.mem_cons.mp hmem with rfl | hm
    · simp only [ne_eq, not_true_eq_false, if_false]
      rcases ownDepth_fold qs x dx dx hall' with h | h <;> exact h
    · exact ih _ hall' hm

theorem ownDepth_of_not_mem (lv : List (Nat × Nat)) (x : Nat) (hno : ∀ p ∈ lv, p.1 ≠ x) :
    ownDepth lv x = 0 := by
  unfold ownDepth
  induction lv with
  | nil => rfl
  | cons q qs ih =>
    simp only [List.foldl_cons]
    rw [if_pos (hno q List.mem_cons_self)]
    exact ih (fun p hp => hno p (List.mem_cons_of_mem _ hp))

/-- with pairwise distinct hashes, the entry with hash `x` is unique -/
theorem nodup_fst_unique (lv : List (Nat × Nat)) (x dx : Nat)
    (hnd : (lv.map (·.1)).Nodup) (hmem : (x, dx) ∈ lv) :
    ∀ p ∈ lv, p.1 = x → p.2 = dx := by
  induction lv with
  | nil => simp at hmem
  | cons q qs ih =>
    simp only [List.map_cons, List.nodup_cons, List.mem_map, not_exists, not_and] at hnd
    intro p hp hpx
    rcases List.mem_cons.mp hmem with hq | hm
    · rcases List.mem_cons.mp hp with rfl | hp'
      · rw [← hq]
      · exact absurd (by rw [hpx, ← hq]) (hnd.1 p hp')
    · rcases List.mem_cons.mp hp with rfl | hp'
      · exact absurd (by rw [hpx]) (hnd.1 (x, dx) hm)
      · exact ih hnd.2 hm p hp' hpx

/-! ### One level of the specification, as a function of the `(hash, depth)` pairs -/

/-- `Spec.sufficientlyBuried` re-expressed on a level of `(hash, depth)` pairs -/
def buriedLv (c : Nat) (lv : List (Nat × Nat)) (x : Nat) : Bool :=
  match lv.find? (fun p => p.1 == x) with
  | none => false
  | some me => me.2 ≥ c && lv.all (fun p => p.1 == x || me.2 ≥ p.2 + c)

theorem sufficientlyBuried_eq_buriedLv (h : α → Nat) (t : Tree α) (c i x : Nat) :
    sufficientlyBuried h t c i x = buriedLv c (specLevel h t i) x := by
  unfold sufficientlyBuried buriedLv specLevel
  simp only [List.find?_map, List.all_map]
  cases hf : List.find? (fun p => h p.2.root == x) (List.filter (fun p => p.1 == i) (subtreesAt t 0)) with
  | none =>
    have : List.find? ((fun p : Nat × Nat => p.1 == x) ∘ fun p : Nat × Tree α => (h p.2.root, p.2.depth))
        (List.filter (fun p => p.1 == i) (subtreesAt t 0)) = none := hf
    rw [this]; rfl
  | some me =>
    have : List.find? ((fun p : Nat × Nat => p.1 == x) ∘ fun p : Nat × Tree α => (h p.2.root, p.2.depth))
        (List.filter (fun p => p.1 == i) (subtreesAt t 0)) = some me := hf
    rw [this]; rfl

/-- a generic prefix walk: keep blocks while `keep level hash` holds -/
def walkBy (hash : α → Nat) (keep : List (Nat × Nat) → Nat → Bool) (L : List (List (Nat × Nat))) :
    List α → Nat → List α
  | [], _ => []
  | b :: bs, i => if keep (L.getD i []) (hash b) then b :: walkBy hash keep L bs (i + 1) else []

theorem walkBy_cons_succ (hash : α → Nat) (keep : List (Nat × Nat) → Nat → Bool)
    (l : List (Nat × Nat)) (L : List (List (Nat × Nat))) (chain : List α) (i : Nat) :
    walkBy hash keep (l :: L) chain (i + 1) = walkBy hash keep L chain i := by
  induction chain generalizing i with
  | nil => rfl
  | cons b bs ih => simp only [walkBy, List.getD_cons_succ, ih]

theorem walkBy_congr (hash : α → Nat) (k1 k2 : List (Nat × Nat) → Nat → Bool)
    (L : List (List (Nat × Nat))) (chain : List α) (i : Nat)
    (hk : ∀ j x, k1 (L.getD j []) x = k2 (L.getD j []) x) :
    walkBy hash k1 L chain i = walkBy hash k2 L chain i := by
  induction chain generalizing i with
  | nil => rfl
  | cons b bs ih => simp only [walkBy, hk, ih]

theorem buriedPrefix_eq_walkBy (hash : α → Nat) (t : Tree α) (c : Nat) (chain : List α) (i : Nat) :
    buriedPrefix hash t c chain i = walkBy hash (buriedLv c) (levels hash t) chain i := by
  induction chain generalizing i with
  | nil => rfl
  | cons b bs ih =>
    simp only [buriedPrefix, walkBy, sufficientlyBuried_eq_buriedLv, levels_getD, ih]

/-! ### Paths -/

mutual
theorem paths_length_le_depth : ∀ (t : Tree α), ∀ p ∈ paths t, p.length ≤ depth t
  | .node r [] => by simp [paths, depth, depthList]
  | .node r (c :: cs) => by
    intro p hp
    simp only [paths, List.mem_map] at hp
    obtain ⟨q, hq, rfl⟩ := hp
    have := pathsList_length_le_depthList (c :: cs) q hq
    simp only [depth, List.length_cons]
    omega
theorem pathsList_length_le_depthList : ∀ (cs : List (Tree α)), ∀ p ∈ pathsList cs, p.length ≤ depthList cs
  | [] => by simp [pathsList]
  | c :: cs => by
    intro p hp
    simp only [pathsList, List.mem_append] at hp
    simp only [depthList]
    rcases hp with hp | hp
    · have := paths_length_le_depth c p hp; omega
    · have := pathsList_length_le_depthList cs p hp; omega
end

theorem firstMax_mem (d : α → Nat) (L : List (List α)) (acc : List α) :
    firstMax d L acc ∈ L ∨ firstMax d L acc = acc := by
  induction L generalizing acc with
  | nil => right; rfl
  | cons p ps ih =>
    rw [firstMax_cons]
    split
    · rcases ih p with h | h
      · left; exact List.mem_cons_of_mem _ h
      · left; rw [h]; exact List.mem_cons_self
    · rcases ih acc with h | h
      · left; exact List.mem_cons_of_mem _ h
      · right; exact h

/-- the best path is one of the root-to-leaf paths -/
theorem bestPath_mem_paths (d : α → Nat) (t : Tree α) : bestPath d t ∈ paths t := by
  rcases firstMax_mem d (paths t) [] with h | h
  · exact h
  · exact absurd h (firstMax_ne_nil d (paths t) (paths_ne_nil t) (paths_all_ne_nil t))

theorem bestPath_length_le_depth (d : α → Nat) (t : Tree α) : (bestPath d t).length ≤ depth t :=
  paths_length_le_depth t _ (bestPath_mem_paths d t)

mutual
/-- the `i`-th block of a root-to-leaf path is the root of a subtree at relative height `i` -/
theorem paths_getElem_subtree : ∀ (t : Tree α) (k : Nat), ∀ p ∈ paths t, ∀ (i : Nat) (hi : i < p.length),
    ∃ s, (i + k, s) ∈ subtreesAt t k ∧ s.root = p[i]
  | .node r [], k => by
    intro p hp i hi
    simp only [paths, List.mem_singleton] at hp
    subst hp
    simp only [List.length_singleton] at hi
    have : i = 0 := by omega
    subst this
    exact ⟨.node r [], by simp [subtreesAt], rfl⟩
  | .node r (c :: cs), k => by
    intro p hp i hi
    simp only [paths, List.mem_map] at hp
    obtain ⟨q, hq, rfl⟩ := hp
    cases i with
    | zero => exact ⟨.node r (c :: cs), by simp [subtreesAt], rfl⟩
    | succ i =>
      simp only [List.length_cons] at hi
      obtain ⟨s, hs, hr⟩ := pathsList_getElem_subtree (c :: cs) (k + 1) q hq i (by omega)
      refine ⟨s, ?_, by simpa using hr⟩
      simp only [subtreesAt, List.mem_cons]
      right
      have : i + 1 + k = i + (k + 1) := by omega
      rw [this]; exact hs
theorem pathsList_getElem_subtree : ∀ (cs : List (Tree α)) (k : Nat), ∀ p ∈ pathsList cs,
    ∀ (i : Nat) (hi : i < p.length), ∃ s, (i + k, s) ∈ subtreesAtList cs k ∧ s.root = p[i]
  | [], _ => by simp [pathsList]
  | c :: cs, k => by
    intro p hp i hi
    simp only [pathsList, List.mem_append] at hp
    rcases hp with hp | hp
    · obtain ⟨s, hs, hr⟩ := paths_getElem_subtree c k p hp i hi
      exact ⟨s, by simp only [subtreesAtList, List.mem_append]; left; exact hs, hr⟩
    · obtain ⟨s, hs, hr⟩ := pathsList_getElem_subtree cs k p hp i hi
      exact ⟨s, by simp only [subtreesAtList, List.mem_append]; right; exact hs, hr⟩
end

/-! ### Fork-free trees -/

mutual
/-- every block has at most one child -/
def isPath : Tree α → Bool
  | .node _ cs => isPathList cs
def isPathList : List (Tree α) → Bool
  | [] => true
  | [c] => isPath c
  | _ :: _ :: _ => false
end

end Btc

