import BtcModel.Lemmas.JsonLex

/-!
  The parser of `Model/Json.lean` reads back every rendering of a value, with any whitespace
  (`parseValue_renderWs`), and fails exactly when the nesting is too deep.
-/
namespace Btc.Json

mutual
/-- fuel that suffices to parse a rendering of the value -/
def cost : JVal → Nat
  | .arr xs => costList xs + 1
  | .obj ms => costMembers ms + 1
  | _ => 1
def costList : List JVal → Nat
  | [] => 0
  | x :: xs => cost x + costList xs + 1
def costMembers : List (List Nat × JVal) → Nat
  | [] => 0
  | (_, v) :: ms => cost v + costMembers ms + 1
end

theorem cost_pos (v : JVal) : 1 ≤ cost v := by
  cases v <;> simp [cost]

/-! ### unfolding `parseValue` -/

theorem parseValue_ws (f d : Nat) {pre : List Nat} (h : AllWs pre) (bs : List Nat) :
    parseValue (f + 1) d (pre ++ bs) = parseValue (f + 1) d bs := by
  simp only [parseValue, skipWs_append_of_allWs h]

theorem parseValue_skipWs (f d : Nat) (bs : List Nat) :
    parseValue f d (skipWs bs) = parseValue f d bs := by
  cases f with
  | zero => simp [parseValue]
  | succ f => simp only [parseValue, skipWs_skipWs]

theorem parseElems_skipWs (f d : Nat) (bs : List Nat) :
    parseElems f d (skipWs bs) = parseElems f d bs := by
  cases f with
  | zero => simp [parseElems]
  | succ f => simp only [parseElems, parseValue_skipWs]

theorem parseMembers_skipWs (f d : Nat) (bs : List Nat) :
    parseMembers f d (skipWs bs) = parseMembers f d bs := by
  cases f with
  | zero => simp [parseMembers]
  | succ f => simp only [parseMembers, skipWs_skipWs]

theorem parseValue_null (f d : Nat) (rest : List Nat) :
    parseValue (f + 1) d (110 :: 117 :: 108 :: 108 :: rest) = some (.null, rest) := by
  simp [parseValue, skipWs, isWs, stripPrefix]

theorem parseValue_true (f d : Nat) (rest : List Nat) :
    parseValue (f + 1) d (116 :: 114 :: 117 :: 101 :: rest) = some (.bool true, rest) := by
  simp [parseValue, skipWs, isWs, stripPrefix]

theorem parseValue_false (f d : Nat) (rest : List Nat) :
    parseValue (f + 1) d (102 :: 97 :: 108 :: 115 :: 101 :: rest) = some (.bool false, rest) := by
  simp [parseValue, skipWs, isWs, stripPrefix]

theorem parseValue_str (f d : Nat) (t : List Nat) :
    parseValue (f + 1) d (34 :: t) =
      match parseStr t with
      | some (s, r') => some (.str s, r')
      | none => none := by
  simp [parseValue, skipWs, isWs]
  rfl

theorem parseValue_num (f d : Nat) {c : Nat} (hc : c = 45 ∨ isDigit c = true) (r : List Nat) :
    parseValue (f + 1) d (c :: r) =
      match scanNumber (c :: r) with
      | some (t, r') => some (.num t, r')
      | none => none := by
  rcases hc with rfl | hc
  · simp [parseValue, skipWs, isWs]
    rfl
  · have h := (isDigit_iff c).mp hc
    have hw : isWs c = false := by
      simp only [isWs, Bool.or_eq_false_iff, beq_eq_false_iff_ne]
      omega
    have h1 : c ≠ 110 := by omega
    have h2 : c ≠ 116 := by omega
    have h3 : c ≠ 102 := by omega
    have h4 : c ≠ 34 := by omega
    have h5 : c ≠ 91 := by omega
    have h6 : c ≠ 123 := by omega
    simp only [parseValue, skipWs_cons_of_not_ws hw, h1, h2, h3, h4, h5, h6, if_false, hc,
      Bool.or_true, if_true]
    rfl

theorem parseValue_arr_empty (f d : Nat) {ws : List Nat} (h : AllWs ws) (rest : List Nat) :
    parseValue (f + 1) d (91 :: (ws ++ 93 :: rest)) =
      if d ≤ 1 then none else some (.arr [], rest) := by
  simp only [parseValue]
  simp [skipWs, isWs, skipWs_ws_cons h (show isWs 93 = false from rfl)]

theorem parseValue_arr (f d : Nat) {inner : List Nat} {c : Nat} {r' : List Nat}
    (hsk : skipWs inner = c :: r') (hc : c ≠ 93) :
    parseValue (f + 1) d (91 :: inner) =
      if d ≤ 1 then none
      else
        match parseElems f (d - 1) inner with
        | some (xs, r'') => some (.arr xs, r'')
        | none => none := by
  have : parseElems f (d - 1) (c :: r') = parseElems f (d - 1) inner := by
    rw [← hsk, parseElems_skipWs]
  simp only [parseValue]
  simp [skipWs, isWs, hsk, hc, this]
  rfl

theorem parseValue_obj_empty (f d : Nat) {ws : List Nat} (h : AllWs ws) (rest : List Nat) :
    parseValue (f + 1) d (123 :: (ws ++ 125 :: rest)) =
      if d ≤ 1 then none else some (.obj [], rest) := by
  simp only [parseValue]
  simp [skipWs, isWs, skipWs_ws_cons h (show isWs 125 = false from rfl)]

theorem parseValue_obj (f d : Nat) {inner : List Nat} {c : Nat} {r' : List Nat}
    (hsk : skipWs inner = c :: r') (hc : c ≠ 125) :
    parseValue (f + 1) d (123 :: inner) =
      if d ≤ 1 then none
      else
        match parseMembers f (d - 1) inner with
        | some (ms, r'') => some (.obj (normMembers ms), r'')
        | none => none := by
  have : parseMembers f (d - 1) (c :: r') = parseMembers f (d - 1) inner := by
    rw [← hsk, parseMembers_skipWs]
  simp only [parseValue]
  simp [skipWs, isWs, hsk, hc, this]
  rfl

/-! ### first byte of a rendering -/

theorem renderWs_head (w : WsChoice) (p : List Nat) {v : JVal} (h : v.WF = true) :
    ∃ c t, renderWs w p v = c :: t ∧ isWs c = false ∧ c ≠ 93 ∧ c ≠ 125 := by
  cases v with
  | null => exact ⟨110, _, rfl, by decide⟩
  | bool b => cases b <;> exact ⟨_, _, rfl, by decide⟩
  | num t =>
    simp only [JVal.WF, NumTok.WF, Bool.and_eq_true] at h
    obtain ⟨c, r, hr, hc⟩ := render_head_num h.1
    refine ⟨c, r, by simp [renderWs, hr], ?_⟩
    rcases hc with rfl | hc
    · decide
    · have := (isDigit_iff c).mp hc
      refine ⟨?_, by omega, by omega⟩
      simp only [isWs, Bool.or_eq_false_iff, beq_eq_false_iff_ne]
      omega
  | str s => exact ⟨34, _, rfl, by decide⟩
  | arr xs => exact ⟨91, (renderWs w p (.arr xs)).tail, by simp [renderWs], by decide⟩
  | obj ms => exact ⟨123, (renderWs w p (.obj ms)).tail, by simp [renderWs], by decide⟩

theorem renderElemsWs_skip (w : WsChoice) (hw : ∀ p s, AllWs (w p s)) (p : List Nat) (i : Nat)
    {x : JVal} (hx : x.WF = true) (xs : List JVal) (rest : List Nat) :
    ∃ c t, skipWs (renderElemsWs w p i (x :: xs) ++ rest) = c :: t ∧ c ≠ 93 := by
  obtain ⟨c, t, hr, hws, h93, _⟩ := renderWs_head w (p ++ [i]) hx
  simp only [renderElemsWs, hr, List.append_assoc, List.cons_append]
  rw [skipWs_ws_cons (hw _ _) hws]
  exact ⟨c, _, rfl, h93⟩

theorem renderMembersWs_skip (w : WsChoice) (hw : ∀ p s, AllWs (w p s)) (p : List Nat) (i : Nat)
    (k : List Nat) (v : JVal) (ms : List (List Nat × JVal)) (rest : List Nat) :
    ∃ t, skipWs (renderMembersWs w p i ((k, v) :: ms) ++ rest) = 34 :: t := by
  simp only [renderMembersWs, renderStr, List.append_assoc, List.cons_append]
  rw [skipWs_ws_cons (hw _ _) (show isWs 34 = false from rfl)]
  exact ⟨_, rfl⟩

/-! ### the main induction -/

theorem parseElems_succ (f d : Nat) (bs : List Nat) :
    parseElems (f + 1) d bs =
      match parseValue f d bs with
      | none => none
      | some (v, r) =>
        match skipWs r with
        | [] => none
        | c :: r' =>
          if c = 44 then
            match parseElems f d r' with
            | some (vs, r'') => some (v :: vs, r'')
            | none => none
          else if c = 93 then some ([v], r')
          else none := by
  simp only [parseElems]
  rfl

theorem parseMembers_succ (f d : Nat) {bs t : List Nat} (hsk : skipWs bs = 34 :: t) :
    parseMembers (f + 1) d bs =
      match parseStr t with
      | none => none
      | some (k, r1) =>
        match skipWs r1 with
        | [] => none
        | c :: r2 =>
          if c = 58 then
            match parseValue f d r2 with
            | none => none
            | some (v, r3) =>
              match skipWs r3 with
              | [] => none
              | c' :: r4 =>
                if c' = 44 then
                  match parseMembers f d r4 with
                  | some (ms, r5) => some ((k, v) :: ms, r5)
                  | none => none
                else if c' = 125 then some ([(k, v)], r4)
                else none
          else none := by
  simp only [parseMembers, hsk, if_true]
  rfl

mutual
theorem parseValue_renderWs (w : WsChoice) (hw : ∀ p s, AllWs (w p s)) :
    ∀ (v : JVal) (p : List Nat) (fuel depth : Nat) (pre rest : List Nat),
      AllWs pre → numDelim rest = true → v.WF = true → 1 ≤ depth → cost v ≤ fuel →
      parseValue fuel depth (pre ++ (renderWs w p v ++ rest)) =
        if depthOf v < depth then some (normalize v, rest) else none
  | .null, p, fuel, depth, pre, rest, hpre, _, _, hd, hf => by
    obtain ⟨f, rfl⟩ : ∃ f, fuel = f + 1 := ⟨fuel - 1, by simp only [cost] at hf; omega⟩
    rw [parseValue_ws _ _ hpre]
    have hd' : 0 < depth := hd
    simp [renderWs, parseValue_null, depthOf, normalize, hd']
  | .bool b, p, fuel, depth, pre, rest, hpre, _, _, hd, hf => by
    obtain ⟨f, rfl⟩ : ∃ f, fuel = f + 1 := ⟨fuel - 1, by simp only [cost] at hf; omega⟩
    rw [parseValue_ws _ _ hpre]
    have hd' : 0 < depth := hd
    cases b <;> simp [renderWs, parseValue_true, parseValue_false, depthOf, normalize, hd']
  | .num t, p, fuel, depth, pre, rest, hpre, hrest, hwf, hd, hf => by
    obtain ⟨f, rfl⟩ : ∃ f, fuel = f + 1 := ⟨fuel - 1, by simp only [cost] at hf; omega⟩
    rw [parseValue_ws _ _ hpre]
    have hd' : 0 < depth := hd
    simp only [JVal.WF, NumTok.WF, Bool.and_eq_true, Bool.not_eq_true'] at hwf
    obtain ⟨c, r, hr, hc⟩ := render_head_num hwf.1
    have hs := scanNumber_render hwf.1 hwf.2 hrest
    simp only [renderWs]
    rw [hr] at hs ⊢
    rw [List.cons_append, parseValue_num f depth hc, ← List.cons_append, hs]
    simp [depthOf, normalize, hd']
  | .str s, p, fuel, depth, pre, rest, hpre, _, _, hd, hf => by
    obtain ⟨f, rfl⟩ : ∃ f, fuel = f + 1 := ⟨fuel - 1, by simp only [cost] at hf; omega⟩
    rw [parseValue_ws _ _ hpre]
    have hd' : 0 < depth := hd
    obtain ⟨t, ht, hp⟩ := parseStr_renderStr s rest
    simp only [renderWs]
    rw [ht, parseValue_str, hp]
    simp [depthOf, normalize, hd']
  | .arr [], p, fuel, depth, pre, rest, hpre, _, _, hd, hf => by
    obtain ⟨f, rfl⟩ : ∃ f, fuel = f + 1 := ⟨fuel - 1, by simp only [cost] at hf; omega⟩
    rw [parseValue_ws _ _ hpre]
    simp only [renderWs, List.cons_append, List.append_assoc, List.nil_append]
    rw [parseValue_arr_empty f depth (hw _ _)]
    simp only [depthOf, depthOfList, normalize, normalizeList]
    by_cases h : depth ≤ 1
    · have : ¬ (0 + 1 < depth) := by omega
      simp [h, this]
    · have : 0 + 1 < depth := by omega
      simp [h, this]
  | .arr (x :: xs), p, fuel, depth, pre, rest, hpre, _, hwf, hd, hf => by
    obtain ⟨f, rfl⟩ : ∃ f, fuel = f + 1 := ⟨fuel - 1, by simp only [cost] at hf; omega⟩
    rw [parseValue_ws _ _ hpre]
    simp only [JVal.WF] at hwf
    have hx : x.WF = true := by
      simp only [WFList, Bool.and_eq_true] at hwf; exact hwf.1
    obtain ⟨c, t, hsk, hc⟩ := renderElemsWs_skip w hw p 0 hx xs rest
    simp only [renderWs, List.cons_append]
    rw [parseValue_arr f depth hsk hc]
    by_cases h : depth ≤ 1
    · have : ¬ (depthOf (.arr (x :: xs)) < depth) := by simp only [depthOf]; omega
      simp [h, this]
    · have hf' : costList (x :: xs) ≤ f := by simp only [cost] at hf; omega
      rw [if_neg h, parseElems_renderWs w hw (x :: xs) p 0 f (depth - 1) rest (by simp) hwf
        (by omega) hf']
      by_cases h2 : depthOfList (x :: xs) < depth - 1
      · have : depthOf (.arr (x :: xs)) < depth := by simp only [depthOf]; omega
        simp [h2, this, normalize]
      · have : ¬ (depthOf (.arr (x :: xs)) < depth) := by simp only [depthOf]; omega
        simp [h2, this]
  | .obj [], p, fuel, depth, pre, rest, hpre, _, _, hd, hf => by
    obtain ⟨f, rfl⟩ : ∃ f, fuel = f + 1 := ⟨fuel - 1, by simp only [cost] at hf; omega⟩
    rw [parseValue_ws _ _ hpre]
    simp only [renderWs, List.cons_append, List.append_assoc, List.nil_append]
    rw [parseValue_obj_empty f depth (hw _ _)]
    simp only [depthOf, depthOfMembers, normalize, normalizeMembers]
    by_cases h : depth ≤ 1
    · have : ¬ (0 + 1 < depth) := by omega
      simp [h, this]
    · have : 0 + 1 < depth := by omega
      simp [h, this, normMembers]
  | .obj ((k, v) :: ms), p, fuel, depth, pre, rest, hpre, _, hwf, hd, hf => by
    obtain ⟨f, rfl⟩ : ∃ f, fuel = f + 1 := ⟨fuel - 1, by simp only [cost] at hf; omega⟩
    rw [parseValue_ws _ _ hpre]
    simp only [JVal.WF] at hwf
    obtain ⟨t, hsk⟩ := renderMembersWs_skip w hw p 0 k v ms rest
    simp only [renderWs, List.cons_append]
    rw [parseValue_obj f depth hsk (by decide)]
    by_cases h : depth ≤ 1
    · have : ¬ (depthOf (.obj ((k, v) :: ms)) < depth) := by simp only [depthOf]; omega
      simp [h, this]
    · have hf' : costMembers ((k, v) :: ms) ≤ f := by simp only [cost] at hf; omega
      rw [if_neg h, parseMembers_renderWs w hw ((k, v) :: ms) p 0 f (depth - 1) rest (by simp) hwf
        (by omega) hf']
      by_cases h2 : depthOfMembers ((k, v) :: ms) < depth - 1
      · have : depthOf (.obj ((k, v) :: ms)) < depth := by simp only [depthOf]; omega
        simp [h2, this, normalize]
      · have : ¬ (depthOf (.obj ((k, v) :: ms)) < depth) := by simp only [depthOf]; omega
        simp [h2, this]
theorem parseElems_renderWs (w : WsChoice) (hw : ∀ p s, AllWs (w p s)) :
    ∀ (xs : List JVal) (p : List Nat) (i fuel depth : Nat) (rest : List Nat),
      xs ≠ [] → WFList xs = true → 1 ≤ depth → costList xs ≤ fuel →
      parseElems fuel depth (renderElemsWs w p i xs ++ rest) =
        if depthOfList xs < depth then some (normalizeList xs, rest) else none
  | [], _, _, _, _, _, hne, _, _, _ => absurd rfl hne
  | x :: xs, p, i, fuel, depth, rest, _, hwf, hd, hf => by
    obtain ⟨f, rfl⟩ : ∃ f, fuel = f + 1 := ⟨fuel - 1, by simp only [costList] at hf; omega⟩
    simp only [WFList, Bool.and_eq_true] at hwf
    simp only [costList] at hf
    have hsep : ∀ c, (c = 44 ∨ c = 93) → isWs c = false := by
      intro c hc; rcases hc with rfl | rfl <;> rfl
    rw [parseElems_succ]
    simp only [renderElemsWs, List.append_assoc, List.cons_append]
    cases xs with
    | nil =>
      simp only [List.isEmpty_nil, if_true, renderElemsWs, List.nil_append]
      rw [parseValue_renderWs w hw x (p ++ [i]) f depth _ _ (hw _ _)
        (numDelim_ws_cons (hw _ _) (Or.inr (Or.inl rfl)) _) hwf.1 hd (by omega)]
      simp only [depthOfList, normalizeList, Nat.max_zero]
      by_cases h : depthOf x < depth
      · simp only [h, if_true, skipWs_ws_cons (hw _ _) (show isWs 93 = false from rfl)]
        simp
      · simp [h]
    | cons y ys =>
      simp only [List.isEmpty_cons, Bool.false_eq_true, if_false]
      rw [parseValue_renderWs w hw x (p ++ [i]) f depth _ _ (hw _ _)
        (numDelim_ws_cons (hw _ _) (Or.inl rfl) _) hwf.1 hd (by omega)]
      by_cases h : depthOf x < depth
      · simp only [h, if_true, skipWs_ws_cons (hw _ _) (show isWs 44 = false from rfl)]
        rw [parseElems_renderWs w hw (y :: ys) p (i + 1) f depth rest (by simp) hwf.2 hd
          (by omega)]
        by_cases h2 : depthOfList (y :: ys) < depth
        · have : depthOfList (x :: y :: ys) < depth := by
            simp only [depthOfList] at h2 ⊢; omega
          simp [h2, this, normalizeList]
        · have : ¬ depthOfList (x :: y :: ys) < depth := by
            simp only [depthOfList] at h2 ⊢; omega
          simp [h2, this]
      · have : ¬ depthOfList (x :: y :: ys) < depth := by
          simp only [depthOfList]; omega
        simp [h, this]
theorem parseMembers_renderWs (w : WsChoice) (hw : ∀ p s, AllWs (w p s)) :
    ∀ (ms : List (List Nat × JVal)) (p : List Nat) (i fuel depth : Nat) (rest : List Nat),
      ms ≠ [] → WFMembers ms = true → 1 ≤ depth → costMembers ms ≤ fuel →
      parseMembers fuel depth (renderMembersWs w p i ms ++ rest) =
        if depthOfMembers ms < depth then some (normalizeMembers ms, rest) else none
  | [], _, _, _, _, _, hne, _, _, _ => absurd rfl hne
  | (k, v) :: ms, p, i, fuel, depth, rest, _, hwf, hd, hf => by
    obtain ⟨f, rfl⟩ : ∃ f, fuel = f + 1 := ⟨fuel - 1, by simp only [costMembers] at hf; omega⟩
    simp only [WFMembers, Bool.and_eq_true] at hwf
    simp only [costMembers] at hf
    obtain ⟨t, hsk⟩ := renderMembersWs_skip w hw p i k v ms rest
    have hsk' := hsk
    simp only [renderMembersWs, renderStr, List.append_assoc, List.cons_append] at hsk'
    rw [skipWs_ws_cons (hw _ _) (show isWs 34 = false from rfl)] at hsk'
    rw [parseMembers_succ f depth hsk, ← (List.cons.inj hsk').2]
    simp only [parseStr, strGo_escape, List.nil_append]
    rw [skipWs_ws_cons (hw _ _) (show isWs 58 = false from rfl)]
    simp only [if_true]
    cases ms with
    | nil =>
      simp only [List.isEmpty_nil, if_true, renderMembersWs, List.nil_append]
      rw [parseValue_renderWs w hw v (p ++ [i]) f depth _ _ (hw _ _)
        (numDelim_ws_cons (hw _ _) (Or.inr (Or.inr (Or.inl rfl))) _) hwf.1.2 hd (by omega)]
      simp only [depthOfMembers, normalizeMembers, Nat.max_zero]
      by_cases h : depthOf v < depth
      · simp only [h, if_true, skipWs_ws_cons (hw _ _) (show isWs 125 = false from rfl)]
        simp
      · simp [h]
    | cons m ms' =>
      obtain ⟨k2, v2⟩ := m
      simp only [List.isEmpty_cons, Bool.false_eq_true, if_false]
      rw [parseValue_renderWs w hw v (p ++ [i]) f depth _ _ (hw _ _)
        (numDelim_ws_cons (hw _ _) (Or.inl rfl) _) hwf.1.2 hd (by omega)]
      by_cases h : depthOf v < depth
      · simp only [h, if_true, skipWs_ws_cons (hw _ _) (show isWs 44 = false from rfl)]
        rw [parseMembers_renderWs w hw ((k2, v2) :: ms') p (i + 1) f depth rest (by simp) hwf.2 hd
          (by omega)]
        by_cases h2 : depthOfMembers ((k2, v2) :: ms') < depth
        · have : depthOfMembers ((k, v) :: (k2, v2) :: ms') < depth := by
            simp only [depthOfMembers] at h2 ⊢; omega
          simp [h2, this, normalizeMembers]
        · have : ¬ depthOfMembers ((k, v) :: (k2, v2) :: ms') < depth := by
            simp only [depthOfMembers] at h2 ⊢; omega
          simp [h2, this]
      · have : ¬ depthOfMembers ((k, v) :: (k2, v2) :: ms') < depth := by
          simp only [depthOfMembers]; omega
        simp [h, this]
end

/-! ### fuel: the cost is bounded by the length of the text -/

theorem numRender_length_pos {t : NumTok} (hg : t.grammatical = true) : 1 ≤ t.render.length := by
  obtain ⟨c, r, hr, _⟩ := render_head_num hg
  rw [hr]; simp

mutual
theorem cost_le_length (w : WsChoice) :
    ∀ (v : JVal) (p : List Nat), v.WF = true → cost v ≤ (renderWs w p v).length
  | .null, _, _ => by simp [cost, renderWs]
  | .bool b, _, _ => by cases b <;> simp [cost, renderWs]
  | .num t, _, h => by
    simp only [JVal.WF, NumTok.WF, Bool.and_eq_true] at h
    simpa [cost, renderWs] using numRender_length_pos h.1
  | .str s, _, _ => by simp [cost, renderWs, renderStr]
  | .arr [], _, _ => by simp [cost, costList, renderWs]
  | .arr (x :: xs), p, h => by
    have := costList_le_length w (x :: xs) p 0 (by simpa [JVal.WF] using h)
    simp only [cost, renderWs, List.length_cons]
    omega
  | .obj [], _, _ => by simp [cost, costMembers, renderWs]
  | .obj ((k, v) :: ms), p, h => by
    have := costMembers_le_length w ((k, v) :: ms) p 0 (by simpa [JVal.WF] using h)
    simp only [cost, renderWs, List.length_cons]
    omega
theorem costList_le_length (w : WsChoice) :
    ∀ (xs : List JVal) (p : List Nat) (i : Nat), WFList xs = true →
      costList xs ≤ (renderElemsWs w p i xs).length
  | [], _, _, _ => by simp [costList]
  | x :: xs, p, i, h => by
    simp only [WFList, Bool.and_eq_true] at h
    have h1 := cost_le_length w x (p ++ [i]) h.1
    have h2 := costList_le_length w xs p (i + 1) h.2
    simp only [costList, renderElemsWs, List.length_append, List.length_cons]
    omega
theorem costMembers_le_length (w : WsChoice) :
    ∀ (ms : List (List Nat × JVal)) (p : List Nat) (i : Nat), WFMembers ms = true →
      costMembers ms ≤ (renderMembersWs w p i ms).length
  | [], _, _, _ => by simp [costMembers]
  | (k, v) :: ms, p, i, h => by
    simp only [WFMembers, Bool.and_eq_true] at h
    have h1 := cost_le_length w v (p ++ [i]) h.1.2
    have h2 := costMembers_le_length w ms p (i + 1) h.2
    simp only [costMembers, renderMembersWs, List.length_append, List.length_cons]
    omega
end

/-! ### the rendering is valid UTF-8 -/

theorem allAscii_singleton {b : Nat} (h : b < 128) : AllAscii [b] := by
  intro x hx; simp at hx; omega

theorem allAscii_numRender {t : NumTok} (hg : t.grammatical = true) : AllAscii t.render := by
  obtain ⟨neg, int, frac, exp⟩ := t
  simp only [NumTok.grammatical, Bool.and_eq_true] at hg
  obtain ⟨⟨⟨⟨hint, _⟩, _⟩, hfrac⟩, hexp⟩ := hg
  simp only [NumTok.render]
  refine AllAscii.append ?_ (AllAscii.append (allAscii_of_allDigits hint) (AllAscii.append ?_ ?_))
  · cases neg
    · intro x hx; cases hx
    · exact allAscii_singleton (by decide)
  · cases frac with
    | none => intro x hx; cases hx
    | some fd =>
      simp only [Bool.and_eq_true] at hfrac
      exact AllAscii.append (a := [46]) (allAscii_singleton (by decide)) (allAscii_of_allDigits hfrac.1)
  · cases exp with
    | none => intro x hx; cases hx
    | some ex =>
      simp only [Bool.and_eq_true] at hexp
      simp only [NumTok.renderExpOpt, NumTok.renderExp]
      refine AllAscii.append (a := [_]) (allAscii_singleton ?_)
        (AllAscii.append ?_ (allAscii_of_allDigits hexp.1))
      · split <;> decide
      · cases ex.sign with
        | none => intro x hx; cases hx
        | some b => cases b <;> exact allAscii_singleton (by decide)

theorem utf8Valid_cons_ascii {b : Nat} (h : b < 128) (X : List Nat) :
    utf8Valid (b :: X) = utf8Valid X :=
  utf8Valid_ascii_append (a := [b]) (allAscii_singleton h) X

mutual
theorem utf8Valid_renderWs (w : WsChoice) (hw : ∀ p s, AllWs (w p s)) :
    ∀ (v : JVal) (p : List Nat), v.WF = true → utf8Valid (renderWs w p v) = true
  | .null, _, _ => by simp only [renderWs]; decide
  | .bool b, _, _ => by cases b <;> (simp only [renderWs]; decide)
  | .num t, _, h => by
    simp only [JVal.WF, NumTok.WF, Bool.and_eq_true] at h
    exact utf8Valid_of_ascii (allAscii_numRender h.1)
  | .str s, _, h => utf8Valid_renderStr (by simpa [JVal.WF] using h)
  | .arr [], p, _ => by
    simp only [renderWs]
    rw [utf8Valid_cons_ascii (by decide), utf8Valid_ascii_append (allAscii_of_allWs (hw _ _))]
    decide
  | .arr (x :: xs), p, h => by
    simp only [renderWs]
    rw [utf8Valid_cons_ascii (by decide)]
    exact utf8Valid_renderElemsWs w hw (x :: xs) p 0 (by simpa [JVal.WF] using h)
  | .obj [], p, _ => by
    simp only [renderWs]
    rw [utf8Valid_cons_ascii (by decide), utf8Valid_ascii_append (allAscii_of_allWs (hw _ _))]
    decide
  | .obj ((k, v) :: ms), p, h => by
    simp only [renderWs]
    rw [utf8Valid_cons_ascii (by decide)]
    exact utf8Valid_renderMembersWs w hw ((k, v) :: ms) p 0 (by simpa [JVal.WF] using h)
theorem utf8Valid_renderElemsWs (w : WsChoice) (hw : ∀ p s, AllWs (w p s)) :
    ∀ (xs : List JVal) (p : List Nat) (i : Nat), WFList xs = true →
      utf8Valid (renderElemsWs w p i xs) = true
  | [], _, _, _ => by simp only [renderElemsWs]; decide
  | x :: xs, p, i, h => by
    simp only [WFList, Bool.and_eq_true] at h
    have h1 := utf8Valid_renderWs w hw x (p ++ [i]) h.1
    have h2 := utf8Valid_renderElemsWs w hw xs p (i + 1) h.2
    simp only [renderElemsWs, List.append_assoc]
    rw [utf8Valid_ascii_append (allAscii_of_allWs (hw _ _))]
    refine utf8Valid_append h1 ?_
    rw [utf8Valid_ascii_append (allAscii_of_allWs (hw _ _)),
      utf8Valid_cons_ascii (by split <;> decide)]
    exact h2
theorem utf8Valid_renderMembersWs (w : WsChoice) (hw : ∀ p s, AllWs (w p s)) :
    ∀ (ms : List (List Nat × JVal)) (p : List Nat) (i : Nat), WFMembers ms = true →
      utf8Valid (renderMembersWs w p i ms) = true
  | [], _, _, _ => by simp only [renderMembersWs]; decide
  | (k, v) :: ms, p, i, h => by
    simp only [WFMembers, Bool.and_eq_true] at h
    have h1 := utf8Valid_renderWs w hw v (p ++ [i]) h.1.2
    have h2 := utf8Valid_renderMembersWs w hw ms p (i + 1) h.2
    simp only [renderMembersWs, List.append_assoc, List.cons_append]
    rw [utf8Valid_ascii_append (allAscii_of_allWs (hw _ _))]
    refine utf8Valid_append (utf8Valid_renderStr h.1.1) ?_
    rw [utf8Valid_ascii_append (allAscii_of_allWs (hw _ _)), utf8Valid_cons_ascii (by decide),
      utf8Valid_ascii_append (allAscii_of_allWs (hw _ _))]
    refine utf8Valid_append h1 ?_
    rw [utf8Valid_ascii_append (allAscii_of_allWs (hw _ _)),
      utf8Valid_cons_ascii (by split <;> decide)]
    exact h2
end

/-! ### the top level -/

theorem parseText_renderWs (w : WsChoice) (hw : ∀ p s, AllWs (w p s)) (v : JVal)
    (hv : v.WF = true) {pre post : List Nat} (hpre : AllWs pre) (hpost : AllWs post) :
    parseText (pre ++ (renderWs w [] v ++ post)) =
      if depthOf v < 128 then some (normalize v) else none := by
  have hfuel : cost v ≤ fuelFor (pre ++ (renderWs w [] v ++ post)) := by
    have := cost_le_length w v [] hv
    simp only [fuelFor, List.length_append]
    omega
  simp only [parseText]
  rw [parseValue_renderWs w hw v [] _ 128 pre post hpre (numDelim_of_allWs hpost) hv (by decide)
    hfuel]
  by_cases h : depthOf v < 128
  · simp [h, skipWs_of_allWs hpost]
  · simp [h]

theorem parse_renderWs (w : WsChoice) (hw : ∀ p s, AllWs (w p s)) (v : JVal)
    (hv : v.WF = true) {pre post : List Nat} (hpre : AllWs pre) (hpost : AllWs post) :
    parse (pre ++ (renderWs w [] v ++ post)) =
      if depthOf v < 128 then some (normalize v) else none := by
  have hu : utf8Valid (pre ++ (renderWs w [] v ++ post)) = true := by
    rw [utf8Valid_ascii_append (allAscii_of_allWs hpre)]
    exact utf8Valid_append (utf8Valid_renderWs w hw v [] hv)
      (utf8Valid_of_ascii (allAscii_of_allWs hpost))
  simp only [parse, hu, if_true]
  exact parseText_renderWs w hw v hv hpre hpost

end Btc.Json
