import BtcModel.Props.FullCor
import BtcModel.Props.C13Full

/-!
  Helper lemmas for `Props/C09Full.lean` (upgrade transparency at the message level).

  1. `DeltaOk` / `MetricsOk` of `Props/C09.lean` are invariants of the message-level system
     (`fullReachable_deltaOk`, `fullReachable_metricsOk`), paused states included.  `DeltaOk` is a
     purely structural invariant (no ledger invariant is needed): `insert_outpoints` computes
     `utxo_delta` unconditionally as the sum `blockUtxoDelta`, `pop` only removes blocks, an upgrade
     forgets all metrics.
  2. `MS s s'` — equal up to the per-block cached metrics (`C09.Sim` + equal syncing state) — is
     preserved by every piece of the model a message is made of: ingestion, `insert_block`, the
     block loop, the announced-header loop, `maybe_process_response`, reply continuations,
     `set_config`, upgrades, endpoint calls; the fee percentiles under the invariants.
-/
namespace Btc.Lemmas.C09Sim
open Btc Btc.State Btc.Spec Btc.Spec.Full Btc.Lemmas.Reach Btc.Lemmas.Reach2 Btc.Lemmas.Fetch
open Btc.Lemmas.FullSys Btc.Props Btc.Props.C09

/-! ## 1. `DeltaOk` is an invariant -/

theorem insertInputs_utxoDelta (cache : OutPointsCache) (utxos : UtxoSet) :
    ∀ (ins : List OutPoint) (acc : InsertAcc) (s : Nat) (acc' : InsertAcc) (s' : Nat),
      insertInputs cache utxos ins acc s = some (acc', s') → acc'.utxoDelta = acc.utxoDelta
  | [], acc, s, acc', s', h => by
    simp only [insertInputs, Option.some.injEq, Prod.mk.injEq] at h
    rw [← h.1]
  | o :: os, acc, s, acc', s', h => by
    unfold insertInputs at h
    dsimp only at h
    split at h
    · cases h
    · have := insertInputs_utxoDelta cache utxos os _ _ acc' s' h
      exact this

theorem insertOutputsAcc_utxoDelta (txid height : Nat) :
    ∀ (outs : List TxOut) (i : Nat) (acc : InsertAcc),
      (insertOutputsAcc txid height outs i acc).utxoDelta = acc.utxoDelta
  | [], _, _ => rfl
  | t :: ts, i, acc => by
    unfold insertOutputsAcc
    exact insertOutputsAcc_utxoDelta txid height ts (i + 1) _

/-- **`insert_outpoints` computes `utxo_delta` unconditionally**: whenever it succeeds, the delta
    is the sum over the transactions of outputs minus (non-coinbase) inputs -/
theorem insertTxs_utxoDelta (cache : OutPointsCache) (utxos : UtxoSet) (height : Nat) :
    ∀ (txs : List Tx) (acc acc' : InsertAcc), insertTxs cache utxos height txs acc = some acc' →
      acc'.utxoDelta = acc.utxoDelta + InsertOutpoints.utxoDeltaSpec txs
  | [], acc, acc', h => by
    simp only [insertTxs, Option.some.injEq] at h
    rw [← h]; simp [InsertOutpoints.utxoDeltaSpec]
  | tx :: txs, acc, acc', h => by
    rw [InsertOutpoints.insertTxs_cons] at h
    split at h
    · cases h
    · rename_i acc1 inputSum hi
      have h1 := insertInputs_utxoDelta cache utxos _ _ _ _ _ hi
      have h2 := insertTxs_utxoDelta cache utxos height txs _ acc' h
      have h3 := insertOutputsAcc_utxoDelta tx.txid height tx.outs 0 acc1
      have h4 : (if (!tx.coinbase && decide (InsertOutpoints.outSum tx ≤ inputSum)) = true then
            match feeRatePerVbyte (inputSum - InsertOutpoints.outSum tx) tx.vsize with
            | some r =>
              { insertOutputsAcc tx.txid height tx.outs 0 acc1 with
                feeRates := (insertOutputsAcc tx.txid height tx.outs 0 acc1).feeRates ++ [r] }
            | none => insertOutputsAcc tx.txid height tx.outs 0 acc1
          else insertOutputsAcc tx.txid height tx.outs 0 acc1).utxoDelta =
          (insertOutputsAcc tx.txid height tx.outs 0 acc1).utxoDelta := by
        split
        · split <;> rfl
        · rfl
      have h5 := h2.trans (congrArg (fun z => z + InsertOutpoints.utxoDeltaSpec txs) h4)
      rw [h5, h3, h1]
      simp only [InsertOutpoints.utxoDeltaSpec, List.map_cons, List.sum_cons]
      omega

theorem insertOutpoints_utxoDelta {cache cache' : OutPointsCache} {utxos : UtxoSet} {b : Block}
    {height : Nat} {m : BlockMetrics} (h : insertOutpoints cache utxos b height = some (cache', m)) :
    m.utxoDelta = blockUtxoDelta b := by
  unfold insertOutpoints at h
  split at h
  · cases h
  · rename_i acc ha
    simp only [Option.some.injEq, Prod.mk.injEq] at h
    rw [← h.2, ← C09.utxoDeltaSpec_eq]
    have := insertTxs_utxoDelta cache utxos height b.txs {} acc ha
    rw [this]
    show (0 : Int) + _ = _
    omega

/-- **`push` preserves `DeltaOk`** (no hypothesis on the block) -/
theorem deltaOk_push {s : State} {b : Block} {u : Unstable} (hd : DeltaOk s)
    (hp : s.unstable.push s.utxos b = .ok u) : DeltaOk { s with unstable := u } := by
  obtain ⟨depth, cache, m, tree, _, hi, he, rfl⟩ := C09.push_ok_elim hp
  intro x hx
  have hx' : x ∈ tree.blocks := hx
  rcases (TreeExtend.extend_mem_blocks CBlock.hash b.prev _ _ _ he x).mp hx' with rfl | hxo
  · exact Or.inr (insertOutpoints_utxoDelta hi)
  · exact hd x hxo

/-- the blocks of the tree of an ingestion result are blocks of the tree before -/
def resSubset (s : State) : IngestResult → Prop
  | .paused s' => ∀ b ∈ s'.unstable.tree.blocks, b ∈ s.unstable.tree.blocks
  | .done s' _ => ∀ b ∈ s'.unstable.tree.blocks, b ∈ s.unstable.tree.blocks
  | .trap _ => True

theorem popBlock_subset {bound : Unstable.BoundFn} {s s2 : State} {h : Nat}
    (hp : popBlock bound s h = some s2) :
    ∀ b ∈ s2.unstable.tree.blocks, b ∈ s.unstable.tree.blocks := by
  obtain ⟨r, cs, idx, child, htree, hchild, ht2⟩ := FetchLive.popBlock_tree hp
  intro b hb
  rw [htree]
  rw [ht2] at hb
  simp only [Tree.blocks, List.mem_cons]
  exact Or.inr ((Tree.blocks_child_sublist cs idx child hchild).subset hb)

theorem ingestNewStable_subset (bound : Unstable.BoundFn) :
    ∀ (fuel : Nat) (s : State) (b : Nat) (w : Bool), resSubset s (ingestNewStable bound fuel s b w)
  | 0, s, b, w => fun _ h => h
  | fuel + 1, s, b, w => by
    unfold ingestNewStable
    cases Unstable.peek bound s.unstable with
    | none => exact fun _ h => h
    | some anchor =>
      dsimp only
      cases ({ s with headers := s.headers.insert anchor.blk s.utxos.nextHeight } : State).utxos.ingestBlock
          anchor.blk b with
      | trap m => trivial
      | paused u => exact fun _ h => h
      | done u budget' =>
        dsimp only
        cases hp : popBlock bound
            { s with headers := s.headers.insert anchor.blk s.utxos.nextHeight, utxos := u }
            anchor.blk.hash with
        | none => trivial
        | some s2 =>
          dsimp only
          have h1 := ingestNewStable_subset bound fuel s2 budget' true
          have h2 := popBlock_subset hp
          cases hr : ingestNewStable bound fuel s2 budget' true with
          | trap m => trivial
          | paused s' => rw [hr] at h1; exact fun x hx => h2 x (h1 x hx)
          | done s' w' => rw [hr] at h1; exact fun x hx => h2 x (h1 x hx)

/-- ingestion only removes blocks from the tree of unstable blocks -/
theorem ingestStable_subset (bound : Unstable.BoundFn) (s : State) (b : Nat) :
    resSubset s (ingestStable bound s b) := by
  unfold ingestStable
  dsimp only
  cases s.utxos.ingestContinue b with
  | none => exact ingestNewStable_subset bound _ s b false
  | some r =>
    cases r with
    | trap m => trivial
    | paused u => exact fun _ h => h
    | done u budget' =>
      dsimp only
      cases hp : popBlock bound { s with utxos := u }
          (match s.utxos.ingesting with | some ing => ing.block.hash | none => 0) with
      | none => trivial
      | some s2 =>
        dsimp only
        have h1 := ingestNewStable_subset bound (s.unstable.tree.blocksCount + 1) s2 budget' true
        have h2 := popBlock_subset hp
        cases hr : ingestNewStable bound (s.unstable.tree.blocksCount + 1) s2 budget' true with
        | trap m => trivial
        | paused s' => rw [hr] at h1; exact fun x hx => h2 x (h1 x hx)
        | done s' w' => rw [hr] at h1; exact fun x hx => h2 x (h1 x hx)

/-- an upgrade forgets every cached metric: `DeltaOk` holds trivially afterwards -/
theorem deltaOk_upgrade (s : State) (c : Option SetConfig) : DeltaOk (s.upgrade c) := by
  intro b hb
  rw [(C09.stripped_upgrade' s c).tree, Tree.blocks_mapT] at hb
  obtain ⟨x, _, rfl⟩ := List.mem_map.mp hb
  exact Or.inl rfl

theorem deltaOk_congr {s s' : State} (ht : s'.unstable.tree = s.unstable.tree) (hd : DeltaOk s) :
    DeltaOk s' := by
  intro b hb
  rw [ht] at hb
  exact hd b hb

/-- **every step of the extended system preserves `DeltaOk`** -/
theorem step2_deltaOk (bound : Unstable.BoundFn) (s : State) (G : List Block) (op : Op)
    (s' : State) (G' : List Block) (hd : DeltaOk s)
    (hs : step2 bound (s, G) op = some (s', G')) : DeltaOk s' := by
  cases op with
  | ingest b =>
    rw [step2_ingest] at hs
    simp only at hs
    have hsub := ingestStable_subset bound s b
    cases hr : s.ingestStable bound b with
    | trap m => rw [hr] at hs; cases hs
    | done s1 w =>
      rw [hr] at hs hsub
      simp only [Option.some.injEq, Prod.mk.injEq] at hs
      obtain ⟨rfl, rfl⟩ := hs
      exact hd.shrink hsub
    | paused sp =>
      rw [hr] at hs hsub
      simp only [Option.some.injEq, Prod.mk.injEq] at hs
      obtain ⟨rfl, rfl⟩ := hs
      exact hd.shrink hsub
  | push b =>
    simp only [step2, step] at hs
    split at hs
    · rename_i u hu
      simp only [Option.some.injEq, Prod.mk.injEq] at hs
      obtain ⟨rfl, rfl⟩ := hs
      exact deltaOk_push hd hu
    · cases hs
  | setConfig c =>
    simp only [step2, step, Option.some.injEq, Prod.mk.injEq] at hs
    obtain ⟨rfl, rfl⟩ := hs
    exact deltaOk_congr (C09.setConfig_frame s c).2.1 hd
  | upgrade c =>
    simp only [step2, step, Option.some.injEq, Prod.mk.injEq] at hs
    obtain ⟨rfl, rfl⟩ := hs
    exact deltaOk_upgrade s c
  | query =>
    simp only [step2, step, Option.some.injEq, Prod.mk.injEq] at hs
    obtain ⟨rfl, rfl⟩ := hs
    exact hd
  | insertNext h =>
    have hs' : step bound (s, G) (.insertNext h) = some (s', G') := hs
    exact deltaOk_congr (C03History.other_step (Or.inr ⟨h, rfl⟩) hs').2.2.2 hd

theorem frameRun_deltaOk {bound : Unstable.BoundFn} {sg sg' : State × List Block} {ops : List Op}
    (hr : FrameRun bound sg ops sg') (hd : DeltaOk sg.1) : DeltaOk sg'.1 := by
  induction hr with
  | nil sg => exact hd
  | frame sg s1 ops sg2 hfr _ ih => exact ih (deltaOk_congr (by rw [hfr.unstable]) hd)
  | op sg o sg1 ops sg2 _ hs _ ih => exact ih (step2_deltaOk bound sg.1 sg.2 o sg1.1 sg1.2 hd hs)

/-- `State::new` stores the right delta with the genesis block -/
theorem deltaOk_new {thr : Nat} {net : Tree.Net} {genesis : Block} {s0 : State}
    (h : State.new thr net genesis = some s0) : DeltaOk s0 := by
  unfold State.new Unstable.new at h
  dsimp only at h
  cases hi : insertOutpoints {} ({} : UtxoSet) genesis ({} : UtxoSet).nextHeight with
  | none => rw [hi] at h; cases h
  | some x =>
    obtain ⟨cache, m⟩ := x
    rw [hi] at h
    simp only [Option.some.injEq] at h
    subst h
    intro b hb
    have hb' : b = CBlock.mk genesis (some m.feeRates) m.utxoDelta := by
      simpa [Tree.leaf, Tree.blocks, Tree.blocksList] using hb
    subst hb'
    exact Or.inr (insertOutpoints_utxoDelta hi)

/-- **`DeltaOk` holds in every reachable configuration of the message-level system**, paused or
    not: every cached per-block UTXO delta, when present, equals the recomputed one. -/
theorem fullReachable_deltaOk {sys : Fetch.Sys} {G : List Block} (h : FullReachable sys G) :
    DeltaOk sys.st := by
  induction h with
  | init thr net genesis s0 hv hn => exact deltaOk_new hn
  | step sys G env m _ ht ih => exact frameRun_deltaOk (stepMsg_sim env (sys, G) m ht) ih


/-- `MetricsOk` in every reachable configuration -/
theorem fullReachable_metricsOk {sys : Fetch.Sys} {G : List Block} (h : FullReachable sys G) :
    MetricsOk (G ++ sys.st.unstable.tree.blocks.map (·.blk)) sys.st := by
  have hd := fullReachable_deltaOk h
  obtain ⟨h2, hf⟩ := fullReachable_fee h
  have key : ∀ s0 : State, Inv s0 G → s0.unstable = sys.st.unstable →
      MetricsOk (G ++ sys.st.unstable.tree.blocks.map (·.blk)) sys.st := by
    intro s0 hI hu
    have hf0 : FeeCacheOk s0 G := FeeSpec.feeCacheOk_congr (by rw [hu]) hf
    have hT := (FeeSpec.feeCacheOk_iff hI).mp hf0
    intro b hb
    cases hr : b.feeRates with
    | none => exact Or.inl rfl
    | some r =>
      right
      have hb0 : b ∈ s0.unstable.tree.blocks := by rw [hu]; exact hb
      refine ⟨?_, ?_⟩
      · rcases hd b hb with h1 | h1
        · rw [hr] at h1; cases h1
        · exact h1
      · rw [hT b hb0 r hr, ← hu,
          FeeSpec.blockFeeRates_eq_feeRatesSpec _ b.blk (FeeSpec.tree_resolved' hI.caches hb0)]
  rcases h2 with hA | ⟨s0, A, B, hA, hP⟩
  · exact key sys.st hA.invU.inv rfl
  · exact key s0 hA.invU.inv hP.unstable.symm

def withTree (s : State) (t : Tree CBlock) : State := { s with unstable := { s.unstable with tree := t } }

/-- equal up to the per-block cached metrics -/
def MS (s s' : State) : Prop := Sim s s' ∧ s.syncing = s'.syncing

theorem MS.refl (s : State) : MS s s := ⟨Sim.refl s, rfl⟩
theorem MS.symm {s s' : State} (h : MS s s') : MS s' s := ⟨h.1.symm, h.2.symm⟩
theorem MS.trans {s s' s'' : State} (h : MS s s') (h' : MS s' s'') : MS s s'' :=
  ⟨h.1.trans h'.1, h.2.trans h'.2⟩

theorem ms_withTree (s : State) {t' : Tree CBlock} (h : TSim s.unstable.tree t') : MS s (withTree s t') := by
  refine ⟨(sim_iff _ _).mpr ⟨rfl, h, rfl, rfl, rfl, rfl, rfl, rfl, rfl, rfl, rfl, rfl, rfl, rfl, rfl, rfl, rfl, rfl, rfl⟩, rfl⟩

theorem MS.exists_tree {s s' : State} (h : MS s s') :
    ∃ t', TSim s.unstable.tree t' ∧ s' = withTree s t' := by
  obtain ⟨h1, h2, h3, h4, h5, h6, h7, h8, h9, h10, h11, h12, h13, h14, h15, h16, h17, h18, h19⟩ :=
    (sim_iff s s').mp h.1
  have hsy := h.2
  refine ⟨s'.unstable.tree, h2, ?_⟩
  obtain ⟨ut, ⟨thr, tree, cache, net, next, tdc, bc⟩, sy, fc, hd, fees, api, dis, lz, stc⟩ := s
  obtain ⟨ut', ⟨thr', tree', cache', net', next', tdc', bc'⟩, sy', fc', hd', fees', api', dis', lz', stc'⟩ := s'
  simp only at h1 h3 h4 h5 h6 h7 h8 h13 h14 h15 h16 h17 h18 h19 hsy
  subst h1 h3 h4 h5 h6 h7 h8 h13 h14 h15 h16 h17 h18 h19 hsy
  rfl


/-! ### record updates -/

theorem ms_map_syncing {s s' : State} (h : MS s s') (f : SyncingState → SyncingState) :
    MS { s with syncing := f s.syncing } { s' with syncing := f s'.syncing } := by
  obtain ⟨t', ht, rfl⟩ := h.exists_tree
  exact ms_withTree { s with syncing := f s.syncing } ht

theorem ms_with_feeCache {s s' : State} (h : MS s s') (fc : Option (Nat × List Nat)) :
    MS { s with feeCache := fc } { s' with feeCache := fc } := by
  obtain ⟨t', ht, rfl⟩ := h.exists_tree
  exact ms_withTree { s with feeCache := fc } ht

theorem MS.lazyFees {s s' : State} (h : MS s s') : s.lazyFees = s'.lazyFees := by
  obtain ⟨t', _, rfl⟩ := h.exists_tree; rfl
theorem MS.feeCache {s s' : State} (h : MS s s') : s.feeCache = s'.feeCache := by
  obtain ⟨t', _, rfl⟩ := h.exists_tree; rfl
theorem MS.utxos {s s' : State} (h : MS s s') : s.utxos = s'.utxos := by
  obtain ⟨t', _, rfl⟩ := h.exists_tree; rfl
theorem MS.tsim {s s' : State} (h : MS s s') : TSim s.unstable.tree s'.unstable.tree := h.1.tsim

/-! ### tree functions on trees that agree up to metrics -/

theorem _root_.Btc.Props.C09.TSim.chainWithTip {t t' : Tree CBlock} (h : TSim t t') (tip : Nat) :
    (Tree.chainWithTip CBlock.hash tip t).map (Tree.mapPair stripC) =
      (Tree.chainWithTip CBlock.hash tip t').map (Tree.mapPair stripC) := by
  have h' : Tree.mapT stripC t = Tree.mapT stripC t' := h
  rw [← Tree.chainWithTip_mapT stripC CBlock.hash CBlock.hash (fun _ => rfl), h',
    Tree.chainWithTip_mapT stripC CBlock.hash CBlock.hash (fun _ => rfl)]

theorem _root_.Btc.Props.C09.TSim.hashes {t t' : Tree CBlock} (h : TSim t t') :
    t.blocks.map CBlock.hash = t'.blocks.map CBlock.hash := by
  have := congrArg (List.map (fun b : Block => b.hash)) (TSim.blocks h)
  simp only [List.map_map, Function.comp_def] at this
  exact this

theorem _root_.Btc.Props.C09.TSim.pathBlocks {t t' : Tree CBlock} (h : TSim t t') (tip : Nat) :
    pathBlocks t tip = pathBlocks t' tip := by
  have h' : Tree.mapT stripC t = Tree.mapT stripC t' := h
  rw [← pathBlocks_mapT stripC (fun _ => rfl) t tip, h', pathBlocks_mapT stripC (fun _ => rfl)]

theorem _root_.Btc.Props.C09.TSim.contains {t t' : Tree CBlock} (h : TSim t t') (x : Nat) :
    Tree.contains CBlock.hash x t = Tree.contains CBlock.hash x t' := by
  have h' : Tree.mapT stripC t = Tree.mapT stripC t' := h
  rw [← Tree.contains_mapT stripC CBlock.hash CBlock.hash (fun _ => rfl) x t, h',
    Tree.contains_mapT stripC CBlock.hash CBlock.hash (fun _ => rfl)]

theorem _root_.Btc.Props.C09.TSim.mainChain_blk {t t' : Tree CBlock} (h : TSim t t') :
    (Tree.mainChain CBlock.diff t).map (·.blk) = (Tree.mainChain CBlock.diff t').map (·.blk) := by
  have h' : Tree.mapT stripC t = Tree.mapT stripC t' := h
  have := congrArg (fun x => (Tree.mainChain CBlock.diff x).map (·.blk)) h'
  simpa only [Tree.mainChain_mapT stripC CBlock.diff CBlock.diff (fun _ => rfl), List.map_map,
    Function.comp_def, stripC_blk] using this

theorem MS.bestChain {s s' : State} (h : MS s s') : bestChain s = bestChain s' := by
  rw [C15Spec.bestChain_eq_mainChain, C15Spec.bestChain_eq_mainChain]
  exact TSim.mainChain_blk h.tsim

/-- the blocks appended to the ghost by an ingestion are the same -/
theorem ms_poppedAnchors {s s' a b : State} (h : MS s s') (hab : MS a b) :
    poppedAnchors s a = poppedAnchors s' b := by
  unfold poppedAnchors
  have hr : a.unstable.tree.root.hash = b.unstable.tree.root.hash :=
    congrArg (fun x : Block => x.hash) (TSim.root hab.tsim)
  rw [TSim.pathBlocks h.tsim, hr]

/-! ### header validation contexts -/

/-- the part of `ValidationContext::new` after the tree lookup -/
def vcOf (h : Header.Hdr) : Option (List CBlock × List CBlock) → Except ContextError (List Header.Hdr)
  | none => .error .doesNotExtend
  | some (chain, successors) =>
    if successors.any (fun c => c.hash == h.hash) then .error .alreadyKnown
    else .ok (chain.map (fun c => hdrOfBlock c.blk))

theorem validationContext_eq (s : State) (h : Header.Hdr) :
    validationContext s h = vcOf h (Tree.chainWithTip CBlock.hash h.prev s.unstable.tree) := by
  unfold validationContext
  cases Tree.chainWithTip CBlock.hash h.prev s.unstable.tree with
  | none => rfl
  | some p => rfl

theorem vcOf_map (h : Header.Hdr) (x : Option (List CBlock × List CBlock)) :
    vcOf h (x.map (Tree.mapPair stripC)) = vcOf h x := by
  cases x with
  | none => rfl
  | some p =>
    obtain ⟨c, su⟩ := p
    have e1 : (su.map stripC).any (fun c => c.hash == h.hash) = su.any (fun c => c.hash == h.hash) := by
      rw [List.any_map]; rfl
    have e2 : (c.map stripC).map (fun c => hdrOfBlock c.blk) = c.map (fun c => hdrOfBlock c.blk) := by
      rw [List.map_map]; rfl
    simp only [Option.map_some, Tree.mapPair, vcOf]
    rw [e1, e2]

theorem validationContext_withTree (s : State) {t' : Tree CBlock} (h : TSim s.unstable.tree t')
    (hd : Header.Hdr) : validationContext (withTree s t') hd = validationContext s hd := by
  have e := h.chainWithTip hd.prev
  calc validationContext (withTree s t') hd
      = vcOf hd (Tree.chainWithTip CBlock.hash hd.prev t') := validationContext_eq _ _
    _ = vcOf hd ((Tree.chainWithTip CBlock.hash hd.prev t').map (Tree.mapPair stripC)) :=
        (vcOf_map _ _).symm
    _ = vcOf hd ((Tree.chainWithTip CBlock.hash hd.prev s.unstable.tree).map (Tree.mapPair stripC)) := by
        rw [e]
    _ = vcOf hd (Tree.chainWithTip CBlock.hash hd.prev s.unstable.tree) := vcOf_map _ _
    _ = validationContext s hd := (validationContext_eq _ _).symm

theorem nextHeadersChain_withTree (s : State) (t' : Tree CBlock) :
    ∀ (fuel tip : Nat) (acc : List NextHeader),
      nextHeadersChain (withTree s t') fuel tip acc = nextHeadersChain s fuel tip acc
  | 0, _, _ => rfl
  | fuel + 1, tip, acc => by
    have e : (withTree s t').unstable.next = s.unstable.next := rfl
    simp only [nextHeadersChain, e]
    cases s.unstable.next.getHeader tip with
    | none => rfl
    | some h => exact nextHeadersChain_withTree s t' fuel h.prev (h :: acc)

theorem validationContextWithNext_withTree (s : State) {t' : Tree CBlock}
    (h : TSim s.unstable.tree t') (hd : Header.Hdr) :
    validationContextWithNext (withTree s t') hd = validationContextWithNext s hd := by
  unfold validationContextWithNext
  have e : (withTree s t').unstable.next = s.unstable.next := rfl
  rw [e, nextHeadersChain_withTree]
  cases nextHeadersChain s (s.unstable.next.byHash.length + 1) hd.prev [] with
  | nil => exact validationContext_withTree s h hd
  | cons first rest => simp only [validationContext_withTree s h]

theorem insertNextHeader_withTree (s : State) {t' : Tree CBlock} (h : TSim s.unstable.tree t')
    (nh : NextHeader) (sh : Nat) :
    (withTree s t').unstable.insertNextHeader nh sh =
      (s.unstable.insertNextHeader nh sh).map (fun u => { u with tree := t' }) := by
  unfold Unstable.insertNextHeader
  have e1 : (withTree s t').unstable.next = s.unstable.next := rfl
  have e2 : (withTree s t').unstable.tree = t' := rfl
  simp only [e1, e2, ← h.findDepth]
  cases s.unstable.next.getHeight nh.prev with
  | some ph => rfl
  | none => cases Tree.findDepth CBlock.hash nh.prev s.unstable.tree <;> rfl

/-! ### `insert_block` -/

theorem ms_push_ok {s s' : State} (h : MS s s') (b : Block) (u : Unstable)
    (hp : s.unstable.push s.utxos b = .ok u) :
    ∃ u', s'.unstable.push s'.utxos b = .ok u' ∧
      MS { s with unstable := u } { s' with unstable := u' } := by
  obtain ⟨u', hp', hs⟩ := sim_push h.1 b u hp
  exact ⟨u', hp', hs, h.2⟩

/-- results of `insert_block` that agree up to metrics -/
inductive InsertRel : InsertResult → InsertResult → Prop
  | ok {a b : State} : MS a b → InsertRel (.ok a) (.ok b)
  | rejected (w : String) : InsertRel (.rejected w) (.rejected w)
  | trap : InsertRel .trap .trap

/-- **`insert_block` preserves `MS`**: same verdict (accepted / rejected with the same reason /
    trap), and the accepted states agree up to metrics -/
theorem ms_insertBlock (env : Env) {s s' : State} (h : MS s s') (b : Block) :
    InsertRel (insertBlock env s b) (insertBlock env s' b) := by
  obtain ⟨t', ht, rfl⟩ := h.exists_tree
  have h := ms_withTree s ht
  unfold insertBlock
  rw [validationContext_withTree s ht]
  have en : (withTree s t').network = s.network := rfl
  have es : ∀ chain, validationStore (withTree s t') chain = validationStore s chain := fun _ => rfl
  simp only [en, es]
  cases validationContext s (hdrOfBlock b) with
  | error e => cases e <;> exact .rejected _
  | ok chain =>
    dsimp only
    cases Header.validateHeader s.network (validationStore s chain) (hdrOfBlock b) env.now with
    | trap => exact .trap
    | err e => exact .rejected _
    | ok =>
      dsimp only
      cases validateBody b with
      | some e => exact .rejected _
      | none =>
        dsimp only
        cases hp : s.unstable.push s.utxos b with
        | ok u =>
          obtain ⟨u', hp', hs⟩ := ms_push_ok h b u hp
          rw [hp']
          exact .ok hs
        | doesNotExtend =>
          rw [sim_push_doesNotExtend h.1 b hp]
          exact .trap
        | trap m =>
          cases hp' : (withTree s t').unstable.push (withTree s t').utxos b with
          | ok u' =>
            obtain ⟨u, hp2, _⟩ := ms_push_ok h.symm b u' hp'
            rw [hp] at hp2; cases hp2
          | doesNotExtend => exact .trap
          | trap m' => exact .trap

/-! ### the block loop -/

/-- results of the block loop that agree up to metrics -/
def PBRel : Option (State × Bool) → Option (State × Bool) → Prop
  | none, none => True
  | some (a, x), some (b, y) => MS a b ∧ x = y
  | _, _ => False

theorem ms_processBlocks (env : Env) : ∀ (blobs : List String) {s s' : State}, MS s s' →
    PBRel (processBlocks env s blobs) (processBlocks env s' blobs)
  | [], s, s', h => ⟨h, rfl⟩
  | blob :: rest, s, s', h => by
    rw [C10.processBlocks_cons, C10.processBlocks_cons]
    cases env.dec.block blob with
    | none =>
      exact ⟨ms_map_syncing h (fun sy => { sy with deserializeErrors := sy.deserializeErrors + 1 }), rfl⟩
    | some b =>
      dsimp only
      have hi := ms_insertBlock env h b
      revert hi
      generalize insertBlock env s b = r1
      generalize insertBlock env s' b = r2
      intro hi
      cases hi with
      | ok hab => exact ms_processBlocks env rest hab
      | rejected w =>
        exact ⟨ms_map_syncing h (fun sy => { sy with insertErrors := sy.insertErrors + 1 }), rfl⟩
      | trap => trivial

/-! ### the announced-header loop -/

theorem insertNextHeadersAll_cons (env : Env) (s : State) (raw : String) (rest : List String) :
    insertNextHeadersAll env s (raw :: rest) =
      match env.dec.header raw with
      | none => some s
      | some h =>
        if (s.unstable.next.getHeader h.hash).isSome then insertNextHeadersAll env s rest
        else
          match validationContextWithNext s (hdrOfNext h) with
          | .error _ => some s
          | .ok chain =>
            match Header.validateHeader s.network (validationStore s chain) (hdrOfNext h) env.now with
            | .trap => none
            | .err _ => some s
            | .ok =>
              match s.unstable.insertNextHeader h s.stableHeight with
              | none => some s
              | some u => insertNextHeadersAll env { s with unstable := u } rest := by
  rw [insertNextHeadersAll]
  rfl

/-- **the announced-header loop commutes with replacing the tree by one that agrees up to
    metrics** (it never changes the tree) -/
theorem insertNextHeadersAll_withTree (env : Env) : ∀ (raws : List String) (s : State)
    {t' : Tree CBlock}, TSim s.unstable.tree t' →
    insertNextHeadersAll env (withTree s t') raws =
      (insertNextHeadersAll env s raws).map (fun x => withTree x t')
  | [], s, t', _ => rfl
  | raw :: rest, s, t', h => by
    rw [insertNextHeadersAll_cons, insertNextHeadersAll_cons]
    cases env.dec.header raw with
    | none => rfl
    | some nh =>
      dsimp only
      have e1 : (withTree s t').unstable.next = s.unstable.next := rfl
      have en : (withTree s t').network = s.network := rfl
      have es : ∀ chain, validationStore (withTree s t') chain = validationStore s chain :=
        fun _ => rfl
      have esh : (withTree s t').stableHeight = s.stableHeight := rfl
      rw [e1, validationContextWithNext_withTree s h, insertNextHeader_withTree s h]
      simp only [en, es, esh]
      by_cases hg : (s.unstable.next.getHeader nh.hash).isSome = true
      · rw [if_pos hg, if_pos hg]
        exact insertNextHeadersAll_withTree env rest s h
      · rw [if_neg hg, if_neg hg]
        cases validationContextWithNext s (hdrOfNext nh) with
        | error e => rfl
        | ok chain =>
          dsimp only
          cases Header.validateHeader s.network (validationStore s chain) (hdrOfNext nh) env.now with
          | trap => rfl
          | err e => rfl
          | ok =>
            dsimp only
            cases hi : s.unstable.insertNextHeader nh s.stableHeight with
            | none => rfl
            | some u =>
              simp only [Option.map_some]
              have hu : u.tree = s.unstable.tree := insertNextHeader_tree hi
              exact insertNextHeadersAll_withTree env rest { s with unstable := u }
                (t' := t') (by rw [show ({ s with unstable := u } : State).unstable.tree = u.tree from rfl, hu]; exact h)

/-- optional states that agree up to metrics -/
def OptRel : Option State → Option State → Prop
  | none, none => True
  | some a, some b => MS a b
  | _, _ => False

theorem ms_insertNextHeaders (env : Env) {s s' : State} (h : MS s s') (raws : List String) :
    OptRel (insertNextHeaders env s raws) (insertNextHeaders env s' raws) := by
  obtain ⟨t', ht, rfl⟩ := h.exists_tree
  unfold insertNextHeaders
  rw [insertNextHeadersAll_withTree env _ s ht]
  cases hx : insertNextHeadersAll env s (raws.take env.headerSlots) with
  | none => trivial
  | some x =>
    have hx' := (insertNextHeadersAll_tree env s _ x hx).1
    exact ms_withTree x (by rw [hx']; exact ht)

/-! ### `maybe_process_response` -/

/-- the part of `maybe_process_response` after the block loop -/
def prCont (env : Env) (r : CompleteResp) : Option (State × Bool) → Option State
  | none => none
  | some (s1, true) => some s1
  | some (s1, false) => insertNextHeaders env s1 r.next

theorem processResponse_eq (env : Env) (s : State) :
    processResponse env s =
      match s.syncing.response with
      | some (.complete r) =>
        prCont env r (processBlocks env { s with syncing := { s.syncing with response := none } } r.blocks)
      | _ => some s := by
  unfold processResponse
  cases s.syncing.response with
  | none => rfl
  | some x =>
    cases x with
    | partial_ p k => rfl
    | complete r =>
      dsimp only
      cases processBlocks env { s with syncing := { s.syncing with response := none } } r.blocks with
      | none => rfl
      | some y => obtain ⟨s1, st⟩ := y; cases st <;> rfl

theorem ms_prCont (env : Env) (r : CompleteResp) {x y : Option (State × Bool)} (h : PBRel x y) :
    OptRel (prCont env r x) (prCont env r y) := by
  cases x with
  | none =>
    cases y with
    | none => trivial
    | some q => obtain ⟨b, w⟩ := q; exact absurd h id
  | some p =>
    obtain ⟨a, v⟩ := p
    cases y with
    | none => exact absurd h id
    | some q =>
      obtain ⟨b, w⟩ := q
      obtain ⟨hab, rfl⟩ := h
      cases v with
      | true => exact hab
      | false => exact ms_insertNextHeaders env hab r.next

/-- **`maybe_process_response` preserves `MS`** -/
theorem ms_processResponse (env : Env) {s s' : State} (h : MS s s') :
    OptRel (processResponse env s) (processResponse env s') := by
  rw [processResponse_eq, processResponse_eq, ← h.2]
  cases s.syncing.response with
  | none => exact h
  | some x =>
    cases x with
    | partial_ p k => exact h
    | complete r =>
      dsimp only
      apply ms_prCont
      apply ms_processBlocks
      have := ms_map_syncing h (fun sy => { sy with response := none })
      rw [← h.2] at this
      exact this

/-! ### the fee percentiles -/

theorem feePercentiles_view_congr {s s0 : State} (hun : s.unstable = s0.unstable)
    (hfc : s.feeCache = s0.feeCache) (n : Nat) :
    (s.feePercentiles n).map feeView = (s0.feePercentiles n).map feeView := by
  have hrec : ∀ chain tip, (feePercentiles.recompute s n chain tip).map feeView =
      (feePercentiles.recompute s0 n chain tip).map feeView := by
    intro chain tip
    unfold feePercentiles.recompute
    rw [C08.feesPerByte_congr s s0 hun]
    cases s0.feesPerByte n chain.reverse [] with
    | none => rfl
    | some fees =>
      cases fees with
      | nil =>
        cases hc : s0.feeCache with
        | none => have hc' : s.feeCache = none := hfc.trans hc; simp [feeView, hc']
        | some v => have hc' : s.feeCache = some v := hfc.trans hc; simp [feeView, hc, hc']
      | cons x xs => simp [feeView]
  unfold feePercentiles
  simp only [hun, hfc]
  cases hc : s0.feeCache with
  | none => exact hrec _ _
  | some p =>
    obtain ⟨hh, pp⟩ := p
    simp only
    split
    · simp [feeView, hfc, hc]
    · exact hrec _ _

/-- **the answer and the new cache of `get_current_fee_percentiles` in a state satisfying `Inv2`
    (paused or not) are the specified ones**: a function of the ghost, the best chain and the
    cache before the call -/
theorem feeView_of_inv2 {s : State} {G : List Block} (h2 : Inv2 s G) (hf : FeeCacheOk s G) (n : Nat) :
    (s.feePercentiles n).map feeView =
      some ((feeAnswerSpec n G (bestChain s) s.feeCache).2,
            (feeAnswerSpec n G (bestChain s) s.feeCache).1) := by
  rcases h2 with hA | ⟨s0, A, B, hA, hP⟩
  · rw [C15Spec.feePercentiles_refines hA.invU.inv hf n]
    rfl
  · have hun := hP.unstable
    have hfc : s.feeCache = s0.feeCache := by
      have := congrArg State.feeCache hP.base.eq
      exact this
    have hf0 : FeeCacheOk s0 G := FeeSpec.feeCacheOk_congr (by rw [hun]) hf
    have hb : bestChain s = bestChain s0 := by unfold bestChain; rw [hun]
    rw [feePercentiles_view_congr hun hfc n, C15Spec.feePercentiles_refines hA.invU.inv hf0 n, hb, hfc]
    rfl

/-- **the fee percentiles preserve `MS`** in states satisfying the invariants: same answer, same
    new cache -/
theorem ms_feePercentiles {s s' : State} {G : List Block} (h : MS s s') (h2 : Inv2 s G)
    (hf : FeeCacheOk s G) (h2' : Inv2 s' G) (hf' : FeeCacheOk s' G) (n : Nat) :
    ∃ fc p, s.feePercentiles n = some ({ s with feeCache := fc }, p) ∧
      s'.feePercentiles n = some ({ s' with feeCache := fc }, p) := by
  have v := feeView_of_inv2 h2 hf n
  have v' := feeView_of_inv2 h2' hf' n
  rw [← h.bestChain, ← h.feeCache] at v'
  refine ⟨(feeAnswerSpec n G (bestChain s) s.feeCache).2,
    (feeAnswerSpec n G (bestChain s) s.feeCache).1, ?_, ?_⟩
  · cases hq : s.feePercentiles n with
    | none => rw [hq] at v; cases v
    | some x =>
      obtain ⟨s1, p1⟩ := x
      rw [hq] at v
      simp only [Option.map_some, feeView, Option.some.injEq, Prod.mk.injEq] at v
      rw [feePercentiles_eq hq, v.1, v.2]
  · cases hq : s'.feePercentiles n with
    | none => rw [hq] at v'; cases v'
    | some x =>
      obtain ⟨s1, p1⟩ := x
      rw [hq] at v'
      simp only [Option.map_some, feeView, Option.some.injEq, Prod.mk.injEq] at v'
      rw [feePercentiles_eq hq, v'.1, v'.2]

/-- after `maybe_process_response` of a heartbeat in a reachable configuration the state satisfies
    `Inv2` and `FeeCacheOk` -/
theorem processResponse_inv2 {sys : Fetch.Sys} {G : List Block} (hr : FullReachable sys G) (env : Env)
    (budget : Nat) (ht : Trusted env (sys, G) (.heartbeat budget))
    (hi : sys.st.ingestStable env.bound budget = .done sys.st false) (s2 : State)
    (hp : processResponse env sys.st = some s2) : Inv2 s2 G ∧ FeeCacheOk s2 G := by
  obtain ⟨h2, hf⟩ := fullReachable_fee hr
  have hni := (ingestStable_done_false' hi).2
  have hrun := processResponse_run env.bound env sys.st s2 G hni (ht (pastIngestion_iff.mpr hi)) hp
  exact frameRun_fee hrun h2 hf


/-! ### reply continuations, `set_config`, upgrades -/

/-- the continuation of a heartbeat after its await only reads and writes the syncing state -/
theorem heartbeatReply_withTree (s : State) (t' : Tree CBlock) (r : Reply) :
    heartbeatReply (withTree s t') r = (heartbeatReply s r).map (fun x => withTree x t') := by
  unfold heartbeatReply
  have e : (withTree s t').syncing = s.syncing := rfl
  cases r with
  | reject => rfl
  | complete c =>
    simp only [e]
    split <;> rfl
  | partial_ p =>
    simp only [e]
    split <;> rfl
  | followUp bytes =>
    simp only [e]
    cases s.syncing.response with
    | none => rfl
    | some x =>
      cases x with
      | complete c => rfl
      | partial_ p pages =>
        dsimp only
        split <;> rfl

theorem setConfig_withTree (s : State) (t' : Tree CBlock) (c : SetConfig) :
    setConfig (withTree s t') c = withTree (setConfig s c) t' := by
  rw [C09.setConfig_eq, C09.setConfig_eq]
  rfl

theorem ms_setConfig {s s' : State} (h : MS s s') (c : SetConfig) :
    MS (setConfig s c) (setConfig s' c) := by
  obtain ⟨t', ht, rfl⟩ := h.exists_tree
  rw [setConfig_withTree]
  exact ms_withTree (setConfig s c) (by rw [(C09.setConfig_frame s c).2.1]; exact ht)

/-- **states that agree up to metrics are upgraded to the SAME state** (the metrics are exactly
    what an upgrade forgets; the tip-depth cache is recomputed from the tree shape) -/
theorem upgrade_withTree (s : State) {t' : Tree CBlock} (h : TSim s.unstable.tree t')
    (cfg : Option SetConfig) : (withTree s t').upgrade cfg = s.upgrade cfg := by
  have h' : Tree.mapT stripC s.unstable.tree = Tree.mapT stripC t' := h
  have hc : (withTree s t').unstable.clearMetrics = s.unstable.clearMetrics := by
    show ({ (withTree s t').unstable with tree := Tree.mapT stripC t' } : Unstable) =
      { s.unstable with tree := Tree.mapT stripC s.unstable.tree }
    rw [← h']
    rfl
  have ht : (withTree s t').unstable.tree.tipDepths = s.unstable.tree.tipDepths := h.tipDepths.symm
  unfold State.upgrade
  rw [hc, ht]
  cases cfg <;> rfl

theorem ms_upgrade_eq {s s' : State} (h : MS s s') (cfg : Option SetConfig) :
    s'.upgrade cfg = s.upgrade cfg := by
  obtain ⟨t', ht, rfl⟩ := h.exists_tree
  exact upgrade_withTree s ht cfg

/-! ### the request selection -/

theorem successorsRequest_withTree (s : State) {t' : Tree CBlock} (h : TSim s.unstable.tree t') :
    successorsRequest (withTree s t') = successorsRequest s := by
  have hh : t'.blocks.map CBlock.hash = s.unstable.tree.blocks.map CBlock.hash := (TSim.hashes h).symm
  have e1 : (withTree s t').syncing = s.syncing := rfl
  have e2 : (withTree s t').unstable.tree = t' := rfl
  unfold successorsRequest
  rw [e1, e2, hh]

theorem fetchDecision_withTree (s : State) {t' : Tree CBlock} (h : TSim s.unstable.tree t') :
    fetchDecision (withTree s t') = fetchDecision s := by
  unfold fetchDecision
  rw [successorsRequest_withTree s h]
  rfl

theorem ms_fetchDecision {s s' : State} (h : MS s s') : fetchDecision s' = fetchDecision s := by
  obtain ⟨t', ht, rfl⟩ := h.exists_tree
  exact fetchDecision_withTree s ht

/-! ### endpoint calls -/

/-- image of a call result -/
def mapCall {α : Type} (f : State → State) : CallResult α → CallResult α
  | .trap t => .trap t
  | .answered a acc s => .answered a acc (f s)

section Calls
variable (env : Env) (s : State) {t' : Tree CBlock} (h : TSim s.unstable.tree t')
include h

theorem guard_withTree (net : Tree.Net) (rule : Bool) :
    (withTree s t').guard env net rule = s.guard env net rule :=
  (Sim.guard (ms_withTree s h).1 env net rule).symm

theorem callGetUtxos_withTree (r : DataReq) :
    callGetUtxos env (withTree s t') r = mapCall (fun x => withTree x t') (callGetUtxos env s r) := by
  have hq : (withTree s t').getUtxos r.addr (.minConf r.minConf) r.limit =
      s.getUtxos r.addr (.minConf r.minConf) r.limit := ((ms_withTree s h).1.getUtxos _ _ _).symm
  have hf : (withTree s t').fees = s.fees := rfl
  unfold callGetUtxos
  rw [guard_withTree env s h, hq, hf]
  cases s.guard env r.reqNet true with
  | some g => rfl
  | none =>
    dsimp only
    split
    · rfl
    · cases s.getUtxos r.addr (.minConf r.minConf) r.limit with
      | trap m => rfl
      | err e => rfl
      | ok v =>
        dsimp only
        split <;> rfl

theorem callGetUtxosQuery_withTree (r : DataReq) :
    callGetUtxosQuery env (withTree s t') r =
      mapCall (fun x => withTree x t') (callGetUtxosQuery env s r) := by
  have hq : (withTree s t').getUtxos r.addr (.minConf r.minConf) r.limit =
      s.getUtxos r.addr (.minConf r.minConf) r.limit := ((ms_withTree s h).1.getUtxos _ _ _).symm
  unfold callGetUtxosQuery
  rw [guard_withTree env s h, hq]
  cases s.guard env r.reqNet true with
  | some g => rfl
  | none =>
    dsimp only
    cases s.getUtxos r.addr (.minConf r.minConf) r.limit <;> rfl

theorem callGetBalance_withTree (r : DataReq) :
    callGetBalance env (withTree s t') r = mapCall (fun x => withTree x t') (callGetBalance env s r) := by
  have hq : (withTree s t').getBalance r.addr r.minConf = s.getBalance r.addr r.minConf :=
    ((ms_withTree s h).1.getBalance _ _).symm
  have hf : (withTree s t').fees = s.fees := rfl
  unfold callGetBalance
  rw [guard_withTree env s h, hq, hf]
  cases s.guard env r.reqNet true with
  | some g => rfl
  | none =>
    dsimp only
    cases chargeFlat r.available s.fees.getBalance s.fees.getBalanceMaximum with
    | none => rfl
    | some acc =>
      dsimp only
      cases s.getBalance r.addr r.minConf <;> rfl

theorem callGetBalanceQuery_withTree (r : DataReq) :
    callGetBalanceQuery env (withTree s t') r =
      mapCall (fun x => withTree x t') (callGetBalanceQuery env s r) := by
  have hq : (withTree s t').getBalance r.addr r.minConf = s.getBalance r.addr r.minConf :=
    ((ms_withTree s h).1.getBalance _ _).symm
  unfold callGetBalanceQuery
  rw [guard_withTree env s h, hq]
  cases s.guard env r.reqNet true with
  | some g => rfl
  | none =>
    dsimp only
    cases s.getBalance r.addr r.minConf <;> rfl

theorem callGetBlockHeaders_withTree (r : DataReq) :
    callGetBlockHeaders env (withTree s t') r =
      mapCall (fun x => withTree x t') (callGetBlockHeaders env s r) := by
  have hq : (withTree s t').getBlockHeaders env.maxHeaders r.start none =
      s.getBlockHeaders env.maxHeaders r.start none := ((ms_withTree s h).1.getBlockHeaders _ _ _).symm
  have hf : (withTree s t').fees = s.fees := rfl
  unfold callGetBlockHeaders
  rw [guard_withTree env s h, hq, hf]
  cases s.guard env r.reqNet true with
  | some g => rfl
  | none =>
    dsimp only
    split
    · rfl
    · cases s.getBlockHeaders env.maxHeaders r.start none with
      | error e => rfl
      | ok v =>
        dsimp only
        split <;> rfl

theorem callSendTransaction_withTree (net : Tree.Net) (available len : Nat) (wf : Bool) :
    callSendTransaction env (withTree s t') net available len wf =
      mapCall (fun x => withTree x t') (callSendTransaction env s net available len wf) := by
  have hf : (withTree s t').fees = s.fees := rfl
  unfold callSendTransaction
  rw [guard_withTree env s h, hf]
  cases s.guard env net false with
  | some g => rfl
  | none =>
    dsimp only
    cases chargeSend available s.fees.sendTransactionBase s.fees.sendTransactionPerByte len with
    | none => rfl
    | some acc =>
      dsimp only
      unfold State.sendTransaction
      cases wf <;> rfl

end Calls

/-- what the caller of an endpoint observes: trap, or the answer and the cycles accepted -/
inductive CallObs (α : Type) where
  | trap (t : CallTrap)
  | answered (a : α) (accepted : Nat)

def obsOf {α : Type} : CallResult α → CallObs α
  | .trap t => .trap t
  | .answered a acc _ => .answered a acc

theorem obsOf_mapCall {α : Type} (f : State → State) (r : CallResult α) :
    obsOf (mapCall f r) = obsOf r := by
  cases r <;> rfl

theorem stateAfter_mapCall {α : Type} (f : State → State) (s : State) (r : CallResult α) :
    stateAfter (f s) (mapCall f r) = f (stateAfter s r) := by
  cases r <;> rfl

/-- the observable outcome of an endpoint call -/
inductive CallOutput where
  | utxos (r : CallObs (QResult UtxosResponse))
  | balance (r : CallObs (QResult Nat))
  | headers (r : CallObs (Except HeadersError (Nat × List String)))
  | fees (r : CallObs (List Nat))
  | send (r : CallObs Bool)

/-- **what the caller of an endpoint observes** (trap kind, or answer and accepted cycles) -/
def callOutput (env : Env) (s : State) : Call → CallOutput
  | .getUtxos r => .utxos (obsOf (callGetUtxos env s r))
  | .getUtxosQuery r => .utxos (obsOf (callGetUtxosQuery env s r))
  | .getBalance r => .balance (obsOf (callGetBalance env s r))
  | .getBalanceQuery r => .balance (obsOf (callGetBalanceQuery env s r))
  | .getBlockHeaders r => .headers (obsOf (callGetBlockHeaders env s r))
  | .feePercentiles r => .fees (obsOf (callFeePercentiles env s r))
  | .sendTransaction n a l w => .send (obsOf (callSendTransaction env s n a l w))

/-- `get_current_fee_percentiles` in states that agree up to metrics and satisfy the invariants -/
theorem ms_callFeePercentiles (env : Env) {s s' : State} {G : List Block} (h : MS s s')
    (h2 : Inv2 s G) (hf : FeeCacheOk s G) (h2' : Inv2 s' G) (hf' : FeeCacheOk s' G) (r : DataReq) :
    obsOf (callFeePercentiles env s r) = obsOf (callFeePercentiles env s' r) ∧
    MS (stateAfter s (callFeePercentiles env s r)) (stateAfter s' (callFeePercentiles env s' r)) := by
  obtain ⟨fc, p, e1, e2⟩ := ms_feePercentiles h h2 hf h2' hf' env.numTransactions
  have hg := Sim.guard h.1 env r.reqNet true
  have hfees : s.fees = s'.fees := by obtain ⟨t', _, rfl⟩ := h.exists_tree; rfl
  unfold callFeePercentiles
  rw [← hg, ← hfees, e1, e2]
  cases s.guard env r.reqNet true with
  | some g => exact ⟨rfl, h⟩
  | none =>
    dsimp only
    cases chargeFlat r.available s.fees.getCurrentFeePercentiles s.fees.getCurrentFeePercentilesMaximum with
    | none => exact ⟨rfl, h⟩
    | some acc => exact ⟨rfl, ms_with_feeCache h fc⟩

/-- **endpoint calls preserve `MS`, with the same observable outcome** -/
theorem ms_call (env : Env) {s s' : State} {G : List Block} (h : MS s s')
    (h2 : Inv2 s G) (hf : FeeCacheOk s G) (h2' : Inv2 s' G) (hf' : FeeCacheOk s' G) (c : Call) :
    callOutput env s c = callOutput env s' c ∧ MS (callState env s c) (callState env s' c) := by
  cases c with
  | feePercentiles r =>
    obtain ⟨e, m⟩ := ms_callFeePercentiles env h h2 hf h2' hf' r
    exact ⟨congrArg CallOutput.fees e, m⟩
  | getUtxos r =>
    obtain ⟨t', ht, rfl⟩ := h.exists_tree
    simp only [callOutput, callState, callGetUtxos_withTree env s ht, obsOf_mapCall]
    refine ⟨trivial, ?_⟩
    rw [show stateAfter (withTree s t') _ = _ from stateAfter_mapCall (fun x => withTree x t') s _]
    have e : (stateAfter s (callGetUtxos env s r)).unstable = s.unstable :=
      (callState_frame env s (.getUtxos r)).unstable
    exact ms_withTree _ (by rw [e]; exact ht)
  | getUtxosQuery r =>
    obtain ⟨t', ht, rfl⟩ := h.exists_tree
    simp only [callOutput, callState, callGetUtxosQuery_withTree env s ht, obsOf_mapCall]
    refine ⟨trivial, ?_⟩
    rw [show stateAfter (withTree s t') _ = _ from stateAfter_mapCall (fun x => withTree x t') s _]
    have e : (stateAfter s (callGetUtxosQuery env s r)).unstable = s.unstable :=
      (callState_frame env s (.getUtxosQuery r)).unstable
    exact ms_withTree _ (by rw [e]; exact ht)
  | getBalance r =>
    obtain ⟨t', ht, rfl⟩ := h.exists_tree
    simp only [callOutput, callState, callGetBalance_withTree env s ht, obsOf_mapCall]
    refine ⟨trivial, ?_⟩
    rw [show stateAfter (withTree s t') _ = _ from stateAfter_mapCall (fun x => withTree x t') s _]
    have e : (stateAfter s (callGetBalance env s r)).unstable = s.unstable :=
      (callState_frame env s (.getBalance r)).unstable
    exact ms_withTree _ (by rw [e]; exact ht)
  | getBalanceQuery r =>
    obtain ⟨t', ht, rfl⟩ := h.exists_tree
    simp only [callOutput, callState, callGetBalanceQuery_withTree env s ht, obsOf_mapCall]
    refine ⟨trivial, ?_⟩
    rw [show stateAfter (withTree s t') _ = _ from stateAfter_mapCall (fun x => withTree x t') s _]
    have e : (stateAfter s (callGetBalanceQuery env s r)).unstable = s.unstable :=
      (callState_frame env s (.getBalanceQuery r)).unstable
    exact ms_withTree _ (by rw [e]; exact ht)
  | getBlockHeaders r =>
    obtain ⟨t', ht, rfl⟩ := h.exists_tree
    simp only [callOutput, callState, callGetBlockHeaders_withTree env s ht, obsOf_mapCall]
    refine ⟨trivial, ?_⟩
    rw [show stateAfter (withTree s t') _ = _ from stateAfter_mapCall (fun x => withTree x t') s _]
    have e : (stateAfter s (callGetBlockHeaders env s r)).unstable = s.unstable :=
      (callState_frame env s (.getBlockHeaders r)).unstable
    exact ms_withTree _ (by rw [e]; exact ht)
  | sendTransaction n a l w =>
    obtain ⟨t', ht, rfl⟩ := h.exists_tree
    simp only [callOutput, callState, callSendTransaction_withTree env s ht, obsOf_mapCall]
    refine ⟨trivial, ?_⟩
    rw [show stateAfter (withTree s t') _ = _ from stateAfter_mapCall (fun x => withTree x t') s _]
    have e : (stateAfter s (callSendTransaction env s n a l w)).unstable = s.unstable :=
      (callState_frame env s (.sendTransaction n a l w)).unstable
    exact ms_withTree _ (by rw [e]; exact ht)

/-! ### the heartbeat -/

/-- heartbeat outcomes that agree up to metrics -/
inductive HbRel : HbResult → HbResult → Prop
  | ingested {a b : State} (p : Bool) : MS a b → HbRel (.ingested a p) (.ingested b p)
  | awaiting {a b : State} (r : Request) : MS a b → HbRel (.awaiting a r) (.awaiting b r)
  | processed {a b : State} : MS a b → HbRel (.processed a) (.processed b)
  | trap : HbRel .trap .trap

/-- `maybe_process_response(); maybe_compute_fee_percentiles()` in two reachable configurations
    that agree up to metrics, at rest -/
theorem ms_finish {sys sys' : Fetch.Sys} {G : List Block} (hr : FullReachable sys G)
    (hr' : FullReachable sys' G) (h : MS sys.st sys'.st) (env : Env) (budget : Nat)
    (ht : Trusted env (sys, G) (.heartbeat budget)) (ht' : Trusted env (sys', G) (.heartbeat budget))
    (hi : sys.st.ingestStable env.bound budget = .done sys.st false)
    (hi' : sys'.st.ingestStable env.bound budget = .done sys'.st false) :
    HbRel (finish env sys.st) (finish env sys'.st) := by
  have hp := ms_processResponse env h
  unfold finish
  cases h1 : processResponse env sys.st with
  | none =>
    cases h2 : processResponse env sys'.st with
    | none => exact .trap
    | some b => rw [h1, h2] at hp; exact absurd hp id
  | some a =>
    cases h2 : processResponse env sys'.st with
    | none => rw [h1, h2] at hp; exact absurd hp id
    | some b =>
      rw [h1, h2] at hp
      have hab : MS a b := hp
      dsimp only
      rw [← hab.lazyFees]
      cases a.lazyFees with
      | true => exact .processed hab
      | false =>
        obtain ⟨k2, kf⟩ := processResponse_inv2 hr env budget ht hi a h1
        obtain ⟨k2', kf'⟩ := processResponse_inv2 hr' env budget ht' hi' b h2
        obtain ⟨fc, p, e1, e2⟩ := ms_feePercentiles hab k2 kf k2' kf' env.numTransactions
        simp only [Bool.false_eq_true, if_false, e1, e2]
        exact .processed (ms_with_feeCache hab fc)

/-- **one heartbeat (up to its await) in two reachable configurations that agree up to metrics**:
    same kind of outcome, same request, resulting states agree up to metrics -/
theorem ms_heartbeatStart {sys sys' : Fetch.Sys} {G : List Block} (hr : FullReachable sys G)
    (hr' : FullReachable sys' G) (h : MS sys.st sys'.st) (env : Env) (budget : Nat)
    (ht : Trusted env (sys, G) (.heartbeat budget)) (ht' : Trusted env (sys', G) (.heartbeat budget)) :
    HbRel (heartbeatStart env sys.st budget) (heartbeatStart env sys'.st budget) := by
  rw [heartbeatStart_eq, heartbeatStart_eq]
  have hsim := sim_ingestStable env.bound h.1 budget
  have hsy := ingestStable_syncing env.bound sys.st budget
  have hsy' := ingestStable_syncing env.bound sys'.st budget
  cases h1 : sys.st.ingestStable env.bound budget with
  | trap m =>
    rw [h1] at hsim
    cases h2 : sys'.st.ingestStable env.bound budget with
    | trap m' => exact .trap
    | paused b => rw [h2] at hsim; cases hsim
    | done b w => rw [h2] at hsim; cases hsim
  | paused a =>
    rw [h1] at hsim hsy
    cases h2 : sys'.st.ingestStable env.bound budget with
    | trap m' => rw [h2] at hsim; cases hsim
    | done b w => rw [h2] at hsim; cases hsim
    | paused b =>
      rw [h2] at hsim hsy'
      cases hsim with
      | paused hab => exact .ingested true ⟨hab, by rw [show a.syncing = sys.st.syncing from hsy, show b.syncing = sys'.st.syncing from hsy']; exact h.2⟩
  | done a w =>
    rw [h1] at hsim hsy
    cases h2 : sys'.st.ingestStable env.bound budget with
    | trap m' => rw [h2] at hsim; cases hsim
    | paused b => rw [h2] at hsim; cases hsim
    | done b w' =>
      rw [h2] at hsim hsy'
      cases hsim with
      | done _ hab =>
        have hms : MS a b := ⟨hab, by rw [show a.syncing = sys.st.syncing from hsy, show b.syncing = sys'.st.syncing from hsy']; exact h.2⟩
        cases w with
        | true => exact .ingested false hms
        | false =>
          dsimp only
          have ea := ingestStable_done_false h1
          have eb := ingestStable_done_false h2
          subst ea eb
          unfold afterIngest
          rw [ms_fetchDecision h]
          cases fetchDecision sys.st with
          | none => exact .trap
          | some o =>
            cases o with
            | some req =>
              exact .awaiting req (ms_map_syncing h (fun sy => { sy with isFetching := true }))
            | none => exact ms_finish hr hr' h env budget ht ht' h1 h2


/-! ### the environment assumption is insensitive to the metrics -/

theorem passesValidation_withTree (env : Env) (s : State) {t' : Tree CBlock}
    (h : TSim s.unstable.tree t') (b : Block) :
    passesValidation env (withTree s t') b = passesValidation env s b := by
  unfold passesValidation
  rw [validationContext_withTree s h]
  rfl

theorem pushDomain_withTree (s : State) {t' : Tree CBlock} (ht : TSim s.unstable.tree t')
    (G : List Block) (b : Block) (h : PushDomain s G b) : PushDomain (withTree s t') G b :=
  { fresh := by
      rw [show (withTree s t').unstable.tree = t' from rfl, ← TSim.blocks ht]; exact h.fresh
    parent := by
      rw [show (withTree s t').unstable.tree = t' from rfl, ← TSim.contains ht]; exact h.parent
    valid := fun p hp => h.valid p (by
      rw [show (withTree s t').unstable.tree = t' from rfl, ← TSim.pathBlocks ht] at hp; exact hp)
    unique := fun p hp => h.unique p (by
      rw [show (withTree s t').unstable.tree = t' from rfl, ← TSim.pathBlocks ht] at hp; exact hp)
    consistent := by
      rw [show (withTree s t').unstable.tree = t' from rfl, ← TSim.blocks ht]; exact h.consistent }

theorem insertedHeadersAll_cons (env : Env) (s : State) (raw : String) (rest : List String) :
    insertedHeadersAll env s (raw :: rest) =
      match env.dec.header raw with
      | none => []
      | some h =>
        if (s.unstable.next.getHeader h.hash).isSome then insertedHeadersAll env s rest
        else
          match validationContextWithNext s (hdrOfNext h) with
          | .error _ => []
          | .ok chain =>
            match Header.validateHeader s.network (validationStore s chain) (hdrOfNext h) env.now with
            | .ok =>
              match s.unstable.insertNextHeader h s.stableHeight with
              | none => []
              | some u => h :: insertedHeadersAll env { s with unstable := u } rest
            | _ => [] := by
  rw [insertedHeadersAll]
  rfl

theorem insertedHeadersAll_withTree (env : Env) : ∀ (raws : List String) (s : State)
    {t' : Tree CBlock}, TSim s.unstable.tree t' →
    insertedHeadersAll env (withTree s t') raws = insertedHeadersAll env s raws
  | [], s, t', _ => rfl
  | raw :: rest, s, t', h => by
    rw [insertedHeadersAll_cons, insertedHeadersAll_cons]
    cases env.dec.header raw with
    | none => rfl
    | some nh =>
      dsimp only
      have e1 : (withTree s t').unstable.next = s.unstable.next := rfl
      have en : (withTree s t').network = s.network := rfl
      have es : ∀ chain, validationStore (withTree s t') chain = validationStore s chain :=
        fun _ => rfl
      have esh : (withTree s t').stableHeight = s.stableHeight := rfl
      rw [e1, validationContextWithNext_withTree s h, insertNextHeader_withTree s h]
      simp only [en, es, esh]
      by_cases hg : (s.unstable.next.getHeader nh.hash).isSome = true
      · rw [if_pos hg, if_pos hg]
        exact insertedHeadersAll_withTree env rest s h
      · rw [if_neg hg, if_neg hg]
        cases validationContextWithNext s (hdrOfNext nh) with
        | error e => rfl
        | ok chain =>
          dsimp only
          cases Header.validateHeader s.network (validationStore s chain) (hdrOfNext nh) env.now with
          | trap => rfl
          | err e => rfl
          | ok =>
            dsimp only
            cases hi : s.unstable.insertNextHeader nh s.stableHeight with
            | none => rfl
            | some u =>
              simp only [Option.map_some]
              have hu : u.tree = s.unstable.tree := insertNextHeader_tree hi
              congr 1
              exact insertedHeadersAll_withTree env rest { s with unstable := u }
                (t' := t') (by rw [show ({ s with unstable := u } : State).unstable.tree = u.tree from rfl, hu]; exact h)

theorem trustedBlocks_ms (env : Env) (G : List Block) : ∀ (blobs : List String) {s s' : State},
    MS s s' → TrustedBlocks env G s blobs → TrustedBlocks env G s' blobs
  | [], _, _, _, _ => by simp only [TrustedBlocks]
  | blob :: rest, s, s', h, ht => by
    simp only [TrustedBlocks] at ht ⊢
    intro b hb
    obtain ⟨h1, h2⟩ := ht b hb
    refine ⟨fun hv => ?_, fun s2' hi' => ?_⟩
    · obtain ⟨t', htt, rfl⟩ := h.exists_tree
      exact pushDomain_withTree s htt G b
        (h1 (by rw [← passesValidation_withTree env s htt b]; exact hv))
    · have hrel := ms_insertBlock env h b
      rw [hi'] at hrel
      cases hi : insertBlock env s b with
      | ok s2 =>
        rw [hi] at hrel
        cases hrel with
        | ok hab => exact trustedBlocks_ms env G rest hab (h2 s2 hi)
      | rejected w => rw [hi] at hrel; cases hrel
      | trap => rw [hi] at hrel; cases hrel

theorem trustedResponse_ms (env : Env) {s s' : State} {G : List Block} (h : MS s s')
    (ht : TrustedResponse env s G) : TrustedResponse env s' G := by
  intro r hr
  rw [← h.2] at hr
  obtain ⟨t1, t2⟩ := ht r hr
  have h0 : MS { s with syncing := { s.syncing with response := none } }
      { s' with syncing := { s'.syncing with response := none } } :=
    ms_map_syncing h (fun sy => { sy with response := none })
  dsimp only
  refine ⟨trustedBlocks_ms env G r.blocks h0 t1, ?_⟩
  intro s1' hp' nh hnh
  have hrel := ms_processBlocks env r.blocks h0
  rw [hp'] at hrel
  cases hp : processBlocks env { s with syncing := { s.syncing with response := none } } r.blocks with
  | none => rw [hp] at hrel; exact absurd hrel id
  | some x =>
    obtain ⟨s1, st⟩ := x
    rw [hp] at hrel
    obtain ⟨hab, hst⟩ := hrel
    subst hst
    obtain ⟨t', htt, rfl⟩ := hab.exists_tree
    unfold insertedHeaders at hnh
    rw [insertedHeadersAll_withTree env _ s1 htt] at hnh
    have := t2 s1 hp nh hnh
    rw [show (withTree s1 t').unstable.tree = t' from rfl, ← TSim.hashes htt]
    exact this

/-- **the environment assumption for a message holds in a configuration iff it holds in one that
    agrees with it up to metrics** (one direction; `MS` is symmetric) -/
theorem trusted_ms (env : Env) {c c' : Cfg} (hg : c.2 = c'.2) (h : MS c.1.st c'.1.st) (m : Msg)
    (ht : Trusted env c m) : Trusted env c' m := by
  cases m with
  | heartbeat b =>
    intro hp
    have h2 := pastIngestion_iff.mp hp
    have hsim := sim_ingestStable env.bound h.1 b
    rw [h2] at hsim
    have hp0 : pastIngestion env c.1.st b = true := by
      unfold pastIngestion
      cases h1 : c.1.st.ingestStable env.bound b with
      | trap m => rw [h1] at hsim; cases hsim
      | paused a => rw [h1] at hsim; cases hsim
      | done a w => rw [h1] at hsim; cases hsim; rfl
    rw [← hg]
    exact trustedResponse_ms env h (ht hp0)
  | reply r => trivial
  | upgrade cfg => trivial
  | setConfig cfg => trivial
  | call cl => trivial


/-! ### ingestion rounds in similar states -/

open Btc.Lemmas.FetchLive in
theorem sim_ingestOnce (env : Env) (b : Nat) {s s' : State} (h : Sim s s') :
    Sim (ingestOnce env b s) (ingestOnce env b s') := by
  have hsim := sim_ingestStable env.bound h b
  unfold ingestOnce
  revert hsim
  generalize s.ingestStable env.bound b = r1
  generalize s'.ingestStable env.bound b = r2
  intro hsim
  cases hsim with
  | paused hab => exact hab
  | done w hab =>
    cases w with
    | true => exact hab
    | false => exact h
  | trap m => exact h

open Btc.Lemmas.FetchLive in
/-- similar states need the same number of ingestion rounds -/
theorem sim_settles (env : Env) (b : Nat) : ∀ (n : Nat) {s s' : State}, Sim s s' →
    settles env b n s = settles env b n s'
  | 0, s, s', h => by
    have hsim := sim_ingestStable env.bound h b
    unfold settles quiet
    revert hsim
    generalize s.ingestStable env.bound b = r1
    generalize s'.ingestStable env.bound b = r2
    intro hsim
    cases hsim with
    | paused hab => rfl
    | done w hab => cases w <;> rfl
    | trap m => rfl
  | n + 1, s, s', h => by
    have hsim := sim_ingestStable env.bound h b
    unfold settles
    revert hsim
    generalize s.ingestStable env.bound b = r1
    generalize s'.ingestStable env.bound b = r2
    intro hsim
    cases hsim with
    | paused hab => exact sim_settles env b n hab
    | done w hab =>
      cases w with
      | true => exact sim_settles env b n hab
      | false => rfl
    | trap m => rfl

open Btc.Lemmas.FetchLive in
/-- … and are similar after them -/
theorem sim_settled (env : Env) (b : Nat) : ∀ (n : Nat) {s s' : State}, Sim s s' →
    Sim (settled env b n s) (settled env b n s')
  | 0, _, _, h => h
  | n + 1, s, s', h => by
    unfold settled
    exact sim_settled env b n (sim_ingestOnce env b h)

/-- the tip-depth cache is exact in every state satisfying `Inv2` (paused or not) -/
theorem tipDepths_of_inv2 {s : State} {G : List Block} (h2 : Inv2 s G) :
    s.unstable.tipDepthsCache = s.unstable.tree.tipDepths := by
  rcases h2 with hA | ⟨s0, A, B, hA, hP⟩
  · exact hA.invU.inv.caches.tipDepths
  · rw [hP.unstable]; exact hA.invU.inv.caches.tipDepths

/-! ### what an upgrade forgets -/

/-- release the fetch guard and drop the stored response (complete or partial):
    `reset_syncing_state` of `canister/src/lib.rs` -/
def resetFetch (s : State) : State :=
  { s with syncing := { s.syncing with isFetching := false, response := none } }

/-- apply the optional configuration argument of `post_upgrade` (as `set_config` would) -/
def applyCfg : Option SetConfig → State → State
  | none, s => s
  | some c, s => setConfig s c

/-- **the upgraded state is, up to the cached metrics, the old state with the fetch state reset
    and the configuration applied** -/
theorem ms_upgrade_reset (s : State) (ht : s.unstable.tipDepthsCache = s.unstable.tree.tipDepths)
    (cfg : Option SetConfig) : MS (s.upgrade cfg) (applyCfg cfg (resetFetch s)) := by
  have h0 : MS (s.upgrade none) (resetFetch s) :=
    ⟨(sim_upgrade s ht).trans (show Sim s (resetFetch s) from rfl), rfl⟩
  cases cfg with
  | none => exact h0
  | some c =>
    rw [C09.upgrade_some]
    exact ms_setConfig h0 c

theorem sim_applyCfg_reset (s : State) (cfg : Option SetConfig) :
    Sim (applyCfg cfg (resetFetch s)) (applyCfg cfg s) := by
  cases cfg with
  | none => rfl
  | some c =>
    show norm (setConfig (resetFetch s) c) = norm (setConfig s c)
    rw [C09.setConfig_eq, C09.setConfig_eq]
    rfl

/-- the ledger part after an upgrade is similar to the one of the un-upgraded canister to which
    the same configuration is applied by `set_config` -/
theorem sim_upgrade_applyCfg (s : State) (ht : s.unstable.tipDepthsCache = s.unstable.tree.tipDepths)
    (cfg : Option SetConfig) : Sim (s.upgrade cfg) (applyCfg cfg s) :=
  (ms_upgrade_reset s ht cfg).1.trans (sim_applyCfg_reset s cfg)

theorem treeWork_upgrade (s : State) (cfg : Option SetConfig) :
    FetchLive.treeWork (s.upgrade cfg) = FetchLive.treeWork s := by
  unfold FetchLive.treeWork
  rw [(C09.stripped_upgrade' s cfg).tree, Tree.blocks_mapT, List.map_map]
  rfl

end Btc.Lemmas.C09Sim
