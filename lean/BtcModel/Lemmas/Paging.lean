import BtcModel.Lemmas.QueryInv
import BtcModel.Props.C01

/-!
  Pagination of `get_utxos` (core of C06): giving `AddressUtxoSet::into_iter` the page offset
  `(height, outpoint)` of the `k`-th element of the complete answer returns exactly the suffix of
  the complete answer that starts at that element.
-/
namespace Btc
open Btc.Spec

/-! ### generic list lemmas -/

section Generic
variable {α β : Type}

/-- a predicate that is false on `l₁` and true on `l₂` filters `l₁ ++ l₂` to `l₂` -/
theorem filter_append_eq_right (p : α → Bool) (l₁ l₂ : List α) (h1 : ∀ y ∈ l₁, p y = false)
    (h2 : ∀ y ∈ l₂, p y = true) : (l₁ ++ l₂).filter p = l₂ := by
  rw [List.filter_append, List.filter_eq_nil_iff.mpr (fun y hy => by simp [h1 y hy]),
    List.filter_eq_self.mpr h2]
  rfl

/-- **Filtering a sorted list from one of its elements on is `drop`**: if `l` is pairwise `R`,
    `x` is its `k`-th element, `p x` holds, `p` fails on everything `R`-before `x` and holds on
    everything `R`-after `x`, then `l.filter p = l.drop k`. -/
theorem filter_eq_drop_of_pairwise (R : α → α → Prop) (p : α → Bool) (l : List α)
    (hl : l.Pairwise R) (k : Nat) (x : α) (hk : l[k]? = some x) (hx : p x = true)
    (hlt : ∀ y ∈ l, R y x → p y = false) (hgt : ∀ y ∈ l, R x y → p y = true) :
    l.filter p = l.drop k := by
  obtain ⟨hlen, hget⟩ := List.getElem?_eq_some_iff.mp hk
  have hsplit : l = l.take k ++ l.drop k := (List.take_append_drop k l).symm
  have hdrop : l.drop k = x :: l.drop (k + 1) := by
    rw [List.drop_eq_getElem_cons hlen, hget]
  have hpw := hl
  rw [hsplit, List.pairwise_append] at hpw
  obtain ⟨_, hpd, hcross⟩ := hpw
  have hxm : x ∈ l.drop k := by rw [hdrop]; exact List.mem_cons_self
  conv => lhs; rw [hsplit]
  apply filter_append_eq_right
  · intro y hy
    exact hlt y (List.mem_of_mem_take hy) (hcross y hy x hxm)
  · intro y hy
    rw [hdrop] at hy hpd
    rcases List.mem_cons.mp hy with rfl | hy'
    · exact hx
    · exact hgt y (List.mem_of_mem_drop hy') ((List.pairwise_cons.mp hpd).1 y hy')

end Generic

/-! ### order lemmas: byte strings -/

theorem lexLt_irrefl (a : List Nat) : lexLt a a = false := by
  cases h : lexLt a a with
  | false => rfl
  | true =>
    have := lexLt_asymm a a h
    rw [h] at this
    exact Bool.noConfusion this

/-- `lexLt` is total: two byte strings neither of which is smaller are equal -/
theorem lexLt_total (a b : List Nat) (h1 : lexLt a b = false) (h2 : lexLt b a = false) : a = b := by
  induction a generalizing b with
  | nil =>
    cases b with
    | nil => rfl
    | cons y b => simp [lexLt] at h1
  | cons x a ih =>
    cases b with
    | nil => simp [lexLt] at h2
    | cons y b =>
      rw [lexLt_cons] at h1 h2
      simp only [Bool.or_eq_false_iff, decide_eq_false_iff_not, Bool.and_eq_false_iff,
        beq_eq_false_iff_ne, ne_eq] at h1 h2
      have hxy : x = y := by omega
      subst hxy
      rw [ih b (by simpa using h1.2) (by simpa using h2.2)]

theorem beBytes_inj (n x y : Nat) (hx : x < 256 ^ n) (hy : y < 256 ^ n)
    (h : beBytes n x = beBytes n y) : x = y := by
  rcases Nat.lt_trichotomy x y with hlt | heq | hgt
  · have := beBytes_lt_of_lt n x y hy hlt
    rw [h, lexLt_irrefl] at this
    exact Bool.noConfusion this
  · exact heq
  · have := beBytes_lt_of_lt n y x hx hgt
    rw [h, lexLt_irrefl] at this
    exact Bool.noConfusion this

theorem leBytes_inj (n x y : Nat) (hx : x < 256 ^ n) (hy : y < 256 ^ n)
    (h : leBytes n x = leBytes n y) : x = y := by
  induction n generalizing x y with
  | zero => simp at hx hy; omega
  | succ n ih =>
    simp only [leBytes, List.cons.injEq] at h
    have hx' : x / 256 < 256 ^ n := by
      rw [Nat.pow_succ] at hx
      exact Nat.div_lt_of_lt_mul (by rw [Nat.mul_comm]; exact hx)
    have hy' : y / 256 < 256 ^ n := by
      rw [Nat.pow_succ] at hy
      exact Nat.div_lt_of_lt_mul (by rw [Nat.mul_comm]; exact hy)
    have := ih _ _ hx' hy' h.2
    omega

theorem heightBytes_inj (h1 h2 : Nat) (hb1 : h1 < 2 ^ 32) (hb2 : h2 < 2 ^ 32)
    (h : heightBytes h1 = heightBytes h2) : h1 = h2 := by
  rcases Nat.lt_trichotomy h1 h2 with hlt | heq | hgt
  · have := heightBytes_lt_of_gt h1 h2 hb2 hlt
    rw [h, lexLt_irrefl] at this
    exact Bool.noConfusion this
  · exact heq
  · have := heightBytes_lt_of_gt h2 h1 hb1 hgt
    rw [h, lexLt_irrefl] at this
    exact Bool.noConfusion this

theorem heightBytes_length (h : Nat) : (heightBytes h).length = 4 := by
  simp [heightBytes, beBytes_length]

/-- the fields of an index entry fit their fixed-width encodings -/
def IdxEntry.InRange (e : IdxEntry) : Prop :=
  e.height < 2 ^ 32 ∧ e.op.txid < 2 ^ 256 ∧ e.op.vout < 2 ^ 32

/-- `AddressUtxo::to_bytes` is injective on entries of one address whose fields are in range -/
theorem key_inj (e1 e2 : IdxEntry) (ha : e1.addr = e2.addr) (h1 : e1.InRange) (h2 : e2.InRange)
    (h : e1.key = e2.key) : e1 = e2 := by
  obtain ⟨a1, ht1, ⟨t1, v1⟩⟩ := e1
  obtain ⟨a2, ht2, ⟨t2, v2⟩⟩ := e2
  simp only at ha
  subst ha
  simp only [IdxEntry.InRange] at h1 h2
  simp only [IdxEntry.key, outPointBytes, List.append_assoc, List.append_cancel_left_eq] at h
  obtain ⟨hh, hrest⟩ := List.append_inj h (by simp [heightBytes_length])
  obtain ⟨htx, hv⟩ := List.append_inj hrest (by simp [beBytes_length])
  have e256 : (256 : Nat) ^ 32 = 2 ^ 256 := by decide
  have e32 : (256 : Nat) ^ 4 = 2 ^ 32 := by decide
  have := heightBytes_inj _ _ h1.1 h2.1 hh
  have := beBytes_inj 32 _ _ (by rw [e256]; exact h1.2.1) (by rw [e256]; exact h2.2.1) htx
  have := leBytes_inj 4 _ _ (by rw [e32]; exact h1.2.2) (by rw [e32]; exact h2.2.2) hv
  simp_all

/-! ### order lemmas: `Utxo` -/

theorem Utxo.lt_asymm' (x y : Utxo) (h : Utxo.lt x y = true) : Utxo.lt y x = false := by
  obtain ⟨hx, ⟨tx, vx⟩, wx⟩ := x
  obtain ⟨hy, ⟨ty, vy⟩, wy⟩ := y
  simp only [Utxo.lt, OutPoint.lt, Bool.or_eq_true, Bool.and_eq_true, decide_eq_true_eq, beq_iff_eq,
    Bool.or_eq_false_iff, Bool.and_eq_false_iff, decide_eq_false_iff_not, beq_eq_false_iff_ne, ne_eq,
    OutPoint.mk.injEq, gt_iff_lt] at h ⊢
  omega

theorem Utxo.le_trans' (x y z : Utxo) (h1 : Utxo.lt y x = false) (h2 : Utxo.lt z y = false) :
    Utxo.lt z x = false := by
  obtain ⟨hx, ⟨tx, vx⟩, wx⟩ := x
  obtain ⟨hy, ⟨ty, vy⟩, wy⟩ := y
  obtain ⟨hz, ⟨tz, vz⟩, wz⟩ := z
  simp only [Utxo.lt, OutPoint.lt,
    Bool.or_eq_false_iff, Bool.and_eq_false_iff, decide_eq_false_iff_not, beq_eq_false_iff_ne, ne_eq,
    OutPoint.mk.injEq, gt_iff_lt] at h1 h2 ⊢
  omega

/-- `Ord for Utxo` is total -/
theorem Utxo.lt_total (x y : Utxo) (h1 : Utxo.lt x y = false) (h2 : Utxo.lt y x = false) : x = y := by
  obtain ⟨hx, ⟨tx, vx⟩, wx⟩ := x
  obtain ⟨hy, ⟨ty, vy⟩, wy⟩ := y
  simp only [Utxo.lt, OutPoint.lt,
    Bool.or_eq_false_iff, Bool.and_eq_false_iff, decide_eq_false_iff_not, beq_eq_false_iff_ne, ne_eq,
    OutPoint.mk.injEq, gt_iff_lt] at h1 h2
  simp only [Utxo.mk.injEq, OutPoint.mk.injEq]
  omega

/-- comparing with the page offset built from `x` is comparing with `x`, for every `u` that does
    not share `x`'s outpoint without being `x` -/
theorem Utxo.lt_offset (u x : Utxo) (h : u.outpoint = x.outpoint → u = x) :
    Utxo.lt u ⟨x.height, x.outpoint, 0⟩ = Utxo.lt u x := by
  by_cases ho : u.outpoint = x.outpoint
  · rw [h ho]
    simp [Utxo.lt, OutPoint.lt]
  · have : (u.outpoint == x.outpoint) = false := by simpa using ho
    simp [Utxo.lt, this]

/-! ### more generic list lemmas -/

section Generic2
variable {α β : Type}

theorem eq_of_map_nodup (f : α → β) (l : List α) (h : (l.map f).Nodup) :
    ∀ x ∈ l, ∀ y ∈ l, f x = f y → x = y := by
  induction l with
  | nil => intro x hx; simp at hx
  | cons z zs ih =>
    rw [List.map_cons, List.nodup_cons] at h
    intro x hx y hy hxy
    rcases List.mem_cons.mp hx with rfl | hx' <;> rcases List.mem_cons.mp hy with rfl | hy'
    · rfl
    · exact absurd (hxy ▸ List.mem_map.mpr ⟨y, hy', rfl⟩) h.1
    · exact absurd (hxy ▸ List.mem_map.mpr ⟨x, hx', rfl⟩) h.1
    · exact ih h.2 x hx' y hy' hxy

theorem filterMap_drop_of_isSome (g : α → Option β) (l : List α) (h : ∀ e ∈ l, (g e).isSome = true)
    (j : Nat) : (l.drop j).filterMap g = (l.filterMap g).drop j := by
  induction l generalizing j with
  | nil => simp
  | cons e es ih =>
    cases j with
    | zero => simp
    | succ j =>
      obtain ⟨v, hv⟩ := Option.isSome_iff_exists.mp (h e List.mem_cons_self)
      rw [List.drop_succ_cons, List.filterMap_cons, hv, List.drop_succ_cons]
      exact ih (fun e' he' => h e' (List.mem_cons_of_mem _ he')) j

theorem getElem?_filterMap_of_isSome (g : α → Option β) (l : List α)
    (h : ∀ e ∈ l, (g e).isSome = true) (j : Nat) (x : β) (hj : (l.filterMap g)[j]? = some x) :
    ∃ e, l[j]? = some e ∧ g e = some x := by
  induction l generalizing j with
  | nil => simp at hj
  | cons e es ih =>
    obtain ⟨v, hv⟩ := Option.isSome_iff_exists.mp (h e List.mem_cons_self)
    rw [List.filterMap_cons, hv] at hj
    cases j with
    | zero =>
      simp only [List.getElem?_cons_zero, Option.some.injEq] at hj
      exact ⟨e, by simp, by rw [hv, hj]⟩
    | succ j =>
      simp only [List.getElem?_cons_succ] at hj
      obtain ⟨e', he', hg⟩ := ih (fun e' he' => h e' (List.mem_cons_of_mem _ he')) j hj
      exact ⟨e', by simpa using he', hg⟩

end Generic2

/-! ### the unstable part under an offset -/

theorem sortBy_utxo_sorted (l : List Utxo) :
    (sortBy Utxo.lt l).Pairwise (fun u1 u2 => Utxo.lt u2 u1 = false) :=
  sortBy_pairwise Utxo.lt _ (fun x y z h1 h2 => Utxo.le_trans' x y z h1 h2)
    (fun x y h => Utxo.lt_asymm' x y h) (fun _ _ h => h) l

theorem unstablePart_sorted (A : List Utxo) (R : List OutPoint) :
    (unstablePart A R).Pairwise (fun u1 u2 => Utxo.lt u2 u1 = false) :=
  (sortBy_utxo_sorted _).filter _

/-- **Unstable side of a page offset**: on a list in `Utxo` order with pairwise distinct outpoints,
    keeping the elements `≥ (x.height, x.outpoint, 0)` is dropping everything before `x`. -/
theorem utxo_filter_offset (U : List Utxo) (hs : U.Pairwise (fun u1 u2 => Utxo.lt u2 u1 = false))
    (hnd : (U.map (·.outpoint)).Nodup) (k : Nat) (x : Utxo) (hk : U[k]? = some x) :
    U.filter (fun u => Utxo.le ⟨x.height, x.outpoint, 0⟩ u) = U.drop k := by
  have hxm : x ∈ U := List.mem_of_getElem? hk
  have hoff : ∀ u ∈ U, Utxo.lt u ⟨x.height, x.outpoint, 0⟩ = Utxo.lt u x := fun u hu =>
    Utxo.lt_offset u x (eq_of_map_nodup _ U hnd u hu x hxm)
  have hirr : Utxo.lt x x = false := by
    cases h : Utxo.lt x x with
    | false => rfl
    | true => have := Utxo.lt_asymm' x x h; rw [h] at this; exact Bool.noConfusion this
  apply filter_eq_drop_of_pairwise (fun u1 u2 => Utxo.lt u2 u1 = false ∧ u1 ≠ u2) _ U
    (hs.and (nodup_of_map_nodup _ _ hnd)) k x hk
  · simp only [Utxo.le, hoff x hxm, hirr, Bool.not_false]
  · intro y hy ⟨hle, hne⟩
    simp only [Utxo.le, hoff y hy]
    cases h : Utxo.lt y x with
    | true => rfl
    | false => exact absurd (Utxo.lt_total y x h hle) hne
  · intro y hy ⟨hle, _⟩
    simp only [Utxo.le, hoff y hy, hle, Bool.not_false]

/-! ### the stable part under an offset -/

/-- the ledger's heights, transaction ids and output indices fit the index key encoding
    (`u32` height, 32-byte txid, `u32` vout) -/
def LedgerRange (l : LedgerMap) : Prop :=
  ∀ e ∈ l, e.2.2 < 2 ^ 32 ∧ e.1.txid < 2 ^ 256 ∧ e.1.vout < 2 ^ 32

theorem index_inRange (u : UtxoSet) (l : LedgerMap) (hs : StableIs u l) (hr : LedgerRange l)
    (e : IdxEntry) (he : e ∈ u.index) : e.InRange := by
  obtain ⟨t, hf, _⟩ := (hs.indexEq e).mp he
  exact hr _ (AList.mem_of_find? l _ _ hf)

theorem index_height (u : UtxoSet) (l : LedgerMap) (hs : StableIs u l) (n : Nat)
    (hl : ∀ e ∈ l, e.2.2 < n) (e : IdxEntry) (he : e ∈ u.index) : e.height < n := by
  obtain ⟨t, hf, _⟩ := (hs.indexEq e).mp he
  exact hl _ (AList.mem_of_find? l _ _ hf)

/-- the scanned index entries of address `a` from the offset on, in key order -/
def scanEntriesFrom (u : UtxoSet) (a : Addr) (off : Utxo) : List IdxEntry :=
  (u.rangeScan a (some off)).filter (fun e => e.addr == a)

theorem scanEntriesFrom_mem (u : UtxoSet) (a : Addr) (off : Utxo) (e : IdxEntry)
    (he : e ∈ scanEntriesFrom u a off) : e ∈ u.index ∧ e.addr = a := by
  unfold scanEntriesFrom UtxoSet.rangeScan at he
  rw [List.mem_filter] at he
  have := (sortBy_perm _ _).mem_iff.mp he.1
  exact ⟨(List.mem_filter.mp this).1, by simpa using he.2⟩

theorem scanEntriesFrom_sorted (u : UtxoSet) (a : Addr) (off : Utxo) :
    (scanEntriesFrom u a off).Pairwise (fun e1 e2 => lexLt e2.key e1.key = false) := by
  unfold scanEntriesFrom UtxoSet.rangeScan
  apply List.Pairwise.filter
  apply sortBy_pairwise (fun (x y : IdxEntry) => lexLt x.key y.key)
    (fun (e1 e2 : IdxEntry) => lexLt e2.key e1.key = false)
  · intro x y z h1 h2; exact lexLe_trans _ _ _ h1 h2
  · intro x y h; exact lexLt_asymm _ _ h
  · intro x y h; exact h

theorem scanEntries_nodup (u : UtxoSet) (a : Addr) (hnd : u.index.Nodup) : (scanEntries u a).Nodup := by
  unfold scanEntries UtxoSet.rangeScan
  apply List.Nodup.sublist List.filter_sublist
  exact (sortBy_perm _ _).nodup_iff.mpr (hnd.sublist List.filter_sublist)

/-- **The range scan with an offset is the scan without offset, cut at the offset key.**
    (Both are the index entries of `a` with key `≥` the offset key, in key order; keys of one
    address are pairwise distinct because the fields are in range.) -/
theorem scanEntriesFrom_eq (u : UtxoSet) (l : LedgerMap) (hs : StableIs u l) (hr : LedgerRange l)
    (a : Addr) (off : Utxo) :
    scanEntriesFrom u a off =
      (scanEntries u a).filter (fun e => lexLe (IdxEntry.mk a off.height off.outpoint).key e.key) := by
  apply List.Perm.eq_of_pairwise (le := fun (e1 e2 : IdxEntry) => lexLt e2.key e1.key = false)
  · intro e1 e2 h1 h2 h12 h21
    have m1 := scanEntriesFrom_mem u a off e1 h1
    have m2 := scanEntries_mem u a e2 (List.mem_filter.mp h2).1
    exact key_inj e1 e2 (by rw [m1.2, m2.2]) (index_inRange u l hs hr e1 m1.1)
      (index_inRange u l hs hr e2 m2.1) (lexLt_total _ _ h21 h12)
  · exact scanEntriesFrom_sorted u a off
  · exact (scanEntries_sorted u a).filter _
  · unfold scanEntriesFrom scanEntries UtxoSet.rangeScan
    refine ((sortBy_perm _ _).filter _).trans ?_
    refine List.Perm.trans ?_ (((sortBy_perm _ _).filter _).filter _).symm
    apply List.Perm.of_eq
    rw [List.filter_filter, List.filter_filter, List.filter_filter]
    apply List.filter_congr
    intro e _
    by_cases h : e.addr = a
    · have hin := UtxoSet.inRange_of_addr a e h
      rw [Bool.and_eq_true] at hin
      have h1 := hin.1
      simp only [UtxoSet.rangeStart] at h1
      simp only [UtxoSet.rangeStart, h1, hin.2, h, beq_self_eq_true, Bool.true_and, Bool.and_true]
    · have hb : (e.addr == a) = false := beq_eq_false_iff_ne.mpr h
      simp only [hb, Bool.false_and, Bool.and_false]

/-- the UTXO `AddressUtxoSet::into_iter` builds from an index entry -/
def entryUtxo (s : State) (e : IdxEntry) : Option Utxo :=
  (s.utxos.getUtxo e.op).map (fun p => Utxo.mk p.2 e.op p.1.value)

theorem entryUtxo_of_index (s : State) (l : LedgerMap) (hs : StableIs s.utxos l) (e : IdxEntry)
    (he : e ∈ s.utxos.index) :
    ∃ u, entryUtxo s e = some u ∧ u.height = e.height ∧ u.outpoint = e.op := by
  obtain ⟨t, hf, _⟩ := (hs.indexEq e).mp he
  refine ⟨⟨e.height, e.op, t.value⟩, ?_, rfl, rfl⟩
  unfold entryUtxo
  rw [getUtxo_stable s.utxos l hs, hf]
  rfl

/-- the stable part of the iterator when an offset is given -/
def stablePartFrom (s : State) (a : Addr) (R : List OutPoint) (off : Utxo) : List Utxo :=
  ((s.utxos.getAddressOutpoints a (some off)).filter (fun o => !(R.contains o))).filterMap
    (fun o => (s.utxos.getUtxo o).map (fun p => Utxo.mk p.2 o p.1.value))

theorem stablePartFrom_eq_entries (s : State) (a : Addr) (R : List OutPoint) (off : Utxo)
    (h : s.utxos.ingesting = none) :
    stablePartFrom s a R off =
      ((scanEntriesFrom s.utxos a off).filter (fun e => !(R.contains e.op))).filterMap (entryUtxo s) := by
  unfold stablePartFrom scanEntriesFrom
  rw [UtxoSet.getAddressOutpoints_notIngesting _ _ _ h, List.filter_map, List.filterMap_map]
  rfl

theorem stablePart_eq_entries' (s : State) (a : Addr) (R : List OutPoint)
    (h : s.utxos.ingesting = none) :
    stablePart s a R =
      ((scanEntries s.utxos a).filter (fun e => !(R.contains e.op))).filterMap (entryUtxo s) :=
  stablePart_eq_entries s a R h

/-- `AddressUtxoSet::into_iter` with an offset does not panic and merges the two offset parts -/
theorem addressUtxos_from_eq (s : State) (l : LedgerMap) (hs : StableIs s.utxos l) (a : Addr)
    (A : List Utxo) (R : List OutPoint) (off : Utxo) :
    State.addressUtxos s a A R (some off) =
      some (multiIter Utxo.lt (stablePartFrom s a R off)
        ((unstablePart A R).filter (fun u => off.le u))) := by
  unfold State.addressUtxos stablePartFrom unstablePart
  have hany : (((s.utxos.getAddressOutpoints a (some off)).filter (fun o => !(R.contains o))).map
      (fun o => (s.utxos.getUtxo o).map (fun p => Utxo.mk p.2 o p.1.value))).any Option.isNone = false := by
    rw [List.any_eq_false]
    intro y hy
    obtain ⟨o, ho, rfl⟩ := List.mem_map.mp hy
    have ho' := (List.mem_filter.mp ho).1
    rw [UtxoSet.getAddressOutpoints_notIngesting _ _ _ hs.notIngesting] at ho'
    obtain ⟨e, he, rfl⟩ := List.mem_map.mp ho'
    obtain ⟨u, hu, _⟩ := entryUtxo_of_index s l hs e (scanEntriesFrom_mem s.utxos a off e he).1
    unfold entryUtxo at hu
    rw [hu]
    simp
  simp only [hany, Bool.false_eq_true, if_false, List.filterMap_map, Function.comp_def, id]

/-- all scanned entries (after removing `R`) yield a UTXO -/
theorem entries_isSome (s : State) (l : LedgerMap) (hs : StableIs s.utxos l) (a : Addr)
    (R : List OutPoint) :
    ∀ e ∈ (scanEntries s.utxos a).filter (fun e => !(R.contains e.op)), (entryUtxo s e).isSome = true := by
  intro e he
  obtain ⟨u, hu, _⟩ := entryUtxo_of_index s l hs e (scanEntries_mem _ _ _ (List.mem_filter.mp he).1).1
  rw [hu]; rfl

theorem stablePartFrom_eq_filter (s : State) (l : LedgerMap) (hs : StableIs s.utxos l)
    (hr : LedgerRange l) (a : Addr) (R : List OutPoint) (off : Utxo) :
    stablePartFrom s a R off =
      (((scanEntries s.utxos a).filter (fun e => !(R.contains e.op))).filter
        (fun e => lexLe (IdxEntry.mk a off.height off.outpoint).key e.key)).filterMap (entryUtxo s) := by
  rw [stablePartFrom_eq_entries s a R off hs.notIngesting, scanEntriesFrom_eq s.utxos l hs hr a off,
    List.filter_filter, List.filter_filter]
  congr 1
  apply List.filter_congr
  intro e _
  exact Bool.and_comm _ _

/-- **Stable side, offset at a stable element**: the scan from the offset key of the `k`-th stable
    element returns the stable part from that element on. -/
theorem stablePartFrom_of_mem (s : State) (l : LedgerMap) (hs : StableIs s.utxos l)
    (hr : LedgerRange l) (a : Addr) (R : List OutPoint) (k : Nat) (x : Utxo)
    (hk : (stablePart s a R)[k]? = some x) :
    stablePartFrom s a R ⟨x.height, x.outpoint, 0⟩ = (stablePart s a R).drop k := by
  have hsome := entries_isSome s l hs a R
  rw [stablePartFrom_eq_filter s l hs hr, stablePart_eq_entries' s a R hs.notIngesting] at *
  obtain ⟨e, hek, hex⟩ := getElem?_filterMap_of_isSome _ _ hsome k x hk
  have hem : e ∈ (scanEntries s.utxos a).filter (fun e => !(R.contains e.op)) := List.mem_of_getElem? hek
  have hemE := scanEntries_mem _ _ _ (List.mem_filter.mp hem).1
  obtain ⟨u, hu, huh, huo⟩ := entryUtxo_of_index s l hs e hemE.1
  have hux : u = x := by rw [hu] at hex; exact Option.some.inj hex
  subst hux
  have hkey : (IdxEntry.mk a u.height u.outpoint) = e := by
    cases e; simp_all
  simp only [hkey]
  rw [← filterMap_drop_of_isSome _ _ hsome k]
  congr 1
  apply filter_eq_drop_of_pairwise (fun (e1 e2 : IdxEntry) => lexLt e2.key e1.key = false ∧ e1 ≠ e2) _ _
    (((scanEntries_sorted s.utxos a).and (scanEntries_nodup s.utxos a hs.indexNodup)).filter _) k e hek
  · simp only [lexLe, lexLt_irrefl, Bool.not_false]
  · intro y hy ⟨hle, hne⟩
    have hyE := scanEntries_mem _ _ _ (List.mem_filter.mp hy).1
    cases h : lexLt y.key e.key with
    | true => simp [lexLe, h]
    | false =>
      exact absurd (key_inj y e (by rw [hyE.2, hemE.2]) (index_inRange _ l hs hr y hyE.1)
        (index_inRange _ l hs hr e hemE.1) (lexLt_total _ _ h hle)) hne
  · intro y _ ⟨hle, _⟩
    simp only [lexLe, hle, Bool.not_false]

/-- **Stable side, offset above all stable heights**: nothing is cut. -/
theorem stablePartFrom_of_above (s : State) (l : LedgerMap) (hs : StableIs s.utxos l)
    (hr : LedgerRange l) (a : Addr) (R : List OutPoint) (off : Utxo) (hoff : off.height < 2 ^ 32)
    (hl : ∀ e ∈ l, e.2.2 < off.height) :
    stablePartFrom s a R off = stablePart s a R := by
  rw [stablePartFrom_eq_filter s l hs hr, stablePart_eq_entries' s a R hs.notIngesting]
  congr 1
  rw [List.filter_eq_self]
  intro e he
  have heE := scanEntries_mem _ _ _ (List.mem_filter.mp he).1
  have hlt := index_height s.utxos l hs _ hl e heE.1
  have h3 := heightBytes_lt_of_gt e.height off.height hoff hlt
  have : lexLt (IdxEntry.mk a off.height off.outpoint).key e.key = true := by
    rw [key_eq, key_eq e, heE.2, lexLt_append_left]
    unfold keyTail
    exact lexLt_append_of_lt _ _ _ _ (by simp [heightBytes_length]) h3
  simp only [lexLe, lexLt_asymm _ _ this, Bool.not_false]

/-! ### assembling the iterator -/

/-- **Page offsets at the level of the stable structures**: if the complete answer is
    `U ++ S` (`U` the unstable part with heights in `[n, 2^32)`, `S` the stable part with heights
    `< n`) and lists every outpoint once, then the offset built from its `k`-th element makes the
    iterator return `(U ++ S).drop k`. -/
theorem addressUtxos_offset_aux (s : State) (l : LedgerMap) (hs : StableIs s.utxos l)
    (hr : LedgerRange l) (a : Addr) (A : List Utxo) (R : List OutPoint) (n : Nat)
    (hl : ∀ e ∈ l, e.2.2 < n)
    (hst : ∀ y ∈ stablePart s a R, y.height < n)
    (hun : ∀ y ∈ unstablePart A R, n ≤ y.height ∧ y.height < 2 ^ 32)
    (hnd : ((unstablePart A R ++ stablePart s a R).map (·.outpoint)).Nodup)
    (k : Nat) (x : Utxo) (hk : (unstablePart A R ++ stablePart s a R)[k]? = some x) :
    State.addressUtxos s a A R (some ⟨x.height, x.outpoint, 0⟩) =
      some ((unstablePart A R ++ stablePart s a R).drop k) := by
  rw [addressUtxos_from_eq s l hs]
  congr 1
  by_cases hkU : k < (unstablePart A R).length
  · -- the offset is an unstable element
    rw [List.getElem?_append_left hkU] at hk
    have hxU : x ∈ unstablePart A R := List.mem_of_getElem? hk
    have hndU : ((unstablePart A R).map (·.outpoint)).Nodup := by
      rw [List.map_append] at hnd
      exact (List.nodup_append.mp hnd).1
    rw [utxo_filter_offset _ (unstablePart_sorted A R) hndU k x hk,
      stablePartFrom_of_above s l hs hr a R ⟨x.height, x.outpoint, 0⟩ (hun x hxU).2
        (fun e he => Nat.lt_of_lt_of_le (hl e he) (hun x hxU).1),
      List.drop_append_of_le_length (Nat.le_of_lt hkU)]
    apply multiIter_eq_append
    intro y hy u hu
    have h1 := hst y hy
    have h2 := (hun u (List.mem_of_mem_drop hu)).1
    unfold Utxo.lt
    have h3 : ¬ y.height > u.height := by omega
    have h4 : (y.height == u.height) = false := by simp; omega
    simp [h3, h4]
  · -- the offset is a stable element
    have hge : (unstablePart A R).length ≤ k := Nat.le_of_not_lt hkU
    rw [List.getElem?_append_right hge] at hk
    have hxS : x ∈ stablePart s a R := List.mem_of_getElem? hk
    have hnil : (unstablePart A R).filter (fun u => Utxo.le ⟨x.height, x.outpoint, 0⟩ u) = [] := by
      rw [List.filter_eq_nil_iff]
      intro u hu
      have h1 := hst x hxS
      have h2 := (hun u hu).1
      have h3 : u.height > x.height := by omega
      simp [Utxo.le, Utxo.lt, h3]
    rw [hnil, multiIter_nil_right, stablePartFrom_of_mem s l hs hr a R _ x hk, List.drop_append,
      List.drop_eq_nil_of_le hge, List.nil_append]

/-- **Range hypothesis** on the stable chain: transaction ids are 32-byte numbers and no
    transaction has more than `2^32` outputs (so every `vout` fits in a `u32`). -/
def TxRange (G : List Block) : Prop :=
  ∀ b ∈ G, ∀ tx ∈ b.txs, tx.txid < 2 ^ 256 ∧ tx.outs.length ≤ 2 ^ 32

theorem ledgerRange_of_txRange (G : List Block) (hv : TxValid G) (hu : TxidsUnique G)
    (hH : G.length ≤ 2 ^ 32) (hr : TxRange G) : LedgerRange (ledger G) := by
  intro e he
  obtain ⟨i, b, tx, v, t, hb, htx, hvt, _, rfl, _⟩ := (mem_ledger_iff G hv hu e).mp he
  have hi := (List.getElem?_eq_some_iff.mp hb).1
  have hvl := (List.getElem?_eq_some_iff.mp hvt).1
  have := hr b (List.mem_of_getElem? hb) tx htx
  refine ⟨?_, this.1, ?_⟩
  · show i < 2 ^ 32
    omega
  · show v < 2 ^ 32
    omega

theorem addedAll_height_lt (a : Addr) (h0 : Nat) (p : List Block) (u : Utxo) (hu : u ∈ addedAll a h0 p) :
    u.height < h0 + p.length := by
  obtain ⟨i, b, tx, v, t, hb, _, _, _, rfl⟩ := (mem_addedAll a h0 p u).mp hu
  have := (List.getElem?_eq_some_iff.mp hb).1
  show h0 + i < h0 + p.length
  omega

/-- **P1 — a page offset returns exactly the suffix of the complete answer.**
    For a prefix `applied` of a root path of the tree: if `x` is the `k`-th element of the complete
    answer `resultList s G a applied`, then the iterator started at the page offset
    `(x.height, x.outpoint)` (value field 0, as `get_utxos_internal` builds it) returns
    `(resultList s G a applied).drop k`.

    Range hypotheses: all heights of the chain fit in a `u32` (`hH`), and the stable chain's
    transaction ids / output counts fit their encodings (`hR`). -/
theorem addressUtxos_offset {s : State} {G : List Block} (hinv : Inv s G) {applied : List CBlock}
    (hp : PathCtx s G applied) (a : Addr) (hH : G.length + applied.length ≤ 2 ^ 32) (hR : TxRange G)
    (k : Nat) (x : Utxo) (hk : (resultList s G a applied)[k]? = some x) :
    State.addressUtxos s a (addedAll a G.length (applied.map (·.blk)))
        (removedAll (histOf s G) a (applied.map (·.blk))) (some ⟨x.height, x.outpoint, 0⟩) =
      some ((resultList s G a applied).drop k) := by
  have hG := hp.validG
  have hHG : G.length ≤ 2 ^ 32 := by omega
  have hkeys := ledger_keys_nodup G hG.1 hG.2
  have hlt := ledger_heights_lt hinv hp
  obtain ⟨heq, _⟩ := resultList_heights hinv hp a hHG
  have hnd := (addressUtxos_path hinv hp a).2.2.2
  rw [heq] at hk hnd ⊢
  apply addressUtxos_offset_aux s (ledger G) hinv.stable
    (ledgerRange_of_txRange G hG.1 hG.2 hHG hR) a _ _ G.length hlt ?_ ?_ hnd k x hk
  · intro y hy
    have h1 := (stablePart_perm s (ledger G) hinv.stable hkeys a _).mem_iff.mp hy
    obtain ⟨t, hm, _, _⟩ := (mem_lfor a (ledger G) y).mp (List.mem_filter.mp h1).1
    exact hlt _ hm
  · intro y hy
    have hm := mem_unstablePart _ _ y hy
    have h1 := addedAll_height_ge a G.length _ y hm
    have h2 := addedAll_height_lt a G.length _ y hm
    rw [List.length_map] at h2
    exact ⟨h1, by omega⟩

/-! ### `get_utxos_from_chain` with and without a page offset -/

/-- **First page** (strengthening of `C01.getUtxosFromChain_ok`: the next-page token is given
    explicitly): with `all` the complete answer for the applied prefix, the response carries
    `all.take limit` and the next page names the element `all[limit]`. -/
theorem getUtxosFromChain_first {s : State} {G : List Block} (hinv : Inv s G) (a : Addr) (c : Nat)
    (chain : List CBlock) (limit : Nat) (hc : c ≤ chain.length) (applied : List CBlock)
    (happ : State.stablePrefix (Tree.levels CBlock.hash s.unstable.tree) c chain 0 = applied)
    (hp : PathCtx s G applied) :
    ∃ r, State.getUtxosFromChain s (.ok a) c chain none limit = .ok r ∧
      r.utxos = (resultList s G a applied).take limit ∧
      r.nextPage = (((resultList s G a applied).drop limit).head?).map
        (fun u => (r.tipHash, u.height, u.outpoint)) ∧
      (∀ tip, applied.getLast? = some tip →
        r.tipHash = tip.hash ∧ r.tipHeight = s.utxos.nextHeight + applied.length - 1) := by
  subst happ
  obtain ⟨h1, h2, _, _⟩ := addressUtxos_path hinv hp a
  unfold State.getUtxosFromChain
  have hc' : ¬ chain.length < c := by omega
  simp only [hc', if_false, h1, h2]
  refine ⟨_, rfl, rfl, rfl, ?_⟩
  intro tip ht
  simp [ht]

/-- **P2 — a page request returns the next slice of the complete answer.**
    With `all` the complete answer for the applied prefix of `chain` and `x = all[k]`, the request
    with page offset `(x.height, x.outpoint)` returns `(all.drop k).take limit`, and its next-page
    token names the element `all[k + limit]` (none if there is no such element). -/
theorem getUtxosFromChain_page {s : State} {G : List Block} (hinv : Inv s G) (a : Addr) (c : Nat)
    (chain : List CBlock) (limit : Nat) (hc : c ≤ chain.length) (applied : List CBlock)
    (happ : State.stablePrefix (Tree.levels CBlock.hash s.unstable.tree) c chain 0 = applied)
    (hp : PathCtx s G applied) (hH : G.length + applied.length ≤ 2 ^ 32) (hR : TxRange G)
    (k : Nat) (x : Utxo) (hk : (resultList s G a applied)[k]? = some x) :
    ∃ r, State.getUtxosFromChain s (.ok a) c chain (some ⟨x.height, x.outpoint, 0⟩) limit = .ok r ∧
      r.utxos = ((resultList s G a applied).drop k).take limit ∧
      r.nextPage = (((resultList s G a applied).drop (k + limit)).head?).map
        (fun u => (r.tipHash, u.height, u.outpoint)) ∧
      (∀ tip, applied.getLast? = some tip →
        r.tipHash = tip.hash ∧ r.tipHeight = s.utxos.nextHeight + applied.length - 1) := by
  subst happ
  obtain ⟨h1, _, _, _⟩ := addressUtxos_path hinv hp a
  have h2 := addressUtxos_offset hinv hp a hH hR k x hk
  unfold State.getUtxosFromChain
  have hc' : ¬ chain.length < c := by omega
  simp only [hc', if_false, h1, h2]
  refine ⟨_, rfl, rfl, ?_, ?_⟩
  · simp only [List.drop_drop]
  · intro tip ht
    simp [ht]

/-- **P2 at the endpoint**: a `get_utxos` page request `(tip, x.height, x.outpoint)` where `tip`
    names a block of the tree with root path `chain`, and `x = all[k]` for the complete answer `all`
    of that path. -/
theorem getUtxos_page {s : State} {G : List Block} (hinv : Inv s G) (a : Addr) (tip : Nat)
    (chain sib : List CBlock)
    (hroot : Tree.chainWithTip CBlock.hash tip s.unstable.tree = some (chain, sib))
    (hp : PathCtx s G chain) (hH : G.length + chain.length ≤ 2 ^ 32) (hR : TxRange G)
    (limit k : Nat) (x : Utxo) (hk : (resultList s G a chain)[k]? = some x) :
    ∃ r, s.getUtxos (.ok a) (.page (some (tip, x.height, x.outpoint))) limit = .ok r ∧
      r.utxos = ((resultList s G a chain).drop k).take limit ∧
      r.nextPage = (((resultList s G a chain).drop (k + limit)).head?).map
        (fun u => (tip, u.height, u.outpoint)) ∧
      r.tipHash = tip ∧ r.tipHeight = s.utxos.nextHeight + chain.length - 1 := by
  obtain ⟨_, last, hlast, hhash⟩ := chainWithTip_spec CBlock.hash tip _ _ _ hroot
  obtain ⟨r, hr, hu, hn, ht⟩ := getUtxosFromChain_page hinv a 0 chain limit (Nat.zero_le _) chain
    (Props.C02.stablePrefix_zero _ _ _) hp hH hR k x hk
  obtain ⟨ht1, ht2⟩ := ht last hlast
  refine ⟨r, ?_, hu, ?_, ?_, ht2⟩
  · unfold State.getUtxos
    simp only [hroot]
    exact hr
  · rw [hn, ht1, hhash]
  · rw [ht1, hhash]

/-! ### Non-vacuity on the example state of C01 -/

section Examples
open Btc.Props.C01

example : TxRange [exG] := by
  unfold TxRange
  decide

theorem exPathCtx : PathCtx exS [exG] exS.unstable.mainChain := mainChain_pathCtx exInv exUnique

theorem exPathCtx_nil : PathCtx exS [exG] [] :=
  PathCtx.prefix (xs := []) (ys := exS.unstable.mainChain) exPathCtx

theorem exAll2 : resultList exS [exG] [2] exS.unstable.mainChain = [⟨1, ⟨2, 0⟩, 50⟩, ⟨1, ⟨3, 1⟩, 30⟩] := by
  have h1 : stablePart exS [2] (removedAll (histOf exS [exG]) [2] (exS.unstable.mainChain.map (·.blk))) = [] := by
    rw [stablePart_eq_entries _ _ _ rfl]
    decide
  have h2 : unstablePart (addedAll [2] [exG].length (exS.unstable.mainChain.map (·.blk)))
      (removedAll (histOf exS [exG]) [2] (exS.unstable.mainChain.map (·.blk))) =
      [⟨1, ⟨2, 0⟩, 50⟩, ⟨1, ⟨3, 1⟩, 30⟩] := by decide
  unfold resultList
  simp only [h1, h2, multiIter_nil_left]

theorem exAll1 : resultList exS [exG] [1] [] = [⟨0, ⟨1, 0⟩, 50⟩] := by
  have h1 : stablePart exS [1] (removedAll (histOf exS [exG]) [1] []) = [⟨0, ⟨1, 0⟩, 50⟩] := by
    rw [stablePart_eq_entries _ _ _ rfl]
    decide
  have h2 : unstablePart (addedAll [1] [exG].length []) (removedAll (histOf exS [exG]) [1] []) = [] := by
    decide
  unfold resultList
  simp only [List.map_nil, h1, h2, multiIter_nil_right]

/-- P1 with the offset in the unstable part: the second of the two unstable outputs of `[2]` -/
example : State.addressUtxos exS [2] (addedAll [2] 1 (exS.unstable.mainChain.map (·.blk)))
    (removedAll (histOf exS [exG]) [2] (exS.unstable.mainChain.map (·.blk))) (some ⟨1, ⟨3, 1⟩, 0⟩) =
    some [⟨1, ⟨3, 1⟩, 30⟩] := by
  have := addressUtxos_offset exInv exPathCtx [2] (by decide) (by unfold TxRange; decide) 1
    ⟨1, ⟨3, 1⟩, 30⟩ (by rw [exAll2]; rfl)
  rw [exAll2] at this
  exact this

/-- P1 with the offset in the stable part (no unstable block applied) -/
example : State.addressUtxos exS [1] (addedAll [1] 1 []) (removedAll (histOf exS [exG]) [1] [])
    (some ⟨0, ⟨1, 0⟩, 0⟩) = some [⟨0, ⟨1, 0⟩, 50⟩] := by
  have := addressUtxos_offset exInv exPathCtx_nil [1] (by decide) (by unfold TxRange; decide) 0
    ⟨0, ⟨1, 0⟩, 50⟩ (by rw [exAll1]; rfl)
  rw [exAll1] at this
  exact this

/-- P2: address `[2]` has two unspent outputs; with `limit = 1` the answer comes in two pages, the
    second requested with the token of the first. -/
example : ∃ r1 r2, exS.getUtxos (.ok [2]) .none_ 1 = .ok r1 ∧
    r1.utxos = [⟨1, ⟨2, 0⟩, 50⟩] ∧ r1.nextPage = some (101, 1, ⟨3, 1⟩) ∧
    exS.getUtxos (.ok [2]) (.page (some (101, 1, ⟨3, 1⟩))) 1 = .ok r2 ∧
    r2.utxos = [⟨1, ⟨3, 1⟩, 30⟩] ∧ r2.nextPage = none ∧ r2.tipHash = 101 ∧ r2.tipHeight = 1 := by
  have hchain : exS.unstable.mainChain = [exCB] := rfl
  obtain ⟨r1, hr1, hu1, hn1, ht1⟩ := getUtxosFromChain_first exInv [2] 0 exS.unstable.mainChain 1
    (Nat.zero_le _) _ (Props.C02.stablePrefix_zero _ _ _) exPathCtx
  obtain ⟨r2, hr2, hu2, hn2, hth2, hht2⟩ := getUtxos_page exInv [2] 101 exS.unstable.mainChain []
    (by rfl) exPathCtx (by decide) (by unfold TxRange; decide) 1 1 ⟨1, ⟨3, 1⟩, 30⟩ (by rw [exAll2]; rfl)
  rw [exAll2] at hu1 hn1 hu2 hn2
  have hth1 := (ht1 exCB (by rw [hchain]; rfl)).1
  refine ⟨r1, r2, hr1, hu1, ?_, hr2, hu2, hn2, hth2, hht2⟩
  rw [hn1, hth1]
  rfl

end Examples

end Btc
