import BtcModel.Lemmas.Reach
import BtcModel.Lemmas.NextHeaders

/-!
  The invariant of the announced headers (`Spec.NextInv`) holds in every reachable state of the
  transition system of `Spec/Reach.lean`.
-/
namespace Btc.Lemmas.ReachNext
open Btc Btc.Spec Btc.Tree Btc.Lemmas.Reach Btc.Lemmas.NextHeaders

theorem getHeader_insert (n : NextBlockHeaders) (h : NextHeader) (height x : Nat) :
    (n.insert h height).getHeader x = if h.hash == x then some h else n.getHeader x := by
  unfold NextBlockHeaders.getHeader
  rw [find?_byHash_insert]
  split <;> rfl

/-- `push` (which removes the pushed block's hash from the announced headers) -/
theorem nextInvAt_push {u u' : Unstable} {n : Nat} {b : Block} (h : NextInvAt u n)
    (hnext : u'.next = u.next.remove b.hash)
    (htree : ∀ c ∈ u'.tree.blocks, c.hash = b.hash ∨ c ∈ u.tree.blocks) : NextInvAt u' n := by
  refine ⟨by rw [hnext]; exact remove_ok _ _ h.ok, ?_, ?_⟩
  · intro x ht hg
    rw [hnext, getHeight_remove] at hg
    split at hg
    · cases hg
    · exact h.above x ht hg
  · intro c hc
    rw [hnext, getHeader_remove]
    split
    · rfl
    · rcases htree c hc with e | hc'
      · rename_i hne
        rw [e] at hne
        simp at hne
      · exact h.notInTree c hc'

/-- `pop` (which calls `remove_until_height(stable_height)`) -/
theorem nextInvAt_pop {bound : Unstable.BoundFn} {u u' : Unstable} {n : Nat} {b : Block}
    (h : NextInvAt u n) (hp : u.pop bound (n + 1) = .ok u' b) : NextInvAt u' (n + 1) := by
  obtain ⟨r, cs, idx, ht, hc, _, hnext, _⟩ := pop_ok_shape bound u u' (n + 1) b hp
  refine ⟨by rw [hnext]; exact removeUntil_ok _ _ h.ok, ?_, ?_⟩
  · intro x ht' hg
    rw [hnext, getHeight_removeUntil _ h.ok] at hg
    exact hg.2
  · intro c hcm
    rw [hnext]
    apply getHeader_removeUntil_none
    apply h.notInTree
    rw [ht]
    simp only [Tree.blocks]
    exact List.mem_cons_of_mem _ ((Tree.blocks_child_sublist cs idx u'.tree hc).subset hcm)

theorem nextInvAt_popSteps {bound : Unstable.BoundFn} {u u' : Unstable} {n : Nat}
    {popped : List Block} (hs : PopSteps bound u n popped u') :
    NextInvAt u n → NextInvAt u' (n + popped.length) := by
  induction hs with
  | nil u n => intro h; simpa using h
  | cons u n b u1 bs u2 hpop _ ih =>
    intro h
    have := ih (nextInvAt_pop h hpop)
    simp only [List.length_cons]
    have e : n + (bs.length + 1) = n + 1 + bs.length := by omega
    rw [e]
    exact this

/-- `insert_next_block_header` of a header that is not stored yet and is not a tree block -/
theorem nextInvAt_insert {u u' : Unstable} {n : Nat} {h : NextHeader} (hI : NextInvAt u n)
    (hnew : ¬ (u.next.getHeader h.hash).isSome = true)
    (hdom : h.hash ∉ u.tree.blocks.map CBlock.hash)
    (hi : u.insertNextHeader h n = some u') : NextInvAt u' n := by
  have hnone : AList.find? u.next.byHash h.hash = none := by
    unfold NextBlockHeaders.getHeader at hnew
    cases hf : AList.find? u.next.byHash h.hash with
    | none => rfl
    | some p => rw [hf] at hnew; simp at hnew
  unfold Unstable.insertNextHeader at hi
  simp only at hi
  have key : ∃ ph, n ≤ ph ∧ u' = { u with next := u.next.insert h (ph + 1) } := by
    cases hg : u.next.getHeight h.prev with
    | some ph =>
      rw [hg] at hi
      simp only [Option.some.injEq] at hi
      exact ⟨ph, Nat.le_of_lt (hI.above _ _ hg), hi.symm⟩
    | none =>
      rw [hg] at hi
      simp only at hi
      cases hd : Tree.findDepth CBlock.hash h.prev u.tree with
      | none => rw [hd] at hi; simp at hi
      | some d =>
        rw [hd] at hi
        simp only [Option.map_some, Option.some.injEq] at hi
        exact ⟨n + d, by omega, hi.symm⟩
  obtain ⟨ph, hle, rfl⟩ := key
  refine ⟨insert_ok _ _ _ hI.ok hnone, ?_, ?_⟩
  · intro x ht hg
    simp only [getHeight_insert] at hg
    split at hg
    · simp only [Option.some.injEq] at hg
      omega
    · exact hI.above x ht hg
  · intro c hc
    simp only [getHeader_insert]
    split
    · rename_i he
      exact absurd (List.mem_map.mpr ⟨c, hc, (eq_of_beq he).symm⟩) hdom
    · exact hI.notInTree c hc

theorem nextInvAt_congr {u u' : Unstable} {n : Nat} (hn : u'.next = u.next)
    (ht : u'.tree.blocks.map CBlock.hash = u.tree.blocks.map CBlock.hash) (h : NextInvAt u n) :
    NextInvAt u' n := by
  refine ⟨by rw [hn]; exact h.ok, by rw [hn]; exact h.above, ?_⟩
  intro c hc
  have : c.hash ∈ u'.tree.blocks.map CBlock.hash := List.mem_map.mpr ⟨c, hc, rfl⟩
  rw [ht] at this
  obtain ⟨c0, h0, e⟩ := List.mem_map.mp this
  rw [hn, ← e]
  exact h.notInTree c0 h0

theorem upgraded_hashes (s : State) :
    (upgraded s).unstable.tree.blocks.map CBlock.hash = s.unstable.tree.blocks.map CBlock.hash := by
  rw [upgraded_tree, blocks_mapT, List.map_map]
  apply List.map_congr_left
  intro c _; rfl

/-- **The announced-header invariant holds in every reachable state.** -/
theorem reachable_next {bound : Unstable.BoundFn} {s : State} {G : List Block}
    (h : Reachable bound s G) : NextInv s := by
  induction h with
  | init thr net genesis s0 hv hn =>
    obtain ⟨_, _, _, hnext, _⟩ := new_shape' hn
    refine ⟨by rw [hnext]; exact nextOk_empty, ?_, ?_⟩
    · intro x ht hg
      rw [hnext] at hg
      simp [NextBlockHeaders.getHeight] at hg
    · intro c _
      rw [hnext]
      rfl
  | step s G op s' G' hreach hd hs ih =>
    have hU := reachable_inv hreach
    cases op with
    | push b =>
      obtain ⟨u', hp, _, cb, hcb, hperm, hnext, _⟩ := push_preserves_invU s G b hU hd
      simp only [step, hp, Option.some.injEq, Prod.mk.injEq] at hs
      obtain ⟨rfl, rfl⟩ := hs
      apply nextInvAt_push (b := b) ih hnext
      intro c hc
      rcases List.mem_cons.mp (hperm.mem_iff.mp hc) with e | e
      · left; rw [e, CBlock.hash, hcb]
      · exact Or.inr e
    | ingest budget =>
      have := ingest_stable_preserves_invU bound s G budget hU
      simp only [step] at hs
      cases hr : s.ingestStable bound budget with
      | trap m => rw [hr] at hs; cases hs
      | paused sp => rw [hr] at hs; cases hs
      | done s1 w =>
        rw [hr] at hs this
        simp only [Option.some.injEq, Prod.mk.injEq] at hs
        obtain ⟨rfl, rfl⟩ := hs
        obtain ⟨popped, _, i2, _, _, _, _, i7, _⟩ := this
        unfold NextInv at ih ⊢
        rw [i2]
        rw [hU.inv.heightEq] at ih
        exact nextInvAt_popSteps i7 ih
    | setConfig c =>
      simp only [step, Option.some.injEq, Prod.mk.injEq] at hs
      obtain ⟨rfl, rfl⟩ := hs
      obtain ⟨h1, _, h3, _, _, _, h7, _⟩ := setConfig_frame s c
      unfold NextInv
      rw [h1]
      exact nextInvAt_congr h7 (by rw [h3]) ih
    | upgrade c =>
      simp only [step, Option.some.injEq, Prod.mk.injEq] at hs
      obtain ⟨rfl, rfl⟩ := hs
      have hup : NextInv (upgraded s) := nextInvAt_congr (u := s.unstable) rfl (upgraded_hashes s) ih
      rw [upgrade_eq]
      cases c with
      | none => exact hup
      | some c =>
        obtain ⟨h1, _, h3, _, _, _, h7, _⟩ := setConfig_frame (upgraded s) c
        unfold NextInv
        simp only
        rw [h1]
        exact nextInvAt_congr h7 (by rw [h3]) hup
    | query =>
      simp only [step, Option.some.injEq, Prod.mk.injEq] at hs
      obtain ⟨rfl, rfl⟩ := hs
      exact ih
    | insertNext hd' =>
      simp only [step] at hs
      split at hs
      · simp only [Option.some.injEq, Prod.mk.injEq] at hs
        obtain ⟨rfl, rfl⟩ := hs
        exact ih
      · rename_i hnew
        cases hi : s.unstable.insertNextHeader hd' s.stableHeight with
        | none =>
          rw [hi] at hs
          simp only [Option.some.injEq, Prod.mk.injEq] at hs
          obtain ⟨rfl, rfl⟩ := hs
          exact ih
        | some u =>
          rw [hi] at hs
          simp only [Option.some.injEq, Prod.mk.injEq] at hs
          obtain ⟨rfl, rfl⟩ := hs
          exact nextInvAt_insert ih hnew hd hi

end Btc.Lemmas.ReachNext
