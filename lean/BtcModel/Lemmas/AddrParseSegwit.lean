import BtcModel.Lemmas.AddrParse

/-
  `bech32::segwit::decode` (model: `Btc.AddrParse.segwitDecode`) against
  `segwit::encode_lower_to_fmt_unchecked` (model: `Btc.BlockCodec.segwitEncode`): the decoder accepts
  what the encoder writes, and whatever it accepts is, lower-cased, what the encoder writes for the
  decoded human-readable part, version and program.
-/
namespace Btc.AddrParse
open Btc.BlockCodec Btc.TxCodec

theorem hrpOf_facts (net : Tree.Net) :
    hrpValid (hrpOf net) = true ∧ (hrpOf net).any isUpper = false ∧ (hrpOf net).length ≤ 4 ∧
      knownHrp (hrpOf net) = some net ∧ (∀ c ∈ hrpOf net, c < 256) := by
  cases net <;> decide

theorem bech32Const_lt (v : Nat) : bech32Const v < 2 ^ 30 := by
  unfold bech32Const; split <;> decide

theorem segwitEncode_eq (hrp : List Nat) (v : Nat) (prog : List Nat) :
    segwitEncode hrp v prog = hrp ++ 49 :: ((v :: bytesToFes prog) ++
      unpack6 (polymod (hrpExpand hrp ++ (v :: bytesToFes prog) ++ [0, 0, 0, 0, 0, 0]) ^^^
        bech32Const v)).map (fun d => bech32Charset.getD d 0) := rfl

theorem unpack6_lt (pm : Nat) : ∀ d ∈ unpack6 pm, d < 32 := by
  intro d hd
  simp only [unpack6, List.mem_cons, List.not_mem_nil, or_false] at hd
  rcases hd with rfl | rfl | rfl | rfl | rfl | rfl <;> exact Nat.lt_succ_of_le Nat.and_le_right

theorem unpack6_length (pm : Nat) : (unpack6 pm).length = 6 := rfl

/-- The field elements of the data part `segwitEncode` writes. -/
def dataFes (hrp : List Nat) (v : Nat) (prog : List Nat) : List Nat :=
  (v :: bytesToFes prog) ++
    unpack6 (polymod (hrpExpand hrp ++ (v :: bytesToFes prog) ++ [0, 0, 0, 0, 0, 0]) ^^^
      bech32Const v)

theorem dataFes_lt (hrp : List Nat) (v : Nat) (prog : List Nat) (hver : v ≤ 16) :
    ∀ d ∈ dataFes hrp v prog, d < 32 := by
  intro d hd
  rcases List.mem_append.1 hd with hd | hd
  · rcases List.mem_cons.1 hd with rfl | hd
    · omega
    · exact groups5_lt _ d hd
  · exact unpack6_lt _ d hd

/-- The decoder on a text `hrp' '1' data` whose human-readable part reads `hrp` in lower case and
    whose data characters are the bech32 characters of `dataFes hrp v prog` in some case `k`. -/
theorem segwitDecode_text (hrp hrp' : List Nat) (k : Nat → Nat) (v : Nat) (prog : List Nat)
    (hv : hrpValid hrp' = true) (hlow : lowerCase hrp' = hrp) (hl : hrp'.length ≤ 4)
    (hk1 : ∀ d < 32, fe32OfChar (k (bech32Charset.getD d 0)) = some d)
    (hk2 : ∀ d < 32, k (bech32Charset.getD d 0) ≠ 49)
    (hmixed : mixedCase (hrp' ++ 49 :: (dataFes hrp v prog).map
      (fun d => k (bech32Charset.getD d 0))) = false)
    (hver : v ≤ 16) (hp : AllBytes prog) (hok : witnessProgramOk v prog = true) :
    segwitDecode (hrp' ++ 49 :: (dataFes hrp v prog).map (fun d => k (bech32Charset.getD d 0))) =
      some (hrp', v, prog) := by
  have hfes32 := dataFes_lt hrp v prog hver
  generalize hfes : dataFes hrp v prog = fes at hmixed hfes32
  unfold dataFes at hfes
  have hplen : 2 ≤ prog.length ∧ prog.length ≤ 40 := by
    simp only [witnessProgramOk, Bool.and_eq_true, decide_eq_true_eq] at hok
    exact ⟨hok.1.1, hok.1.2⟩
  have hfeslen : fes.length = 1 + (8 * prog.length + 4) / 5 + 6 := by
    rw [← hfes]; simp [bytesToFes_length, unpack6_length]; omega
  have hnosep : 49 ∉ fes.map (fun d => k (bech32Charset.getD d 0)) := by
    intro hm
    obtain ⟨d, hd, he⟩ := List.mem_map.1 hm
    exact hk2 d (hfes32 d hd) he
  unfold segwitDecode
  rw [if_neg (by simp only [List.length_append, List.length_cons, List.length_map, hfeslen]; omega),
    splitLastSep_append _ _ hnosep]
  simp only []
  rw [mapOpt_map fe32OfChar _ fes (fun d hd => hk1 d (hfes32 d hd))]
  simp only []
  rw [hmixed, hv]
  simp only [Bool.false_eq_true, if_false, Bool.not_true]
  have hpoly : polymod (hrpExpand (lowerCase hrp') ++ fes) = bech32Const v := by
    rw [hlow, ← hfes, ← List.append_assoc]
    exact polymod_checksum (bech32Const v) _ (bech32Const_lt v)
  have htake : fes.take (fes.length - 6) = v :: bytesToFes prog := by
    rw [← hfes, List.length_append, unpack6_length, Nat.add_sub_cancel, List.take_left']
    rfl
  rw [← hfes] at hfeslen
  subst hfes
  simp only [List.cons_append] at hpoly htake hfeslen ⊢
  rw [if_neg (by omega), if_neg (by omega), if_neg (by rw [hpoly]; simp), htake]
  simp only [paddingOk_bytesToFes, fesToBytes_bytesToFes prog hp, hok, Bool.not_true,
    Bool.false_eq_true, if_false]

/-- The decoder accepts what the encoder writes. -/
theorem segwitDecode_segwitEncode (hrp : List Nat) (v : Nat) (prog : List Nat)
    (hv : hrpValid hrp = true) (hu : hrp.any isUpper = false) (hl : hrp.length ≤ 4)
    (hver : v ≤ 16) (hp : AllBytes prog) (hok : witnessProgramOk v prog = true) :
    segwitDecode (segwitEncode hrp v prog) = some (hrp, v, prog) := by
  have := segwitDecode_text hrp hrp id v prog hv (lowerCase_of_no_upper hrp hu) hl
    fe32OfChar_charset charset_not_sep ?_ hver hp hok
  · exact this
  · unfold mixedCase
    have : (hrp ++ 49 :: (dataFes hrp v prog).map (fun d => id (bech32Charset.getD d 0))).any
        isUpper = false := by
      rw [List.any_append, hu, List.any_cons]
      simp only [Bool.false_or, Bool.or_eq_false_iff]
      refine ⟨by decide, ?_⟩
      rw [List.any_eq_false]
      intro c hc
      obtain ⟨d, hd, rfl⟩ := List.mem_map.1 hc
      rw [id, charset_not_upper d (dataFes_lt hrp v prog hver d hd)]; exact Bool.false_ne_true
    rw [this]; rfl

theorem fe32OfChar_upper : ∀ d < 32, fe32OfChar (toUpper (bech32Charset.getD d 0)) = some d := by
  decide

theorem charset_upper_not_sep : ∀ d < 32, toUpper (bech32Charset.getD d 0) ≠ 49 := by decide

theorem charset_upper_not_lower : ∀ d < 32, isLower (toUpper (bech32Charset.getD d 0)) = false := by
  decide

theorem upperCase_segwitEncode (hrp : List Nat) (v : Nat) (prog : List Nat) :
    upperCase (segwitEncode hrp v prog) =
      upperCase hrp ++ 49 :: (dataFes hrp v prog).map (fun d => toUpper (bech32Charset.getD d 0)) := by
  show upperCase (hrp ++ 49 :: (dataFes hrp v prog).map (fun d => bech32Charset.getD d 0)) = _
  unfold upperCase
  rw [List.map_append, List.map_cons, List.map_map]
  rfl

/-- The decoder accepts the all-upper-case form of what the encoder writes (for the three
    human-readable parts of the canister networks). -/
theorem segwitDecode_upperCase (net : Tree.Net) (v : Nat) (prog : List Nat)
    (hver : v ≤ 16) (hp : AllBytes prog) (hok : witnessProgramOk v prog = true) :
    segwitDecode (upperCase (segwitEncode (hrpOf net) v prog)) =
      some (upperCase (hrpOf net), v, prog) := by
  rw [upperCase_segwitEncode]
  have hfacts : hrpValid (upperCase (hrpOf net)) = true ∧
      lowerCase (upperCase (hrpOf net)) = hrpOf net ∧ (upperCase (hrpOf net)).length ≤ 4 ∧
      (upperCase (hrpOf net)).any isLower = false := by cases net <;> decide
  apply segwitDecode_text (hrpOf net) (upperCase (hrpOf net)) toUpper v prog hfacts.1 hfacts.2.1
    hfacts.2.2.1 fe32OfChar_upper charset_upper_not_sep ?_ hver hp hok
  unfold mixedCase
  have : (upperCase (hrpOf net) ++ 49 :: (dataFes (hrpOf net) v prog).map
      (fun d => toUpper (bech32Charset.getD d 0))).any isLower = false := by
    rw [List.any_append, hfacts.2.2.2, List.any_cons]
    simp only [Bool.false_or, Bool.or_eq_false_iff]
    refine ⟨by decide, ?_⟩
    rw [List.any_eq_false]
    intro c hc
    obtain ⟨d, hd, rfl⟩ := List.mem_map.1 hc
    rw [charset_upper_not_lower d (dataFes_lt _ v prog hver d hd)]; exact Bool.false_ne_true
  rw [this, Bool.and_false]


theorem toLower_sep : toLower 49 = 49 := by decide

/-- What an accepted segwit string looks like. -/
theorem segwitDecode_some (s hrp : List Nat) (v : Nat) (prog : List Nat)
    (h : segwitDecode s = some (hrp, v, prog)) :
    mixedCase s = false ∧ hrpValid hrp = true ∧ v ≤ 16 ∧ witnessProgramOk v prog = true ∧
      AllBytes prog ∧ (∃ d, s = hrp ++ 49 :: d) ∧
      lowerCase s = segwitEncode (lowerCase hrp) v prog := by
  unfold segwitDecode at h
  split at h
  · simp at h
  split at h
  · simp at h
  rename_i hrp' dchars hsplit
  split at h
  · simp at h
  rename_i fes hmap
  split at h
  · simp at h
  rename_i hmixed
  split at h
  · simp at h
  rename_i hvalid
  split at h
  · simp at h
  rename_i v' tail
  split at h
  · simp at h
  rename_i hv16
  split at h
  · simp at h
  rename_i hlen6
  split at h
  · simp at h
  rename_i hpoly
  split at h
  · simp at h
  rename_i hd progFes htake
  split at h
  · simp at h
  rename_i hpad
  simp only [] at h
  split at h
  · simp at h
  rename_i hwok
  simp only [Option.some.injEq, Prod.mk.injEq] at h
  obtain ⟨rfl, rfl, rfl⟩ := h
  simp only [Bool.not_eq_true, Bool.not_eq_eq_eq_not, Bool.not_true,
    Decidable.not_not, Nat.not_lt, Bool.not_eq_false] at hmixed hvalid hpad hwok hpoly hv16 hlen6
  obtain ⟨hs, hnosep⟩ := splitLastSep_some s hrp' dchars hsplit
  obtain ⟨hfes32, hchars⟩ := mapOpt_some fe32OfChar (fun d => bech32Charset.getD d 0) toLower
    (· < 32) (fun c d hcd => fe32OfChar_some hcd) dchars (v' :: tail) hmap
  -- the checksum is the last six symbols
  generalize hfes : v' :: tail = fes at *
  have hsplitfes : fes = fes.take (fes.length - 6) ++ fes.drop (fes.length - 6) :=
    (List.take_append_drop _ _).symm
  have hhd : hd = v' := by
    have : (fes.take (fes.length - 6)).head? = fes.head? := by
      rw [List.head?_take]
      rw [if_neg]
      intro h0
      rw [h0] at htake
      simp at htake
    rw [htake, ← hfes] at this
    simpa using this
  subst hhd
  rw [htake] at hsplitfes
  have hckslen : (fes.drop (fes.length - 6)).length = 6 := by
    rw [List.length_drop]; omega
  have hcks32 : ∀ c ∈ fes.drop (fes.length - 6), c < 32 :=
    fun c hc => hfes32 c (List.mem_of_mem_drop hc)
  have hprog32 : ∀ d ∈ progFes, d < 32 := by
    intro d hd'
    apply hfes32
    rw [hsplitfes]
    exact List.mem_append_left _ (List.mem_cons_of_mem _ hd')
  have hcks := polymod_checksum_unique (bech32Const hd)
    (hrpExpand (lowerCase hrp') ++ hd :: progFes) (fes.drop (fes.length - 6)) hckslen hcks32
    (by rw [List.append_assoc, ← hsplitfes]; exact hpoly)
  have hpf := bytesToFes_fesToBytes progFes hprog32 hpad
  refine ⟨hmixed, hvalid, hv16, hwok, groups8_allBytes _, ⟨dchars, hs⟩, ?_⟩
  rw [segwitEncode_eq, hpf, ← hcks, ← hsplitfes, hchars, hs, lowerCase_append]
  simp only [lowerCase, List.map_cons, toLower_sep]

end Btc.AddrParse
