import BtcModel.Lemmas.Watchdog

/-!
Helper lemmas for `Props/SpecsExtraC17.lean`:

* counting facts about ascending lists (element at index `i` of a sorted list versus the number
  of elements below / not above it);
* the model's `sortAsc` agrees with core's `List.mergeSort` (an unrelated sort implementation);
* closed forms for the model's `asU64 (satAddI64 ..)` bounds in every region.
-/
namespace Btc.Watchdog

open List

/-! ### Counting in ascending lists -/

/-- In an ascending list, fewer than `i + 1` elements are strictly below the element at index `i`. -/
theorem sorted_countP_lt_getElem (s : List Nat) (hs : s.Pairwise (· ≤ ·)) (i : Nat)
    (hi : i < s.length) : s.countP (fun x => decide (x < s[i])) ≤ i := by
  induction s generalizing i with
  | nil => simp at hi
  | cons y ys ih =>
    have hy : ∀ z ∈ ys, y ≤ z := fun z hz => rel_of_pairwise_cons hs hz
    cases i with
    | zero =>
      simp only [getElem_cons_zero, Nat.le_zero, countP_eq_zero, decide_eq_true_eq]
      intro a ha
      rcases mem_cons.mp ha with rfl | ha
      · omega
      · have := hy a ha; omega
    | succ j =>
      have hj : j < ys.length := by simpa using hi
      have := ih hs.tail j hj
      simp only [getElem_cons_succ, countP_cons]
      split <;> omega

/-- In an ascending list, at least `i + 1` elements are `≤` the element at index `i`. -/
theorem sorted_countP_le_getElem (s : List Nat) (hs : s.Pairwise (· ≤ ·)) (i : Nat)
    (hi : i < s.length) : i < s.countP (fun x => decide (x ≤ s[i])) := by
  induction s generalizing i with
  | nil => simp at hi
  | cons y ys ih =>
    have hy : ∀ z ∈ ys, y ≤ z := fun z hz => rel_of_pairwise_cons hs hz
    cases i with
    | zero => simp
    | succ j =>
      have hj : j < ys.length := by simpa using hi
      have := ih hs.tail j hj
      have hle : y ≤ ys[j] := hy _ (getElem_mem hj)
      simp only [getElem_cons_succ, countP_cons, hle, decide_true, if_true]
      omega

/-- Strictly smaller candidates are separated by the counts: everything `≤ a` is `< a'`. -/
theorem countP_le_le_countP_lt (l : List Nat) {a a' : Nat} (h : a < a') :
    l.countP (fun x => decide (x ≤ a)) ≤ l.countP (fun x => decide (x < a')) := by
  apply countP_mono_left
  intro x _ hx
  simp only [decide_eq_true_eq] at hx ⊢
  omega

/-- `#{x ≤ m} + #{x > m} = length`. -/
theorem countP_le_add_countP_gt (l : List Nat) (m : Nat) :
    l.countP (fun x => decide (x ≤ m)) + l.countP (fun x => decide (x > m)) = l.length := by
  induction l with
  | nil => rfl
  | cons y ys ih =>
    simp only [countP_cons, length_cons]
    by_cases h : y ≤ m
    · have h' : ¬ y > m := by omega
      simp only [h, h', decide_true, decide_false, if_true]
      simp only [Bool.false_eq_true, if_false]
      omega
    · have h' : y > m := by omega
      simp only [h, h', decide_true, decide_false, if_true]
      simp only [Bool.false_eq_true, if_false]
      omega

/-! ### The model's sort -/

theorem sortAsc_length (l : List Nat) : (sortAsc l).length = l.length :=
  (sortAsc_perm l).length_eq

/-- The model's insertion sort returns the same list as core's merge sort. -/
theorem sortAsc_eq_mergeSort (l : List Nat) :
    sortAsc l = l.mergeSort (fun a b => decide (a ≤ b)) := by
  have hm : (l.mergeSort (fun a b => decide (a ≤ b))).Pairwise (· ≤ ·) := by
    have := pairwise_mergeSort (le := fun (a b : Nat) => decide (a ≤ b))
      (by intro a b c; simp only [decide_eq_true_eq]; omega)
      (by intro a b; simp only [Bool.or_eq_true, decide_eq_true_eq]; omega) l
    exact this.imp (by intro a b h; simpa using h)
  apply Perm.eq_of_pairwise (le := (· ≤ ·))
  · intro a b _ _ h1 h2; exact Nat.le_antisymm h1 h2
  · exact sortAsc_sorted l
  · exact hm
  · exact (sortAsc_perm l).trans (mergeSort_perm l _).symm

theorem getD_eq_getElem_of_lt (s : List Nat) (i : Nat) (h : i < s.length) :
    s.getD i 0 = s[i] := by
  simp [getD_eq_getElem?_getD, h]

/-! ### The model's `lo` / `hi` bounds in every region -/

/-- Regular region: the lower bound is `m - b`. -/
theorem lo_regular (m b : Nat) (hb : b ≤ m) (hm : m < two63) :
    asU64 (satAddI64 (m : Int) (-(b : Int))) = m - b := by
  unfold asU64 satAddI64 two63 two64 at *
  simp only
  split <;> split <;> (try split) <;> omega

/-- Underflow region (`m < b`): the lower bound wraps to at least `2^63`, whatever `b` is. -/
theorem lo_underflow (m b : Nat) (hb : m < b) :
    two63 ≤ asU64 (satAddI64 (m : Int) (-(b : Int))) := by
  unfold asU64 satAddI64 two63 two64 at *
  simp only
  split <;> split <;> (try split) <;> omega

/-- The upper bound is `m + a`, capped at `i64::MAX`. -/
theorem hi_closed (m a : Nat) (hm : m < two63) :
    asU64 (satAddI64 (m : Int) (a : Int)) = min (m + a) (two63 - 1) := by
  unfold asU64 satAddI64 two63 two64 at *
  simp only
  split <;> split <;> (try split) <;> omega

end Btc.Watchdog
