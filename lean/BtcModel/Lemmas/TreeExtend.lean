import BtcModel.Model.Tree
import BtcModel.Spec.Invariant

/-!
  Structural facts about `Tree.extend` (`BlockTree::extend`), `Tree.chainWithTip`
  (`get_chain_with_tip`), `Tree.findDepth` (`find_mut`) and `Tree.blocks`, used by the proof that
  `Unstable.push` preserves the global invariant.
-/
namespace Btc.TreeExtend
open Btc Tree Spec

variable {α : Type}

/-! ### `blocks` -/

theorem blocksList_append (a b : List (Tree α)) :
    blocksList (a ++ b) = blocksList a ++ blocksList b := by
  induction a with
  | nil => rfl
  | cons c cs ih => simp only [List.cons_append, blocksList, ih, List.append_assoc]

theorem blocks_leaf (b : α) : blocks (node b []) = [b] := rfl

theorem root_mem_blocks : ∀ (t : Tree α), t.root ∈ t.blocks
  | .node r cs => by simp [blocks, Tree.root]

/-! ### `extend`: where the new block goes -/

mutual
/-- `extend` inserts exactly the new block, at one position of the pre-order listing (right
    after the subtree of its parent), and changes nothing else. -/
theorem extend_blocks_split (h : α → Nat) (prev : Nat) (b : α) :
    ∀ (t t' : Tree α), extend h prev b t = some t' →
      ∃ l1 l2, blocks t = l1 ++ l2 ∧ blocks t' = l1 ++ b :: l2
  | .node r cs, t', he => by
    simp only [extend] at he
    split at he
    · cases he
      refine ⟨r :: blocksList cs, [], ?_, ?_⟩
      · simp [blocks]
      · simp [blocks, blocksList_append, blocksList]
    · split at he
      · rename_i cs' hcs
        cases he
        obtain ⟨l1, l2, e1, e2⟩ := extendList_blocks_split h prev b cs cs' hcs
        exact ⟨r :: l1, l2, by simp [blocks, e1], by simp [blocks, e2]⟩
      · cases he
theorem extendList_blocks_split (h : α → Nat) (prev : Nat) (b : α) :
    ∀ (cs cs' : List (Tree α)), extendList h prev b cs = some cs' →
      ∃ l1 l2, blocksList cs = l1 ++ l2 ∧ blocksList cs' = l1 ++ b :: l2
  | [], _, he => by simp [extendList] at he
  | c :: cs, cs', he => by
    simp only [extendList] at he
    split at he
    · rename_i c' hc
      cases he
      obtain ⟨l1, l2, e1, e2⟩ := extend_blocks_split h prev b c c' hc
      exact ⟨l1, l2 ++ blocksList cs, by simp [blocksList, e1], by simp [blocksList, e2]⟩
    · split at he
      · rename_i cs'' hcs
        cases he
        obtain ⟨l1, l2, e1, e2⟩ := extendList_blocks_split h prev b cs cs'' hcs
        exact ⟨blocks c ++ l1, l2, by simp [blocksList, e1], by simp [blocksList, e2]⟩
      · cases he
end

theorem extend_blocks_perm (h : α → Nat) (prev : Nat) (b : α) (t t' : Tree α)
    (he : extend h prev b t = some t') : (blocks t').Perm (b :: blocks t) := by
  obtain ⟨l1, l2, e1, e2⟩ := extend_blocks_split h prev b t t' he
  rw [e1, e2]
  exact List.perm_middle

theorem extend_mem_blocks (h : α → Nat) (prev : Nat) (b : α) (t t' : Tree α)
    (he : extend h prev b t = some t') (x : α) : x ∈ blocks t' ↔ x = b ∨ x ∈ blocks t := by
  rw [(extend_blocks_perm h prev b t t' he).mem_iff, List.mem_cons]

theorem extend_root (h : α → Nat) (prev : Nat) (b : α) :
    ∀ (t t' : Tree α), extend h prev b t = some t' → t'.root = t.root
  | .node r cs, t', he => by
    simp only [extend] at he
    split at he
    · cases he; rfl
    · split at he
      · cases he; rfl
      · cases he

/-! ### `chainWithTip` -/

theorem chainWithTipList_append (h : α → Nat) (x : Nat) (xs ys : List (Tree α)) :
    chainWithTipList h x (xs ++ ys) =
      match chainWithTipList h x xs with
      | some r => some r
      | none => chainWithTipList h x ys := by
  induction xs with
  | nil => simp [chainWithTipList]
  | cons c cs ih =>
    simp only [List.cons_append, chainWithTipList]
    cases chainWithTip h x c with
    | some r => rfl
    | none => simpa using ih

mutual
/-- a hash that no block of the tree has is not found -/
theorem chainWithTip_none_of_not_mem (h : α → Nat) (x : Nat) :
    ∀ (t : Tree α), x ∉ (blocks t).map h → chainWithTip h x t = none
  | .node r cs, hn => by
    simp only [blocks, List.map_cons, List.mem_cons, not_or] at hn
    simp only [chainWithTip]
    rw [if_neg (fun e => hn.1 e.symm), chainWithTipList_none_of_not_mem h x cs hn.2]
theorem chainWithTipList_none_of_not_mem (h : α → Nat) (x : Nat) :
    ∀ (cs : List (Tree α)), x ∉ (blocksList cs).map h → chainWithTipList h x cs = none
  | [], _ => rfl
  | c :: cs, hn => by
    simp only [blocksList, List.map_append, List.mem_append, not_or] at hn
    simp only [chainWithTipList]
    rw [chainWithTip_none_of_not_mem h x c hn.1, chainWithTipList_none_of_not_mem h x cs hn.2]
end

mutual
/-- the chain found consists of blocks of the tree, is non-empty, starts at the root and ends at
    a block with the requested hash -/
theorem chainWithTip_facts (h : α → Nat) (x : Nat) :
    ∀ (t : Tree α) (p s : List α), chainWithTip h x t = some (p, s) →
      (∀ c ∈ p, c ∈ blocks t) ∧ p.head? = some t.root ∧ (∃ q l, p = q ++ [l] ∧ h l = x)
  | .node r cs, p, s, hc => by
    simp only [chainWithTip] at hc
    split at hc
    · rename_i hr
      cases hc
      exact ⟨by simp [blocks], rfl, [], r, rfl, hr⟩
    · split at hc
      · rename_i p' s' hl
        simp only [Option.some.injEq, Prod.mk.injEq] at hc
        obtain ⟨hp, -⟩ := hc
        subst hp
        obtain ⟨h1, q, l, h3, h4⟩ := chainWithTipList_facts h x cs p' s' hl
        refine ⟨?_, rfl, r :: q, l, by simp [h3], h4⟩
        intro c hc
        rcases List.mem_cons.mp hc with e | e
        · simp [e, blocks]
        · simp [blocks, h1 c e]
      · cases hc
theorem chainWithTipList_facts (h : α → Nat) (x : Nat) :
    ∀ (cs : List (Tree α)) (p s : List α), chainWithTipList h x cs = some (p, s) →
      (∀ c ∈ p, c ∈ blocksList cs) ∧ (∃ q l, p = q ++ [l] ∧ h l = x)
  | [], _, _, hc => by simp [chainWithTipList] at hc
  | c :: cs, p, s, hc => by
    simp only [chainWithTipList] at hc
    split at hc
    · rename_i x' hx
      cases hc
      obtain ⟨h1, _, h3⟩ := chainWithTip_facts h x c p s hx
      exact ⟨fun c' hc' => by simp [blocksList, h1 c' hc'], h3⟩
    · obtain ⟨h1, h3⟩ := chainWithTipList_facts h x cs p s hc
      exact ⟨fun c' hc' => by simp [blocksList, h1 c' hc'], h3⟩
end

theorem chainWithTip_ne_nil (h : α → Nat) (x : Nat) (t : Tree α) (p s : List α)
    (hc : chainWithTip h x t = some (p, s)) : p ≠ [] := by
  obtain ⟨_, _, q, l, e, _⟩ := chainWithTip_facts h x t p s hc
  simp [e]

mutual
/-- a hash that some block has is found -/
theorem chainWithTip_isSome_of_mem (h : α → Nat) (x : Nat) :
    ∀ (t : Tree α), x ∈ (blocks t).map h → (chainWithTip h x t).isSome = true
  | .node r cs, hm => by
    simp only [blocks, List.map_cons, List.mem_cons] at hm
    simp only [chainWithTip]
    split
    · rfl
    · rename_i hr
      have : x ∈ (blocksList cs).map h := by
        rcases hm with e | e
        · exact absurd e.symm hr
        · exact e
      have := chainWithTipList_isSome_of_mem h x cs this
      cases hl : chainWithTipList h x cs with
      | none => simp [hl] at this
      | some v => rfl
theorem chainWithTipList_isSome_of_mem (h : α → Nat) (x : Nat) :
    ∀ (cs : List (Tree α)), x ∈ (blocksList cs).map h → (chainWithTipList h x cs).isSome = true
  | [], hm => by simp [blocksList] at hm
  | c :: cs, hm => by
    simp only [blocksList, List.map_append, List.mem_append] at hm
    simp only [chainWithTipList]
    cases hc : chainWithTip h x c with
    | some v => rfl
    | none =>
      simp only
      rcases hm with e | e
      · have := chainWithTip_isSome_of_mem h x c e
        simp [hc] at this
      · exact chainWithTipList_isSome_of_mem h x cs e
end

/-- `contains` = some block has that hash -/
theorem contains_iff_mem (h : α → Nat) (x : Nat) (t : Tree α) :
    contains h x t = true ↔ x ∈ (blocks t).map h := by
  unfold contains
  constructor
  · intro hc
    apply Classical.byContradiction
    intro hn
    rw [chainWithTip_none_of_not_mem h x t hn] at hc
    simp at hc
  · exact chainWithTip_isSome_of_mem h x t

/-- `findDepth` is the length of the root path minus one (`find_mut` returns the depth of the
    node, the root having depth 0). -/
theorem findDepth_eq_some_iff (h : α → Nat) (x : Nat) (t : Tree α) (d : Nat) :
    findDepth h x t = some d ↔ ∃ p s, chainWithTip h x t = some (p, s) ∧ p.length = d + 1 := by
  unfold findDepth
  cases hc : chainWithTip h x t with
  | none => simp
  | some v =>
    obtain ⟨p, s⟩ := v
    have hne := chainWithTip_ne_nil h x t p s hc
    have hl : 0 < p.length := List.length_pos_iff.mpr hne
    simp only [Option.map_some, Option.some.injEq, Prod.mk.injEq, exists_and_right]
    constructor
    · intro e
      exact ⟨p, ⟨s, rfl, rfl⟩, by omega⟩
    · rintro ⟨p', ⟨s', e1, e2⟩, hl'⟩
      subst e1
      omega

theorem findDepth_isSome_iff_contains (h : α → Nat) (x : Nat) (t : Tree α) :
    (findDepth h x t).isSome = contains h x t := by
  unfold findDepth contains
  cases chainWithTip h x t <;> rfl

/-! ### `extend` succeeds iff the parent is in the tree -/

mutual
theorem extend_isSome (h : α → Nat) (prev : Nat) (b : α) :
    ∀ (t : Tree α), (extend h prev b t).isSome = (chainWithTip h prev t).isSome
  | .node r cs => by
    simp only [extend, chainWithTip]
    split
    · rfl
    · have := extendList_isSome h prev b cs
      cases he : extendList h prev b cs <;> cases hc : chainWithTipList h prev cs <;>
        simp_all
theorem extendList_isSome (h : α → Nat) (prev : Nat) (b : α) :
    ∀ (cs : List (Tree α)), (extendList h prev b cs).isSome = (chainWithTipList h prev cs).isSome
  | [] => rfl
  | c :: cs => by
    simp only [extendList, chainWithTipList]
    have h1 := extend_isSome h prev b c
    have h2 := extendList_isSome h prev b cs
    cases he : extend h prev b c <;> cases hc : chainWithTip h prev c <;>
      cases he2 : extendList h prev b cs <;> cases hc2 : chainWithTipList h prev cs <;>
      simp_all
end

theorem extend_isSome_eq_contains (h : α → Nat) (prev : Nat) (b : α) (t : Tree α) :
    (extend h prev b t).isSome = contains h prev t := extend_isSome h prev b t

theorem extend_eq_none_iff (h : α → Nat) (prev : Nat) (b : α) (t : Tree α) :
    extend h prev b t = none ↔ contains h prev t = false := by
  rw [← extend_isSome_eq_contains h prev b t]
  cases extend h prev b t <;> simp

/-! ### Root paths of the extended tree -/

mutual
/-- Paths to blocks other than the new one are unchanged (only the successor list of the parent
    grows). -/
theorem chainWithTip_extend_ne (h : α → Nat) (prev : Nat) (b : α) (tip : Nat) (hne : tip ≠ h b) :
    ∀ (t t' : Tree α), extend h prev b t = some t' →
      (chainWithTip h tip t').map (·.1) = (chainWithTip h tip t).map (·.1)
  | .node r cs, t', he => by
    simp only [extend] at he
    split at he
    · cases he
      simp only [chainWithTip]
      split
      · rfl
      · rw [chainWithTipList_append]
        cases hc : chainWithTipList h tip cs with
        | some v => rfl
        | none =>
          have : chainWithTip h tip (node b []) = none := by
            simp only [chainWithTip, chainWithTipList]
            rw [if_neg (fun e => hne e.symm)]
          simp [chainWithTipList, this]
    · split at he
      · rename_i cs' hcs
        cases he
        have ih := chainWithTipList_extend_ne h prev b tip hne cs cs' hcs
        simp only [chainWithTip]
        split
        · rfl
        · cases h1 : chainWithTipList h tip cs' <;> cases h2 : chainWithTipList h tip cs <;>
            simp_all
      · cases he
theorem chainWithTipList_extend_ne (h : α → Nat) (prev : Nat) (b : α) (tip : Nat) (hne : tip ≠ h b) :
    ∀ (cs cs' : List (Tree α)), extendList h prev b cs = some cs' →
      (chainWithTipList h tip cs').map (·.1) = (chainWithTipList h tip cs).map (·.1)
  | [], _, he => by simp [extendList] at he
  | c :: cs, cs', he => by
    simp only [extendList] at he
    split at he
    · rename_i c' hc
      cases he
      have ih := chainWithTip_extend_ne h prev b tip hne c c' hc
      simp only [chainWithTipList]
      cases h1 : chainWithTip h tip c' <;> cases h2 : chainWithTip h tip c <;> simp_all
    · split at he
      · rename_i cs'' hcs
        cases he
        have ih := chainWithTipList_extend_ne h prev b tip hne cs cs'' hcs
        simp only [chainWithTipList]
        cases h2 : chainWithTip h tip c <;> simp_all
      · cases he
end

mutual
/-- The path to the new block is the path to its parent followed by the block (the new block's
    hash being fresh), and it has no successors. -/
theorem chainWithTip_extend_new (h : α → Nat) (prev : Nat) (b : α) :
    ∀ (t t' : Tree α), extend h prev b t = some t' → h b ∉ (blocks t).map h →
      ∃ p s, chainWithTip h prev t = some (p, s) ∧ chainWithTip h (h b) t' = some (p ++ [b], [])
  | .node r cs, t', he, hf => by
    simp only [blocks, List.map_cons, List.mem_cons, not_or] at hf
    simp only [extend] at he
    split at he
    · rename_i hr
      cases he
      refine ⟨[r], rootsOf cs, by simp [chainWithTip, hr], ?_⟩
      simp only [chainWithTip]
      rw [if_neg (fun e => hf.1 e.symm), chainWithTipList_append,
        chainWithTipList_none_of_not_mem h (h b) cs hf.2]
      simp [chainWithTipList, chainWithTip, rootsOf]
    · rename_i hr
      split at he
      · rename_i cs' hcs
        cases he
        obtain ⟨p, s, e1, e2⟩ := chainWithTipList_extend_new h prev b cs cs' hcs hf.2
        refine ⟨r :: p, s, by simp [chainWithTip, hr, e1], ?_⟩
        simp only [chainWithTip]
        rw [if_neg (fun e => hf.1 e.symm), e2]
        rfl
      · cases he
theorem chainWithTipList_extend_new (h : α → Nat) (prev : Nat) (b : α) :
    ∀ (cs cs' : List (Tree α)), extendList h prev b cs = some cs' → h b ∉ (blocksList cs).map h →
      ∃ p s, chainWithTipList h prev cs = some (p, s) ∧
        chainWithTipList h (h b) cs' = some (p ++ [b], [])
  | [], _, he, _ => by simp [extendList] at he
  | c :: cs, cs', he, hf => by
    simp only [blocksList, List.map_append, List.mem_append, not_or] at hf
    simp only [extendList] at he
    split at he
    · rename_i c' hc
      cases he
      obtain ⟨p, s, e1, e2⟩ := chainWithTip_extend_new h prev b c c' hc hf.1
      exact ⟨p, s, by simp [chainWithTipList, e1], by simp [chainWithTipList, e2]⟩
    · rename_i hnone
      split at he
      · rename_i cs'' hcs
        cases he
        obtain ⟨p, s, e1, e2⟩ := chainWithTipList_extend_new h prev b cs cs'' hcs hf.2
        have hc0 : chainWithTip h prev c = none := by
          have := extend_isSome h prev b c
          rw [hnone] at this
          cases hcc : chainWithTip h prev c with
          | none => rfl
          | some v => simp [hcc] at this
        refine ⟨p, s, by simp [chainWithTipList, hc0, e1], ?_⟩
        simp only [chainWithTipList]
        rw [chainWithTip_none_of_not_mem h (h b) c hf.1]
        exact e2
      · cases he
end

/-! ### `Linked` -/

theorem linkedList_append (parent : Nat) (xs ys : List (Tree CBlock)) :
    LinkedList parent (xs ++ ys) ↔ LinkedList parent xs ∧ LinkedList parent ys := by
  induction xs with
  | nil => simp [LinkedList]
  | cons c cs ih => simp only [List.cons_append, LinkedList, ih, and_assoc]

mutual
theorem extend_linked (prev : Nat) (b : CBlock) (hb : b.blk.prev = prev) :
    ∀ (t t' : Tree CBlock), extend CBlock.hash prev b t = some t' → Linked t → Linked t'
  | .node r cs, t', he, hl => by
    simp only [extend] at he
    split at he
    · rename_i hr
      cases he
      simp only [Linked] at hl ⊢
      rw [linkedList_append]
      refine ⟨hl, ?_⟩
      simp [LinkedList, Linked, Tree.root, hb, hr]
    · split at he
      · rename_i cs' hcs
        cases he
        simp only [Linked] at hl ⊢
        exact extendList_linked prev b hb r.hash cs cs' hcs hl
      · cases he
theorem extendList_linked (prev : Nat) (b : CBlock) (hb : b.blk.prev = prev) :
    ∀ (parent : Nat) (cs cs' : List (Tree CBlock)), extendList CBlock.hash prev b cs = some cs' →
      LinkedList parent cs → LinkedList parent cs'
  | _, [], _, he, _ => by simp [extendList] at he
  | parent, c :: cs, cs', he, hl => by
    simp only [extendList] at he
    simp only [LinkedList] at hl
    split at he
    · rename_i c' hc
      cases he
      simp only [LinkedList]
      refine ⟨?_, extend_linked prev b hb c c' hc hl.2.1, hl.2.2⟩
      rw [extend_root CBlock.hash prev b c c' hc]
      exact hl.1
    · split at he
      · rename_i cs'' hcs
        cases he
        simp only [LinkedList]
        exact ⟨hl.1, hl.2.1, extendList_linked prev b hb parent cs cs'' hcs hl.2.2⟩
      · cases he
end

end Btc.TreeExtend
