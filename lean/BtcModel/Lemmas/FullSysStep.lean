import BtcModel.Lemmas.FullSys
import BtcModel.Props.C13

/-!
  Every message of `Spec/FullSys.lean` as a `FrameRun`: case analysis of the heartbeat
  (`heartbeatStart_cases`), replies, endpoint calls; `stepMsg_sim`; the invariant of the
  message-level system (`fullReachable_inv2`); which traps remain possible.
-/
namespace Btc.Lemmas.FullSys
open Btc Btc.State Btc.Spec Btc.Spec.Full Btc.Lemmas.Reach Btc.Lemmas.Reach2 Btc.Lemmas.Fetch
open Btc.Props.InvIngest (peek_eq)

/-! ### The heartbeat -/

theorem afterIngest_cases (env : Env) (s : State) :
    afterIngest env s = .trap ∨
    (∃ req, fetchDecision s = some (some req) ∧
      afterIngest env s = .awaiting { s with syncing := { s.syncing with isFetching := true } } req) ∨
    (fetchDecision s = some none ∧ ∃ s', finish env s = .processed s' ∧
      afterIngest env s = .processed s') := by
  unfold afterIngest
  cases hf : fetchDecision s with
  | none => exact Or.inl rfl
  | some o =>
    cases o with
    | some req => exact Or.inr (Or.inl ⟨req, rfl, rfl⟩)
    | none =>
      simp only
      cases hfin : finish env s with
      | trap => exact Or.inl rfl
      | processed s' => exact Or.inr (Or.inr ⟨trivial, s', rfl, rfl⟩)
      | awaiting s' r => exact absurd hfin (finish_ne_awaiting env s s' r)
      | ingested s' b => exact absurd hfin (finish_ne_ingested env s s' b)

/-- **The four outcomes of a heartbeat**: it traps; it ingests (and returns); it sends a request
    (nothing was ingested, no block is partially ingested); it processes the stored response and
    computes the fee percentiles (nothing was ingested, no block is partially ingested). -/
theorem heartbeatStart_cases (env : Env) (s : State) (budget : Nat) :
    heartbeatStart env s budget = .trap ∨
    (∃ s' p, heartbeatStart env s budget = .ingested s' p ∧
      ((p = true ∧ s.ingestStable env.bound budget = .paused s') ∨
       (p = false ∧ s.ingestStable env.bound budget = .done s' true))) ∨
    (s.ingestStable env.bound budget = .done s false ∧ s.utxos.ingesting = none ∧
      ∃ req, fetchDecision s = some (some req) ∧
        heartbeatStart env s budget =
          .awaiting { s with syncing := { s.syncing with isFetching := true } } req) ∨
    (s.ingestStable env.bound budget = .done s false ∧ s.utxos.ingesting = none ∧
      fetchDecision s = some none ∧
      ∃ s', finish env s = .processed s' ∧ heartbeatStart env s budget = .processed s') := by
  rw [heartbeatStart_eq]
  cases hi : s.ingestStable env.bound budget with
  | trap m => exact Or.inl rfl
  | paused s' =>
    exact Or.inr (Or.inl ⟨s', true, rfl, Or.inl ⟨rfl, rfl⟩⟩)
  | done s' w =>
    cases w with
    | true => exact Or.inr (Or.inl ⟨s', false, rfl, Or.inr ⟨rfl, rfl⟩⟩)
    | false =>
      obtain ⟨rfl, hni⟩ := ingestStable_done_false' hi
      simp only
      rcases afterIngest_cases env s' with h | ⟨req, h1, h2⟩ | ⟨h1, s2, h2, h3⟩
      · exact Or.inl h
      · exact Or.inr (Or.inr (Or.inl ⟨trivial, hni, req, h1, h2⟩))
      · exact Or.inr (Or.inr (Or.inr ⟨trivial, hni, h1, s2, h2, h3⟩))

/-! ### Replies -/

theorem heartbeatReply_frame {s s' : State} {r : Reply} (h : heartbeatReply s r = some s') :
    Frame s s' := by
  unfold heartbeatReply at h
  cases r with
  | reject =>
    simp only [Option.some.injEq] at h
    subst h; exact ⟨rfl, rfl, rfl⟩
  | complete c =>
    simp only at h
    split at h
    · cases h
    · simp only [Option.some.injEq] at h
      subst h; exact ⟨rfl, rfl, rfl⟩
  | partial_ p =>
    simp only at h
    split at h
    · cases h
    · simp only [Option.some.injEq] at h
      subst h; exact ⟨rfl, rfl, rfl⟩
  | followUp bytes =>
    simp only at h
    split at h
    · split at h
      · cases h
      · simp only [Option.some.injEq] at h
        subst h; exact ⟨rfl, rfl, rfl⟩
    · cases h

theorem replyTrapState_frame (s : State) : Frame s (replyTrapState s) := ⟨rfl, rfl, rfl⟩

/-- a reply (delivered or not, well-typed or not, trapping or not) leaves the ledger part alone -/
theorem reply_frame (env : Env) (sys : Fetch.Sys) (r : Reply) :
    Frame sys.st (Fetch.step env sys (.reply r)).st := by
  unfold Fetch.step
  cases hp : sys.pending with
  | none => exact Frame.refl _
  | some req =>
    simp only
    cases hr : heartbeatReply sys.st r with
    | some s' => exact heartbeatReply_frame hr
    | none => exact replyTrapState_frame _

/-! ### Endpoint calls -/

theorem sendTransaction_frame (s : State) (w : Bool) : Frame s (s.sendTransaction w).1 := by
  cases w <;> exact ⟨rfl, rfl, rfl⟩

/-- an endpoint call leaves the ledger part alone (it may refresh the fee-percentile cache and
    count a forwarded transaction) -/
theorem callState_frame (env : Env) (s : State) (c : Call) : Frame s (callState env s c) := by
  cases c with
  | getUtxos r =>
    simp only [callState]; unfold callGetUtxos
    try dsimp only
    (repeat' split) <;> exact Frame.refl _
  | getUtxosQuery r =>
    simp only [callState]; unfold callGetUtxosQuery
    try dsimp only
    (repeat' split) <;> exact Frame.refl _
  | getBalance r =>
    simp only [callState]; unfold callGetBalance
    try dsimp only
    (repeat' split) <;> exact Frame.refl _
  | getBalanceQuery r =>
    simp only [callState]; unfold callGetBalanceQuery
    try dsimp only
    (repeat' split) <;> exact Frame.refl _
  | getBlockHeaders r =>
    simp only [callState]; unfold callGetBlockHeaders
    try dsimp only
    (repeat' split) <;> exact Frame.refl _
  | feePercentiles r =>
    simp only [callState]; unfold callFeePercentiles
    split
    · exact Frame.refl _
    · split
      · exact Frame.refl _
      · split
        · exact Frame.refl _
        · rename_i hf
          exact feePercentiles_frame hf
  | sendTransaction n a l w =>
    simp only [callState]; unfold callSendTransaction
    split
    · exact Frame.refl _
    · split
      · exact Frame.refl _
      · exact sendTransaction_frame s w

/-! ### Every message -/

/-- **Simulation**: every message is a finite sequence of `Spec.step2` steps (the operations
    `msgOps`), each in its domain, interleaved with changes outside the ledger part. -/
theorem stepMsg_sim (env : Env) (c : Cfg) (m : Msg) (ht : Trusted env c m) :
    FrameRun env.bound (c.1.st, c.2) (msgOps env c.1.st m)
      ((stepMsg env c m).1.st, (stepMsg env c m).2) := by
  obtain ⟨sys, G⟩ := c
  cases m with
  | heartbeat budget =>
    simp only [stepMsg, stepSys, stepGhost, msgOps, Fetch.step]
    rcases heartbeatStart_cases env sys.st budget with h | ⟨s', p, h, hi⟩ | ⟨hi, hni, req, _, h⟩ |
        ⟨hi, hni, _, s', hfin, h⟩
    · rw [h]; exact FrameRun.nil _
    · rw [h]
      refine frameRun_step env.bound trivial ?_
      rw [step2_ingest]
      rcases hi with ⟨_, hi⟩ | ⟨_, hi⟩ <;> rw [hi]
    · rw [h]
      exact frameRun_frame env.bound G ⟨rfl, rfl, rfl⟩
    · rw [h]
      exact finish_sim env.bound env sys.st s' G hni (ht (pastIngestion_iff.mpr hi)) hfin
  | reply r =>
    simp only [stepMsg, stepSys, stepGhost, msgOps]
    exact frameRun_frame env.bound G (reply_frame env sys r)
  | upgrade cfg =>
    simp only [stepMsg, stepSys, stepGhost, msgOps, Fetch.step]
    exact frameRun_step env.bound trivial rfl
  | setConfig cfg =>
    simp only [stepMsg, stepSys, stepGhost, msgOps, Fetch.step]
    exact frameRun_step env.bound trivial rfl
  | call cl =>
    simp only [stepMsg, stepSys, stepGhost, msgOps]
    exact frameRun_frame env.bound G (callState_frame env sys.st cl)

theorem stepMsg_inv2 (env : Env) (c : Cfg) (m : Msg) (ht : Trusted env c m)
    (h : Inv2 c.1.st c.2) : Inv2 (stepMsg env c m).1.st (stepMsg env c m).2 :=
  frameRun_inv2 (stepMsg_sim env c m ht) h

/-- **the invariant of the message-level system** -/
theorem fullReachable_inv2 {sys : Fetch.Sys} {G : List Block} (h : FullReachable sys G) :
    Inv2 sys.st G := by
  induction h with
  | init thr net genesis s0 hv hn => exact Or.inl (init_establishes_invAll thr net genesis s0 hv hn)
  | step sys G env m _ ht ih => exact stepMsg_inv2 env (sys, G) m ht ih

/-- schedules -/
theorem run_reachable : ∀ (msgs : List (Env × Msg)) (c : Cfg), FullReachable c.1 c.2 →
    TrustedRun c msgs → FullReachable (run c msgs).1 (run c msgs).2
  | [], _, h, _ => h
  | (env, m) :: rest, c, h, ht =>
    run_reachable rest (stepMsg env c m) (FullReachable.step c.1 c.2 env m h ht.1) ht.2

theorem run_append (c : Cfg) (l1 l2 : List (Env × Msg)) : run c (l1 ++ l2) = run (run c l1) l2 := by
  induction l1 generalizing c with
  | nil => rfl
  | cons em rest ih => obtain ⟨env, m⟩ := em; exact ih _

theorem trustedRun_append (c : Cfg) (l1 l2 : List (Env × Msg)) :
    TrustedRun c (l1 ++ l2) ↔ TrustedRun c l1 ∧ TrustedRun (run c l1) l2 := by
  induction l1 generalizing c with
  | nil => simp [TrustedRun, run]
  | cons em rest ih =>
    obtain ⟨env, m⟩ := em
    simp only [List.cons_append, TrustedRun, run, ih, and_assoc]

theorem trustedRun_take {c : Cfg} {l : List (Env × Msg)} (h : TrustedRun c l) (k : Nat) :
    TrustedRun c (l.take k) := by
  have := (trustedRun_append c (l.take k) (l.drop k)).mp (by rw [List.take_append_drop]; exact h)
  exact this.1

/-- the canister part of a run is the run of the fetch protocol when there are no endpoint
    calls (`Fetch.run` is the system of C13) -/
def Msg.action : Msg → Fetch.Action
  | .heartbeat b => .heartbeat b
  | .reply r => .reply r
  | .upgrade c => .upgrade c
  | .setConfig c => .setConfig c
  | .call _ => .query

theorem stepSys_eq_fetch (env : Env) (sys : Fetch.Sys) (m : Msg) (h : ∀ c, m ≠ .call c) :
    stepSys env sys m = Fetch.step env sys (Msg.action m) := by
  cases m with
  | call c => exact absurd rfl (h c)
  | heartbeat _ => rfl
  | reply _ => rfl
  | upgrade _ => rfl
  | setConfig _ => rfl

/-- an endpoint call is invisible to the fetch protocol -/
theorem stepSys_call_fetch (env : Env) (sys : Fetch.Sys) (c : Call) :
    (stepSys env sys (.call c)).pending = sys.pending ∧
    (stepSys env sys (.call c)).st.syncing = sys.st.syncing := by
  refine ⟨rfl, ?_⟩
  simp only [stepSys]
  cases c with
  | getUtxos r =>
    simp only [callState]; unfold callGetUtxos
    try dsimp only
    (repeat' split) <;> rfl
  | getUtxosQuery r =>
    simp only [callState]; unfold callGetUtxosQuery
    try dsimp only
    (repeat' split) <;> rfl
  | getBalance r =>
    simp only [callState]; unfold callGetBalance
    try dsimp only
    (repeat' split) <;> rfl
  | getBalanceQuery r =>
    simp only [callState]; unfold callGetBalanceQuery
    try dsimp only
    (repeat' split) <;> rfl
  | getBlockHeaders r =>
    simp only [callState]; unfold callGetBlockHeaders
    try dsimp only
    (repeat' split) <;> rfl
  | feePercentiles r =>
    simp only [callState]; unfold callFeePercentiles
    split
    · rfl
    · split
      · rfl
      · split
        · rfl
        · rename_i hf
          exact feePercentiles_syncing hf
  | sendTransaction n a l w =>
    simp only [callState]; unfold callSendTransaction
    split
    · rfl
    · split
      · rfl
      · cases w <;> rfl

/-! ### The fetch-protocol invariant of C13 holds along every message sequence -/

theorem new_initial {thr : Nat} {net : Tree.Net} {genesis : Block} {s0 : State}
    (hn : State.new thr net genesis = some s0) :
    Fetch.Sys.Initial { st := s0, pending := none } := by
  unfold State.new at hn
  simp only at hn
  split at hn
  · cases hn
  · cases hn
    exact ⟨rfl, rfl, rfl⟩

/-- **C13's invariant** (single flight, well-formed stored response, pending request agrees with
    the stored response) holds in every reachable configuration: endpoint calls do not touch the
    fetch state, every other message is a `Fetch.step`. -/
theorem fullReachable_fetchInv {sys : Fetch.Sys} {G : List Block} (h : FullReachable sys G) :
    Props.C13.Inv sys := by
  induction h with
  | init thr net genesis s0 hv hn => exact Props.C13.inv_initial (new_initial hn)
  | step sys G env m _ _ ih =>
    cases m with
    | heartbeat b => exact Props.C13.inv_step env (.heartbeat b) ih
    | reply r => exact Props.C13.inv_step env (.reply r) ih
    | upgrade c => exact Props.C13.inv_step env (.upgrade c) ih
    | setConfig c => exact Props.C13.inv_step env (.setConfig c) ih
    | call c =>
      obtain ⟨h1, h2⟩ := stepSys_call_fetch env sys c
      obtain ⟨i1, i2, i3⟩ := ih
      refine ⟨?_, ?_, ?_⟩
      · show (stepSys env sys (.call c)).pending.isSome ↔ (stepSys env sys (.call c)).st.syncing.isFetching = true
        rw [h1, h2]; exact i1
      · show Props.C13.WFResp (stepSys env sys (.call c)).st.syncing.response
        rw [h2]; exact i2
      · show Props.C13.Matches (stepSys env sys (.call c)).pending (stepSys env sys (.call c)).st.syncing.response
        rw [h1, h2]; exact i3

/-- the assertion of `maybe_get_successors_request` never fails -/
theorem fetchDecision_ne_none {sys : Fetch.Sys} {G : List Block} (h : FullReachable sys G) :
    fetchDecision sys.st ≠ none := by
  unfold fetchDecision
  split
  · simp
  · split
    · simp
    · exact Props.C13.successorsRequest_never_traps (fullReachable_fetchInv h)

/-! ### Which traps remain -/

/-- from a state satisfying the full invariant the ingestion part never traps -/
theorem ingest_no_trap_clean (bound : Unstable.BoundFn) {s : State} {G : List Block}
    (hA : InvAll s G) (budget : Nat) (m : String) : s.ingestStable bound budget ≠ .trap m := by
  intro h
  have := ingest_stable_preserves_invU bound s G budget hA.invU
  rw [h] at this
  exact this

/-- **The only trap of the ingestion part** (finding F13): a block is partially ingested and its
    anchor is no longer stable — the stability threshold was raised (or the depth bound changed)
    since the ingestion began. -/
theorem ingest_trap_paused (bound : Unstable.BoundFn) {s0 s : State} {G : List Block} {A : CBlock}
    {B : Nat} (hA : InvAll s0 G) (hP : PausedAt' s0 s G A B) (b : Nat) (m : String)
    (h : s.ingestStable bound b = .trap m) : Unstable.peek bound s0.unstable = none := by
  cases hpeek : Unstable.peek bound s0.unstable with
  | none => rfl
  | some anchor =>
    exfalso
    have hI := hA.invU.inv
    obtain ⟨_, _, hanchor⟩ := peek_eq bound s0.unstable anchor hpeek
    have hAa : anchor = A := hanchor.trans hP.base.anchor
    subst hAa
    have hround := hP.round
    have hs := hP.state_eq
    generalize s.utxos = u at hs hround
    subst hs
    rw [Props.C08.resume_eq bound s0 G B anchor u hI hpeek hround b s0.unstable.tree.blocksCount false
      (Nat.lt_succ_self _), ← Props.C08.ingestStable_eq_loop bound s0 G (B + b) hI] at h
    exact ingest_no_trap_clean bound hA (B + b) m h

/-- **The block loop traps only inside the header validation library**: under the environment
    assumption, from a state satisfying the full invariant, `push` never fails. -/
theorem processBlocks_trap (env : Env) (G : List Block) :
    ∀ (blobs : List String) (s : State), InvAll s G → TrustedBlocks env G s blobs →
      processBlocks env s blobs = none →
      ∃ pre blob rest sMid b, blobs = pre ++ blob :: rest ∧
        processBlocks env s pre = some (sMid, false) ∧ env.dec.block blob = some b ∧
        headerTraps env sMid b
  | [], s, _, _, h => by simp [processBlocks] at h
  | blob :: rest, s, hA, ht, h => by
    rw [Props.C10.processBlocks_cons] at h
    cases hd : env.dec.block blob with
    | none => rw [hd] at h; cases h
    | some b =>
      rw [hd] at h
      simp only at h
      obtain ⟨ht1, ht2⟩ := ht b hd
      cases hi : insertBlock env s b with
      | rejected why => rw [hi] at h; cases h
      | trap =>
        rcases insertBlock_trap_cases hi with ht' | ⟨hp, hn⟩
        · exact ⟨[], blob, rest, s, b, rfl, rfl, hd, ht'⟩
        · obtain ⟨u, hu, _⟩ := accepted_of_passes hA.invU (ht1 hp) hp
          exact absurd hu (hn u)
      | ok s' =>
        rw [hi] at h
        simp only at h
        obtain ⟨u, hu, rfl⟩ := insertBlock_ok_eq hi
        have hA' : InvAll { s with unstable := u } G :=
          step_preserves_invAll (fun _ _ => 0) s G (.push b) _ G hA (ht1 (passes_of_ok hi))
            (by simp only [step, hu])
        obtain ⟨pre, bl, rs, sMid, b', e, hpre, hd', htr⟩ :=
          processBlocks_trap env G rest { s with unstable := u } hA' (ht2 _ hi) h
        refine ⟨blob :: pre, bl, rs, sMid, b', by rw [e]; rfl, ?_, hd', htr⟩
        rw [Props.C10.processBlocks_cons, hd]
        simp only [hi]
        exact hpre

/-- the header loop traps only inside the header validation library -/
theorem insertNextHeadersAll_trap (env : Env) : ∀ (raws : List String) (s : State),
    insertNextHeadersAll env s raws = none →
    ∃ s' h chain, Header.validateHeader s'.network (validationStore s' chain) (hdrOfNext h) env.now = .trap
  | [], s, h => by simp [insertNextHeadersAll] at h
  | raw :: rest, s, h => by
    unfold insertNextHeadersAll at h
    split at h
    · cases h
    · split at h
      · exact insertNextHeadersAll_trap env rest s h
      · split at h
        · cases h
        · rename_i chain _
          split at h
          · rename_i hv; exact ⟨s, _, chain, hv⟩
          · cases h
          · split at h
            · cases h
            · exact insertNextHeadersAll_trap env rest _ h

theorem insertNextHeaders_trap (env : Env) (raws : List String) (s : State)
    (h : insertNextHeaders env s raws = none) :
    ∃ s' h chain, Header.validateHeader s'.network (validationStore s' chain) (hdrOfNext h) env.now = .trap :=
  insertNextHeadersAll_trap env _ s h

end Btc.Lemmas.FullSys
