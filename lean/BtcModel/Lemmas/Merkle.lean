import BtcModel.Model.Merkle

/-
  Lemmas about the merkle tree model (`Btc.Merkle.merkleRoot`, `pairUp`) for an arbitrary
  two-to-one hash, and about `Btc.State.nodupNat`.
-/
namespace Btc.Merkle

variable (H : Nat → Nat → Nat)

/-! ### `pairUp` -/

@[simp] theorem pairUp_nil : pairUp H [] = [] := rfl
@[simp] theorem pairUp_singleton (a : Nat) : pairUp H [a] = [H a a] := rfl
@[simp] theorem pairUp_cons_cons (a b : Nat) (l : List Nat) :
    pairUp H (a :: b :: l) = H a b :: pairUp H l := rfl

theorem pairUp_length (l : List Nat) : (pairUp H l).length = (l.length + 1) / 2 := by
  fun_induction pairUp H l with
  | case1 => rfl
  | case2 a => simp
  | case3 a b rest ih => simp only [List.length_cons, ih]; omega

theorem pairUp_ne_nil {l : List Nat} (h : l ≠ []) : pairUp H l ≠ [] := by
  intro e
  have := pairUp_length H l
  rw [e] at this
  cases l with
  | nil => exact h rfl
  | cons a l => simp only [List.length_nil, List.length_cons] at this; omega

/-- Pairing distributes over `++` when the left part has even length. -/
theorem pairUp_append_even (l₁ l₂ : List Nat) (h : l₁.length % 2 = 0) :
    pairUp H (l₁ ++ l₂) = pairUp H l₁ ++ pairUp H l₂ := by
  fun_induction pairUp H l₁ with
  | case1 => rfl
  | case2 a => simp at h
  | case3 a b rest ih =>
    simp only [List.length_cons] at h
    simp only [List.cons_append, pairUp_cons_cons]
    rw [ih (by omega)]

/-- Dropping `2k` leaves = dropping `k` nodes one level up. -/
theorem pairUp_drop (k : Nat) (l : List Nat) :
    pairUp H (l.drop (2 * k)) = (pairUp H l).drop k := by
  induction k generalizing l with
  | zero => rfl
  | succ k ih =>
    match l with
    | [] => simp
    | [a] =>
      have : 2 * (k + 1) = 2 * k + 1 + 1 := by omega
      rw [this]; simp
    | a :: b :: rest =>
      have : 2 * (k + 1) = 2 * k + 1 + 1 := by omega
      rw [this]
      simp only [List.drop_succ_cons, pairUp_cons_cons]
      exact ih rest

/-! ### fuel independence and the defining recursion of `merkleRoot` -/

theorem merkleFuel_congr (f g : Nat) (l : List Nat) (hf : l.length ≤ f) (hg : l.length ≤ g) :
    merkleFuel H f l = merkleFuel H g l := by
  induction f generalizing g l with
  | zero =>
    match l, hf with
    | [], _ => cases g <;> rfl
  | succ f ih =>
    match l, hf, hg with
    | [], _, _ => cases g <;> rfl
    | [a], _, _ => cases g <;> rfl
    | a :: b :: rest, hf, hg =>
      match g, hg with
      | g + 1, hg =>
        simp only [merkleFuel]
        have hl := pairUp_length H (a :: b :: rest)
        simp only [List.length_cons] at hf hg hl
        exact ih g _ (by omega) (by omega)

@[simp] theorem merkleRoot_nil : merkleRoot H [] = none := rfl
@[simp] theorem merkleRoot_singleton (a : Nat) : merkleRoot H [a] = some a := rfl

/-- `merkle_root_r`: with two or more hashes, combine pairs and recurse. -/
theorem merkleRoot_step (l : List Nat) (h : 2 ≤ l.length) :
    merkleRoot H l = merkleRoot H (pairUp H l) := by
  match l, h with
  | a :: b :: rest, _ =>
    unfold merkleRoot
    simp only [List.length_cons, merkleFuel]
    have hl := pairUp_length H (a :: b :: rest)
    simp only [List.length_cons] at hl
    exact merkleFuel_congr H _ _ _ (by omega) (Nat.le_refl _)

theorem merkleRoot_pair (a b : Nat) : merkleRoot H [a, b] = some (H a b) := rfl

/-- Every non-empty list of hashes has a merkle root (the fuel `length` always suffices). -/
theorem merkleRoot_isSome (l : List Nat) (h : l ≠ []) : (merkleRoot H l).isSome = true := by
  generalize hn : l.length = n
  induction n using Nat.strongRecOn generalizing l with
  | ind n ih =>
    match l, h with
    | [a], _ => rfl
    | a :: b :: rest, _ =>
      rw [merkleRoot_step H _ (by simp)]
      have hl := pairUp_length H (a :: b :: rest)
      simp only [List.length_cons] at hl hn
      exact ih _ (by omega) _ (pairUp_ne_nil H (by simp)) rfl

theorem merkleRoot_eq_none_iff (l : List Nat) : merkleRoot H l = none ↔ l = [] := by
  constructor
  · intro h
    apply Classical.byContradiction
    intro hne
    have := merkleRoot_isSome H l hne
    rw [h] at this
    cases this
  · rintro rfl; rfl

/-! ### duplicating the tail (CVE-2012-2459) -/

theorem dupTail_map {α β : Type} (f : α → β) (k : Nat) (l : List α) :
    (dupTail k l).map f = dupTail k (l.map f) := by
  simp [dupTail, List.map_drop]

theorem dupTail_length {α : Type} (k : Nat) (l : List α) (h : k ≤ l.length) :
    (dupTail k l).length = l.length + k := by
  simp only [dupTail, List.length_append, List.length_drop]; omega

/-- first level: an odd number (≥ 3) of hashes and the same list with its last hash repeated
    have the same next level. -/
theorem pairUp_dupTail_one (l : List Nat) (hodd : l.length % 2 = 1) :
    pairUp H (dupTail 1 l) = pairUp H l := by
  have hsplit : l = l.take (l.length - 1) ++ l.drop (l.length - 1) :=
    (List.take_append_drop _ _).symm
  have hlen : (l.drop (l.length - 1)).length = 1 := by
    rw [List.length_drop]; omega
  obtain ⟨x, hx⟩ : ∃ x, l.drop (l.length - 1) = [x] := by
    match l.drop (l.length - 1), hlen with
    | [x], _ => exact ⟨x, rfl⟩
  have heven : (l.take (l.length - 1)).length % 2 = 0 := by
    rw [List.length_take]; omega
  unfold dupTail
  rw [hx]
  conv => rhs; rw [hsplit, hx]
  conv => lhs; rw [hsplit, hx, List.append_assoc]
  rw [pairUp_append_even H _ _ heven, pairUp_append_even H _ _ heven]
  rfl

/-- higher levels: for an even number of hashes, duplicating the last `2k` of them is
    duplicating the last `k` nodes one level up. -/
theorem pairUp_dupTail_even (k : Nat) (l : List Nat) (heven : l.length % 2 = 0)
    (hk : 2 * k ≤ l.length) :
    pairUp H (dupTail (2 * k) l) = dupTail k (pairUp H l) := by
  unfold dupTail
  rw [pairUp_append_even H _ _ heven, pairUp_length]
  have e1 : l.length - 2 * k = 2 * (l.length / 2 - k) := by omega
  have e2 : (l.length + 1) / 2 - k = l.length / 2 - k := by omega
  rw [e1, pairUp_drop, e2]

/-- **CVE-2012-2459, all levels, arbitrary hash.** If the number of leaves is `2^j * m` with `m`
    odd and `m ≥ 3` (so that level `j` of the tree has an odd number `m ≥ 3` of nodes, the last
    of which is paired with itself), then appending a copy of the last `2^j` leaves does not
    change the merkle root. -/
theorem merkleRoot_dupTail (j : Nat) : ∀ (m : Nat) (l : List Nat), l.length = 2 ^ j * m →
    m % 2 = 1 → 3 ≤ m → merkleRoot H (dupTail (2 ^ j) l) = merkleRoot H l := by
  induction j with
  | zero =>
    intro m l hlen hodd hm
    simp only [Nat.pow_zero, Nat.one_mul] at hlen ⊢
    rw [merkleRoot_step H (dupTail 1 l) (by rw [dupTail_length 1 l (by omega)]; omega),
      merkleRoot_step H l (by omega), pairUp_dupTail_one H l (by omega)]
  | succ j ih =>
    intro m l hlen hodd hm
    have hpow : 2 ^ (j + 1) = 2 * 2 ^ j := by rw [Nat.pow_succ, Nat.mul_comm]
    have hpos : 1 ≤ 2 ^ j := Nat.one_le_two_pow
    have hQ : 2 ^ j ≤ 2 ^ j * m := Nat.le_mul_of_pos_right _ (by omega)
    have hQ3 : 2 ^ j * 3 ≤ 2 ^ j * m := Nat.mul_le_mul_left _ hm
    rw [hpow, Nat.mul_assoc] at hlen
    rw [hpow]
    obtain ⟨Q, hQe⟩ : ∃ Q, Q = 2 ^ j * m := ⟨_, rfl⟩
    obtain ⟨P, hPe⟩ : ∃ P, P = 2 ^ j := ⟨_, rfl⟩
    rw [← hQe] at hlen hQ hQ3
    rw [← hPe] at hpos hQ hQ3 ⊢
    have hkl : 2 * P ≤ l.length := by omega
    rw [merkleRoot_step H (dupTail (2 * P) l) (by rw [dupTail_length _ l hkl]; omega),
      merkleRoot_step H l (by omega), pairUp_dupTail_even H P l (by omega) hkl, hPe]
    apply ih m (pairUp H l) _ hodd hm
    rw [pairUp_length, ← hQe]
    omega

/-- first-level special case: odd count `≥ 3`, last hash repeated. -/
theorem merkleRoot_dup_last (l : List Nat) (hodd : l.length % 2 = 1) (h3 : 3 ≤ l.length) :
    merkleRoot H (dupTail 1 l) = merkleRoot H l := by
  have := merkleRoot_dupTail H 0 l.length l (by simp) hodd h3
  simpa using this

end Btc.Merkle

namespace Btc.State

/-- the executable duplicate check is `List.Nodup` -/
theorem nodupNat_iff (l : List Nat) : nodupNat l = true ↔ l.Nodup := by
  induction l with
  | nil => simp [nodupNat]
  | cons x xs ih =>
    simp only [nodupNat, Bool.and_eq_true, Bool.not_eq_true', List.nodup_cons, ih]
    constructor
    · rintro ⟨h1, h2⟩
      refine ⟨?_, h2⟩
      intro hm
      have : xs.contains x = true := List.contains_iff_mem.mpr hm
      rw [h1] at this; cases this
    · rintro ⟨h1, h2⟩
      refine ⟨?_, h2⟩
      cases hc : xs.contains x with
      | false => rfl
      | true => exact absurd (List.contains_iff_mem.mp hc) h1

end Btc.State
