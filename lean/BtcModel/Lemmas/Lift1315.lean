import BtcModel.Props.C13Full
import BtcModel.Props.FullCor

/-!
  Helper lemmas for `Props/C13Lift.lean` and `Props/C15Full.lean`:

  * what the invariant of the message-level system (`Inv2`, paused or not) says about the hashes
    and the shape of the tree of unstable blocks;
  * root paths are sublists of the pre-order listing; hash-linked chains with the same tip;
  * the block loop of `maybe_process_response` over a concatenation;
  * the first block of the served chain never changes.
-/
namespace Btc.Lemmas.Lift1315
open Btc Btc.State Btc.Spec Btc.Spec.Full Btc.Lemmas.Reach Btc.Lemmas.Reach2 Btc.Lemmas.Fetch
open Btc.Lemmas.FullSys Btc.Lemmas.FullCor Btc.Lemmas.FullLive Btc.Props

/-! ### The invariant of all configurations, paused or not -/

/-- the state whose ledger invariant describes `s`: `s` itself, or the state before the ingestion
    of the partially ingested block began (same unstable blocks) -/
theorem inv2_base {s : State} {G : List Block} (h2 : Inv2 s G) :
    ∃ s0, InvAll s0 G ∧ s.unstable = s0.unstable := by
  rcases h2 with hA | ⟨s0, A, B, hA, hP⟩
  · exact ⟨s, hA, rfl⟩
  · exact ⟨s0, hA, hP.unstable⟩

/-- the hashes of the ingested blocks followed by the unstable blocks are pairwise distinct -/
theorem inv2_hashesNodup {s : State} {G : List Block} (h2 : Inv2 s G) :
    ((G ++ s.unstable.tree.blocks.map (·.blk)).map (·.hash)).Nodup := by
  obtain ⟨s0, hA, hu⟩ := inv2_base h2
  rw [hu]; exact hA.invU.inv.hashesNodup

theorem inv2_linked {s : State} {G : List Block} (h2 : Inv2 s G) : Spec.Linked s.unstable.tree := by
  obtain ⟨s0, hA, hu⟩ := inv2_base h2
  rw [hu]; exact hA.invU.inv.linked

theorem inv2_rootLinked {s : State} {G : List Block} (h2 : Inv2 s G) (g : Block)
    (hg : G.getLast? = some g) : s.unstable.tree.root.blk.prev = g.hash := by
  obtain ⟨s0, hA, hu⟩ := inv2_base h2
  have := hA.invU.inv.rootLinked
  rw [hg] at this
  rw [hu]; exact this

theorem inv2_stableLinked {s : State} {G : List Block} (h2 : Inv2 s G) (i : Nat)
    (h : i + 1 < G.length) : (G[i + 1]).prev = (G[i]).hash := by
  obtain ⟨s0, hA, _⟩ := inv2_base h2
  exact hA.invU.inv.stableLinked i h

/-! ### The two notions of a linked tree -/

mutual
theorem fetchLinked_of_linked : ∀ (t : Tree CBlock), Spec.Linked t →
    Spec.Fetch.Linked CBlock.hash (fun c => c.blk.prev) t
  | .node r cs, h => by
    have := fetchLinkedList_of_linkedList r.hash cs h
    exact ⟨this.1, this.2⟩
theorem fetchLinkedList_of_linkedList (parent : Nat) : ∀ (cs : List (Tree CBlock)),
    Spec.LinkedList parent cs →
    (∀ x ∈ Tree.rootsOf cs, x.blk.prev = parent) ∧
      Spec.Fetch.LinkedList CBlock.hash (fun c => c.blk.prev) cs
  | [], _ => ⟨by simp [Tree.rootsOf], trivial⟩
  | c :: cs, h => by
    obtain ⟨h1, h2, h3⟩ := h
    obtain ⟨i1, i2⟩ := fetchLinkedList_of_linkedList parent cs h3
    refine ⟨?_, fetchLinked_of_linked c h2, i2⟩
    intro x hx
    cases c with
    | node r ds =>
      simp only [Tree.rootsOf, List.mem_cons] at hx
      rcases hx with rfl | hx
      · exact h1
      · exact i1 x hx
end

/-- **`TreeOk` (the hypothesis of `C13.no_block_twice`) holds in every configuration satisfying the
    invariant of the message-level system** -/
theorem inv2_treeOk {s : State} {G : List Block} (h2 : Inv2 s G) :
    Spec.Fetch.TreeOk s.unstable.tree := by
  refine ⟨fetchLinked_of_linked _ (inv2_linked h2), ?_⟩
  obtain ⟨s0, hA, hu⟩ := inv2_base h2
  rw [hu]; exact tree_hashes_nodup hA.invU.inv

/-! ### Root paths are sublists of the pre-order listing -/

mutual
theorem chainWithTip_sublist {α : Type} (h : α → Nat) (tip : Nat) : ∀ (t : Tree α) (p s : List α),
    Tree.chainWithTip h tip t = some (p, s) → p.Sublist t.blocks
  | .node r cs, p, s, hc => by
    simp only [Tree.chainWithTip] at hc
    split at hc
    · simp only [Option.some.injEq, Prod.mk.injEq] at hc
      obtain ⟨rfl, _⟩ := hc
      simp only [Tree.blocks]
      exact List.Sublist.cons_cons _ (List.nil_sublist _)
    · split at hc
      · rename_i q s' hq
        simp only [Option.some.injEq, Prod.mk.injEq] at hc
        obtain ⟨rfl, _⟩ := hc
        simp only [Tree.blocks]
        exact List.Sublist.cons_cons _ (chainWithTipList_sublist h tip cs q s' hq)
      · cases hc
theorem chainWithTipList_sublist {α : Type} (h : α → Nat) (tip : Nat) : ∀ (cs : List (Tree α))
    (p s : List α), Tree.chainWithTipList h tip cs = some (p, s) → p.Sublist (Tree.blocksList cs)
  | [], p, s, hc => by simp [Tree.chainWithTipList] at hc
  | c :: cs, p, s, hc => by
    simp only [Tree.chainWithTipList] at hc
    simp only [Tree.blocksList]
    split at hc
    · rename_i x hx
      simp only [Option.some.injEq] at hc
      subst hc
      exact (chainWithTip_sublist h tip c p s hx).trans (List.sublist_append_left _ _)
    · exact (chainWithTipList_sublist h tip cs p s hc).trans (List.sublist_append_right _ _)
end

/-- the blocks of a root path are a sublist of the blocks of the tree -/
theorem pathBlocks_sublist {t : Tree CBlock} {tip : Nat} {p : List Block}
    (h : pathBlocks t tip = some p) : p.Sublist (t.blocks.map (·.blk)) := by
  unfold pathBlocks at h
  cases hc : Tree.chainWithTip CBlock.hash tip t with
  | none => rw [hc] at h; cases h
  | some x =>
    rw [hc] at h
    simp only [Option.map_some, Option.some.injEq] at h
    subst h
    exact (chainWithTip_sublist CBlock.hash tip t x.1 x.2 hc).map _

/-! ### Hash-linked chains with the same tip -/

/-- no block of the first list and block of the second list are different blocks with the same
    hash (collision-freeness of the block hash between two moments of a run) -/
def NoCollision (l1 l2 : List Block) : Prop :=
  ∀ b1 ∈ l1, ∀ b2 ∈ l2, b1.hash = b2.hash → b1 = b2

/-- a chain listed tip first: every block's `prev` is the hash of the next one -/
def RLinked : List Block → Prop
  | [] => True
  | [_] => True
  | x :: y :: rest => x.prev = y.hash ∧ RLinked (y :: rest)

theorem RLinked.tail {x : Block} {r : List Block} (h : RLinked (x :: r)) : RLinked r := by
  cases r with
  | nil => trivial
  | cons y rest => exact h.2

theorem linkedChain_tail {x : Block} {l : List Block} (h : LinkedChain (x :: l)) : LinkedChain l := by
  cases l with
  | nil => trivial
  | cons y rest => exact h.2

theorem rlinked_snoc {x : Block} : ∀ (r : List Block), RLinked r →
    (∀ y, r.getLast? = some y → y.prev = x.hash) → RLinked (r ++ [x])
  | [], _, _ => trivial
  | [a], _, hy => ⟨hy a rfl, trivial⟩
  | a :: b :: rest, h, hy => ⟨h.1, rlinked_snoc (b :: rest) h.2 (fun y e => hy y (by simpa using e))⟩

theorem rlinked_reverse : ∀ (l : List Block), LinkedChain l → RLinked l.reverse
  | [], _ => trivial
  | x :: rest, h => by
    rw [List.reverse_cons]
    apply rlinked_snoc _ (rlinked_reverse rest (linkedChain_tail h))
    intro y hy
    rw [List.getLast?_reverse] at hy
    cases rest with
    | nil => cases hy
    | cons z zs =>
      simp only [List.head?_cons, Option.some.injEq] at hy
      subst hy
      exact h.1

theorem rlinked_prefix : ∀ (r1 r2 : List Block), RLinked r1 → RLinked r2 → NoCollision r1 r2 →
    (∀ a b, r1.head? = some a → r2.head? = some b → a.hash = b.hash) → r1 <+: r2 ∨ r2 <+: r1
  | [], _, _, _, _, _ => Or.inl (List.nil_prefix)
  | _ :: _, [], _, _, _, _ => Or.inr (List.nil_prefix)
  | a :: r1, b :: r2, h1, h2, hc, hh => by
    have hab : a = b := hc a List.mem_cons_self b List.mem_cons_self (hh a b rfl rfl)
    subst hab
    have := rlinked_prefix r1 r2 h1.tail h2.tail
      (fun x hx y hy => hc x (List.mem_cons_of_mem _ hx) y (List.mem_cons_of_mem _ hy))
      (by
        intro x y hx hy
        cases r1 with
        | nil => cases hx
        | cons x' r1' =>
          cases r2 with
          | nil => cases hy
          | cons y' r2' =>
            simp only [List.head?_cons, Option.some.injEq] at hx hy
            subst hx hy
            rw [← h1.1, ← h2.1])
    rcases this with h | h
    · exact Or.inl ((List.prefix_cons_inj a).mpr h)
    · exact Or.inr ((List.prefix_cons_inj a).mpr h)

/-- **Two hash-linked chains that end in blocks with the same hash and begin with the same block
    are equal**, if no two different blocks among them share a hash. -/
theorem linked_same_tip_eq {l1 l2 : List Block} (h1 : LinkedChain l1) (h2 : LinkedChain l2)
    (hc : NoCollision l1 l2) (n1 : (l1.map (·.hash)).Nodup) (n2 : (l2.map (·.hash)).Nodup)
    (htip : ∀ a b, l1.getLast? = some a → l2.getLast? = some b → a.hash = b.hash)
    (hhead : l1.head? = l2.head?) (hne : l1 ≠ []) : l1 = l2 := by
  have key : ∀ (x y : List Block), (y.map (·.hash)).Nodup → x.head? = y.head? → x ≠ [] →
      x <:+ y → x = y := by
    intro x y ny hxy hx ⟨d, hd⟩
    cases d with
    | nil => simpa using hd
    | cons z d' =>
      exfalso
      cases x with
      | nil => exact hx rfl
      | cons x0 x' =>
        subst hd
        simp only [List.cons_append, List.head?_cons, Option.some.injEq] at hxy
        subst hxy
        rw [List.cons_append, List.map_cons, List.nodup_cons] at ny
        exact ny.1 (List.mem_map_of_mem (List.mem_append_right _ List.mem_cons_self))
  have hne2 : l2 ≠ [] := by
    intro e
    rw [e] at hhead
    cases l1 with
    | nil => exact hne rfl
    | cons a l => cases hhead
  have hp := rlinked_prefix l1.reverse l2.reverse (rlinked_reverse l1 h1) (rlinked_reverse l2 h2)
    (fun a ha b hb => hc a (List.mem_reverse.mp ha) b (List.mem_reverse.mp hb))
    (fun a b ha hb => htip a b (by rwa [List.head?_reverse] at ha) (by rwa [List.head?_reverse] at hb))
  rcases hp with hp | hp
  · exact key l1 l2 n2 hhead hne (List.reverse_prefix.mp hp)
  · exact (key l2 l1 n1 hhead.symm hne2 (List.reverse_prefix.mp hp)).symm

/-! ### The block loop over a concatenation -/

theorem trustedBlocks_after (env : Env) (G : List Block) : ∀ (pre : List String) (s sMid : State)
    (rest : List String), TrustedBlocks env G s (pre ++ rest) →
    processBlocks env s pre = some (sMid, false) → TrustedBlocks env G sMid rest
  | [], s, sMid, rest, ht, hp => by
    simp only [processBlocks, Option.some.injEq, Prod.mk.injEq, and_true] at hp
    subst hp
    exact ht
  | blob :: pre, s, sMid, rest, ht, hp => by
    rw [Props.C10.processBlocks_cons] at hp
    cases hd : env.dec.block blob with
    | none => rw [hd] at hp; simp at hp
    | some b =>
      rw [hd] at hp
      simp only at hp
      cases hi : insertBlock env s b with
      | trap => rw [hi] at hp; cases hp
      | rejected why => rw [hi] at hp; simp at hp
      | ok s' =>
        rw [hi] at hp
        exact trustedBlocks_after env G pre s' sMid rest ((ht b hd).2 s' hi) hp

theorem acceptedBlocks_append (env : Env) : ∀ (pre : List String) (s sMid : State)
    (rest : List String), processBlocks env s pre = some (sMid, false) →
    acceptedBlocks env s (pre ++ rest) = acceptedBlocks env s pre ++ acceptedBlocks env sMid rest
  | [], s, sMid, rest, hp => by
    simp only [processBlocks, Option.some.injEq, Prod.mk.injEq, and_true] at hp
    subst hp
    rfl
  | blob :: pre, s, sMid, rest, hp => by
    rw [Props.C10.processBlocks_cons] at hp
    simp only [List.cons_append, acceptedBlocks]
    cases hd : env.dec.block blob with
    | none => rw [hd] at hp; simp at hp
    | some b =>
      rw [hd] at hp
      simp only at hp ⊢
      cases hi : insertBlock env s b with
      | trap => rw [hi] at hp; cases hp
      | rejected why => rw [hi] at hp; simp at hp
      | ok s' =>
        rw [hi] at hp
        simp only at hp ⊢
        rw [acceptedBlocks_append env pre s' sMid rest hp]
        rfl

/-- the states of the block loop all satisfy the invariant, and the blocks accepted so far are
    exactly the hashes added to the tree -/
theorem processBlocks_mid (env : Env) (G : List Block) (pre : List String) (s sMid : State)
    (hA : InvAll s G) (ht : TrustedBlocks env G s pre)
    (hp : processBlocks env s pre = some (sMid, false)) :
    InvAll sMid G ∧
    (sMid.unstable.tree.blocks.map CBlock.hash).Perm
      ((acceptedBlocks env s pre).map (·.hash) ++ s.unstable.tree.blocks.map CBlock.hash) ∧
    pre.map env.dec.block = (acceptedBlocks env s pre).map some := by
  have hni := hA.notIngesting
  have hrun := processBlocks_sim (fun _ _ => 0) env G pre s sMid false hni ht hp
  have h2 := frameRun_inv2 hrun (Or.inl hA)
  have hu := processBlocks_utxos env pre s sMid false hp
  have hA' : InvAll sMid G := by
    rcases h2 with hA1 | ⟨s0, A, B, _, hP⟩
    · exact hA1
    · obtain ⟨ing, hi', _⟩ := hP.ingesting
      rw [show sMid.utxos = s.utxos from hu, hni] at hi'
      cases hi'
  obtain ⟨s2, hacc, hcase⟩ := Props.FullSys.processBlocks_accepted env pre s sMid false hp
  rcases hcase with ⟨_, rfl, hd⟩ | ⟨hcontra, _⟩
  · exact ⟨hA', Props.C13.acceptAll_hashes env s sMid _ hacc, hd⟩
  · cases hcontra

/-! ### The first block of the served chain never changes -/

/-- the first block of the served chain: the first ingested block, or the anchor if no block has
    been ingested yet (the genesis block the canister was initialised with) -/
def firstBlock (s : State) (G : List Block) : Option Block := (G ++ [s.unstable.tree.root.blk]).head?

theorem firstBlock_cons (s : State) (g : Block) (G : List Block) : firstBlock s (g :: G) = some g := rfl

theorem firstBlock_congr {s s' : State} (G : List Block)
    (h : s'.unstable.tree.root.blk = s.unstable.tree.root.blk) : firstBlock s' G = firstBlock s G := by
  unfold firstBlock; rw [h]

theorem firstBlock_eq_head (s : State) (G : List Block) :
    firstBlock s G = (G ++ bestChain s).head? := by
  have hh := Props.C02.bestPath_head CBlock.diff s.unstable.tree
  unfold firstBlock bestChain
  cases G with
  | cons g gs => rfl
  | nil =>
    simp only [List.nil_append, List.head?_cons, List.head?_map, hh, Option.map_some]

theorem step2_first (bound : Unstable.BoundFn) {s s' : State} {G G' : List Block} {op : Op}
    (h2 : Inv2 s G) (hs : step2 bound (s, G) op = some (s', G')) :
    firstBlock s' G' = firstBlock s G := by
  cases op with
  | ingest b =>
    obtain ⟨hG, hp⟩ := inv2_ingest_popSteps bound h2 b s' G' hs
    subst hG
    cases G with
    | cons g gs => rfl
    | nil =>
      cases hpop : poppedAnchors s s' with
      | nil =>
        rw [hpop] at hp
        exact firstBlock_congr _ (by rw [popSteps_nil_eq hp])
      | cons x xs =>
        rw [hpop] at hp
        have := popSteps_head hp
        subst this
        rfl
  | push b =>
    simp only [step2, step] at hs
    split at hs
    · rename_i u hu
      simp only [Option.some.injEq, Prod.mk.injEq] at hs
      obtain ⟨rfl, rfl⟩ := hs
      exact firstBlock_congr G (by
        show u.tree.root.blk = _
        rw [(Props.C03.push_keeps_blocks s.unstable u s.utxos b hu).2])
    · cases hs
  | setConfig c =>
    simp only [step2, step, Option.some.injEq, Prod.mk.injEq] at hs
    obtain ⟨rfl, rfl⟩ := hs
    exact firstBlock_congr G (by rw [(Props.C09.setConfig_frame s c).2.1])
  | upgrade c =>
    simp only [step2, step, Option.some.injEq, Prod.mk.injEq] at hs
    obtain ⟨rfl, rfl⟩ := hs
    exact firstBlock_congr G (by rw [root_upgrade]; rfl)
  | query =>
    simp only [step2, step, Option.some.injEq, Prod.mk.injEq] at hs
    obtain ⟨rfl, rfl⟩ := hs
    rfl
  | insertNext h =>
    have hs' : step bound (s, G) (.insertNext h) = some (s', G') := hs
    obtain ⟨rfl, _, _, ht⟩ := Props.C03History.other_step (Or.inr ⟨h, rfl⟩) hs'
    exact firstBlock_congr _ (by rw [ht])

theorem frameRun_first {bound : Unstable.BoundFn} {sg sg' : State × List Block} {ops : List Op}
    (hr : FrameRun bound sg ops sg') :
    Inv2 sg.1 sg.2 → firstBlock sg'.1 sg'.2 = firstBlock sg.1 sg.2 := by
  induction hr with
  | nil sg => intro _; rfl
  | frame sg s1 ops sg2 hf _ ih =>
    intro h2
    rw [ih (inv2_frame hf h2)]
    exact firstBlock_congr _ (by rw [hf.unstable])
  | op sg o sg1 ops sg2 hd hs _ ih =>
    intro h2
    rw [ih (step2_preserves_inv2 bound sg.1 sg.2 o sg1.1 sg1.2 h2 hd hs)]
    exact step2_first bound h2 hs

/-- **no message changes the first block of the served chain** -/
theorem stepMsg_first (env : Env) (c : Cfg) (m : Msg) (ht : Trusted env c m) (h2 : Inv2 c.1.st c.2) :
    firstBlock (stepMsg env c m).1.st (stepMsg env c m).2 = firstBlock c.1.st c.2 :=
  frameRun_first (stepMsg_sim env c m ht) h2

/-! ### The served chain of a configuration -/

/-- the served chain `G ++ best chain` of a configuration satisfying the invariant (paused or
    not) is hash-linked, its hashes are pairwise distinct, and the best chain is not empty -/
theorem inv2_chain {s : State} {G : List Block} (h2 : Inv2 s G) :
    Btc.LinkedChain (G ++ bestChain s) ∧ ((G ++ bestChain s).map (·.hash)).Nodup ∧
    bestChain s ≠ [] ∧ pathBlocks s.unstable.tree (tipOf (bestChain s)) = some (bestChain s) := by
  obtain ⟨s0, hA, hu⟩ := inv2_base h2
  have hb : bestChain s = bestChain s0 := by unfold bestChain; rw [hu]
  have hpath := Props.C15Spec.bestChain_isRootPath hA.invU.inv
  refine ⟨?_, ?_, ?_, ?_⟩
  · have := Props.C07.bestBlocks_linked hA.invU.inv
    unfold Props.C07.bestBlocks at this
    rw [← Props.C15Spec.bestChain_eq_mainChain, ← hb] at this
    exact this
  · have hnd := inv2_hashesNodup h2
    have hsub : (G ++ bestChain s).Sublist (G ++ s.unstable.tree.blocks.map (·.blk)) := by
      apply List.Sublist.append (List.Sublist.refl _)
      rw [hb, hu]
      exact pathBlocks_sublist hpath
    exact (hsub.map _).nodup hnd
  · intro e
    have hh := Props.C02.bestPath_head CBlock.diff s.unstable.tree
    unfold bestChain at e
    rw [List.map_eq_nil_iff] at e
    rw [e] at hh
    cases hh
  · rw [hb, hu]; exact hpath

/-! ### The fetch protocol, message by message (endpoint calls included) -/

/-- C13's invariant is preserved by every message (no environment assumption is needed) -/
theorem fetchInv_stepM (env : Env) {sys : Fetch.Sys} (m : Msg) (ih : C13.Inv sys) :
    C13.Inv (stepSys env sys m) := by
  cases m with
  | heartbeat b => exact C13.inv_step env (.heartbeat b) ih
  | reply r => exact C13.inv_step env (.reply r) ih
  | upgrade c => exact C13.inv_step env (.upgrade c) ih
  | setConfig c => exact C13.inv_step env (.setConfig c) ih
  | call c =>
    obtain ⟨h1, h2⟩ := stepSys_call_fetch env sys c
    obtain ⟨i1, i2, i3⟩ := ih
    refine ⟨?_, ?_, ?_⟩
    · rw [h1, h2]; exact i1
    · rw [h2]; exact i2
    · rw [h1, h2]; exact i3

theorem fetchInv_runM : ∀ (msgs : List (Env × Msg)) (c : Cfg), C13.Inv c.1 → C13.Inv (run c msgs).1
  | [], _, h => h
  | (env, m) :: rest, c, h => fetchInv_runM rest (stepMsg env c m) (fetchInv_stepM env m h)

theorem issuedM_call (env : Env) (sys : Fetch.Sys) (c : Call) : issuedM env sys (.call c) = none := rfl

/-- the type discipline of the block source along a schedule of messages: every reply delivered
    to a suspended heartbeat is of the kind its request asks for (`Fetch.answers`) -/
def WellTypedM (c : Cfg) : List (Env × Msg) → Prop
  | [] => True
  | (env, m) :: rest =>
    (match m, c.1.pending with
      | .reply r, some req => Fetch.answers req r
      | _, _ => True) ∧ WellTypedM (stepMsg env c m) rest

/-- executable version -/
def wellTypedMB (c : Cfg) : List (Env × Msg) → Bool
  | [] => true
  | (env, m) :: rest =>
    (match m, c.1.pending with
      | .reply r, some req => decide (Fetch.answers req r)
      | _, _ => true) && wellTypedMB (stepMsg env c m) rest

theorem wellTypedM_iff (c : Cfg) (msgs : List (Env × Msg)) :
    WellTypedM c msgs ↔ wellTypedMB c msgs = true := by
  induction msgs generalizing c with
  | nil => simp [WellTypedM, wellTypedMB]
  | cons em rest ih =>
    obtain ⟨env, m⟩ := em
    simp only [WellTypedM, wellTypedMB, Bool.and_eq_true, ih]
    apply and_congr_left'
    split <;> simp

/-- **one message keeps C13's bookkeeping invariant** `C13.Ghost` (the last request sent versus
    the stored response), for well-typed replies -/
theorem ghost_stepM (env : Env) {sys : Fetch.Sys} {last : Option Request} (inv : C13.Inv sys)
    (g : C13.Ghost sys last) (m : Msg)
    (hw : match m, sys.pending with
      | .reply r, some req => Fetch.answers req r
      | _, _ => True) :
    (∀ req, issuedM env sys m = some req → C13.follows last req) ∧
    C13.Ghost (stepSys env sys m) (match issuedM env sys m with | some r => some r | none => last) := by
  cases m with
  | heartbeat b => exact C13.ghost_step env inv g (.heartbeat b) trivial
  | reply r =>
    refine C13.ghost_step env inv g (.reply r) ?_
    cases hp : sys.pending with
    | none => show True; trivial
    | some req => rw [hp] at hw; exact hw
  | upgrade c => exact C13.ghost_step env inv g (.upgrade c) trivial
  | setConfig c => exact C13.ghost_step env inv g (.setConfig c) trivial
  | call c =>
    obtain ⟨h1, h2⟩ := stepSys_call_fetch env sys c
    obtain ⟨g1, g2, g3⟩ := g
    refine ⟨fun _ h => (by rw [issuedM_call] at h; cases h), ⟨?_, ?_, ?_⟩⟩
    · rw [h1]; exact g1
    · rw [h1, h2]; exact g2
    · rw [h2]; exact g3

/-! ### Without the type discipline: requests may be repeated -/

/-- weak succession: `r` is the next request in the numbering (`C13.follows`) or repeats the
    previous request — the re-request after a reply continuation that trapped -/
def followsW (prev : Option Request) (r : Request) : Prop := C13.follows prev r ∨ prev = some r

def ConsecutiveW : Option Request → List Request → Prop
  | _, [] => True
  | prev, r :: rs => followsW prev r ∧ ConsecutiveW (some r) rs

structure GhostW (sys : Fetch.Sys) (last : Option Request) : Prop where
  pend : ∀ req, sys.pending = some req → last = some req
  stored : sys.pending = none → ∀ p k, sys.st.syncing.response = some (.partial_ p k) →
    followsW last (.followUp k)

theorem ghostW_idle {sys : Fetch.Sys} {last : Option Request} (hp : sys.pending = none)
    (hr : ∀ p k, sys.st.syncing.response ≠ some (.partial_ p k)) : GhostW sys last :=
  ⟨fun _ h => (by rw [hp] at h; cases h), fun _ p k h => absurd h (hr p k)⟩

/-- a stored partial response after an accepted reply: it is the partial response just delivered
    (page count 0), or one more page of the one stored before -/
theorem heartbeatReply_partial {s s' : State} {r : Reply} {p' : PartialResp} {k' : Nat}
    (h : heartbeatReply s r = some s') (hr : s'.syncing.response = some (.partial_ p' k')) :
    (s.syncing.response = none ∧ k' = 0 ∧ ∃ p, r = .partial_ p) ∨
    (∃ p k, s.syncing.response = some (.partial_ p k) ∧ k' = k + 1) := by
  unfold heartbeatReply at h
  cases r with
  | reject =>
    simp only [Option.some.injEq] at h
    subst h
    cases hr
  | complete c =>
    simp only at h
    split at h
    · cases h
    · simp only [Option.some.injEq] at h
      subst h
      cases hr
  | partial_ p =>
    simp only at h
    split at h
    · cases h
    · rename_i hn
      simp only [Option.some.injEq] at h
      subst h
      simp only at hr
      split at hr
      · cases hr
      · simp only [Option.some.injEq, ResponseToProcess.partial_.injEq] at hr
        refine Or.inl ⟨?_, hr.2.symm, p, rfl⟩
        cases hs : s.syncing.response with
        | none => rfl
        | some x => rw [hs] at hn; simp at hn
  | followUp bytes =>
    simp only at h
    split at h
    · rename_i p pages hs
      split at h
      · cases h
      · simp only [Option.some.injEq] at h
        subst h
        simp only at hr
        split at hr
        · cases hr
        · simp only [Option.some.injEq, ResponseToProcess.partial_.injEq] at hr
          exact Or.inr ⟨p, pages, hs, hr.2.symm⟩
    · cases h

theorem ghostW_step (env : Env) {sys : Fetch.Sys} {last : Option Request} (inv : C13.Inv sys)
    (g : GhostW sys last) (a : Fetch.Action) :
    (∀ req, Fetch.issued env sys a = some req → followsW last req) ∧
    GhostW (Fetch.step env sys a)
      (match Fetch.issued env sys a with | some r => some r | none => last) := by
  obtain ⟨g1, g2⟩ := g
  cases a with
  | query => exact ⟨fun _ h => by simp [Fetch.issued] at h, ⟨g1, g2⟩⟩
  | setConfig c =>
    have := setConfig_isFetching sys.st c
    refine ⟨fun _ h => by simp [Fetch.issued] at h, ⟨g1, ?_⟩⟩
    simp only [Fetch.step, this]
    exact g2
  | upgrade c =>
    have := upgrade_fetch sys.st c
    refine ⟨fun _ h => by simp [Fetch.issued] at h, ghostW_idle rfl ?_⟩
    simp only [Fetch.step, this]
    intro p k h; cases h
  | heartbeat budget =>
    cases hi : Fetch.issued env sys (.heartbeat budget) with
    | some req =>
      obtain ⟨_, _, _, hd, hstep⟩ := C13.issued_some hi
      have hidle := (C13.request_only_when_idle inv hi).1
      obtain ⟨_, _, hreq⟩ := C13.fetchDecision_some_some hd
      refine ⟨?_, ⟨?_, ?_⟩⟩
      · intro req' h'
        cases h'
        rcases C13.successorsRequest_some hreq with ⟨_, a, l, rfl, _⟩ | ⟨p, k, hp, rfl⟩
        · exact Or.inl trivial
        · exact g2 hidle p k hp
      · intro r h; rw [hstep] at h; cases h; rfl
      · intro h; rw [hstep] at h; cases h
    | none =>
      have hpend : (Fetch.step env sys (.heartbeat budget)).pending = sys.pending := by
        simp only [Fetch.issued] at hi
        simp only [Fetch.step]
        split <;> first | rfl | simp_all
      refine ⟨fun _ h => (by cases h), ⟨?_, ?_⟩⟩
      · rw [hpend]; exact g1
      · rw [hpend]
        intro hn p k h
        rcases C13.heartbeat_response env sys budget with he | he
        · rw [he] at h; exact g2 hn p k h
        · rw [he] at h; cases h
  | reply r =>
    refine ⟨fun _ h => by simp [Fetch.issued] at h, ?_⟩
    simp only [Fetch.issued]
    cases hp : sys.pending with
    | none =>
      have : Fetch.step env sys (.reply r) = sys := by simp [Fetch.step, hp]
      rw [this]; exact ⟨g1, g2⟩
    | some req =>
      have hlast := g1 req hp
      subst hlast
      have hag := inv.agree
      rw [hp] at hag
      simp only [Fetch.step, hp]
      cases hr : heartbeatReply sys.st r with
      | none =>
        -- the continuation trapped: only the guard is released
        refine ⟨fun _ h => (by cases h), fun _ p k h => ?_⟩
        have h' : sys.st.syncing.response = some (.partial_ p k) := h
        cases req with
        | initial a l => simp only [C13.Matches] at hag; rw [hag] at h'; cases h'
        | followUp j =>
          obtain ⟨p0, hp0⟩ := hag
          rw [hp0] at h'
          cases h'
          exact Or.inr rfl
      | some s' =>
        refine ⟨fun _ h => (by cases h), fun _ p k h => ?_⟩
        rcases heartbeatReply_partial hr h with ⟨hn, rfl, _⟩ | ⟨p0, k0, hs, rfl⟩
        · cases req with
          | initial a l => exact Or.inl ⟨a, l, rfl⟩
          | followUp j => obtain ⟨p0, hp0⟩ := hag; rw [hp0] at hn; cases hn
        · cases req with
          | initial a l => simp only [C13.Matches] at hag; rw [hag] at hs; cases hs
          | followUp j =>
            obtain ⟨p1, hp1⟩ := hag
            rw [hp1] at hs
            cases hs
            exact Or.inl rfl

theorem ghostW_stepM (env : Env) {sys : Fetch.Sys} {last : Option Request} (inv : C13.Inv sys)
    (g : GhostW sys last) (m : Msg) :
    (∀ req, issuedM env sys m = some req → followsW last req) ∧
    GhostW (stepSys env sys m) (match issuedM env sys m with | some r => some r | none => last) := by
  cases m with
  | heartbeat b => exact ghostW_step env inv g (.heartbeat b)
  | reply r => exact ghostW_step env inv g (.reply r)
  | upgrade c => exact ghostW_step env inv g (.upgrade c)
  | setConfig c => exact ghostW_step env inv g (.setConfig c)
  | call c =>
    obtain ⟨h1, h2⟩ := stepSys_call_fetch env sys c
    obtain ⟨g1, g2⟩ := g
    refine ⟨fun _ h => (by rw [issuedM_call] at h; cases h), ⟨?_, ?_⟩⟩
    · rw [h1]; exact g1
    · rw [h1, h2]; exact g2

/-! ### Anatomy of a processing heartbeat -/

theorem processResponse_utxos {env : Env} {s s2 : State} (h : processResponse env s = some s2) :
    s2.utxos = s.utxos := by
  unfold processResponse at h
  split at h
  · rename_i r hr
    simp only at h
    cases hb : processBlocks env { s with syncing := { s.syncing with response := none } } r.blocks with
    | none => rw [hb] at h; cases h
    | some x =>
      obtain ⟨s1, stopped⟩ := x
      rw [hb] at h
      have hu := processBlocks_utxos env r.blocks _ s1 stopped hb
      cases stopped with
      | true =>
        simp only [Option.some.injEq] at h
        subst h
        exact hu
      | false =>
        simp only at h
        rw [(insertNextHeaders_tree env s1 r.next s2 h).2, hu]
  · cases h; rfl

/-- `maybe_process_response` leaves the fee-percentile cache and the `lazy` flag alone -/
theorem insertBlock_feeCache {env : Env} {s s' : State} {b : Block} (h : insertBlock env s b = .ok s') :
    s'.feeCache = s.feeCache ∧ s'.lazyFees = s.lazyFees := by
  obtain ⟨u, _, rfl⟩ := insertBlock_ok_eq h
  exact ⟨rfl, rfl⟩

theorem processBlocks_feeCache (env : Env) : ∀ (blobs : List String) (s s1 : State) (stopped : Bool),
    processBlocks env s blobs = some (s1, stopped) →
    s1.feeCache = s.feeCache ∧ s1.lazyFees = s.lazyFees
  | [], s, s1, stopped, h => by
    simp only [processBlocks, Option.some.injEq, Prod.mk.injEq] at h
    rw [← h.1]; exact ⟨rfl, rfl⟩
  | blob :: rest, s, s1, stopped, h => by
    rw [C10.processBlocks_cons] at h
    cases hd : env.dec.block blob with
    | none =>
      rw [hd] at h
      simp only [Option.some.injEq, Prod.mk.injEq] at h
      rw [← h.1]; exact ⟨rfl, rfl⟩
    | some b =>
      rw [hd] at h
      simp only at h
      cases hi : insertBlock env s b with
      | trap => rw [hi] at h; cases h
      | rejected why =>
        rw [hi] at h
        simp only [Option.some.injEq, Prod.mk.injEq] at h
        rw [← h.1]; exact ⟨rfl, rfl⟩
      | ok s' =>
        rw [hi] at h
        simp only at h
        obtain ⟨h1, h2⟩ := processBlocks_feeCache env rest s' s1 stopped h
        obtain ⟨h3, h4⟩ := insertBlock_feeCache hi
        exact ⟨h1.trans h3, h2.trans h4⟩

theorem insertNextHeadersAll_feeCache (env : Env) : ∀ (raws : List String) (s s1 : State),
    insertNextHeadersAll env s raws = some s1 →
    s1.feeCache = s.feeCache ∧ s1.lazyFees = s.lazyFees
  | [], s, s1, h => by
    simp only [insertNextHeadersAll, Option.some.injEq] at h
    subst h; exact ⟨rfl, rfl⟩
  | raw :: rest, s, s1, h => by
    unfold insertNextHeadersAll at h
    split at h
    · cases h; exact ⟨rfl, rfl⟩
    · split at h
      · exact insertNextHeadersAll_feeCache env rest s s1 h
      · split at h
        · cases h; exact ⟨rfl, rfl⟩
        · split at h
          · cases h
          · cases h; exact ⟨rfl, rfl⟩
          · split at h
            · cases h; exact ⟨rfl, rfl⟩
            · have := insertNextHeadersAll_feeCache env rest _ s1 h
              exact this

theorem processResponse_feeCache {env : Env} {s s2 : State} (h : processResponse env s = some s2) :
    s2.feeCache = s.feeCache ∧ s2.lazyFees = s.lazyFees := by
  unfold processResponse at h
  split at h
  · rename_i r hr
    simp only at h
    cases hb : processBlocks env { s with syncing := { s.syncing with response := none } } r.blocks with
    | none => rw [hb] at h; cases h
    | some x =>
      obtain ⟨s1, stopped⟩ := x
      rw [hb] at h
      have hu := processBlocks_feeCache env r.blocks _ s1 stopped hb
      cases stopped with
      | true =>
        simp only [Option.some.injEq] at h
        subst h
        exact hu
      | false =>
        simp only at h
        obtain ⟨h1, h2⟩ := insertNextHeadersAll_feeCache env _ s1 s2 h
        exact ⟨h1.trans hu.1, h2.trans hu.2⟩
  · cases h; exact ⟨rfl, rfl⟩

/-- **Anatomy of a processing heartbeat** in a reachable configuration: ingestion had nothing to
    do, the invariant holds before and after `maybe_process_response`, and then the fee
    percentiles are computed — unless `lazily_evaluate_fee_percentiles` is set. -/
theorem processed_anatomy {sys : Fetch.Sys} {G : List Block} (hr : FullReachable sys G) (env : Env)
    (b : Nat) (ht : Trusted env (sys, G) (.heartbeat b)) (s' : State)
    (h : heartbeatStart env sys.st b = .processed s') :
    sys.st.ingestStable env.bound b = .done sys.st false ∧ InvAll sys.st G ∧
    ∃ s2, processResponse env sys.st = some s2 ∧ InvAll s2 G ∧ FeeCacheOk s2 G ∧
      s2.feeCache = sys.st.feeCache ∧ s2.lazyFees = sys.st.lazyFees ∧
      ((s2.lazyFees = true ∧ s' = s2) ∨
       (s2.lazyFees = false ∧ ∃ p, s2.feePercentiles env.numTransactions = some (s', p))) := by
  rcases heartbeatStart_cases env sys.st b with h' | ⟨_, _, h', _⟩ | ⟨_, _, _, _, h'⟩ |
      ⟨hi, hni, _, s'', hfin, h'⟩
  · rw [h'] at h; cases h
  · rw [h'] at h; cases h
  · rw [h'] at h; cases h
  · rw [h'] at h
    cases h
    have hA : InvAll sys.st G := (FullSys.fullReachable_inv hr).1 (by simp [Paused, hni])
    refine ⟨hi, hA, ?_⟩
    unfold finish at hfin
    cases hp : processResponse env sys.st with
    | none => rw [hp] at hfin; cases hfin
    | some s2 =>
      rw [hp] at hfin
      simp only at hfin
      obtain ⟨h2, hf⟩ := fullReachable_fee hr
      have hrun := processResponse_run env.bound env sys.st s2 G hni (ht (pastIngestion_iff.mpr hi)) hp
      obtain ⟨k2, kf⟩ := frameRun_fee hrun h2 hf
      have hA2 : InvAll s2 G := by
        rcases k2 with hA2 | ⟨s0, A, B, _, hP⟩
        · exact hA2
        · obtain ⟨ing, hi', _⟩ := hP.ingesting
          rw [processResponse_utxos hp, hni] at hi'
          cases hi'
      obtain ⟨hc1, hc2⟩ := processResponse_feeCache hp
      refine ⟨s2, rfl, hA2, kf, hc1, hc2, ?_⟩
      cases hl : s2.lazyFees with
      | true =>
        rw [hl] at hfin
        simp only [if_true] at hfin
        cases hfin
        exact Or.inl ⟨rfl, rfl⟩
      | false =>
        rw [hl] at hfin
        simp only [Bool.false_eq_true, if_false] at hfin
        cases hq : s2.feePercentiles env.numTransactions with
        | none => rw [hq] at hfin; cases hfin
        | some x =>
          obtain ⟨s3, p⟩ := x
          rw [hq] at hfin
          cases hfin
          exact Or.inr ⟨rfl, p, rfl⟩

/-- prefix of a trusted list of blobs -/
theorem trustedBlocks_prefix (env : Env) (G : List Block) : ∀ (pre : List String) (s : State)
    (rest : List String), TrustedBlocks env G s (pre ++ rest) → TrustedBlocks env G s pre
  | [], _, _, _ => trivial
  | blob :: pre, s, rest, ht => by
    intro b hd
    obtain ⟨h1, h2⟩ := ht b hd
    exact ⟨h1, fun s' hs' => trustedBlocks_prefix env G pre s' rest (h2 s' hs')⟩

/-- the blocks accepted one on top of the other are the blocks added to the tree -/
theorem acceptAll_blks (env : Env) : ∀ (blocks : List Block) (s sEnd : State),
    C10.acceptAll env s blocks = some sEnd →
    (sEnd.unstable.tree.blocks.map (·.blk)).Perm (blocks ++ s.unstable.tree.blocks.map (·.blk))
  | [], s, sEnd, h => by
    simp only [C10.acceptAll, Option.some.injEq] at h
    subst h; simp
  | b :: bs, s, sEnd, h => by
    simp only [C10.acceptAll] at h
    split at h
    · rename_i s' hs'
      obtain ⟨_, _, c, hcb, _, _, hperm, _⟩ := C10.accepted_is_visible env s s' b hs'
      have h2 := acceptAll_blks env bs s' sEnd h
      refine h2.trans ?_
      have h1 : (s'.unstable.tree.blocks.map (·.blk)).Perm (b :: s.unstable.tree.blocks.map (·.blk)) := by
        have := hperm.map (·.blk)
        simpa [hcb] using this
      simp only [List.cons_append]
      exact (List.Perm.append_left _ h1).trans List.perm_middle
    · cases h

/-! ### Only `push` adds a block to the tree -/

theorem step2_hashes_shrink (bound : Unstable.BoundFn) {s : State} {G : List Block} (h2 : Inv2 s G)
    (op : Op) (s' : State) (G' : List Block) (hop : ∀ b, op ≠ .push b)
    (hs : step2 bound (s, G) op = some (s', G')) : (treeHashes s').Sublist (treeHashes s) := by
  cases op with
  | push b => exact absurd rfl (hop b)
  | ingest b =>
    obtain ⟨_, hp⟩ := inv2_ingest_popSteps bound h2 b s' G' hs
    exact (popSteps_sublist bound hp).map _
  | setConfig c =>
    simp only [step2, step, Option.some.injEq, Prod.mk.injEq] at hs
    obtain ⟨rfl, rfl⟩ := hs
    rw [treeHashes, treeHashes, (C09.setConfig_frame s c).2.1]
    exact List.Sublist.refl _
  | upgrade c =>
    simp only [step2, step, Option.some.injEq, Prod.mk.injEq] at hs
    obtain ⟨rfl, rfl⟩ := hs
    rw [treeHashes, treeHashes, C09.upgrade_hashes]
    exact List.Sublist.refl _
  | query =>
    simp only [step2, step, Option.some.injEq, Prod.mk.injEq] at hs
    obtain ⟨rfl, rfl⟩ := hs
    exact List.Sublist.refl _
  | insertNext h =>
    have hs' : step bound (s, G) (.insertNext h) = some (s', G') := hs
    rw [treeHashes, treeHashes, (C03History.other_step (Or.inr ⟨h, rfl⟩) hs').2.2.2]
    exact List.Sublist.refl _

theorem frameRun_hashes_shrink {bound : Unstable.BoundFn} {sg sg' : State × List Block}
    {ops : List Op} (hr : FrameRun bound sg ops sg') :
    Inv2 sg.1 sg.2 → (∀ b, Op.push b ∉ ops) → (treeHashes sg'.1).Sublist (treeHashes sg.1) := by
  induction hr with
  | nil sg => intro _ _; exact List.Sublist.refl _
  | frame sg s1 ops sg2 hfr _ ih =>
    intro h2 hno
    have := ih (inv2_frame hfr h2) hno
    simp only [treeHashes] at this ⊢
    rw [← hfr.unstable]
    exact this
  | op sg o sg1 ops sg2 hd hs _ ih =>
    intro h2 hno
    have h21 : Inv2 sg1.1 sg1.2 := step2_preserves_inv2 bound sg.1 sg.2 o sg1.1 sg1.2 h2 hd hs
    have h1 := step2_hashes_shrink bound h2 o sg1.1 sg1.2
      (fun b e => hno b (by rw [e]; exact List.mem_cons_self)) hs
    exact (ih h21 (fun b hb => hno b (List.mem_cons_of_mem _ hb))).trans h1

/-- **a message that pushes no block adds no block to the tree** -/
theorem stepMsg_hashes_shrink (env : Env) (c : Cfg) (m : Msg) (ht : Trusted env c m)
    (h2 : Inv2 c.1.st c.2) (hno : ∀ b, Op.push b ∉ msgOps env c.1.st m) :
    (treeHashes (stepMsg env c m).1.st).Sublist (treeHashes c.1.st) :=
  frameRun_hashes_shrink (stepMsg_sim env c m ht) h2 hno

/-! ### The fee percentiles in every configuration, paused or not -/

/-- the refinement statement of `C15Spec.feePercentiles_refines`, from what `get_fees_per_byte`
    returns -/
theorem feePercentiles_of_currentFees (s : State) (G : List Block) (n : Nat)
    (hfees : C15.currentFees s n = some (recentFeeRates n G (bestChain s))) :
    s.feePercentiles n =
      some ({ s with feeCache := (feeAnswerSpec n G (bestChain s) s.feeCache).2 },
            (feeAnswerSpec n G (bestChain s) s.feeCache).1) := by
  have htip := C15Spec.tipHash_eq_tipOf s
  cases hc : s.feeCache with
  | none =>
    rw [C15.feePercentiles_no_cache s n _ hc hfees, htip]
    rfl
  | some v =>
    obtain ⟨h, p⟩ := v
    have hs : { s with feeCache := some (h, p) } = s := C15Spec.with_feeCache_self s _ hc
    by_cases hk : h = tipOf (bestChain s)
    · rw [C15.feePercentiles_cache_hit s n p (by rw [hc, htip, hk])]
      simp only [feeAnswerSpec, hk, if_true]
      rw [← hk, hs]
    · by_cases he : recentFeeRates n G (bestChain s) = []
      · rw [C15.feePercentiles_empty_keeps_cache s n h p hc (by rw [htip]; exact hk)
          (by rw [hfees, he])]
        simp only [feeAnswerSpec, hk, he, if_true, if_false]
        rw [hs]
      · rw [C15.feePercentiles_recompute s n h p _ hc (by rw [htip]; exact hk) hfees he, htip]
        simp only [feeAnswerSpec, hk, he, if_false]
        rfl

/-- **Refinement in every configuration of the message-level system**, a block partially
    ingested or not: the call never traps, returns `Spec.feeAnswerSpec n G best cache` for the
    ghost `G` (the completely ingested blocks) and the best chain of the tree (the block being
    ingested is still its anchor), and changes nothing but the cache. -/
theorem feePercentiles_refines2 {s : State} {G : List Block} (h2 : Inv2 s G) (hf : FeeCacheOk s G)
    (n : Nat) :
    s.feePercentiles n =
      some ({ s with feeCache := (feeAnswerSpec n G (bestChain s) s.feeCache).2 },
            (feeAnswerSpec n G (bestChain s) s.feeCache).1) := by
  apply feePercentiles_of_currentFees
  rcases h2 with hA | ⟨s0, A, B, hA, hP⟩
  · exact C15Spec.currentFees_spec hA.invU.inv hf n
  · have hun := hP.unstable
    have hf0 : FeeCacheOk s0 G := Lemmas.FeeSpec.feeCacheOk_congr (by rw [hun]) hf
    have hb : bestChain s = bestChain s0 := by unfold bestChain; rw [hun]
    rw [hb, ← C15Spec.currentFees_spec hA.invU.inv hf0 n]
    unfold C15.currentFees
    rw [C08.feesPerByte_congr s s0 hun, hun]

/-! ### Heartbeats and endpoint calls while the stored response is not complete -/

/-- messages that are not replies, upgrades or configuration changes: heartbeats (with any
    budget) and endpoint calls (of any kind, answered or trapping) -/
def IsNoiseM : Msg → Prop
  | .heartbeat _ => True
  | .call _ => True
  | _ => False

def NoiseM (msgs : List (Env × Msg)) : Prop := ∀ em ∈ msgs, IsNoiseM em.2

theorem noise_stepM (env : Env) {sys : Fetch.Sys} (inv : C13.Inv sys) (m : Msg) (hn : IsNoiseM m)
    (hc : ∀ r, sys.st.syncing.response ≠ some (.complete r)) :
    (stepSys env sys m).st.syncing.response = sys.st.syncing.response ∧
    ((issuedM env sys m = none ∧ (stepSys env sys m).pending = sys.pending) ∨
     (sys.pending = none ∧ ∃ req, issuedM env sys m = some req ∧
        (stepSys env sys m).pending = some req)) := by
  cases m with
  | heartbeat b => exact C13.noise_step env inv (.heartbeat b) trivial hc
  | call c =>
    obtain ⟨h1, h2⟩ := stepSys_call_fetch env sys c
    exact ⟨by rw [h2], Or.inl ⟨rfl, h1⟩⟩
  | reply r => exact absurd hn (by simp [IsNoiseM])
  | upgrade c => exact absurd hn (by simp [IsNoiseM])
  | setConfig c => exact absurd hn (by simp [IsNoiseM])

/-- a whole phase of heartbeats and endpoint calls while the stored response is not complete: the
    stored response stays, at most the one request it calls for is sent -/
theorem noise_phaseM : ∀ (msgs : List (Env × Msg)) {c : Cfg}, C13.Inv c.1 → NoiseM msgs →
    (∀ r, c.1.st.syncing.response ≠ some (.complete r)) →
    (run c msgs).1.st.syncing.response = c.1.st.syncing.response ∧
    ((traceM c msgs = [] ∧ (run c msgs).1.pending = c.1.pending) ∨
     (c.1.pending = none ∧ ∃ req, traceM c msgs = [req] ∧ (run c msgs).1.pending = some req))
  | [], _, _, _, _ => ⟨rfl, .inl ⟨rfl, rfl⟩⟩
  | (env, m) :: rest, c, inv, hn, hc => by
    have hna : IsNoiseM m := hn (env, m) List.mem_cons_self
    have hnr : NoiseM rest := fun x hx => hn x (List.mem_cons_of_mem _ hx)
    obtain ⟨hresp, hcase⟩ := noise_stepM env inv m hna hc
    have inv' : C13.Inv (stepMsg env c m).1 := fetchInv_stepM env m inv
    have hc' : ∀ r, (stepMsg env c m).1.st.syncing.response ≠ some (.complete r) := by
      show ∀ r, (stepSys env c.1 m).st.syncing.response ≠ _
      rw [hresp]; exact hc
    obtain ⟨hresp2, hcase2⟩ := noise_phaseM rest inv' hnr hc'
    have hresp' : (stepMsg env c m).1.st.syncing.response = c.1.st.syncing.response := hresp
    simp only [run, traceM]
    refine ⟨by rw [hresp2, hresp'], ?_⟩
    rcases hcase with ⟨hi, hp⟩ | ⟨hp, req, hi, hp'⟩
    · have hp0 : (stepMsg env c m).1.pending = c.1.pending := hp
      rcases hcase2 with ⟨ht, hp2⟩ | ⟨hp2, req, ht, hp2'⟩
      · exact .inl ⟨by simp [hi, ht], by rw [hp2, hp0]⟩
      · exact .inr ⟨by rw [← hp0]; exact hp2, req, by simp [hi, ht], hp2'⟩
    · have hp0 : (stepMsg env c m).1.pending = some req := hp'
      rcases hcase2 with ⟨ht, hp2⟩ | ⟨hp2, req2, ht, hp2'⟩
      · exact .inr ⟨hp, req, by simp [hi, ht], by rw [hp2, hp0]⟩
      · rw [hp0] at hp2; cases hp2

/-! ### More on `get_chain_with_tip` and the block loop -/

mutual
theorem chainWithTip_succ_mem {α : Type} (h : α → Nat) (tip : Nat) : ∀ (t : Tree α) (p s : List α),
    Tree.chainWithTip h tip t = some (p, s) → ∀ x ∈ s, x ∈ t.blocks
  | .node r cs, p, s, hc, x, hx => by
    simp only [Tree.chainWithTip] at hc
    simp only [Tree.blocks, List.mem_cons]
    split at hc
    · simp only [Option.some.injEq, Prod.mk.injEq] at hc
      obtain ⟨_, rfl⟩ := hc
      exact Or.inr (rootsOf_subset_blocksList cs x hx)
    · split at hc
      · rename_i q s' hq
        simp only [Option.some.injEq, Prod.mk.injEq] at hc
        obtain ⟨_, rfl⟩ := hc
        exact Or.inr (chainWithTipList_succ_mem h tip cs q s' hq x hx)
      · cases hc
theorem chainWithTipList_succ_mem {α : Type} (h : α → Nat) (tip : Nat) : ∀ (cs : List (Tree α))
    (p s : List α), Tree.chainWithTipList h tip cs = some (p, s) → ∀ x ∈ s, x ∈ Tree.blocksList cs
  | [], p, s, hc, _, _ => by simp [Tree.chainWithTipList] at hc
  | c :: cs, p, s, hc, x, hx => by
    simp only [Tree.chainWithTipList] at hc
    simp only [Tree.blocksList, List.mem_append]
    split at hc
    · rename_i y hy
      simp only [Option.some.injEq] at hc
      subst hc
      exact Or.inl (chainWithTip_succ_mem h tip c p s hy x hx)
    · exact Or.inr (chainWithTipList_succ_mem h tip cs p s hc x hx)
end

/-- a loop that was not stopped moved no counter -/
theorem processBlocks_false_syncing (env : Env) : ∀ (blobs : List String) (s s1 : State),
    processBlocks env s blobs = some (s1, false) → s1.syncing = s.syncing
  | [], s, s1, h => by
    simp only [processBlocks, Option.some.injEq, Prod.mk.injEq, and_true] at h
    rw [h]
  | blob :: rest, s, s1, h => by
    rw [C10.processBlocks_cons] at h
    cases hd : env.dec.block blob with
    | none => rw [hd] at h; simp at h
    | some b =>
      rw [hd] at h
      simp only at h
      cases hi : insertBlock env s b with
      | trap => rw [hi] at h; cases h
      | rejected why => rw [hi] at h; simp at h
      | ok s' =>
        rw [hi] at h
        rw [processBlocks_false_syncing env rest s' s1 h]
        exact insertBlock_ok_syncing hi

end Btc.Lemmas.Lift1315
