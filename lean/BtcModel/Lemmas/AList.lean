import BtcModel.Model.Stable

/-!
  Basic facts about the containers of the model: lawfulness of the derived `BEq` instances and
  the association-list API (`AList.find?`, `insert`, `erase`, `contains`). Shared by the
  invariant proofs.
-/
namespace Btc

instance : LawfulBEq OutPoint where
  eq_of_beq {a b} h := by
    cases a; cases b
    simp only [BEq.beq] at h
    unfold instBEqOutPoint.beq at h
    simp at h
    simp [h]
  rfl {a} := by
    cases a
    simp only [BEq.beq]
    unfold instBEqOutPoint.beq
    simp

instance : LawfulBEq TxOut where
  eq_of_beq {a b} h := by
    cases a; cases b
    simp only [BEq.beq] at h
    unfold instBEqTxOut.beq at h
    simp at h
    simp [h]
  rfl {a} := by
    cases a
    simp only [BEq.beq]
    unfold instBEqTxOut.beq
    simp

instance : LawfulBEq IdxEntry where
  eq_of_beq {a b} h := by
    cases a; cases b
    simp only [BEq.beq] at h
    unfold instBEqIdxEntry.beq at h
    simp at h
    simp [h]
  rfl {a} := by
    cases a
    simp only [BEq.beq]
    unfold instBEqIdxEntry.beq
    simp

namespace AList
variable {κ ν : Type} [BEq κ] [LawfulBEq κ]
set_option linter.unusedSectionVars false

@[simp] theorem find?_nil (k : κ) : find? ([] : List (κ × ν)) k = none := rfl

theorem find?_cons (k' : κ) (v : ν) (m : List (κ × ν)) (k : κ) :
    find? ((k', v) :: m) k = if k' == k then some v else find? m k := rfl

theorem find?_insert_self (m : List (κ × ν)) (k : κ) (v : ν) : find? (insert m k v) k = some v := by
  simp [insert, find?_cons]

theorem find?_erase_self (m : List (κ × ν)) (k : κ) : find? (erase m k) k = none := by
  induction m with
  | nil => rfl
  | cons p ps ih =>
    obtain ⟨k', v⟩ := p
    unfold erase at *
    simp only [List.filter_cons]
    by_cases h : k' == k
    · simp [h]; exact ih
    · simp [h, find?_cons]; exact ih

theorem find?_erase_ne (m : List (κ × ν)) (k k2 : κ) (hne : k ≠ k2) :
    find? (erase m k) k2 = find? m k2 := by
  induction m with
  | nil => rfl
  | cons p ps ih =>
    obtain ⟨k', v⟩ := p
    unfold erase at *
    simp only [List.filter_cons]
    by_cases h : k' == k
    · have hk : k' = k := eq_of_beq h
      subst hk
      have : (k' == k2) = false := by simp [hne]
      simp [find?_cons, this]; exact ih
    · simp [h, find?_cons]
      by_cases h2 : k' == k2
      · simp [h2]
      · simp [h2]; exact ih

theorem find?_insert_ne (m : List (κ × ν)) (k k2 : κ) (v : ν) (hne : k ≠ k2) :
    find? (insert m k v) k2 = find? m k2 := by
  have : (k == k2) = false := by simp [hne]
  simp [insert, find?_cons, this, find?_erase_ne m k k2 hne]

theorem find?_insert (m : List (κ × ν)) (k k2 : κ) (v : ν) :
    find? (insert m k v) k2 = if k == k2 then some v else find? m k2 := by
  by_cases h : k = k2
  · subst h; simp [find?_insert_self]
  · have : (k == k2) = false := by simp [h]
    simp [this, find?_insert_ne m k k2 v h]

theorem find?_erase (m : List (κ × ν)) (k k2 : κ) :
    find? (erase m k) k2 = if k == k2 then none else find? m k2 := by
  by_cases h : k = k2
  · subst h; simp [find?_erase_self]
  · have : (k == k2) = false := by simp [h]
    simp [this, find?_erase_ne m k k2 h]

theorem contains_eq (m : List (κ × ν)) (k : κ) : contains m k = (find? m k).isSome := rfl

theorem find?_isSome_iff_mem_keys (m : List (κ × ν)) (k : κ) :
    (find? m k).isSome = true ↔ k ∈ m.map (·.1) := by
  induction m with
  | nil => simp
  | cons p ps ih =>
    obtain ⟨k', v⟩ := p
    simp only [find?_cons, List.map_cons, List.mem_cons]
    by_cases h : k' == k
    · have : k' = k := eq_of_beq h
      simp [h, this]
    · have hne : ¬ k = k' := fun e => h (by simp [e])
      simp [h, hne, ih]

theorem find?_eq_none_iff (m : List (κ × ν)) (k : κ) : find? m k = none ↔ k ∉ m.map (·.1) := by
  rw [← find?_isSome_iff_mem_keys]
  cases find? m k <;> simp

theorem mem_of_find? (m : List (κ × ν)) (k : κ) (v : ν) (h : find? m k = some v) : (k, v) ∈ m := by
  induction m with
  | nil => simp at h
  | cons p ps ih =>
    obtain ⟨k', v'⟩ := p
    rw [find?_cons] at h
    by_cases hk : k' == k
    · simp [hk] at h
      have : k' = k := eq_of_beq hk
      simp [this, h]
    · simp [hk] at h
      exact List.mem_cons_of_mem _ (ih h)

/-- with distinct keys, membership determines lookup -/
theorem find?_of_mem (m : List (κ × ν)) (hnd : (m.map (·.1)).Nodup) (k : κ) (v : ν) (h : (k, v) ∈ m) :
    find? m k = some v := by
  induction m with
  | nil => simp at h
  | cons p ps ih =>
    obtain ⟨k', v'⟩ := p
    simp only [List.map_cons, List.nodup_cons] at hnd
    rw [find?_cons]
    rcases List.mem_cons.mp h with heq | hmem
    · simp at heq; simp [heq.1, heq.2]
    · have hk : k ∈ ps.map (·.1) := List.mem_map.mpr ⟨(k, v), hmem, rfl⟩
      have hne : ¬ (k' == k) = true := fun e => hnd.1 (by rw [eq_of_beq e]; exact hk)
      simp [hne]
      exact ih hnd.2 hmem

theorem keys_erase (m : List (κ × ν)) (k : κ) :
    (erase m k).map (·.1) = (m.map (·.1)).filter (fun x => !(x == k)) := by
  unfold erase
  induction m with
  | nil => rfl
  | cons p ps ih =>
    simp only [List.filter_cons, List.map_cons]
    by_cases h : p.1 == k <;> simp [h, ih]

theorem nodup_keys_erase (m : List (κ × ν)) (k : κ) (h : (m.map (·.1)).Nodup) :
    ((erase m k).map (·.1)).Nodup := by
  rw [keys_erase]; exact h.filter _

theorem nodup_keys_insert (m : List (κ × ν)) (k : κ) (v : ν) (h : (m.map (·.1)).Nodup) :
    ((insert m k v).map (·.1)).Nodup := by
  unfold insert
  simp only [List.map_cons, List.nodup_cons]
  refine ⟨?_, nodup_keys_erase m k h⟩
  rw [keys_erase]
  simp

end AList
end Btc
