import BtcModel.Model.SpecsExtraC11Test
import BtcModel.Lemmas.Header
import BtcModel.Lemmas.FullCor

/-!
  Helper lemmas for `Props/SpecsExtraC11.lean`.

  Part A: the model's `Header.fromCompact` (rust-bitcoin `Target::from_compact`) against the
  independent transcription of Bitcoin Core's `arith_uint256::SetCompact`
  (`Model/SpecsExtraC11Test.lean`): equality where Core reports neither flag, the exact set of
  differences, wrap-around of the shift amount, inversion for the two proof-of-work limits.

  Part B: store coherence for the retarget theorem `C11.nextTarget_eq_requiredBits`: the header
  store the canister hands to the validation library (`State.validationStore`) contains the
  complete ancestor chain of every header it knows (`selfChain_exists`), and every stored header
  except the genesis header carries a target `≤ max_target` (`TgtInv`, a new invariant preserved by
  every message of `Spec/FullSys.lean`: `fullReachable_tgt`).
-/
namespace Btc.Lemmas.SpecsExtraC11

section PartA
open Btc.Header Btc.SpecsExtraC11
open Btc.Tree (Net)

/-! ## A.1 The bit operations of the C++ text, arithmetically -/

theorem and_two_pow (c i : Nat) : c &&& 2 ^ i = if c.testBit i then 2 ^ i else 0 := by
  apply Nat.eq_of_testBit_eq
  intro j
  rw [Nat.testBit_and, Nat.testBit_two_pow]
  by_cases hj : i = j
  · subst hj
    cases h : c.testBit i <;> simp
  · cases h : c.testBit i <;> simp [hj]

/-- `nCompact & 0x007fffff` is the remainder modulo `2^23` -/
theorem and_mask23 (c : Nat) : c &&& 0x007fffff = c % 2 ^ 23 :=
  Nat.and_two_pow_sub_one_eq_mod c 23

/-- `(nCompact & 0x00800000) != 0` says that bit 23 is set -/
theorem signBit_iff (c : Nat) : ((c &&& 0x00800000) != 0) = decide (c / 2 ^ 23 % 2 = 1) := by
  have h := and_two_pow c 23
  rw [Nat.testBit_eq_decide_div_mod_eq] at h
  have e : (0x00800000 : Nat) = 2 ^ 23 := by decide
  rw [e, h]
  by_cases hb : c / 2 ^ 23 % 2 = 1 <;> simp [hb]

theorem compactSize_eq (c : Nat) : compactSize c = c / 2 ^ 24 := Nat.shiftRight_eq_div_pow c 24

/-- the word `nWord` at the time the flags are computed -/
theorem compactWord_eq (c : Nat) :
    compactWord c =
      if c / 2 ^ 24 ≤ 3 then c % 2 ^ 23 / 2 ^ (8 * (3 - c / 2 ^ 24)) else c % 2 ^ 23 := by
  unfold compactWord
  simp only [and_mask23, Nat.shiftRight_eq_div_pow]

theorem compactToTarget_eq (c : Nat) :
    compactToTarget c =
      if c / 2 ^ 24 ≤ 3 then c % 2 ^ 23 / 2 ^ (8 * (3 - c / 2 ^ 24))
      else c % 2 ^ 23 * 2 ^ (8 * (c / 2 ^ 24 - 3)) := by
  unfold compactToTarget
  simp only [and_mask23, Nat.shiftRight_eq_div_pow, Nat.shiftLeft_eq]

theorem compactNegative_iff (c : Nat) :
    compactNegative c = true ↔ compactWord c ≠ 0 ∧ c / 2 ^ 23 % 2 = 1 := by
  unfold compactNegative
  rw [signBit_iff]
  simp

theorem compactOverflow_iff (c : Nat) :
    compactOverflow c = true ↔
      compactWord c ≠ 0 ∧ (34 < c / 2 ^ 24 ∨ (0xff < compactWord c ∧ 33 < c / 2 ^ 24) ∨
        (0xffff < compactWord c ∧ 32 < c / 2 ^ 24)) := by
  unfold compactOverflow
  simp only [Nat.shiftRight_eq_div_pow]
  simp [or_assoc]

/-! ## A.2 The model's decoder, branch by branch -/

/-- the 24 low bits split into the 23-bit word and the sign bit -/
theorem low24_split (c : Nat) : c % 2 ^ 24 = c % 2 ^ 23 + 2 ^ 23 * (c / 2 ^ 23 % 2) := by
  simp only [Nat.reducePow]; omega

theorem fromCompact_small {c : Nat} (he : c / 2 ^ 24 ≤ 3) :
    fromCompact c =
      if 0x7FFFFF < c % 2 ^ 24 / 2 ^ (8 * (3 - c / 2 ^ 24)) then 0
      else c % 2 ^ 24 / 2 ^ (8 * (3 - c / 2 ^ 24)) := by
  unfold fromCompact two256
  simp only [he, if_true, Nat.zero_mod, Nat.pow_zero, Nat.mul_one]
  split
  · rfl
  · apply Nat.mod_eq_of_lt
    have h1 : c % 2 ^ 24 / 2 ^ (8 * (3 - c / 2 ^ 24)) ≤ c % 2 ^ 24 := Nat.div_le_self _ _
    have h2 : c % 2 ^ 24 < 2 ^ 24 := Nat.mod_lt _ (Nat.two_pow_pos _)
    have h3 : (2 : Nat) ^ 24 < 2 ^ 256 := by decide
    omega

theorem fromCompact_large {c : Nat} (he : 3 < c / 2 ^ 24) :
    fromCompact c =
      if 0x7FFFFF < c % 2 ^ 24 then 0
      else c % 2 ^ 24 * 2 ^ (8 * (c / 2 ^ 24 - 3) % 256) % 2 ^ 256 := by
  unfold fromCompact two256
  have : ¬ c / 2 ^ 24 ≤ 3 := by omega
  simp only [this, if_false]

/-! ## A.3 Model = Core where Core reports neither flag -/

/-- the encodings on which rust-bitcoin's decoder keeps the *sign bit as part of the mantissa*:
    sign bit set and size 1 or 2 (the mantissa `nCompact & 0xFFFFFF` is shifted right by 16 or 8
    bits *before* the sign test `mant > 0x7FFFFF`, so the test can no longer see the sign) -/
def LowSign (c : Nat) : Prop := c / 2 ^ 23 % 2 = 1 ∧ (c / 2 ^ 24 = 1 ∨ c / 2 ^ 24 = 2)

instance (c : Nat) : Decidable (LowSign c) := by unfold LowSign; infer_instance

theorem not_negative {c : Nat} (hn : compactNegative c = false) :
    compactWord c = 0 ∨ c / 2 ^ 23 % 2 = 0 := by
  have := not_congr (compactNegative_iff c)
  simp only [hn, Bool.false_eq_true, not_false_eq_true, true_iff, not_and] at this
  by_cases h : compactWord c = 0
  · exact Or.inl h
  · have := this h
    right; omega

theorem not_overflow {c : Nat} (ho : compactOverflow c = false) :
    compactWord c = 0 ∨ (c / 2 ^ 24 ≤ 34 ∧ (compactWord c ≤ 0xff ∨ c / 2 ^ 24 ≤ 33) ∧
      (compactWord c ≤ 0xffff ∨ c / 2 ^ 24 ≤ 32)) := by
  have := not_congr (compactOverflow_iff c)
  simp only [ho, Bool.false_eq_true, not_false_eq_true, true_iff, not_and, not_or] at this
  by_cases h : compactWord c = 0
  · exact Or.inl h
  · obtain ⟨h1, h2, h3⟩ := this h
    right
    refine ⟨by omega, ?_, ?_⟩
    · by_cases hw : compactWord c ≤ 0xff
      · exact Or.inl hw
      · exact Or.inr (by have := h2 (by omega); omega)
    · by_cases hw : compactWord c ≤ 0xffff
      · exact Or.inl hw
      · exact Or.inr (by have := h3 (by omega); omega)

/-- without Core's overflow flag the unbounded shift stays below `2^256` -/
theorem no_overflow_lt (w e : Nat) (hw : w < 2 ^ 23) (he : 3 < e) (h34 : e ≤ 34)
    (h33 : w ≤ 0xff ∨ e ≤ 33) (h32 : w ≤ 0xffff ∨ e ≤ 32) : w * 2 ^ (8 * (e - 3)) < 2 ^ 256 := by
  by_cases h : e ≤ 32
  · have h1 : (2 : Nat) ^ (8 * (e - 3)) ≤ 2 ^ 232 := Nat.pow_le_pow_right (by omega) (by omega)
    calc w * 2 ^ (8 * (e - 3)) ≤ w * 2 ^ 232 := Nat.mul_le_mul_left _ h1
      _ < 2 ^ 23 * 2 ^ 232 := Nat.mul_lt_mul_of_pos_right hw (Nat.two_pow_pos _)
      _ < 2 ^ 256 := by decide
  · have : e = 33 ∨ e = 34 := by omega
    rcases this with rfl | rfl
    · have hw' : w ≤ 0xffff := by omega
      calc w * 2 ^ (8 * (33 - 3)) ≤ 0xffff * 2 ^ (8 * (33 - 3)) := Nat.mul_le_mul_right _ hw'
        _ < 2 ^ 256 := by decide
    · have hw' : w ≤ 0xff := by omega
      calc w * 2 ^ (8 * (34 - 3)) ≤ 0xff * 2 ^ (8 * (34 - 3)) := Nat.mul_le_mul_right _ hw'
        _ < 2 ^ 256 := by decide

/-- **the model's decoder agrees with Core's `SetCompact`** (unbounded value) wherever Core
    reports neither `negative` nor `overflow`, except on the `LowSign` encodings -/
theorem fromCompact_eq_core (c : Nat) (hn : compactNegative c = false)
    (ho : compactOverflow c = false) (hl : ¬ LowSign c) : fromCompact c = compactToTarget c := by
  have hn' := not_negative hn
  have ho' := not_overflow ho
  have hsplit := low24_split c
  rw [compactToTarget_eq]
  rw [compactWord_eq] at hn' ho'
  unfold LowSign at hl
  by_cases he : c / 2 ^ 24 ≤ 3
  · rw [fromCompact_small he]
    simp only [he, if_true] at hn' ⊢
    have hl' : c / 2 ^ 24 = 1 ∨ c / 2 ^ 24 = 2 → c / 2 ^ 23 % 2 = 0 := by
      intro h
      by_cases hx : c / 2 ^ 23 % 2 = 1
      · exact absurd ⟨hx, h⟩ hl
      · omega
    have hcases : c / 2 ^ 24 = 0 ∨ c / 2 ^ 24 = 1 ∨ c / 2 ^ 24 = 2 ∨ c / 2 ^ 24 = 3 := by omega
    rcases hcases with h0 | h0 | h0 | h0
    · rw [h0] at hn' ⊢
      simp only [Nat.reduceSub, Nat.reduceMul, Nat.reducePow] at hsplit hn' ⊢
      split <;> omega
    · have hs0 := hl' (Or.inl h0)
      rw [h0] at hn' ⊢
      simp only [Nat.reduceSub, Nat.reduceMul, Nat.reducePow] at hsplit hn' hs0 ⊢
      split <;> omega
    · have hs0 := hl' (Or.inr h0)
      rw [h0] at hn' ⊢
      simp only [Nat.reduceSub, Nat.reduceMul, Nat.reducePow] at hsplit hn' hs0 ⊢
      split <;> omega
    · rw [h0] at hn' ⊢
      simp only [Nat.reduceSub, Nat.reduceMul, Nat.reducePow, Nat.pow_zero, Nat.div_one] at hsplit hn' ⊢
      split <;> omega
  · have he' : 3 < c / 2 ^ 24 := by omega
    rw [fromCompact_large he']
    simp only [he, if_false] at hn' ho' ⊢
    have hw : c % 2 ^ 23 < 2 ^ 23 := Nat.mod_lt _ (Nat.two_pow_pos _)
    by_cases hs : c / 2 ^ 23 % 2 = 1
    · have hw0 : c % 2 ^ 23 = 0 := by omega
      have hm : 0x7FFFFF < c % 2 ^ 24 := by
        simp only [Nat.reducePow] at hsplit hw0 hs ⊢; omega
      rw [if_pos hm, hw0, Nat.zero_mul]
    · have hm : c % 2 ^ 24 = c % 2 ^ 23 := by
        simp only [Nat.reducePow] at hsplit hs ⊢; omega
      have hm' : ¬ 0x7FFFFF < c % 2 ^ 24 := by
        rw [hm]; simp only [Nat.reducePow] at hw ⊢; omega
      rw [if_neg hm', hm]
      by_cases hw0 : c % 2 ^ 23 = 0
      · rw [hw0, Nat.zero_mul, Nat.zero_mul, Nat.zero_mod]
      · have ho'' := ho'.resolve_left hw0
        have hk : 8 * (c / 2 ^ 24 - 3) % 256 = 8 * (c / 2 ^ 24 - 3) := by
          apply Nat.mod_eq_of_lt; omega
        rw [hk]
        exact Nat.mod_eq_of_lt (no_overflow_lt _ _ hw he' ho''.1 ho''.2.1 ho''.2.2)

/-- on the `LowSign` encodings the model's target is Core's plus the shifted sign bit
    (`0x80` for size 1, `0x8000` for size 2) -/
theorem lowSign_decode (c : Nat) (hl : LowSign c) :
    fromCompact c = compactToTarget c + 2 ^ (8 * (c / 2 ^ 24) - 1) := by
  have hsplit := low24_split c
  obtain ⟨hs, he⟩ := hl
  have he3 : c / 2 ^ 24 ≤ 3 := by omega
  rw [compactToTarget_eq, fromCompact_small he3]
  simp only [he3, if_true]
  rcases he with h0 | h0 <;> rw [h0] <;>
    simp only [Nat.reduceSub, Nat.reduceMul, Nat.reducePow] at hsplit hs ⊢ <;>
    split <;> omega

/-- a `LowSign` encoding that Core does not flag as negative decodes to 0 in Core -/
theorem lowSign_core_zero (c : Nat) (hl : LowSign c) (hn : compactNegative c = false) :
    compactToTarget c = 0 := by
  have hn' := not_negative hn
  obtain ⟨hs, he⟩ := hl
  have he3 : c / 2 ^ 24 ≤ 3 := by omega
  rw [compactWord_eq] at hn'
  rw [compactToTarget_eq]
  simp only [he3, if_true] at hn' ⊢
  omega

/-- encodings that Core flags as negative, of size at least 3, decode to target 0 in the model -/
theorem negative_decode (c : Nat) (hn : compactNegative c = true) (he : 3 ≤ c / 2 ^ 24) :
    fromCompact c = 0 := by
  have hsplit := low24_split c
  obtain ⟨_, hs⟩ := (compactNegative_iff c).mp hn
  have hm : 0x7FFFFF < c % 2 ^ 24 := by
    simp only [Nat.reducePow] at hsplit hs ⊢; omega
  by_cases he3 : c / 2 ^ 24 ≤ 3
  · have h3 : c / 2 ^ 24 = 3 := by omega
    rw [fromCompact_small he3, h3]
    simp only [Nat.reduceSub, Nat.reduceMul, Nat.reducePow, Nat.div_one] at hm ⊢
    rw [if_pos hm]
  · rw [fromCompact_large (by omega), if_pos hm]

/-- negative encodings of size below 3 are `LowSign` -/
theorem negative_small_lowSign (c : Nat) (hn : compactNegative c = true) (he : c / 2 ^ 24 < 3) :
    LowSign c := by
  obtain ⟨hw, hs⟩ := (compactNegative_iff c).mp hn
  refine ⟨hs, ?_⟩
  rw [compactWord_eq] at hw
  have he3 : c / 2 ^ 24 ≤ 3 := by omega
  simp only [he3, if_true] at hw
  have : c / 2 ^ 24 ≠ 0 := by
    intro h0
    rw [h0] at hw
    simp only [Nat.reduceSub, Nat.reduceMul, Nat.reducePow] at hw
    omega
  omega

/-- an encoding with the sign bit set that Core flags as overflowing decodes to 0 in the model -/
theorem overflow_sign_decode (c : Nat) (ho : compactOverflow c = true) (hs : c / 2 ^ 23 % 2 = 1) :
    fromCompact c = 0 := by
  have hsplit := low24_split c
  obtain ⟨_, h⟩ := (compactOverflow_iff c).mp ho
  have he : 3 < c / 2 ^ 24 := by omega
  have hm : 0x7FFFFF < c % 2 ^ 24 := by
    simp only [Nat.reducePow] at hsplit hs ⊢; omega
  rw [fromCompact_large he, if_pos hm]

/-! ## A.4 Wrap-around of the shift amount -/

/-- **adding 32 to a size above 3 does not change the decoded target** (rust-bitcoin's `U256 <<`
    takes the shift amount modulo 256) -/
theorem fromCompact_wrap (c : Nat) (he : 3 < c / 2 ^ 24) : fromCompact (c + 2 ^ 29) = fromCompact c := by
  have h1 : (c + 2 ^ 29) / 2 ^ 24 = c / 2 ^ 24 + 32 := by simp only [Nat.reducePow]; omega
  have h2 : (c + 2 ^ 29) % 2 ^ 24 = c % 2 ^ 24 := by simp only [Nat.reducePow]; omega
  rw [fromCompact_large he, fromCompact_large (by omega), h1, h2]
  have h3 : 8 * (c / 2 ^ 24 + 32 - 3) % 256 = 8 * (c / 2 ^ 24 - 3) % 256 := by omega
  rw [h3]

theorem fromCompact_wrap_mul (c k : Nat) (he : 3 < c / 2 ^ 24) :
    fromCompact (c + k * 2 ^ 29) = fromCompact c := by
  induction k with
  | zero => simp
  | succ k ih =>
    have : c + (k + 1) * 2 ^ 29 = (c + k * 2 ^ 29) + 2 ^ 29 := by
      rw [Nat.add_mul, Nat.one_mul, Nat.add_assoc]
    rw [this, fromCompact_wrap _ (by simp only [Nat.reducePow] at he ⊢; omega), ih]

/-! ## A.5 Which encodings decode to a given large target -/

/-- the decoded value in terms of the mantissa and the effective byte shift `(size - 3) mod 32` -/
theorem fromCompact_large' {c : Nat} (he : 3 < c / 2 ^ 24) :
    fromCompact c =
      if 0x7FFFFF < c % 2 ^ 24 then 0
      else c % 2 ^ 24 * 2 ^ (8 * ((c / 2 ^ 24 - 3) % 32)) % 2 ^ 256 := by
  rw [fromCompact_large he]
  have : 8 * (c / 2 ^ 24 - 3) % 256 = 8 * ((c / 2 ^ 24 - 3) % 32) := by omega
  rw [this]

theorem fromCompact_small_lt {c : Nat} (he : c / 2 ^ 24 ≤ 3) : fromCompact c < 2 ^ 24 := by
  rw [fromCompact_small he]
  have h1 : c % 2 ^ 24 / 2 ^ (8 * (3 - c / 2 ^ 24)) ≤ c % 2 ^ 24 := Nat.div_le_self _ _
  have h2 : c % 2 ^ 24 < 2 ^ 24 := Nat.mod_lt _ (Nat.two_pow_pos _)
  split <;> omega

/-- a 23-bit mantissa shifted by `j < 32` bytes and truncated to 256 bits equals the regtest
    limit only for the canonical mantissa and shift -/
theorem shifted_eq_regtest (m j : Nat) (hm : m ≤ 0x7FFFFF) (hj : j < 32)
    (h : m * 2 ^ (8 * j) % 2 ^ 256 = 0x7FFFFF * 2 ^ 232) : j = 29 ∧ m = 0x7FFFFF := by
  have hd : j = 0 ∨ j = 1 ∨ j = 2 ∨ j = 3 ∨ j = 4 ∨ j = 5 ∨ j = 6 ∨ j = 7 ∨ j = 8 ∨ j = 9 ∨ j = 10 ∨ j = 11 ∨ j = 12 ∨ j = 13 ∨ j = 14 ∨ j = 15 ∨ j = 16 ∨ j = 17 ∨ j = 18 ∨ j = 19 ∨ j = 20 ∨ j = 21 ∨ j = 22 ∨ j = 23 ∨ j = 24 ∨ j = 25 ∨ j = 26 ∨ j = 27 ∨ j = 28 ∨ j = 29 ∨ j = 30 ∨ j = 31 := by omega
  rcases hd with rfl | rfl | rfl | rfl | rfl | rfl | rfl | rfl | rfl | rfl | rfl | rfl | rfl | rfl | rfl | rfl | rfl | rfl | rfl | rfl | rfl | rfl | rfl | rfl | rfl | rfl | rfl | rfl | rfl | rfl | rfl | rfl <;>
    simp only [Nat.reduceMul, Nat.reducePow] at h <;> omega

/-- the same for the mainnet / testnet limit -/
theorem shifted_eq_mainnet (m j : Nat) (hm : m ≤ 0x7FFFFF) (hj : j < 32)
    (h : m * 2 ^ (8 * j) % 2 ^ 256 = 0xFFFF * 2 ^ 208) : j = 26 ∧ m = 0xFFFF := by
  have hd : j = 0 ∨ j = 1 ∨ j = 2 ∨ j = 3 ∨ j = 4 ∨ j = 5 ∨ j = 6 ∨ j = 7 ∨ j = 8 ∨ j = 9 ∨ j = 10 ∨ j = 11 ∨ j = 12 ∨ j = 13 ∨ j = 14 ∨ j = 15 ∨ j = 16 ∨ j = 17 ∨ j = 18 ∨ j = 19 ∨ j = 20 ∨ j = 21 ∨ j = 22 ∨ j = 23 ∨ j = 24 ∨ j = 25 ∨ j = 26 ∨ j = 27 ∨ j = 28 ∨ j = 29 ∨ j = 30 ∨ j = 31 := by omega
  rcases hd with rfl | rfl | rfl | rfl | rfl | rfl | rfl | rfl | rfl | rfl | rfl | rfl | rfl | rfl | rfl | rfl | rfl | rfl | rfl | rfl | rfl | rfl | rfl | rfl | rfl | rfl | rfl | rfl | rfl | rfl | rfl | rfl <;>
    simp only [Nat.reduceMul, Nat.reducePow] at h <;> omega


end PartA

section PartB
open Btc Btc.State Btc.Spec Btc.Spec.Full Btc.Header Btc.Spec.Consensus
open Btc.Lemmas.FullSys Btc.Lemmas.Reach Btc.Lemmas.Reach2 Btc.Lemmas.Fetch
open Btc.Lemmas.NextHeaders Btc.Lemmas.ReachNext Btc.Lemmas.FullCor
open Btc.Tree (Net)

/-! ## B.1 The ancestor chain exists in the canister's own header store -/

/-- `find?` returns the first match: an index not above any matching index -/
theorem find?_le_index {α : Type} (p : α → Bool) :
    ∀ (l : List α) (j : Nat) (hj : j < l.length), p l[j] = true →
      ∃ k, ∃ hk : k < l.length, k ≤ j ∧ l.find? p = some l[k]
  | [], j, hj, _ => by simp at hj
  | a :: t, j, hj, hp => by
    by_cases ha : p a = true
    · exact ⟨0, by simp, Nat.zero_le _, by simp [List.find?_cons_of_pos, ha]⟩
    · cases j with
      | zero => exact absurd hp ha
      | succ j =>
        have hj' : j < t.length := by simpa using hj
        obtain ⟨k, hk, hkj, hf⟩ := find?_le_index p t j hj' (by simpa using hp)
        refine ⟨k + 1, by simpa using hk, by omega, ?_⟩
        rw [List.find?_cons_of_neg ha, hf]
        rfl

theorem linkedH_getElem : ∀ (l : List Hdr), LinkedH l → ∀ j (h : j + 1 < l.length),
    l[j + 1].prev = l[j].hash
  | [], _, j, h => by simp at h
  | [_], _, j, h => by simp at h
  | x :: y :: rest, hl, j, h => by
    cases j with
    | zero => exact hl.1
    | succ j => exact linkedH_getElem (y :: rest) hl.2 j (by simpa using h)

/-- a lookup of the hash of the `j`-th header of the chain returns a header of the chain at an
    index `≤ j` (the first one carrying that hash) -/
theorem getByHash_chain_idx (s : State) (chain : List Hdr) (j : Nat) (hj : j < chain.length) :
    ∃ k, ∃ hk : k < chain.length, k ≤ j ∧
      (validationStore s chain).getByHash chain[j].hash = some chain[k] := by
  obtain ⟨k, hk, hkj, hf⟩ :=
    find?_le_index (fun c => c.hash == chain[j].hash) chain j hj (by simp)
  exact ⟨k, hk, hkj, by rw [getByHash_eq, hf]⟩

/-- a lookup of the hash of a stable block that no header of the chain carries returns the
    header of that block -/
theorem getByHash_stable_exact {s : State} {G : List Block} (hI : Inv s G) {chain : List Hdr}
    {g : Block} (hg : g ∈ G) (hfresh : ∀ c ∈ chain, c.hash ≠ g.hash) :
    (validationStore s chain).getByHash g.hash = some (hdrOfBlock g) := by
  rw [getByHash_eq]
  have hnone : chain.find? (fun c => c.hash == g.hash) = none := by
    apply List.find?_eq_none.mpr
    intro c hc
    simpa using hfresh c hc
  rw [hnone]
  simp only [hI.headersByHash g hg, Option.map_some]
  rfl

/-- rank induction: stable blocks are ranked by their height, the headers of the chain above them
    by their position; every lookup of a parent goes to a strictly smaller rank -/
theorem selfChain_exists_aux {s : State} {G : List Block} (hI : Inv s G) {chain : List Hdr}
    (hc : ChainOk s chain) (hfresh : ∀ c ∈ chain, ∀ g ∈ G, c.hash ≠ g.hash) :
    ∀ (n : Nat) (cur : Hdr),
      ((∃ i, ∃ hi : i < G.length, i < n ∧ cur = hdrOfBlock G[i]) ∨
       (∃ j, ∃ hj : j < chain.length, G.length + j < n ∧ cur = chain[j])) →
      ∃ l, SelfChain (validationStore s chain)
        ((validationStore s chain).initialHash.getD 0) cur l true
  | 0, cur, h => by
    rcases h with ⟨i, _, h, _⟩ | ⟨j, _, h, _⟩ <;> omega
  | n + 1, cur, h => by
    by_cases hinit : cur.hash = (validationStore s chain).initialHash.getD 0
    · exact ⟨[cur], .stop hinit⟩
    · have hinit' := hinit
      rw [initialHash_eq hI hc] at hinit'
      simp only [Option.getD_some] at hinit'
      have key : ∃ p, (validationStore s chain).getByHash cur.prev = some p ∧
          ((∃ i, ∃ hi : i < G.length, i < n ∧ p = hdrOfBlock G[i]) ∨
           (∃ j, ∃ hj : j < chain.length, G.length + j < n ∧ p = chain[j])) := by
        rcases h with ⟨i, hi, hin, rfl⟩ | ⟨j, hj, hjn, rfl⟩
        · cases i with
          | zero =>
            exfalso
            cases G with
            | nil => simp at hi
            | cons g rest => exact hinit' rfl
          | succ i =>
            have hlink : (hdrOfBlock G[i + 1]).prev = G[i].hash := hI.stableLinked i hi
            have hg : G[i] ∈ G := List.getElem_mem _
            refine ⟨hdrOfBlock G[i], ?_, Or.inl ⟨i, by omega, by omega, rfl⟩⟩
            rw [hlink]
            exact getByHash_stable_exact hI hg (fun c hc' => hfresh c hc' _ hg)
        · cases j with
          | zero =>
            have h0 : chain[0] = hdrOfBlock s.unstable.tree.root.blk := by
              have hh := hc.head
              cases chain with
              | nil => simp at hj
              | cons x xs => simpa using hh
            cases hl : G.getLast? with
            | none =>
              exfalso
              have hnil : G = [] := List.getLast?_eq_none_iff.mp hl
              subst hnil
              apply hinit'
              rw [h0]
              rfl
            | some g =>
              have hr := hI.rootLinked
              rw [hl] at hr
              simp only at hr
              have hg : g ∈ G := List.mem_of_getLast? hl
              obtain ⟨i, hi, rfl⟩ := List.mem_iff_getElem.mp hg
              refine ⟨hdrOfBlock G[i], ?_, Or.inl ⟨i, hi, by omega, rfl⟩⟩
              rw [h0]
              show (validationStore s chain).getByHash s.unstable.tree.root.blk.prev = _
              rw [hr]
              exact getByHash_stable_exact hI hg (fun c hc' => hfresh c hc' _ hg)
          | succ j =>
            have hlink := linkedH_getElem chain hc.linked j hj
            obtain ⟨k, hk, hkj, hlook⟩ := getByHash_chain_idx s chain j (by omega)
            refine ⟨chain[k], ?_, Or.inr ⟨k, hk, by omega, rfl⟩⟩
            rw [hlink]
            exact hlook
      obtain ⟨p, hp, hrank⟩ := key
      obtain ⟨l, hl⟩ := selfChain_exists_aux hI hc hfresh n p hrank
      exact ⟨cur :: l, .step hinit hp hl⟩

/-- **every header the validator can reach has a complete ancestor chain in the store**: from a
    known header (one of the chain handed to the validator, or a stable one) the `prev` links lead,
    through stored headers only, to the initial header -/
theorem selfChain_exists {s : State} {G : List Block} (hI : Inv s G) {chain : List Hdr}
    (hc : ChainOk s chain) (hfresh : ∀ c ∈ chain, ∀ g ∈ G, c.hash ≠ g.hash) {prev : Hdr}
    (hk : Known G chain prev) :
    ∃ l, SelfChain (validationStore s chain)
      ((validationStore s chain).initialHash.getD 0) prev l true := by
  apply selfChain_exists_aux hI hc hfresh (G.length + chain.length + 1)
  rcases hk with hm | ⟨g, hg, rfl⟩
  · obtain ⟨j, hj, rfl⟩ := List.mem_iff_getElem.mp hm
    exact Or.inr ⟨j, hj, by omega, rfl⟩
  · obtain ⟨i, hi, rfl⟩ := List.mem_iff_getElem.mp hg
    exact Or.inl ⟨i, hi, by omega, rfl⟩

/-! ## B.2 Where the headers of a validation context come from -/

/-- the header of an unstable block -/
def FromTree (s : State) (c : Hdr) : Prop := ∃ cb ∈ s.unstable.tree.blocks, c = hdrOfBlock cb.blk

/-- an announced header (`NextBlockHeaders`) -/
def FromNext (s : State) (c : Hdr) : Prop :=
  ∃ x nh, s.unstable.next.getHeader x = some nh ∧ c = hdrOfNext nh

theorem validationContext_mem {s : State} {hd : Hdr} {chain : List Hdr}
    (h : validationContext s hd = .ok chain) : ∀ c ∈ chain, FromTree s c := by
  unfold validationContext at h
  cases hcw : Tree.chainWithTip CBlock.hash hd.prev s.unstable.tree with
  | none => rw [hcw] at h; cases h
  | some x =>
    obtain ⟨p, succ⟩ := x
    rw [hcw] at h
    simp only at h
    split at h
    · cases h
    · cases h
      intro c hc
      obtain ⟨cb, hcb, rfl⟩ := List.mem_map.mp hc
      exact ⟨cb, (chainWithTip_spec CBlock.hash hd.prev _ p succ hcw).1 cb hcb, rfl⟩

theorem nextHeadersChain_mem (s : State) : ∀ (fuel tip : Nat) (acc : List NextHeader),
    (∀ a ∈ acc, ∃ x, s.unstable.next.getHeader x = some a) →
    ∀ a ∈ nextHeadersChain s fuel tip acc, ∃ x, s.unstable.next.getHeader x = some a
  | 0, _, acc, hacc => by simpa [nextHeadersChain] using hacc
  | fuel + 1, tip, acc, hacc => by
    unfold nextHeadersChain
    cases hg : s.unstable.next.getHeader tip with
    | none => simpa using hacc
    | some h =>
      simp only
      apply nextHeadersChain_mem s fuel h.prev (h :: acc)
      intro a ha
      rcases List.mem_cons.mp ha with rfl | ha
      · exact ⟨tip, hg⟩
      · exact hacc a ha

theorem validationContextWithNext_mem {s : State} {hd : Hdr} {chain : List Hdr}
    (h : validationContextWithNext s hd = .ok chain) :
    ∀ c ∈ chain, FromTree s c ∨ FromNext s c := by
  unfold validationContextWithNext at h
  have hm := nextHeadersChain_mem s (s.unstable.next.byHash.length + 1) hd.prev [] (by simp)
  cases hl : nextHeadersChain s (s.unstable.next.byHash.length + 1) hd.prev [] with
  | nil =>
    rw [hl] at h
    simp only at h
    intro c hc
    exact Or.inl (validationContext_mem h c hc)
  | cons first rest =>
    rw [hl] at h hm
    simp only at h
    cases hv : validationContext s (hdrOfNext first) with
    | error e => rw [hv] at h; cases h
    | ok tchain =>
      rw [hv] at h
      simp only [Except.ok.injEq] at h
      subst h
      intro c hc
      rcases List.mem_append.mp hc with hc | hc
      · exact Or.inl (validationContext_mem hv c hc)
      · obtain ⟨nh, hnh, rfl⟩ := List.mem_map.mp hc
        obtain ⟨x, hx⟩ := hm nh hnh
        exact Or.inr ⟨x, nh, hx, rfl⟩

/-- the hash of an unstable block is not the hash of a stable block (`Inv.hashesNodup`) -/
theorem fromTree_fresh {s : State} {G : List Block} (hI : Inv s G) {c : Hdr} (hc : FromTree s c) :
    ∀ g ∈ G, c.hash ≠ g.hash := by
  obtain ⟨cb, hcb, rfl⟩ := hc
  intro g hg he
  have hnd := hI.hashesNodup
  rw [List.map_append] at hnd
  have := (List.nodup_append.mp hnd).2.2 g.hash (List.mem_map.mpr ⟨g, hg, rfl⟩) cb.blk.hash
    (List.mem_map.mpr ⟨cb.blk, List.mem_map.mpr ⟨cb, hcb, rfl⟩, rfl⟩)
  exact this he.symm

/-! ## B.3 Every stored header except the genesis header passed the `≤ max_target` check -/

/-- the check `header.target() <= max_target(network)` of `validate_header` -/
def TargetOk (net : Net) (x : Hdr) : Prop := fromCompact x.bits ≤ maxTarget net

/-- **the new invariant**: the network never changes; `g0` is the block at height 0 (the genesis
    block handed to `State::new`, which nothing validates); every other block — ingested (`G`) or
    unstable — and every announced header carries a target `≤ max_target(network)`. -/
structure TgtInv (net : Net) (g0 : Block) (u : Unstable) (G : List Block) : Prop where
  netEq : u.net = net
  head : (G ++ [u.tree.root.blk]).head? = some g0
  stable : ∀ b ∈ G, b = g0 ∨ TargetOk net (hdrOfBlock b)
  tree : ∀ c ∈ u.tree.blocks, c.blk = g0 ∨ TargetOk net (hdrOfBlock c.blk)
  next : ∀ x h, u.next.getHeader x = some h → TargetOk net (hdrOfNext h)

/-- the invariant only reads the network, the blocks of the tree (not their cached metrics), the
    root and the announced headers -/
theorem TgtInv.transfer {net : Net} {g0 : Block} {u u' : Unstable} {G : List Block}
    (h : TgtInv net g0 u G) (hnet : u'.net = u.net)
    (hroot : u'.tree.root.blk = u.tree.root.blk)
    (htree : ∀ c ∈ u'.tree.blocks, ∃ c0 ∈ u.tree.blocks, c0.blk = c.blk)
    (hnext : ∀ x hd, u'.next.getHeader x = some hd → u.next.getHeader x = some hd) :
    TgtInv net g0 u' G := by
  refine ⟨hnet.trans h.netEq, by rw [hroot]; exact h.head, h.stable, ?_, ?_⟩
  · intro c hc
    obtain ⟨c0, h0, e⟩ := htree c hc
    rw [← e]
    exact h.tree c0 h0
  · intro x hd hg
    exact h.next x hd (hnext x hd hg)

theorem tgtInv_push {net : Net} {g0 : Block} {u u' : Unstable} {G : List Block} {utxos : UtxoSet}
    {b : Block} (h : TgtInv net g0 u G) (hp : u.push utxos b = .ok u')
    (hb : TargetOk net (hdrOfBlock b)) : TgtInv net g0 u' G := by
  unfold Unstable.push at hp
  split at hp
  · cases hp
  · simp only at hp
    split at hp
    · cases hp
    · split at hp
      · cases hp
      · rename_i tree he
        simp only [Unstable.PushResult.ok.injEq] at hp
        subst hp
        refine ⟨h.netEq, ?_, h.stable, ?_, ?_⟩
        · show (G ++ [tree.root.blk]).head? = some g0
          rw [TreeExtend.extend_root _ _ _ _ _ he]
          exact h.head
        · intro c hc
          rcases (TreeExtend.extend_mem_blocks _ _ _ _ _ he c).mp hc with rfl | hc
          · exact Or.inr hb
          · exact h.tree c hc
        · intro x hd hg
          have hg' : (u.next.remove b.hash).getHeader x = some hd := hg
          rw [getHeader_remove] at hg'
          split at hg'
          · cases hg'
          · exact h.next x hd hg'

theorem tgtInv_insertNext {net : Net} {g0 : Block} {u u' : Unstable} {G : List Block}
    {nh : NextHeader} {n : Nat} (h : TgtInv net g0 u G) (hi : u.insertNextHeader nh n = some u')
    (hb : TargetOk net (hdrOfNext nh)) : TgtInv net g0 u' G := by
  unfold Unstable.insertNextHeader at hi
  simp only at hi
  split at hi
  · cases hi
  · simp only [Option.some.injEq] at hi
    subst hi
    refine ⟨h.netEq, h.head, h.stable, h.tree, ?_⟩
    intro x hd hg
    simp only [getHeader_insert] at hg
    split at hg
    · cases hg; exact hb
    · exact h.next x hd hg

theorem getHeader_removeUntil_some (n : NextBlockHeaders) (sh x : Nat) (hd : NextHeader)
    (h : (n.removeUntil sh).getHeader x = some hd) : n.getHeader x = some hd := by
  unfold NextBlockHeaders.getHeader at h ⊢
  rw [find?_byHash_removeUntil] at h
  split at h
  · cases h
  · exact h

theorem tgtInv_pop {net : Net} {g0 : Block} {bound : Unstable.BoundFn} {u u' : Unstable}
    {G : List Block} {sh : Nat} {b : Block} (h : TgtInv net g0 u G)
    (hp : u.pop bound sh = .ok u' b) : TgtInv net g0 u' (G ++ [b]) := by
  obtain ⟨r, cs, idx, ht, hc, hb, hnext, _, _, hnet⟩ := pop_ok_shape bound u u' sh b hp
  have hroot : u.tree.root = r := by rw [ht]; rfl
  have hrm : r ∈ u.tree.blocks := by rw [ht]; simp [Tree.blocks]
  refine ⟨hnet.trans h.netEq, ?_, ?_, ?_, ?_⟩
  · have hh := h.head
    rw [hroot] at hh
    rw [hb]
    cases G <;> simpa using hh
  · intro b' hb'
    rcases List.mem_append.mp hb' with hg | hg
    · exact h.stable b' hg
    · simp only [List.mem_singleton] at hg
      subst hg
      rw [hb]
      exact h.tree r hrm
  · intro c hcm
    apply h.tree
    rw [ht]
    simp only [Tree.blocks]
    exact List.mem_cons_of_mem _ ((Tree.blocks_child_sublist cs idx u'.tree hc).subset hcm)
  · intro x hd hg
    rw [hnext] at hg
    exact h.next x hd (getHeader_removeUntil_some _ _ _ _ hg)

theorem tgtInv_popSteps {net : Net} {g0 : Block} {bound : Unstable.BoundFn} {u u' : Unstable}
    {n : Nat} {popped : List Block} (hs : PopSteps bound u n popped u') :
    ∀ G, TgtInv net g0 u G → TgtInv net g0 u' (G ++ popped) := by
  induction hs with
  | nil u n => intro G h; simpa using h
  | cons u n b u1 bs u2 hpop _ ih =>
    intro G h
    have := ih (G ++ [b]) (tgtInv_pop h hpop)
    simpa [List.append_assoc] using this

theorem tgtInv_setConfig {net : Net} {g0 : Block} {G : List Block} (s : State) (c : SetConfig)
    (h : TgtInv net g0 s.unstable G) : TgtInv net g0 (s.setConfig c).unstable G := by
  obtain ⟨_, _, h3, _, _, _, h7, h8⟩ := setConfig_frame s c
  exact h.transfer h8 (by rw [h3]) (by intro c hc; rw [h3] at hc; exact ⟨c, hc, rfl⟩)
    (by intro x hd hg; rw [h7] at hg; exact hg)

theorem tgtInv_upgraded {net : Net} {g0 : Block} {G : List Block} (s : State)
    (h : TgtInv net g0 s.unstable G) : TgtInv net g0 (upgraded s).unstable G := by
  refine h.transfer rfl ?_ ?_ (fun x hd hg => hg)
  · rw [upgraded_tree, root_mapT]; rfl
  · intro c hc
    rw [upgraded_tree, blocks_mapT] at hc
    obtain ⟨c0, h0, rfl⟩ := List.mem_map.mp hc
    exact ⟨c0, h0, rfl⟩

theorem tgtInv_upgrade {net : Net} {g0 : Block} {G : List Block} (s : State)
    (c : Option SetConfig) (h : TgtInv net g0 s.unstable G) :
    TgtInv net g0 (s.upgrade c).unstable G := by
  rw [upgrade_eq]
  cases c with
  | none => exact tgtInv_upgraded s h
  | some c => exact tgtInv_setConfig _ c (tgtInv_upgraded s h)

/-- **a block that `insert_block` accepts carries a target `≤ max_target`** (the check
    `TargetDifficultyAboveMax` of `validate_header`) -/
theorem targetOk_of_insertBlock_ok {env : Env} {s s' : State} {b : Block}
    (h : insertBlock env s b = .ok s') : TargetOk s.network (hdrOfBlock b) := by
  have hp := passes_of_ok h
  unfold passesValidation at hp
  split at hp
  · cases hp
  · split at hp
    · rename_i hv
      obtain ⟨_, _, _, _, hmax, _⟩ := (Props.C11.accept_iff _ _ _ _).mp hv
      exact hmax
    · cases hp

theorem processBlocks_tgt {net : Net} {g0 : Block} {G : List Block} (env : Env) :
    ∀ (blobs : List String) (s s1 : State) (stopped : Bool),
      processBlocks env s blobs = some (s1, stopped) → TgtInv net g0 s.unstable G →
      TgtInv net g0 s1.unstable G
  | [], s, s1, stopped, h, ht => by
    simp only [processBlocks, Option.some.injEq, Prod.mk.injEq] at h
    rw [← h.1]; exact ht
  | blob :: rest, s, s1, stopped, h, ht => by
    rw [Props.C10.processBlocks_cons] at h
    cases hd : env.dec.block blob with
    | none =>
      rw [hd] at h
      simp only [Option.some.injEq, Prod.mk.injEq] at h
      rw [← h.1]; exact ht
    | some b =>
      rw [hd] at h
      simp only at h
      cases hi : insertBlock env s b with
      | trap => rw [hi] at h; cases h
      | rejected why =>
        rw [hi] at h
        simp only [Option.some.injEq, Prod.mk.injEq] at h
        rw [← h.1]; exact ht
      | ok s' =>
        rw [hi] at h
        simp only at h
        have hb := targetOk_of_insertBlock_ok hi
        obtain ⟨u, hu, rfl⟩ := insertBlock_ok_eq hi
        have hb' : TargetOk net (hdrOfBlock b) := by
          have e : s.network = net := ht.netEq
          rw [← e]; exact hb
        exact processBlocks_tgt env rest { s with unstable := u } s1 stopped h (tgtInv_push ht hu hb')

theorem insertNextHeadersAll_tgt {net : Net} {g0 : Block} {G : List Block} (env : Env) :
    ∀ (raws : List String) (s s1 : State), insertNextHeadersAll env s raws = some s1 →
      TgtInv net g0 s.unstable G → TgtInv net g0 s1.unstable G
  | [], s, s1, h, ht => by
    simp only [insertNextHeadersAll, Option.some.injEq] at h
    subst h; exact ht
  | raw :: rest, s, s1, h, ht => by
    unfold insertNextHeadersAll at h
    cases hd : env.dec.header raw with
    | none =>
      rw [hd] at h
      simp only [Option.some.injEq] at h
      subst h; exact ht
    | some hdr =>
      rw [hd] at h
      simp only at h
      by_cases hk : (s.unstable.next.getHeader hdr.hash).isSome = true
      · simp only [hk, if_true] at h
        exact insertNextHeadersAll_tgt env rest s s1 h ht
      · simp only [hk, Bool.false_eq_true, if_false] at h
        cases hc : validationContextWithNext s (hdrOfNext hdr) with
        | error e =>
          rw [hc] at h
          simp only [Option.some.injEq] at h
          subst h; exact ht
        | ok chain =>
          rw [hc] at h
          simp only at h
          cases hv : Header.validateHeader s.network (validationStore s chain) (hdrOfNext hdr) env.now with
          | trap => rw [hv] at h; cases h
          | err e =>
            rw [hv] at h
            simp only [Option.some.injEq] at h
            subst h; exact ht
          | ok =>
            rw [hv] at h
            simp only at h
            cases hi : s.unstable.insertNextHeader hdr s.stableHeight with
            | none =>
              rw [hi] at h
              simp only [Option.some.injEq] at h
              subst h; exact ht
            | some u =>
              rw [hi] at h
              simp only at h
              obtain ⟨_, _, _, _, hmax, _⟩ := (Props.C11.accept_iff _ _ _ _).mp hv
              have hb' : TargetOk net (hdrOfNext hdr) := by
                have e : s.network = net := ht.netEq
                rw [← e]; exact hmax
              exact insertNextHeadersAll_tgt env rest { s with unstable := u } s1 h
                (tgtInv_insertNext ht hi hb')

theorem processResponse_tgt {net : Net} {g0 : Block} {G : List Block} {env : Env} {s s' : State}
    (h : processResponse env s = some s') (ht : TgtInv net g0 s.unstable G) :
    TgtInv net g0 s'.unstable G := by
  unfold processResponse at h
  split at h
  · simp only at h
    rename_i r _
    cases hb : processBlocks env { s with syncing := { s.syncing with response := none } } r.blocks with
    | none => rw [hb] at h; cases h
    | some x =>
      obtain ⟨s1, stopped⟩ := x
      rw [hb] at h
      have h1 := processBlocks_tgt env r.blocks _ s1 stopped hb ht
      cases stopped with
      | true =>
        simp only [Option.some.injEq] at h
        subst h; exact h1
      | false =>
        simp only at h
        exact insertNextHeadersAll_tgt env _ s1 s' h h1
  · simp only [Option.some.injEq] at h
    subst h; exact ht

theorem finish_tgt {net : Net} {g0 : Block} {G : List Block} {env : Env} {s s' : State}
    (h : finish env s = .processed s') (ht : TgtInv net g0 s.unstable G) :
    TgtInv net g0 s'.unstable G := by
  unfold finish at h
  cases hp : processResponse env s with
  | none => rw [hp] at h; cases h
  | some s2 =>
    rw [hp] at h
    simp only at h
    have h2 := processResponse_tgt hp ht
    split at h
    · cases h; exact h2
    · split at h
      · cases h
      · rename_i s3 p hf
        cases h
        rw [(feePercentiles_frame hf).unstable]
        exact h2

/-- **every message preserves the target invariant** -/
theorem stepMsg_tgt {net : Net} {g0 : Block} (env : Env) (sys : Fetch.Sys) (G : List Block) (m : Msg)
    (h2 : Inv2 sys.st G) (ht : TgtInv net g0 sys.st.unstable G) :
    TgtInv net g0 (stepMsg env (sys, G) m).1.st.unstable (stepMsg env (sys, G) m).2 := by
  cases m with
  | heartbeat budget =>
    rcases heartbeatStart_cases env sys.st budget with h | ⟨s', p, h, hi⟩ | ⟨hi, hni, req, _, h⟩ |
        ⟨hi, hni, _, s', hfin, h⟩
    · simp only [stepMsg, stepSys, stepGhost, Fetch.step, h]
      exact ht
    · obtain ⟨h1, h2'⟩ := Props.FullSys.heartbeat_ingests env sys G budget s' p h
      rw [h2']
      obtain ⟨_, hp⟩ := inv2_ingest_popSteps env.bound h2 budget s' _ h1
      exact tgtInv_popSteps hp G ht
    · simp only [stepMsg, stepSys, stepGhost, Fetch.step, h]
      exact ht
    · simp only [stepMsg, stepSys, stepGhost, Fetch.step, h]
      exact finish_tgt hfin ht
  | reply r =>
    have hf := reply_frame env sys r
    show TgtInv net g0 (Fetch.step env sys (.reply r)).st.unstable G
    rw [hf.unstable]; exact ht
  | upgrade cfg => exact tgtInv_upgrade sys.st cfg ht
  | setConfig c => exact tgtInv_setConfig sys.st c ht
  | call cl =>
    have hf := callState_frame env sys.st cl
    show TgtInv net g0 (callState env sys.st cl).unstable G
    rw [hf.unstable]; exact ht

theorem new_net {thr : Nat} {net : Net} {genesis : Block} {s0 : State}
    (h : State.new thr net genesis = some s0) : s0.unstable.net = net := by
  unfold State.new Unstable.new at h
  cases hi : insertOutpoints {} ({} : UtxoSet) genesis ({} : UtxoSet).nextHeight with
  | none => simp [hi] at h
  | some v =>
    obtain ⟨cache, m⟩ := v
    simp only [hi, Option.some.injEq] at h
    subst h
    rfl

/-- **the target invariant holds in every reachable configuration**, for the network of the
    canister and the block `g0` at height 0 -/
theorem fullReachable_tgt {sys : Fetch.Sys} {G : List Block} (h : FullReachable sys G) :
    ∃ g0, TgtInv sys.st.network g0 sys.st.unstable G := by
  induction h with
  | init thr net genesis s0 hv hn =>
    obtain ⟨_, _, _, hnext, fr, d, htree⟩ := new_shape' hn
    have hnet : s0.network = net := new_net hn
    refine ⟨genesis, ⟨rfl, ?_, ?_, ?_, ?_⟩⟩
    · rw [htree]; rfl
    · intro b hb; cases hb
    · intro c hc
      rw [htree] at hc
      simp only [Tree.leaf, Tree.blocks, Tree.blocksList, List.mem_singleton] at hc
      subst hc
      exact Or.inl rfl
    · intro x hd hg
      rw [hnext] at hg
      simp [NextBlockHeaders.getHeader, AList.find?] at hg
  | step sys G env m hr _ ih =>
    obtain ⟨g0, ht⟩ := ih
    refine ⟨g0, ?_⟩
    have := stepMsg_tgt env sys G m (fullReachable_inv2 hr) ht
    have hn : (stepMsg env (sys, G) m).1.st.network = sys.st.network := this.netEq
    rw [hn]
    exact this

/-! ## B.4 What the validator sees -/

theorem known_target {net : Net} {g0 : Block} {s : State} {G : List Block} {chain : List Hdr}
    (ht : TgtInv net g0 s.unstable G) (hm : ∀ c ∈ chain, FromTree s c ∨ FromNext s c) {x : Hdr}
    (hk : Known G chain x) : x = hdrOfBlock g0 ∨ TargetOk net x := by
  rcases hk with hx | ⟨g, hg, rfl⟩
  · rcases hm x hx with ⟨cb, hcb, rfl⟩ | ⟨k, nh, hk, rfl⟩
    · rcases ht.tree cb hcb with e | e
      · exact Or.inl (by rw [e])
      · exact Or.inr e
    · exact Or.inr (ht.next k nh hk)
  · rcases ht.stable g hg with rfl | e
    · exact Or.inl rfl
    · exact Or.inr e

/-- a lookup by height returns a known header -/
theorem getByHeight_known {s : State} {G : List Block} (hI : Inv s G) (chain : List Hdr) (t : Nat)
    (x : Hdr) (h : (validationStore s chain).getByHeight t = some x) : Known G chain x := by
  simp only [validationStore] at h
  rw [hI.heightEq] at h
  by_cases hlt : t < G.length
  · simp only [hlt, if_true, hI.headers t hlt, hI.headersByHash (G[t]) (List.getElem_mem hlt),
      Option.map_some, Option.some.injEq] at h
    exact Or.inr ⟨G[t], List.getElem_mem hlt, h.symm⟩
  · simp only [hlt, if_false] at h
    split at h
    · exact Or.inl (List.mem_of_getElem? h)
    · cases h

/-- the header at height 0 is the header of `g0` -/
theorem getByHeight_zero {net : Net} {g0 : Block} {s : State} {G : List Block} (hI : Inv s G)
    {chain : List Hdr} (hc : ChainOk s chain) (ht : TgtInv net g0 s.unstable G) :
    (validationStore s chain).getByHeight 0 = some (hdrOfBlock g0) := by
  have hpos := hc.length_pos
  have hh := ht.head
  simp only [validationStore]
  rw [hI.heightEq]
  cases G with
  | nil =>
    simp only [List.nil_append, List.head?_cons, Option.some.injEq] at hh
    have h0 : chain[0]? = some (hdrOfBlock s.unstable.tree.root.blk) := by
      rw [← hc.head]; cases chain <;> rfl
    simp [h0, hh]
  | cons g rest =>
    simp only [List.cons_append, List.head?_cons, Option.some.injEq] at hh
    subst hh
    have h1 := hI.headers 0 (by simp)
    have h2 := hI.headersByHash g List.mem_cons_self
    simp only [List.getElem_cons_zero] at h1
    simp [h1, h2, hdrOfNext, hdrOfBlock]

/-- **The targets the retarget rule reads are `≤ max_target`** (the hypothesis `hbase` of
    `C11.nextTarget_eq_requiredBits`): in a state satisfying the ledger invariant and the target
    invariant, for a chain of headers of unstable blocks and announced headers, every known header
    `prev` and the header at any height carry a target `≤ max_target` — provided the genesis
    header does.  (No freshness assumption is needed for this part.) -/
theorem store_targets {net : Net} {g0 : Block} {s : State} {G : List Block} (hI : Inv s G)
    (ht : TgtInv net g0 s.unstable G) {chain : List Hdr} (hc : ChainOk s chain)
    (hm : ∀ c ∈ chain, FromTree s c ∨ FromNext s c)
    (hgen : ∀ g, (validationStore s chain).getByHeight 0 = some g → TargetOk net g)
    {prev : Hdr} (hk : Known G chain prev) :
    ∀ x t, (x = prev ∨ (validationStore s chain).getByHeight t = some x) → TargetOk net x := by
  have hg0 : TargetOk net (hdrOfBlock g0) := hgen _ (getByHeight_zero hI hc ht)
  intro x t hx
  have hkx : Known G chain x := by
    rcases hx with rfl | hx
    · exact hk
    · exact getByHeight_known hI chain t x hx
  rcases known_target ht hm hkx with rfl | h
  · exact hg0
  · exact h

/-- **Store coherence.**  In a state satisfying the ledger invariant and the target invariant,
    for a chain handed to the validator that is hash-linked from the anchor (`ChainOk`), consists
    of headers of unstable blocks and announced headers, and shares no hash with the stable blocks:
    every known header `prev` has a complete ancestor chain in the store (`SelfChain … true`), and
    `prev` and the header at any height carry a target `≤ max_target` — provided the genesis
    header does. -/
theorem store_coherent {net : Net} {g0 : Block} {s : State} {G : List Block} (hI : Inv s G)
    (ht : TgtInv net g0 s.unstable G) {chain : List Hdr} (hc : ChainOk s chain)
    (hm : ∀ c ∈ chain, FromTree s c ∨ FromNext s c)
    (hfresh : ∀ c ∈ chain, ∀ g ∈ G, c.hash ≠ g.hash)
    (hgen : ∀ g, (validationStore s chain).getByHeight 0 = some g → TargetOk net g)
    {prev : Hdr} (hk : Known G chain prev) :
    (∃ l, SelfChain (validationStore s chain)
      ((validationStore s chain).initialHash.getD 0) prev l true) ∧
    ∀ x t, (x = prev ∨ (validationStore s chain).getByHeight t = some x) → TargetOk net x :=
  ⟨selfChain_exists hI hc hfresh hk, store_targets hI ht hc hm hgen hk⟩

/-! ## B.5 The states in which `validate_header` is actually called

`validate_header` runs inside the two loops of `maybe_process_response`, on states *between*
message boundaries (after the pushes / insertions of the earlier iterations).  Both invariants hold
in every one of them. -/

/-- the two invariants the validator's store relies on: the ledger invariant and the target
    invariant (for the network of the state and some block `g0` at height 0) -/
def StoreInv (s : State) (G : List Block) : Prop :=
  InvAll s G ∧ ∃ g0, TgtInv s.network g0 s.unstable G

theorem storeInv_of_reachable {sys : Fetch.Sys} {G : List Block} (hr : FullReachable sys G)
    (hn : ¬ Paused sys.st) : StoreInv sys.st G :=
  ⟨(Props.FullSys.fullReachable_inv hr).1 hn, fullReachable_tgt hr⟩

theorem storeInv_mk {net : Net} {g0 : Block} {s : State} {G : List Block} (hA : InvAll s G)
    (hT : TgtInv net g0 s.unstable G) : StoreInv s G := by
  refine ⟨hA, g0, ?_⟩
  have e : s.network = net := hT.netEq
  rw [e]; exact hT

/-- the states in which `insert_block` (hence `validate_header`) is called by the block loop of
    `maybe_process_response` on the blobs `blobs`, starting in `s` -/
def blockLoopStates (env : Env) : State → List String → List State
  | _, [] => []
  | s, blob :: rest =>
    match env.dec.block blob with
    | none => []
    | some b =>
      s :: match insertBlock env s b with
        | .ok s' => blockLoopStates env s' rest
        | _ => []

/-- the states in which `validate_header` is called by the loop of `insert_next_block_headers`
    (run over every blob of the list) -/
def headerLoopStates (env : Env) : State → List String → List State
  | _, [] => []
  | s, raw :: rest =>
    match env.dec.header raw with
    | none => []
    | some h =>
      if (s.unstable.next.getHeader h.hash).isSome then headerLoopStates env s rest
      else
        s :: match validationContextWithNext s (hdrOfNext h) with
          | .error _ => []
          | .ok chain =>
            match Header.validateHeader s.network (validationStore s chain) (hdrOfNext h) env.now with
            | .ok =>
              match s.unstable.insertNextHeader h s.stableHeight with
              | none => []
              | some u => headerLoopStates env { s with unstable := u } rest
            | _ => []

/-- both invariants hold in every state in which the block loop calls `insert_block` -/
theorem blockLoop_inv {net : Net} {g0 : Block} (env : Env) (G : List Block) :
    ∀ (blobs : List String) (s : State), InvAll s G → TgtInv net g0 s.unstable G →
      TrustedBlocks env G s blobs →
      ∀ sMid ∈ blockLoopStates env s blobs, InvAll sMid G ∧ TgtInv net g0 sMid.unstable G
  | [], s, _, _, _ => by simp [blockLoopStates]
  | blob :: rest, s, hA, hT, ht => by
    intro sMid hm
    unfold blockLoopStates at hm
    cases hd : env.dec.block blob with
    | none => simp [hd] at hm
    | some b =>
      simp only [hd] at hm
      obtain ⟨ht1, ht2⟩ := ht b hd
      rcases List.mem_cons.mp hm with rfl | hm
      · exact ⟨hA, hT⟩
      · cases hi : insertBlock env s b with
        | rejected why => simp [hi] at hm
        | trap => simp [hi] at hm
        | ok s' =>
          simp only [hi] at hm
          have hb := targetOk_of_insertBlock_ok hi
          obtain ⟨u, hu, rfl⟩ := insertBlock_ok_eq hi
          have hA' : InvAll { s with unstable := u } G :=
            step_preserves_invAll (fun _ _ => 0) s G (.push b) _ G hA (ht1 (passes_of_ok hi))
              (by simp only [step, hu])
          have hb' : TargetOk net (hdrOfBlock b) := by
            have e : s.network = net := hT.netEq
            rw [← e]; exact hb
          exact blockLoop_inv env G rest _ hA' (tgtInv_push hT hu hb') (ht2 _ hi) sMid hm

/-- … and in the state the block loop ends in -/
theorem processBlocks_inv {net : Net} {g0 : Block} (env : Env) (G : List Block) :
    ∀ (blobs : List String) (s s1 : State) (stopped : Bool), InvAll s G →
      TgtInv net g0 s.unstable G → TrustedBlocks env G s blobs →
      processBlocks env s blobs = some (s1, stopped) →
      InvAll s1 G ∧ TgtInv net g0 s1.unstable G
  | [], s, s1, stopped, hA, hT, _, h => by
    simp only [processBlocks, Option.some.injEq, Prod.mk.injEq] at h
    rw [← h.1]; exact ⟨hA, hT⟩
  | blob :: rest, s, s1, stopped, hA, hT, ht, h => by
    rw [Props.C10.processBlocks_cons] at h
    cases hd : env.dec.block blob with
    | none =>
      rw [hd] at h
      simp only [Option.some.injEq, Prod.mk.injEq] at h
      rw [← h.1]
      exact ⟨invAll_frame (bump_frame_deser s) hA, hT⟩
    | some b =>
      rw [hd] at h
      simp only at h
      obtain ⟨ht1, ht2⟩ := ht b hd
      cases hi : insertBlock env s b with
      | trap => rw [hi] at h; cases h
      | rejected why =>
        rw [hi] at h
        simp only [Option.some.injEq, Prod.mk.injEq] at h
        rw [← h.1]
        exact ⟨invAll_frame (bump_frame_insert s) hA, hT⟩
      | ok s' =>
        rw [hi] at h
        simp only at h
        have hb := targetOk_of_insertBlock_ok hi
        obtain ⟨u, hu, rfl⟩ := insertBlock_ok_eq hi
        have hA' : InvAll { s with unstable := u } G :=
          step_preserves_invAll (fun _ _ => 0) s G (.push b) _ G hA (ht1 (passes_of_ok hi))
            (by simp only [step, hu])
        have hb' : TargetOk net (hdrOfBlock b) := by
          have e : s.network = net := hT.netEq
          rw [← e]; exact hb
        exact processBlocks_inv env G rest _ s1 stopped hA' (tgtInv_push hT hu hb') (ht2 _ hi) h

/-- both invariants hold in every state in which the header loop calls `validate_header` -/
theorem headerLoop_inv {net : Net} {g0 : Block} (env : Env) (G : List Block) :
    ∀ (raws : List String) (s : State), InvAll s G → TgtInv net g0 s.unstable G →
      (∀ h ∈ insertedHeadersAll env s raws, h.hash ∉ s.unstable.tree.blocks.map CBlock.hash) →
      ∀ sMid ∈ headerLoopStates env s raws, InvAll sMid G ∧ TgtInv net g0 sMid.unstable G
  | [], s, _, _, _ => by simp [headerLoopStates]
  | raw :: rest, s, hA, hT, ht => by
    intro sMid hm
    unfold headerLoopStates at hm
    unfold insertedHeadersAll at ht
    cases hd : env.dec.header raw with
    | none => simp [hd] at hm
    | some hdr =>
      simp only [hd] at hm ht
      by_cases hk : (s.unstable.next.getHeader hdr.hash).isSome = true
      · simp only [hk, if_true] at hm ht
        exact headerLoop_inv env G rest s hA hT ht sMid hm
      · simp only [hk, Bool.false_eq_true, if_false] at hm ht
        rcases List.mem_cons.mp hm with rfl | hm
        · exact ⟨hA, hT⟩
        · cases hc : validationContextWithNext s (hdrOfNext hdr) with
          | error e => simp [hc] at hm
          | ok chain =>
            simp only [hc] at hm ht
            cases hv : Header.validateHeader s.network (validationStore s chain) (hdrOfNext hdr) env.now with
            | trap => simp [hv] at hm
            | err e => simp [hv] at hm
            | ok =>
              simp only [hv] at hm ht
              cases hi : s.unstable.insertNextHeader hdr s.stableHeight with
              | none => simp [hi] at hm
              | some u =>
                simp only [hi] at hm ht
                have htree : u.tree = s.unstable.tree := insertNextHeader_tree hi
                have hA' : InvAll { s with unstable := u } G :=
                  step_preserves_invAll (fun _ _ => 0) s G (.insertNext hdr) _ G hA
                    (ht hdr List.mem_cons_self)
                    (by simp only [step, hk, Bool.false_eq_true, if_false, hi])
                obtain ⟨_, _, _, _, hmax, _⟩ := (Props.C11.accept_iff _ _ _ _).mp hv
                have hb' : TargetOk net (hdrOfNext hdr) := by
                  have e : s.network = net := hT.netEq
                  rw [← e]; exact hmax
                refine headerLoop_inv env G rest _ hA' (tgtInv_insertNext hT hi hb') ?_ sMid hm
                intro x hx
                show x.hash ∉ u.tree.blocks.map CBlock.hash
                rw [htree]
                exact ht x (List.mem_cons_of_mem _ hx)


end PartB

end Btc.Lemmas.SpecsExtraC11
