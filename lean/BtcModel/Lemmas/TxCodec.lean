import BtcModel.Model.TxCodec

/-! Helper lemmas for C19: round-trip and canonicity of every layer of the transaction codec. -/
namespace Btc.TxCodec

/-! ## AllBytes -/

theorem allBytes_nil : AllBytes [] := by simp [AllBytes]

theorem allBytes_cons {b : Nat} {bs : List Nat} : AllBytes (b :: bs) ↔ b < 256 ∧ AllBytes bs := by
  simp [AllBytes]

theorem allBytes_append {a b : List Nat} : AllBytes (a ++ b) ↔ AllBytes a ∧ AllBytes b := by
  simp only [AllBytes, List.mem_append]
  constructor
  · intro h; exact ⟨fun x hx => h x (Or.inl hx), fun x hx => h x (Or.inr hx)⟩
  · rintro ⟨h1, h2⟩ x (hx | hx)
    · exact h1 x hx
    · exact h2 x hx

/-! ## Little-endian integers -/

theorem encodeLE_length (k n : Nat) : (encodeLE k n).length = k := by
  induction k generalizing n with
  | zero => rfl
  | succ k ih => simp [encodeLE, ih]

theorem encodeLE_allBytes (k n : Nat) : AllBytes (encodeLE k n) := by
  induction k generalizing n with
  | zero => exact allBytes_nil
  | succ k ih =>
    rw [encodeLE, allBytes_cons]
    exact ⟨Nat.mod_lt _ (by decide), ih _⟩

theorem decodeLE_encodeLE (k n : Nat) : decodeLE (encodeLE k n) = n % 256 ^ k := by
  induction k generalizing n with
  | zero => simp [encodeLE, decodeLE, Nat.mod_one]
  | succ k ih =>
    rw [encodeLE, decodeLE, ih, Nat.pow_succ', Nat.mod_mul]

theorem decodeLE_lt (x : List Nat) (h : AllBytes x) : decodeLE x < 256 ^ x.length := by
  induction x with
  | nil => simp [decodeLE]
  | cons b bs ih =>
    rw [allBytes_cons] at h
    have := ih h.2
    rw [decodeLE, List.length_cons, Nat.pow_succ']
    generalize 256 ^ bs.length = p at *
    omega

theorem encodeLE_decodeLE (x : List Nat) (h : AllBytes x) : encodeLE x.length (decodeLE x) = x := by
  induction x with
  | nil => rfl
  | cons b bs ih =>
    rw [allBytes_cons] at h
    rw [List.length_cons, decodeLE, encodeLE]
    have h1 : (b + 256 * decodeLE bs) % 256 = b := by omega
    have h2 : (b + 256 * decodeLE bs) / 256 = decodeLE bs := by omega
    rw [h1, h2, ih h.2]

/-! ## Raw reads -/

theorem readBytes_append (x rest : List Nat) : readBytes x.length (x ++ rest) = some (x, rest) := by
  simp [readBytes]

theorem readBytes_some {k : Nat} {bs x r : List Nat} (h : readBytes k bs = some (x, r)) :
    bs = x ++ r ∧ x.length = k := by
  unfold readBytes at h
  split at h
  · rename_i hk
    simp only [Option.some.injEq, Prod.mk.injEq] at h
    obtain ⟨rfl, rfl⟩ := h
    exact ⟨(List.take_append_drop k bs).symm, by simp [List.length_take]; omega⟩
  · simp at h

theorem readLE_encodeLE (k n : Nat) (rest : List Nat) (h : n < 256 ^ k) :
    readLE k (encodeLE k n ++ rest) = some (n, rest) := by
  have := readBytes_append (encodeLE k n) rest
  rw [encodeLE_length] at this
  simp [readLE, this, decodeLE_encodeLE, Nat.mod_eq_of_lt h]

theorem readLE_some {k : Nat} {bs : List Nat} {n : Nat} {r : List Nat} (hb : AllBytes bs)
    (h : readLE k bs = some (n, r)) : bs = encodeLE k n ++ r ∧ n < 256 ^ k := by
  unfold readLE at h
  split at h
  · rename_i x r' hx
    simp only [Option.some.injEq, Prod.mk.injEq] at h
    obtain ⟨rfl, rfl⟩ := h
    obtain ⟨rfl, hl⟩ := readBytes_some hx
    have hbx := (allBytes_append.1 hb).1
    subst hl
    exact ⟨by rw [encodeLE_decodeLE x hbx], decodeLE_lt x hbx⟩
  · simp at h

theorem pow2 : 256 ^ 2 = 65536 := by decide
theorem pow4 : 256 ^ 4 = 4294967296 := by decide
theorem pow8 : 256 ^ 8 = 18446744073709551616 := by decide

/-! ## VarInt -/

theorem encodeVarInt_length (n : Nat) : (encodeVarInt n).length = varIntSize n := by
  unfold encodeVarInt varIntSize
  split
  · rfl
  · split
    · simp [encodeLE_length]
    · split <;> simp [encodeLE_length]

theorem encodeVarInt_allBytes (n : Nat) (h : n < 18446744073709551616) :
    AllBytes (encodeVarInt n) := by
  unfold encodeVarInt
  split
  · simp [AllBytes]; omega
  · split
    · exact allBytes_cons.2 ⟨by decide, encodeLE_allBytes _ _⟩
    · split
      · exact allBytes_cons.2 ⟨by decide, encodeLE_allBytes _ _⟩
      · exact allBytes_cons.2 ⟨by decide, encodeLE_allBytes _ _⟩

/-- Property 1a: decoding the (minimal) encoding gives the number back and consumes exactly it. -/
theorem decodeVarInt_encodeVarInt (n : Nat) (rest : List Nat) (h : n < 18446744073709551616) :
    decodeVarInt (encodeVarInt n ++ rest) = some (n, rest) := by
  unfold encodeVarInt
  split
  · rename_i h1
    show decodeVarInt (n :: rest) = _
    rw [decodeVarInt, if_neg (by omega), if_neg (by omega), if_neg (by omega)]
  · split
    · rename_i h1 h2
      show decodeVarInt (0xFD :: (encodeLE 2 n ++ rest)) = _
      rw [decodeVarInt, if_neg (by decide), if_neg (by decide), if_pos rfl,
        readLE_encodeLE 2 n rest (by rw [pow2]; omega)]
      simp only
      rw [if_neg h1]
    · split
      · rename_i h1 h2 h3
        show decodeVarInt (0xFE :: (encodeLE 4 n ++ rest)) = _
        rw [decodeVarInt, if_neg (by decide), if_pos rfl,
          readLE_encodeLE 4 n rest (by rw [pow4]; omega)]
        simp only
        rw [if_neg (by omega)]
      · rename_i h1 h2 h3
        show decodeVarInt (0xFF :: (encodeLE 8 n ++ rest)) = _
        rw [decodeVarInt, if_pos rfl, readLE_encodeLE 8 n rest (by rw [pow8]; omega)]
        simp only
        rw [if_neg (by omega)]

/-- Property 1b: the decoder only accepts the minimal encoding. -/
theorem decodeVarInt_some {bs : List Nat} {n : Nat} {r : List Nat} (hb : AllBytes bs)
    (h : decodeVarInt bs = some (n, r)) :
    bs = encodeVarInt n ++ r ∧ n < 18446744073709551616 := by
  cases bs with
  | nil => simp [decodeVarInt] at h
  | cons b bs =>
    rw [allBytes_cons] at hb
    rw [decodeVarInt] at h
    split at h
    · rename_i hb1
      split at h
      · rename_i v r' hv
        split at h
        · simp at h
        · rename_i hv2
          simp only [Option.some.injEq, Prod.mk.injEq] at h
          obtain ⟨rfl, rfl⟩ := h
          obtain ⟨rfl, hlt⟩ := readLE_some hb.2 hv
          rw [pow8] at hlt
          refine ⟨?_, hlt⟩
          unfold encodeVarInt
          rw [if_neg (by omega), if_neg (by omega), if_neg (by omega), hb1]
          rfl
      · simp at h
    · split at h
      · rename_i hb0 hb1
        split at h
        · rename_i v r' hv
          split at h
          · simp at h
          · rename_i hv2
            simp only [Option.some.injEq, Prod.mk.injEq] at h
            obtain ⟨rfl, rfl⟩ := h
            obtain ⟨rfl, hlt⟩ := readLE_some hb.2 hv
            rw [pow4] at hlt
            refine ⟨?_, by omega⟩
            unfold encodeVarInt
            rw [if_neg (by omega), if_neg (by omega), if_pos (by omega), hb1]
            rfl
        · simp at h
      · split at h
        · rename_i hb0 hb00 hb1
          split at h
          · rename_i v r' hv
            split at h
            · simp at h
            · rename_i hv2
              simp only [Option.some.injEq, Prod.mk.injEq] at h
              obtain ⟨rfl, rfl⟩ := h
              obtain ⟨rfl, hlt⟩ := readLE_some hb.2 hv
              rw [pow2] at hlt
              refine ⟨?_, by omega⟩
              unfold encodeVarInt
              rw [if_neg (by omega), if_pos (by omega), hb1]
              rfl
          · simp at h
        · rename_i h1 h2 h3
          simp only [Option.some.injEq, Prod.mk.injEq] at h
          obtain ⟨rfl, rfl⟩ := h
          refine ⟨?_, by omega⟩
          unfold encodeVarInt
          rw [if_pos (by omega)]
          rfl

/-! ## Byte vectors (`Vec<u8>`, `ScriptBuf`) -/

theorem encodeVarBytes_allBytes (x : List Nat) (h : AllBytes x)
    (hl : x.length < 18446744073709551616) : AllBytes (encodeVarBytes x) :=
  allBytes_append.2 ⟨encodeVarInt_allBytes _ hl, h⟩

theorem decodeVarBytes_encode (W : Nat) (x rest : List Nat) (h1 : x.length < W)
    (h2 : x.length < 18446744073709551616) :
    decodeVarBytes W (encodeVarBytes x ++ rest) = some (x, rest) := by
  unfold decodeVarBytes encodeVarBytes
  rw [List.append_assoc, decodeVarInt_encodeVarInt _ _ h2]
  simp only
  rw [Nat.mod_eq_of_lt h1, readBytes_append]

theorem decodeVarBytes_some {bs x r : List Nat} (hb : AllBytes bs)
    (h : decodeVarBytes usize64 bs = some (x, r)) :
    bs = encodeVarBytes x ++ r ∧ x.length < usize64 := by
  unfold decodeVarBytes at h
  split at h
  · rename_i n r' hn
    obtain ⟨rfl, hlt⟩ := decodeVarInt_some hb hn
    rw [Nat.mod_eq_of_lt (by unfold usize64; exact hlt)] at h
    obtain ⟨rfl, rfl⟩ := readBytes_some h
    exact ⟨by simp [encodeVarBytes], by unfold usize64; exact hlt⟩
  · simp at h

/-! ## Generic item sequences -/

theorem decodeN_encodeAll {α : Type} (f : List Nat → Option (α × List Nat)) (enc : α → List Nat)
    (g : α → α) (P : α → Prop)
    (hf : ∀ a rest, P a → f (enc a ++ rest) = some (g a, rest)) :
    ∀ (l : List α) (rest : List Nat), (∀ a ∈ l, P a) →
      decodeN f l.length (encodeAll enc l ++ rest) = some (l.map g, rest)
  | [], rest, _ => rfl
  | a :: l, rest, h => by
    rw [List.length_cons, encodeAll, List.append_assoc, decodeN,
      hf a _ (h a List.mem_cons_self)]
    simp only
    rw [decodeN_encodeAll f enc g P hf l rest (fun b hb => h b (List.mem_cons_of_mem _ hb))]
    rfl

theorem decodeN_some {α : Type} (f : List Nat → Option (α × List Nat)) (enc : α → List Nat)
    (P : α → Prop)
    (hf : ∀ bs a r, AllBytes bs → f bs = some (a, r) → bs = enc a ++ r ∧ P a) :
    ∀ (n : Nat) (bs : List Nat) (l : List α) (r : List Nat), AllBytes bs →
      decodeN f n bs = some (l, r) →
      bs = encodeAll enc l ++ r ∧ l.length = n ∧ ∀ a ∈ l, P a
  | 0, bs, l, r, _, h => by
    simp only [decodeN, Option.some.injEq, Prod.mk.injEq] at h
    obtain ⟨rfl, rfl⟩ := h
    simp [encodeAll]
  | n + 1, bs, l, r, hb, h => by
    rw [decodeN] at h
    split at h
    · simp at h
    · rename_i a r1 h1
      split at h
      · simp at h
      · rename_i as r2 h2
        simp only [Option.some.injEq, Prod.mk.injEq] at h
        obtain ⟨rfl, rfl⟩ := h
        obtain ⟨rfl, hPa⟩ := hf _ _ _ hb h1
        obtain ⟨rfl, hlen, hP⟩ :=
          decodeN_some f enc P hf n r1 as r2 (allBytes_append.1 hb).2 h2
        refine ⟨by simp [encodeAll], by simp [hlen], ?_⟩
        intro b hb'
        rcases List.mem_cons.1 hb' with rfl | hb'
        · exact hPa
        · exact hP b hb'

theorem decodeVec_encodeVec {α : Type} (f : List Nat → Option (α × List Nat)) (enc : α → List Nat)
    (g : α → α) (P : α → Prop)
    (hf : ∀ a rest, P a → f (enc a ++ rest) = some (g a, rest))
    (l : List α) (rest : List Nat) (hl : l.length < 18446744073709551616) (h : ∀ a ∈ l, P a) :
    decodeVec f (encodeVec enc l ++ rest) = some (l.map g, rest) := by
  unfold decodeVec encodeVec
  rw [List.append_assoc, decodeVarInt_encodeVarInt _ _ hl]
  exact decodeN_encodeAll f enc g P hf l rest h

theorem decodeVec_some {α : Type} (f : List Nat → Option (α × List Nat)) (enc : α → List Nat)
    (P : α → Prop)
    (hf : ∀ bs a r, AllBytes bs → f bs = some (a, r) → bs = enc a ++ r ∧ P a)
    {bs : List Nat} {l : List α} {r : List Nat} (hb : AllBytes bs)
    (h : decodeVec f bs = some (l, r)) :
    bs = encodeVec enc l ++ r ∧ l.length < 18446744073709551616 ∧ ∀ a ∈ l, P a := by
  unfold decodeVec at h
  split at h
  · rename_i n r1 hn
    obtain ⟨rfl, hlt⟩ := decodeVarInt_some hb hn
    obtain ⟨rfl, hlen, hP⟩ := decodeN_some f enc P hf n r1 l r (allBytes_append.1 hb).2 h
    subst hlen
    exact ⟨by simp [encodeVec], hlt, hP⟩
  · simp at h

theorem encodeAll_allBytes {α : Type} (enc : α → List Nat) (l : List α)
    (h : ∀ a ∈ l, AllBytes (enc a)) : AllBytes (encodeAll enc l) := by
  induction l with
  | nil => exact allBytes_nil
  | cons a l ih =>
    rw [encodeAll]
    exact allBytes_append.2 ⟨h a List.mem_cons_self, ih fun b hb => h b (List.mem_cons_of_mem _ hb)⟩

theorem encodeVec_allBytes {α : Type} (enc : α → List Nat) (l : List α)
    (hl : l.length < 18446744073709551616)
    (h : ∀ a ∈ l, AllBytes (enc a)) : AllBytes (encodeVec enc l) :=
  allBytes_append.2 ⟨encodeVarInt_allBytes _ hl, encodeAll_allBytes enc l h⟩

/-! ## TxIn / TxOut -/

/-- `TxIn::consensus_decode` yields `Witness::default()`. -/
def stripWitness (i : TxIn) : TxIn := { i with witness := [] }

theorem encodeTxIn_stripWitness (i : TxIn) : encodeTxIn (stripWitness i) = encodeTxIn i := rfl

theorem decodeTxIn_encode (W : Nat) (hW : W ≤ usize64) (i : TxIn) (rest : List Nat)
    (h : i.WFW W) : decodeTxIn W (encodeTxIn i ++ rest) = some (stripWitness i, rest) := by
  obtain ⟨h32, _, hvout, hsl, _, hseq, _⟩ := h
  unfold decodeTxIn encodeTxIn
  simp only [List.append_assoc]
  have h1 := readBytes_append i.prevTxid
    (encodeLE 4 i.vout ++ (encodeVarBytes i.scriptSig ++ (encodeLE 4 i.sequence ++ rest)))
  rw [h32] at h1
  rw [h1]
  simp only
  rw [readLE_encodeLE 4 _ _ (by rw [pow4]; exact hvout)]
  simp only
  rw [decodeVarBytes_encode W _ _ hsl (by unfold usize64 at hW; omega)]
  simp only
  rw [readLE_encodeLE 4 _ _ (by rw [pow4]; exact hseq)]
  rfl

theorem witnessWF_nil : WitnessWF [] := by
  simp [WitnessWF, witnessContentSize, MAX_VEC_SIZE]

theorem decodeTxIn_some {bs : List Nat} {i : TxIn} {r : List Nat} (hb : AllBytes bs)
    (h : decodeTxIn usize64 bs = some (i, r)) :
    bs = encodeTxIn i ++ r ∧ (i.WFW usize64 ∧ i.witness = []) := by
  unfold decodeTxIn at h
  split at h
  · simp at h
  · rename_i txid r1 h1
    obtain ⟨rfl, hl1⟩ := readBytes_some h1
    obtain ⟨hb1, hb⟩ := allBytes_append.1 hb
    split at h
    · simp at h
    · rename_i vout r2 h2
      obtain ⟨rfl, hl2⟩ := readLE_some hb h2
      have hb := (allBytes_append.1 hb).2
      split at h
      · simp at h
      · rename_i script r3 h3
        obtain ⟨rfl, hl3⟩ := decodeVarBytes_some hb h3
        have hb := (allBytes_append.1 hb).2
        have hb3 : AllBytes script := (allBytes_append.1 (allBytes_append.1 ‹AllBytes (encodeVarBytes script ++ r3)›).1).2
        split at h
        · simp at h
        · rename_i seq r4 h4
          obtain ⟨rfl, hl4⟩ := readLE_some hb h4
          simp only [Option.some.injEq, Prod.mk.injEq] at h
          obtain ⟨rfl, rfl⟩ := h
          rw [pow4] at hl2 hl4
          refine ⟨by simp [encodeTxIn], ⟨hl1, hb1, hl2, hl3, hb3, hl4, witnessWF_nil⟩, rfl⟩

theorem encodeTxIn_allBytes {W : Nat} (hW : W ≤ usize64) (i : TxIn) (h : i.WFW W) :
    AllBytes (encodeTxIn i) := by
  obtain ⟨_, hb1, _, hsl, hb2, _, _⟩ := h
  unfold encodeTxIn
  exact allBytes_append.2 ⟨hb1, allBytes_append.2 ⟨encodeLE_allBytes _ _, allBytes_append.2
    ⟨encodeVarBytes_allBytes _ hb2 (by unfold usize64 at hW; omega), encodeLE_allBytes _ _⟩⟩⟩

theorem decodeTxOut_encode (W : Nat) (hW : W ≤ usize64) (o : TxOut) (rest : List Nat)
    (h : o.WFW W) : decodeTxOut W (encodeTxOut o ++ rest) = some (o, rest) := by
  obtain ⟨hv, hsl, _⟩ := h
  unfold decodeTxOut encodeTxOut
  simp only [List.append_assoc]
  rw [readLE_encodeLE 8 _ _ (by rw [pow8]; exact hv)]
  simp only
  rw [decodeVarBytes_encode W _ _ hsl (by unfold usize64 at hW; omega)]

theorem decodeTxOut_some {bs : List Nat} {o : TxOut} {r : List Nat} (hb : AllBytes bs)
    (h : decodeTxOut usize64 bs = some (o, r)) :
    bs = encodeTxOut o ++ r ∧ o.WFW usize64 := by
  unfold decodeTxOut at h
  split at h
  · simp at h
  · rename_i value r1 h1
    obtain ⟨rfl, hl1⟩ := readLE_some hb h1
    have hb := (allBytes_append.1 hb).2
    split at h
    · simp at h
    · rename_i script r2 h2
      obtain ⟨rfl, hl2⟩ := decodeVarBytes_some hb h2
      have hb2 : AllBytes script := (allBytes_append.1 (allBytes_append.1 hb).1).2
      simp only [Option.some.injEq, Prod.mk.injEq] at h
      obtain ⟨rfl, rfl⟩ := h
      rw [pow8] at hl1
      exact ⟨by simp [encodeTxOut], hl1, hl2, hb2⟩

theorem encodeTxOut_allBytes {W : Nat} (hW : W ≤ usize64) (o : TxOut) (h : o.WFW W) :
    AllBytes (encodeTxOut o) := by
  obtain ⟨_, hsl, hb⟩ := h
  unfold encodeTxOut
  exact allBytes_append.2 ⟨encodeLE_allBytes _ _,
    encodeVarBytes_allBytes _ hb (by unfold usize64 at hW; omega)⟩

/-! ## Witness -/

theorem varIntSize_pos (n : Nat) : 0 < varIntSize n := by
  unfold varIntSize; split
  · omega
  · split
    · omega
    · split <;> omega

theorem decodeWitnessElems_encode (W : Nat) (hW : MAX_VEC_SIZE < W) (hW2 : W ≤ usize64) :
    ∀ (w : List (List Nat)) (acc : Nat) (rest : List Nat),
      acc + witnessContentSize w ≤ MAX_VEC_SIZE →
      decodeWitnessElems W w.length acc (encodeAll encodeVarBytes w ++ rest) = some (w, rest)
  | [], _, _, _ => rfl
  | e :: w, acc, rest, h => by
    rw [witnessContentSize] at h
    have hpos := varIntSize_pos e.length
    have he : e.length < W := by omega
    have he64 : e.length < 18446744073709551616 := by unfold usize64 at hW2; omega
    rw [List.length_cons, encodeAll, encodeVarBytes, List.append_assoc, List.append_assoc,
      decodeWitnessElems, decodeVarInt_encodeVarInt _ _ he64]
    simp only
    rw [Nat.mod_eq_of_lt he, if_neg (by omega), readBytes_append]
    simp only
    rw [decodeWitnessElems_encode W hW hW2 w _ rest (by omega)]

theorem decodeWitnessElems_some :
    ∀ (n acc : Nat) (bs : List Nat) (w : List (List Nat)) (r : List Nat), AllBytes bs →
      acc ≤ MAX_VEC_SIZE → decodeWitnessElems usize64 n acc bs = some (w, r) →
      bs = encodeAll encodeVarBytes w ++ r ∧ w.length = n ∧
        acc + witnessContentSize w ≤ MAX_VEC_SIZE ∧ ∀ e ∈ w, AllBytes e
  | 0, acc, bs, w, r, _, hacc, h => by
    simp only [decodeWitnessElems, Option.some.injEq, Prod.mk.injEq] at h
    obtain ⟨rfl, rfl⟩ := h
    simp [encodeAll, witnessContentSize, hacc]
  | n + 1, acc, bs, w, r, hb, hacc, h => by
    rw [decodeWitnessElems] at h
    split at h
    · simp at h
    · rename_i m r1 h1
      obtain ⟨rfl, hm⟩ := decodeVarInt_some hb h1
      have hb1 := (allBytes_append.1 hb).2
      rw [Nat.mod_eq_of_lt (by unfold usize64; exact hm)] at h
      split at h
      · simp at h
      · rename_i hlim
        split at h
        · simp at h
        · rename_i e r2 h2
          obtain ⟨rfl, rfl⟩ := readBytes_some h2
          obtain ⟨hbe, hb⟩ := allBytes_append.1 hb1
          split at h
          · simp at h
          · rename_i es r3 h3
            simp only [Option.some.injEq, Prod.mk.injEq] at h
            obtain ⟨rfl, rfl⟩ := h
            obtain ⟨rfl, hlen, hsz, hall⟩ :=
              decodeWitnessElems_some n _ r2 es r3 hb (by omega) h3
            refine ⟨by simp [encodeAll, encodeVarBytes], by simp [hlen], ?_, ?_⟩
            · rw [witnessContentSize]; omega
            · intro x hx
              rcases List.mem_cons.1 hx with rfl | hx
              · exact hbe
              · exact hall x hx

theorem decodeWitness_encode (W : Nat) (hW : MAX_VEC_SIZE < W) (hW2 : W ≤ usize64)
    (w : List (List Nat)) (rest : List Nat) (h : WitnessWF w) :
    decodeWitness W (encodeWitness w ++ rest) = some (w, rest) := by
  obtain ⟨hlen, hsz, _⟩ := h
  unfold decodeWitness encodeWitness encodeVec
  rw [List.append_assoc, decodeVarInt_encodeVarInt _ _ (by unfold MAX_VEC_SIZE at hlen; omega)]
  simp only
  rw [Nat.mod_eq_of_lt (by omega), if_neg (by omega)]
  exact decodeWitnessElems_encode W hW hW2 w 0 rest (by omega)

theorem decodeWitness_some {bs : List Nat} {w : List (List Nat)} {r : List Nat}
    (hb : AllBytes bs) (h : decodeWitness usize64 bs = some (w, r)) :
    bs = encodeWitness w ++ r ∧ WitnessWF w := by
  unfold decodeWitness at h
  split at h
  · simp at h
  · rename_i n r1 h1
    obtain ⟨rfl, hn⟩ := decodeVarInt_some hb h1
    rw [Nat.mod_eq_of_lt (by unfold usize64; exact hn)] at h
    split at h
    · simp at h
    · rename_i hlim
      obtain ⟨rfl, hlen, hsz, hall⟩ :=
        decodeWitnessElems_some n 0 r1 w r (allBytes_append.1 hb).2 (Nat.zero_le _) h
      subst hlen
      exact ⟨by simp [encodeWitness, encodeVec], by omega, by omega, hall⟩

theorem encodeWitness_allBytes (w : List (List Nat)) (h : WitnessWF w) :
    AllBytes (encodeWitness w) := by
  obtain ⟨hlen, hsz, hall⟩ := h
  refine encodeVec_allBytes _ _ (by unfold MAX_VEC_SIZE at hlen; omega) ?_
  intro e he
  have : e.length ≤ witnessContentSize w := by
    clear hlen hsz hall
    induction w with
    | nil => simp at he
    | cons x w ih =>
      rw [witnessContentSize]
      rcases List.mem_cons.1 he with rfl | he
      · omega
      · have := ih he; omega
  exact encodeVarBytes_allBytes e (hall e he) (by unfold MAX_VEC_SIZE at hsz; omega)

/-! ## Witnesses of all inputs -/

theorem decodeWitnesses_encode (W : Nat) (hW : MAX_VEC_SIZE < W) (hW2 : W ≤ usize64) :
    ∀ (l : List TxIn) (rest : List Nat), (∀ i ∈ l, WitnessWF i.witness) →
      decodeWitnesses W (l.map stripWitness)
        (encodeAll (fun i => encodeWitness i.witness) l ++ rest) = some (l, rest)
  | [], _, _ => rfl
  | i :: l, rest, h => by
    rw [List.map_cons, encodeAll, List.append_assoc, decodeWitnesses,
      decodeWitness_encode W hW hW2 _ _ (h i List.mem_cons_self)]
    simp only
    rw [decodeWitnesses_encode W hW hW2 l rest (fun j hj => h j (List.mem_cons_of_mem _ hj))]
    cases i; rfl

theorem decodeWitnesses_some :
    ∀ (l : List TxIn) (bs : List Nat) (l' : List TxIn) (r : List Nat), AllBytes bs →
      decodeWitnesses usize64 l bs = some (l', r) → (∀ i ∈ l, i.WFW usize64) →
      bs = encodeAll (fun i => encodeWitness i.witness) l' ++ r ∧
        encodeAll encodeTxIn l' = encodeAll encodeTxIn l ∧ l'.length = l.length ∧
        ∀ i ∈ l', i.WFW usize64
  | [], bs, l', r, _, h, _ => by
    simp only [decodeWitnesses, Option.some.injEq, Prod.mk.injEq] at h
    obtain ⟨rfl, rfl⟩ := h
    simp [encodeAll]
  | i :: l, bs, l', r, hb, h, hwf => by
    rw [decodeWitnesses] at h
    split at h
    · simp at h
    · rename_i w r1 h1
      obtain ⟨rfl, hw⟩ := decodeWitness_some hb h1
      split at h
      · simp at h
      · rename_i is' r2 h2
        simp only [Option.some.injEq, Prod.mk.injEq] at h
        obtain ⟨rfl, rfl⟩ := h
        obtain ⟨rfl, henc, hlen, hall⟩ := decodeWitnesses_some l r1 is' r2
          (allBytes_append.1 hb).2 h2 (fun j hj => hwf j (List.mem_cons_of_mem _ hj))
        refine ⟨by simp [encodeAll], ?_, by simp [hlen], ?_⟩
        · rw [encodeAll, encodeAll, henc]; rfl
        · intro j hj
          rcases List.mem_cons.1 hj with rfl | hj
          · obtain ⟨a1, a2, a3, a4, a5, a6, _⟩ := hwf i List.mem_cons_self
            exact ⟨a1, a2, a3, a4, a5, a6, hw⟩
          · exact hall j hj

/-! ## Transactions -/

theorem segwit_check (l : List TxIn) :
    (!l.isEmpty && l.all (fun i => i.witness.isEmpty)) =
      !(l.any (fun i => !i.witness.isEmpty) || l.isEmpty) := by
  cases l <;> simp [List.all_eq_not_any_not]

theorem any_witness_false (l : List TxIn) (h : ∀ i ∈ l, i.witness = []) :
    l.any (fun i => !i.witness.isEmpty) = false := by
  rw [List.any_eq_false]
  intro i hi
  simp [h i hi]

theorem map_stripWitness_eq (l : List TxIn)
    (h : l.any (fun i => !i.witness.isEmpty) = false) : l.map stripWitness = l := by
  induction l with
  | nil => rfl
  | cons i l ih =>
    simp only [List.any_cons, Bool.or_eq_false_iff] at h
    rw [List.map_cons, ih h.2]
    congr 1
    cases i with
    | mk a b c d w =>
      have : w = [] := by
        cases w with
        | nil => rfl
        | cons => simp at h
      subst this; rfl

theorem decodeVec_zero {α : Type} (f : List Nat → Option (α × List Nat)) (r : List Nat) :
    decodeVec f (0 :: r) = some ([], r) := by
  simp [decodeVec, decodeVarInt, decodeN]

theorem encodeVec_nil {α : Type} (enc : α → List Nat) : encodeVec enc [] = [0] := rfl

/-- Round trip at every admissible `usize` width. -/
theorem decodeTxW_encodeTx (W : Nat) (hW : MAX_VEC_SIZE < W) (hW2 : W ≤ usize64) (t : Tx)
    (rest : List Nat) (h : t.WFW W) : decodeTxW W (encodeTx t ++ rest) = some (t, rest) := by
  obtain ⟨hv, hlt, hil, hol, hins, houts⟩ := h
  have hwit : ∀ i ∈ t.inputs, WitnessWF i.witness := fun i hi => (hins i hi).2.2.2.2.2.2
  unfold decodeTxW encodeTx
  rw [List.append_assoc, readLE_encodeLE 4 _ _ (by rw [pow4]; exact hv)]
  simp only
  cases hs : usesSegwit t with
  | true =>
    simp only [if_true, List.cons_append, List.append_assoc]
    rw [decodeVec_zero]
    simp only [List.isEmpty_nil, if_true]
    rw [decodeVec_encodeVec (decodeTxIn W) encodeTxIn stripWitness (TxIn.WFW W)
      (fun a r ha => decodeTxIn_encode W hW2 a r ha) _ _ hil hins]
    simp only
    rw [decodeVec_encodeVec (decodeTxOut W) encodeTxOut id (TxOut.WFW W)
      (fun a r ha => decodeTxOut_encode W hW2 a r ha) _ _ hol houts]
    simp only [List.map_id]
    rw [decodeWitnesses_encode W hW hW2 _ _ hwit]
    simp only
    have hchk : (!t.inputs.isEmpty && t.inputs.all (fun i => i.witness.isEmpty)) = false := by
      rw [segwit_check]; unfold usesSegwit at hs; rw [hs]; rfl
    rw [hchk]
    simp only [Bool.false_eq_true, if_false]
    rw [readLE_encodeLE 4 _ _ (by rw [pow4]; exact hlt)]
  | false =>
    simp only [Bool.false_eq_true, if_false, List.append_assoc]
    unfold usesSegwit at hs
    rw [Bool.or_eq_false_iff] at hs
    rw [decodeVec_encodeVec (decodeTxIn W) encodeTxIn stripWitness (TxIn.WFW W)
      (fun a r ha => decodeTxIn_encode W hW2 a r ha) _ _ hil hins]
    simp only
    rw [map_stripWitness_eq _ hs.1, hs.2]
    simp only [Bool.false_eq_true, if_false]
    rw [decodeVec_encodeVec (decodeTxOut W) encodeTxOut id (TxOut.WFW W)
      (fun a r ha => decodeTxOut_encode W hW2 a r ha) _ _ hol houts]
    simp only [List.map_id]
    rw [readLE_encodeLE 4 _ _ (by rw [pow4]; exact hlt)]

/-- Canonicity on a 64-bit target: whatever the decoder accepts is the encoding of the decoded
    (well-formed) transaction followed by the unread bytes. -/
theorem decodeTx_some {bs : List Nat} {t : Tx} {r : List Nat} (hb : AllBytes bs)
    (h : decodeTx bs = some (t, r)) : bs = encodeTx t ++ r ∧ t.WF := by
  unfold decodeTx decodeTxW at h
  split at h
  · simp at h
  · rename_i version r1 h1
    obtain ⟨rfl, hver⟩ := readLE_some hb h1
    rw [pow4] at hver
    have hb1 := (allBytes_append.1 hb).2
    split at h
    · simp at h
    · rename_i ins r2 h2
      obtain ⟨rfl, hinl, hins⟩ := decodeVec_some (decodeTxIn usize64) encodeTxIn
        (fun a => a.WFW usize64 ∧ a.witness = []) (fun _ _ _ => decodeTxIn_some) hb1 h2
      have hb2 := (allBytes_append.1 hb1).2
      split at h
      · -- segwit format
        rename_i hempty
        have : ins = [] := by cases ins with | nil => rfl | cons => simp at hempty
        subst this
        split at h
        · simp at h
        · rename_i flag r3
          split at h
          · rename_i hflag
            subst hflag
            have hb3 := (allBytes_cons.1 hb2).2
            split at h
            · simp at h
            · rename_i ins' r4 h4
              obtain ⟨rfl, hinl', hins'⟩ := decodeVec_some (decodeTxIn usize64) encodeTxIn
                (fun a => a.WFW usize64 ∧ a.witness = []) (fun _ _ _ => decodeTxIn_some) hb3 h4
              have hb4 := (allBytes_append.1 hb3).2
              split at h
              · simp at h
              · rename_i outs r5 h5
                obtain ⟨rfl, houtl, houts⟩ := decodeVec_some (decodeTxOut usize64) encodeTxOut
                  (fun a => a.WFW usize64) (fun _ _ _ => decodeTxOut_some) hb4 h5
                have hb5 := (allBytes_append.1 hb4).2
                split at h
                · simp at h
                · rename_i ins'' r6 h6
                  obtain ⟨rfl, henc, hlen, hwf⟩ := decodeWitnesses_some ins' _ ins'' r6 hb5 h6
                    (fun i hi => (hins' i hi).1)
                  have hb6 := (allBytes_append.1 hb5).2
                  split at h
                  · simp at h
                  · rename_i hchk
                    split at h
                    · simp at h
                    · rename_i lt r7 h7
                      obtain ⟨rfl, hlt⟩ := readLE_some hb6 h7
                      rw [pow4] at hlt
                      simp only [Option.some.injEq, Prod.mk.injEq] at h
                      obtain ⟨rfl, rfl⟩ := h
                      rw [segwit_check] at hchk
                      have hs : usesSegwit ⟨version, ins'', outs, lt⟩ = true := by
                        show (ins''.any (fun i => !i.witness.isEmpty) || ins''.isEmpty) = true
                        cases hx : (ins''.any (fun i => !i.witness.isEmpty) || ins''.isEmpty) with
                        | true => rfl
                        | false => rw [hx] at hchk; exact absurd rfl hchk
                      refine ⟨?_, hver, hlt, by rw [hlen]; exact hinl', houtl, hwf, houts⟩
                      unfold encodeTx
                      rw [hs]
                      simp only [if_true, encodeVec, hlen, henc, List.cons_append,
                        List.append_assoc]
                      rfl
          · simp at h
      · -- legacy format
        rename_i hne
        split at h
        · simp at h
        · rename_i outs r3 h3
          obtain ⟨rfl, houtl, houts⟩ := decodeVec_some (decodeTxOut usize64) encodeTxOut
            (fun a => a.WFW usize64) (fun _ _ _ => decodeTxOut_some) hb2 h3
          have hb3 := (allBytes_append.1 hb2).2
          split at h
          · simp at h
          · rename_i lt r4 h4
            obtain ⟨rfl, hlt⟩ := readLE_some hb3 h4
            rw [pow4] at hlt
            simp only [Option.some.injEq, Prod.mk.injEq] at h
            obtain ⟨rfl, rfl⟩ := h
            have hs : usesSegwit ⟨version, ins, outs, lt⟩ = false := by
              unfold usesSegwit
              rw [any_witness_false ins (fun i hi => (hins i hi).2)]
              simpa using hne
            refine ⟨?_, hver, hlt, hinl, houtl, fun i hi => (hins i hi).1, houts⟩
            unfold encodeTx
            rw [hs]
            simp only [Bool.false_eq_true, if_false, List.append_assoc]

theorem encodeTx_allBytes {W : Nat} (hW2 : W ≤ usize64) (t : Tx) (h : t.WFW W) :
    AllBytes (encodeTx t) := by
  obtain ⟨_, _, hil, hol, hins, houts⟩ := h
  have hI := encodeVec_allBytes encodeTxIn t.inputs hil
    (fun i hi => encodeTxIn_allBytes hW2 i (hins i hi))
  have hO := encodeVec_allBytes encodeTxOut t.outputs hol
    (fun o ho => encodeTxOut_allBytes hW2 o (houts o ho))
  have hWit := encodeAll_allBytes (fun i : TxIn => encodeWitness i.witness) t.inputs
    (fun i hi => encodeWitness_allBytes _ (hins i hi).2.2.2.2.2.2)
  unfold encodeTx
  refine allBytes_append.2 ⟨encodeLE_allBytes _ _, allBytes_append.2 ⟨?_, encodeLE_allBytes _ _⟩⟩
  split
  · exact allBytes_cons.2 ⟨by decide, allBytes_cons.2 ⟨by decide,
      allBytes_append.2 ⟨hI, allBytes_append.2 ⟨hO, hWit⟩⟩⟩⟩
  · exact allBytes_append.2 ⟨hI, hO⟩

/-! ## Lengths (a payload shorter than `2^32` bytes only contains vectors shorter than `2^32`) -/

theorem encodeAll_length_ge {α : Type} (enc : α → List Nat) (l : List α) (a : α) (h : a ∈ l) :
    (enc a).length ≤ (encodeAll enc l).length := by
  induction l with
  | nil => simp at h
  | cons b l ih =>
    rw [encodeAll, List.length_append]
    rcases List.mem_cons.1 h with rfl | h
    · omega
    · have := ih h; omega

theorem encodeVec_length_ge {α : Type} (enc : α → List Nat) (l : List α) (a : α) (h : a ∈ l) :
    (enc a).length ≤ (encodeVec enc l).length := by
  have := encodeAll_length_ge enc l a h
  rw [encodeVec, List.length_append]; omega

theorem encodeTx_length_ge (t : Tx) :
    (encodeVec encodeTxIn t.inputs).length ≤ (encodeTx t).length ∧
      (encodeVec encodeTxOut t.outputs).length ≤ (encodeTx t).length := by
  unfold encodeTx
  split <;> simp only [List.length_append, List.length_cons] <;> omega

theorem wfw32_of_length (t : Tx) (h : t.WF) (hl : (encodeTx t).length < usize32) :
    t.WFW usize32 := by
  obtain ⟨hv, hlt, hil, hol, hins, houts⟩ := h
  obtain ⟨hI, hO⟩ := encodeTx_length_ge t
  refine ⟨hv, hlt, hil, hol, ?_, ?_⟩
  · intro i hi
    obtain ⟨a1, a2, a3, _, a5, a6, a7⟩ := hins i hi
    refine ⟨a1, a2, a3, ?_, a5, a6, a7⟩
    have h1 := encodeVec_length_ge encodeTxIn t.inputs i hi
    have h2 : i.scriptSig.length ≤ (encodeTxIn i).length := by
      simp only [encodeTxIn, encodeVarBytes, List.length_append]; omega
    omega
  · intro o ho
    obtain ⟨a1, _, a3⟩ := houts o ho
    refine ⟨a1, ?_, a3⟩
    have h1 := encodeVec_length_ge encodeTxOut t.outputs o ho
    have h2 : o.script.length ≤ (encodeTxOut o).length := by
      simp only [encodeTxOut, encodeVarBytes, List.length_append]; omega
    omega

end Btc.TxCodec
