import BtcModel.Spec.Invariant
import BtcModel.Lemmas.AList

/-!
  Pure facts about the reference ledger `Spec.ledger`:

  * `replay_eq` / `ledgerFrom_eq`: replaying a valid list of blocks `p` on top of a ledger `l`
    gives literally `l.filter (not spent in p) ++ (created in p).filter (not spent in p)`;
  * `ledger_eq_created`: the ledger of a valid chain is "created and never spent";
  * key distinctness, field correctness (`outAt`, height = index of the block);
  * `ledgerFor_decomp`: the per-address form used by the query proofs (C01/C05).

  Everything needs that transaction ids are not repeated along the chain (`TxidsUnique`); see the
  counterexample at the end of the file for why `TxValid` + `TxidsConsistent` alone is not enough.
-/
namespace Btc.Spec
open Btc

/-! ### basic list helpers -/

theorem mem_range_zip {α : Type} (l : List α) (i : Nat) (x : α) :
    (i, x) ∈ (List.range l.length).zip l ↔ l[i]? = some x := by
  rw [List.mem_iff_getElem?]
  constructor
  · rintro ⟨k, hk⟩
    rw [List.getElem?_zip_eq_some] at hk
    obtain ⟨h1, h2⟩ := hk
    have hk : k < l.length := by
      rcases Nat.lt_or_ge k l.length with h | h
      · exact h
      · rw [List.getElem?_eq_none (by simpa using h)] at h1; simp at h1
    rw [List.getElem?_range hk] at h1
    simp at h1; subst h1; exact h2
  · intro h
    refine ⟨i, ?_⟩
    rw [List.getElem?_zip_eq_some]
    have hi : i < l.length := by
      rcases Nat.lt_or_ge i l.length with h' | h'
      · exact h'
      · rw [List.getElem?_eq_none h'] at h; simp at h
    exact ⟨by rw [List.getElem?_range hi], h⟩

theorem filterMap_congr' {α β : Type} (f g : α → Option β) (l : List α) (h : ∀ x ∈ l, f x = g x) :
    l.filterMap f = l.filterMap g := by
  induction l with
  | nil => rfl
  | cons x xs ih =>
    simp only [List.filterMap_cons, h x List.mem_cons_self,
      ih (fun y hy => h y (List.mem_cons_of_mem _ hy))]

theorem flatMap_congr' {α β : Type} (f g : α → List β) (l : List α) (h : ∀ x ∈ l, f x = g x) :
    l.flatMap f = l.flatMap g := by
  induction l with
  | nil => rfl
  | cons x xs ih =>
    simp only [List.flatMap_cons, h x List.mem_cons_self,
      ih (fun y hy => h y (List.mem_cons_of_mem _ hy))]

/-- the first components of `(range n).zip l` are pairwise distinct -/
theorem range_zip_fst_nodup {α : Type} (l : List α) :
    (((List.range l.length).zip l).map (·.1)).Nodup := by
  have : ((List.range l.length).zip l).map (·.1) = List.range l.length := by
    rw [List.map_fst_zip]; simp
  rw [this]; exact List.nodup_range

/-! ### one transaction -/

/-- the ledger entries a transaction creates at height `h` (the `created` of `applyTx`) -/
def createdEntries (h : Nat) (tx : Tx) : LedgerMap :=
  ((List.range tx.outs.length).zip tx.outs).filterMap (fun p =>
    if p.2.opret then none else some ((⟨tx.txid, p.1⟩ : OutPoint), (p.2, h)))

theorem applyTx_eq (l : LedgerMap) (h : Nat) (tx : Tx) :
    applyTx l h tx =
      (l.filter (fun e => !(tx.ins.contains e.1))).filter
        (fun e => !((createdEntries h tx).any (fun c => c.1 == e.1))) ++ createdEntries h tx := rfl

theorem mem_createdEntries (h : Nat) (tx : Tx) (e : OutPoint × (TxOut × Nat)) :
    e ∈ createdEntries h tx ↔
      ∃ v t, tx.outs[v]? = some t ∧ t.opret = false ∧ e = (⟨tx.txid, v⟩, (t, h)) := by
  unfold createdEntries
  rw [List.mem_filterMap]
  constructor
  · rintro ⟨⟨v, t⟩, hm, he⟩
    rw [mem_range_zip] at hm
    by_cases ho : t.opret = true
    · simp [ho] at he
    · simp [ho] at he
      exact ⟨v, t, hm, by simpa using ho, he.symm⟩
  · rintro ⟨v, t, hm, ho, rfl⟩
    exact ⟨(v, t), (mem_range_zip _ _ _).mpr hm, by simp [ho]⟩

theorem createdEntries_txid (h : Nat) (tx : Tx) (e : OutPoint × (TxOut × Nat))
    (he : e ∈ createdEntries h tx) : e.1.txid = tx.txid := by
  obtain ⟨v, t, _, _, rfl⟩ := (mem_createdEntries h tx e).mp he
  rfl

theorem createdEntries_keys_nodup (h : Nat) (tx : Tx) : ((createdEntries h tx).map (·.1)).Nodup := by
  unfold createdEntries
  have hnd := range_zip_fst_nodup tx.outs
  unfold List.Nodup at *
  rw [List.pairwise_map] at hnd ⊢
  rw [List.pairwise_filterMap]
  refine hnd.imp ?_
  intro p q hpq b hb b' hb'
  by_cases h1 : p.2.opret = true <;> by_cases h2 : q.2.opret = true <;> simp [h1, h2] at hb hb'
  subst hb; subst hb'
  intro heq
  apply hpq
  simpa using heq

/-! ### flat replay -/

/-- the transactions of a list of blocks with their heights (first block at height `h0`) -/
def flat (h0 : Nat) : List Block → List (Nat × Tx)
  | [] => []
  | b :: bs => b.txs.map (fun tx => (h0, tx)) ++ flat (h0 + 1) bs

def replay (l : LedgerMap) (ts : List (Nat × Tx)) : LedgerMap :=
  ts.foldl (fun l p => applyTx l p.1 p.2) l

def insF (ts : List (Nat × Tx)) : List OutPoint := ts.flatMap (·.2.ins)

def createdF (ts : List (Nat × Tx)) : LedgerMap := ts.flatMap (fun p => createdEntries p.1 p.2)

theorem replay_append (l : LedgerMap) (xs ys : List (Nat × Tx)) :
    replay l (xs ++ ys) = replay (replay l xs) ys := by
  unfold replay; rw [List.foldl_append]

theorem applyBlock_eq_replay (l : LedgerMap) (h : Nat) (b : Block) :
    applyBlock l h b = replay l (b.txs.map (fun tx => (h, tx))) := by
  unfold applyBlock replay
  rw [List.foldl_map]

theorem ledgerFrom_eq_replay (l : LedgerMap) (h0 : Nat) (bs : List Block) :
    ledgerFrom l h0 bs = replay l (flat h0 bs) := by
  induction bs generalizing l h0 with
  | nil => rfl
  | cons b bs ih =>
    simp only [ledgerFrom, flat, replay_append, ih, applyBlock_eq_replay]

theorem flat_append (h0 : Nat) (xs ys : List Block) :
    flat h0 (xs ++ ys) = flat h0 xs ++ flat (h0 + xs.length) ys := by
  induction xs generalizing h0 with
  | nil => simp [flat]
  | cons b bs ih =>
    simp only [List.cons_append, flat, ih, List.append_assoc, List.length_cons]
    congr 3; omega

theorem ledger_append (G p : List Block) :
    ledger (G ++ p) = ledgerFrom (ledger G) G.length p := by
  unfold ledger
  simp only [ledgerFrom_eq_replay, flat_append, replay_append, Nat.zero_add]

theorem flat_txs (h0 : Nat) (bs : List Block) : (flat h0 bs).map (·.2) = txsOf bs := by
  induction bs generalizing h0 with
  | nil => rfl
  | cons b bs ih =>
    simp only [flat, List.map_append, List.map_map, ih, txsOf, List.flatMap_cons]
    congr 1
    simp [Function.comp_def]

/-- every input of every step is present in the ledger at that point -/
def FlatOK (l : LedgerMap) : List (Nat × Tx) → Prop
  | [] => True
  | p :: rest => (∀ o ∈ p.2.ins, o ∈ l.map (·.1)) ∧ FlatOK (applyTx l p.1 p.2) rest

theorem FlatOK_append (l : LedgerMap) (xs ys : List (Nat × Tx)) :
    FlatOK l (xs ++ ys) ↔ FlatOK l xs ∧ FlatOK (replay l xs) ys := by
  induction xs generalizing l with
  | nil => simp [FlatOK, replay]
  | cons p ps ih =>
    simp only [List.cons_append, FlatOK, ih, replay, List.foldl_cons, and_assoc]

theorem FlatOK_of_TxsValid (l : LedgerMap) (h : Nat) (txs : List Tx)
    (hv : TxValidFrom.TxsValid l h txs) : FlatOK l (txs.map (fun tx => (h, tx))) := by
  induction txs generalizing l with
  | nil => trivial
  | cons tx txs ih =>
    obtain ⟨h1, _, h3⟩ := hv
    refine ⟨?_, ih _ h3⟩
    intro o ho
    exact (AList.find?_isSome_iff_mem_keys l o).mp (h1 o ho)

theorem FlatOK_of_TxValidFrom (l : LedgerMap) (h0 : Nat) (bs : List Block)
    (hv : TxValidFrom l h0 bs) : FlatOK l (flat h0 bs) := by
  induction bs generalizing l h0 with
  | nil => trivial
  | cons b bs ih =>
    obtain ⟨_, _, h3, h4⟩ := hv
    simp only [flat]
    rw [FlatOK_append]
    refine ⟨FlatOK_of_TxsValid l h0 b.txs h3, ?_⟩
    rw [← applyBlock_eq_replay]
    exact ih _ _ h4

/-- `TxValid` is prefix closed -/
theorem TxValidFrom_prefix (l : LedgerMap) (h0 : Nat) (xs ys : List Block)
    (hv : TxValidFrom l h0 (xs ++ ys)) : TxValidFrom l h0 xs := by
  induction xs generalizing l h0 with
  | nil => trivial
  | cons b bs ih =>
    obtain ⟨h1, h2, h3, h4⟩ := hv
    exact ⟨h1, h2, h3, ih _ _ h4⟩

theorem TxValid_prefix (xs ys : List Block) (hv : TxValid (xs ++ ys)) : TxValid xs :=
  TxValidFrom_prefix _ _ xs ys hv

theorem TxValidFrom_blockWF (l : LedgerMap) (h0 : Nat) (bs : List Block)
    (hv : TxValidFrom l h0 bs) : ∀ b ∈ bs, BlockWF b := by
  induction bs generalizing l h0 with
  | nil => simp
  | cons b bs ih =>
    obtain ⟨h1, _, _, h4⟩ := hv
    intro x hx
    rcases List.mem_cons.mp hx with rfl | hx
    · exact h1
    · exact ih _ _ h4 x hx

/-! ### the replay theorem -/

theorem mem_applyTx (l : LedgerMap) (h : Nat) (tx : Tx) (e : OutPoint × (TxOut × Nat))
    (he : e ∈ applyTx l h tx) : e ∈ l ∨ e ∈ createdEntries h tx := by
  rw [applyTx_eq, List.mem_append] at he
  rcases he with he | he
  · exact Or.inl (List.mem_filter.mp (List.mem_filter.mp he).1).1
  · exact Or.inr he

theorem mem_createdF (ts : List (Nat × Tx)) (e : OutPoint × (TxOut × Nat)) :
    e ∈ createdF ts ↔ ∃ p ∈ ts, e ∈ createdEntries p.1 p.2 := by
  unfold createdF; rw [List.mem_flatMap]

theorem createdF_txid (ts : List (Nat × Tx)) (e : OutPoint × (TxOut × Nat)) (he : e ∈ createdF ts) :
    e.1.txid ∈ ts.map (·.2.txid) := by
  obtain ⟨p, hp, hc⟩ := (mem_createdF ts e).mp he
  rw [createdEntries_txid _ _ _ hc]
  exact List.mem_map.mpr ⟨p, hp, rfl⟩

/-- "not an input of `ts`" as a filter predicate on ledger entries -/
def unspentIn (ts : List (Nat × Tx)) (e : OutPoint × (TxOut × Nat)) : Bool := !((insF ts).contains e.1)

theorem unspentIn_cons (p : Nat × Tx) (rest : List (Nat × Tx)) (e : OutPoint × (TxOut × Nat)) :
    unspentIn (p :: rest) e = (!(p.2.ins.contains e.1) && unspentIn rest e) := by
  simp only [unspentIn, insF, List.flatMap_cons, List.contains_eq_mem, List.mem_append]
  by_cases h1 : e.1 ∈ p.2.ins <;> simp [h1]

/-- **Replay theorem.** If every input exists when it is spent, the transaction ids of `ts` are
    pairwise distinct and fresh w.r.t. the starting ledger, then replaying `ts` on `l` yields
    exactly the entries of `l` not spent by `ts`, followed by the entries created by `ts` and not
    spent by `ts`, in creation order. -/
theorem replay_eq (ts : List (Nat × Tx)) : ∀ (l : LedgerMap), FlatOK l ts →
    (ts.map (·.2.txid)).Nodup → (∀ e ∈ l, e.1.txid ∉ ts.map (·.2.txid)) →
    replay l ts = l.filter (unspentIn ts) ++ (createdF ts).filter (unspentIn ts) := by
  induction ts with
  | nil =>
    intro l _ _ _
    have : l.filter (unspentIn []) = l := by
      rw [List.filter_eq_self]; intro e _; simp [unspentIn, insF]
    simp [replay, createdF, this]
  | cons p rest ih =>
    intro l hok hnd hfresh
    obtain ⟨hins, hok'⟩ := hok
    simp only [List.map_cons, List.nodup_cons] at hnd
    obtain ⟨hp, hnd'⟩ := hnd
    -- freshness facts
    have hl_ne : ∀ e ∈ l, e.1.txid ≠ p.2.txid := fun e he heq =>
      hfresh e he (by simp [heq])
    have hl_rest : ∀ e ∈ l, e.1.txid ∉ rest.map (·.2.txid) := fun e he hm =>
      hfresh e he (by simp only [List.map_cons]; exact List.mem_cons_of_mem _ hm)
    have hins_ne : ∀ o ∈ p.2.ins, o.txid ≠ p.2.txid ∧ o.txid ∉ rest.map (·.2.txid) := by
      intro o ho
      obtain ⟨e, he, rfl⟩ := List.mem_map.mp (hins o ho)
      exact ⟨hl_ne e he, hl_rest e he⟩
    -- the replayed ledger after the first step
    have hfresh1 : ∀ e ∈ applyTx l p.1 p.2, e.1.txid ∉ rest.map (·.2.txid) := by
      intro e he
      rcases mem_applyTx _ _ _ _ he with h | h
      · exact hl_rest e h
      · rw [createdEntries_txid _ _ _ h]; exact hp
    have step : replay l (p :: rest) = replay (applyTx l p.1 p.2) rest := rfl
    rw [step, ih _ hok' hnd' hfresh1, applyTx_eq]
    -- F1: the overwrite filter does nothing on `l`
    have F1 : (l.filter (fun e => !(p.2.ins.contains e.1))).filter
        (fun e => !((createdEntries p.1 p.2).any (fun c => c.1 == e.1))) =
        l.filter (fun e => !(p.2.ins.contains e.1)) := by
      rw [List.filter_eq_self]
      intro e he
      have hel := (List.mem_filter.mp he).1
      simp only [Bool.not_eq_true', List.any_eq_false, beq_iff_eq]
      intro c hc heq
      exact hl_ne e hel (by rw [← heq]; exact createdEntries_txid _ _ _ hc)
    rw [F1, List.filter_append, List.filter_filter]
    simp only [createdF, List.flatMap_cons, List.filter_append, List.append_assoc]
    congr 1
    · apply List.filter_congr
      intro e _
      rw [unspentIn_cons, Bool.and_comm]
    · congr 1
      · apply List.filter_congr
        intro e he
        rw [unspentIn_cons]
        have : p.2.ins.contains e.1 = false := by
          rw [List.contains_eq_mem, decide_eq_false_iff_not]
          intro hm
          exact (hins_ne _ hm).1 (createdEntries_txid _ _ _ he)
        rw [this]; simp
      · apply List.filter_congr
        intro e he
        rw [unspentIn_cons]
        have : p.2.ins.contains e.1 = false := by
          rw [List.contains_eq_mem, decide_eq_false_iff_not]
          intro hm
          exact (hins_ne _ hm).2 (createdF_txid rest e he)
        rw [this]; simp

/-! ### chains of blocks -/

/-- **Extra hypothesis, not implied by `TxValid`/`TxidsConsistent`**: no transaction id occurs twice
    along the chain. (`TxValid` only forbids re-creating an output that is still *unspent* — BIP30 —
    so a coinbase whose outputs were all spent could be repeated; see the counterexample below.) -/
def TxidsUnique (chain : List Block) : Prop := ((txsOf chain).map (·.txid)).Nodup

/-- all inputs of a list of blocks -/
def insB (bs : List Block) : List OutPoint := (txsOf bs).flatMap (·.ins)

theorem insF_flat (h0 : Nat) (bs : List Block) : insF (flat h0 bs) = insB bs := by
  unfold insF insB
  rw [← flat_txs h0 bs, List.flatMap_map]

theorem flat_txids (h0 : Nat) (bs : List Block) :
    (flat h0 bs).map (·.2.txid) = (txsOf bs).map (·.txid) := by
  rw [← flat_txs h0 bs, List.map_map]; rfl

theorem txsOf_append (xs ys : List Block) : txsOf (xs ++ ys) = txsOf xs ++ txsOf ys := by
  simp [txsOf]

theorem TxValidFrom_append (l : LedgerMap) (h0 : Nat) (xs ys : List Block) :
    TxValidFrom l h0 (xs ++ ys) ↔
      TxValidFrom l h0 xs ∧ TxValidFrom (ledgerFrom l h0 xs) (h0 + xs.length) ys := by
  induction xs generalizing l h0 with
  | nil => simp [TxValidFrom, ledgerFrom]
  | cons b bs ih =>
    simp only [List.cons_append, TxValidFrom, ledgerFrom, ih, List.length_cons, and_assoc]
    have : h0 + 1 + bs.length = h0 + (bs.length + 1) := by omega
    rw [this]

theorem mem_flat (h0 : Nat) (bs : List Block) (h : Nat) (tx : Tx) :
    (h, tx) ∈ flat h0 bs ↔ ∃ i b, bs[i]? = some b ∧ tx ∈ b.txs ∧ h = h0 + i := by
  induction bs generalizing h0 with
  | nil => simp [flat]
  | cons b bs ih =>
    simp only [flat, List.mem_append, List.mem_map, Prod.mk.injEq, ih]
    constructor
    · rintro (⟨tx', hm, rfl, rfl⟩ | ⟨i, b', hb, hm, rfl⟩)
      · exact ⟨0, b, by simp, hm, by simp⟩
      · exact ⟨i + 1, b', by simpa using hb, hm, by omega⟩
    · rintro ⟨i, b', hb, hm, rfl⟩
      cases i with
      | zero =>
        simp at hb; subst hb
        exact Or.inl ⟨tx, hm, by simp, rfl⟩
      | succ i =>
        exact Or.inr ⟨i, b', by simpa using hb, hm, by omega⟩

theorem mem_txsOf (bs : List Block) (tx : Tx) : tx ∈ txsOf bs ↔ ∃ b ∈ bs, tx ∈ b.txs := by
  unfold txsOf; rw [List.mem_flatMap]

/-- keys created by a list of steps with pairwise distinct transaction ids are pairwise distinct -/
theorem createdF_keys_nodup (ts : List (Nat × Tx)) (hnd : (ts.map (·.2.txid)).Nodup) :
    ((createdF ts).map (·.1)).Nodup := by
  unfold createdF
  unfold List.Nodup at *
  rw [List.pairwise_map] at hnd ⊢
  rw [List.pairwise_flatMap]
  refine ⟨?_, ?_⟩
  · intro p _
    have := createdEntries_keys_nodup p.1 p.2
    unfold List.Nodup at this
    rwa [List.pairwise_map] at this
  · refine hnd.imp ?_
    intro p q hpq x hx y hy heq
    apply hpq
    rw [← createdEntries_txid _ _ _ hx, ← createdEntries_txid _ _ _ hy, heq]

/-- Replay of blocks: the block-level form of `replay_eq`. -/
theorem ledgerFrom_eq (l : LedgerMap) (h0 : Nat) (p : List Block) (hv : TxValidFrom l h0 p)
    (hu : ((txsOf p).map (·.txid)).Nodup) (hfresh : ∀ e ∈ l, e.1.txid ∉ (txsOf p).map (·.txid)) :
    ledgerFrom l h0 p = l.filter (unspentIn (flat h0 p)) ++
      (createdF (flat h0 p)).filter (unspentIn (flat h0 p)) := by
  rw [ledgerFrom_eq_replay]
  apply replay_eq _ _ (FlatOK_of_TxValidFrom l h0 p hv)
  · rw [flat_txids]; exact hu
  · rw [flat_txids]; exact hfresh

/-- **The ledger is "created and never spent"**, in creation order. -/
theorem ledger_eq_created (chain : List Block) (hv : TxValid chain) (hu : TxidsUnique chain) :
    ledger chain = (createdF (flat 0 chain)).filter (unspentIn (flat 0 chain)) := by
  have := ledgerFrom_eq [] 0 chain hv hu (by simp)
  simpa [ledger] using this

theorem ledger_keys_nodup (chain : List Block) (hv : TxValid chain) (hu : TxidsUnique chain) :
    ((ledger chain).map (·.1)).Nodup := by
  rw [ledger_eq_created chain hv hu]
  have h := createdF_keys_nodup (flat 0 chain) (by rw [flat_txids]; exact hu)
  exact h.sublist ((List.filter_sublist).map _)

/-- Field correctness: a ledger entry is an output of a transaction of the chain, recorded with the
    index of its block, not `OP_RETURN`, and no transaction of the chain spends it; conversely every
    such output is in the ledger. -/
theorem mem_ledger_iff (chain : List Block) (hv : TxValid chain) (hu : TxidsUnique chain)
    (e : OutPoint × (TxOut × Nat)) :
    e ∈ ledger chain ↔
      ∃ i b tx v t, chain[i]? = some b ∧ tx ∈ b.txs ∧ tx.outs[v]? = some t ∧ t.opret = false ∧
        e = (⟨tx.txid, v⟩, (t, i)) ∧ (⟨tx.txid, v⟩ : OutPoint) ∉ insB chain := by
  rw [ledger_eq_created chain hv hu, List.mem_filter, mem_createdF]
  simp only [unspentIn, insF_flat, List.contains_eq_mem, Bool.not_eq_true', decide_eq_false_iff_not]
  constructor
  · rintro ⟨⟨⟨h, tx⟩, hm, hc⟩, hns⟩
    obtain ⟨i, b, hb, htx, rfl⟩ := (mem_flat 0 chain h tx).mp hm
    obtain ⟨v, t, hvt, ho, rfl⟩ := (mem_createdEntries _ _ _).mp hc
    exact ⟨i, b, tx, v, t, hb, htx, hvt, ho, by simp, hns⟩
  · rintro ⟨i, b, tx, v, t, hb, htx, hvt, ho, rfl, hns⟩
    refine ⟨⟨(i, tx), (mem_flat 0 chain i tx).mpr ⟨i, b, hb, htx, by simp⟩, ?_⟩, hns⟩
    exact (mem_createdEntries _ _ _).mpr ⟨v, t, hvt, ho, rfl⟩

/-! ### resolving outpoints in a history -/

/-- with consistent transaction ids, an outpoint of a transaction of the history resolves to that
    transaction's output -/
theorem outAt_of_mem (hist : List Block) (hc : TxidsConsistent hist) (tx : Tx) (htx : tx ∈ txsOf hist)
    (v : Nat) : outAt hist ⟨tx.txid, v⟩ = tx.outs[v]? := by
  unfold outAt
  cases hf : (txsOf hist).find? (fun t => t.txid == (⟨tx.txid, v⟩ : OutPoint).txid) with
  | none =>
    rw [List.find?_eq_none] at hf
    have := hf tx htx
    simp at this
  | some tx' =>
    have hm := List.mem_of_find?_eq_some hf
    have hp := List.find?_some hf
    simp only [beq_iff_eq] at hp
    rw [hc tx' hm tx htx hp]

theorem mem_ledger_outAt (chain hist : List Block) (hv : TxValid chain) (hu : TxidsUnique chain)
    (hsub : ∀ b ∈ chain, b ∈ hist) (hc : TxidsConsistent hist)
    (e : OutPoint × (TxOut × Nat)) (he : e ∈ ledger chain) :
    outAt hist e.1 = some e.2.1 ∧ e.2.2 < chain.length := by
  obtain ⟨i, b, tx, v, t, hb, htx, hvt, _, rfl, _⟩ := (mem_ledger_iff chain hv hu e).mp he
  have hbm : b ∈ chain := List.mem_of_getElem? hb
  have : tx ∈ txsOf hist := (mem_txsOf _ _).mpr ⟨b, hsub b hbm, htx⟩
  refine ⟨by rw [outAt_of_mem hist hc tx this v]; exact hvt, ?_⟩
  have := (List.getElem?_eq_some_iff.mp hb).1
  exact this

/-! ### the per-address view -/

def toUtxo? (a : Addr) (e : OutPoint × (TxOut × Nat)) : Option Utxo :=
  if e.2.1.addr == some a then some ⟨e.2.2, e.1, e.2.1.value⟩ else none

theorem ledgerFor_eq (a : Addr) (chain : List Block) :
    ledgerFor a chain = (ledger chain).filterMap (toUtxo? a) := rfl

theorem toUtxo?_some (a : Addr) (e : OutPoint × (TxOut × Nat)) (u : Utxo) (h : toUtxo? a e = some u) :
    e.2.1.addr = some a ∧ u = ⟨e.2.2, e.1, e.2.1.value⟩ := by
  unfold toUtxo? at h
  by_cases ha : e.2.1.addr = some a
  · simp [ha] at h; exact ⟨ha, h.symm⟩
  · simp [ha] at h

theorem filterMap_filter_comm {α β : Type} (f : α → Option β) (p : α → Bool) (q : β → Bool)
    (l : List α) (h : ∀ e ∈ l, ∀ u, f e = some u → p e = q u) :
    (l.filter p).filterMap f = (l.filterMap f).filter q := by
  induction l with
  | nil => rfl
  | cons x xs ih =>
    have ih' := ih (fun e he => h e (List.mem_cons_of_mem _ he))
    cases hf : f x with
    | none =>
      by_cases hp : p x = true
      · simp [hp, hf, ih']
      · simp [hp, hf, ih']
    | some u =>
      have := h x List.mem_cons_self u hf
      by_cases hp : p x = true
      · have hq : q u = true := by rw [← this]; exact hp
        simp [hp, hf, ih', hq]
      · have hq : ¬ q u = true := by rw [← this]; exact hp
        simp [hp, hf, ih', hq]

/-- the UTXOs that block `b`, at height `h`, adds for address `a` (transaction order) -/
def addedUtxos (a : Addr) (h : Nat) (b : Block) : List Utxo :=
  b.txs.flatMap (fun tx => (createdBy tx).filterMap (fun p =>
    if p.2.addr == some a then some ⟨h, p.1, p.2.value⟩ else none))

/-- `A`: the UTXOs added for `a` by the blocks `p`, the first of which has height `h` -/
def addedAll (a : Addr) : Nat → List Block → List Utxo
  | _, [] => []
  | h, b :: bs => addedUtxos a h b ++ addedAll a (h + 1) bs

/-- `R`: the inputs of the blocks `p` that spend an output paying `a` -/
def removedAll (hist : List Block) (a : Addr) (p : List Block) : List OutPoint :=
  p.flatMap (fun b => removedSpec hist b a)

theorem addedUtxos_outpoints (a : Addr) (h : Nat) (b : Block) :
    (addedUtxos a h b).map (·.outpoint) = addedSpec b a := by
  unfold addedUtxos addedSpec
  rw [List.map_flatMap]
  congr 1
  funext tx
  rw [List.map_filterMap]
  congr 1
  funext p
  by_cases hp : p.2.addr = some a <;> simp [hp]

theorem createdEntries_filterMap (a : Addr) (h : Nat) (tx : Tx)
    (hop : ∀ t ∈ tx.outs, t.opret = true → t.addr = none) :
    (createdEntries h tx).filterMap (toUtxo? a) =
      (createdBy tx).filterMap (fun p => if p.2.addr == some a then some ⟨h, p.1, p.2.value⟩ else none) := by
  unfold createdEntries createdBy
  rw [List.filterMap_filterMap, List.filterMap_map]
  apply filterMap_congr'
  intro p hp
  have hmem : p.2 ∈ tx.outs := (List.of_mem_zip hp).2
  by_cases ho : p.2.opret = true
  · have := hop p.2 hmem ho
    simp [ho, this]
  · simp [ho, toUtxo?]

theorem createdF_filterMap (a : Addr) (h0 : Nat) (bs : List Block)
    (hwf : ∀ b ∈ bs, BlockWF b) :
    (createdF (flat h0 bs)).filterMap (toUtxo? a) = addedAll a h0 bs := by
  induction bs generalizing h0 with
  | nil => rfl
  | cons b bs ih =>
    have ih' := ih (h0 + 1) (fun x hx => hwf x (List.mem_cons_of_mem _ hx))
    have hb := hwf b List.mem_cons_self
    simp only [flat, addedAll]
    unfold createdF at *
    rw [List.flatMap_append, List.filterMap_append, ih']
    congr 1
    unfold addedUtxos
    rw [List.flatMap_map, List.filterMap_flatMap]
    apply flatMap_congr'
    intro tx htx
    exact createdEntries_filterMap a h0 tx (hb.opretNoAddr tx htx)

/-- `o` pays address `a` according to the history -/
def paysTo (hist : List Block) (a : Addr) (o : OutPoint) : Prop :=
  (outAt hist o).bind (·.addr) = some a

theorem mem_removedAll (hist : List Block) (a : Addr) (p : List Block) (o : OutPoint) :
    o ∈ removedAll hist a p ↔ o ∈ insB p ∧ paysTo hist a o := by
  unfold removedAll removedSpec insB txsOf paysTo
  simp only [List.mem_flatMap, List.mem_filter, beq_iff_eq]
  constructor
  · rintro ⟨b, hb, tx, htx, ho, hp⟩
    exact ⟨⟨tx, ⟨b, hb, htx⟩, ho⟩, hp⟩
  · rintro ⟨⟨tx, ⟨b, hb, htx⟩, ho⟩, hp⟩
    exact ⟨b, hb, tx, htx, ho, hp⟩

/-- on UTXOs that pay `a`, "not spent by `p`" and "not in `R`" are the same filter -/
theorem filter_unspent_eq (hist : List Block) (a : Addr) (p : List Block) (l : List Utxo)
    (hl : ∀ u ∈ l, paysTo hist a u.outpoint) :
    l.filter (fun u => !((insB p).contains u.outpoint)) =
      l.filter (fun u => !((removedAll hist a p).contains u.outpoint)) := by
  apply List.filter_congr
  intro u hu
  have := mem_removedAll hist a p u.outpoint
  have hp := hl u hu
  by_cases h1 : u.outpoint ∈ insB p
  · have h2 : u.outpoint ∈ removedAll hist a p := this.mpr ⟨h1, hp⟩
    simp [h1, h2]
  · have h2 : u.outpoint ∉ removedAll hist a p := fun h => h1 (this.mp h).1
    simp [h1, h2]

theorem mem_addedAll (a : Addr) (h0 : Nat) (bs : List Block) (u : Utxo) :
    u ∈ addedAll a h0 bs ↔ ∃ i b tx v t, bs[i]? = some b ∧ tx ∈ b.txs ∧ tx.outs[v]? = some t ∧
      t.addr = some a ∧ u = ⟨h0 + i, ⟨tx.txid, v⟩, t.value⟩ := by
  induction bs generalizing h0 with
  | nil => simp [addedAll]
  | cons b bs ih =>
    simp only [addedAll, List.mem_append, ih]
    constructor
    · rintro (hm | ⟨i, b', tx, v, t, hb, htx, hvt, ha, rfl⟩)
      · unfold addedUtxos createdBy at hm
        simp only [List.mem_flatMap, List.mem_filterMap, List.mem_map] at hm
        obtain ⟨tx, htx, q, ⟨⟨v, t⟩, hz, rfl⟩, hq⟩ := hm
        rw [mem_range_zip] at hz
        by_cases ha : t.addr = some a
        · simp [ha] at hq
          exact ⟨0, b, tx, v, t, by simp, htx, hz, ha, by simp [← hq]⟩
        · simp [ha] at hq
      · exact ⟨i + 1, b', tx, v, t, by simpa using hb, htx, hvt, ha, by simp; omega⟩
    · rintro ⟨i, b', tx, v, t, hb, htx, hvt, ha, rfl⟩
      cases i with
      | zero =>
        simp at hb; subst hb
        left
        unfold addedUtxos createdBy
        simp only [List.mem_flatMap, List.mem_filterMap, List.mem_map]
        exact ⟨tx, htx, (⟨tx.txid, v⟩, t), ⟨(v, t), (mem_range_zip _ _ _).mpr hvt, rfl⟩, by simp [ha]⟩
      | succ i =>
        right
        exact ⟨i, b', tx, v, t, by simpa using hb, htx, hvt, ha, by simp; omega⟩

theorem mem_ledgerFor_iff (a : Addr) (chain : List Block) (hv : TxValid chain) (hu : TxidsUnique chain)
    (u : Utxo) :
    u ∈ ledgerFor a chain ↔
      ∃ i b tx v t, chain[i]? = some b ∧ tx ∈ b.txs ∧ tx.outs[v]? = some t ∧ t.addr = some a ∧
        t.opret = false ∧ u = ⟨i, ⟨tx.txid, v⟩, t.value⟩ ∧ (⟨tx.txid, v⟩ : OutPoint) ∉ insB chain := by
  rw [ledgerFor_eq, List.mem_filterMap]
  constructor
  · rintro ⟨e, he, hu'⟩
    obtain ⟨i, b, tx, v, t, hb, htx, hvt, ho, rfl, hns⟩ := (mem_ledger_iff chain hv hu e).mp he
    obtain ⟨ha, rfl⟩ := toUtxo?_some a _ u hu'
    exact ⟨i, b, tx, v, t, hb, htx, hvt, ha, ho, rfl, hns⟩
  · rintro ⟨i, b, tx, v, t, hb, htx, hvt, ha, ho, rfl, hns⟩
    refine ⟨(⟨tx.txid, v⟩, (t, i)), (mem_ledger_iff chain hv hu _).mpr
      ⟨i, b, tx, v, t, hb, htx, hvt, ho, rfl, hns⟩, by simp [toUtxo?, ha]⟩

theorem TxidsUnique_left (G p : List Block) (hu : TxidsUnique (G ++ p)) : TxidsUnique G := by
  unfold TxidsUnique at *
  rw [txsOf_append, List.map_append, List.nodup_append] at hu
  exact hu.1

theorem TxidsUnique_right (G p : List Block) (hu : TxidsUnique (G ++ p)) : TxidsUnique p := by
  unfold TxidsUnique at *
  rw [txsOf_append, List.map_append, List.nodup_append] at hu
  exact hu.2.1

theorem TxidsUnique_prefix (G xs ys : List Block) (hu : TxidsUnique (G ++ (xs ++ ys))) :
    TxidsUnique (G ++ xs) := by
  rw [← List.append_assoc] at hu
  exact TxidsUnique_left _ _ hu

theorem ledgerFor_paysTo (a : Addr) (chain hist : List Block) (hv : TxValid chain)
    (hu : TxidsUnique chain) (hsub : ∀ b ∈ chain, b ∈ hist) (hc : TxidsConsistent hist) :
    ∀ u ∈ ledgerFor a chain, paysTo hist a u.outpoint := by
  intro u hm
  obtain ⟨i, b, tx, v, t, hb, htx, hvt, ha, _, rfl, _⟩ := (mem_ledgerFor_iff a chain hv hu u).mp hm
  have : tx ∈ txsOf hist := (mem_txsOf _ _).mpr ⟨b, hsub b (List.mem_of_getElem? hb), htx⟩
  unfold paysTo
  rw [outAt_of_mem hist hc tx this v, hvt]
  exact ha

theorem addedAll_paysTo (a : Addr) (h0 : Nat) (p hist : List Block)
    (hsub : ∀ b ∈ p, b ∈ hist) (hc : TxidsConsistent hist) :
    ∀ u ∈ addedAll a h0 p, paysTo hist a u.outpoint := by
  intro u hm
  obtain ⟨i, b, tx, v, t, hb, htx, hvt, ha, rfl⟩ := (mem_addedAll a h0 p u).mp hm
  have : tx ∈ txsOf hist := (mem_txsOf _ _).mpr ⟨b, hsub b (List.mem_of_getElem? hb), htx⟩
  unfold paysTo
  rw [outAt_of_mem hist hc tx this v, hvt]
  exact ha

/-- **Ledger decomposition** (item 1): the ledger state of address `a` after `G ++ p` is the state
    after `G` minus what `p` spends, followed by what `p` adds minus what `p` spends — as an
    equality of lists (creation order), with `A = addedAll a G.length p` and
    `R = removedAll hist a p`. -/
theorem ledgerFor_decomp (a : Addr) (G p hist : List Block) (hv : TxValid (G ++ p))
    (hu : TxidsUnique (G ++ p)) (hsub : ∀ b ∈ G ++ p, b ∈ hist) (hc : TxidsConsistent hist) :
    ledgerFor a (G ++ p) =
      (ledgerFor a G).filter (fun u => !((removedAll hist a p).contains u.outpoint)) ++
      (addedAll a G.length p).filter (fun u => !((removedAll hist a p).contains u.outpoint)) := by
  have hvG : TxValid G := TxValid_prefix G p hv
  have huG := TxidsUnique_left G p hu
  have hup := TxidsUnique_right G p hu
  have hvp : TxValidFrom (ledger G) G.length p := by
    have := ((TxValidFrom_append [] 0 G p).mp hv).2
    simpa [ledger] using this
  have hfresh : ∀ e ∈ ledger G, e.1.txid ∉ (txsOf p).map (·.txid) := by
    intro e he hm
    obtain ⟨i, b, tx, v, t, hb, htx, _, _, rfl, _⟩ := (mem_ledger_iff G hvG huG e).mp he
    have h1 : tx.txid ∈ (txsOf G).map (·.txid) :=
      List.mem_map.mpr ⟨tx, (mem_txsOf _ _).mpr ⟨b, List.mem_of_getElem? hb, htx⟩, rfl⟩
    unfold TxidsUnique at hu
    rw [txsOf_append, List.map_append, List.nodup_append] at hu
    exact hu.2.2 _ h1 _ hm rfl
  have hwf : ∀ b ∈ p, BlockWF b := TxValidFrom_blockWF _ _ _ hvp
  rw [ledgerFor_eq, ledger_append, ledgerFrom_eq _ _ _ hvp hup hfresh, List.filterMap_append,
    filterMap_filter_comm (toUtxo? a) (unspentIn (flat G.length p))
      (fun u => !((insB p).contains u.outpoint)),
    filterMap_filter_comm (toUtxo? a) (unspentIn (flat G.length p))
      (fun u => !((insB p).contains u.outpoint)),
    createdF_filterMap a G.length p hwf, ← ledgerFor_eq]
  · rw [filter_unspent_eq hist a p _ (ledgerFor_paysTo a G hist hvG huG
        (fun b hb => hsub b (List.mem_append_left _ hb)) hc),
      filter_unspent_eq hist a p _ (addedAll_paysTo a G.length p hist
        (fun b hb => hsub b (List.mem_append_right _ hb)) hc)]
  · intro e _ u hu'
    obtain ⟨_, rfl⟩ := toUtxo?_some a e u hu'
    simp [unspentIn, insF_flat]
  · intro e _ u hu'
    obtain ⟨_, rfl⟩ := toUtxo?_some a e u hu'
    simp [unspentIn, insF_flat]

theorem ledgerFor_outpoints_nodup (a : Addr) (chain : List Block) (hv : TxValid chain)
    (hu : TxidsUnique chain) : ((ledgerFor a chain).map (·.outpoint)).Nodup := by
  have h := ledger_keys_nodup chain hv hu
  rw [ledgerFor_eq]
  unfold List.Nodup at *
  rw [List.pairwise_map] at h ⊢
  rw [List.pairwise_filterMap]
  refine h.imp ?_
  intro e e' hne u hu' u' hu''
  obtain ⟨_, rfl⟩ := toUtxo?_some a e u hu'
  obtain ⟨_, rfl⟩ := toUtxo?_some a e' u' hu''
  exact hne

/-- every entry of `ledgerFor a chain` carries the true value and address of its output and the
    index of its block as height -/
theorem ledgerFor_fields (a : Addr) (chain hist : List Block) (hv : TxValid chain)
    (hu : TxidsUnique chain) (hsub : ∀ b ∈ chain, b ∈ hist) (hc : TxidsConsistent hist)
    (u : Utxo) (hm : u ∈ ledgerFor a chain) :
    ∃ t b, outAt hist u.outpoint = some t ∧ t.value = u.value ∧ t.addr = some a ∧
      chain[u.height]? = some b ∧ ∃ tx ∈ b.txs, tx.txid = u.outpoint.txid := by
  obtain ⟨i, b, tx, v, t, hb, htx, hvt, ha, _, rfl, _⟩ := (mem_ledgerFor_iff a chain hv hu u).mp hm
  have : tx ∈ txsOf hist := (mem_txsOf _ _).mpr ⟨b, hsub b (List.mem_of_getElem? hb), htx⟩
  exact ⟨t, b, by rw [outAt_of_mem hist hc tx this v]; exact hvt, rfl, ha, hb, tx, htx, rfl⟩

/-! ### no output is spent twice -/

/-- every input of a valid replay is either in the starting ledger or created during the replay -/
theorem ins_mem_of_FlatOK (ts : List (Nat × Tx)) : ∀ (l : LedgerMap), FlatOK l ts →
    ∀ o ∈ insF ts, o ∈ l.map (·.1) ∨ o ∈ (createdF ts).map (·.1) := by
  induction ts with
  | nil => intro l _ o ho; simp [insF] at ho
  | cons p rest ih =>
    intro l hok o ho
    obtain ⟨hins, hok'⟩ := hok
    simp only [insF, List.flatMap_cons, List.mem_append] at ho
    rcases ho with ho | ho
    · exact Or.inl (hins o ho)
    · rcases ih _ hok' o ho with h | h
      · obtain ⟨e, he, rfl⟩ := List.mem_map.mp h
        rcases mem_applyTx _ _ _ _ he with h' | h'
        · exact Or.inl (List.mem_map.mpr ⟨e, h', rfl⟩)
        · right
          simp only [createdF, List.flatMap_cons, List.map_append, List.mem_append]
          exact Or.inl (List.mem_map.mpr ⟨e, h', rfl⟩)
      · right
        simp only [createdF, List.flatMap_cons, List.map_append, List.mem_append]
        exact Or.inr h

theorem insF_nodup (ts : List (Nat × Tx)) : ∀ (l : LedgerMap), FlatOK l ts →
    (ts.map (·.2.txid)).Nodup → (∀ e ∈ l, e.1.txid ∉ ts.map (·.2.txid)) →
    (∀ p ∈ ts, p.2.ins.Nodup) → (insF ts).Nodup := by
  induction ts with
  | nil => intro _ _ _ _ _; simp [insF]
  | cons p rest ih =>
    intro l hok hnd hfresh hinsnd
    have hok0 := hok
    obtain ⟨hins, hok'⟩ := hok
    simp only [List.map_cons, List.nodup_cons] at hnd
    obtain ⟨hp, hnd'⟩ := hnd
    have hl_ne : ∀ e ∈ l, e.1.txid ≠ p.2.txid := fun e he heq =>
      hfresh e he (by simp [heq])
    have hl_rest : ∀ e ∈ l, e.1.txid ∉ rest.map (·.2.txid) := fun e he hm =>
      hfresh e he (by simp only [List.map_cons]; exact List.mem_cons_of_mem _ hm)
    have hfresh1 : ∀ e ∈ applyTx l p.1 p.2, e.1.txid ∉ rest.map (·.2.txid) := by
      intro e he
      rcases mem_applyTx _ _ _ _ he with h | h
      · exact hl_rest e h
      · rw [createdEntries_txid _ _ _ h]; exact hp
    have ihr := ih _ hok' hnd' hfresh1 (fun q hq => hinsnd q (List.mem_cons_of_mem _ hq))
    simp only [insF, List.flatMap_cons]
    rw [List.nodup_append]
    refine ⟨hinsnd p List.mem_cons_self, ihr, ?_⟩
    intro o ho o' ho' heq
    subst heq
    obtain ⟨e0, he0, rfl⟩ := List.mem_map.mp (hins o ho)
    rcases ins_mem_of_FlatOK rest _ hok' _ ho' with h | h
    · obtain ⟨e, he, heq⟩ := List.mem_map.mp h
      rw [applyTx_eq, List.mem_append] at he
      rcases he with he | he
      · have := (List.mem_filter.mp (List.mem_filter.mp he).1).2
        rw [heq] at this
        simp [ho] at this
      · have := createdEntries_txid _ _ _ he
        rw [heq] at this
        exact hl_ne e0 he0 this
    · obtain ⟨e, he, heq⟩ := List.mem_map.mp h
      have := createdF_txid rest e he
      rw [heq] at this
      exact hl_rest e0 he0 this

theorem TxsValid_ins_nodup (l : LedgerMap) (h : Nat) (txs : List Tx)
    (hv : TxValidFrom.TxsValid l h txs) : ∀ tx ∈ txs, tx.ins.Nodup := by
  induction txs generalizing l with
  | nil => simp
  | cons tx txs ih =>
    obtain ⟨_, h2, h3⟩ := hv
    intro x hx
    rcases List.mem_cons.mp hx with rfl | hx
    · exact h2
    · exact ih _ h3 x hx

theorem TxValidFrom_ins_nodup (l : LedgerMap) (h0 : Nat) (bs : List Block)
    (hv : TxValidFrom l h0 bs) : ∀ tx ∈ txsOf bs, tx.ins.Nodup := by
  induction bs generalizing l h0 with
  | nil => simp [txsOf]
  | cons b bs ih =>
    obtain ⟨_, _, h3, h4⟩ := hv
    intro tx htx
    simp only [txsOf, List.flatMap_cons, List.mem_append] at htx
    rcases htx with htx | htx
    · exact TxsValid_ins_nodup _ _ _ h3 tx htx
    · exact ih _ _ h4 tx htx

/-- **No output is spent twice** along a valid chain with unique transaction ids. -/
theorem insB_nodup (chain : List Block) (hv : TxValid chain) (hu : TxidsUnique chain) :
    (insB chain).Nodup := by
  rw [← insF_flat 0 chain]
  apply insF_nodup _ [] (FlatOK_of_TxValidFrom _ _ _ hv)
  · rw [flat_txids]; exact hu
  · simp
  · intro p hp
    apply TxValidFrom_ins_nodup _ _ _ hv
    rw [← flat_txs 0 chain]
    exact List.mem_map.mpr ⟨p, hp, rfl⟩

theorem insB_append (xs ys : List Block) : insB (xs ++ ys) = insB xs ++ insB ys := by
  simp [insB, txsOf_append]

theorem removedSpec_sublist (hist : List Block) (b : Block) (a : Addr) :
    (removedSpec hist b a).Sublist (insB [b]) := by
  unfold removedSpec insB txsOf
  simp only [List.flatMap_cons, List.flatMap_nil, List.append_nil]
  generalize b.txs = txs
  induction txs with
  | nil => simp
  | cons tx txs ih =>
    simp only [List.flatMap_cons]
    exact List.Sublist.append List.filter_sublist ih

/-! ### decidability (for concrete examples) -/

instance (b : Block) : Decidable (BlockWF b) :=
  if h : (∀ tx ∈ b.txs, ∀ t ∈ tx.outs, t.opret = true → t.addr = none) ∧
      (∀ tx ∈ b.txs, tx.coinbase = true → tx.ins = []) ∧ (b.txs.map (·.txid)).Nodup then
    isTrue ⟨h.1, h.2.1, h.2.2⟩
  else isFalse (fun w => h ⟨w.opretNoAddr, w.coinbaseNoIns, w.txidsNodup⟩)

instance decTxsValid : ∀ (l : LedgerMap) (h : Nat) (txs : List Tx), Decidable (TxValidFrom.TxsValid l h txs)
  | _, _, [] => isTrue trivial
  | l, h, tx :: txs =>
    have := decTxsValid (applyTx l h tx) h txs
    inferInstanceAs (Decidable ((∀ o ∈ tx.ins, (AList.find? l o).isSome) ∧ tx.ins.Nodup ∧
      TxValidFrom.TxsValid (applyTx l h tx) h txs))

instance decTxValidFrom : ∀ (l : LedgerMap) (h : Nat) (bs : List Block), Decidable (TxValidFrom l h bs)
  | _, _, [] => isTrue trivial
  | l, h, b :: bs =>
    have := decTxValidFrom (applyBlock l h b) (h + 1) bs
    inferInstanceAs (Decidable (BlockWF b ∧ (∀ tx ∈ b.txs, ∀ e ∈ l, e.1.txid ≠ tx.txid) ∧
      TxValidFrom.TxsValid l h b.txs ∧ TxValidFrom (applyBlock l h b) (h + 1) bs))

instance (chain : List Block) : Decidable (TxValid chain) := decTxValidFrom _ _ _
instance (chain : List Block) : Decidable (TxidsConsistent chain) :=
  inferInstanceAs (Decidable (∀ t1 ∈ txsOf chain, ∀ t2 ∈ txsOf chain, t1.txid = t2.txid → t1 = t2))
instance (chain : List Block) : Decidable (TxidsUnique chain) :=
  inferInstanceAs (Decidable ((txsOf chain).map (·.txid)).Nodup)

/-! ### Non-vacuity: a concrete 2-block chain -/

def mkB (hash prev : Nat) (txs : List Tx) : Block := ⟨hash, prev, 1, 0, 0, "", txs, true⟩
def exG : Block := mkB 100 0 [⟨1, 0, true, 100, [], [⟨50, some [1], false⟩]⟩]
def exB1 : Block := mkB 101 100
  [⟨2, 0, true, 100, [], [⟨50, some [2], false⟩, ⟨0, none, true⟩]⟩,
   ⟨3, 0, false, 100, [⟨1, 0⟩], [⟨20, some [1], false⟩, ⟨30, some [2], false⟩]⟩]

example : TxValid [exG, exB1] := by decide
example : TxidsUnique [exG, exB1] := by decide
example : TxidsConsistent [exG, exB1] := by decide
example : ledgerFor [1] [exG, exB1] = [⟨1, ⟨3, 0⟩, 20⟩] := by decide
example : ledgerFor [2] [exG, exB1] = [⟨1, ⟨2, 0⟩, 50⟩, ⟨1, ⟨3, 1⟩, 30⟩] := by decide
example : addedAll [1] 1 [exB1] = [⟨1, ⟨3, 0⟩, 20⟩] := by decide
example : removedAll [exG, exB1] [1] [exB1] = [⟨1, 0⟩] := by decide

/-! ### Why `TxidsUnique` is needed

  A coinbase (txid 2) paying address `[1]` appears in block 1, is spent in block 2 and appears
  again (the identical transaction) in block 3. The chain is `TxValid` (the BIP30 check only
  looks at *unspent* outputs) and `TxidsConsistent`, the ledger holds the output at height 3, but
  "added minus removed" loses it: both copies are filtered by the removed outpoint. The
  canister code has the same behaviour; on the real network BIP34 makes coinbase ids unique. -/

def cxT : Tx := ⟨2, 0, true, 100, [], [⟨50, some [1], false⟩]⟩
def cxG : Block := mkB 100 0 [⟨1, 0, true, 100, [], [⟨50, some [9], false⟩]⟩]
def cxB1 : Block := mkB 101 100 [cxT]
def cxB2 : Block := mkB 102 101
  [⟨3, 0, true, 100, [], [⟨50, some [9], false⟩]⟩, ⟨4, 0, false, 100, [⟨2, 0⟩], [⟨50, some [7], false⟩]⟩]
def cxB3 : Block := mkB 103 102 [cxT]
def cxChain : List Block := [cxG, cxB1, cxB2, cxB3]

example : TxValid cxChain ∧ TxidsConsistent cxChain ∧ ¬ TxidsUnique cxChain := by decide
example : ledgerFor [1] cxChain = [⟨3, ⟨2, 0⟩, 50⟩] := by decide
example : (ledgerFor [1] [cxG]).filter (fun u => !((removedAll cxChain [1] [cxB1, cxB2, cxB3]).contains u.outpoint)) ++
    (addedAll [1] 1 [cxB1, cxB2, cxB3]).filter
      (fun u => !((removedAll cxChain [1] [cxB1, cxB2, cxB3]).contains u.outpoint)) = [] := by decide

end Btc.Spec
