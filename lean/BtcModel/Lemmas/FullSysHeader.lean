import BtcModel.Lemmas.FullSysStep
import BtcModel.Props.C11

/-!
  The header validation library never traps on the canister's own header store.

  `Header.validateHeader` traps (Rust: `expect("Last adjustment header must exist")`,
  `expect("previous header should be in the header store")`) only if a header it needs is missing
  from the store (`C11.trap_iff`).  The store the canister hands to the library
  (`State.validationStore`: the chain of unstable blocks / announced headers to the parent, then the
  stable header store) is complete in every state satisfying the invariant:

  * every height up to the height of the parent holds a header (`getByHeight_isSome`);
  * the headers the difficulty walk-back can reach — those of the chain and of the stable chain
    `G` — are closed under "parent", down to the initial header (`known_closed`).
-/
namespace Btc.Lemmas.FullSys
open Btc Btc.State Btc.Spec Btc.Spec.Full Btc.Header

/-! ### Hash-linked lists of headers -/

/-- consecutive headers are hash-linked -/
def LinkedH : List Hdr → Prop
  | [] => True
  | [_] => True
  | x :: y :: rest => y.prev = x.hash ∧ LinkedH (y :: rest)

theorem linkedH_prev : ∀ (l : List Hdr), LinkedH l → ∀ cur ∈ l,
    l.head? = some cur ∨ ∃ c' ∈ l, c'.hash = cur.prev
  | [], _, cur, hc => by cases hc
  | [_], _, cur, hc => by
    rcases List.mem_singleton.mp hc with rfl
    exact Or.inl rfl
  | x :: y :: rest, hl, cur, hc => by
    rcases List.mem_cons.mp hc with rfl | hc'
    · exact Or.inl rfl
    · rcases linkedH_prev (y :: rest) hl.2 cur hc' with h | ⟨c', hm, he⟩
      · simp only [List.head?_cons, Option.some.injEq] at h
        subst h
        exact Or.inr ⟨x, List.mem_cons_self, hl.1.symm⟩
      · exact Or.inr ⟨c', List.mem_cons_of_mem _ hm, he⟩

theorem linkedH_append : ∀ (l1 l2 : List Hdr), LinkedH l1 → LinkedH l2 →
    (∀ x y, l1.getLast? = some x → l2.head? = some y → y.prev = x.hash) → LinkedH (l1 ++ l2)
  | [], l2, _, h2, _ => by simpa using h2
  | [_], [], _, _, _ => trivial
  | [x], y :: _, _, h2, hj => ⟨hj x y rfl rfl, h2⟩
  | x :: z :: zs, l2, h1, h2, hj => by
    refine ⟨h1.1, linkedH_append (z :: zs) l2 h1.2 h2 ?_⟩
    intro a b ha hb
    exact hj a b (by simpa using ha) hb

theorem linkedH_of_linkedChain : ∀ (l : List Block), LinkedChain l → LinkedH (l.map hdrOfBlock)
  | [], _ => trivial
  | [_], _ => trivial
  | _ :: y :: rest, h => ⟨h.1, linkedH_of_linkedChain (y :: rest) h.2⟩

/-! ### The store -/

/-- what is required of the chain handed to `validationStore`: hash-linked, beginning at the anchor -/
structure ChainOk (s : State) (chain : List Hdr) : Prop where
  linked : LinkedH chain
  head : chain.head? = some (hdrOfBlock s.unstable.tree.root.blk)

theorem ChainOk.length_pos {s : State} {chain : List Hdr} (h : ChainOk s chain) : 0 < chain.length := by
  cases chain with
  | nil => have := h.head; simp at this
  | cons x xs => simp

/-- the headers the library can reach: those of the chain and those of the stable chain -/
def Known (G : List Block) (chain : List Hdr) (x : Hdr) : Prop :=
  x ∈ chain ∨ ∃ g ∈ G, x = hdrOfBlock g

theorem getByHash_eq (s : State) (chain : List Hdr) (x : Nat) :
    (validationStore s chain).getByHash x =
      match chain.find? (fun c => c.hash == x) with
      | some c => some c
      | none => (AList.find? s.headers.byHash x).map hdrOfNext := rfl

/-- a lookup that hits the chain -/
theorem getByHash_of_mem (s : State) {chain : List Hdr} {c : Hdr} (hc : c ∈ chain) :
    ∃ c' ∈ chain, (validationStore s chain).getByHash c.hash = some c' := by
  rw [getByHash_eq]
  cases hf : chain.find? (fun x => x.hash == c.hash) with
  | some c' => exact ⟨c', List.mem_of_find?_eq_some hf, rfl⟩
  | none =>
    have := List.find?_eq_none.mp hf c hc
    simp at this

/-- a lookup of the hash of a stable block -/
theorem getByHash_stable {s : State} {G : List Block} (hI : Inv s G) (chain : List Hdr) {g : Block}
    (hg : g ∈ G) : ∃ p, (validationStore s chain).getByHash g.hash = some p ∧ Known G chain p := by
  rw [getByHash_eq]
  cases hf : chain.find? (fun x => x.hash == g.hash) with
  | some c' => exact ⟨c', rfl, Or.inl (List.mem_of_find?_eq_some hf)⟩
  | none =>
    simp only [hI.headersByHash g hg, Option.map_some]
    exact ⟨_, rfl, Or.inr ⟨g, hg, rfl⟩⟩

/-- every height up to the height of the store holds a header -/
theorem getByHeight_isSome {s : State} {G : List Block} (hI : Inv s G) {chain : List Hdr}
    (hc : ChainOk s chain) (t : Nat) (ht : t ≤ (validationStore s chain).height) :
    ((validationStore s chain).getByHeight t).isSome = true := by
  have hpos := hc.length_pos
  simp only [validationStore] at ht ⊢
  rw [hI.heightEq] at ht ⊢
  by_cases hlt : t < G.length
  · simp only [hlt, if_true, hI.headers t hlt, hI.headersByHash (G[t]) (List.getElem_mem hlt)]
    rfl
  · simp only [hlt, if_false, ht, if_true]
    have : t - G.length < chain.length := by omega
    rw [List.getElem?_eq_getElem this]
    rfl

/-- the hash of the initial header (height 0) -/
theorem initialHash_eq {s : State} {G : List Block} (hI : Inv s G) {chain : List Hdr}
    (hc : ChainOk s chain) :
    (validationStore s chain).initialHash =
      some (match G with
        | [] => s.unstable.tree.root.blk.hash
        | g :: _ => g.hash) := by
  have hpos := hc.length_pos
  unfold Store.initialHash
  simp only [validationStore]
  rw [hI.heightEq]
  cases G with
  | nil =>
    have h0 : chain[0]? = some (hdrOfBlock s.unstable.tree.root.blk) := by
      rw [← hc.head]; cases chain <;> rfl
    simp [h0, hdrOfBlock]
  | cons g rest =>
    have h1 := hI.headers 0 (by simp)
    have h2 := hI.headersByHash g List.mem_cons_self
    simp only [List.getElem_cons_zero] at h1
    simp [h1, h2, hdrOfNext]

/-- **the known headers are closed under "parent", down to the initial header** -/
theorem known_closed {s : State} {G : List Block} (hI : Inv s G) {chain : List Hdr}
    (hc : ChainOk s chain) {cur : Hdr} (hk : Known G chain cur)
    (hne : cur.hash ≠ ((validationStore s chain).initialHash).getD 0) :
    ∃ p, (validationStore s chain).getByHash cur.prev = some p ∧ Known G chain p := by
  rw [initialHash_eq hI hc] at hne
  simp only [Option.getD_some] at hne
  rcases hk with hm | ⟨g, hg, rfl⟩
  · rcases linkedH_prev chain hc.linked cur hm with hh | ⟨c', hc', he⟩
    · -- `cur` is the anchor: its parent is the last stable block
      rw [hc.head] at hh
      simp only [Option.some.injEq] at hh
      subst hh
      have hr := hI.rootLinked
      cases hl : G.getLast? with
      | none =>
        have : G = [] := List.getLast?_eq_none_iff.mp hl
        subst this
        exact absurd rfl hne
      | some g =>
        rw [hl] at hr
        simp only at hr
        have hg : g ∈ G := List.mem_of_getLast? hl
        obtain ⟨p, hp, hkp⟩ := getByHash_stable hI chain hg
        refine ⟨p, ?_, hkp⟩
        rw [show (hdrOfBlock s.unstable.tree.root.blk).prev = g.hash from hr]
        exact hp
    · obtain ⟨c2, hc2, hlook⟩ := getByHash_of_mem s hc'
      rw [he] at hlook
      exact ⟨c2, hlook, Or.inl hc2⟩
  · -- a stable block: its parent is the stable block below it
    obtain ⟨i, hi, rfl⟩ := List.mem_iff_getElem.mp hg
    cases i with
    | zero =>
      cases G with
      | nil => simp at hi
      | cons g0 rest => exact absurd rfl hne
    | succ j =>
      have hl := hI.stableLinked j hi
      have hg' : G[j] ∈ G := List.getElem_mem _
      obtain ⟨p, hp, hkp⟩ := getByHash_stable hI chain hg'
      refine ⟨p, ?_, hkp⟩
      rw [show (hdrOfBlock G[j + 1]).prev = G[j].hash from hl]
      exact hp

/-! ### The library never traps -/

/-- the difficulty walk-back never misses a header -/
theorem findNextDifficulty_ne_none {s : State} {G : List Block} (hI : Inv s G) {chain : List Hdr}
    (hc : ChainOk s chain) (net : Tree.Net) : ∀ (fuel : Nat) (cur : Hdr) (ht : Nat),
    Known G chain cur →
    findNextDifficulty net (validationStore s chain)
      (((validationStore s chain).initialHash).getD 0) fuel cur ht ≠ none
  | 0, _, _, _ => by simp [findNextDifficulty]
  | fuel + 1, cur, ht, hk => by
    unfold findNextDifficulty
    split
    · simp
    · split
      · simp
      · rename_i hne
        obtain ⟨p, hp, hkp⟩ := known_closed hI hc hk hne
        rw [hp]
        exact findNextDifficulty_ne_none hI hc net fuel p (ht - 1) hkp

theorem computeNextDifficulty_ne_none {s : State} {G : List Block} (hI : Inv s G) {chain : List Hdr}
    (hc : ChainOk s chain) (net : Tree.Net) (prev : Hdr) :
    computeNextDifficulty net (validationStore s chain) prev (validationStore s chain).height ≠ none := by
  unfold computeNextDifficulty
  simp only
  split
  · simp
  · rename_i hb
    have hb' : ((validationStore s chain).height + 1) % difficultyAdjustmentInterval = 0 := by
      simp only [Bool.or_eq_true, ne_eq, decide_eq_true_eq, not_or] at hb
      exact Decidable.of_not_not hb.1
    have hle : (validationStore s chain).height + 1 - difficultyAdjustmentInterval ≤
        (validationStore s chain).height := by
      unfold difficultyAdjustmentInterval at hb' ⊢
      omega
    have := getByHeight_isSome hI hc _ hle
    cases hg : (validationStore s chain).getByHeight
        ((validationStore s chain).height + 1 - difficultyAdjustmentInterval) with
    | none => rw [hg] at this; cases this
    | some x => simp

/-- **the required target is always defined** on the canister's own store -/
theorem nextTarget_ne_none {s : State} {G : List Block} (hI : Inv s G) {chain : List Hdr}
    (hc : ChainOk s chain) (net : Tree.Net) (prev : Hdr) (hk : Known G chain prev) (time : Nat) :
    nextTarget net (validationStore s chain) prev (validationStore s chain).height time ≠ none := by
  have h1 := computeNextDifficulty_ne_none hI hc net prev
  have h2 := findNextDifficulty_ne_none hI hc net ((validationStore s chain).height + 2) prev
    (validationStore s chain).height hk
  unfold nextTarget
  cases net with
  | mainnet => simpa using h1
  | testnet =>
    simp only
    split
    · split
      · simp
      · simpa using h2
    · simpa using h1
  | regtest =>
    simp only
    split
    · split
      · simp
      · simpa using h2
    · simpa using h1

/-- **`validate_header` never traps** on a store built from a linked chain that contains the
    parent of the header -/
theorem validateHeader_no_trap {s : State} {G : List Block} (hI : Inv s G) {chain : List Hdr}
    (hc : ChainOk s chain) (h : Hdr) (hlast : ∃ c ∈ chain, c.hash = h.prev) (net : Tree.Net) (now : Nat) :
    validateHeader net (validationStore s chain) h now ≠ .trap := by
  intro ht
  obtain ⟨prev, hp, _, _, _, _, hn⟩ := (Props.C11.trap_iff net _ h now).mp ht
  obtain ⟨c, hcm, hce⟩ := hlast
  obtain ⟨c', hc', hlook⟩ := getByHash_of_mem s hcm
  rw [hce, hp] at hlook
  cases hlook
  exact nextTarget_ne_none hI hc net prev (Or.inl hc') h.time hn

/-! ### The chains the canister builds -/

/-- `ValidationContext::new`: the chain to the parent is linked, begins at the anchor and ends at
    the parent -/
theorem chainOk_validationContext {s : State} {G : List Block} (hI : Inv s G) {hd : Hdr}
    {chain : List Hdr} (h : validationContext s hd = .ok chain) :
    ChainOk s chain ∧ ∃ x, chain.getLast? = some x ∧ x.hash = hd.prev := by
  unfold validationContext at h
  cases hc : Tree.chainWithTip CBlock.hash hd.prev s.unstable.tree with
  | none => rw [hc] at h; cases h
  | some x =>
    obtain ⟨p, succ⟩ := x
    rw [hc] at h
    simp only at h
    split at h
    · cases h
    · cases h
      obtain ⟨hl, hh⟩ := chainWithTip_linked hd.prev s.unstable.tree p succ hI.linked hc
      obtain ⟨_, x, hx, hxe⟩ := chainWithTip_spec CBlock.hash hd.prev s.unstable.tree p succ hc
      refine ⟨⟨?_, ?_⟩, hdrOfBlock x.blk, ?_, hxe⟩
      · have := linkedH_of_linkedChain _ hl
        rwa [List.map_map] at this
      · rw [List.head?_map, hh]; rfl
      · rw [List.getLast?_map, hx]; rfl

theorem getLast?_mem_hash {chain : List Hdr} {x : Hdr} {t : Nat} (h : chain.getLast? = some x)
    (he : x.hash = t) : ∃ c ∈ chain, c.hash = t := ⟨x, List.mem_of_getLast? h, he⟩

/-- the announced headers collected by `get_next_block_headers_chain_with_tip` are hash-linked
    and end at the header with hash `tip` -/
theorem nextHeadersChain_spec (s : State) (hN : NextOk s.unstable.next) :
    ∀ (fuel tip : Nat) (a : NextHeader) (acc : List NextHeader),
      LinkedH ((a :: acc).map hdrOfNext) → a.prev = tip →
      ∃ pre, nextHeadersChain s fuel tip (a :: acc) = pre ++ a :: acc ∧
        LinkedH ((pre ++ a :: acc).map hdrOfNext)
  | 0, tip, a, acc, hl, _ => ⟨[], rfl, hl⟩
  | fuel + 1, tip, a, acc, hl, ht => by
    unfold nextHeadersChain
    cases hg : s.unstable.next.getHeader tip with
    | none => exact ⟨[], rfl, hl⟩
    | some h =>
      simp only
      have hh : h.hash = tip := by
        unfold NextBlockHeaders.getHeader at hg
        cases hf : AList.find? s.unstable.next.byHash tip with
        | none => rw [hf] at hg; cases hg
        | some x =>
          rw [hf] at hg
          simp only [Option.map_some, Option.some.injEq] at hg
          rw [← hg]
          exact hN.keyIsHash tip x hf
      have hl' : LinkedH ((h :: a :: acc).map hdrOfNext) := ⟨by
        show a.prev = h.hash
        rw [hh, ht], hl⟩
      obtain ⟨pre, he, hlk⟩ := nextHeadersChain_spec s hN fuel h.prev h (a :: acc) hl' rfl
      exact ⟨pre ++ [h], by rw [he]; simp, by simpa using hlk⟩

/-- `ValidationContext::new_with_next_block_headers` -/
theorem chainOk_validationContextWithNext {s : State} {G : List Block} (hI : Inv s G)
    (hN : NextOk s.unstable.next) {hd : Hdr} {chain : List Hdr}
    (h : validationContextWithNext s hd = .ok chain) :
    ChainOk s chain ∧ ∃ c ∈ chain, c.hash = hd.prev := by
  unfold validationContextWithNext at h
  cases hfuel : s.unstable.next.byHash.length + 1 with
  | zero => omega
  | succ fuel =>
    rw [hfuel] at h
    unfold nextHeadersChain at h
    cases hg : s.unstable.next.getHeader hd.prev with
    | none =>
      rw [hg] at h
      simp only at h
      obtain ⟨h1, x, hx, he⟩ := chainOk_validationContext hI h
      exact ⟨h1, getLast?_mem_hash hx he⟩
    | some a =>
      rw [hg] at h
      simp only at h
      have ha : a.hash = hd.prev := by
        unfold NextBlockHeaders.getHeader at hg
        cases hf : AList.find? s.unstable.next.byHash hd.prev with
        | none => rw [hf] at hg; cases hg
        | some x =>
          rw [hf] at hg
          simp only [Option.map_some, Option.some.injEq] at hg
          rw [← hg]
          exact hN.keyIsHash _ x hf
      obtain ⟨pre, he, hlk⟩ := nextHeadersChain_spec s hN fuel a.prev a [] trivial rfl
      rw [he] at h
      cases hl : pre ++ [a] with
      | nil => simp at hl
      | cons first rest =>
        rw [hl] at h hlk
        simp only at h
        cases hv : validationContext s (hdrOfNext first) with
        | error e => rw [hv] at h; cases h
        | ok tchain =>
          rw [hv] at h
          simp only [Except.ok.injEq] at h
          subst h
          obtain ⟨h1, x, hx, hxe⟩ := chainOk_validationContext hI hv
          refine ⟨⟨?_, ?_⟩, hdrOfNext a, ?_, ha⟩
          · apply linkedH_append _ _ h1.linked hlk
            intro u v hu hv'
            rw [hx] at hu
            simp only [Option.some.injEq] at hu
            subst hu
            simp only [List.map_cons, List.head?_cons, Option.some.injEq] at hv'
            subst hv'
            exact hxe.symm
          · have := h1.head
            cases tchain with
            | nil => simp at this
            | cons y ys => simpa using this
          · apply List.mem_append_right
            rw [← hl]
            simp

/-! ### Consequences for the heartbeat -/

/-- `insert_block` never traps in header validation -/
theorem headerTraps_false {env : Env} {s : State} {G : List Block} (hI : Inv s G) (b : Block) :
    ¬ headerTraps env s b := by
  rintro ⟨chain, hc, ht⟩
  obtain ⟨h1, x, hx, he⟩ := chainOk_validationContext hI hc
  exact validateHeader_no_trap hI h1 (hdrOfBlock b) (getLast?_mem_hash hx he) s.network env.now ht

/-- **the block loop of `maybe_process_response` never traps**: under the environment assumption,
    from a state satisfying the full invariant, neither header validation nor `push` fails -/
theorem processBlocks_ne_none (env : Env) (G : List Block) :
    ∀ (blobs : List String) (s : State), InvAll s G → TrustedBlocks env G s blobs →
      processBlocks env s blobs ≠ none
  | [], s, _, _ => by simp [processBlocks]
  | blob :: rest, s, hA, ht => by
    rw [Props.C10.processBlocks_cons]
    cases hd : env.dec.block blob with
    | none => simp
    | some b =>
      simp only
      obtain ⟨ht1, ht2⟩ := ht b hd
      cases hi : insertBlock env s b with
      | rejected why => simp
      | trap =>
        exfalso
        rcases insertBlock_trap_cases hi with ht' | ⟨hp, hn⟩
        · exact headerTraps_false hA.invU.inv b ht'
        · obtain ⟨u, hu, _⟩ := accepted_of_passes hA.invU (ht1 hp) hp
          exact hn u hu
      | ok s' =>
        simp only
        obtain ⟨u, hu, rfl⟩ := Lemmas.Fetch.insertBlock_ok_eq hi
        have hA' : InvAll { s with unstable := u } G :=
          Lemmas.Reach2.step_preserves_invAll (fun _ _ => 0) s G (.push b) _ G hA (ht1 (passes_of_ok hi))
            (by simp only [step, hu])
        exact processBlocks_ne_none env G rest { s with unstable := u } hA' (ht2 _ hi)

/-- **`insert_next_block_headers` never traps** from a state satisfying the full invariant -/
theorem insertNextHeadersAll_ne_none (env : Env) (G : List Block) :
    ∀ (raws : List String) (s : State), InvAll s G →
      (∀ h ∈ insertedHeadersAll env s raws, h.hash ∉ s.unstable.tree.blocks.map CBlock.hash) →
      insertNextHeadersAll env s raws ≠ none
  | [], s, _, _ => by simp [insertNextHeadersAll]
  | raw :: rest, s, hA, ht => by
    unfold insertNextHeadersAll
    unfold insertedHeadersAll at ht
    cases hd : env.dec.header raw with
    | none => simp
    | some hdr =>
      simp only [hd] at ht ⊢
      by_cases hk : (s.unstable.next.getHeader hdr.hash).isSome = true
      · simp only [hk, if_true] at ht ⊢
        exact insertNextHeadersAll_ne_none env G rest s hA ht
      · simp only [hk, Bool.false_eq_true, if_false] at ht ⊢
        cases hc : validationContextWithNext s (hdrOfNext hdr) with
        | error e => simp
        | ok chain =>
          simp only [hc] at ht ⊢
          obtain ⟨h1, hlast⟩ := chainOk_validationContextWithNext hA.invU.inv hA.next.ok hc
          have hnt := validateHeader_no_trap hA.invU.inv h1 (hdrOfNext hdr) hlast s.network env.now
          cases hv : Header.validateHeader s.network (validationStore s chain) (hdrOfNext hdr) env.now with
          | trap => exact absurd hv hnt
          | err e => simp
          | ok =>
            simp only [hv] at ht ⊢
            cases hi : s.unstable.insertNextHeader hdr s.stableHeight with
            | none => simp
            | some u =>
              simp only [hi] at ht ⊢
              have htree : u.tree = s.unstable.tree := Lemmas.Reach2.insertNextHeader_tree hi
              have hA' : InvAll { s with unstable := u } G :=
                Lemmas.Reach2.step_preserves_invAll (fun _ _ => 0) s G (.insertNext hdr) _ G hA
                  (ht hdr List.mem_cons_self)
                  (by simp only [step, hk, Bool.false_eq_true, if_false, hi])
              refine insertNextHeadersAll_ne_none env G rest _ hA' ?_
              intro x hx
              show x.hash ∉ u.tree.blocks.map CBlock.hash
              rw [htree]
              exact ht x (List.mem_cons_of_mem _ hx)

/-- the same for the loop with the instruction check -/
theorem insertNextHeaders_ne_none (env : Env) (G : List Block) (raws : List String) (s : State)
    (hA : InvAll s G)
    (ht : ∀ h ∈ insertedHeaders env s raws, h.hash ∉ s.unstable.tree.blocks.map CBlock.hash) :
    insertNextHeaders env s raws ≠ none :=
  insertNextHeadersAll_ne_none env G _ s hA ht

end Btc.Lemmas.FullSys
