import BtcModel.Model.Fees

/-! Helper lemmas for C15 (fee percentiles): `sortNat` is the unique sorted permutation, rank
    arithmetic of the nearest-rank method, and the accumulator invariant of `feesPerByte`. -/
namespace Btc

open List

/-! ### `sortNat` -/

theorem insertBy_lt_perm (x : Nat) (l : List Nat) :
    (insertBy (fun a b => decide (a < b)) x l).Perm (x :: l) := by
  induction l with
  | nil => simp [insertBy]
  | cons y ys ih =>
    unfold insertBy
    split
    · exact Perm.refl _
    · exact (Perm.cons y ih).trans (Perm.swap x y ys)

theorem sortNat_cons (x : Nat) (xs : List Nat) :
    sortNat (x :: xs) = insertBy (fun a b => decide (a < b)) x (sortNat xs) := rfl

theorem sortNat_perm (l : List Nat) : (sortNat l).Perm l := by
  induction l with
  | nil => simp [sortNat, sortBy]
  | cons x xs ih =>
    rw [sortNat_cons]
    exact (insertBy_lt_perm x _).trans (Perm.cons x ih)

theorem insertBy_lt_sorted (x : Nat) (l : List Nat) (h : l.Pairwise (· ≤ ·)) :
    (insertBy (fun a b => decide (a < b)) x l).Pairwise (· ≤ ·) := by
  induction l with
  | nil => simp [insertBy]
  | cons y ys ih =>
    unfold insertBy
    split
    · rename_i hxy
      have hxy : x < y := by simpa using hxy
      refine Pairwise.cons ?_ h
      intro z hz
      rcases mem_cons.mp hz with rfl | hz
      · omega
      · have := rel_of_pairwise_cons h hz
        omega
    · rename_i hxy
      have hxy : ¬ x < y := by simpa using hxy
      refine Pairwise.cons ?_ (ih h.tail)
      intro z hz
      have hz' := (insertBy_lt_perm x ys).subset hz
      rcases mem_cons.mp hz' with rfl | hz'
      · omega
      · exact rel_of_pairwise_cons h hz'

theorem sortNat_sorted (l : List Nat) : (sortNat l).Pairwise (· ≤ ·) := by
  induction l with
  | nil => simp [sortNat, sortBy]
  | cons x xs ih =>
    rw [sortNat_cons]
    exact insertBy_lt_sorted x _ ih

/-- Two sorted lists with the same multiset of elements are equal. -/
theorem sorted_perm_unique {s t : List Nat} (hs : s.Pairwise (· ≤ ·)) (ht : t.Pairwise (· ≤ ·))
    (h : s.Perm t) : s = t := by
  apply Perm.eq_of_pairwise (le := (· ≤ ·))
  · intro a b _ _ h1 h2; exact Nat.le_antisymm h1 h2
  · exact hs
  · exact ht
  · exact h

/-- `sortNat l` is *the* ascending sorted permutation of `l`. -/
theorem sortNat_unique {l s : List Nat} (hp : s.Perm l) (hs : s.Pairwise (· ≤ ·)) :
    s = sortNat l :=
  sorted_perm_unique hs (sortNat_sorted l) (hp.trans (sortNat_perm l).symm)

theorem sortNat_congr {l l' : List Nat} (h : l.Perm l') : sortNat l = sortNat l' :=
  sortNat_unique ((sortNat_perm l).trans h) (sortNat_sorted l)

theorem sortNat_length (l : List Nat) : (sortNat l).length = l.length :=
  (sortNat_perm l).length_eq

theorem mem_sortNat {l : List Nat} {a : Nat} : a ∈ sortNat l ↔ a ∈ l :=
  (sortNat_perm l).mem_iff

/-- In an ascending list, elements at increasing positions are non-decreasing. -/
theorem sorted_getElem_mono {s : List Nat} (hs : s.Pairwise (· ≤ ·)) {i j : Nat}
    (hij : i ≤ j) (hj : j < s.length) : s[i]'(by omega) ≤ s[j] := by
  rcases Nat.eq_or_lt_of_le hij with rfl | hlt
  · exact Nat.le_refl _
  · exact (pairwise_iff_getElem.mp hs) i j (by omega) hj hlt

/-! ### rank arithmetic -/

/-- 0-based index into the sorted input selected for percentile `p` out of `n` values:
    `max 0 (⌈p·n/100⌉ − 1)` (truncated subtraction realises the `max 0`). -/
def nearestRankIdx (p n : Nat) : Nat := (p * n + 99) / 100 - 1

/-- the Rust `ceil_div(a, 100)` closure equals `(a + 99) / 100` -/
theorem ceilDiv100 (a : Nat) : a / 100 + (if a % 100 = 0 then 0 else 1) = (a + 99) / 100 := by
  split <;> omega

/-- `(a + 99) / 100` is the ceiling of `a / 100`: the least `r` with `a ≤ 100 * r`. -/
theorem ceilDiv100_spec (a r : Nat) : (a + 99) / 100 ≤ r ↔ a ≤ 100 * r := by
  omega

theorem nearestRankIdx_lt {p n : Nat} (hp : p ≤ 100) (hn : 0 < n) : nearestRankIdx p n < n := by
  unfold nearestRankIdx
  have : p * n ≤ 100 * n := Nat.mul_le_mul_right n hp
  omega

theorem nearestRankIdx_mono {p q : Nat} (n : Nat) (hpq : p ≤ q) :
    nearestRankIdx p n ≤ nearestRankIdx q n := by
  unfold nearestRankIdx
  have : p * n ≤ q * n := Nat.mul_le_mul_right n hpq
  omega

theorem nearestRankIdx_zero (n : Nat) : nearestRankIdx 0 n = 0 := by
  simp [nearestRankIdx]

theorem nearestRankIdx_hundred (n : Nat) : nearestRankIdx 100 n = n - 1 := by
  unfold nearestRankIdx; omega

/-! ### `percentiles` -/

theorem percentiles_nil : percentiles [] = [] := rfl

theorem percentiles_eq_map {values : List Nat} (h : values ≠ []) :
    percentiles values =
      (List.range 101).map (fun p => (sortNat values).getD (nearestRankIdx p values.length) 0) := by
  unfold percentiles
  have : values.isEmpty = false := by cases values <;> simp_all
  simp only [this, Bool.false_eq_true, if_false, sortNat_length]
  apply map_congr_left
  intro p _
  simp only [nearestRankIdx, ceilDiv100]

theorem percentiles_length {values : List Nat} (h : values ≠ []) :
    (percentiles values).length = 101 := by
  simp [percentiles_eq_map h]

/-- entry `p` of the output is the element of `sortNat values` at the nearest-rank index -/
theorem percentiles_getElem?_sortNat {values : List Nat} (h : values ≠ []) {p : Nat}
    (hp : p ≤ 100) :
    (percentiles values)[p]? = (sortNat values)[nearestRankIdx p values.length]? := by
  have hn : 0 < values.length := length_pos_iff.mpr h
  have hi : nearestRankIdx p values.length < (sortNat values).length := by
    rw [sortNat_length]; exact nearestRankIdx_lt hp hn
  rw [percentiles_eq_map h, getElem?_map, getElem?_range (by omega)]
  simp only [Option.map_some, getD_eq_getElem?_getD, getElem?_eq_getElem hi, Option.getD_some]

/-! ### `feesPerByte` -/

theorem take_take_append {α : Type} (n : Nat) (l r : List α) :
    ((l.take n) ++ r).take n = (l ++ r).take n := by
  rw [take_append, take_append, take_take, Nat.min_self, length_take]
  by_cases h : n ≤ l.length
  · rw [Nat.min_eq_left h, Nat.sub_self, Nat.sub_eq_zero_of_le h]
  · rw [Nat.min_eq_right (by omega)]

/-- Accumulator invariant of `get_fees_per_byte`: if every block of the list has fee rates
    `f b` (cached or recomputed), the loop returns the first `n` elements of the accumulator
    followed by all blocks' rates. -/
theorem feesPerByte_acc (s : State) (n : Nat) (f : CBlock → List Nat) :
    ∀ (blocks : List CBlock) (acc : List Nat),
      (∀ b ∈ blocks, s.blockFeeRates b = some (f b)) → acc.length ≤ n →
      s.feesPerByte n blocks acc = some ((acc ++ blocks.flatMap f).take n)
  | [], acc, _, hacc => by
    simp [State.feesPerByte, take_of_length_le hacc]
  | b :: bs, acc, hb, hacc => by
    unfold State.feesPerByte
    split
    · rename_i hge
      have : acc.length = n := by omega
      rw [take_append, ← this]
      simp
    · rename_i hlt
      rw [hb b (by simp)]
      simp only
      have e : acc ++ (f b).take (n - acc.length) = (acc ++ f b).take n := by
        rw [take_append, take_of_length_le hacc]
      rw [e, feesPerByte_acc s n f bs _ (fun b' hb' => hb b' (by simp [hb'])) (by simp; omega)]
      rw [take_take_append, flatMap_cons, append_assoc]

/-- The result never exceeds the cap and extends the accumulator. -/
theorem feesPerByte_length_le (s : State) (n : Nat) :
    ∀ (blocks : List CBlock) (acc r : List Nat), acc.length ≤ n →
      s.feesPerByte n blocks acc = some r → r.length ≤ n ∧ acc <+: r
  | [], acc, r, hacc, h => by
    simp only [State.feesPerByte, Option.some.injEq] at h
    subst h; exact ⟨hacc, prefix_refl _⟩
  | b :: bs, acc, r, hacc, h => by
    unfold State.feesPerByte at h
    split at h
    · simp only [Option.some.injEq] at h
      subst h; exact ⟨hacc, prefix_refl _⟩
    · split at h
      · cases h
      · have := feesPerByte_length_le s n bs _ r (by simp; omega) h
        exact ⟨this.1, (prefix_append _ _).trans this.2⟩

end Btc
