import BtcModel.Lemmas.JsonLex
import BtcModel.Lemmas.Transform

/-!
  `serde_json::Map` normalisation (`normMembers`): the result is strictly sorted by key, a lookup in
  it is the last-wins lookup in the source members, and it does not depend on the order of members
  with distinct keys.
-/
namespace Btc.Json

/-! ### the key order -/

theorem keyLt_irrefl (a : List Nat) : keyLt a a = false := by
  induction a with
  | nil => rfl
  | cons x a ih => simp [keyLt, ih]

theorem keyLt_trans : ∀ {a b c : List Nat}, keyLt a b = true → keyLt b c = true → keyLt a c = true
  | [], [], _, h, _ => by simp [keyLt] at h
  | [], _ :: _, [], _, h => by simp [keyLt] at h
  | [], _ :: _, _ :: _, _, _ => by simp [keyLt]
  | _ :: _, [], _, h, _ => by simp [keyLt] at h
  | _ :: _, _ :: _, [], _, h => by simp [keyLt] at h
  | x :: a, y :: b, z :: c, h1, h2 => by
    simp only [keyLt, Bool.or_eq_true, decide_eq_true_eq, Bool.and_eq_true, beq_iff_eq] at h1 h2 ⊢
    rcases h1 with h1 | ⟨rfl, h1⟩
    · rcases h2 with h2 | ⟨rfl, _⟩
      · exact Or.inl (by omega)
      · exact Or.inl h1
    · rcases h2 with h2 | ⟨rfl, h2⟩
      · exact Or.inl h2
      · exact Or.inr ⟨rfl, keyLt_trans h1 h2⟩

theorem keyLt_total : ∀ {a b : List Nat}, keyLt a b = false → a ≠ b → keyLt b a = true
  | [], [], _, h => absurd rfl h
  | [], _ :: _, h, _ => by simp [keyLt] at h
  | _ :: _, [], _, _ => by simp [keyLt]
  | x :: a, y :: b, h1, h2 => by
    simp only [keyLt, Bool.or_eq_false_iff, decide_eq_false_iff_not, Bool.and_eq_false_iff,
      beq_eq_false_iff_ne] at h1
    simp only [keyLt, Bool.or_eq_true, decide_eq_true_eq, Bool.and_eq_true, beq_iff_eq]
    by_cases hxy : x = y
    · subst hxy
      refine Or.inr ⟨rfl, keyLt_total ?_ ?_⟩
      · rcases h1.2 with h | h
        · exact absurd rfl h
        · exact h
      · intro h; exact h2 (by rw [h])
    · exact Or.inl (by omega)

theorem keyLt_asymm {a b : List Nat} (h1 : keyLt a b = true) (h2 : keyLt b a = true) : False := by
  have := keyLt_trans h1 h2
  rw [keyLt_irrefl] at this
  cases this

theorem keyLt_ne {a b : List Nat} (h : keyLt a b = true) : a ≠ b := by
  intro e; subst e; rw [keyLt_irrefl] at h; cases h

/-! ### sortedness -/

variable {α : Type}

def keysOf (ms : List (List Nat × α)) : List (List Nat) := ms.map Prod.fst

/-- strictly increasing keys -/
def KeysSorted (ms : List (List Nat × α)) : Prop :=
  ms.Pairwise (fun a b => keyLt a.1 b.1 = true)

theorem KeysSorted.nil : KeysSorted ([] : List (List Nat × α)) := List.Pairwise.nil

theorem mem_keysOf_insertMember {k : List Nat} {v : α} {acc : List (List Nat × α)} {q : List Nat} :
    q ∈ keysOf (insertMember k v acc) ↔ q = k ∨ q ∈ keysOf acc := by
  induction acc with
  | nil => simp [insertMember, keysOf]
  | cons x acc ih =>
    obtain ⟨k', v'⟩ := x
    simp only [insertMember]
    split
    · next h => subst h; simp [keysOf]
    split
    · simp [keysOf]
    · simp only [keysOf, List.map_cons, List.mem_cons] at ih ⊢
      rw [ih]
      constructor
      · rintro (h | h | h)
        · exact Or.inr (Or.inl h)
        · exact Or.inl h
        · exact Or.inr (Or.inr h)
      · rintro (h | h | h)
        · exact Or.inr (Or.inl h)
        · exact Or.inl h
        · exact Or.inr (Or.inr h)

theorem KeysSorted.insertMember {acc : List (List Nat × α)} (h : KeysSorted acc) (k : List Nat)
    (v : α) : KeysSorted (insertMember k v acc) := by
  induction acc with
  | nil => simp [Btc.Json.insertMember, KeysSorted]
  | cons x acc ih =>
    obtain ⟨k', v'⟩ := x
    have hp := List.pairwise_cons.mp h
    simp only [Btc.Json.insertMember]
    split
    · next he =>
      subst he
      exact List.pairwise_cons.mpr ⟨hp.1, hp.2⟩
    split
    · next _ hlt =>
      refine List.pairwise_cons.mpr ⟨?_, h⟩
      intro y hy
      rcases List.mem_cons.mp hy with rfl | hy
      · exact hlt
      · exact keyLt_trans hlt (hp.1 y hy)
    · next hne hlt =>
      refine List.pairwise_cons.mpr ⟨?_, ih hp.2⟩
      intro y hy
      have hyk : y.1 ∈ keysOf (Btc.Json.insertMember k v acc) := List.mem_map_of_mem hy
      rcases mem_keysOf_insertMember.mp hyk with e | e
      · rw [e]
        exact keyLt_total (by simpa using hlt) hne
      · obtain ⟨z, hz, hzk⟩ := List.mem_map.mp e
        rw [← hzk]
        exact hp.1 z hz

theorem keysSorted_foldl (ms acc : List (List Nat × α)) (h : KeysSorted acc) :
    KeysSorted (ms.foldl (fun acc kv => insertMember kv.1 kv.2 acc) acc) := by
  induction ms generalizing acc with
  | nil => exact h
  | cons x ms ih => exact ih _ (h.insertMember x.1 x.2)

theorem keysSorted_normMembers (ms : List (List Nat × α)) : KeysSorted (normMembers ms) :=
  keysSorted_foldl ms [] KeysSorted.nil

theorem KeysSorted.nodup {ms : List (List Nat × α)} (h : KeysSorted ms) : (keysOf ms).Nodup := by
  induction ms with
  | nil => exact List.nodup_nil
  | cons x ms ih =>
    have hp := List.pairwise_cons.mp h
    simp only [keysOf, List.map_cons]
    refine List.nodup_cons.mpr ⟨?_, ih hp.2⟩
    intro hx
    obtain ⟨z, hz, hzk⟩ := List.mem_map.mp hx
    exact keyLt_ne (hp.1 z hz) hzk.symm

/-! ### lookups -/

/-- the value of the LAST member whose key satisfies `P` -/
def lookupLastP (P : List Nat → Bool) : List (List Nat × α) → Option α
  | [] => none
  | (k, v) :: rest =>
    match lookupLastP P rest with
    | some w => some w
    | none => if P k then some v else none

theorem lookupLastP_eq_none_iff (P : List Nat → Bool) (ms : List (List Nat × α)) :
    lookupLastP P ms = none ↔ ∀ q ∈ keysOf ms, P q = false := by
  induction ms with
  | nil => simp [lookupLastP, keysOf]
  | cons x ms ih =>
    obtain ⟨k, v⟩ := x
    simp only [lookupLastP, keysOf, List.map_cons, List.mem_cons, forall_eq_or_imp]
    simp only [keysOf] at ih
    cases h : lookupLastP P ms with
    | some w =>
      simp only [reduceCtorEq, false_iff, not_and]
      intro _ hall
      rw [ih.mpr hall] at h
      cases h
    | none =>
      have := ih.mp h
      cases hk : P k with
      | true => simp
      | false =>
        simp only [Bool.false_eq_true, if_false, true_iff]
        exact ⟨trivial, this⟩

/-- at most one of the keys satisfies `P` -/
def UniqueOn (P : List Nat → Bool) (keys : List (List Nat)) : Prop :=
  ∀ a ∈ keys, ∀ b ∈ keys, P a = true → P b = true → a = b

theorem UniqueOn.mono {P : List Nat → Bool} {ks ks' : List (List Nat)} (h : UniqueOn P ks)
    (hs : ∀ q ∈ ks', q ∈ ks) : UniqueOn P ks' :=
  fun a ha b hb => h a (hs a ha) b (hs b hb)

theorem lookupLastP_insertMember (P : List Nat → Bool) (k : List Nat) (v : α)
    {acc : List (List Nat × α)} (hs : KeysSorted acc) (hu : UniqueOn P (k :: keysOf acc)) :
    lookupLastP P (insertMember k v acc) = if P k then some v else lookupLastP P acc := by
  induction acc with
  | nil => simp [insertMember, lookupLastP]
  | cons x acc ih =>
    obtain ⟨k', v'⟩ := x
    have hp := List.pairwise_cons.mp hs
    simp only [insertMember]
    split
    · next he =>
      subst he
      by_cases hk : P k = true
      · -- no later key satisfies `P`
        have hnone : lookupLastP P acc = none := by
          rw [lookupLastP_eq_none_iff]
          intro q hq
          cases hq'' : P q with
          | false => rfl
          | true =>
            exfalso
            have e : k = q := hu k (List.mem_cons_self ..) q
              (List.mem_cons_of_mem _ (List.mem_cons_of_mem _ hq)) hk hq''
            obtain ⟨z, hz, hzk⟩ := List.mem_map.mp hq
            have := hp.1 z hz
            rw [hzk, ← e] at this
            simp only [keyLt_irrefl] at this
            cases this
        simp [lookupLastP, hnone, hk]
      · simp [lookupLastP, hk]
    split
    · next hne hlt =>
      by_cases hk : P k = true
      · have hnone : lookupLastP P ((k', v') :: acc) = none := by
          rw [lookupLastP_eq_none_iff]
          intro q hq
          cases hq'' : P q with
          | false => rfl
          | true =>
            exfalso
            have e : k = q := hu k (List.mem_cons_self ..) q (List.mem_cons_of_mem _ hq) hk hq''
            subst e
            simp only [keysOf, List.map_cons, List.mem_cons] at hq
            rcases hq with e | hq
            · exact hne e
            · obtain ⟨z, hz, hzk⟩ := List.mem_map.mp hq
              have h1 := hp.1 z hz
              rw [hzk] at h1
              exact keyLt_asymm hlt h1
        rw [lookupLastP, hnone]
      · rw [lookupLastP]
        cases lookupLastP P ((k', v') :: acc) <;> simp [hk]
    · next hne hlt =>
      have hu' : UniqueOn P (k :: keysOf acc) := by
        refine hu.mono ?_
        intro q hq
        rcases List.mem_cons.mp hq with rfl | hq
        · exact List.mem_cons_self ..
        · exact List.mem_cons_of_mem _ (List.mem_cons_of_mem _ hq)
      rw [lookupLastP, ih hp.2 hu']
      by_cases hk : P k = true
      · simp [hk]
      · simp [hk, lookupLastP]

theorem lookupLastP_foldl (P : List Nat → Bool) (ms acc : List (List Nat × α))
    (hs : KeysSorted acc) (hu : UniqueOn P (keysOf acc ++ keysOf ms)) :
    lookupLastP P (ms.foldl (fun acc kv => insertMember kv.1 kv.2 acc) acc) =
      match lookupLastP P ms with
      | some w => some w
      | none => lookupLastP P acc := by
  induction ms generalizing acc with
  | nil => simp [lookupLastP]
  | cons x ms ih =>
    obtain ⟨k, v⟩ := x
    simp only [List.foldl_cons]
    have hu1 : UniqueOn P (keysOf (insertMember k v acc) ++ keysOf ms) := by
      refine hu.mono ?_
      intro q hq
      rcases List.mem_append.mp hq with hq | hq
      · rcases mem_keysOf_insertMember.mp hq with rfl | hq
        · exact List.mem_append_right _ (by simp [keysOf])
        · exact List.mem_append_left _ hq
      · exact List.mem_append_right _ (by simp only [keysOf, List.map_cons]; exact List.mem_cons_of_mem _ hq)
    have hu2 : UniqueOn P (k :: keysOf acc) := by
      refine hu.mono ?_
      intro q hq
      rcases List.mem_cons.mp hq with rfl | hq
      · exact List.mem_append_right _ (by simp [keysOf])
      · exact List.mem_append_left _ hq
    rw [ih _ (hs.insertMember k v) hu1, lookupLastP_insertMember P k v hs hu2]
    simp only [lookupLastP]
    cases lookupLastP P ms with
    | some w => rfl
    | none =>
      by_cases hk : P k = true
      · simp [hk]
      · simp [hk]

/-- a lookup in the normalised members is the last-wins lookup in the source members -/
theorem lookupLastP_normMembers (P : List Nat → Bool) (ms : List (List Nat × α))
    (hu : UniqueOn P (keysOf ms)) : lookupLastP P (normMembers ms) = lookupLastP P ms := by
  unfold normMembers
  rw [lookupLastP_foldl P ms [] KeysSorted.nil (by simpa [keysOf] using hu)]
  cases lookupLastP P ms <;> rfl

theorem keysOf_normMembers_subset (ms : List (List Nat × α)) :
    ∀ q ∈ keysOf (normMembers ms), q ∈ keysOf ms := by
  have : ∀ (ms acc : List (List Nat × α)) q,
      q ∈ keysOf (ms.foldl (fun acc kv => insertMember kv.1 kv.2 acc) acc) →
        q ∈ keysOf acc ∨ q ∈ keysOf ms := by
    intro ms
    induction ms with
    | nil => intro acc q h; exact Or.inl h
    | cons x ms ih =>
      intro acc q h
      rcases ih _ q h with h | h
      · rcases mem_keysOf_insertMember.mp h with rfl | h
        · exact Or.inr (by simp [keysOf])
        · exact Or.inl h
      · exact Or.inr (by simp only [keysOf, List.map_cons]; exact List.mem_cons_of_mem _ h)
  intro q hq
  rcases this ms [] q hq with h | h
  · simp [keysOf] at h
  · exact h

/-! ### member order is irrelevant when the keys are distinct -/

theorem insertMember_perm {k : List Nat} {v : α} {acc : List (List Nat × α)}
    (h : k ∉ keysOf acc) : (insertMember k v acc).Perm ((k, v) :: acc) := by
  induction acc with
  | nil => exact List.Perm.refl _
  | cons x acc ih =>
    obtain ⟨k', v'⟩ := x
    simp only [keysOf, List.map_cons, List.mem_cons, not_or] at h
    simp only [insertMember]
    split
    · next he => exact absurd he h.1
    split
    · exact List.Perm.refl _
    · exact ((ih h.2).cons _).trans (List.Perm.swap _ _ _)

theorem foldl_insertMember_perm (ms acc : List (List Nat × α))
    (hnd : (keysOf acc ++ keysOf ms).Nodup) :
    (ms.foldl (fun acc kv => insertMember kv.1 kv.2 acc) acc).Perm (acc ++ ms) := by
  induction ms generalizing acc with
  | nil => simp
  | cons x ms ih =>
    obtain ⟨k, v⟩ := x
    simp only [List.foldl_cons]
    have hk : k ∉ keysOf acc := by
      intro hk
      have := (List.nodup_append.mp hnd).2.2 k hk k (by simp [keysOf])
      exact this rfl
    have hperm := insertMember_perm (v := v) hk
    have hnd' : (keysOf (insertMember k v acc) ++ keysOf ms).Nodup := by
      have hp : (keysOf (insertMember k v acc) ++ keysOf ms).Perm (keysOf acc ++ keysOf ((k, v) :: ms)) := by
        have h1 : (keysOf (insertMember k v acc)).Perm (k :: keysOf acc) := by
          simpa [keysOf] using hperm.map Prod.fst
        simp only [keysOf, List.map_cons] at h1 ⊢
        exact (h1.append_right _).trans (by simpa using (List.perm_middle (a := k) (l₁ := acc.map Prod.fst) (l₂ := ms.map Prod.fst)).symm)
      exact hp.nodup_iff.mpr hnd
    refine (ih _ hnd').trans ?_
    exact (hperm.append_right _).trans (by simpa using (List.perm_middle (a := (k, v)) (l₁ := acc) (l₂ := ms)).symm)

theorem normMembers_perm_self {ms : List (List Nat × α)} (hnd : (keysOf ms).Nodup) :
    (normMembers ms).Perm ms := by
  have := foldl_insertMember_perm ms [] (by simpa [keysOf] using hnd)
  simpa [normMembers] using this

/-- two strictly sorted lists with the same elements are equal -/
theorem eq_of_perm_of_keysSorted : ∀ {l₁ l₂ : List (List Nat × α)}, l₁.Perm l₂ → KeysSorted l₁ →
    KeysSorted l₂ → l₁ = l₂
  | [], l₂, hp, _, _ => (List.Perm.nil_eq hp)
  | a :: t₁, [], hp, _, _ => by
    have := hp.length_eq; simp at this
  | a :: t₁, b :: t₂, hp, h1, h2 => by
    have hp1 := List.pairwise_cons.mp h1
    have hp2 := List.pairwise_cons.mp h2
    have hab : a = b := by
      have ha : a ∈ b :: t₂ := hp.subset (List.mem_cons_self ..)
      have hb : b ∈ a :: t₁ := hp.symm.subset (List.mem_cons_self ..)
      rcases List.mem_cons.mp ha with e | ha
      · exact e
      · rcases List.mem_cons.mp hb with e | hb
        · exact e.symm
        · exact absurd (hp1.1 b hb) (fun h => keyLt_asymm h (hp2.1 a ha))
    subst hab
    rw [eq_of_perm_of_keysSorted (List.Perm.cons_inv hp) hp1.2 hp2.2]

/-- the stored members do not depend on the source order of members with distinct keys -/
theorem normMembers_perm {ms₁ ms₂ : List (List Nat × α)} (hp : ms₁.Perm ms₂)
    (hnd : (keysOf ms₁).Nodup) : normMembers ms₁ = normMembers ms₂ := by
  have hnd2 : (keysOf ms₂).Nodup := (hp.map Prod.fst).nodup_iff.mp hnd
  exact eq_of_perm_of_keysSorted
    ((normMembers_perm_self hnd).trans (hp.trans (normMembers_perm_self hnd2).symm))
    (keysSorted_normMembers _) (keysSorted_normMembers _)

/-- without duplicate keys normalisation is a sort: nothing is lost -/
theorem normMembers_of_sorted {ms : List (List Nat × α)} (h : KeysSorted ms) : normMembers ms = ms :=
  eq_of_perm_of_keysSorted (normMembers_perm_self h.nodup) (keysSorted_normMembers _) h

end Btc.Json
