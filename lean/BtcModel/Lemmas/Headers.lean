import BtcModel.Lemmas.QueryInv

/-!
  Helper lemmas for C07 (`get_block_headers`): strictly sorted lists, the height-indexed header
  store (`HeaderStore.range`) and linkedness of root paths of the block tree.
-/
namespace Btc
open Btc.Spec

/-! ### strictly sorted lists -/

section Sorted
variable {α : Type}

/-- two lists that are strictly sorted w.r.t. an asymmetric relation and have the same members are
    equal -/
theorem eq_of_pairwise_of_mem_iff (R : α → α → Prop) (hasym : ∀ x y, R x y → ¬ R y x) :
    ∀ (l1 l2 : List α), l1.Pairwise R → l2.Pairwise R → (∀ x, x ∈ l1 ↔ x ∈ l2) → l1 = l2
  | [], [], _, _, _ => rfl
  | [], b :: bs, _, _, h => by have := (h b).mpr List.mem_cons_self; simp at this
  | a :: as, [], _, _, h => by have := (h a).mp List.mem_cons_self; simp at this
  | a :: as, b :: bs, h1, h2, h => by
    rw [List.pairwise_cons] at h1 h2
    have hirr : ∀ x, ¬ R x x := fun x hx => hasym x x hx hx
    have hab : a = b := by
      rcases List.mem_cons.mp ((h a).mp List.mem_cons_self) with e | ha
      · exact e
      · rcases List.mem_cons.mp ((h b).mpr List.mem_cons_self) with e | hb
        · exact e.symm
        · exact absurd (h1.1 b hb) (hasym _ _ (h2.1 a ha))
    subst hab
    congr 1
    apply eq_of_pairwise_of_mem_iff R hasym as bs h1.2 h2.2
    intro x
    constructor
    · intro hx
      rcases List.mem_cons.mp ((h x).mp (List.mem_cons_of_mem _ hx)) with e | hx'
      · subst e; exact absurd (h1.1 x hx) (hirr x)
      · exact hx'
    · intro hx
      rcases List.mem_cons.mp ((h x).mpr (List.mem_cons_of_mem _ hx)) with e | hx'
      · subst e; exact absurd (h2.1 x hx) (hirr x)
      · exact hx'

end Sorted

/-! ### slices by index -/

theorem range'_filterMap_getElem? {α : Type} (l : List α) (lo cnt : Nat)
    (h : cnt ≠ 0 → lo + cnt ≤ l.length) :
    (List.range' lo cnt).filterMap (fun i => l[i]?) = (l.drop lo).take cnt := by
  induction cnt generalizing lo with
  | zero => simp
  | succ n ih =>
    have hlo : lo < l.length := by have := h (by omega); omega
    rw [List.range'_succ, List.filterMap_cons, List.getElem?_eq_getElem hlo]
    simp only
    rw [ih (lo + 1) (fun hn => by have := h (by omega); omega)]
    rw [List.drop_eq_getElem_cons hlo, List.take_succ_cons]

/-! ### the header store -/

/-- the keys of the height index are pairwise distinct (true of every store built with
    `HeaderStore.insert`; not part of `Spec.Inv`, hence an explicit hypothesis of C07) -/
def HeightsNodup (hs : HeaderStore) : Prop := (hs.byHeight.map (·.1)).Nodup

theorem HeightsNodup.empty : HeightsNodup {} := by simp [HeightsNodup]

theorem HeightsNodup.insert {hs : HeaderStore} (h : HeightsNodup hs) (b : Block) (n : Nat) :
    HeightsNodup (hs.insert b n) :=
  AList.nodup_keys_insert hs.byHeight n b.hash h

/-- sorting the entries of a height window `[lo, hi]`, `hi < n`, of an index that maps every
    `i < n` to `f i` gives the entries `(lo, f lo), …, (hi, f hi)` -/
theorem sorted_window (m : List (Nat × Nat)) (hnd : (m.map (·.1)).Nodup) (n : Nat) (f : Nat → Nat)
    (hin : ∀ i, i < n → AList.find? m i = some (f i))
    (lo hi : Nat) (hhi : hi < n) :
    sortBy (fun (a b : Nat × Nat) => a.1 < b.1) (m.filter (fun p => lo ≤ p.1 && p.1 ≤ hi)) =
      (List.range' lo (hi + 1 - lo)).map (fun i => (i, f i)) := by
  apply eq_of_pairwise_of_mem_iff (fun (a b : Nat × Nat) => a.1 < b.1) (fun x y h1 h2 => by omega)
  · -- sorted and distinct keys, hence strictly sorted
    have hs := sortBy_pairwise (fun (a b : Nat × Nat) => decide (a.1 < b.1))
      (fun (a b : Nat × Nat) => a.1 ≤ b.1) (fun x y z h1 h2 => by omega)
      (fun x y h => by simp at h; omega) (fun x y h => by simp at h; omega)
      (m.filter (fun p => lo ≤ p.1 && p.1 ≤ hi))
    have hnd' : ((sortBy (fun (a b : Nat × Nat) => decide (a.1 < b.1))
        (m.filter (fun p => lo ≤ p.1 && p.1 ≤ hi))).map (·.1)).Nodup :=
      ((sortBy_perm _ _).map _).nodup_iff.mpr (hnd.sublist (List.filter_sublist.map _))
    unfold List.Nodup at hnd'
    rw [List.pairwise_map] at hnd'
    exact (hs.and hnd').imp (fun ⟨h1, h2⟩ => by omega)
  · rw [List.pairwise_map]
    exact (List.pairwise_lt_range').imp (fun h => h)
  · intro x
    rw [(sortBy_perm _ _).mem_iff, List.mem_filter, List.mem_map]
    constructor
    · rintro ⟨hm, hr⟩
      simp only [Bool.and_eq_true, decide_eq_true_eq] at hr
      have hf := AList.find?_of_mem m hnd x.1 x.2 hm
      rw [hin x.1 (by omega)] at hf
      refine ⟨x.1, List.mem_range'_1.mpr (by omega), ?_⟩
      cases x
      simp only [Option.some.injEq] at hf
      simp [hf]
    · rintro ⟨i, hi', rfl⟩
      have := List.mem_range'_1.mp hi'
      refine ⟨AList.mem_of_find? m i (f i) (hin i (by omega)), ?_⟩
      simp only [Bool.and_eq_true, decide_eq_true_eq]
      omega

/-- **`get_block_headers_in_range` of the stable store**: if the store maps every height
    `i < G.length` to the hash of `G[i]`, every block of `G` to its raw header, and the height keys
    are distinct, then the window `[lo, hi]` (`hi < G.length`) yields the raw headers of
    `G[lo], …, G[hi]`, in this order. -/
theorem HeaderStore.range_eq (hs : HeaderStore) (G : List Block) (hnd : HeightsNodup hs)
    (hH : ∀ i, (h : i < G.length) → AList.find? hs.byHeight i = some (G[i]).hash)
    (hB : ∀ g ∈ G, ∃ nh : NextHeader, AList.find? hs.byHash g.hash = some nh ∧ nh.raw = g.header)
    (lo hi : Nat) (hhi : hi < G.length) :
    hs.range lo hi = ((G.drop lo).take (hi + 1 - lo)).map (·.header) := by
  unfold HeaderStore.range
  have hw := sorted_window hs.byHeight hnd G.length (fun i => ((G[i]?).map (·.hash)).getD 0)
    (fun i hi' => by rw [hH i hi']; simp [List.getElem?_eq_getElem hi']) lo hi hhi
  simp only at hw ⊢
  rw [hw, List.filterMap_map]
  rw [← range'_filterMap_getElem? G lo (hi + 1 - lo) (by omega), List.map_filterMap]
  apply filterMap_congr'
  intro i hi'
  have hlt : i < G.length := by have := List.mem_range'_1.mp hi'; omega
  obtain ⟨nh, hf, hr⟩ := hB G[i] (List.getElem_mem hlt)
  simp [List.getElem?_eq_getElem hlt, hf, hr]

/-- windows that end below `n` do not see an entry inserted at height `n` -/
theorem HeaderStore.range_insert (hs : HeaderStore) (b : Block) (n lo hi : Nat) (hhi : hi < n)
    (hfresh : ∀ p ∈ hs.byHeight, p.1 ≤ hi → p.2 ≠ b.hash) :
    (hs.insert b n).range lo hi = hs.range lo hi := by
  unfold HeaderStore.range HeaderStore.insert
  have hfilt : (AList.insert hs.byHeight n b.hash).filter (fun p => lo ≤ p.1 && p.1 ≤ hi) =
      hs.byHeight.filter (fun p => lo ≤ p.1 && p.1 ≤ hi) := by
    unfold AList.insert AList.erase
    have h0 : ¬ n ≤ hi := by omega
    simp only [List.filter_cons, h0, decide_false, Bool.and_false, Bool.false_eq_true, if_false,
      List.filter_filter]
    apply List.filter_congr
    intro p _
    by_cases hp : p.1 = n
    · simp [hp, h0]
    · simp [hp]
  simp only [hfilt]
  apply filterMap_congr'
  intro p hp
  have hp' := (List.mem_filter.mp ((sortBy_perm _ _).mem_iff.mp hp))
  have hle : p.1 ≤ hi := by
    have := hp'.2
    simp only [Bool.and_eq_true, decide_eq_true_eq] at this
    exact this.2
  have hne := hfresh p hp'.1 hle
  rw [AList.find?_insert_ne _ _ _ _ (fun e => hne e.symm)]

/-! ### root paths of a linked tree are hash-linked chains -/

/-- consecutive blocks are hash-linked: each block's `prev` is the hash of its predecessor -/
def LinkedChain : List Block → Prop
  | [] => True
  | [_] => True
  | x :: y :: rest => y.prev = x.hash ∧ LinkedChain (y :: rest)

theorem LinkedChain.getElem {l : List Block} (h : LinkedChain l) (i : Nat) (hi : i + 1 < l.length) :
    (l[i + 1]).prev = (l[i]).hash := by
  induction l generalizing i with
  | nil => simp at hi
  | cons x xs ih =>
    cases xs with
    | nil => simp at hi
    | cons y rest =>
      cases i with
      | zero => exact h.1
      | succ i => exact ih h.2 i (by simpa using hi)

theorem LinkedChain.of_getElem {l : List Block}
    (h : ∀ i, (hi : i + 1 < l.length) → (l[i + 1]).prev = (l[i]).hash) : LinkedChain l := by
  induction l with
  | nil => trivial
  | cons x xs ih =>
    cases xs with
    | nil => trivial
    | cons y rest =>
      refine ⟨h 0 (by simp), ih ?_⟩
      intro i hi
      exact h (i + 1) (by simpa using hi)

theorem LinkedChain.append {l1 l2 : List Block} (h1 : LinkedChain l1) (h2 : LinkedChain l2)
    (hj : ∀ x y, l1.getLast? = some x → l2.head? = some y → y.prev = x.hash) :
    LinkedChain (l1 ++ l2) := by
  induction l1 with
  | nil => simpa using h2
  | cons x xs ih =>
    cases xs with
    | nil =>
      cases l2 with
      | nil => trivial
      | cons y ys => exact ⟨hj x y rfl rfl, h2⟩
    | cons z zs =>
      refine ⟨h1.1, ih h1.2 ?_⟩
      intro a b ha hb
      exact hj a b (by simpa using ha) hb

theorem LinkedChain.drop {l : List Block} (h : LinkedChain l) (n : Nat) : LinkedChain (l.drop n) := by
  apply LinkedChain.of_getElem
  intro i hi
  simp only [List.getElem_drop]
  have := h.getElem (n + i) (by simp at hi; omega)
  simpa [Nat.add_assoc] using this

theorem LinkedChain.take {l : List Block} (h : LinkedChain l) (n : Nat) : LinkedChain (l.take n) := by
  apply LinkedChain.of_getElem
  intro i hi
  simp only [List.getElem_take]
  exact h.getElem i (by simp at hi; omega)

mutual
theorem chainWithTip_linked (tip : Nat) : ∀ (t : Tree CBlock) (p s : List CBlock), Linked t →
    Tree.chainWithTip CBlock.hash tip t = some (p, s) →
      LinkedChain (p.map (·.blk)) ∧ p.head? = some t.root
  | .node r cs, p, s, hl, hc => by
    simp only [Tree.chainWithTip] at hc
    split at hc
    · simp only [Option.some.injEq, Prod.mk.injEq] at hc
      obtain ⟨rfl, _⟩ := hc
      exact ⟨trivial, rfl⟩
    · split at hc
      · rename_i q s' hq
        simp only [Option.some.injEq, Prod.mk.injEq] at hc
        obtain ⟨rfl, _⟩ := hc
        obtain ⟨h1, y, hy, hprev⟩ := chainWithTipList_linked tip r.hash cs q s' hl hq
        refine ⟨?_, rfl⟩
        cases q with
        | nil => simp at hy
        | cons y' ys =>
          simp only [List.head?_cons, Option.some.injEq] at hy
          subst hy
          exact ⟨hprev, h1⟩
      · simp at hc
theorem chainWithTipList_linked (tip : Nat) (parent : Nat) : ∀ (cs : List (Tree CBlock))
    (p s : List CBlock), LinkedList parent cs →
    Tree.chainWithTipList CBlock.hash tip cs = some (p, s) →
      LinkedChain (p.map (·.blk)) ∧ ∃ y, p.head? = some y ∧ y.blk.prev = parent
  | [], p, s, _, hc => by simp [Tree.chainWithTipList] at hc
  | c :: cs, p, s, hl, hc => by
    simp only [Tree.chainWithTipList] at hc
    obtain ⟨hprev, hlc, hlcs⟩ := hl
    split at hc
    · rename_i x hx
      simp only [Option.some.injEq] at hc
      subst hc
      obtain ⟨h1, h2⟩ := chainWithTip_linked tip c p s hlc hx
      exact ⟨h1, c.root, h2, hprev⟩
    · exact chainWithTipList_linked tip parent cs p s hlcs hc
end

/-! ### a paused ingestion leaves the stable height unchanged -/

theorem removeInput_nextHeight (u : UtxoSet) (d : Delta) (o : OutPoint) (u' : UtxoSet) (d' : Delta)
    (h : u.removeInput d o = .ok u' d') : u'.nextHeight = u.nextHeight := by
  unfold UtxoSet.removeInput at h
  simp only at h
  repeat (any_goals (split at h))
  all_goals (first | (cases h; rfl) | cases h)

theorem insertOutput_nextHeight (u : UtxoSet) (d : Delta) (txid vout : Nat) (t : TxOut)
    (u' : UtxoSet) (d' : Delta) (h : u.insertOutput d txid vout t = .ok u' d') :
    u'.nextHeight = u.nextHeight := by
  unfold UtxoSet.insertOutput at h
  simp only at h
  repeat (any_goals (split at h))
  all_goals (first | (cases h; rfl) | cases h | skip)
  rename_i heq
  simp only
  repeat (any_goals (split at heq))
  all_goals (first | (cases heq; rfl) | cases heq)
theorem ingestLoop_paused_nextHeight : ∀ (fuel : Nat) (u : UtxoSet) (ing : Ingesting) (budget : Nat)
    (u' : UtxoSet), UtxoSet.ingestLoop fuel u ing budget = .paused u' → u'.nextHeight = u.nextHeight
  | 0, u, ing, budget, u', h => by simp [UtxoSet.ingestLoop] at h
  | fuel + 1, u, ing, budget, u', h => by
    unfold UtxoSet.ingestLoop at h
    repeat (any_goals (split at h))
    all_goals (first | (cases h; rfl) | cases h | skip)
    · rename_i heq
      rw [ingestLoop_paused_nextHeight fuel _ _ _ _ h]
      exact removeInput_nextHeight _ _ _ _ _ heq
    · rename_i heq
      rw [ingestLoop_paused_nextHeight fuel _ _ _ _ h]
      exact insertOutput_nextHeight _ _ _ _ _ _ _ heq
    · exact ingestLoop_paused_nextHeight fuel _ _ _ _ h

theorem ingestBlock_paused_nextHeight (u : UtxoSet) (b : Block) (budget : Nat) (u' : UtxoSet)
    (h : u.ingestBlock b budget = .paused u') : u'.nextHeight = u.nextHeight := by
  unfold UtxoSet.ingestBlock at h
  split at h
  · cases h
  · exact ingestLoop_paused_nextHeight _ _ _ _ _ h

end Btc
