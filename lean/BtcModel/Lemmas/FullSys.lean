import BtcModel.Spec.FullSys
import BtcModel.Lemmas.Reach2Paused
import BtcModel.Props.C10

/-!
  The message-level system of `Spec/FullSys.lean` is simulated by `Spec.step2`:

  * `Frame`: changes outside the ledger part preserve `Inv2` (`inv2_frame`);
  * `FrameRun`: runs of `step2` interleaved with such changes preserve `Inv2` (`frameRun_inv2`);
  * the pieces of the heartbeat as `FrameRun`s: the block loop (`processBlocks_sim`), the header
    loop (`insertNextHeaders_sim`), `maybe_process_response` (`processResponse_sim`), the fee
    percentiles (`finish_sim`).
-/
namespace Btc.Lemmas.FullSys
open Btc Btc.State Btc.Spec Btc.Spec.Full Btc.Lemmas.Reach Btc.Lemmas.Reach2 Btc.Lemmas.Fetch

/-! ### Frames -/

theorem Frame.refl (s : State) : Frame s s := ⟨rfl, rfl, rfl⟩

theorem Frame.trans {s s1 s2 : State} (h1 : Frame s s1) (h2 : Frame s1 s2) : Frame s s2 :=
  ⟨h2.utxos.trans h1.utxos, h2.unstable.trans h1.unstable, h2.headers.trans h1.headers⟩

theorem Frame.symm {s s1 : State} (h : Frame s s1) : Frame s1 s :=
  ⟨h.utxos.symm, h.unstable.symm, h.headers.symm⟩

/-- the full invariant only reads the stable set, the unstable blocks and the header store -/
theorem invAll_frame {s s' : State} {G : List Block} (hf : Frame s s') (h : InvAll s G) :
    InvAll s' G := by
  have hu := hf.unstable
  refine ⟨invU_transfer hf.utxos hf.headers (by rw [hu]) (by rw [hu])
    (by rw [hu]; exact h.invU.inv.caches.tipDepths) (by rw [hu]) (by intro tip; rw [hu])
    (by rw [hu]; exact h.invU.inv.linked) (by rw [hu]) h.invU, ?_,
    by rw [hf.headers]; exact h.headers⟩
  unfold NextInv
  rw [hu, hf.utxos]
  exact h.next

/-- `s'` with the ledger part of `st` -/
def reframe (s' st : State) : State :=
  { s' with utxos := st.utxos, unstable := st.unstable, headers := st.headers }

theorem reframe_eq {s s' : State} (hf : Frame s s') : reframe s' s = s' := by
  obtain ⟨h1, h2, h3⟩ := hf
  cases s'
  simp only at h1 h2 h3
  subst h1 h2 h3
  rfl

theorem frame_reframe (s' st : State) : Frame st (reframe s' st) := ⟨rfl, rfl, rfl⟩

/-- a paused state keeps being a paused copy when fields outside the ledger part change: the
    same change is applied to the state `s0` before the ingestion of the block began -/
theorem pausedAt'_frame {s0 s s' : State} {G : List Block} {A : CBlock} {B : Nat}
    (hf : Frame s s') (hA : InvAll s0 G) (hP : PausedAt' s0 s G A B) :
    InvAll (reframe s' s0) G ∧ PausedAt' (reframe s' s0) s' G A B := by
  have hA' : InvAll (reframe s' s0) G := invAll_frame (frame_reframe s' s0) hA
  refine ⟨hA', ?_⟩
  have := pausedAt'_map (s0 := s0) (s := s) (reframe s') A (fun _ _ _ => rfl) rfl rfl
    hP.base.anchor rfl hA'.invU.inv hP
  rwa [reframe_eq hf] at this

/-- **changes outside the ledger part preserve the invariant of the extended system** -/
theorem inv2_frame {s s' : State} {G : List Block} (hf : Frame s s') (h : Inv2 s G) : Inv2 s' G := by
  rcases h with hA | ⟨s0, A, B, hA, hP⟩
  · exact Or.inl (invAll_frame hf hA)
  · obtain ⟨h1, h2⟩ := pausedAt'_frame hf hA hP
    exact Or.inr ⟨_, A, B, h1, h2⟩

theorem paused_frame {s s' : State} (hf : Frame s s') : Paused s' ↔ Paused s := by
  unfold Paused; rw [hf.utxos]

/-! ### Runs -/

/-- **a run of `step2` steps interleaved with frame changes preserves the invariant** -/
theorem frameRun_inv2 {bound : Unstable.BoundFn} {sg sg' : State × List Block} {ops : List Op}
    (hr : FrameRun bound sg ops sg') (h : Inv2 sg.1 sg.2) : Inv2 sg'.1 sg'.2 := by
  induction hr with
  | nil sg => exact h
  | frame sg s1 ops sg2 hf _ ih => exact ih (inv2_frame hf h)
  | op sg o sg1 ops sg2 hd hs _ ih =>
    exact ih (step2_preserves_inv2 bound sg.1 sg.2 o sg1.1 sg1.2 h hd hs)

theorem frameRun_append {bound : Unstable.BoundFn} {sg sg1 sg2 : State × List Block}
    {ops1 ops2 : List Op} (h1 : FrameRun bound sg ops1 sg1) (h2 : FrameRun bound sg1 ops2 sg2) :
    FrameRun bound sg (ops1 ++ ops2) sg2 := by
  induction h1 with
  | nil sg => exact h2
  | frame sg s1 ops sg' hf _ ih => exact FrameRun.frame sg s1 _ sg2 hf (ih h2)
  | op sg o sg1' ops sg' hd hs _ ih => exact FrameRun.op sg o sg1' _ sg2 hd hs (ih h2)

theorem frameRun_frame (bound : Unstable.BoundFn) {s s' : State} (G : List Block) (hf : Frame s s') :
    FrameRun bound (s, G) [] (s', G) :=
  FrameRun.frame (s, G) s' [] (s', G) hf (FrameRun.nil _)

theorem frameRun_step (bound : Unstable.BoundFn) {sg sg' : State × List Block} {o : Op}
    (hd : Domain2 sg o) (hs : step2 bound sg o = some sg') : FrameRun bound sg [o] sg' :=
  FrameRun.op sg o sg' [] sg' hd hs (FrameRun.nil _)

/-- the ghost only grows along a run -/
theorem frameRun_ghost_prefix {bound : Unstable.BoundFn} {sg sg' : State × List Block}
    {ops : List Op} (hr : FrameRun bound sg ops sg') : sg.2 <+: sg'.2 := by
  induction hr with
  | nil sg => exact List.prefix_refl _
  | frame sg s1 ops sg2 _ _ ih => exact ih
  | op sg o sg1 ops sg2 _ hs _ ih =>
    exact (step2_ghost_prefix bound sg.1 sg.2 o sg1.1 sg1.2 hs).trans ih

/-! ### `insert_block` -/

theorem passes_of_ok {env : Env} {s s' : State} {b : Block} (h : insertBlock env s b = .ok s') :
    passesValidation env s b = true := by
  unfold insertBlock at h
  unfold passesValidation
  split at h
  · cases h
  · cases h
  · rename_i chain hc
    simp only [hc]
    split at h
    · cases h
    · cases h
    · rename_i hv
      simp only [hv]
      split at h
      · cases h
      · rename_i hb
        simp [hb]

/-- a block that passes validation is handed to `unstable_blocks::push`; the `expect` on the
    result is the only thing left that can go wrong -/
theorem insertBlock_of_passes {env : Env} {s : State} {b : Block}
    (h : passesValidation env s b = true) :
    insertBlock env s b =
      match s.unstable.push s.utxos b with
      | .ok u => .ok { s with unstable := u }
      | _ => .trap := by
  unfold passesValidation at h
  unfold insertBlock
  split at h
  · cases h
  · rename_i chain hc
    simp only [hc]
    split at h
    · rename_i hv
      simp only [hv]
      cases hb : validateBody b with
      | some e => rw [hb] at h; cases h
      | none => rfl
    · cases h

/-- a block in the domain of `push` that passes validation is accepted (no trap) -/
theorem accepted_of_passes {env : Env} {s : State} {G : List Block} {b : Block} (hU : InvU s G)
    (hd : PushDomain s G b) (h : passesValidation env s b = true) :
    ∃ u, s.unstable.push s.utxos b = .ok u ∧ insertBlock env s b = .ok { s with unstable := u } := by
  obtain ⟨u, hp, _⟩ := push_preserves_invU s G b hU hd
  refine ⟨u, hp, ?_⟩
  rw [insertBlock_of_passes h, hp]

/-- `insert_block` traps on a block that fails none of the checks only in the header validation
    library (an `expect` on a header-store lookup) -/
def headerTraps (env : Env) (s : State) (b : Block) : Prop :=
  ∃ chain, validationContext s (hdrOfBlock b) = .ok chain ∧
    Header.validateHeader s.network (validationStore s chain) (hdrOfBlock b) env.now = .trap

theorem insertBlock_trap_cases {env : Env} {s : State} {b : Block} (h : insertBlock env s b = .trap) :
    headerTraps env s b ∨
    (passesValidation env s b = true ∧ ∀ u, s.unstable.push s.utxos b ≠ .ok u) := by
  unfold insertBlock at h
  unfold headerTraps passesValidation
  split at h
  · cases h
  · cases h
  · rename_i chain hc
    simp only [hc]
    split at h
    · rename_i hv; exact Or.inl ⟨chain, rfl, hv⟩
    · cases h
    · rename_i hv
      simp only [hv]
      split at h
      · cases h
      · rename_i hb
        split at h
        · cases h
        · rename_i hn
          exact Or.inr ⟨by simp [hb], fun u hu => hn u hu⟩

/-! ### The block loop of `maybe_process_response` -/

theorem bump_frame_deser (s : State) : Frame s (Props.C10.bumpDeserialize s) := ⟨rfl, rfl, rfl⟩
theorem bump_frame_insert (s : State) : Frame s (Props.C10.bumpInsert s) := ⟨rfl, rfl, rfl⟩

/-- **The block loop is a sequence of `push` steps** for the accepted prefix of the delivered
    blobs; a blob that does not decode or is refused moves one error counter (a frame change) and
    ends the loop. -/
theorem processBlocks_sim (bound : Unstable.BoundFn) (env : Env) (G : List Block) :
    ∀ (blobs : List String) (s s1 : State) (stopped : Bool), s.utxos.ingesting = none →
      TrustedBlocks env G s blobs → processBlocks env s blobs = some (s1, stopped) →
      FrameRun bound (s, G) ((acceptedBlocks env s blobs).map Op.push) (s1, G)
  | [], s, s1, stopped, _, _, h => by
    simp only [processBlocks, Option.some.injEq, Prod.mk.injEq] at h
    obtain ⟨rfl, _⟩ := h
    exact FrameRun.nil _
  | blob :: rest, s, s1, stopped, hni, ht, h => by
    rw [Props.C10.processBlocks_cons] at h
    simp only [acceptedBlocks]
    cases hd : env.dec.block blob with
    | none =>
      rw [hd] at h
      simp only [Option.some.injEq, Prod.mk.injEq] at h
      obtain ⟨rfl, _⟩ := h
      exact frameRun_frame bound G (bump_frame_deser s)
    | some b =>
      rw [hd] at h
      simp only at h ⊢
      obtain ⟨ht1, ht2⟩ := ht b hd
      cases hi : insertBlock env s b with
      | trap => rw [hi] at h; cases h
      | rejected why =>
        rw [hi] at h
        simp only [Option.some.injEq, Prod.mk.injEq] at h
        obtain ⟨rfl, _⟩ := h
        exact frameRun_frame bound G (bump_frame_insert s)
      | ok s' =>
        rw [hi] at h
        simp only at h ⊢
        obtain ⟨u, hu, rfl⟩ := insertBlock_ok_eq hi
        have hstep : step2 bound (s, G) (.push b) = some ({ s with unstable := u }, G) := by
          simp only [step2, step, hu]
        refine FrameRun.op (s, G) (.push b) _ _ (s1, G) ⟨hni, ht1 (passes_of_ok hi)⟩ hstep ?_
        exact processBlocks_sim bound env G rest { s with unstable := u } s1 stopped hni (ht2 _ hi) h

/-- the states of the loop all have the stable set of the first -/
theorem processBlocks_utxos (env : Env) : ∀ (blobs : List String) (s s1 : State) (stopped : Bool),
    processBlocks env s blobs = some (s1, stopped) → s1.utxos = s.utxos
  | [], s, s1, stopped, h => by
    simp only [processBlocks, Option.some.injEq, Prod.mk.injEq] at h
    rw [← h.1]
  | blob :: rest, s, s1, stopped, h => by
    rw [Props.C10.processBlocks_cons] at h
    cases hd : env.dec.block blob with
    | none =>
      rw [hd] at h
      simp only [Option.some.injEq, Prod.mk.injEq] at h
      rw [← h.1]; rfl
    | some b =>
      rw [hd] at h
      simp only at h
      cases hi : insertBlock env s b with
      | trap => rw [hi] at h; cases h
      | rejected why =>
        rw [hi] at h
        simp only [Option.some.injEq, Prod.mk.injEq] at h
        rw [← h.1]; rfl
      | ok s' =>
        rw [hi] at h
        simp only at h
        obtain ⟨u, _, rfl⟩ := insertBlock_ok_eq hi
        exact processBlocks_utxos env rest { s with unstable := u } s1 stopped h

/-! ### The header loop -/

/-- **`insert_next_block_headers` is a sequence of `insertNext` steps** for the headers it
    stores (no other change at all). -/
theorem insertNextHeadersAll_sim (bound : Unstable.BoundFn) (env : Env) (G : List Block) :
    ∀ (raws : List String) (s s1 : State), insertNextHeadersAll env s raws = some s1 →
      (∀ h ∈ insertedHeadersAll env s raws, h.hash ∉ s.unstable.tree.blocks.map CBlock.hash) →
      FrameRun bound (s, G) ((insertedHeadersAll env s raws).map Op.insertNext) (s1, G)
  | [], s, s1, h, _ => by
    simp only [insertNextHeadersAll, Option.some.injEq] at h
    subst h
    exact FrameRun.nil _
  | raw :: rest, s, s1, h, ht => by
    unfold insertNextHeadersAll at h
    unfold insertedHeadersAll at ht ⊢
    cases hd : env.dec.header raw with
    | none =>
      rw [hd] at h
      simp only [Option.some.injEq] at h
      subst h
      exact FrameRun.nil _
    | some hdr =>
      rw [hd] at h
      simp only [hd] at h ht ⊢
      by_cases hk : (s.unstable.next.getHeader hdr.hash).isSome = true
      · simp only [hk, if_true] at h ht ⊢
        exact insertNextHeadersAll_sim bound env G rest s s1 h ht
      · simp only [hk, Bool.false_eq_true, if_false] at h ht ⊢
        cases hc : validationContextWithNext s (hdrOfNext hdr) with
        | error e =>
          rw [hc] at h
          simp only [Option.some.injEq] at h
          subst h
          exact FrameRun.nil _
        | ok chain =>
          rw [hc] at h
          simp only [hc] at h ht ⊢
          cases hv : Header.validateHeader s.network (validationStore s chain) (hdrOfNext hdr) env.now with
          | trap => rw [hv] at h; cases h
          | err e =>
            rw [hv] at h
            simp only [Option.some.injEq] at h
            subst h
            exact FrameRun.nil _
          | ok =>
            rw [hv] at h
            simp only [hv] at h ht ⊢
            cases hi : s.unstable.insertNextHeader hdr s.stableHeight with
            | none =>
              rw [hi] at h
              simp only [Option.some.injEq] at h
              subst h
              exact FrameRun.nil _
            | some u =>
              rw [hi] at h
              simp only [hi] at h ht ⊢
              have htree : u.tree = s.unstable.tree := insertNextHeader_tree hi
              have hstep : step2 bound (s, G) (.insertNext hdr) = some ({ s with unstable := u }, G) := by
                simp only [step2, step, hk, Bool.false_eq_true, if_false, hi]
              refine FrameRun.op (s, G) (.insertNext hdr) _ _ (s1, G)
                (ht hdr List.mem_cons_self) hstep ?_
              refine insertNextHeadersAll_sim bound env G rest _ s1 h ?_
              intro x hx
              show x.hash ∉ u.tree.blocks.map CBlock.hash
              rw [htree]
              exact ht x (List.mem_cons_of_mem _ hx)

/-- the same for the loop with the instruction check: only the first `env.headerSlots` blobs -/
theorem insertNextHeaders_sim (bound : Unstable.BoundFn) (env : Env) (G : List Block)
    (raws : List String) (s s1 : State) (h : insertNextHeaders env s raws = some s1)
    (ht : ∀ h ∈ insertedHeaders env s raws, h.hash ∉ s.unstable.tree.blocks.map CBlock.hash) :
    FrameRun bound (s, G) ((insertedHeaders env s raws).map Op.insertNext) (s1, G) :=
  insertNextHeadersAll_sim bound env G _ s s1 h ht

/-! ### `maybe_process_response` and the fee percentiles -/

theorem clearResponse_frame (s : State) :
    Frame s { s with syncing := { s.syncing with response := none } } := ⟨rfl, rfl, rfl⟩

/-- **`maybe_process_response` with a complete response stored** is: take the response (frame),
    a `push` for every accepted block, then (if no block was refused) an `insertNext` for every
    stored header. -/
theorem processResponse_sim (bound : Unstable.BoundFn) (env : Env) (s s' : State) (G : List Block)
    (r : CompleteResp) (hni : s.utxos.ingesting = none)
    (hr : s.syncing.response = some (.complete r)) (ht : TrustedResponse env s G)
    (h : processResponse env s = some s') :
    FrameRun bound (s, G) (processOps env s r) (s', G) := by
  obtain ⟨ht1, ht2⟩ := ht r hr
  simp only at ht1 ht2
  unfold processResponse at h
  rw [hr] at h
  simp only at h
  unfold processOps
  simp only
  refine FrameRun.frame (s, G) _ _ (s', G) (clearResponse_frame s) ?_
  cases hb : processBlocks env { s with syncing := { s.syncing with response := none } } r.blocks with
  | none => rw [hb] at h; cases h
  | some x =>
    obtain ⟨s1, stopped⟩ := x
    rw [hb] at h
    have hsim := processBlocks_sim bound env G r.blocks
      { s with syncing := { s.syncing with response := none } } s1 stopped hni ht1 hb
    cases stopped with
    | true =>
      simp only [Option.some.injEq] at h
      subst h
      simpa using hsim
    | false =>
      simp only at h ⊢
      exact frameRun_append hsim (insertNextHeaders_sim bound env G r.next s1 s' h (ht2 s1 hb))

/-- no complete response stored: nothing happens -/
theorem processResponse_idle (env : Env) (s s' : State)
    (hr : ∀ r, s.syncing.response ≠ some (.complete r)) (h : processResponse env s = some s') :
    s' = s := by
  rw [Props.C10.processResponse_noncomplete env s hr] at h
  exact (Option.some.inj h).symm

/-- the fee-percentile computation only writes the fee cache -/
theorem feePercentiles_frame {s s' : State} {n : Nat} {p : List Nat}
    (h : s.feePercentiles n = some (s', p)) : Frame s s' := by
  have := feePercentiles_eq h
  rw [this]
  exact ⟨rfl, rfl, rfl⟩

/-- **`maybe_process_response()`**, whatever is stored -/
theorem processResponse_run (bound : Unstable.BoundFn) (env : Env) (s s2 : State) (G : List Block)
    (hni : s.utxos.ingesting = none) (ht : TrustedResponse env s G)
    (hp : processResponse env s = some s2) :
    FrameRun bound (s, G) (finishOps env s) (s2, G) := by
  unfold finishOps
  cases hr : s.syncing.response with
  | none =>
    have := processResponse_idle env s s2 (by rw [hr]; intro r e; cases e) hp
    subst this
    exact FrameRun.nil _
  | some resp =>
    cases resp with
    | complete r => exact processResponse_sim bound env s s2 G r hni hr ht hp
    | partial_ p k =>
      have := processResponse_idle env s s2 (by rw [hr]; intro r e; cases e) hp
      subst this
      exact FrameRun.nil _

/-- **`maybe_process_response(); maybe_compute_fee_percentiles()`** -/
theorem finish_sim (bound : Unstable.BoundFn) (env : Env) (s s' : State) (G : List Block)
    (hni : s.utxos.ingesting = none) (ht : TrustedResponse env s G)
    (h : finish env s = .processed s') :
    FrameRun bound (s, G) (finishOps env s) (s', G) := by
  unfold finish at h
  cases hp : processResponse env s with
  | none => rw [hp] at h; cases h
  | some s2 =>
    rw [hp] at h
    simp only at h
    have h2 := processResponse_run bound env s s2 G hni ht hp
    have h3 : Frame s2 s' := by
      split at h
      · cases h; exact Frame.refl _
      · split at h
        · cases h
        · rename_i s3 p hf
          cases h
          exact feePercentiles_frame hf
    have := frameRun_append h2 (frameRun_frame bound G h3)
    simpa using this

/-! ### The ingestion part -/

/-- `Slicing::Done(false)`: no block was being ingested and nothing was touched -/
theorem ingestStable_done_false' {bound : Unstable.BoundFn} {s s' : State} {budget : Nat}
    (h : ingestStable bound s budget = .done s' false) : s' = s ∧ s.utxos.ingesting = none := by
  refine ⟨ingestStable_done_false h, ?_⟩
  unfold ingestStable at h
  dsimp only at h
  cases hc : s.utxos.ingestContinue budget with
  | none =>
    unfold UtxoSet.ingestContinue at hc
    cases hi : s.utxos.ingesting with
    | none => rfl
    | some ing => rw [hi] at hc; cases hc
  | some r =>
    rw [hc] at h
    cases r with
    | trap m => cases h
    | paused u => cases h
    | done u b =>
      simp only at h
      split at h
      · cases h
      · exact absurd (ingestNewStable_true _ _ _ _ _ _ h) (by simp)

theorem pastIngestion_iff {env : Env} {s : State} {budget : Nat} :
    pastIngestion env s budget = true ↔ s.ingestStable env.bound budget = .done s false := by
  unfold pastIngestion
  constructor
  · intro h
    split at h
    · rename_i s' hs
      rw [(ingestStable_done_false' hs).1] at hs
      exact hs
    · cases h
  · intro h
    rw [h]

end Btc.Lemmas.FullSys
