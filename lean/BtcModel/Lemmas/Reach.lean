import BtcModel.Spec.Reach
import BtcModel.Props.InvPush
import BtcModel.Props.InvIngest

/-!
  The extended invariant `Spec.InvU` holds in every state of the transition system of
  `Spec/Reach.lean` (`reachable_inv`).  Ingredients: `State.new` (from `InvPush`), `push`
  (`push_preserves_invU`), the ingestion loop (`ingest_stable_preserves_invU`, which also
  records the sequence of `pop`s as `Spec.PopSteps`), `set_config` and `upgrade`
  (`inv_transfer`: the invariant only reads the blocks of the tree, not their cached metrics).
-/
namespace Btc.Lemmas.Reach
open Btc Btc.Spec Btc.Tree

/-! ### `mapT` (`clear_all_metrics`) -/

section MapT
variable {α β : Type}

mutual
theorem blocks_mapT (f : α → β) : ∀ t : Tree α, (mapT f t).blocks = t.blocks.map f
  | .node r cs => by simp [mapT, blocks, blocksList_mapT f cs]
theorem blocksList_mapT (f : α → β) :
    ∀ cs : List (Tree α), blocksList (mapTList f cs) = (blocksList cs).map f
  | [] => rfl
  | c :: cs => by simp [mapTList, blocksList, blocks_mapT f c, blocksList_mapT f cs]
end

theorem root_mapT (f : α → β) : ∀ t : Tree α, (mapT f t).root = f t.root
  | .node r cs => rfl

theorem rootsOf_mapT (f : α → β) : ∀ cs : List (Tree α), rootsOf (mapTList f cs) = (rootsOf cs).map f
  | [] => rfl
  | .node r _ :: cs => by simp [mapTList, mapT, rootsOf, rootsOf_mapT f cs]

mutual
theorem chainWithTip_mapT (f : α → β) (h : β → Nat) (h' : α → Nat) (hh : ∀ a, h (f a) = h' a)
    (tip : Nat) : ∀ t : Tree α, chainWithTip h tip (mapT f t) =
      (chainWithTip h' tip t).map (fun p => (p.1.map f, p.2.map f))
  | .node r cs => by
    simp only [mapT, chainWithTip, hh]
    split
    · simp [rootsOf_mapT]
    · rw [chainWithTipList_mapT f h h' hh tip cs]
      cases chainWithTipList h' tip cs <;> simp
theorem chainWithTipList_mapT (f : α → β) (h : β → Nat) (h' : α → Nat) (hh : ∀ a, h (f a) = h' a)
    (tip : Nat) : ∀ cs : List (Tree α), chainWithTipList h tip (mapTList f cs) =
      (chainWithTipList h' tip cs).map (fun p => (p.1.map f, p.2.map f))
  | [] => rfl
  | c :: cs => by
    simp only [mapTList, chainWithTipList]
    rw [chainWithTip_mapT f h h' hh tip c, chainWithTipList_mapT f h h' hh tip cs]
    cases chainWithTip h' tip c <;> simp
end

mutual
theorem tipDepthsFrom_mapT (f : α → β) : ∀ (t : Tree α) (k : Nat),
    tipDepthsFrom (mapT f t) k = tipDepthsFrom t k
  | .node r [], k => by simp [mapT, mapTList, tipDepthsFrom]
  | .node r (c :: cs), k => by
    have := tipDepthsRev_mapT f (c :: cs) (k + 1)
    simp only [mapTList] at this
    simp only [mapT, mapTList, tipDepthsFrom]
    exact this
theorem tipDepthsRev_mapT (f : α → β) : ∀ (cs : List (Tree α)) (k : Nat),
    tipDepthsRev (mapTList f cs) k = tipDepthsRev cs k
  | [], _ => rfl
  | c :: cs, k => by
    simp only [mapTList, tipDepthsRev]
    rw [tipDepthsRev_mapT f cs k, tipDepthsFrom_mapT f c k]
end

theorem tipDepths_mapT (f : α → β) (t : Tree α) : (mapT f t).tipDepths = t.tipDepths :=
  tipDepthsFrom_mapT f t 1

end MapT

mutual
theorem linked_mapT (f : CBlock → CBlock) (hf : ∀ c, (f c).blk = c.blk) :
    ∀ t : Tree CBlock, Linked t → Linked (mapT f t)
  | .node r cs, h => by
    simp only [mapT, Linked] at h ⊢
    have : (f r).hash = r.hash := by simp [CBlock.hash, hf]
    rw [this]
    exact linkedList_mapT f hf r.hash cs h
theorem linkedList_mapT (f : CBlock → CBlock) (hf : ∀ c, (f c).blk = c.blk) (parent : Nat) :
    ∀ cs : List (Tree CBlock), LinkedList parent cs → LinkedList parent (mapTList f cs)
  | [], _ => by simp [mapTList, LinkedList]
  | c :: cs, h => by
    simp only [mapTList, LinkedList] at h ⊢
    refine ⟨?_, linked_mapT f hf c h.2.1, linkedList_mapT f hf parent cs h.2.2⟩
    rw [root_mapT, hf]
    exact h.1
end

theorem pathBlocks_mapT (f : CBlock → CBlock) (hf : ∀ c, (f c).blk = c.blk) (t : Tree CBlock)
    (tip : Nat) : pathBlocks (mapT f t) tip = pathBlocks t tip := by
  unfold pathBlocks
  rw [chainWithTip_mapT f CBlock.hash CBlock.hash (fun a => by simp [CBlock.hash, hf]) tip t]
  cases chainWithTip CBlock.hash tip t with
  | none => rfl
  | some p =>
    simp only [Option.map_some, List.map_map, Option.some.injEq]
    apply List.map_congr_left
    intro c _
    exact hf c

/-! ### The invariant only reads the blocks of the tree -/

theorem map_hash_eq (l : List CBlock) : l.map CBlock.hash = (l.map (·.blk)).map (·.hash) := by
  rw [List.map_map]; rfl

theorem refCount_eq_blk (t : Tree CBlock) (o : OutPoint) :
    refCount t o = ((t.blocks.map (·.blk)).flatMap blockRefs).count o := by
  unfold refCount
  rw [List.flatMap_map]

theorem mem_blocks_of_blkEq {t t' : Tree CBlock}
    (hblk : t'.blocks.map (·.blk) = t.blocks.map (·.blk)) {b : CBlock} (hb : b ∈ t'.blocks) :
    ∃ b0 ∈ t.blocks, b0.blk = b.blk := by
  have : b.blk ∈ t'.blocks.map (·.blk) := List.mem_map.mpr ⟨b, hb, rfl⟩
  rw [hblk] at this
  obtain ⟨b0, h0, e⟩ := List.mem_map.mp this
  exact ⟨b0, h0, e⟩

/-- **Transfer**: a state with the same stable part, header store and caches, whose tree has the
    same blocks (as blocks: the cached metrics may differ), the same root paths and a recomputed
    tip-depth cache, satisfies the invariant again. -/
theorem inv_transfer {s s' : State} {G : List Block}
    (hu : s'.utxos = s.utxos) (hh : s'.headers = s.headers)
    (hc : s'.unstable.cache = s.unstable.cache)
    (hb : s'.unstable.blockCache = s.unstable.blockCache)
    (htd : s'.unstable.tipDepthsCache = s'.unstable.tree.tipDepths)
    (hblk : s'.unstable.tree.blocks.map (·.blk) = s.unstable.tree.blocks.map (·.blk))
    (hpath : ∀ tip, pathBlocks s'.unstable.tree tip = pathBlocks s.unstable.tree tip)
    (hlinked : Linked s'.unstable.tree)
    (hroot : s'.unstable.tree.root.blk = s.unstable.tree.root.blk)
    (hinv : Inv s G) : Inv s' G := by
  have hhash : s'.unstable.tree.blocks.map CBlock.hash = s.unstable.tree.blocks.map CBlock.hash := by
    rw [map_hash_eq, map_hash_eq, hblk]
  have hC := hinv.caches
  refine ⟨by rw [hu]; exact hinv.heightEq, by rw [hu]; exact hinv.stable, hlinked, ?_, ?_, ?_, ?_, ?_,
    hinv.stableLinked, ?_, ?_, ?_⟩
  · rw [hroot]; exact hinv.rootLinked
  · rw [hblk]; exact hinv.hashesNodup
  · rw [hblk]
    refine ⟨?_, ?_, ?_, ?_, ?_, ?_, ?_, htd⟩
    · intro b hb' a
      obtain ⟨b0, h0, e⟩ := mem_blocks_of_blkEq hblk hb'
      have := hC.added b0 h0 a
      rw [hc]
      simpa [CBlock.hash, e] using this
    · intro b hb' a
      obtain ⟨b0, h0, e⟩ := mem_blocks_of_blkEq hblk hb'
      have := hC.removed b0 h0 a
      rw [hc]
      simpa [CBlock.hash, e] using this
    · intro h; rw [hc, hhash]; exact hC.addedKeys h
    · intro h; rw [hc, hhash]; exact hC.removedKeys h
    · rw [hc]; exact hC.txOutsNodup
    · intro o
      have := hC.txOuts o
      rw [hc, refCount_eq_blk, hblk, ← refCount_eq_blk]
      exact this
    · intro h; rw [hb, hhash]; exact hC.blockCache h
  · rw [hblk]; exact hinv.txids
  · intro tip p hp
    rw [hpath] at hp
    exact hinv.valid tip p hp
  · rw [hh]; exact hinv.headers
  · rw [hh]; exact hinv.headersOnly
  · rw [hh]; exact hinv.headersByHash

theorem invU_transfer {s s' : State} {G : List Block}
    (hu : s'.utxos = s.utxos) (hh : s'.headers = s.headers)
    (hc : s'.unstable.cache = s.unstable.cache)
    (hb : s'.unstable.blockCache = s.unstable.blockCache)
    (htd : s'.unstable.tipDepthsCache = s'.unstable.tree.tipDepths)
    (hblk : s'.unstable.tree.blocks.map (·.blk) = s.unstable.tree.blocks.map (·.blk))
    (hpath : ∀ tip, pathBlocks s'.unstable.tree tip = pathBlocks s.unstable.tree tip)
    (hlinked : Linked s'.unstable.tree)
    (hroot : s'.unstable.tree.root.blk = s.unstable.tree.root.blk)
    (hinv : InvU s G) : InvU s' G := by
  refine ⟨inv_transfer hu hh hc hb htd hblk hpath hlinked hroot hinv.inv, ?_, by rw [hb]; exact hinv.blockCacheNodup⟩
  intro tip p hp
  rw [hpath] at hp
  exact hinv.unique tip p hp

/-! ### `set_config` and `upgrade` -/

/-- `set_config` touches only the syncing flag, the fees, the stability threshold and the API
    flags. -/
theorem setConfig_frame (s : State) (c : State.SetConfig) :
    (s.setConfig c).utxos = s.utxos ∧ (s.setConfig c).headers = s.headers ∧
    (s.setConfig c).unstable.tree = s.unstable.tree ∧
    (s.setConfig c).unstable.cache = s.unstable.cache ∧
    (s.setConfig c).unstable.blockCache = s.unstable.blockCache ∧
    (s.setConfig c).unstable.tipDepthsCache = s.unstable.tipDepthsCache ∧
    (s.setConfig c).unstable.next = s.unstable.next ∧
    (s.setConfig c).unstable.net = s.unstable.net := by
  rcases c with ⟨_ | _, _ | _, _ | _, _ | _, _ | _, _ | _⟩ <;>
    exact ⟨rfl, rfl, rfl, rfl, rfl, rfl, rfl, rfl⟩

theorem setConfig_preserves_invU (s : State) (G : List Block) (c : State.SetConfig)
    (h : InvU s G) : InvU (s.setConfig c) G := by
  obtain ⟨h1, h2, h3, h4, h5, h6, _, _⟩ := setConfig_frame s c
  apply invU_transfer h1 h2 h4 h5 (by rw [h6, h3]; exact h.inv.caches.tipDepths) (by rw [h3])
    (by intro tip; rw [h3]) (by rw [h3]; exact h.inv.linked) (by rw [h3]) h

/-- the metric-clearing map of `clear_all_metrics` -/
def clearF (c : CBlock) : CBlock := { c with feeRates := none, utxoDelta := 0 }

theorem clearF_blk (c : CBlock) : (clearF c).blk = c.blk := rfl

/-- the state between `pre_upgrade`/`post_upgrade` and the application of the new config -/
def upgraded (s : State) : State :=
  { s with syncing := { s.syncing with isFetching := false, response := none },
           unstable := { s.unstable.clearMetrics with tipDepthsCache := s.unstable.tree.tipDepths } }

theorem upgrade_eq (s : State) (c : Option State.SetConfig) :
    s.upgrade c = match c with
      | some c => (upgraded s).setConfig c
      | none => upgraded s := by
  cases c <;> rfl

theorem upgraded_tree (s : State) : (upgraded s).unstable.tree = mapT clearF s.unstable.tree := rfl

/-- the tip-depth cache is exact right after an upgrade, whatever the state was before -/
theorem upgraded_tipDepths (s : State) :
    (upgraded s).unstable.tipDepthsCache = (upgraded s).unstable.tree.tipDepths := by
  rw [upgraded_tree, tipDepths_mapT]
  rfl

theorem upgraded_preserves_invU (s : State) (G : List Block) (h : InvU s G) :
    InvU (upgraded s) G := by
  apply invU_transfer (s := s) (s' := upgraded s) rfl rfl rfl rfl (upgraded_tipDepths s) ?_ ?_ ?_ ?_ h
  · rw [upgraded_tree, blocks_mapT, List.map_map]
    apply List.map_congr_left
    intro c _; rfl
  · intro tip
    rw [upgraded_tree]
    exact pathBlocks_mapT clearF clearF_blk _ tip
  · rw [upgraded_tree]
    exact linked_mapT clearF clearF_blk _ h.inv.linked
  · rw [upgraded_tree, root_mapT]
    rfl

theorem upgrade_preserves_invU (s : State) (G : List Block) (c : Option State.SetConfig)
    (h : InvU s G) : InvU (s.upgrade c) G := by
  rw [upgrade_eq]
  cases c with
  | none => exact upgraded_preserves_invU s G h
  | some c => exact setConfig_preserves_invU _ G c (upgraded_preserves_invU s G h)

/-- **`upgrade` recomputes the tip-depth cache**: it is exact right after `post_upgrade`, for
    every pre-state. -/
theorem upgrade_tipDepths (s : State) (c : Option State.SetConfig) :
    (s.upgrade c).unstable.tipDepthsCache = (s.upgrade c).unstable.tree.tipDepths := by
  rw [upgrade_eq]
  cases c with
  | none => exact upgraded_tipDepths s
  | some c =>
    obtain ⟨_, _, h3, _, _, h6, _, _⟩ := setConfig_frame (upgraded s) c
    simp only
    rw [h6, h3]
    exact upgraded_tipDepths s

/-! ### `push` -/

open Btc.TreeExtend Btc.Props.InvPush in
/-- **`push` preserves the extended invariant** for a block in the domain. -/
theorem push_preserves_invU (s : State) (G : List Block) (b : Block) (h : InvU s G)
    (hd : PushDomain s G b) :
    ∃ u', s.unstable.push s.utxos b = .ok u' ∧ InvU { s with unstable := u' } G ∧
      ∃ cb : CBlock, cb.blk = b ∧ u'.tree.blocks.Perm (cb :: s.unstable.tree.blocks) ∧
        u'.next = s.unstable.next.remove b.hash ∧ u'.thr = s.unstable.thr ∧
        u'.net = s.unstable.net := by
  obtain ⟨pc, sc, cache', m, tree', hcw, hio, hres, he, hpush⟩ :=
    push_steps s G b h.inv hd.fresh hd.parent hd.valid hd.consistent
  obtain ⟨u', hp', hI⟩ := push_preserves_inv s G b h.inv hd.fresh hd.parent hd.valid hd.consistent
  rw [hpush] at hp'
  injection hp' with hp'
  subst hp'
  have hP : pathBlocks s.unstable.tree b.prev = some (pc.map (·.blk)) := by
    simp [pathBlocks, hcw]
  have hfreshT : b.hash ∉ s.unstable.tree.blocks.map CBlock.hash := by
    intro hm
    apply hd.fresh
    rw [List.map_append, map_hash_blk]
    exact List.mem_append_right _ hm
  refine ⟨_, hpush, ⟨hI, ?_, ?_⟩, ⟨_, rfl, extend_blocks_perm CBlock.hash b.prev _ _ _ he, rfl, rfl, rfl⟩⟩
  · -- unique
    intro tip p hp
    by_cases ht : tip = b.hash
    · subst ht
      obtain ⟨p0, s0, e1, e2⟩ := chainWithTip_extend_new CBlock.hash b.prev
        (CBlock.mk b (some m.feeRates) m.utxoDelta) _ _ he hfreshT
      rw [hcw] at e1
      simp only [Option.some.injEq, Prod.mk.injEq] at e1
      obtain ⟨rfl, -⟩ := e1
      have e2' : Tree.chainWithTip CBlock.hash b.hash tree' =
          some (pc ++ [CBlock.mk b (some m.feeRates) m.utxoDelta], []) := e2
      simp only [pathBlocks, e2', Option.map_some, Option.some.injEq] at hp
      subst hp
      simpa using hd.unique _ hP
    · have := chainWithTip_extend_ne CBlock.hash b.prev
        (CBlock.mk b (some m.feeRates) m.utxoDelta) tip ht _ _ he
      apply h.unique tip p
      simp only [pathBlocks] at hp ⊢
      rw [← hp]
      have e : ∀ (x : Option (List CBlock × List CBlock)),
          x.map (fun p => p.1.map (·.blk)) = (x.map (·.1)).map (List.map (·.blk)) := by
        intro x; cases x <;> rfl
      rw [e, e, this]
  · -- blockCacheNodup
    show (if s.unstable.blockCache.contains b.hash then s.unstable.blockCache
      else s.unstable.blockCache ++ [b.hash]).Nodup
    split
    · exact h.blockCacheNodup
    · rename_i hc
      rw [List.nodup_append]
      refine ⟨h.blockCacheNodup, by simp, ?_⟩
      intro a ha c hcm
      simp only [List.mem_singleton] at hcm
      subst hcm
      intro e
      subst e
      exact hc (List.contains_iff_mem.mpr ha)

/-! ### `pop` -/

/-- what a successful `pop` does to the components of `UnstableBlocks` -/
theorem pop_ok_shape (bound : Unstable.BoundFn) (u u' : Unstable) (sh : Nat) (b : Block)
    (h : u.pop bound sh = .ok u' b) :
    ∃ r cs idx, u.tree = .node r cs ∧ cs[idx]? = some u'.tree ∧ b = r.blk ∧
      u'.next = u.next.removeUntil sh ∧
      u'.blockCache = u.blockCache.filter (fun h =>
        !(((Tree.node r (cs.eraseIdx idx)).blocks.map CBlock.hash).contains h)) ∧
      u'.thr = u.thr ∧ u'.net = u.net := by
  unfold Unstable.pop at h
  cases hs : Unstable.stableChildIdx bound u with
  | none => simp [hs] at h
  | some idx =>
    cases ht : u.tree with
    | node r cs =>
      simp only [hs, ht] at h
      cases hc : cs[idx]? with
      | none => simp [hc] at h
      | some child =>
        simp only [hc] at h
        split at h
        · cases h
        · split at h
          · cases h
          · simp only [Unstable.PopResult.ok.injEq] at h
            obtain ⟨hu, hb⟩ := h
            subst hu
            exact ⟨r, cs, idx, rfl, hc, hb.symm, rfl, rfl, rfl, rfl⟩

theorem tree_hashes_nodup {s : State} {G : List Block} (hinv : Inv s G) :
    (s.unstable.tree.blocks.map CBlock.hash).Nodup := by
  have := hinv.hashesNodup
  rw [List.map_append, List.nodup_append] at this
  have h2 := this.2.1
  rw [List.map_map] at h2
  exact h2

theorem pathBlocks_root' (t : Tree CBlock) : pathBlocks t t.root.hash = some [t.root.blk] := by
  cases t with
  | node r cs => exact Btc.Props.InvIngest.pathBlocks_root r cs

theorem child_hashes_nodup {r : CBlock} {cs : List (Tree CBlock)} {i : Nat} {c : Tree CBlock}
    (hc : cs[i]? = some c) (hnd : ((Tree.node r cs).blocks.map CBlock.hash).Nodup) :
    (c.blocks.map CBlock.hash).Nodup := by
  simp only [Tree.blocks, List.map_cons, List.nodup_cons] at hnd
  exact ((Tree.blocks_child_sublist cs i c hc).map _).nodup hnd.2

/-- the successively popped anchors, followed by the final anchor, are a root path of the
    original tree -/
theorem popSteps_path (bound : Unstable.BoundFn) {u u' : Unstable} {n : Nat} {popped : List Block}
    (h : PopSteps bound u n popped u') :
    (u.tree.blocks.map CBlock.hash).Nodup →
    pathBlocks u.tree u'.tree.root.hash = some (popped ++ [u'.tree.root.blk]) := by
  induction h with
  | nil u n => intro _; simpa using pathBlocks_root' u.tree
  | cons u n b u1 bs u2 hpop _ ih =>
    intro hnd
    obtain ⟨r, cs, idx, ht, hc, hb, _⟩ := pop_ok_shape bound u u1 (n + 1) b hpop
    rw [ht] at hnd ⊢
    have := ih (child_hashes_nodup hc hnd)
    rw [pathBlocks_of_child r cs idx u1.tree _ _ hnd hc this, hb]
    rfl

theorem popSteps_sublist (bound : Unstable.BoundFn) {u u' : Unstable} {n : Nat} {popped : List Block}
    (h : PopSteps bound u n popped u') : u'.tree.blocks.Sublist u.tree.blocks := by
  induction h with
  | nil u n => exact List.Sublist.refl _
  | cons u n b u1 bs u2 hpop _ ih =>
    obtain ⟨r, cs, idx, ht, hc, _⟩ := pop_ok_shape bound u u1 (n + 1) b hpop
    rw [ht]
    simp only [Tree.blocks]
    exact (ih.trans (Tree.blocks_child_sublist cs idx u1.tree hc)).trans (List.sublist_cons_self _ _)

/-! ### The ingestion loop -/

open Btc.Props.InvIngest Btc.UtxoSet

/-- one iteration of the loop, for the extended invariant; also exhibits the `pop` -/
theorem ingest_step_U (bound : Unstable.BoundFn) (s : State) (G : List Block)
    (budget : Nat) (anchor : CBlock) (hI : InvU s G)
    (hpeek : Unstable.peek bound s.unstable = some anchor) :
    (budget < blockWork anchor.blk ∧ (s.utxos.ingestBlock anchor.blk budget).isPaused) ∨
    (blockWork anchor.blk ≤ budget ∧ ∃ u' s2,
      s.utxos.ingestBlock anchor.blk budget = .done u' (budget - blockWork anchor.blk) ∧
      State.popBlock bound
        { s with headers := s.headers.insert anchor.blk s.utxos.nextHeight, utxos := u' }
        anchor.blk.hash = some s2 ∧
      InvU s2 (G ++ [anchor.blk]) ∧ Frame s s2 ∧
      s2.headers = s.headers.insert anchor.blk G.length ∧
      s2.unstable.tree.blocksCount < s.unstable.tree.blocksCount ∧
      Unstable.pop bound s.unstable (G.length + 1) = .ok s2.unstable anchor.blk) := by
  rcases ingest_step_preserves_inv bound s G budget anchor hI.inv hpeek with
    h1 | ⟨h1, u', s2, hu', hpop, hI2, hF, hH, hlt⟩
  · exact Or.inl h1
  · right
    have key : ∃ r cs idx, s2.utxos = u' ∧ s.unstable.tree = .node r cs ∧
        cs[idx]? = some s2.unstable.tree ∧ anchor = r ∧
        Unstable.pop bound s.unstable u'.nextHeight = .ok s2.unstable r.blk ∧
        s2.unstable.blockCache = s.unstable.blockCache.filter (fun h =>
          !(((Tree.node r (cs.eraseIdx idx)).blocks.map CBlock.hash).contains h)) := by
      have hpop' := hpop
      unfold State.popBlock at hpop'
      simp only at hpop'
      cases hp : Unstable.pop bound s.unstable u'.nextHeight with
      | none_ => rw [hp] at hpop'; cases hpop'
      | trap m => rw [hp] at hpop'; cases hpop'
      | ok un b =>
        rw [hp] at hpop'
        simp only at hpop'
        split at hpop'
        · simp only [Option.some.injEq] at hpop'
          have hun : s2.unstable = un := by rw [← hpop']
          have hut : s2.utxos = u' := by rw [← hpop']
          obtain ⟨r, cs, idx, ht, hc, hb, _, hbc, _⟩ := pop_ok_shape bound _ _ _ _ hp
          obtain ⟨_, _, hanchor⟩ := peek_eq bound s.unstable anchor hpeek
          have hr : anchor = r := by rw [hanchor, ht]; rfl
          rw [hun]
          exact ⟨r, cs, idx, hut, ht, hc, hr, by rw [hb], hbc⟩
        · cases hpop'
    obtain ⟨r, cs, idx, hut, ht, hc, hr, hp, hbc⟩ := key
    refine ⟨h1, u', s2, hu', hpop, ⟨hI2, ?_, ?_⟩, hF, hH, hlt, ?_⟩
    · intro tip p hpp
      have hnd := tree_hashes_nodup hI.inv
      rw [ht] at hnd
      have := hI.unique tip _ (by
        rw [ht]; exact pathBlocks_of_child r cs idx s2.unstable.tree tip p hnd hc hpp)
      rw [hr]
      simpa using this
    · rw [hbc]
      exact (List.filter_sublist).nodup hI.blockCacheNodup
    · have hh := hI2.heightEq
      rw [hut] at hh
      simp only [List.length_append, List.length_singleton] at hh
      rw [← hh, hp, hr]

/-- the result of the loop, as a predicate on the three possible outcomes -/
def LoopPostU (bound : Unstable.BoundFn) (s : State) (G : List Block) (w : Bool) (fuelOk : Prop) :
    State.IngestResult → Prop
  | .trap _ => False
  | .paused _ => True
  | .done s' w' => ∃ popped : List Block, InvU s' (G ++ popped) ∧
      s'.utxos.nextHeight = G.length + popped.length ∧
      s'.headers = insertHeaders s.headers popped G.length ∧
      Frame s s' ∧ w' = (w || !popped.isEmpty) ∧
      (fuelOk → Unstable.peek bound s'.unstable = none) ∧
      PopSteps bound s.unstable G.length popped s'.unstable

theorem ingestNewStable_preserves_invU (bound : Unstable.BoundFn) :
    ∀ (fuel : Nat) (s : State) (G : List Block) (budget : Nat) (w : Bool), InvU s G →
      LoopPostU bound s G w (s.unstable.tree.blocksCount < fuel)
        (State.ingestNewStable bound fuel s budget w)
  | 0, s, G, budget, w, hI => by
    simp only [State.ingestNewStable, LoopPostU]
    exact ⟨[], by simpa using hI, by simp [hI.inv.heightEq], rfl, Frame.refl s, by simp, by omega,
      PopSteps.nil _ _⟩
  | fuel + 1, s, G, budget, w, hI => by
    cases hpeek : Unstable.peek bound s.unstable with
    | none =>
      simp only [State.ingestNewStable, hpeek, LoopPostU]
      exact ⟨[], by simpa using hI, by simp [hI.inv.heightEq], rfl, Frame.refl s, by simp,
        by intro _; first | trivial | exact hpeek, PopSteps.nil _ _⟩
    | some anchor =>
      simp only [State.ingestNewStable, hpeek]
      rcases ingest_step_U bound s G budget anchor hI hpeek with
        ⟨_, h2⟩ | ⟨_, u', s2, hu', hpop, hI2, hF, hH, hlt, hpp⟩
      · cases hr : s.utxos.ingestBlock anchor.blk budget with
        | paused up => simp only [LoopPostU]
        | done a b => rw [hr] at h2; cases h2
        | trap m => rw [hr] at h2; cases h2
      · rw [hu']
        simp only
        rw [hpop]
        simp only
        have ih := ingestNewStable_preserves_invU bound fuel s2 (G ++ [anchor.blk])
          (budget - blockWork anchor.blk) true hI2
        cases hres : State.ingestNewStable bound fuel s2 (budget - blockWork anchor.blk) true with
        | trap m => rw [hres] at ih; exact ih
        | paused sp => simp only [LoopPostU]
        | done s' w' =>
          rw [hres] at ih
          obtain ⟨popped, i1, i2, i3, i4, i5, i6, i7⟩ := ih
          refine ⟨anchor.blk :: popped, by simpa using i1, ?_, ?_, hF.trans i4, ?_, ?_, ?_⟩
          · rw [i2]; simp only [List.length_append, List.length_cons, List.length_nil]; omega
          · rw [i3, hH]
            simp [insertHeaders]
          · simp [i5]
          · intro hf
            exact i6 (by omega)
          · refine PopSteps.cons _ _ _ _ _ _ hpp ?_
            simpa using i7

/-- **`ingest_stable_blocks_into_utxoset` preserves the extended invariant** whenever it does not
    pause (it never traps); the ghost is extended by the popped anchors, which `Spec.PopSteps`
    ties to the successive calls of `pop`. -/
theorem ingest_stable_preserves_invU (bound : Unstable.BoundFn) (s : State) (G : List Block)
    (budget : Nat) (hI : InvU s G) :
    match s.ingestStable bound budget with
    | .trap _ => False
    | .paused _ => True
    | .done s' w => ∃ popped : List Block, InvU s' (G ++ popped) ∧
        s'.utxos.nextHeight = G.length + popped.length ∧
        s'.headers = insertHeaders s.headers popped G.length ∧
        Frame s s' ∧ w = !popped.isEmpty ∧ Unstable.peek bound s'.unstable = none ∧
        PopSteps bound s.unstable G.length popped s'.unstable ∧
        poppedAnchors s s' = popped := by
  have hni : s.utxos.ingestContinue budget = none := by
    simp [UtxoSet.ingestContinue, hI.inv.stable.notIngesting]
  have h := ingestNewStable_preserves_invU bound (s.unstable.tree.blocksCount + 1) s G budget false hI
  unfold State.ingestStable
  simp only [hni]
  cases hres : State.ingestNewStable bound (s.unstable.tree.blocksCount + 1) s budget false with
  | trap m => rw [hres] at h; exact h
  | paused sp => trivial
  | done s' w =>
    rw [hres] at h
    obtain ⟨popped, i1, i2, i3, i4, i5, i6, i7⟩ := h
    refine ⟨popped, i1, i2, i3, i4, by simpa using i5, i6 (by omega), i7, ?_⟩
    unfold poppedAnchors
    rw [popSteps_path bound i7 (tree_hashes_nodup hI.inv)]
    simp

/-! ### Initial state -/

theorem new_shape' {thr : Nat} {net : Tree.Net} {genesis : Block} {s0 : State}
    (h : State.new thr net genesis = some s0) :
    s0.utxos = {} ∧ s0.headers = {} ∧ s0.unstable.blockCache = [genesis.hash] ∧
      s0.unstable.next = {} ∧ ∃ fr d, s0.unstable.tree = Tree.leaf ⟨genesis, fr, d⟩ := by
  unfold State.new Unstable.new at h
  cases hi : insertOutpoints {} ({} : UtxoSet) genesis ({} : UtxoSet).nextHeight with
  | none => simp [hi] at h
  | some v =>
    obtain ⟨cache, m⟩ := v
    simp only [hi, Option.some.injEq] at h
    subst h
    exact ⟨rfl, rfl, rfl, rfl, _, _, rfl⟩

theorem init_establishes_invU (thr : Nat) (net : Tree.Net) (genesis : Block) (s0 : State)
    (hv : TxValid [genesis]) (h : State.new thr net genesis = some s0) : InvU s0 [] := by
  obtain ⟨s0', h0, hinv⟩ := Btc.Props.InvPush.init_establishes_inv thr net genesis hv
  rw [h] at h0
  cases h0
  obtain ⟨_, _, hbc, _, fr, d, ht⟩ := new_shape' h
  have hwf : BlockWF genesis := by
    unfold TxValid at hv
    simp only [TxValidFrom] at hv
    exact hv.1
  refine ⟨hinv, ?_, by rw [hbc]; simp⟩
  intro tip p hp
  rw [ht] at hp
  simp only [pathBlocks, Tree.leaf, Tree.chainWithTip, Tree.chainWithTipList] at hp
  split at hp
  · simp only [Option.map_some, List.map_cons, List.map_nil, Option.some.injEq] at hp
    subst hp
    simpa [TxidsUnique, txsOf] using hwf.txidsNodup
  · simp at hp

/-! ### Every step preserves the extended invariant -/

theorem step_preserves_invU (bound : Unstable.BoundFn) (s : State) (G : List Block) (op : Op)
    (s' : State) (G' : List Block) (h : InvU s G) (hd : Domain (s, G) op)
    (hs : step bound (s, G) op = some (s', G')) : InvU s' G' := by
  cases op with
  | push b =>
    obtain ⟨u', hp, hI, _⟩ := push_preserves_invU s G b h hd
    simp only [step, hp, Option.some.injEq, Prod.mk.injEq] at hs
    obtain ⟨rfl, rfl⟩ := hs
    exact hI
  | ingest budget =>
    have := ingest_stable_preserves_invU bound s G budget h
    simp only [step] at hs
    cases hr : s.ingestStable bound budget with
    | trap m => rw [hr] at hs; cases hs
    | paused sp => rw [hr] at hs; cases hs
    | done s1 w =>
      rw [hr] at hs this
      simp only [Option.some.injEq, Prod.mk.injEq] at hs
      obtain ⟨rfl, rfl⟩ := hs
      obtain ⟨popped, i1, _, _, _, _, _, _, i8⟩ := this
      rw [i8]
      exact i1
  | setConfig c =>
    simp only [step, Option.some.injEq, Prod.mk.injEq] at hs
    obtain ⟨rfl, rfl⟩ := hs
    exact setConfig_preserves_invU s G c h
  | upgrade c =>
    simp only [step, Option.some.injEq, Prod.mk.injEq] at hs
    obtain ⟨rfl, rfl⟩ := hs
    exact upgrade_preserves_invU s G c h
  | query =>
    simp only [step, Option.some.injEq, Prod.mk.injEq] at hs
    obtain ⟨rfl, rfl⟩ := hs
    exact h
  | insertNext hd' =>
    simp only [step] at hs
    split at hs
    · simp only [Option.some.injEq, Prod.mk.injEq] at hs
      obtain ⟨rfl, rfl⟩ := hs
      exact h
    · cases hi : s.unstable.insertNextHeader hd' s.stableHeight with
      | none =>
        rw [hi] at hs
        simp only [Option.some.injEq, Prod.mk.injEq] at hs
        obtain ⟨rfl, rfl⟩ := hs
        exact h
      | some u =>
        rw [hi] at hs
        simp only [Option.some.injEq, Prod.mk.injEq] at hs
        obtain ⟨rfl, rfl⟩ := hs
        unfold Unstable.insertNextHeader at hi
        simp only at hi
        split at hi
        · cases hi
        · simp only [Option.some.injEq] at hi
          subst hi
          exact invU_transfer (s := s) rfl rfl rfl rfl h.inv.caches.tipDepths rfl (fun _ => rfl)
            h.inv.linked rfl h

/-- **The extended invariant holds in every reachable state.** -/
theorem reachable_inv {bound : Unstable.BoundFn} {s : State} {G : List Block}
    (h : Reachable bound s G) : InvU s G := by
  induction h with
  | init thr net genesis s0 hv hn => exact init_establishes_invU thr net genesis s0 hv hn
  | step s G op s' G' _ hd hs ih => exact step_preserves_invU bound s G op s' G' ih hd hs

theorem run_reachable {bound : Unstable.BoundFn} {sg sg' : State × List Block} {ops : List Op}
    (hr : Run bound sg ops sg') : Reachable bound sg.1 sg.2 → Reachable bound sg'.1 sg'.2 := by
  induction hr with
  | nil sg => exact id
  | cons sg op sg1 ops sg2 hd hs _ ih =>
    intro h
    exact ih (Reachable.step sg.1 sg.2 op sg1.1 sg1.2 h hd hs)

/-- **Progress**: from a state satisfying the invariant, an operation in its domain fails to
    complete only if it is an ingestion that pauses (never a failing `push`, never a trap). -/
theorem step_none_iff (bound : Unstable.BoundFn) (s : State) (G : List Block) (op : Op)
    (h : InvU s G) (hd : Domain (s, G) op) :
    step bound (s, G) op = none ↔
      ∃ budget sp, op = .ingest budget ∧ s.ingestStable bound budget = .paused sp := by
  cases op with
  | push b =>
    obtain ⟨u', hp, _⟩ := push_preserves_invU s G b h hd
    simp [step, hp]
  | ingest budget =>
    have := ingest_stable_preserves_invU bound s G budget h
    simp only [step]
    cases hr : s.ingestStable bound budget with
    | trap m => rw [hr] at this; exact this.elim
    | paused sp => simp [hr]
    | done s1 w => simp [hr]
  | setConfig c => simp [step]
  | upgrade c => simp [step]
  | query => simp [step]
  | insertNext hd' =>
    simp only [step]
    split
    · simp
    · cases s.unstable.insertNextHeader hd' s.stableHeight <;> simp

end Btc.Lemmas.Reach
