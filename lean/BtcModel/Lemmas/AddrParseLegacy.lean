import BtcModel.Lemmas.AddrParseBase58

/-
  Legacy (base58check) addresses for `Model/AddrParse.lean`: `decode_check ∘ encode_check = id` and
  back, length and first character of the text of a 25-byte string (`'1'`, `'3'`, `'m'`/`'n'`, `'2'`
  for the version bytes 0x00, 0x05, 0x6f, 0xc4).
-/
namespace Btc.AddrParse
open Btc.BlockCodec Btc.TxCodec Btc.Merkle

/-! ## Base58Check -/

theorem base58DecodeCheck_base58Check (data : List Nat) (hd : AllBytes data) :
    base58DecodeCheck (base58Check data) = some data := by
  obtain ⟨hl, hb⟩ := sha256d_spec data
  have hchk : ((sha256d data).take 4).length = 4 := by rw [List.length_take]; omega
  unfold base58Check base58DecodeCheck
  rw [base58Decode_encode _ (allBytes_append.2 ⟨hd, fun b hb' => hb b (List.mem_of_mem_take hb')⟩)]
  simp only [List.length_append, hchk, Nat.add_sub_cancel]
  rw [if_neg (by omega), List.take_left', List.drop_left', if_pos rfl]
  · rfl
  · rfl

theorem base58DecodeCheck_some (s data : List Nat) (h : base58DecodeCheck s = some data) :
    s = base58Check data ∧ AllBytes data := by
  unfold base58DecodeCheck at h
  split at h
  · simp at h
  rename_i ret hret
  split at h
  · simp at h
  rename_i hlen
  simp only [] at h
  split at h
  · rename_i hchk
    simp only [Option.some.injEq] at h
    obtain ⟨henc, hall⟩ := base58Encode_decode s ret hret
    have : ret = data ++ (sha256d data).take 4 := by
      rw [← h, hchk, List.take_append_drop]
    refine ⟨?_, ?_⟩
    · unfold base58Check; rw [← this, henc]
    · rw [this] at hall; exact (allBytes_append.1 hall).1
  · simp at h

/-! ## Length and first character of a base-58 text -/

theorem digitsBE_cons (b : Nat) (hb : 2 ≤ b) (n : Nat) (hn : 0 < n) :
    ∃ d rest, digitsBE b n n [] = d :: rest ∧ 0 < d ∧ d < b ∧
      d * b ^ rest.length ≤ n ∧ n < (d + 1) * b ^ rest.length := by
  have hc := digitsBE_canon b hb n n [] hn (Nat.le_refl _)
  have hv := valB_digitsBE b hb n n [] (Nat.le_refl _)
  have hlt := digitsBE_lt b (by omega) n n [] (by simp)
  simp only [List.length_nil, Nat.pow_zero, Nat.mul_one, valB_nil, Nat.add_zero] at hv
  cases hds : digitsBE b n n [] with
  | nil => rw [hds, valB_nil] at hv; omega
  | cons d rest =>
    rw [hds] at hc hv hlt
    simp only [Canon, List.head?_cons, ne_eq, Option.some.injEq] at hc
    rw [valB_cons] at hv
    have h1 := valB_lt b rest (fun x hx => hlt x (List.mem_cons_of_mem _ hx))
    refine ⟨d, rest, rfl, by omega, hlt d List.mem_cons_self, by omega, ?_⟩
    rw [Nat.add_mul, Nat.one_mul]; omega

theorem digitsBE_length_le (b : Nat) (hb : 2 ≤ b) (n k : Nat) (h : n < b ^ k) :
    (digitsBE b n n []).length ≤ k := by
  rcases Nat.eq_zero_or_pos n with h0 | h0
  · subst h0; simp [digitsBE]
  · obtain ⟨d, rest, hds, hd0, _, hlo, _⟩ := digitsBE_cons b hb n h0
    rw [hds, List.length_cons]
    by_cases hk : rest.length < k
    · omega
    · have h1 : b ^ k ≤ b ^ rest.length := Nat.pow_le_pow_right (by omega) (by omega)
      have h2 : 1 * b ^ rest.length ≤ d * b ^ rest.length := Nat.mul_le_mul_right _ hd0
      omega

theorem digitsBE_head (b : Nat) (hb : 2 ≤ b) (n k : Nat) (hlo : b ^ k ≤ n) (hhi : n < b ^ (k + 1)) :
    ∃ d rest, digitsBE b n n [] = d :: rest ∧ rest.length = k ∧ d * b ^ k ≤ n ∧
      n < (d + 1) * b ^ k := by
  have hn : 0 < n := Nat.lt_of_lt_of_le (Nat.pow_pos (by omega)) hlo
  obtain ⟨d, rest, hds, hd0, hdb, h1, h2⟩ := digitsBE_cons b hb n hn
  have hlen : rest.length = k := by
    rcases Nat.lt_trichotomy rest.length k with hlt | heq | hgt
    · exfalso
      have h3 : (d + 1) * b ^ rest.length ≤ b * b ^ rest.length := Nat.mul_le_mul_right _ (by omega)
      have h4 : b ^ (rest.length + 1) ≤ b ^ k := Nat.pow_le_pow_right (by omega) hlt
      rw [Nat.pow_succ, Nat.mul_comm] at h4
      omega
    · exact heq
    · exfalso
      have h3 : b ^ (k + 1) ≤ b ^ rest.length := Nat.pow_le_pow_right (by omega) hgt
      have h4 : 1 * b ^ rest.length ≤ d * b ^ rest.length := Nat.mul_le_mul_right _ hd0
      omega
  exact ⟨d, rest, hds, hlen, hlen ▸ h1, hlen ▸ h2⟩

/-! ## The first character of a legacy address -/

theorem pow58_33 : (58 : Nat) ^ 33 = 15599970876632771988160814054146447252125923204784443097088 := by
  decide
theorem pow58_34 : (58 : Nat) ^ 34 = 904798310844700775313327215140493940623303545877497699631104 := by
  decide
theorem pow58_35 : (58 : Nat) ^ 35 = 52478302028992644968172978478148648556151605660894866578604032 := by
  decide
theorem pow256_24 : (256 : Nat) ^ 24 = 6277101735386680763835789423207666416102355444464034512896 := by
  decide

theorem valB_payload (p : Nat) (rest : List Nat) (hlen : rest.length = 24) (hr : AllBytes rest) :
    p * 256 ^ 24 ≤ valB 256 (p :: rest) ∧ valB 256 (p :: rest) < (p + 1) * 256 ^ 24 := by
  have h := valB_lt 256 rest hr
  rw [valB_cons, hlen] at *
  rw [Nat.add_mul, Nat.one_mul]
  omega

/-- First character of the base-58 text of a 25-byte string with one of the four version bytes:
    `'1'`, `'3'`, `'m'` / `'n'`, `'2'`. -/
theorem legacy_head (p : Nat) (rest : List Nat) (hlen : rest.length = 24) (hr : AllBytes rest)
    (hp : p = 0 ∨ p = 5 ∨ p = 111 ∨ p = 196) :
    ∃ c tl, base58Encode (p :: rest) = c :: tl ∧
      (c = 49 ∨ c = 51 ∨ c = 109 ∨ c = 110 ∨ c = 50) := by
  obtain ⟨hlo, hhi⟩ := valB_payload p rest hlen hr
  rw [pow256_24] at hlo hhi
  unfold base58Encode
  simp only []
  rw [b58Digits_eq, ofBeBytes_eq]
  generalize valB 256 (p :: rest) = n at hlo hhi
  rcases hp with rfl | rfl | rfl | rfl
  · refine ⟨49, (List.replicate (leadingZeros rest) 0 ++ digitsBE 58 n n []).map
      (fun d => b58Alphabet.getD d 0), ?_, Or.inl rfl⟩
    simp only [leadingZeros, List.replicate_succ, List.cons_append, List.map_cons]
    rfl
  · obtain ⟨d, tl, hds, _, h1, h2⟩ := digitsBE_head 58 (by decide) n 33
      (by rw [pow58_33]; omega) (by rw [pow58_34]; omega)
    rw [pow58_33] at h1 h2
    have hd : d = 2 := by omega
    subst hd
    refine ⟨51, tl.map (fun d => b58Alphabet.getD d 0), ?_, Or.inr (Or.inl rfl)⟩
    rw [hds]; rfl
  · obtain ⟨d, tl, hds, _, h1, h2⟩ := digitsBE_head 58 (by decide) n 33
      (by rw [pow58_33]; omega) (by rw [pow58_34]; omega)
    rw [pow58_33] at h1 h2
    have hd : d = 44 ∨ d = 45 := by omega
    rcases hd with rfl | rfl
    · refine ⟨109, tl.map (fun d => b58Alphabet.getD d 0), ?_, Or.inr (Or.inr (Or.inl rfl))⟩
      rw [hds]; rfl
    · refine ⟨110, tl.map (fun d => b58Alphabet.getD d 0), ?_, Or.inr (Or.inr (Or.inr (Or.inl rfl)))⟩
      rw [hds]; rfl
  · obtain ⟨d, tl, hds, _, h1, h2⟩ := digitsBE_head 58 (by decide) n 34
      (by rw [pow58_34]; omega) (by rw [pow58_35]; omega)
    rw [pow58_34] at h1 h2
    have hd : d = 1 := by omega
    subst hd
    refine ⟨50, tl.map (fun d => b58Alphabet.getD d 0), ?_, Or.inr (Or.inr (Or.inr (Or.inr rfl)))⟩
    rw [hds]; rfl

/-! ## The base58 branch of the parser -/

theorem leadingZeros_le (l : List Nat) : leadingZeros l ≤ l.length := by
  fun_induction leadingZeros l with
  | case1 bs ih => simp only [List.length_cons]; omega
  | case2 l hne => omega

theorem base58Encode_length (D : List Nat) (hl : D.length = 25) (hD : AllBytes D) :
    (base58Encode D).length ≤ 50 := by
  obtain ⟨hsplit, _⟩ := leadingZeros_spec D
  have hz := leadingZeros_le D
  unfold base58Encode
  simp only []
  rw [b58Digits_eq, ofBeBytes_eq, List.length_map, List.length_append, List.length_replicate]
  generalize hzz : leadingZeros D = z at *
  have hdrop : AllBytes (D.drop z) := fun b hb => hD b (List.mem_of_mem_drop hb)
  have hv : valB 256 D < 256 ^ (25 - z) := by
    have := valB_lt 256 (D.drop z) hdrop
    rw [List.length_drop, hl] at this
    conv => lhs; rw [hsplit]
    rwa [valB_replicate_zero]
  generalize valB 256 D = n at hv
  by_cases hcase : z ≤ 15
  · have h1 : (256 : Nat) ^ (25 - z) ≤ 256 ^ 25 := Nat.pow_le_pow_right (by decide) (by omega)
    have h2 : (256 : Nat) ^ 25 < 58 ^ 35 := by decide
    have := digitsBE_length_le 58 (by decide) n 35 (by omega)
    omega
  · have h1 : (256 : Nat) ^ (25 - z) ≤ 256 ^ 9 := Nat.pow_le_pow_right (by decide) (by omega)
    have h2 : (256 : Nat) ^ 9 < 58 ^ 13 := by decide
    have := digitsBE_length_le 58 (by decide) n 13 (by omega)
    omega

theorem base58Check_length (data : List Nat) (hl : data.length = 21) (hd : AllBytes data) :
    (base58Check data).length ≤ 50 := by
  obtain ⟨hl', hb⟩ := sha256d_spec data
  unfold base58Check
  apply base58Encode_length
  · rw [List.length_append, List.length_take]; omega
  · exact allBytes_append.2 ⟨hd, fun b hb' => hb b (List.mem_of_mem_take hb')⟩

/-- The base58 branch on the text `encode_check` writes for a 21-byte payload. -/
theorem parseLegacy_base58Check (net : Tree.Net) (p : Nat) (hash : List Nat)
    (hl : hash.length = 20) (hb : AllBytes (p :: hash)) :
    parseLegacy net (base58Check (p :: hash)) =
      match legacyPrefix p with
      | none => .malformed
      | some (main, sh) =>
        if main = decide (net = .mainnet) then .ok (if sh then p2shScript hash else p2pkhScript hash)
        else .wrongNetwork := by
  unfold parseLegacy
  rw [if_neg (by have := base58Check_length (p :: hash) (by simp [hl]) hb; omega),
    base58DecodeCheck_base58Check _ hb]
  simp only [List.length_cons, hl]
  rfl

/-- What the base58 branch accepts. -/
theorem parseLegacy_ok (net : Tree.Net) (s script : List Nat) (h : parseLegacy net s = .ok script) :
    ∃ p hash sh, hash.length = 20 ∧ AllBytes (p :: hash) ∧ s = base58Check (p :: hash) ∧
      legacyPrefix p = some (decide (net = .mainnet), sh) ∧
      script = (if sh then p2shScript hash else p2pkhScript hash) := by
  unfold parseLegacy at h
  split at h
  · simp at h
  split at h
  · simp at h
  rename_i data hdec
  split at h
  · simp at h
  rename_i hlen
  split at h
  · simp at h
  rename_i p hash
  split at h
  · simp at h
  rename_i main sh hpre
  split at h
  · rename_i hmain
    simp only [ParseResult.ok.injEq] at h
    obtain ⟨hs, hall⟩ := base58DecodeCheck_some s _ hdec
    refine ⟨p, hash, sh, ?_, hall, hs, ?_, h.symm⟩
    · simp only [List.length_cons, ne_eq, Decidable.not_not] at hlen; omega
    · rw [hpre, hmain]
  · simp at h

/-! ## Shape of P2PKH / P2SH scripts -/

theorem isP2pkh_eq {s : List Nat} (h : isP2pkh s = true) :
    s = p2pkhScript ((s.drop 3).take 20) ∧ ((s.drop 3).take 20).length = 20 := by
  rcases s with _ | ⟨a0, _ | ⟨a1, _ | ⟨a2, _ | ⟨a3, _ | ⟨a4, _ | ⟨a5, _ | ⟨a6, _ | ⟨a7, _ | ⟨a8, _ | ⟨a9, _ | ⟨a10, _ | ⟨a11, _ | ⟨a12, _ | ⟨a13, _ | ⟨a14, _ | ⟨a15, _ | ⟨a16, _ | ⟨a17, _ | ⟨a18, _ | ⟨a19, _ | ⟨a20, _ | ⟨a21, _ | ⟨a22, _ | ⟨a23, _ | ⟨a24, _ | ⟨a25, rest⟩⟩⟩⟩⟩⟩⟩⟩⟩⟩⟩⟩⟩⟩⟩⟩⟩⟩⟩⟩⟩⟩⟩⟩⟩⟩ <;>
    simp [isP2pkh] at h
  obtain ⟨⟨⟨⟨rfl, rfl⟩, rfl⟩, rfl⟩, rfl⟩ := h
  exact ⟨rfl, rfl⟩

theorem isP2sh_eq {s : List Nat} (h : isP2sh s = true) :
    s = p2shScript ((s.drop 2).take 20) ∧ ((s.drop 2).take 20).length = 20 := by
  rcases s with _ | ⟨a0, _ | ⟨a1, _ | ⟨a2, _ | ⟨a3, _ | ⟨a4, _ | ⟨a5, _ | ⟨a6, _ | ⟨a7, _ | ⟨a8, _ | ⟨a9, _ | ⟨a10, _ | ⟨a11, _ | ⟨a12, _ | ⟨a13, _ | ⟨a14, _ | ⟨a15, _ | ⟨a16, _ | ⟨a17, _ | ⟨a18, _ | ⟨a19, _ | ⟨a20, _ | ⟨a21, _ | ⟨a22, _ | ⟨a23, rest⟩⟩⟩⟩⟩⟩⟩⟩⟩⟩⟩⟩⟩⟩⟩⟩⟩⟩⟩⟩⟩⟩⟩⟩ <;>
    simp [isP2sh] at h
  obtain ⟨⟨rfl, rfl⟩, rfl⟩ := h
  exact ⟨rfl, rfl⟩

theorem length_eq_20 {l : List Nat} (h : l.length = 20) : ∃ b0 b1 b2 b3 b4 b5 b6 b7 b8 b9 b10 b11 b12
    b13 b14 b15 b16 b17 b18 b19, l = [b0, b1, b2, b3, b4, b5, b6, b7, b8, b9, b10, b11, b12, b13, b14,
      b15, b16, b17, b18, b19] := by
  rcases l with _ | ⟨a0, _ | ⟨a1, _ | ⟨a2, _ | ⟨a3, _ | ⟨a4, _ | ⟨a5, _ | ⟨a6, _ | ⟨a7, _ | ⟨a8, _ | ⟨a9, _ | ⟨a10, _ | ⟨a11, _ | ⟨a12, _ | ⟨a13, _ | ⟨a14, _ | ⟨a15, _ | ⟨a16, _ | ⟨a17, _ | ⟨a18, _ | ⟨a19, _ | ⟨a20, rest⟩⟩⟩⟩⟩⟩⟩⟩⟩⟩⟩⟩⟩⟩⟩⟩⟩⟩⟩⟩⟩ <;>
    simp at h
  exact ⟨_, _, _, _, _, _, _, _, _, _, _, _, _, _, _, _, _, _, _, _, rfl⟩

theorem p2pkhScript_spec (hash : List Nat) (hl : hash.length = 20) :
    isP2pkh (p2pkhScript hash) = true ∧ ((p2pkhScript hash).drop 3).take 20 = hash := by
  obtain ⟨b0, b1, b2, b3, b4, b5, b6, b7, b8, b9, b10, b11, b12, b13, b14, b15, b16, b17, b18, b19,
    rfl⟩ := length_eq_20 hl
  exact ⟨rfl, rfl⟩

theorem p2shScript_spec (hash : List Nat) (hl : hash.length = 20) :
    isP2pkh (p2shScript hash) = false ∧ isP2sh (p2shScript hash) = true ∧
      ((p2shScript hash).drop 2).take 20 = hash := by
  obtain ⟨b0, b1, b2, b3, b4, b5, b6, b7, b8, b9, b10, b11, b12, b13, b14, b15, b16, b17, b18, b19,
    rfl⟩ := length_eq_20 hl
  exact ⟨rfl, rfl, rfl⟩

end Btc.AddrParse
