import BtcModel.Lemmas.JsonNorm

/-!
  Connection of `Btc.Json.JVal` with the value type `Btc.Transform.Json` of the C18 model:
  `toModelValue` commutes with indexing, and the `serde_json::Map` normalisation done by the parser
  is invisible to every extraction path (`obsEq_normalize`).
-/
namespace Btc.Json
open Btc.Transform (Json Step lookupLast ObsEq extractPath)

/-! ### `strOfBytes` is injective on bytes -/

theorem toNat_ofNat_of_lt {x : Nat} (h : x < 256) : (Char.ofNat x).toNat = x := by
  have hv : x.isValidChar := Or.inl (by omega)
  simp [Char.ofNat, hv, Char.ofNatAux, Char.toNat]

theorem strOfBytes_inj : ∀ {a b : List Nat}, (∀ x ∈ a, x < 256) → (∀ x ∈ b, x < 256) →
    strOfBytes a = strOfBytes b → a = b := by
  intro a b ha hb h
  have h' : a.map Char.ofNat = b.map Char.ofNat := String.ofList_injective h
  clear h
  induction a generalizing b with
  | nil =>
    cases b with
    | nil => rfl
    | cons y b => simp at h'
  | cons x a ih =>
    cases b with
    | nil => simp at h'
    | cons y b =>
      simp only [List.map_cons, List.cons.injEq] at h'
      have hx := toNat_ofNat_of_lt (ha x (List.mem_cons_self ..))
      have hy := toNat_ofNat_of_lt (hb y (List.mem_cons_self ..))
      have hxy : x = y := by rw [← hx, ← hy, h'.1]
      rw [hxy, ih (fun z hz => ha z (List.mem_cons_of_mem _ hz))
        (fun z hz => hb z (List.mem_cons_of_mem _ hz)) h'.2]

/-! ### the mutual helper functions are maps -/

theorem toModelList_eq_map (xs : List JVal) : toModelList xs = xs.map toModelValue := by
  induction xs with
  | nil => rfl
  | cons x xs ih => simp [toModelList, ih]

theorem toModelMembers_eq_map (ms : List (List Nat × JVal)) :
    toModelMembers ms = ms.map (fun kv => (strOfBytes kv.1, toModelValue kv.2)) := by
  induction ms with
  | nil => rfl
  | cons x ms ih => obtain ⟨k, v⟩ := x; simp [toModelMembers, ih]

theorem normalizeList_eq_map (xs : List JVal) : normalizeList xs = xs.map normalize := by
  induction xs with
  | nil => rfl
  | cons x xs ih => simp [normalizeList, ih]

theorem normalizeMembers_eq_map (ms : List (List Nat × JVal)) :
    normalizeMembers ms = ms.map (fun kv => (kv.1, normalize kv.2)) := by
  induction ms with
  | nil => rfl
  | cons x ms ih => obtain ⟨k, v⟩ := x; simp [normalizeMembers, ih]

theorem keysOf_normalizeMembers (ms : List (List Nat × JVal)) :
    keysOf (normalizeMembers ms) = keysOf ms := by
  rw [normalizeMembers_eq_map]
  simp [keysOf, List.map_map, Function.comp_def]

/-! ### indexing on `JVal` -/

/-- the predicate "this key is the string `key`" -/
def keyIs (key : String) : List Nat → Bool := fun k => strOfBytes k == key

/-- `value["key"]` on the source members: the LAST member with that key -/
def JVal.get (key : String) : JVal → JVal
  | .obj ms => (lookupLastP (keyIs key) ms).getD .null
  | _ => .null

/-- `value[i]` -/
def JVal.idx (i : Nat) : JVal → JVal
  | .arr xs => xs.getD i .null
  | _ => .null

def JVal.step : Step → JVal → JVal
  | .key k, j => j.get k
  | .idx i, j => j.idx i

/-- `value[s₁][s₂]…` -/
def JVal.at : List Step → JVal → JVal
  | [], j => j
  | s :: p, j => JVal.at p (j.step s)

theorem lookupLast_toModelMembers (key : String) (ms : List (List Nat × JVal)) :
    lookupLast key (toModelMembers ms) = (lookupLastP (keyIs key) ms).map toModelValue := by
  induction ms with
  | nil => rfl
  | cons x ms ih =>
    obtain ⟨k, v⟩ := x
    simp only [toModelMembers, lookupLast, lookupLastP, ih]
    cases lookupLastP (keyIs key) ms with
    | some w => rfl
    | none =>
      by_cases h : strOfBytes k = key
      · simp [keyIs, h]
      · simp [keyIs, h]

theorem lookupLastP_map_val {α β : Type} (P : List Nat → Bool) (g : α → β)
    (ms : List (List Nat × α)) :
    lookupLastP P (ms.map (fun kv => (kv.1, g kv.2))) = (lookupLastP P ms).map g := by
  induction ms with
  | nil => rfl
  | cons x ms ih =>
    obtain ⟨k, v⟩ := x
    simp only [List.map_cons, lookupLastP, ih]
    cases lookupLastP P ms with
    | some w => rfl
    | none => cases P k <;> rfl

theorem getD_toModelList (xs : List JVal) (i : Nat) :
    (toModelList xs).getD i .null = toModelValue (xs.getD i .null) := by
  induction xs generalizing i with
  | nil => simp [toModelList, toModelValue]
  | cons x xs ih =>
    cases i with
    | zero => simp [toModelList]
    | succ i => simpa [toModelList] using ih i

theorem getD_normalizeList (xs : List JVal) (i : Nat) :
    (normalizeList xs).getD i .null = normalize (xs.getD i .null) := by
  induction xs generalizing i with
  | nil => simp [normalizeList, normalize]
  | cons x xs ih =>
    cases i with
    | zero => simp [normalizeList]
    | succ i => simpa [normalizeList] using ih i

theorem toModelValue_null : toModelValue .null = .null := by simp [toModelValue]
theorem normalize_null : normalize .null = .null := by simp [normalize]

/-- `toModelValue` commutes with indexing (source order, last duplicate wins) -/
theorem toModelValue_step (s : Step) (v : JVal) :
    (toModelValue v).step s = toModelValue (v.step s) := by
  cases s with
  | key key =>
    cases v with
    | obj ms =>
      simp only [toModelValue, Json.step, Json.get, JVal.step, JVal.get, lookupLast_toModelMembers]
      cases lookupLastP (keyIs key) ms <;> simp [toModelValue]
    | num t =>
      simp only [toModelValue, Json.step, JVal.step, JVal.get]
      cases t.asU64 <;> simp [Json.get]
    | _ => simp [toModelValue, Json.step, Json.get, JVal.step, JVal.get]
  | idx i =>
    cases v with
    | arr xs =>
      simp only [toModelValue, Json.step, Json.idx, JVal.step, JVal.idx, getD_toModelList]
    | num t =>
      simp only [toModelValue, Json.step, JVal.step, JVal.idx]
      cases t.asU64 <;> simp [Json.idx]
    | _ => simp [toModelValue, Json.step, Json.idx, JVal.step, JVal.idx]

theorem toModelValue_at (p : List Step) (v : JVal) :
    (toModelValue v).at p = toModelValue (v.at p) := by
  induction p generalizing v with
  | nil => rfl
  | cons s p ih => simp only [Json.at, JVal.at, toModelValue_step, ih]

/-! ### well-formedness is inherited by the indexed value -/

theorem WFMembers_lookupLastP {ms : List (List Nat × JVal)} (h : WFMembers ms = true)
    (P : List Nat → Bool) {v : JVal} (hl : lookupLastP P ms = some v) : v.WF = true := by
  induction ms with
  | nil => simp [lookupLastP] at hl
  | cons x ms ih =>
    obtain ⟨k, w⟩ := x
    simp only [WFMembers, Bool.and_eq_true] at h
    simp only [lookupLastP] at hl
    cases hr : lookupLastP P ms with
    | some u =>
      rw [hr] at hl
      cases hl
      exact ih h.2 hr
    | none =>
      rw [hr] at hl
      cases hk : P k with
      | true => simp only [hk, if_true] at hl; cases hl; exact h.1.2
      | false => simp [hk] at hl

theorem WFList_getD {xs : List JVal} (h : WFList xs = true) (i : Nat) :
    (xs.getD i .null).WF = true := by
  induction xs generalizing i with
  | nil => simp [JVal.WF]
  | cons x xs ih =>
    simp only [WFList, Bool.and_eq_true] at h
    cases i with
    | zero => simpa using h.1
    | succ i => simpa using ih h.2 i

theorem WF_step {v : JVal} (h : v.WF = true) (s : Step) : (v.step s).WF = true := by
  cases s with
  | key key =>
    cases v with
    | obj ms =>
      simp only [JVal.step, JVal.get]
      cases hl : lookupLastP (keyIs key) ms with
      | none => simp [JVal.WF]
      | some u => exact WFMembers_lookupLastP (by simpa [JVal.WF] using h) _ hl
    | _ => simp [JVal.step, JVal.get, JVal.WF]
  | idx i =>
    cases v with
    | arr xs => exact WFList_getD (by simpa [JVal.WF] using h) i
    | _ => simp [JVal.step, JVal.idx, JVal.WF]

theorem keys_lt_256_of_WFMembers {ms : List (List Nat × JVal)} (h : WFMembers ms = true) :
    ∀ k ∈ keysOf ms, ∀ x ∈ k, x < 256 := by
  induction ms with
  | nil => intro k hk; simp [keysOf] at hk
  | cons y ms ih =>
    obtain ⟨k', w⟩ := y
    simp only [WFMembers, Bool.and_eq_true] at h
    intro k hk
    simp only [keysOf, List.map_cons, List.mem_cons] at hk
    rcases hk with rfl | hk
    · exact lt_256_of_utf8Valid h.1.1
    · exact ih h.2 k hk

theorem uniqueOn_keyIs {ms : List (List Nat × JVal)} (h : WFMembers ms = true) (key : String) :
    UniqueOn (keyIs key) (keysOf ms) := by
  intro a ha b hb pa pb
  simp only [keyIs, beq_iff_eq] at pa pb
  exact strOfBytes_inj (keys_lt_256_of_WFMembers h a ha) (keys_lt_256_of_WFMembers h b hb)
    (pa.trans pb.symm)

/-- indexing the normalised value = normalising the indexed value -/
theorem normalize_step {v : JVal} (h : v.WF = true) (s : Step) :
    (normalize v).step s = normalize (v.step s) := by
  cases s with
  | key key =>
    cases v with
    | obj ms =>
      have hwf : WFMembers ms = true := by simpa [JVal.WF] using h
      have hu : UniqueOn (keyIs key) (keysOf (normalizeMembers ms)) := by
        rw [keysOf_normalizeMembers]; exact uniqueOn_keyIs hwf key
      simp only [normalize, JVal.step, JVal.get]
      rw [lookupLastP_normMembers _ _ hu, normalizeMembers_eq_map, lookupLastP_map_val]
      cases lookupLastP (keyIs key) ms <;> simp [normalize]
    | _ => simp [normalize, JVal.step, JVal.get]
  | idx i =>
    cases v with
    | arr xs => simp only [normalize, JVal.step, JVal.idx, getD_normalizeList]
    | _ => simp [normalize, JVal.step, JVal.idx]

theorem normalize_at {v : JVal} (h : v.WF = true) (p : List Step) :
    (normalize v).at p = normalize (v.at p) := by
  induction p generalizing v with
  | nil => rfl
  | cons s p ih => simp only [JVal.at, normalize_step h, ih (WF_step h s)]

theorem asU64_toModelValue_normalize (v : JVal) :
    (toModelValue (normalize v)).asU64 = (toModelValue v).asU64 := by
  cases v <;> simp [normalize, toModelValue, Json.asU64]

/-- The `serde_json::Map` representation (sorted keys, duplicates resolved) cannot be told apart
    from the source-order members by any extraction path. -/
theorem obsEq_normalize {v : JVal} (h : v.WF = true) :
    ObsEq (toModelValue (normalize v)) (toModelValue v) := by
  intro p
  simp only [extractPath, toModelValue_at, normalize_at h, asU64_toModelValue_normalize]

/-! ### the converted values are well-formed (`uint n` has `n < 2^64`) -/

mutual
theorem toModelValue_WF : ∀ v : JVal, (toModelValue v).WF = true
  | .null => by simp [toModelValue, Btc.Transform.Json.WF]
  | .bool _ => by simp [toModelValue, Btc.Transform.Json.WF]
  | .num t => by
    simp only [toModelValue]
    cases h : t.asU64 with
    | none => simp [Btc.Transform.Json.WF]
    | some n =>
      simp only [NumTok.asU64] at h
      split at h
      · next hc =>
        simp only [Bool.and_eq_true, decide_eq_true_eq] at hc
        cases h
        simpa [Btc.Transform.Json.WF] using hc.2
      · cases h
  | .str _ => by simp [toModelValue, Btc.Transform.Json.WF]
  | .arr xs => by simpa [toModelValue, Btc.Transform.Json.WF] using toModelList_WF xs
  | .obj ms => by simpa [toModelValue, Btc.Transform.Json.WF] using toModelMembers_WF ms
theorem toModelList_WF : ∀ xs : List JVal, Btc.Transform.Json.WFList (toModelList xs) = true
  | [] => by simp [toModelList, Btc.Transform.Json.WFList]
  | x :: xs => by simp [toModelList, Btc.Transform.Json.WFList, toModelValue_WF x, toModelList_WF xs]
theorem toModelMembers_WF : ∀ ms : List (List Nat × JVal), Btc.Transform.Json.WFMembers (toModelMembers ms) = true
  | [] => by simp [toModelMembers, Btc.Transform.Json.WFMembers]
  | (k, v) :: ms => by
    simp [toModelMembers, Btc.Transform.Json.WFMembers, toModelValue_WF v, toModelMembers_WF ms]
end

/-! ### deep permutation of object members -/

/-- `a` and `b` differ only in the order of the members of objects whose keys are pairwise
    distinct, at any depth. -/
inductive PermEq : JVal → JVal → Prop where
  | refl (j : JVal) : PermEq j j
  | symm {a b : JVal} : PermEq a b → PermEq b a
  | trans {a b c : JVal} : PermEq a b → PermEq b c → PermEq a c
  | perm {ms₁ ms₂ : List (List Nat × JVal)} :
      ms₁.Perm ms₂ → (keysOf ms₁).Nodup → PermEq (.obj ms₁) (.obj ms₂)
  | inArr {x y : JVal} (pre post : List JVal) :
      PermEq x y → PermEq (.arr (pre ++ x :: post)) (.arr (pre ++ y :: post))
  | inObj {x y : JVal} (k : List Nat) (pre post : List (List Nat × JVal)) :
      PermEq x y → PermEq (.obj (pre ++ (k, x) :: post)) (.obj (pre ++ (k, y) :: post))

theorem PermEq.normalize_eq {a b : JVal} (h : PermEq a b) : normalize a = normalize b := by
  induction h with
  | refl j => rfl
  | symm _ ih => exact ih.symm
  | trans _ _ ih₁ ih₂ => exact ih₁.trans ih₂
  | perm hp hnd =>
    simp only [normalize]
    congr 1
    apply normMembers_perm
    · rw [normalizeMembers_eq_map, normalizeMembers_eq_map]
      exact hp.map _
    · rw [keysOf_normalizeMembers]; exact hnd
  | inArr pre post _ ih =>
    simp only [normalize, normalizeList_eq_map, List.map_append, List.map_cons, ih]
  | inObj k pre post _ ih =>
    simp only [normalize, normalizeMembers_eq_map, List.map_append, List.map_cons, ih]

theorem WFList_append {xs ys : List JVal} :
    WFList (xs ++ ys) = (WFList xs && WFList ys) := by
  induction xs with
  | nil => simp [WFList]
  | cons x xs ih => simp [WFList, ih, Bool.and_assoc]

theorem WFMembers_append {xs ys : List (List Nat × JVal)} :
    WFMembers (xs ++ ys) = (WFMembers xs && WFMembers ys) := by
  induction xs with
  | nil => simp [WFMembers]
  | cons x xs ih => obtain ⟨k, v⟩ := x; simp [WFMembers, ih, Bool.and_assoc]

theorem WFMembers_iff_forall {ms : List (List Nat × JVal)} :
    WFMembers ms = true ↔ ∀ kv ∈ ms, utf8Valid kv.1 = true ∧ kv.2.WF = true := by
  induction ms with
  | nil => simp [WFMembers]
  | cons x ms ih =>
    obtain ⟨k, v⟩ := x
    simp [WFMembers, ih, and_assoc]

/-- well-formedness is invariant under `PermEq` -/
theorem PermEq.wf_iff {a b : JVal} (h : PermEq a b) : a.WF = true ↔ b.WF = true := by
  induction h with
  | refl j => exact Iff.rfl
  | symm _ ih => exact ih.symm
  | trans _ _ ih₁ ih₂ => exact ih₁.trans ih₂
  | perm hp hnd =>
    simp only [JVal.WF, WFMembers_iff_forall]
    exact ⟨fun h kv hkv => h kv (hp.symm.subset hkv), fun h kv hkv => h kv (hp.subset hkv)⟩
  | inArr pre post _ ih =>
    simp only [JVal.WF, WFList_append, WFList, Bool.and_eq_true, ih]
  | inObj k pre post _ ih =>
    simp only [JVal.WF, WFMembers_append, WFMembers, Bool.and_eq_true, ih]

/-! ### `normalize` is idempotent and preserves well-formedness and the depth bound -/

theorem insertMember_map_val {α β : Type} (g : α → β) (k : List Nat) (v : α)
    (acc : List (List Nat × α)) :
    insertMember k (g v) (acc.map (fun kv => (kv.1, g kv.2))) =
      (insertMember k v acc).map (fun kv => (kv.1, g kv.2)) := by
  induction acc with
  | nil => rfl
  | cons x acc ih =>
    obtain ⟨k', v'⟩ := x
    simp only [List.map_cons, insertMember]
    split
    · rfl
    split
    · rfl
    · simp [ih]

theorem normMembers_map_val {α β : Type} (g : α → β) (ms : List (List Nat × α)) :
    normMembers (ms.map (fun kv => (kv.1, g kv.2))) =
      (normMembers ms).map (fun kv => (kv.1, g kv.2)) := by
  have : ∀ (ms acc : List (List Nat × α)),
      (ms.map (fun kv => (kv.1, g kv.2))).foldl (fun acc kv => insertMember kv.1 kv.2 acc)
        (acc.map (fun kv => (kv.1, g kv.2))) =
      (ms.foldl (fun acc kv => insertMember kv.1 kv.2 acc) acc).map (fun kv => (kv.1, g kv.2)) := by
    intro ms
    induction ms with
    | nil => intro acc; rfl
    | cons x ms ih =>
      intro acc
      simp only [List.map_cons, List.foldl_cons, insertMember_map_val, ih]
  simpa [normMembers] using this ms []

mutual
theorem normalize_idem : ∀ v : JVal, normalize (normalize v) = normalize v
  | .null => rfl
  | .bool _ => rfl
  | .num _ => rfl
  | .str _ => rfl
  | .arr xs => by simp only [normalize, normalizeList_idem xs]
  | .obj ms => by
    simp only [normalize]
    rw [normalizeMembers_eq_map (normMembers _), ← normMembers_map_val,
      ← normalizeMembers_eq_map, normalizeMembers_idem ms,
      normMembers_of_sorted (keysSorted_normMembers _)]
theorem normalizeList_idem : ∀ xs : List JVal, normalizeList (normalizeList xs) = normalizeList xs
  | [] => rfl
  | x :: xs => by simp only [normalizeList, normalize_idem x, normalizeList_idem xs]
theorem normalizeMembers_idem : ∀ ms : List (List Nat × JVal),
    normalizeMembers (normalizeMembers ms) = normalizeMembers ms
  | [] => rfl
  | (k, v) :: ms => by simp only [normalizeMembers, normalize_idem v, normalizeMembers_idem ms]
end

theorem mem_insertMember {α : Type} {k : List Nat} {v : α} {acc : List (List Nat × α)}
    {x : List Nat × α} (h : x ∈ insertMember k v acc) : x = (k, v) ∨ x ∈ acc := by
  induction acc with
  | nil => simpa [insertMember] using h
  | cons y acc ih =>
    obtain ⟨k', v'⟩ := y
    simp only [insertMember] at h
    split at h
    · next he =>
      subst he
      rcases List.mem_cons.mp h with h | h
      · exact Or.inl h
      · exact Or.inr (List.mem_cons_of_mem _ h)
    split at h
    · rcases List.mem_cons.mp h with h | h
      · exact Or.inl h
      · exact Or.inr h
    · rcases List.mem_cons.mp h with h | h
      · exact Or.inr (h ▸ List.mem_cons_self ..)
      · rcases ih h with h | h
        · exact Or.inl h
        · exact Or.inr (List.mem_cons_of_mem _ h)

/-- the stored members are source members -/
theorem mem_normMembers {α : Type} {ms : List (List Nat × α)} {x : List Nat × α}
    (h : x ∈ normMembers ms) : x ∈ ms := by
  have : ∀ (ms acc : List (List Nat × α)),
      x ∈ ms.foldl (fun acc kv => insertMember kv.1 kv.2 acc) acc → x ∈ acc ∨ x ∈ ms := by
    intro ms
    induction ms with
    | nil => intro acc h; exact Or.inl h
    | cons y ms ih =>
      intro acc h
      rcases ih _ h with h | h
      · rcases mem_insertMember h with h | h
        · exact Or.inr (h ▸ List.mem_cons_self ..)
        · exact Or.inl h
      · exact Or.inr (List.mem_cons_of_mem _ h)
  rcases this ms [] h with h | h
  · cases h
  · exact h

theorem depthOfList_le_iff {xs : List JVal} {d : Nat} :
    depthOfList xs ≤ d ↔ ∀ x ∈ xs, depthOf x ≤ d := by
  induction xs with
  | nil => simp [depthOfList]
  | cons x xs ih => simp only [depthOfList, Nat.max_le, ih, List.mem_cons, forall_eq_or_imp]

theorem depthOfMembers_le_iff {ms : List (List Nat × JVal)} {d : Nat} :
    depthOfMembers ms ≤ d ↔ ∀ kv ∈ ms, depthOf kv.2 ≤ d := by
  induction ms with
  | nil => simp [depthOfMembers]
  | cons x ms ih =>
    obtain ⟨k, v⟩ := x
    simp only [depthOfMembers, Nat.max_le, ih, List.mem_cons, forall_eq_or_imp]

mutual
theorem WF_normalize : ∀ v : JVal, v.WF = true → (normalize v).WF = true
  | .null, _ => rfl
  | .bool _, _ => rfl
  | .num _, h => h
  | .str _, h => h
  | .arr xs, h => by
    simp only [normalize, JVal.WF] at h ⊢
    exact WFList_normalizeList xs h
  | .obj ms, h => by
    simp only [normalize, JVal.WF] at h ⊢
    rw [WFMembers_iff_forall]
    intro kv hkv
    exact WFMembers_iff_forall.mp (WFMembers_normalizeMembers ms h) kv (mem_normMembers hkv)
theorem WFList_normalizeList : ∀ xs : List JVal, WFList xs = true →
    WFList (normalizeList xs) = true
  | [], _ => rfl
  | x :: xs, h => by
    simp only [WFList, Bool.and_eq_true] at h
    simp only [normalizeList, WFList, Bool.and_eq_true]
    exact ⟨WF_normalize x h.1, WFList_normalizeList xs h.2⟩
theorem WFMembers_normalizeMembers : ∀ ms : List (List Nat × JVal), WFMembers ms = true →
    WFMembers (normalizeMembers ms) = true
  | [], _ => rfl
  | (k, v) :: ms, h => by
    simp only [WFMembers, Bool.and_eq_true] at h
    simp only [normalizeMembers, WFMembers, Bool.and_eq_true]
    exact ⟨⟨h.1.1, WF_normalize v h.1.2⟩, WFMembers_normalizeMembers ms h.2⟩
end

mutual
theorem depthOf_normalize_le : ∀ v : JVal, depthOf (normalize v) ≤ depthOf v
  | .null => Nat.le_refl _
  | .bool _ => Nat.le_refl _
  | .num _ => Nat.le_refl _
  | .str _ => Nat.le_refl _
  | .arr xs => by
    simp only [normalize, depthOf]
    exact Nat.succ_le_succ (depthOfList_normalizeList_le xs)
  | .obj ms => by
    simp only [normalize, depthOf]
    refine Nat.succ_le_succ ?_
    rw [depthOfMembers_le_iff]
    intro kv hkv
    exact depthOfMembers_le_iff.mp (depthOfMembers_normalizeMembers_le ms) kv (mem_normMembers hkv)
theorem depthOfList_normalizeList_le : ∀ xs : List JVal,
    depthOfList (normalizeList xs) ≤ depthOfList xs
  | [] => Nat.le_refl _
  | x :: xs => by
    have h1 := depthOf_normalize_le x
    have h2 := depthOfList_normalizeList_le xs
    simp only [normalizeList, depthOfList]
    omega
theorem depthOfMembers_normalizeMembers_le : ∀ ms : List (List Nat × JVal),
    depthOfMembers (normalizeMembers ms) ≤ depthOfMembers ms
  | [] => Nat.le_refl _
  | (k, v) :: ms => by
    have h1 := depthOf_normalize_le v
    have h2 := depthOfMembers_normalizeMembers_le ms
    simp only [normalizeMembers, depthOfMembers]
    omega
end

end Btc.Json
