import BtcModel.Model.Json

/-!
  Lexical lemmas for `Model/Json.lean`: whitespace, digits, number literals, strings, UTF-8.
-/
namespace Btc.Json

/-- every byte of the list is JSON whitespace -/
def AllWs (ws : List Nat) : Prop := ∀ b ∈ ws, isWs b = true

instance (ws : List Nat) : Decidable (AllWs ws) := by unfold AllWs; infer_instance

theorem AllWs.nil : AllWs [] := fun _ h => by cases h

theorem AllWs.tail {b : Nat} {ws : List Nat} (h : AllWs (b :: ws)) : AllWs ws :=
  fun x hx => h x (List.mem_cons_of_mem _ hx)

theorem AllWs.head {b : Nat} {ws : List Nat} (h : AllWs (b :: ws)) : isWs b = true :=
  h b (List.mem_cons_self ..)

theorem allWs_noWs (p : List Nat) (s : Nat) : AllWs (noWs p s) := AllWs.nil

theorem isWs_iff (b : Nat) : isWs b = true ↔ b = 32 ∨ b = 9 ∨ b = 10 ∨ b = 13 := by
  simp [isWs, or_assoc]

/-! ### skipWs -/

theorem skipWs_append_of_allWs {ws : List Nat} (h : AllWs ws) (rest : List Nat) :
    skipWs (ws ++ rest) = skipWs rest := by
  induction ws with
  | nil => rfl
  | cons b ws ih =>
    simp only [List.cons_append, skipWs, h.head, if_true]
    exact ih h.tail

theorem skipWs_cons_of_not_ws {b : Nat} (h : isWs b = false) (r : List Nat) :
    skipWs (b :: r) = b :: r := by
  simp [skipWs, h]

theorem skipWs_of_allWs {ws : List Nat} (h : AllWs ws) : skipWs ws = [] := by
  have := skipWs_append_of_allWs h []
  simpa [skipWs] using this

theorem skipWs_skipWs (bs : List Nat) : skipWs (skipWs bs) = skipWs bs := by
  induction bs with
  | nil => rfl
  | cons b bs ih =>
    by_cases h : isWs b = true
    · simp [skipWs, h, ih]
    · have h' : isWs b = false := by simpa using h
      simp [skipWs, h']

/-- `skipWs` stops at a byte that is not whitespace -/
theorem skipWs_ws_cons {ws : List Nat} (h : AllWs ws) {b : Nat} (hb : isWs b = false)
    (r : List Nat) : skipWs (ws ++ b :: r) = b :: r := by
  rw [skipWs_append_of_allWs h, skipWs_cons_of_not_ws hb]

/-! ### digits -/

/-- the rest of the input cannot continue a number literal -/
def numDelim : List Nat → Bool
  | [] => true
  | b :: _ => !(isDigit b || b == 46 || b == 101 || b == 69)

/-- the rest of the input does not start with a digit -/
def noDigitHead : List Nat → Bool
  | [] => true
  | b :: _ => !isDigit b

theorem noDigitHead_of_numDelim {r : List Nat} (h : numDelim r = true) : noDigitHead r = true := by
  cases r with
  | nil => rfl
  | cons b r =>
    simp only [numDelim, Bool.not_eq_true', Bool.or_eq_false_iff] at h
    simp [noDigitHead, h.1.1.1]

theorem spanDigits_append {ds : List Nat} (hd : NumTok.allDigits ds = true) {r : List Nat}
    (hr : noDigitHead r = true) : spanDigits (ds ++ r) = (ds, r) := by
  induction ds with
  | nil =>
    cases r with
    | nil => rfl
    | cons b r =>
      simp only [noDigitHead, Bool.not_eq_true'] at hr
      simp [spanDigits, hr]
  | cons d ds ih =>
    simp only [NumTok.allDigits, List.all_cons, Bool.and_eq_true] at hd
    have ih' := ih (by simpa [NumTok.allDigits] using hd.2)
    simp only [List.cons_append, spanDigits, hd.1, if_true, ih']

theorem numDelim_ws_cons {ws : List Nat} (h : AllWs ws) {c : Nat}
    (hc : c = 44 ∨ c = 93 ∨ c = 125 ∨ c = 58) (r : List Nat) : numDelim (ws ++ c :: r) = true := by
  cases ws with
  | nil =>
    rcases hc with rfl | rfl | rfl | rfl <;> rfl
  | cons b ws =>
    have hb := (isWs_iff b).mp h.head
    rcases hb with rfl | rfl | rfl | rfl <;> rfl

theorem numDelim_of_allWs {ws : List Nat} (h : AllWs ws) : numDelim ws = true := by
  cases ws with
  | nil => rfl
  | cons b ws =>
    have hb := (isWs_iff b).mp h.head
    rcases hb with rfl | rfl | rfl | rfl <;> rfl

/-! ### number literals -/

theorem isDigit_iff (b : Nat) : isDigit b = true ↔ 48 ≤ b ∧ b ≤ 57 := by
  simp [isDigit]

theorem scanSign_render (sg : Option Bool) {e : Nat} (he : isDigit e = true) (X : List Nat) :
    scanSign (NumTok.renderSign sg ++ e :: X) = (sg, e :: X) := by
  have he' := (isDigit_iff e).mp he
  cases sg with
  | none =>
    have h1 : e ≠ 43 := by omega
    have h2 : e ≠ 45 := by omega
    simp [NumTok.renderSign, scanSign, h1, h2]
  | some b => cases b <;> simp [NumTok.renderSign, scanSign]

theorem scanExp_none {rest : List Nat} (hr : numDelim rest = true) :
    scanExp rest = some (none, rest) := by
  cases rest with
  | nil => rfl
  | cons b r =>
    simp only [numDelim, Bool.not_eq_true', Bool.or_eq_false_iff, beq_eq_false_iff_ne] at hr
    simp [scanExp, hr.1.2, hr.2]

theorem scanExp_render {ex : ExpPart} (hd : NumTok.allDigits ex.digits = true)
    (hne : ex.digits ≠ []) {rest : List Nat} (hr : noDigitHead rest = true) :
    scanExp (NumTok.renderExp ex ++ rest) = some (some ex, rest) := by
  obtain ⟨upper, sign, digits⟩ := ex
  cases digits with
  | nil => exact absurd rfl hne
  | cons e es =>
    have he : isDigit e = true := by
      simp only [NumTok.allDigits, List.all_cons, Bool.and_eq_true] at hd
      exact hd.1
    have hsp : spanDigits (e :: (es ++ rest)) = (e :: es, rest) := spanDigits_append hd hr
    cases upper
    · simp only [NumTok.renderExp, Bool.false_eq_true, if_false, List.cons_append,
        List.append_assoc, scanExp]
      rw [scanSign_render sign he]
      simp only [hsp]
      simp
    · simp only [NumTok.renderExp, if_true, List.cons_append, List.append_assoc, scanExp]
      rw [scanSign_render sign he]
      simp only [hsp]
      simp

theorem scanFrac_none {rest : List Nat} (hr : ∀ y Y, rest = y :: Y → y ≠ 46) :
    scanFrac rest = some (none, rest) := by
  cases rest with
  | nil => rfl
  | cons y Y => simp [scanFrac, hr y Y rfl]

theorem scanFrac_render {fd : List Nat} (hd : NumTok.allDigits fd = true) (hne : fd ≠ [])
    {rest : List Nat} (hr : noDigitHead rest = true) :
    scanFrac (46 :: (fd ++ rest)) = some (some fd, rest) := by
  cases fd with
  | nil => exact absurd rfl hne
  | cons f fs =>
    have hsp : spanDigits (f :: (fs ++ rest)) = (f :: fs, rest) := spanDigits_append hd hr
    simp only [scanFrac, if_true, List.cons_append, hsp]

/-- what follows the fraction: an exponent or a delimiter -/
theorem expTail_props {exp : Option ExpPart}
    (hexp : (match exp with
      | none => true
      | some ex => NumTok.allDigits ex.digits && !ex.digits.isEmpty) = true)
    {rest : List Nat} (hr : numDelim rest = true) :
    scanExp (NumTok.renderExpOpt exp ++ rest) = some (exp, rest) ∧
      noDigitHead (NumTok.renderExpOpt exp ++ rest) = true ∧
      (∀ y Y, NumTok.renderExpOpt exp ++ rest = y :: Y → y ≠ 46) := by
  cases exp with
  | none =>
    simp only [NumTok.renderExpOpt, List.nil_append]
    refine ⟨scanExp_none hr, noDigitHead_of_numDelim hr, ?_⟩
    intro y Y h
    subst h
    simp only [numDelim, Bool.not_eq_true', Bool.or_eq_false_iff, beq_eq_false_iff_ne] at hr
    exact hr.1.1.2
  | some ex =>
    simp only [Bool.and_eq_true] at hexp
    have hne : ex.digits ≠ [] := by
      intro h; rw [h] at hexp; simp at hexp
    refine ⟨scanExp_render hexp.1 hne (noDigitHead_of_numDelim hr), ?_, ?_⟩
    · cases hu : ex.upper <;> simp [NumTok.renderExpOpt, NumTok.renderExp, hu, noDigitHead, isDigit]
    · intro y Y h
      cases hu : ex.upper <;>
        simp only [NumTok.renderExpOpt, NumTok.renderExp, hu, if_true, Bool.false_eq_true, if_false,
          List.cons_append, List.cons.injEq] at h <;>
        (rw [← h.1]; decide)

theorem scanNumber_render {t : NumTok} (hg : t.grammatical = true) (ho : t.outOfRange = false)
    {rest : List Nat} (hr : numDelim rest = true) :
    scanNumber (t.render ++ rest) = some (t, rest) := by
  obtain ⟨neg, int, frac, exp⟩ := t
  simp only [NumTok.grammatical, Bool.and_eq_true] at hg
  obtain ⟨⟨⟨⟨hint, hne⟩, hlz⟩, hfrac⟩, hexp⟩ := hg
  cases int with
  | nil => simp at hne
  | cons d ds =>
    have hd : isDigit d = true := by
      simp only [NumTok.allDigits, List.all_cons, Bool.and_eq_true] at hint
      exact hint.1
    have hd' := (isDigit_iff d).mp hd
    obtain ⟨hE1, hE2, hE3⟩ := expTail_props hexp hr
    -- fraction
    have hF : (∃ r2, scanFrac (NumTok.renderFrac frac ++ (NumTok.renderExpOpt exp ++ rest)) =
          some (frac, r2) ∧ scanExp r2 = some (exp, rest)) ∧
        noDigitHead (NumTok.renderFrac frac ++ (NumTok.renderExpOpt exp ++ rest)) = true := by
      cases frac with
      | none =>
        simp only [NumTok.renderFrac, List.nil_append]
        exact ⟨⟨_, scanFrac_none hE3, hE1⟩, hE2⟩
      | some fd =>
        simp only [Bool.and_eq_true] at hfrac
        have hne' : fd ≠ [] := by
          intro h; rw [h] at hfrac; simp at hfrac
        simp only [NumTok.renderFrac, List.cons_append]
        exact ⟨⟨_, scanFrac_render hfrac.1 hne' hE2, hE1⟩, by simp [noDigitHead, isDigit]⟩
    obtain ⟨⟨r2, hF1, hF2⟩, hF3⟩ := hF
    have hsp := spanDigits_append hint hF3
    have hmin : scanMinus (NumTok.render ⟨neg, d :: ds, frac, exp⟩ ++ rest) =
        (neg, (d :: ds) ++ (NumTok.renderFrac frac ++ (NumTok.renderExpOpt exp ++ rest))) := by
      cases neg
      · have : d ≠ 45 := by omega
        simp [NumTok.render, scanMinus, this]
      · simp [NumTok.render, scanMinus]
    have hlead' : ¬ (d = 48 ∧ ds ≠ []) := by
      intro ⟨h1, h2⟩
      cases ds with
      | nil => exact h2 rfl
      | cons d2 ds2 =>
        subst h1
        simp at hlz
    simp only [scanNumber, hmin, hsp, hF1, hF2, ho]
    simp [hlead']

/-- first byte of a grammatical literal: `-` or a digit -/
theorem render_head_num {t : NumTok} (hg : t.grammatical = true) :
    ∃ c r, t.render = c :: r ∧ (c = 45 ∨ isDigit c = true) := by
  obtain ⟨neg, int, frac, exp⟩ := t
  simp only [NumTok.grammatical, Bool.and_eq_true] at hg
  obtain ⟨⟨⟨⟨hint, hne⟩, _⟩, _⟩, _⟩ := hg
  cases int with
  | nil => simp at hne
  | cons d ds =>
    simp only [NumTok.allDigits, List.all_cons, Bool.and_eq_true] at hint
    cases neg
    · exact ⟨d, _, rfl, Or.inr hint.1⟩
    · exact ⟨45, _, rfl, Or.inl rfl⟩

/-! ### strings -/

theorem hexVal_hexDigitByte {n : Nat} (h : n < 16) : hexVal (hexDigitByte n) = some n := by
  have : n = 0 ∨ n = 1 ∨ n = 2 ∨ n = 3 ∨ n = 4 ∨ n = 5 ∨ n = 6 ∨ n = 7 ∨ n = 8 ∨ n = 9 ∨ n = 10 ∨
      n = 11 ∨ n = 12 ∨ n = 13 ∨ n = 14 ∨ n = 15 := by omega
  rcases this with rfl | rfl | rfl | rfl | rfl | rfl | rfl | rfl | rfl | rfl | rfl | rfl | rfl | rfl |
    rfl | rfl <;> rfl

theorem strGo_escByte (b : Nat) (X : List Nat) :
    strGo .normal (escByte b ++ X) = prepend [b] (strGo .normal X) := by
  unfold escByte
  split
  · next h => subst h; simp [strGo]
  split
  · next h => subst h; simp [strGo]
  split
  · next h => subst h; simp [strGo]
  split
  · next h => subst h; simp [strGo]
  split
  · next h => subst h; simp [strGo]
  split
  · next h => subst h; simp [strGo]
  split
  · next h => subst h; simp [strGo]
  split
  · next h1 h2 h3 h4 h5 h6 h7 h =>
    have e1 : hexVal (hexDigitByte (b / 16)) = some (b / 16) := hexVal_hexDigitByte (by omega)
    have e2 : hexVal (hexDigitByte (b % 16)) = some (b % 16) := hexVal_hexDigitByte (by omega)
    have e0 : hexVal 48 = some 0 := rfl
    have hb : (0 * 16 + 0) * 16 + b / 16 = b / 16 := by omega
    have hn : b / 16 * 16 + b % 16 = b := by omega
    simp only [List.cons_append, List.nil_append, strGo]
    simp only [show (92 : Nat) ≠ 34 from by decide, if_false, if_true, e0, e1, e2]
    simp only [show ¬ (4 ≤ 1) from by decide, show ¬ (3 ≤ 1) from by decide,
      show ¬ (2 ≤ 1) from by decide, if_false, show (4 - 1) = 3 from rfl, show (3 - 1) = 2 from rfl,
      show (2 - 1) = 1 from rfl, show (1 ≤ 1) from Nat.le_refl 1, if_true, hb, hn,
      show (117 : Nat) ≠ 34 from by decide, show (117 : Nat) ≠ 92 from by decide,
      show (117 : Nat) ≠ 47 from by decide, show (117 : Nat) ≠ 98 from by decide,
      show (117 : Nat) ≠ 102 from by decide, show (117 : Nat) ≠ 110 from by decide,
      show (117 : Nat) ≠ 114 from by decide, show (117 : Nat) ≠ 116 from by decide]
    have h1' : ¬ (56320 ≤ b) := by omega
    have h2' : ¬ (55296 ≤ b) := by omega
    have h3' : b < 128 := by omega
    simp [h1', h2', utf8Enc, h3']
  · next h1 h2 h3 h4 h5 h6 h7 h8 =>
    simp only [List.cons_append, List.nil_append, strGo, h1, h2, if_false]
    simp [h8]

/-- the string scanner reads back an escaped string -/
theorem strGo_escape (s : List Nat) (rest : List Nat) :
    strGo .normal (escape s ++ 34 :: rest) = some (s, rest) := by
  induction s with
  | nil => simp [escape, strGo]
  | cons b s ih =>
    simp only [escape, List.append_assoc]
    rw [strGo_escByte, ih]
    rfl

theorem parseStr_renderStr (s : List Nat) (rest : List Nat) :
    ∃ t, renderStr s ++ rest = 34 :: t ∧ parseStr t = some (s, rest) := by
  refine ⟨escape s ++ 34 :: rest, by simp [renderStr], ?_⟩
  exact strGo_escape s rest

/-! ### UTF-8 -/

theorem utf8Go_zero (lo hi lo' hi' : Nat) (bs : List Nat) :
    utf8Go 0 lo hi bs = utf8Go 0 lo' hi' bs := by
  cases bs <;> simp [utf8Go]

/-- bytes below 128 -/
def AllAscii (bs : List Nat) : Prop := ∀ b ∈ bs, b < 128

theorem utf8Go_ascii_append {a : List Nat} (ha : AllAscii a) (lo hi : Nat) (X : List Nat) :
    utf8Go 0 lo hi (a ++ X) = utf8Go 0 128 191 X := by
  induction a generalizing lo hi with
  | nil => exact utf8Go_zero ..
  | cons b a ih =>
    have hb : b < 128 := ha b (List.mem_cons_self ..)
    simp only [List.cons_append, utf8Go, hb, if_true]
    exact ih (fun x hx => ha x (List.mem_cons_of_mem _ hx)) 128 191

theorem utf8Go_append {a : List Nat} {n lo hi : Nat} (h : utf8Go n lo hi a = true) (X : List Nat) :
    utf8Go n lo hi (a ++ X) = utf8Go 0 128 191 X := by
  induction a generalizing n lo hi with
  | nil =>
    cases n with
    | zero => exact utf8Go_zero ..
    | succ n => simp [utf8Go] at h
  | cons b a ih =>
    cases n with
    | zero =>
      simp only [List.cons_append, utf8Go] at h ⊢
      repeat' split
      all_goals first
        | exact ih (by simp_all)
        | simp_all
    | succ n =>
      simp only [List.cons_append, utf8Go] at h ⊢
      split
      · next hc => rw [if_pos hc] at h; exact ih h
      · next hc => rw [if_neg hc] at h; cases h

theorem utf8Valid_append {a b : List Nat} (ha : utf8Valid a = true) (hb : utf8Valid b = true) :
    utf8Valid (a ++ b) = true := by
  unfold utf8Valid at *
  rw [utf8Go_append ha]; exact hb

theorem utf8Valid_ascii_append {a : List Nat} (ha : AllAscii a) (X : List Nat) :
    utf8Valid (a ++ X) = utf8Valid X := utf8Go_ascii_append ha 128 191 X

theorem utf8Valid_of_ascii {a : List Nat} (ha : AllAscii a) : utf8Valid a = true := by
  have := utf8Valid_ascii_append ha []
  simpa [utf8Valid, utf8Go] using this

theorem allAscii_of_allWs {ws : List Nat} (h : AllWs ws) : AllAscii ws := by
  intro b hb
  rcases (isWs_iff b).mp (h b hb) with rfl | rfl | rfl | rfl <;> decide

theorem allAscii_of_allDigits {ds : List Nat} (h : NumTok.allDigits ds = true) : AllAscii ds := by
  intro b hb
  simp only [NumTok.allDigits, List.all_eq_true] at h
  have := (isDigit_iff b).mp (h b hb)
  omega

theorem AllAscii.append {a b : List Nat} (ha : AllAscii a) (hb : AllAscii b) : AllAscii (a ++ b) := by
  intro x hx
  rcases List.mem_append.mp hx with h | h
  · exact ha x h
  · exact hb x h

theorem allAscii_escByte {b : Nat} (hb : b < 128) : AllAscii (escByte b) := by
  intro x hx
  unfold escByte at hx
  have hd : ∀ n, n < 16 → hexDigitByte n < 128 := by
    intro n hn; unfold hexDigitByte; split <;> omega
  repeat' split at hx
  all_goals simp only [List.mem_cons, List.not_mem_nil, or_false] at hx
  all_goals first
    | (rcases hx with rfl | rfl | rfl | rfl | rfl | rfl <;> first | decide | (apply hd; omega))
    | (rcases hx with rfl | rfl <;> decide)
    | (subst hx; exact hb)

theorem escByte_of_ge {b : Nat} (hb : 128 ≤ b) : escByte b = [b] := by
  unfold escByte
  repeat' split
  all_goals first | omega | rfl

theorem escByte_ne_nil (b : Nat) : escByte b ≠ [] := by
  unfold escByte
  repeat' split
  all_goals simp

theorem utf8Go_escape {s : List Nat} {n lo hi : Nat} (hlo : n = 0 ∨ 128 ≤ lo)
    (h : utf8Go n lo hi s = true) : utf8Go n lo hi (escape s) = true := by
  induction s generalizing n lo hi with
  | nil => exact h
  | cons b s ih =>
    cases n with
    | zero =>
      by_cases hb : b < 128
      · simp only [utf8Go, hb, if_true] at h
        simp only [escape]
        rw [utf8Go_ascii_append (allAscii_escByte hb)]
        exact ih (Or.inl rfl) h
      · rw [escape, escByte_of_ge (by omega)]
        simp only [List.cons_append, List.nil_append]
        simp only [utf8Go, hb, if_false] at h ⊢
        repeat' split at h
        all_goals first
          | cases h
          | (simp only [*, if_true]; exact ih (Or.inr (by decide)) h)
          | skip
        all_goals simp_all
    | succ n =>
      have hlo' : 128 ≤ lo := by
        rcases hlo with h0 | h0
        · cases h0
        · exact h0
      simp only [utf8Go] at h
      split at h
      · next hc =>
        have hc' : lo ≤ b ∧ b ≤ hi := by simpa using hc
        rw [escape, escByte_of_ge (by omega)]
        simp only [List.cons_append, List.nil_append, utf8Go, hc, if_true]
        exact ih (Or.inr (Nat.le_refl _)) h
      · cases h

theorem utf8Valid_escape {s : List Nat} (h : utf8Valid s = true) : utf8Valid (escape s) = true :=
  utf8Go_escape (Or.inl rfl) h

theorem utf8Valid_renderStr {s : List Nat} (h : utf8Valid s = true) :
    utf8Valid (renderStr s) = true := by
  unfold renderStr
  have h34 : AllAscii [34] := by intro x hx; simp at hx; omega
  have : (34 :: (escape s ++ [34])) = [34] ++ (escape s ++ [34]) := rfl
  rw [this, utf8Valid_ascii_append h34]
  exact utf8Valid_append (utf8Valid_escape h) (utf8Valid_of_ascii h34)

/-- a valid UTF-8 string consists of bytes -/
theorem lt_256_of_utf8Go {s : List Nat} {n lo hi : Nat} (hhi : hi ≤ 191)
    (h : utf8Go n lo hi s = true) : ∀ b ∈ s, b < 256 := by
  induction s generalizing n lo hi with
  | nil => intro b hb; cases hb
  | cons c s ih =>
    intro b hb
    cases n with
    | zero =>
      simp only [utf8Go] at h
      rcases List.mem_cons.mp hb with rfl | hb
      · repeat' split at h
        all_goals first | cases h | omega | simp_all <;> omega
      · repeat' split at h
        all_goals first | cases h | exact ih (by decide) h b hb
    | succ n =>
      simp only [utf8Go] at h
      split at h
      · next hc =>
        have hc' : lo ≤ c ∧ c ≤ hi := by simpa using hc
        rcases List.mem_cons.mp hb with rfl | hb
        · omega
        · exact ih (Nat.le_refl _) h b hb
      · cases h

theorem lt_256_of_utf8Valid {s : List Nat} (h : utf8Valid s = true) : ∀ b ∈ s, b < 256 :=
  lt_256_of_utf8Go (Nat.le_refl _) h

end Btc.Json
