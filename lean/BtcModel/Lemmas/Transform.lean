import BtcModel.Model.Transform

/-!
Helper lemmas for C18 (`Model/Transform.lean`): member lookup, well-formedness, observational
equivalence of JSON values, `u64::from_str` and decimal rendering.
-/
namespace Btc.Transform
open List

/-! ### `lookupLast` -/

section Lookup
variable {α : Type}

theorem lookupLast_cons (key k : String) (v : α) (rest : List (String × α)) :
    lookupLast key ((k, v) :: rest) =
      match lookupLast key rest with
      | some w => some w
      | none => if k = key then some v else none := rfl

theorem lookupLast_append (key : String) (a b : List (String × α)) :
    lookupLast key (a ++ b) =
      match lookupLast key b with
      | some w => some w
      | none => lookupLast key a := by
  induction a with
  | nil => cases h : lookupLast key b <;> simp [h, lookupLast]
  | cons x a ih =>
    obtain ⟨k, v⟩ := x
    rw [List.cons_append, lookupLast_cons, ih, lookupLast_cons]
    cases lookupLast key b <;> rfl

theorem lookupLast_eq_none_iff (key : String) (ms : List (String × α)) :
    lookupLast key ms = none ↔ key ∉ ms.map Prod.fst := by
  induction ms with
  | nil => simp [lookupLast]
  | cons x ms ih =>
    obtain ⟨k, v⟩ := x
    rw [lookupLast_cons]
    cases h : lookupLast key ms with
    | some w =>
      have : ¬ key ∉ ms.map Prod.fst := fun hn => by rw [ih.mpr hn] at h; cases h
      simp only [List.map_cons, List.mem_cons, not_or]
      constructor
      · intro h'; cases h'
      · intro h'; exact absurd h'.2 this
    | none =>
      have hn := ih.mp h
      simp only [List.map_cons, List.mem_cons, not_or]
      by_cases hk : k = key
      · simp [hk]
      · simp only [if_neg hk, true_iff]
        exact ⟨fun e => hk e.symm, hn⟩

theorem mem_of_lookupLast_eq_some {key : String} {ms : List (String × α)} {v : α}
    (h : lookupLast key ms = some v) : (key, v) ∈ ms := by
  induction ms with
  | nil => simp [lookupLast] at h
  | cons x ms ih =>
    obtain ⟨k, w⟩ := x
    rw [lookupLast_cons] at h
    cases h' : lookupLast key ms with
    | some u =>
      rw [h'] at h
      simp only [Option.some.injEq] at h
      subst h
      exact List.mem_cons_of_mem _ (ih h')
    | none =>
      rw [h'] at h
      simp only at h
      by_cases hk : k = key
      · rw [if_pos hk] at h
        simp only [Option.some.injEq] at h
        subst h; subst hk
        exact List.mem_cons_self
      · rw [if_neg hk] at h; cases h

/-- With pairwise distinct keys the lookup finds exactly the members of the list. -/
theorem lookupLast_of_mem_nodup {key : String} {ms : List (String × α)} {v : α}
    (hnd : (ms.map Prod.fst).Nodup) (hm : (key, v) ∈ ms) : lookupLast key ms = some v := by
  induction ms with
  | nil => cases hm
  | cons x ms ih =>
    obtain ⟨k, w⟩ := x
    simp only [List.map_cons, List.nodup_cons] at hnd
    rw [lookupLast_cons]
    rcases List.mem_cons.mp hm with heq | hin
    · simp only [Prod.mk.injEq] at heq
      obtain ⟨rfl, rfl⟩ := heq
      rw [(lookupLast_eq_none_iff key ms).mpr hnd.1]
      simp
    · rw [ih hnd.2 hin]

/-- Member order is irrelevant when the keys are pairwise distinct. -/
theorem lookupLast_perm {ms₁ ms₂ : List (String × α)} (hp : ms₁.Perm ms₂)
    (hnd : (ms₁.map Prod.fst).Nodup) (key : String) :
    lookupLast key ms₁ = lookupLast key ms₂ := by
  have hnd₂ : (ms₂.map Prod.fst).Nodup := ((hp.map Prod.fst).nodup_iff).mp hnd
  cases h : lookupLast key ms₁ with
  | none =>
    have h1 := (lookupLast_eq_none_iff key ms₁).mp h
    have h2 : key ∉ ms₂.map Prod.fst := fun hm => h1 (((hp.map Prod.fst).mem_iff).mpr hm)
    exact ((lookupLast_eq_none_iff key ms₂).mpr h2).symm
  | some v =>
    have hm := mem_of_lookupLast_eq_some h
    exact (lookupLast_of_mem_nodup hnd₂ ((hp.mem_iff).mp hm)).symm

/-- A member with a different key can be added or removed anywhere without changing the lookup. -/
theorem lookupLast_insert_other {key k' : String} (hne : k' ≠ key) (v : α)
    (pre post : List (String × α)) :
    lookupLast key (pre ++ (k', v) :: post) = lookupLast key (pre ++ post) := by
  rw [lookupLast_append, lookupLast_append, lookupLast_cons]
  cases lookupLast key post with
  | some w => rfl
  | none => simp [hne]

/-- Replacing the value of one member only affects lookups of that key. -/
theorem lookupLast_replace_other {key k : String} (hne : k ≠ key) (x y : α)
    (pre post : List (String × α)) :
    lookupLast key (pre ++ (k, x) :: post) = lookupLast key (pre ++ (k, y) :: post) := by
  rw [lookupLast_insert_other hne, lookupLast_insert_other hne]

end Lookup

/-! ### `Json.get`, `Json.idx`, well-formedness -/

namespace Json

@[simp] theorem get_obj (key : String) (ms : List (String × Json)) :
    (obj ms).get key = (lookupLast key ms).getD null := rfl

@[simp] theorem idx_arr (i : Nat) (xs : List Json) : (arr xs).idx i = xs.getD i null := rfl

/-- `Json.get` is invariant under permutations of a member list with pairwise distinct keys. -/
theorem get_perm {ms₁ ms₂ : List (String × Json)} (hp : ms₁.Perm ms₂)
    (hnd : (ms₁.map Prod.fst).Nodup) (key : String) :
    (obj ms₁).get key = (obj ms₂).get key := by
  simp only [get_obj, lookupLast_perm hp hnd key]

theorem get_insert_other {key k' : String} (hne : k' ≠ key) (v : Json)
    (pre post : List (String × Json)) :
    (obj (pre ++ (k', v) :: post)).get key = (obj (pre ++ post)).get key := by
  simp only [get_obj, lookupLast_insert_other hne]

theorem WFMembers_lookup {ms : List (String × Json)} (h : WFMembers ms = true) {key : String}
    {v : Json} (hl : lookupLast key ms = some v) : WF v = true := by
  induction ms with
  | nil => simp [lookupLast] at hl
  | cons x ms ih =>
    obtain ⟨k, w⟩ := x
    simp only [WFMembers, Bool.and_eq_true] at h
    rw [lookupLast_cons] at hl
    cases h' : lookupLast key ms with
    | some u =>
      rw [h'] at hl
      simp only [Option.some.injEq] at hl
      subst hl
      exact ih h.2 h'
    | none =>
      rw [h'] at hl
      simp only at hl
      by_cases hk : k = key
      · rw [if_pos hk] at hl
        simp only [Option.some.injEq] at hl
        subst hl
        exact h.1
      · rw [if_neg hk] at hl; cases hl

theorem WFList_getD {xs : List Json} (h : WFList xs = true) (i : Nat) :
    WF (xs.getD i null) = true := by
  induction xs generalizing i with
  | nil => simp [WF]
  | cons x xs ih =>
    simp only [WFList, Bool.and_eq_true] at h
    cases i with
    | zero => simp [h.1]
    | succ i => simpa using ih h.2 i

theorem WF_get {j : Json} (h : j.WF = true) (key : String) : (j.get key).WF = true := by
  cases j with
  | obj ms =>
    simp only [get_obj]
    simp only [WF] at h
    cases hl : lookupLast key ms with
    | none => simp [WF]
    | some v => simpa using WFMembers_lookup h hl
  | _ => simp [get, WF]

theorem WF_idx {j : Json} (h : j.WF = true) (i : Nat) : (j.idx i).WF = true := by
  cases j with
  | arr xs =>
    simp only [WF] at h
    exact WFList_getD h i
  | _ => simp [idx, WF]

theorem WF_step {j : Json} (h : j.WF = true) (s : Step) : (j.step s).WF = true := by
  cases s with
  | key k => exact WF_get h k
  | idx i => exact WF_idx h i

theorem WF_at {j : Json} (h : j.WF = true) (p : List Step) : (j.at p).WF = true := by
  induction p generalizing j with
  | nil => exact h
  | cons s p ih => exact ih (WF_step h s)

theorem WF_asU64 {j : Json} (h : j.WF = true) {n : Nat} (hn : j.asU64 = some n) : n < two64 := by
  cases j <;> simp [asU64] at hn
  subst hn
  simpa [WF] using h

end Json

theorem extractPath_lt {j : Json} (h : j.WF = true) {p : List Step} {n : Nat}
    (hn : extractPath p j = some n) : n < two64 :=
  Json.WF_asU64 (Json.WF_at h p) hn

@[simp] theorem extractPath_nil (j : Json) : extractPath [] j = j.asU64 := rfl
@[simp] theorem extractPath_cons (s : Step) (p : List Step) (j : Json) :
    extractPath (s :: p) j = extractPath p (j.step s) := rfl

/-! ### Observational equivalence -/

/-- Two JSON values are observationally equal when every extraction path yields the same
    `as_u64` result. -/
def ObsEq (j₁ j₂ : Json) : Prop := ∀ p : List Step, extractPath p j₁ = extractPath p j₂

theorem ObsEq.refl (j : Json) : ObsEq j j := fun _ => rfl
theorem ObsEq.symm {a b : Json} (h : ObsEq a b) : ObsEq b a := fun p => (h p).symm
theorem ObsEq.trans {a b c : Json} (h₁ : ObsEq a b) (h₂ : ObsEq b c) : ObsEq a c :=
  fun p => (h₁ p).trans (h₂ p)

theorem ObsEq.step {a b : Json} (h : ObsEq a b) (s : Step) : ObsEq (a.step s) (b.step s) :=
  fun p => h (s :: p)

/-- Two objects whose lookups agree for every key are observationally equal. -/
theorem ObsEq.of_get_eq {ms₁ ms₂ : List (String × Json)}
    (h : ∀ key, (Json.obj ms₁).get key = (Json.obj ms₂).get key) :
    ObsEq (.obj ms₁) (.obj ms₂) := by
  intro p
  cases p with
  | nil => rfl
  | cons s p =>
    cases s with
    | key k => simp only [extractPath_cons, Json.step, h k]
    | idx i => rfl

theorem getD_append_cons_self {α : Type} (pre post : List α) (x d : α) :
    (pre ++ x :: post).getD pre.length d = x := by
  induction pre with
  | nil => rfl
  | cons a pre ih => simp

theorem getD_append_cons_ne {α : Type} (pre post : List α) (x y d : α) {i : Nat}
    (hi : i ≠ pre.length) : (pre ++ x :: post).getD i d = (pre ++ y :: post).getD i d := by
  induction pre generalizing i with
  | nil =>
    cases i with
    | zero => exact absurd rfl hi
    | succ i => rfl
  | cons a pre ih =>
    cases i with
    | zero => rfl
    | succ i =>
      have : i ≠ pre.length := fun e => hi (by simp [e])
      simpa using ih this

/-- Congruence: replacing an array element by an observationally equal one. -/
theorem ObsEq.arr_congr {x y : Json} (h : ObsEq x y) (pre post : List Json) :
    ObsEq (.arr (pre ++ x :: post)) (.arr (pre ++ y :: post)) := by
  intro p
  cases p with
  | nil => rfl
  | cons s p =>
    cases s with
    | key k => rfl
    | idx i =>
      simp only [extractPath_cons, Json.step, Json.idx_arr]
      by_cases hi : i = pre.length
      · subst hi
        rw [getD_append_cons_self, getD_append_cons_self]
        exact h p
      · rw [getD_append_cons_ne pre post x y _ hi]

/-- Congruence: replacing the value of an object member by an observationally equal one. -/
theorem ObsEq.obj_congr {x y : Json} (h : ObsEq x y) (k : String)
    (pre post : List (String × Json)) :
    ObsEq (.obj (pre ++ (k, x) :: post)) (.obj (pre ++ (k, y) :: post)) := by
  intro p
  cases p with
  | nil => rfl
  | cons s p =>
    cases s with
    | idx i => rfl
    | key key =>
      simp only [extractPath_cons, Json.step, Json.get_obj]
      by_cases hk : k = key
      · subst hk
        rw [lookupLast_append, lookupLast_append, lookupLast_cons, lookupLast_cons]
        cases lookupLast k post with
        | some w => rfl
        | none => simpa using h p
      · rw [lookupLast_replace_other hk x y]

/-- "Permuting the members of objects with pairwise distinct keys, at any depth": the least
    equivalence relation that contains member permutations of such objects and is a congruence
    for array elements and member values. -/
inductive DeepPerm : Json → Json → Prop where
  | refl (j : Json) : DeepPerm j j
  | symm {a b : Json} : DeepPerm a b → DeepPerm b a
  | trans {a b c : Json} : DeepPerm a b → DeepPerm b c → DeepPerm a c
  | perm {ms₁ ms₂ : List (String × Json)} :
      ms₁.Perm ms₂ → (ms₁.map Prod.fst).Nodup → DeepPerm (.obj ms₁) (.obj ms₂)
  | inArr {x y : Json} (pre post : List Json) :
      DeepPerm x y → DeepPerm (.arr (pre ++ x :: post)) (.arr (pre ++ y :: post))
  | inObj {x y : Json} (k : String) (pre post : List (String × Json)) :
      DeepPerm x y → DeepPerm (.obj (pre ++ (k, x) :: post)) (.obj (pre ++ (k, y) :: post))

theorem DeepPerm.obsEq {a b : Json} (h : DeepPerm a b) : ObsEq a b := by
  induction h with
  | refl j => exact ObsEq.refl j
  | symm _ ih => exact ih.symm
  | trans _ _ ih₁ ih₂ => exact ih₁.trans ih₂
  | perm hp hnd => exact ObsEq.of_get_eq (Json.get_perm hp hnd)
  | inArr pre post _ ih => exact ih.arr_congr pre post
  | inObj k pre post _ ih => exact ih.obj_congr k pre post

/-- "Adding or removing members/elements that are not on the extraction path `p`":
    the least equivalence relation (per path) generated by
    * adding a member whose key is not the next key of the path to an object on the path,
    * appending further elements behind the array element selected by the path,
    * arbitrary replacement of a value the path does not lead through
      (a member with another key / an element with another index),
    * the same edits further down the path. -/
inductive EditOff : List Step → Json → Json → Prop where
  | refl (p : List Step) (j : Json) : EditOff p j j
  | symm {p : List Step} {a b : Json} : EditOff p a b → EditOff p b a
  | trans {p : List Step} {a b c : Json} : EditOff p a b → EditOff p b c → EditOff p a c
  | addMember (p : List Step) (k' : String) (v : Json) (pre post : List (String × Json)) :
      (∀ rest, p ≠ Step.key k' :: rest) →
      EditOff p (.obj (pre ++ post)) (.obj (pre ++ (k', v) :: post))
  | replaceMember (p : List Step) (k' : String) (v w : Json) (pre post : List (String × Json)) :
      (∀ rest, p ≠ Step.key k' :: rest) →
      EditOff p (.obj (pre ++ (k', v) :: post)) (.obj (pre ++ (k', w) :: post))
  | appendElems (i : Nat) (p : List Step) (xs extra : List Json) :
      i < xs.length → EditOff (Step.idx i :: p) (.arr xs) (.arr (xs ++ extra))
  | replaceElem (p : List Step) (v w : Json) (pre post : List Json) :
      (∀ rest, p ≠ Step.idx pre.length :: rest) →
      EditOff p (.arr (pre ++ v :: post)) (.arr (pre ++ w :: post))
  | inMember (k : String) {p : List Step} {x y : Json} (pre post : List (String × Json)) :
      EditOff p x y →
      EditOff (Step.key k :: p) (.obj (pre ++ (k, x) :: post)) (.obj (pre ++ (k, y) :: post))
  | inElem {p : List Step} {x y : Json} (pre post : List Json) :
      EditOff p x y →
      EditOff (Step.idx pre.length :: p) (.arr (pre ++ x :: post)) (.arr (pre ++ y :: post))

theorem getD_append_of_lt {α : Type} (xs extra : List α) (d : α) {i : Nat} (hi : i < xs.length) :
    (xs ++ extra).getD i d = xs.getD i d := by
  induction xs generalizing i with
  | nil => cases hi
  | cons a xs ih =>
    cases i with
    | zero => rfl
    | succ i => simpa using ih (by simpa using hi)

theorem EditOff.extract_eq {p : List Step} {a b : Json} (h : EditOff p a b) :
    extractPath p a = extractPath p b := by
  induction h with
  | refl p j => rfl
  | symm _ ih => exact ih.symm
  | trans _ _ ih₁ ih₂ => exact ih₁.trans ih₂
  | addMember p k' v pre post hne =>
    cases p with
    | nil => rfl
    | cons s p =>
      cases s with
      | idx i => rfl
      | key key =>
        have hk : k' ≠ key := fun e => hne p (by rw [e])
        simp only [extractPath_cons, Json.step, Json.get_insert_other hk]
  | replaceMember p k' v w pre post hne =>
    cases p with
    | nil => rfl
    | cons s p =>
      cases s with
      | idx i => rfl
      | key key =>
        have hk : k' ≠ key := fun e => hne p (by rw [e])
        simp only [extractPath_cons, Json.step, Json.get_obj, lookupLast_replace_other hk v w]
  | appendElems i p xs extra hi =>
    simp only [extractPath_cons, Json.step, Json.idx_arr, getD_append_of_lt xs extra _ hi]
  | replaceElem p v w pre post hne =>
    cases p with
    | nil => rfl
    | cons s p =>
      cases s with
      | key key => rfl
      | idx i =>
        have hi : i ≠ pre.length := fun e => hne p (by rw [e])
        simp only [extractPath_cons, Json.step, Json.idx_arr, getD_append_cons_ne pre post v w _ hi]
  | inMember k pre post _ ih =>
    rename_i p x y
    simp only [extractPath_cons, Json.step, Json.get_obj]
    rw [lookupLast_append, lookupLast_append, lookupLast_cons, lookupLast_cons]
    cases lookupLast k post with
    | some w => rfl
    | none => simpa using ih
  | inElem pre post _ ih =>
    simp only [extractPath_cons, Json.step, Json.idx_arr, getD_append_cons_self]
    exact ih

/-! ### `parseDigits` / `parseU64Text` -/

/-- decimal value of a list of ASCII digits -/
def decVal (ds : List Nat) : Nat := ds.foldl (fun a d => a * 10 + (d - 48)) 0

theorem parseDigits_eq_some_iff (ds : List Nat) (acc n : Nat) :
    parseDigits ds acc = some n ↔
      (∀ d ∈ ds, isDigit d = true) ∧ ds.foldl (fun a d => a * 10 + (d - 48)) acc = n := by
  induction ds generalizing acc with
  | nil => simp [parseDigits]
  | cons d ds ih =>
    simp only [parseDigits, List.mem_cons, forall_eq_or_imp, List.foldl_cons]
    by_cases hd : isDigit d = true
    · simp only [hd, if_true, true_and]
      exact ih _
    · simp [hd]

theorem parseDigits_eq_none_of_mem {ds : List Nat} {b : Nat} (hb : b ∈ ds)
    (hnd : isDigit b = false) (acc : Nat) : parseDigits ds acc = none := by
  cases h : parseDigits ds acc with
  | none => rfl
  | some n =>
    have := ((parseDigits_eq_some_iff ds acc n).mp h).1 b hb
    rw [hnd] at this; cases this

theorem parseDigits_append_single (xs : List Nat) (d acc : Nat) (hd : isDigit d = true) :
    parseDigits (xs ++ [d]) acc = (parseDigits xs acc).map (fun v => v * 10 + (d - 48)) := by
  induction xs generalizing acc with
  | nil => simp [parseDigits, hd]
  | cons x xs ih =>
    simp only [List.cons_append, parseDigits]
    by_cases hx : isDigit x = true
    · simp only [hx, if_true]; exact ih _
    · simp [hx]

theorem parseU64Text_eq (bs : List Nat) :
    parseU64Text bs =
      match stripPlus bs with
      | [] => none
      | d :: ds =>
        match parseDigits (d :: ds) 0 with
        | some n => if n < two64 then some n else none
        | none => none := rfl

/-- Full characterisation of `parseU64Text`: it accepts exactly `+?[0-9]+` with value `< 2^64`. -/
theorem parseU64Text_eq_some_iff (bs : List Nat) (n : Nat) :
    parseU64Text bs = some n ↔
      ∃ ds : List Nat, (bs = ds ∨ bs = 43 :: ds) ∧ ds ≠ [] ∧ (∀ d ∈ ds, isDigit d = true) ∧
        decVal ds = n ∧ n < two64 := by
  rw [parseU64Text_eq]
  constructor
  · intro h
    refine ⟨stripPlus bs, ?_, ?_⟩
    · unfold stripPlus; split <;> simp
    · cases hs : stripPlus bs with
      | nil => rw [hs] at h; cases h
      | cons d ds =>
        rw [hs] at h
        simp only at h
        cases hp : parseDigits (d :: ds) 0 with
        | none => rw [hp] at h; cases h
        | some m =>
          rw [hp] at h
          simp only at h
          by_cases hm : m < two64
          · rw [if_pos hm] at h
            simp only [Option.some.injEq] at h
            subst h
            have := (parseDigits_eq_some_iff _ _ _).mp hp
            exact ⟨by simp, this.1, this.2, hm⟩
          · rw [if_neg hm] at h; cases h
  · rintro ⟨ds, hbs, hne, hdig, hval, hlt⟩
    have hstrip : stripPlus bs = ds := by
      rcases hbs with rfl | rfl
      · cases bs with
        | nil => exact absurd rfl hne
        | cons b bs =>
          have hb : isDigit b = true := hdig b (by simp)
          have : b ≠ 43 := by
            intro e; subst e; simp [isDigit] at hb
          unfold stripPlus
          split
          · rename_i heq; simp only [List.cons.injEq] at heq; exact absurd heq.1 this
          · rfl
      · rfl
    rw [hstrip]
    cases ds with
    | nil => exact absurd rfl hne
    | cons d ds =>
      have hp : parseDigits (d :: ds) 0 = some n :=
        (parseDigits_eq_some_iff _ _ _).mpr ⟨hdig, hval⟩
      simp only [hp, if_pos hlt]

theorem parseU64Text_lt {bs : List Nat} {n : Nat} (h : parseU64Text bs = some n) : n < two64 := by
  obtain ⟨_, _, _, _, _, hlt⟩ := (parseU64Text_eq_some_iff bs n).mp h
  exact hlt

theorem parseU64Text_nil : parseU64Text [] = none := rfl
theorem parseU64Text_lone_plus : parseU64Text [43] = none := rfl

/-- Any byte other than `+` or an ASCII digit makes the parse fail (this covers whitespace,
    `-`, `.`, newlines and all non-ASCII / invalid UTF-8 bytes). -/
theorem parseU64Text_reject_byte {bs : List Nat} {b : Nat} (hb : b ∈ bs)
    (hnd : isDigit b = false) (hnp : b ≠ 43) : parseU64Text bs = none := by
  cases h : parseU64Text bs with
  | none => rfl
  | some n =>
    obtain ⟨ds, hbs, _, hdig, _, _⟩ := (parseU64Text_eq_some_iff bs n).mp h
    have hmem : b ∈ ds := by
      rcases hbs with rfl | rfl
      · exact hb
      · rcases List.mem_cons.mp hb with e | hm
        · exact absurd e hnp
        · exact hm
    have := hdig b hmem
    rw [hnd] at this; cases this

/-- A `+` anywhere but in the first position makes the parse fail. -/
theorem parseU64Text_reject_inner_plus (b : Nat) (rest : List Nat) (h : 43 ∈ rest) :
    parseU64Text (b :: rest) = none := by
  cases hp : parseU64Text (b :: rest) with
  | none => rfl
  | some n =>
    obtain ⟨ds, hbs, _, hdig, _, _⟩ := (parseU64Text_eq_some_iff _ n).mp hp
    have hmem : 43 ∈ ds := by
      rcases hbs with e | e
      · rw [← e]; exact List.mem_cons_of_mem _ h
      · simp only [List.cons.injEq] at e; rw [← e.2]; exact h
    have := hdig 43 hmem
    simp [isDigit] at this

/-- Values of 2^64 and above are rejected. -/
theorem parseU64Text_reject_overflow {ds : List Nat} (h : two64 ≤ decVal ds) :
    parseU64Text ds = none ∧ parseU64Text (43 :: ds) = none := by
  constructor
  · cases hp : parseU64Text ds with
    | none => rfl
    | some n =>
      obtain ⟨ds', hbs, _, hdig, hv, hlt⟩ := (parseU64Text_eq_some_iff _ n).mp hp
      rcases hbs with rfl | rfl
      · omega
      · have e : (0 * 10 + (43 - 48) : Nat) = 0 := by decide
        simp only [decVal, List.foldl_cons, e] at h hv; omega
  · cases hp : parseU64Text (43 :: ds) with
    | none => rfl
    | some n =>
      obtain ⟨ds', hbs, _, hdig, hv, hlt⟩ := (parseU64Text_eq_some_iff _ n).mp hp
      rcases hbs with e | e
      · have := hdig 43 (by rw [← e]; simp); simp [isDigit] at this
      · simp only [List.cons.injEq, true_and] at e; subst e; omega

/-! ### Decimal rendering -/

theorem decDigitsFuel_acc (fuel n : Nat) (acc : List Nat) :
    decDigitsFuel fuel n acc = decDigitsFuel fuel n [] ++ acc := by
  induction fuel generalizing n acc with
  | zero => simp [decDigitsFuel]
  | succ fuel ih =>
    simp only [decDigitsFuel]
    split
    · simp
    · rw [ih (n / 10) ((48 + n % 10) :: acc), ih (n / 10) [48 + n % 10]]
      simp

theorem decDigitsFuel_allDigits (fuel n : Nat) (hf : n ≤ fuel) :
    ∀ d ∈ decDigitsFuel fuel n [], isDigit d = true := by
  induction fuel generalizing n with
  | zero =>
    have : n = 0 := by omega
    subst this
    simp [decDigitsFuel, isDigit]
  | succ fuel ih =>
    simp only [decDigitsFuel]
    split
    · intro d hd
      simp only [List.mem_singleton] at hd
      subst hd
      simp only [isDigit, Bool.and_eq_true, decide_eq_true_eq]; omega
    · rw [decDigitsFuel_acc]
      intro d hd
      rcases List.mem_append.mp hd with h | h
      · exact ih (n / 10) (by omega) d h
      · simp only [List.mem_singleton] at h
        subst h
        simp only [isDigit, Bool.and_eq_true, decide_eq_true_eq]; omega

theorem decDigitsFuel_ne_nil (fuel n : Nat) : decDigitsFuel fuel n [] ≠ [] := by
  cases fuel with
  | zero => simp [decDigitsFuel]
  | succ fuel =>
    simp only [decDigitsFuel]
    split
    · simp
    · rw [decDigitsFuel_acc]; simp

theorem parseDigits_decDigitsFuel (fuel n : Nat) (hf : n ≤ fuel) :
    parseDigits (decDigitsFuel fuel n []) 0 = some n := by
  induction fuel generalizing n with
  | zero =>
    have : n = 0 := by omega
    subst this
    simp [decDigitsFuel, parseDigits, isDigit]
  | succ fuel ih =>
    simp only [decDigitsFuel]
    split
    · rename_i h
      have hd : isDigit (48 + n) = true := by
        simp only [isDigit, Bool.and_eq_true, decide_eq_true_eq]; omega
      simp only [parseDigits, hd, if_true, Option.some.injEq]; omega
    · rw [decDigitsFuel_acc]
      have hd : isDigit (48 + n % 10) = true := by
        simp only [isDigit, Bool.and_eq_true, decide_eq_true_eq]; omega
      rw [parseDigits_append_single _ _ _ hd, ih (n / 10) (by omega)]
      simp only [Option.map_some, Option.some.injEq]; omega

theorem decDigits_allDigits (n : Nat) : ∀ d ∈ decDigits n, isDigit d = true :=
  decDigitsFuel_allDigits n n (Nat.le_refl n)

theorem decDigits_ne_nil (n : Nat) : decDigits n ≠ [] := decDigitsFuel_ne_nil n n

/-- Parsing the decimal rendering gives the number back. -/
theorem parseDigits_decDigits (n : Nat) : parseDigits (decDigits n) 0 = some n :=
  parseDigits_decDigitsFuel n n (Nat.le_refl n)

theorem decDigits_injective {a b : Nat} (h : decDigits a = decDigits b) : a = b := by
  have ha := parseDigits_decDigits a
  rw [h, parseDigits_decDigits b] at ha
  exact (Option.some.inj ha).symm

/-- `u64::from_str` reads back what `itoa` wrote. -/
theorem parseU64Text_decDigits {n : Nat} (hn : n < two64) : parseU64Text (decDigits n) = some n := by
  rw [parseU64Text_eq_some_iff]
  refine ⟨decDigits n, Or.inl rfl, decDigits_ne_nil n, decDigits_allDigits n, ?_, hn⟩
  exact ((parseDigits_eq_some_iff _ _ _).mp (parseDigits_decDigits n)).2

/-! ### `renderHeight` -/

theorem renderHeight_ne_nil (h : Option Nat) : renderHeight h ≠ [] := by
  cases h <;> simp [renderHeight, heightPrefix]

theorem renderHeight_injective {h₁ h₂ : Option Nat} (h : renderHeight h₁ = renderHeight h₂) :
    h₁ = h₂ := by
  have hnull : ∀ n, decDigits n ≠ nullBytes := by
    intro n e
    have := decDigits_allDigits n 110 (by rw [e]; simp [nullBytes])
    simp [isDigit] at this
  cases h₁ with
  | none =>
    cases h₂ with
    | none => rfl
    | some b =>
      simp only [renderHeight, List.append_assoc, List.append_cancel_left_eq] at h
      have := List.append_cancel_right h
      exact absurd this.symm (hnull b)
  | some a =>
    cases h₂ with
    | none =>
      simp only [renderHeight, List.append_assoc, List.append_cancel_left_eq] at h
      have := List.append_cancel_right h
      exact absurd this (hnull a)
    | some b =>
      simp only [renderHeight, List.append_assoc, List.append_cancel_left_eq] at h
      have := List.append_cancel_right h
      rw [decDigits_injective this]

end Btc.Transform
