import BtcModel.Spec.FeeSpec
import BtcModel.Props.C09
import BtcModel.Props.C15
import BtcModel.Lemmas.Reach

/-!
  Helper lemmas for `Props/C15Spec.lean`: the specification-level fee rates
  (`Spec/FeeSpec.lean`) against the model's insertion-time rates (`insert_outpoints`) and its
  recomputed rates (`get_tx_fee_per_byte`), and the invariant `FeeCacheOk`.
-/
namespace Btc.Lemmas.FeeSpec
open Btc Btc.Spec Btc.Tree Btc.InsertOutpoints

/-! ### `Spec.inputSum` / `Spec.feeRate` against `inSum` / `feeRateOf` -/

theorem filterMap_congr' {α β : Type} {f g : α → Option β} : ∀ (l : List α),
    (∀ a ∈ l, f a = g a) → l.filterMap f = l.filterMap g
  | [], _ => rfl
  | a :: as, h => by
    simp only [List.filterMap_cons, h a List.mem_cons_self,
      filterMap_congr' as (fun x hx => h x (List.mem_cons_of_mem _ hx))]

theorem inputSum_congr {h1 h2 : List Block} : ∀ (ins : List OutPoint),
    (∀ o ∈ ins, outAt h1 o = outAt h2 o) → inputSum h1 ins = inputSum h2 ins
  | [], _ => rfl
  | o :: os, h => by
    simp only [inputSum, h o List.mem_cons_self,
      inputSum_congr os (fun x hx => h x (List.mem_cons_of_mem _ hx))]

/-- all inputs resolve: the specified input sum is the sum the code computes -/
theorem inputSum_eq_inSum (hist : List Block) : ∀ (ins : List OutPoint),
    (∀ o ∈ ins, (outAt hist o).isSome) → inputSum hist ins = some (inSum hist ins)
  | [], _ => rfl
  | o :: os, h => by
    have ih := inputSum_eq_inSum hist os (fun x hx => h x (List.mem_cons_of_mem _ hx))
    have ho := h o List.mem_cons_self
    cases hoa : outAt hist o with
    | none => rw [hoa] at ho; cases ho
    | some t =>
      simp only [inputSum, hoa, ih]
      simp [inSum, hoa]

/-- an input that does not resolve makes the specified sum undefined -/
theorem inputSum_eq_none {hist : List Block} : ∀ {ins : List OutPoint} {o : OutPoint},
    o ∈ ins → outAt hist o = none → inputSum hist ins = none
  | x :: xs, o, hm, hn => by
    rcases List.mem_cons.mp hm with rfl | hm'
    · simp [inputSum, hn]
    · have := inputSum_eq_none hm' hn
      simp only [inputSum, this]
      cases outAt hist x <;> rfl

theorem inputSum_isSome_iff (hist : List Block) (ins : List OutPoint) :
    (inputSum hist ins).isSome ↔ ∀ o ∈ ins, (outAt hist o).isSome := by
  constructor
  · intro h o ho
    cases hoa : outAt hist o with
    | some t => rfl
    | none => rw [inputSum_eq_none ho hoa] at h; cases h
  · intro h
    rw [inputSum_eq_inSum hist ins h]; rfl

theorem outputSum_eq_outSum (tx : Tx) : outputSum tx = outSum tx := by
  unfold outputSum outSum
  rw [List.sum_eq_foldl]

theorem feeRate_congr {h1 h2 : List Block} (tx : Tx)
    (h : ∀ o ∈ tx.ins, outAt h1 o = outAt h2 o) : feeRate h1 tx = feeRate h2 tx := by
  unfold feeRate txFee
  rw [inputSum_congr tx.ins h]

theorem blockFeeRates_congr {h1 h2 : List Block} (b : Block)
    (h : ∀ tx ∈ b.txs, ∀ o ∈ tx.ins, outAt h1 o = outAt h2 o) :
    blockFeeRates h1 b = blockFeeRates h2 b := by
  unfold blockFeeRates
  apply filterMap_congr'
  intro tx htx
  exact feeRate_congr tx (h tx htx)

/-- with all inputs resolved, the specified fee rate is `feeRateOf` (the value computed both by
    `insert_outpoints` and by `get_tx_fee_per_byte`) -/
theorem feeRate_eq_feeRateOf (hist : List Block) (tx : Tx)
    (h : ∀ o ∈ tx.ins, (outAt hist o).isSome) : feeRate hist tx = feeRateOf hist tx := by
  unfold feeRate txFee feeRateOf feeRatePerVbyte
  rw [inputSum_eq_inSum hist tx.ins h, outputSum_eq_outSum]
  cases tx.coinbase with
  | true => simp
  | false =>
    simp only [Bool.false_eq_true, if_false, Bool.not_false, Bool.true_and, decide_eq_true_eq]
    by_cases hle : outSum tx ≤ inSum hist tx.ins
    · simp only [hle, if_true]
    · simp [hle]

theorem blockFeeRates_eq_feeRatesSpec (hist : List Block) (b : Block)
    (h : ∀ tx ∈ b.txs, ∀ o ∈ tx.ins, (outAt hist o).isSome) :
    blockFeeRates hist b = feeRatesSpec hist b.txs := by
  unfold blockFeeRates feeRatesSpec
  apply filterMap_congr'
  intro tx htx
  exact feeRate_eq_feeRateOf hist tx (h tx htx)

/-! ### Resolution of inputs under the invariant -/

theorem eq_of_nodup_map {α β : Type} (f : α → β) : ∀ {l : List α}, (l.map f).Nodup →
    ∀ {x y : α}, x ∈ l → y ∈ l → f x = f y → x = y
  | [], _, _, _, hx, _, _ => by cases hx
  | a :: as, hnd, x, y, hx, hy, e => by
    simp only [List.map_cons, List.nodup_cons] at hnd
    rcases List.mem_cons.mp hx with rfl | hx' <;> rcases List.mem_cons.mp hy with rfl | hy'
    · rfl
    · exact absurd (e ▸ List.mem_map.mpr ⟨y, hy', rfl⟩) hnd.1
    · exact absurd (e ▸ List.mem_map.mpr ⟨x, hx', rfl⟩) hnd.1
    · exact eq_of_nodup_map f hnd.2 hx' hy' e

theorem pathBlocks_elim {t : Tree CBlock} {tip : Nat} {p : List Block}
    (hp : pathBlocks t tip = some p) :
    ∃ pc sib, chainWithTip CBlock.hash tip t = some (pc, sib) ∧ p = pc.map (·.blk) := by
  unfold pathBlocks at hp
  cases hc : chainWithTip CBlock.hash tip t with
  | none => rw [hc] at hp; cases hp
  | some v =>
    obtain ⟨pc, sib⟩ := v
    rw [hc] at hp
    simp only [Option.map_some, Option.some.injEq] at hp
    exact ⟨pc, sib, rfl, hp.symm⟩

/-- the blocks of a root path are blocks of the tree -/
theorem pathBlocks_mem {t : Tree CBlock} {tip : Nat} {p : List Block}
    (hp : pathBlocks t tip = some p) : ∀ B ∈ p, ∃ c ∈ t.blocks, c.blk = B := by
  obtain ⟨pc, sib, hc, rfl⟩ := pathBlocks_elim hp
  intro B hB
  obtain ⟨c, hc', rfl⟩ := List.mem_map.mp hB
  exact ⟨c, (Btc.chainWithTip_spec CBlock.hash tip t pc sib hc).1 c hc', rfl⟩

theorem path_subset_hist {s : State} {G : List Block} {tip : Nat} {p : List Block}
    (hp : pathBlocks s.unstable.tree tip = some p) :
    ∀ b ∈ G ++ p, b ∈ G ++ s.unstable.tree.blocks.map (·.blk) := by
  intro b hb
  rcases List.mem_append.mp hb with h | h
  · exact List.mem_append_left _ h
  · obtain ⟨c, hc, rfl⟩ := pathBlocks_mem hp b h
    exact List.mem_append_right _ (List.mem_map.mpr ⟨c, hc, rfl⟩)

/-- every input of a transaction of a tree block designates an output of the history -/
theorem tree_resolved {s : State} {G : List Block} (hinv : Inv s G) {c : CBlock}
    (hc : c ∈ s.unstable.tree.blocks) {tx : Tx} (htx : tx ∈ c.blk.txs) {o : OutPoint}
    (ho : o ∈ tx.ins) : ∃ t, outAt (G ++ s.unstable.tree.blocks.map (·.blk)) o = some t := by
  obtain ⟨info, _, hout⟩ := getTxOut_of_ref s.unstable _ hinv.caches c hc o
    (mem_blockRefs_input c.blk tx htx o ho)
  exact ⟨_, hout⟩

/-- … and it designates the same output on the block's own chain (stable chain followed by any
    root path through the block): the spent output is in the stable chain or in an earlier block
    of the path (or earlier in the same block). -/
theorem path_resolved {s : State} {G : List Block} (hinv : Inv s G) {tip : Nat} {p : List Block}
    (hp : pathBlocks s.unstable.tree tip = some p) {B : Block} (hB : B ∈ p) {tx : Tx}
    (htx : tx ∈ B.txs) {o : OutPoint} (ho : o ∈ tx.ins) :
    ∃ t, outAt (G ++ p) o = some t ∧ outAt (G ++ s.unstable.tree.blocks.map (·.blk)) o = some t := by
  obtain ⟨c, hc, rfl⟩ := pathBlocks_mem hp B hB
  obtain ⟨t, ht⟩ := tree_resolved hinv hc htx ho
  have hsub := path_subset_hist (G := G) hp
  have hcp : TxidsConsistent (G ++ p) := InsertOutpoints.TxidsConsistent.of_subset hinv.txids hsub
  obtain ⟨tx', htx', hid⟩ := Btc.TxValid_input_source (G ++ p) (hinv.valid tip p hp) c.blk
    (List.mem_append_right _ hB) tx htx o ho
  have htx'' : tx' ∈ txsOf (G ++ s.unstable.tree.blocks.map (·.blk)) := by
    rw [InsertOutpoints.mem_txsOf] at htx' ⊢
    obtain ⟨b, hb, hm⟩ := htx'
    exact ⟨b, hsub b hb, hm⟩
  have e1 := InsertOutpoints.outAt_of_mem hcp htx' hid
  have e2 := InsertOutpoints.outAt_of_mem hinv.txids htx'' hid
  exact ⟨t, by rw [e1, ← e2, ht], ht⟩

/-- the specified rates of a block on its own chain = resolved in the whole history -/
theorem blockFeeRates_path_eq_tree {s : State} {G : List Block} (hinv : Inv s G) {tip : Nat}
    {p : List Block} (hp : pathBlocks s.unstable.tree tip = some p) {B : Block} (hB : B ∈ p) :
    Spec.blockFeeRates (G ++ p) B =
      Spec.blockFeeRates (G ++ s.unstable.tree.blocks.map (·.blk)) B := by
  apply blockFeeRates_congr
  intro tx htx o ho
  obtain ⟨t, h1, h2⟩ := path_resolved hinv hp hB htx ho
  rw [h1, h2]

/-! ### `FeeCacheOk`: tree form -/

/-- the working form of `Spec.FeeCacheOk`: cached rates are the specified rates with outputs
    resolved in `hist` (= stable chain ++ all tree blocks) -/
def FeeCacheOkT (s : State) (hist : List Block) : Prop :=
  ∀ c ∈ s.unstable.tree.blocks, ∀ r, c.feeRates = some r → r = Spec.blockFeeRates hist c.blk

theorem feeCacheOk_iff {s : State} {G : List Block} (hinv : Inv s G) :
    FeeCacheOk s G ↔ FeeCacheOkT s (G ++ s.unstable.tree.blocks.map (·.blk)) := by
  have hnd := Btc.Lemmas.Reach.tree_hashes_nodup hinv
  constructor
  · intro h c hc r hr
    obtain ⟨pc, sib, hcw, hcp⟩ := Tree.chainWithTip_exists CBlock.hash _ hnd c hc
    have hp : pathBlocks s.unstable.tree c.hash = some (pc.map (·.blk)) := by
      simp [pathBlocks, hcw]
    rw [h c.hash _ hp c hc rfl r hr]
    exact blockFeeRates_path_eq_tree hinv hp (List.mem_map.mpr ⟨c, hcp, rfl⟩)
  · intro h tip p hp c hc htip r hr
    rw [h c hc r hr]
    obtain ⟨pc, sib, hcw, rfl⟩ := pathBlocks_elim hp
    obtain ⟨hmem, x, hlast, hx⟩ := Btc.chainWithTip_spec CBlock.hash tip _ pc sib hcw
    have hxm : x ∈ pc := List.mem_of_getLast? hlast
    have hxc : x = c := eq_of_nodup_map CBlock.hash hnd (hmem x hxm) hc (by rw [hx, htip])
    subst hxc
    exact (blockFeeRates_path_eq_tree hinv hp (List.mem_map.mpr ⟨x, hxm, rfl⟩)).symm

/-! ### `FeeCacheOk` is established at insertion time and preserved -/

/-- every input of a transaction of a tree block designates an output of `hist`
    (cache-exactness version of `tree_resolved`) -/
theorem tree_resolved' {u : Unstable} {hist : List Block} (hce : CachesExact u hist) {c : CBlock}
    (hc : c ∈ u.tree.blocks) : ∀ tx ∈ c.blk.txs, ∀ o ∈ tx.ins, (outAt hist o).isSome := by
  intro tx htx o ho
  obtain ⟨info, _, hout⟩ := getTxOut_of_ref u hist hce c hc o (mem_blockRefs_input c.blk tx htx o ho)
  rw [hout]; rfl

/-- with all inputs of `B` resolved in the smaller history and consistent transaction ids in the
    larger one, the specified rates agree -/
theorem blockFeeRates_mono {h1 h2 : List Block} (hc : TxidsConsistent h2)
    (hsub : ∀ b ∈ h1, b ∈ h2) (B : Block)
    (hres : ∀ tx ∈ B.txs, ∀ o ∈ tx.ins, (outAt h1 o).isSome) :
    Spec.blockFeeRates h1 B = Spec.blockFeeRates h2 B := by
  apply blockFeeRates_congr
  intro tx htx o ho
  have := hres tx htx o ho
  cases h : outAt h1 o with
  | none => rw [h] at this; cases this
  | some t => rw [outAt_mono hc hsub h]

/-- the stored metrics of C09 (`MetricsOk`) give the tree form of `FeeCacheOk` -/
theorem feeCacheOkT_of_metricsOk {s : State} {hist : List Block}
    (hce : CachesExact s.unstable hist) (hm : Btc.Props.C09.MetricsOk hist s) :
    FeeCacheOkT s hist := by
  intro c hc r hr
  rcases hm c hc with h | ⟨_, h⟩
  · rw [h] at hr; cases hr
  · rw [h] at hr
    rw [blockFeeRates_eq_feeRatesSpec hist c.blk (tree_resolved' hce hc)]
    exact (Option.some.inj hr).symm

/-- **Shrinking** (what `pop` and the ingestion loop do): fewer blocks in the tree, a history that
    is contained in the old one, caches exact for the new history. -/
theorem FeeCacheOkT.shrink {s s' : State} {hist hist' : List Block} (hm : FeeCacheOkT s hist)
    (hcons : TxidsConsistent hist) (hsub : ∀ b ∈ hist', b ∈ hist)
    (hblocks : ∀ c ∈ s'.unstable.tree.blocks, c ∈ s.unstable.tree.blocks)
    (hce' : CachesExact s'.unstable hist') : FeeCacheOkT s' hist' := by
  intro c hc r hr
  rw [hm c (hblocks c hc) r hr]
  exact (blockFeeRates_mono hcons hsub c.blk (tree_resolved' hce' hc)).symm

/-- **Growing** (what `push` does to the old blocks): more blocks, a larger history. -/
theorem FeeCacheOkT.grow_old {s : State} {hist hist' : List Block} (hm : FeeCacheOkT s hist)
    (hce : CachesExact s.unstable hist) (hcons' : TxidsConsistent hist')
    (hsub : ∀ b ∈ hist, b ∈ hist') {c : CBlock} (hc : c ∈ s.unstable.tree.blocks) (r : List Nat)
    (hr : c.feeRates = some r) : r = Spec.blockFeeRates hist' c.blk := by
  rw [hm c hc r hr]
  exact blockFeeRates_mono hcons' hsub c.blk (tree_resolved' hce hc)

/-- `FeeCacheOk` only looks at the tree -/
theorem feeCacheOk_congr {s s' : State} {G : List Block} (ht : s'.unstable.tree = s.unstable.tree)
    (h : FeeCacheOk s G) : FeeCacheOk s' G := by
  unfold FeeCacheOk at h ⊢
  rw [ht]; exact h

/-- **`State::new`** stores the specified rates for the genesis block. -/
theorem feeCacheOk_new {thr : Nat} {net : Tree.Net} {genesis : Block} {s0 : State}
    (hv : TxValid [genesis]) (h0 : State.new thr net genesis = some s0) : FeeCacheOk s0 [] := by
  obtain ⟨s0', h0', hinv, hm⟩ := Btc.Props.C09.metricsOk_new thr net genesis hv
  rw [h0] at h0'
  cases h0'
  exact (feeCacheOk_iff hinv).mpr (feeCacheOkT_of_metricsOk hinv.caches hm)

/-- **`push` (`insert_outpoints`) establishes `FeeCacheOk` for the new block and preserves it for
    the old ones**: the new block is stored with its specified rates; the old blocks' inputs are
    already resolved in the old history, so their rates do not change when the history grows. -/
theorem feeCacheOk_push (s : State) (G : List Block) (b : Block) (hinv : Inv s G)
    (hd : PushDomain s G b) (hf : FeeCacheOk s G) :
    ∃ u', s.unstable.push s.utxos b = .ok u' ∧ Inv { s with unstable := u' } G ∧
      FeeCacheOk { s with unstable := u' } G := by
  obtain ⟨u', hp, hinv'⟩ :=
    Btc.Props.InvPush.push_preserves_inv s G b hinv hd.fresh hd.parent hd.valid hd.consistent
  obtain ⟨u'', hp', hext⟩ :=
    Btc.Props.InvPush.push_metrics s G b hinv hd.fresh hd.parent hd.valid hd.consistent
  rw [hp] at hp'
  cases hp'
  refine ⟨u', hp, hinv', (feeCacheOk_iff hinv').mpr ?_⟩
  have hm := (feeCacheOk_iff hinv).mp hf
  have hmemT := TreeExtend.extend_mem_blocks CBlock.hash b.prev _ _ _ hext
  have hcons' : TxidsConsistent (G ++ u'.tree.blocks.map (·.blk)) := hinv'.txids
  intro x hx r hr
  rcases (hmemT x).mp hx with rfl | hxo
  · -- the new block
    have hr' : r = feeRatesSpec (G ++ s.unstable.tree.blocks.map (·.blk) ++ [b]) b.txs :=
      (Option.some.inj hr).symm
    rw [hr']
    show _ = Spec.blockFeeRates (G ++ u'.tree.blocks.map (·.blk)) b
    rw [blockFeeRates_eq_feeRatesSpec _ b (tree_resolved' hinv'.caches hx)]
    apply Btc.Props.C09.feeRatesSpec_congr
    intro tx _ o _
    apply Btc.Props.InvPush.outAt_congr hcons'
    intro y
    simp only [List.mem_append, List.mem_map, List.mem_singleton, hmemT]
    constructor
    · rintro ((hg | ⟨c, hc, rfl⟩) | rfl)
      · exact Or.inl hg
      · exact Or.inr ⟨c, Or.inr hc, rfl⟩
      · exact Or.inr ⟨_, Or.inl rfl, rfl⟩
    · rintro (hg | ⟨c, (rfl | hc), rfl⟩)
      · exact Or.inl (Or.inl hg)
      · exact Or.inr rfl
      · exact Or.inl (Or.inr ⟨c, hc, rfl⟩)
  · -- an old block
    apply FeeCacheOkT.grow_old hm hinv.caches hcons' _ hxo r hr
    intro y hy
    simp only [List.mem_append, List.mem_map, hmemT] at hy ⊢
    rcases hy with hg | ⟨c, hc, rfl⟩
    · exact Or.inl hg
    · exact Or.inr ⟨c, Or.inr hc, rfl⟩

/-- **`pop` preserves `FeeCacheOk`** (tree form; the stable chain is extended by the popped anchor). -/
theorem feeCacheOkT_pop (bound : Unstable.BoundFn) (s : State) (G : List Block) (sh : Nat)
    (r : CBlock) (cs : List (Tree CBlock)) (idx : Nat) (child : Tree CBlock)
    (htree : s.unstable.tree = .node r cs) (hidx : Unstable.stableChildIdx bound s.unstable = some idx)
    (hchild : cs[idx]? = some child) (hpre : PopPre s.unstable G)
    (hm : FeeCacheOkT s (G ++ s.unstable.tree.blocks.map (·.blk))) :
    ∃ u', Unstable.pop bound s.unstable sh = .ok u' r.blk ∧ u'.tree = child ∧
      ∀ utxos' headers', FeeCacheOkT { s with unstable := u', utxos := utxos', headers := headers' }
        ((G ++ [r.blk]) ++ u'.tree.blocks.map (·.blk)) := by
  obtain ⟨u', hpop, ht, _, _, hce'⟩ :=
    pop_caches bound s.unstable G sh r cs idx child htree hidx hchild hpre
  refine ⟨u', hpop, ht, fun utxos' headers' => ?_⟩
  have hsubT : ∀ b ∈ child.blocks, b ∈ s.unstable.tree.blocks := by
    intro b hb
    rw [htree]
    simp only [Tree.blocks, List.mem_cons]
    exact Or.inr ((Tree.blocks_child_sublist cs idx child hchild).subset hb)
  apply FeeCacheOkT.shrink hm hpre.txids
  · intro b hb
    rw [ht] at hb
    simp only [List.mem_append, List.mem_map, List.mem_singleton] at hb ⊢
    rcases hb with (hg | rfl) | ⟨c, hc, rfl⟩
    · exact Or.inl hg
    · exact Or.inr ⟨r, by rw [htree]; simp [Tree.blocks], rfl⟩
    · exact Or.inr ⟨c, hsubT c hc, rfl⟩
  · intro b hb
    have hb' : b ∈ u'.tree.blocks := hb
    rw [ht] at hb'
    exact hsubT b hb'
  · have : CachesExact u' ((G ++ [r.blk]) ++ u'.tree.blocks.map (·.blk)) := by rw [ht]; exact hce'
    exact this

/-- **The ingestion loop preserves `FeeCacheOk`** whenever it completes; the ghost is extended by
    the popped anchors.  (`InvU` rather than `Inv`: only `Lemmas.Reach.ingest_stable_preserves_invU`
    exposes how the new tree sits inside the old one.) -/
theorem feeCacheOk_ingest (bound : Unstable.BoundFn) (s : State) (G : List Block) (budget : Nat)
    (hI : InvU s G) (hf : FeeCacheOk s G) :
    match s.ingestStable bound budget with
    | .done s' _ => InvU s' (G ++ poppedAnchors s s') ∧ FeeCacheOk s' (G ++ poppedAnchors s s') ∧
        s'.feeCache = s.feeCache
    | .paused _ => True
    | .trap _ => False := by
  have h := Btc.Lemmas.Reach.ingest_stable_preserves_invU bound s G budget hI
  cases hr : s.ingestStable bound budget with
  | trap m => rw [hr] at h; exact h
  | paused sp => trivial
  | done s' w =>
    rw [hr] at h
    obtain ⟨popped, i1, _, _, iF, _, _, i7, i8⟩ := h
    simp only
    rw [i8]
    refine ⟨i1, (feeCacheOk_iff i1.inv).mpr ?_, iF.feeCache⟩
    have hm := (feeCacheOk_iff hI.inv).mp hf
    have hsl := Btc.Lemmas.Reach.popSteps_sublist bound i7
    have hpath := Btc.Lemmas.Reach.popSteps_path bound i7 (Btc.Lemmas.Reach.tree_hashes_nodup hI.inv)
    apply FeeCacheOkT.shrink hm hI.inv.txids _ (fun c hc => hsl.subset hc) i1.inv.caches
    intro b hb
    simp only [List.mem_append, List.mem_map] at hb ⊢
    rcases hb with (hg | hpop) | ⟨c, hc, rfl⟩
    · exact Or.inl hg
    · obtain ⟨c, hc, rfl⟩ := pathBlocks_mem hpath b (List.mem_append_left _ hpop)
      exact Or.inr ⟨c, hc, rfl⟩
    · exact Or.inr ⟨c, hsl.subset hc, rfl⟩

/-- **An upgrade clears all cached rates**, so `FeeCacheOk` holds trivially afterwards. -/
theorem feeCacheOk_upgrade (s : State) (G : List Block) (c : Option State.SetConfig) :
    FeeCacheOk (s.upgrade c) G := by
  have ht : (s.upgrade c).unstable.tree = Tree.mapT Btc.Lemmas.Reach.clearF s.unstable.tree := by
    rw [Btc.Lemmas.Reach.upgrade_eq]
    cases c with
    | none => rfl
    | some c =>
      obtain ⟨_, _, h3, _⟩ := Btc.Lemmas.Reach.setConfig_frame (Btc.Lemmas.Reach.upgraded s) c
      simp only
      rw [h3]; rfl
  intro tip p _ x hx _ r hr
  rw [ht, Btc.Lemmas.Reach.blocks_mapT] at hx
  obtain ⟨x0, _, rfl⟩ := List.mem_map.mp hx
  cases hr

theorem feeCacheOk_setConfig (s : State) (G : List Block) (c : State.SetConfig)
    (h : FeeCacheOk s G) : FeeCacheOk (s.setConfig c) G :=
  feeCacheOk_congr (Btc.Lemmas.Reach.setConfig_frame s c).2.2.1 h

/-! ### Every step of the transition system -/

theorem setConfig_feeCache (s : State) (c : State.SetConfig) : (s.setConfig c).feeCache = s.feeCache := by
  rcases c with ⟨_ | _, _ | _, _ | _, _ | _, _ | _, _ | _⟩ <;> rfl

theorem upgrade_feeCache (s : State) (c : Option State.SetConfig) :
    (s.upgrade c).feeCache = s.feeCache := by
  cases c with
  | none => rfl
  | some c => exact setConfig_feeCache _ c

/-- every completed step of `Spec.step` preserves the extended invariant and `FeeCacheOk`, and
    leaves the fee-percentile cache alone -/
theorem step_preserves (bound : Unstable.BoundFn) (s : State) (G : List Block) (op : Op)
    (s' : State) (G' : List Block) (hI : InvU s G) (hf : FeeCacheOk s G) (hd : Domain (s, G) op)
    (hs : step bound (s, G) op = some (s', G')) :
    InvU s' G' ∧ FeeCacheOk s' G' ∧ s'.feeCache = s.feeCache := by
  refine ⟨Btc.Lemmas.Reach.step_preserves_invU bound s G op s' G' hI hd hs, ?_⟩
  cases op with
  | push b =>
    obtain ⟨u', hp, _, hF⟩ := feeCacheOk_push s G b hI.inv hd hf
    simp only [step, hp, Option.some.injEq, Prod.mk.injEq] at hs
    obtain ⟨rfl, rfl⟩ := hs
    exact ⟨hF, rfl⟩
  | ingest budget =>
    have := feeCacheOk_ingest bound s G budget hI hf
    simp only [step] at hs
    cases hr : s.ingestStable bound budget with
    | trap m => rw [hr] at hs; cases hs
    | paused sp => rw [hr] at hs; cases hs
    | done s1 w =>
      rw [hr] at hs this
      simp only [Option.some.injEq, Prod.mk.injEq] at hs
      obtain ⟨rfl, rfl⟩ := hs
      exact ⟨this.2.1, this.2.2⟩
  | setConfig c =>
    simp only [step, Option.some.injEq, Prod.mk.injEq] at hs
    obtain ⟨rfl, rfl⟩ := hs
    exact ⟨feeCacheOk_setConfig s G c hf, setConfig_feeCache s c⟩
  | upgrade c =>
    simp only [step, Option.some.injEq, Prod.mk.injEq] at hs
    obtain ⟨rfl, rfl⟩ := hs
    exact ⟨feeCacheOk_upgrade s G c, upgrade_feeCache s c⟩
  | query =>
    simp only [step, Option.some.injEq, Prod.mk.injEq] at hs
    obtain ⟨rfl, rfl⟩ := hs
    exact ⟨hf, rfl⟩
  | insertNext hd' =>
    simp only [step] at hs
    split at hs
    · simp only [Option.some.injEq, Prod.mk.injEq] at hs
      obtain ⟨rfl, rfl⟩ := hs
      exact ⟨hf, rfl⟩
    · cases hi : s.unstable.insertNextHeader hd' s.stableHeight with
      | none =>
        rw [hi] at hs
        simp only [Option.some.injEq, Prod.mk.injEq] at hs
        obtain ⟨rfl, rfl⟩ := hs
        exact ⟨hf, rfl⟩
      | some u =>
        rw [hi] at hs
        simp only [Option.some.injEq, Prod.mk.injEq] at hs
        obtain ⟨rfl, rfl⟩ := hs
        unfold Unstable.insertNextHeader at hi
        simp only at hi
        split at hi
        · cases hi
        · simp only [Option.some.injEq] at hi
          subst hi
          exact ⟨feeCacheOk_congr rfl hf, rfl⟩

end Btc.Lemmas.FeeSpec
