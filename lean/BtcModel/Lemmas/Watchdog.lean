import BtcModel.Model.Watchdog

/-! Helper lemmas for C17 (sorting, permutations). -/
namespace Btc.Watchdog

open List

theorem insertAsc_perm (x : Nat) (l : List Nat) : (insertAsc x l).Perm (x :: l) := by
  induction l with
  | nil => simp [insertAsc]
  | cons y ys ih =>
    unfold insertAsc
    split
    · exact Perm.refl _
    · exact (Perm.cons y ih).trans (Perm.swap x y ys)

theorem sortAsc_perm (l : List Nat) : (sortAsc l).Perm l := by
  induction l with
  | nil => simp [sortAsc]
  | cons x xs ih =>
    have : sortAsc (x :: xs) = insertAsc x (sortAsc xs) := rfl
    rw [this]
    exact (insertAsc_perm x _).trans (Perm.cons x ih)

theorem insertAsc_sorted (x : Nat) (l : List Nat) (h : l.Pairwise (· ≤ ·)) :
    (insertAsc x l).Pairwise (· ≤ ·) := by
  induction l with
  | nil => simp [insertAsc]
  | cons y ys ih =>
    unfold insertAsc
    split
    · rename_i hxy
      refine Pairwise.cons ?_ h
      intro z hz
      rcases mem_cons.mp hz with rfl | hz
      · exact hxy
      · exact Nat.le_trans hxy (rel_of_pairwise_cons h hz)
    · rename_i hxy
      refine Pairwise.cons ?_ (ih h.tail)
      intro z hz
      have hz' := (insertAsc_perm x ys).subset hz
      rcases mem_cons.mp hz' with rfl | hz'
      · omega
      · exact rel_of_pairwise_cons h hz'

theorem sortAsc_sorted (l : List Nat) : (sortAsc l).Pairwise (· ≤ ·) := by
  induction l with
  | nil => simp [sortAsc]
  | cons x xs ih =>
    have : sortAsc (x :: xs) = insertAsc x (sortAsc xs) := rfl
    rw [this]
    exact insertAsc_sorted x _ ih

/-- The sorted list is a function of the multiset only. -/
theorem sortAsc_congr {l l' : List Nat} (h : l.Perm l') : sortAsc l = sortAsc l' := by
  apply Perm.eq_of_pairwise (le := (· ≤ ·))
  · intro a b _ _ h1 h2; exact Nat.le_antisymm h1 h2
  · exact sortAsc_sorted l
  · exact sortAsc_sorted l'
  · exact (sortAsc_perm l).trans (h.trans (sortAsc_perm l').symm)

theorem median_congr {l l' : List Nat} (h : l.Perm l') : median l = median l' := by
  unfold median
  rw [sortAsc_congr h, h.length_eq]

theorem heightTarget_congr {l l' : List Nat} (cfg : Cfg) (h : l.Perm l') :
    heightTarget l cfg = heightTarget l' cfg := by
  unfold heightTarget
  rw [median_congr h, h.length_eq]
  split
  · rfl
  · split
    · rfl
    · rename_i m _
      simp only
      rw [(h.filter _).length_eq]

end Btc.Watchdog
