import BtcModel.Lemmas.AList
import BtcModel.Spec.Invariant

/-!
  Ingestion of one block into the stable UTXO set (`UtxoSet.ingestBlock` / `ingestLoop`):
  step lemmas for `removeInput` / `insertOutput`, the bookkeeping invariant of `Delta` that rules
  out its two assertions, and the simulation of the sliced loop by the reference ledger
  (`Spec.applyTx`, `Spec.applyBlock`).
-/
namespace Btc

open Spec

/-! ### More association-list facts -/

namespace AList
variable {κ ν : Type} [BEq κ] [LawfulBEq κ]
set_option linter.unusedSectionVars false

theorem find?_append (m1 m2 : List (κ × ν)) (k : κ) :
    find? (m1 ++ m2) k = (find? m1 k).or (find? m2 k) := by
  induction m1 with
  | nil => simp
  | cons p ps ih =>
    obtain ⟨k', v⟩ := p
    simp only [List.cons_append, find?_cons]
    by_cases h : k' == k
    · simp [h]
    · simp [h, ih]

theorem find?_singleton (k' : κ) (v : ν) (k : κ) :
    find? [(k', v)] k = if k' == k then some v else none := rfl

theorem contains_insert (m : List (κ × ν)) (k k2 : κ) (v : ν) :
    contains (insert m k v) k2 = (k == k2 || contains m k2) := by
  simp only [contains, find?_insert]
  by_cases h : k == k2 <;> simp [h]

theorem contains_erase (m : List (κ × ν)) (k k2 : κ) :
    contains (erase m k) k2 = (!(k == k2) && contains m k2) := by
  simp only [contains, find?_erase]
  by_cases h : k == k2 <;> simp [h]

theorem contains_cons (m : List (κ × ν)) (k k2 : κ) (v : ν) :
    contains ((k, v) :: m) k2 = (k == k2 || contains m k2) := by
  simp only [contains, find?_cons]
  by_cases h : k == k2 <;> simp [h]

theorem erase_eq_self_of_find?_none (m : List (κ × ν)) (k : κ) (h : find? m k = none) :
    erase m k = m := by
  unfold erase
  rw [List.filter_eq_self]
  intro p hp
  rw [find?_eq_none_iff] at h
  have : ¬ p.1 = k := fun e => h (e ▸ List.mem_map.mpr ⟨p, hp, rfl⟩)
  simp [this]

theorem mem_erase_sub (m : List (κ × ν)) (k : κ) (p : κ × ν) (h : p ∈ erase m k) : p ∈ m :=
  (List.mem_filter.mp h).1

/-- keys stay distinct when a fresh key is appended -/
theorem nodup_keys_append_fresh (m : List (κ × ν)) (k : κ) (v : ν) (h : (m.map (·.1)).Nodup)
    (hf : find? m k = none) : ((m ++ [(k, v)]).map (·.1)).Nodup := by
  rw [find?_eq_none_iff] at hf
  rw [List.map_append, List.nodup_append]
  refine ⟨h, by simp, ?_⟩
  intro a ha b hb
  simp at hb
  subst hb
  intro e
  exact hf (e ▸ ha)

end AList

/-! ### Sums of values per address -/

/-- total value held by address `a` in a ledger map (the right-hand side of `StableIs.balancesEq`) -/
def sumFor (l : LedgerMap) (a : Addr) : Nat :=
  ((l.filter (fun e => e.2.1.addr == some a)).map (fun e => e.2.1.value)).foldl (· + ·) 0

theorem foldl_add_init' (l : List Nat) (a : Nat) : l.foldl (· + ·) a = a + l.foldl (· + ·) 0 := by
  induction l generalizing a with
  | nil => simp
  | cons x xs ih => simp only [List.foldl_cons, Nat.zero_add]; rw [ih (a + x), ih x]; omega

/-- contribution of one output to the balance of `a` -/
def contrib (t : TxOut) (a : Addr) : Nat := if t.addr == some a then t.value else 0

theorem sumFor_nil (a : Addr) : sumFor [] a = 0 := rfl

theorem sumFor_cons (e : OutPoint × (TxOut × Nat)) (l : LedgerMap) (a : Addr) :
    sumFor (e :: l) a = contrib e.2.1 a + sumFor l a := by
  unfold sumFor contrib
  by_cases h : e.2.1.addr == some a
  · simp only [List.filter_cons, h, if_true, List.map_cons, List.foldl_cons, Nat.zero_add]
    rw [foldl_add_init']
  · simp only [List.filter_cons, h, Bool.false_eq_true, if_false, Nat.zero_add]

theorem sumFor_append (l1 l2 : LedgerMap) (a : Addr) :
    sumFor (l1 ++ l2) a = sumFor l1 a + sumFor l2 a := by
  induction l1 with
  | nil => simp [sumFor_nil]
  | cons e es ih => simp only [List.cons_append, sumFor_cons, ih]; omega

theorem sumFor_erase (l : LedgerMap) (o : OutPoint) (t : TxOut) (h : Nat) (a : Addr)
    (hnd : (l.map (·.1)).Nodup) (hf : AList.find? l o = some (t, h)) :
    sumFor l a = sumFor (AList.erase l o) a + contrib t a := by
  induction l with
  | nil => simp at hf
  | cons e es ih =>
    obtain ⟨k, v⟩ := e
    simp only [List.map_cons, List.nodup_cons] at hnd
    rw [AList.find?_cons] at hf
    by_cases hk : k == o
    · have hko : k = o := eq_of_beq hk
      subst hko
      simp only [hk, if_true, Option.some.injEq] at hf
      subst hf
      have hnone : AList.find? es k = none := (AList.find?_eq_none_iff es k).2 hnd.1
      have : AList.erase ((k, (t, h)) :: es) k = es := by
        have h1 := AList.erase_eq_self_of_find?_none es k hnone
        unfold AList.erase at h1 ⊢
        simp [h1]
      rw [this, sumFor_cons]
      simp only
      omega
    · simp only [hk, Bool.false_eq_true, if_false] at hf
      have : AList.erase ((k, v) :: es) o = (k, v) :: AList.erase es o := by
        unfold AList.erase
        simp [hk]
      rw [this, sumFor_cons, sumFor_cons, ih hnd.2 hf]
      omega

theorem Spec.StableIs.balance_eq {u : UtxoSet} {l : LedgerMap} (h : StableIs u l) (a : Addr) :
    (AList.find? u.balances a).getD 0 = sumFor l a := h.balancesEq a

/-! ### One input -/

namespace UtxoSet

/-- the `Delta` bookkeeping of `removeInput` on its own -/
def deltaRemove (d : Delta) (o : OutPoint) (t : TxOut) (h : Nat) : Option Delta :=
  match t.addr with
  | none => some d
  | some a => d.remove a o t h

/-- the `Delta` bookkeeping of `insertOutput` on its own -/
def deltaInsert (d : Delta) (o : OutPoint) (t : TxOut) (h : Nat) : Option Delta :=
  if t.opret then some d
  else match t.addr with
    | none => some d
    | some a => d.insert a o t h

/-- **`removeInput` on an outpoint of the ledger never traps** (as long as the `Delta` assertion
    holds) and removes exactly that entry. -/
theorem removeInput_ok (u : UtxoSet) (l : LedgerMap) (d d' : Delta) (o : OutPoint) (t : TxOut)
    (h : Nat) (hS : StableIs u l) (hnd : (l.map (·.1)).Nodup)
    (hf : AList.find? l o = some (t, h)) (hd : deltaRemove d o t h = some d') :
    ∃ u', removeInput u d o = .ok u' d' ∧ StableIs u' (AList.erase l o) ∧
      u'.nextHeight = u.nextHeight := by
  have hfu : AList.find? u.utxos o = some (t, h) := by rw [hS.utxosEq]; exact hf
  have hutx : ∀ k, AList.find? (AList.erase u.utxos o) k = AList.find? (AList.erase l o) k := by
    intro k; rw [AList.find?_erase, AList.find?_erase, hS.utxosEq]
  have hsum : ∀ a, sumFor l a = sumFor (AList.erase l o) a + contrib t a :=
    fun a => sumFor_erase l o t h a hnd hf
  cases ha : t.addr with
  | none =>
    simp only [deltaRemove, ha, Option.some.injEq] at hd
    subst hd
    refine ⟨{ u with utxos := AList.erase u.utxos o }, ?_, ?_, rfl⟩
    · simp only [removeInput, hfu, ha]
    · refine ⟨hS.notIngesting, AList.nodup_keys_erase _ _ hS.utxosNodup, hutx, hS.indexNodup, ?_,
        hS.balancesNodup, ?_⟩
      · intro e
        rw [hS.indexEq e]
        constructor
        · rintro ⟨t', h1, h2⟩
          refine ⟨t', ?_, h2⟩
          rw [AList.find?_erase]
          by_cases hoe : o == e.op
          · have : o = e.op := eq_of_beq hoe
            rw [← this, hf] at h1
            simp only [Option.some.injEq, Prod.mk.injEq] at h1
            rw [← h1.1, ha] at h2
            cases h2
          · simp [hoe, h1]
        · rintro ⟨t', h1, h2⟩
          refine ⟨t', ?_, h2⟩
          rw [AList.find?_erase] at h1
          by_cases hoe : o == e.op
          · simp [hoe] at h1
          · simpa [hoe] using h1
      · intro a
        have := hsum a
        simp only [contrib, ha] at this
        change (AList.find? u.balances a).getD 0 = _
        rw [hS.balancesEq a]
        change sumFor l a = sumFor (AList.erase l o) a
        simpa using this
  | some a =>
    simp only [deltaRemove, ha] at hd
    have hmem : (⟨a, h, o⟩ : IdxEntry) ∈ u.index := (hS.indexEq ⟨a, h, o⟩).2 ⟨t, hf, ha⟩
    have hcont : u.index.contains (⟨a, h, o⟩ : IdxEntry) = true := List.contains_iff_mem.2 hmem
    -- the new index
    have hidx : ∀ e : IdxEntry, e ∈ u.index.filter (fun x => !(x == (⟨a, h, o⟩ : IdxEntry))) ↔
        ∃ t', AList.find? (AList.erase l o) e.op = some (t', e.height) ∧ t'.addr = some e.addr := by
      intro e
      rw [List.mem_filter, hS.indexEq e]
      constructor
      · rintro ⟨⟨t', h1, h2⟩, hne⟩
        refine ⟨t', ?_, h2⟩
        rw [AList.find?_erase]
        by_cases hoe : o == e.op
        · exfalso
          have hoe' : o = e.op := eq_of_beq hoe
          rw [← hoe', hf] at h1
          simp only [Option.some.injEq, Prod.mk.injEq] at h1
          rw [← h1.1, ha] at h2
          simp only [Option.some.injEq] at h2
          have : e = ⟨a, h, o⟩ := by
            cases e; simp only [IdxEntry.mk.injEq]; simp_all
          simp [this] at hne
        · simp [hoe, h1]
      · rintro ⟨t', h1, h2⟩
        rw [AList.find?_erase] at h1
        by_cases hoe : o == e.op
        · simp [hoe] at h1
        · simp only [hoe, Bool.false_eq_true, if_false] at h1
          refine ⟨⟨t', h1, h2⟩, ?_⟩
          have : ¬ e = ⟨a, h, o⟩ := by
            intro he
            apply hoe
            rw [he]
            simp
          simp [this]
    -- the new balances
    have hbalTot := hS.balancesEq a
    change _ = sumFor l a at hbalTot
    have hsa := hsum a
    have hca : contrib t a = t.value := by simp [contrib, ha]
    rw [hca] at hsa
    have hother : ∀ a', a' ≠ a → sumFor l a' = sumFor (AList.erase l o) a' := by
      intro a' hne
      have := hsum a'
      have hc : contrib t a' = 0 := by
        simp only [contrib, ha]
        have : ¬ a = a' := fun e => hne e.symm
        simp [this]
      omega
    by_cases hv : t.value = 0
    · -- zero value: balances untouched
      refine ⟨{ u with utxos := AList.erase u.utxos o,
                       index := u.index.filter (fun x => !(x == (⟨a, h, o⟩ : IdxEntry))) }, ?_, ?_, rfl⟩
      · simp only [removeInput, hfu, ha, hcont, hv, hd]
        simp
      · refine ⟨hS.notIngesting, AList.nodup_keys_erase _ _ hS.utxosNodup, hutx,
          hS.indexNodup.filter _, hidx, hS.balancesNodup, ?_⟩
        intro a'
        change (AList.find? u.balances a').getD 0 = sumFor (AList.erase l o) a'
        rw [hS.balance_eq a']
        by_cases hne : a' = a
        · subst hne; omega
        · exact hother a' hne
    · -- nonzero value: the balance entry exists and is large enough
      cases hb : AList.find? u.balances a with
      | none => rw [hb] at hbalTot; simp at hbalTot; omega
      | some bal =>
        rw [hb] at hbalTot
        simp only [Option.getD_some] at hbalTot
        have hge : ¬ bal < t.value := by omega
        by_cases hz : bal - t.value = 0
        · refine ⟨{ u with utxos := AList.erase u.utxos o,
                           index := u.index.filter (fun x => !(x == (⟨a, h, o⟩ : IdxEntry))),
                           balances := AList.erase u.balances a }, ?_, ?_, rfl⟩
          · simp only [removeInput, hfu, ha, hcont, hb, hd]
            simp [hv, hge, hz]
          · refine ⟨hS.notIngesting, AList.nodup_keys_erase _ _ hS.utxosNodup, hutx,
              hS.indexNodup.filter _, hidx, AList.nodup_keys_erase _ _ hS.balancesNodup, ?_⟩
            intro a'
            change (AList.find? (AList.erase u.balances a) a').getD 0 = sumFor (AList.erase l o) a'
            rw [AList.find?_erase]
            by_cases hne : a' = a
            · subst hne; simp; omega
            · have : ¬ a = a' := fun e => hne e.symm
              simp only [beq_iff_eq, this, if_false]
              rw [hS.balance_eq a']
              exact hother a' hne
        · refine ⟨{ u with utxos := AList.erase u.utxos o,
                           index := u.index.filter (fun x => !(x == (⟨a, h, o⟩ : IdxEntry))),
                           balances := AList.insert u.balances a (bal - t.value) }, ?_, ?_, rfl⟩
          · simp only [removeInput, hfu, ha, hcont, hb, hd]
            simp [hv, hge, hz]
          · refine ⟨hS.notIngesting, AList.nodup_keys_erase _ _ hS.utxosNodup, hutx,
              hS.indexNodup.filter _, hidx, AList.nodup_keys_insert _ _ _ hS.balancesNodup, ?_⟩
            intro a'
            change (AList.find? (AList.insert u.balances a (bal - t.value)) a').getD 0 =
              sumFor (AList.erase l o) a'
            rw [AList.find?_insert]
            by_cases hne : a' = a
            · subst hne; simp; omega
            · have : ¬ a = a' := fun e => hne e.symm
              simp only [beq_iff_eq, this, if_false]
              rw [hS.balance_eq a']
              exact hother a' hne

/-! ### One output -/

/-- **`insertOutput` of a fresh outpoint never traps** (as long as the `Delta` assertion holds) and
    appends exactly that entry (nothing for `OP_RETURN`). -/
theorem insertOutput_ok (u : UtxoSet) (l : LedgerMap) (d d' : Delta) (txid vout : Nat) (t : TxOut)
    (hS : StableIs u l) (hfresh : AList.find? l ⟨txid, vout⟩ = none)
    (hd : deltaInsert d ⟨txid, vout⟩ t u.nextHeight = some d') :
    ∃ u', insertOutput u d txid vout t = .ok u' d' ∧
      StableIs u' (if t.opret then l else l ++ [(⟨txid, vout⟩, (t, u.nextHeight))]) ∧
      u'.nextHeight = u.nextHeight := by
  by_cases hopr : t.opret = true
  · simp only [deltaInsert, hopr, if_true, Option.some.injEq] at hd
    subst hd
    exact ⟨u, by simp [insertOutput, hopr], by simpa [hopr] using hS, rfl⟩
  · have hopr' : t.opret = false := by simpa using hopr
    simp only [deltaInsert, hopr', Bool.false_eq_true, if_false] at hd
    simp only [hopr', Bool.false_eq_true, if_false]
    have hfu : AList.find? u.utxos ⟨txid, vout⟩ = none := by rw [hS.utxosEq]; exact hfresh
    have hcu : AList.contains u.utxos ⟨txid, vout⟩ = false := by simp [AList.contains, hfu]
    have hutx : ∀ k, AList.find? ((⟨txid, vout⟩, (t, u.nextHeight)) :: u.utxos) k =
        AList.find? (l ++ [(⟨txid, vout⟩, (t, u.nextHeight))]) k := by
      intro k
      rw [AList.find?_cons, AList.find?_append, AList.find?_singleton, hS.utxosEq]
      by_cases hk : (⟨txid, vout⟩ : OutPoint) == k
      · have : (⟨txid, vout⟩ : OutPoint) = k := eq_of_beq hk
        rw [← this, hfresh]; simp
      · simp [hk]
    have hund : ((((⟨txid, vout⟩ : OutPoint), (t, u.nextHeight)) :: u.utxos).map (·.1)).Nodup := by
      simp only [List.map_cons, List.nodup_cons]
      exact ⟨(AList.find?_eq_none_iff _ _).1 hfu, hS.utxosNodup⟩
    have hsum : ∀ a, sumFor (l ++ [(⟨txid, vout⟩, (t, u.nextHeight))]) a = sumFor l a + contrib t a := by
      intro a
      rw [sumFor_append, sumFor_cons, sumFor_nil]
      simp
    cases ha : t.addr with
    | none =>
      simp only [ha, Option.some.injEq] at hd
      subst hd
      refine ⟨{ u with utxos := (⟨txid, vout⟩, (t, u.nextHeight)) :: u.utxos }, ?_, ?_, rfl⟩
      · simp only [insertOutput, hopr', ha, hcu]
        simp
      · refine ⟨hS.notIngesting, hund, hutx, hS.indexNodup, ?_, hS.balancesNodup, ?_⟩
        · intro e
          rw [hS.indexEq e]
          constructor
          · rintro ⟨t', h1, h2⟩
            refine ⟨t', ?_, h2⟩
            rw [AList.find?_append, h1]; rfl
          · rintro ⟨t', h1, h2⟩
            rw [AList.find?_append, AList.find?_singleton] at h1
            cases hfl : AList.find? l e.op with
            | some x => rw [hfl] at h1; simp at h1; exact ⟨t', by rw [← h1], h2⟩
            | none =>
              rw [hfl] at h1
              by_cases hk : (⟨txid, vout⟩ : OutPoint) == e.op
              · simp [hk] at h1
                rw [← h1.1, ha] at h2
                cases h2
              · simp [hk] at h1
        · intro a
          change (AList.find? u.balances a).getD 0 = sumFor _ a
          rw [hsum, hS.balance_eq]
          simp [contrib, ha]
    | some a =>
      simp only [ha] at hd
      have hdi : d.insert a ⟨txid, vout⟩ t u.nextHeight = some d' := hd
      have hnotmem : (⟨a, u.nextHeight, ⟨txid, vout⟩⟩ : IdxEntry) ∉ u.index := by
        intro hm
        obtain ⟨t', h1, _⟩ := (hS.indexEq _).1 hm
        simp only at h1
        rw [hfresh] at h1
        cases h1
      have hcont : u.index.contains (⟨a, u.nextHeight, ⟨txid, vout⟩⟩ : IdxEntry) = false := by
        cases hc : u.index.contains (⟨a, u.nextHeight, ⟨txid, vout⟩⟩ : IdxEntry) with
        | false => rfl
        | true => exact absurd (List.contains_iff_mem.1 hc) hnotmem
      refine ⟨{ u with utxos := (⟨txid, vout⟩, (t, u.nextHeight)) :: u.utxos,
                       index := ⟨a, u.nextHeight, ⟨txid, vout⟩⟩ :: u.index,
                       balances := AList.insert u.balances a
                         ((AList.find? u.balances a).getD 0 + t.value) }, ?_, ?_, rfl⟩
      · simp only [insertOutput, hopr', ha, hdi, hcont, hcu]
        simp
      · refine ⟨hS.notIngesting, hund, hutx, List.nodup_cons.2 ⟨hnotmem, hS.indexNodup⟩, ?_,
          AList.nodup_keys_insert _ _ _ hS.balancesNodup, ?_⟩
        · intro e
          rw [List.mem_cons, hS.indexEq e]
          constructor
          · rintro (he | ⟨t', h1, h2⟩)
            · subst he
              refine ⟨t, ?_, ha⟩
              rw [AList.find?_append, hfresh, AList.find?_singleton]
              simp
            · refine ⟨t', ?_, h2⟩
              rw [AList.find?_append, h1]; rfl
          · rintro ⟨t', h1, h2⟩
            rw [AList.find?_append, AList.find?_singleton] at h1
            cases hfl : AList.find? l e.op with
            | some x => rw [hfl] at h1; simp at h1; exact Or.inr ⟨t', by rw [← h1], h2⟩
            | none =>
              rw [hfl] at h1
              by_cases hk : (⟨txid, vout⟩ : OutPoint) == e.op
              · simp [hk] at h1
                have hk' : (⟨txid, vout⟩ : OutPoint) = e.op := eq_of_beq hk
                rw [← h1.1, ha] at h2
                simp only [Option.some.injEq] at h2
                left
                cases e
                simp only [IdxEntry.mk.injEq]
                simp_all
              · simp [hk] at h1
        · intro a'
          change (AList.find? (AList.insert u.balances a _) a').getD 0 = sumFor _ a'
          rw [hsum, AList.find?_insert]
          by_cases hne : a' = a
          · subst hne
            simp [contrib, ha, hS.balance_eq]
          · have : ¬ a = a' := fun e => hne e.symm
            simp [contrib, ha, this, hS.balance_eq]

/-! ### The `Delta` bookkeeping never fails -/

/-- What is needed of the `Delta` to see that neither of its assertions fires: every outpoint it
    knows is either one it has recorded as added, or is gone from the ledger (it was spent by this
    block); `P` over-approximates all outpoints seen so far (used for freshness of new ones). -/
structure DeltaInv (l : LedgerMap) (d : Delta) (P : OutPoint → Prop) : Prop where
  addedOrGone : ∀ k, AList.contains d.utxos k = true →
    AList.contains d.added k = true ∨ AList.find? l k = none
  lP : ∀ k, (AList.find? l k).isSome = true → P k
  dP : ∀ k, AList.contains d.utxos k = true → P k

theorem DeltaInv.mono {l : LedgerMap} {d : Delta} {P Q : OutPoint → Prop}
    (h : DeltaInv l d P) (hPQ : ∀ k, P k → Q k) : DeltaInv l d Q :=
  ⟨h.addedOrGone, fun k hk => hPQ k (h.lP k hk), fun k hk => hPQ k (h.dP k hk)⟩

theorem deltaRemove_ok (l : LedgerMap) (d : Delta) (P : OutPoint → Prop) (o : OutPoint) (t : TxOut)
    (h : Nat) (hD : DeltaInv l d P) (hf : AList.find? l o = some (t, h)) :
    ∃ d', deltaRemove d o t h = some d' ∧ DeltaInv (AList.erase l o) d' P := by
  have hlP : ∀ k, (AList.find? (AList.erase l o) k).isSome = true → P k := by
    intro k hk
    rw [AList.find?_erase] at hk
    by_cases hok : o == k
    · simp [hok] at hk
    · simp only [hok, Bool.false_eq_true, if_false] at hk; exact hD.lP k hk
  have hPo : P o := hD.lP o (by simp [hf])
  cases ha : t.addr with
  | none =>
    refine ⟨d, by simp [deltaRemove, ha], ?_, hlP, hD.dP⟩
    intro k hk
    rcases hD.addedOrGone k hk with h1 | h1
    · exact Or.inl h1
    · right; rw [AList.find?_erase, h1]; simp
  | some a =>
    simp only [deltaRemove, ha, Delta.remove]
    by_cases hadd : AList.contains d.added o = true
    · simp only [hadd, if_true]
      refine ⟨_, rfl, ?_, hlP, ?_⟩
      · intro k hk
        simp only [AList.contains_erase, Bool.and_eq_true, Bool.not_eq_true', beq_eq_false_iff_ne] at hk ⊢
        rcases hD.addedOrGone k hk.2 with h1 | h1
        · exact Or.inl ⟨hk.1, h1⟩
        · right; rw [AList.find?_erase, h1]; simp
      · intro k hk
        simp only [AList.contains_erase, Bool.and_eq_true] at hk
        exact hD.dP k hk.2
    · have hnotin : AList.contains d.utxos o = false := by
        cases hc : AList.contains d.utxos o with
        | false => rfl
        | true =>
          rcases hD.addedOrGone o hc with h1 | h1
          · exact absurd h1 hadd
          · rw [hf] at h1; cases h1
      simp only [hadd, hnotin, Bool.false_eq_true, if_false]
      refine ⟨_, rfl, ?_, hlP, ?_⟩
      · intro k hk
        simp only [AList.contains_cons, Bool.or_eq_true, beq_iff_eq] at hk
        rcases hk with hk | hk
        · subst hk; right; exact AList.find?_erase_self l o
        · rcases hD.addedOrGone k hk with h1 | h1
          · exact Or.inl h1
          · right; rw [AList.find?_erase, h1]; simp
      · intro k hk
        simp only [AList.contains_cons, Bool.or_eq_true, beq_iff_eq] at hk
        rcases hk with hk | hk
        · subst hk; exact hPo
        · exact hD.dP k hk

theorem deltaInsert_ok (l : LedgerMap) (d : Delta) (P : OutPoint → Prop) (o : OutPoint) (t : TxOut)
    (h : Nat) (hD : DeltaInv l d P) (hfresh : ¬ P o) :
    ∃ d', deltaInsert d o t h = some d' ∧
      DeltaInv (if t.opret then l else l ++ [(o, (t, h))]) d' (fun k => P k ∨ k = o) := by
  by_cases hopr : t.opret = true
  · refine ⟨d, by simp [deltaInsert, hopr], ?_⟩
    simp only [hopr, if_true]
    exact hD.mono (fun k hk => Or.inl hk)
  · have hopr' : t.opret = false := by simpa using hopr
    simp only [deltaInsert, hopr', Bool.false_eq_true, if_false]
    have hnotin : AList.contains d.utxos o = false := by
      cases hc : AList.contains d.utxos o with
      | false => rfl
      | true => exact absurd (hD.dP o hc) hfresh
    have hlP : ∀ k, (AList.find? (l ++ [(o, (t, h))]) k).isSome = true → P k ∨ k = o := by
      intro k hk
      rw [AList.find?_append, AList.find?_singleton] at hk
      cases hfl : AList.find? l k with
      | some x => exact Or.inl (hD.lP k (by simp [hfl]))
      | none =>
        rw [hfl] at hk
        by_cases hok : o == k
        · exact Or.inr (eq_of_beq hok).symm
        · simp [hok] at hk
    have hgone : ∀ k, AList.contains d.utxos k = true → AList.find? l k = none →
        AList.find? (l ++ [(o, (t, h))]) k = none := by
      intro k hk h1
      rw [AList.find?_append, AList.find?_singleton, h1]
      have : ¬ o = k := by
        intro e; subst e; rw [hnotin] at hk; cases hk
      simp [this]
    cases ha : t.addr with
    | none =>
      refine ⟨d, rfl, ?_, hlP, fun k hk => Or.inl (hD.dP k hk)⟩
      intro k hk
      rcases hD.addedOrGone k hk with h1 | h1
      · exact Or.inl h1
      · exact Or.inr (hgone k hk h1)
    | some a =>
      simp only [Delta.insert, hnotin, Bool.false_eq_true, if_false]
      refine ⟨_, rfl, ?_, hlP, ?_⟩
      · intro k hk
        simp only [AList.contains_cons, Bool.or_eq_true, beq_iff_eq] at hk
        simp only [AList.contains_insert, Bool.or_eq_true, beq_iff_eq]
        rcases hk with hk | hk
        · exact Or.inl (Or.inl hk)
        · rcases hD.addedOrGone k hk with h1 | h1
          · exact Or.inl (Or.inr h1)
          · exact Or.inr (hgone k hk h1)
      · intro k hk
        simp only [AList.contains_cons, Bool.or_eq_true, beq_iff_eq] at hk
        rcases hk with hk | hk
        · exact Or.inr hk.symm
        · exact Or.inl (hD.dP k hk)

/-! ### Unfolding the sliced loop -/

def _root_.Btc.UtxoSet.RoundResult.isPaused : RoundResult → Prop
  | .paused _ => True
  | _ => False

theorem ingestLoop_done (fuel : Nat) (u : UtxoSet) (ing : Ingesting) (budget : Nat)
    (htx : ing.block.txs[ing.txIdx]? = none) :
    ingestLoop (fuel + 1) u ing budget =
      .done { u with ingesting := none, nextHeight := u.nextHeight + 1 } budget := by
  simp only [ingestLoop, htx]

theorem ingestLoop_input (fuel : Nat) (u : UtxoSet) (ing : Ingesting) (budget : Nat) (tx : Tx)
    (o : OutPoint) (htx : ing.block.txs[ing.txIdx]? = some tx) (hcb : tx.coinbase = false)
    (ho : tx.ins[ing.inIdx]? = some o) :
    ingestLoop (fuel + 1) u ing budget =
      if budget = 0 then .paused { u with ingesting := some { ing with outIdx := 0 } }
      else match removeInput u ing.delta o with
        | .trap m => .trap m
        | .ok u' d' =>
          ingestLoop fuel u' { ing with inIdx := ing.inIdx + 1, delta := d' } (budget - 1) := by
  have hlt : ing.inIdx < tx.ins.length := (List.getElem?_eq_some_iff.1 ho).1
  simp only [ingestLoop, htx, hcb, ho, hlt]
  simp only [Bool.not_false, decide_true, Bool.and_self, if_true]
  split
  · rfl
  · cases removeInput u ing.delta o <;> rfl

theorem ingestLoop_output (fuel : Nat) (u : UtxoSet) (ing : Ingesting) (budget : Nat) (tx : Tx)
    (t : TxOut) (htx : ing.block.txs[ing.txIdx]? = some tx)
    (hin : tx.coinbase = true ∨ tx.ins.length ≤ ing.inIdx)
    (ho : tx.outs[ing.outIdx]? = some t) :
    ingestLoop (fuel + 1) u ing budget =
      if budget = 0 then .paused { u with ingesting := some { ing with inIdx := tx.ins.length } }
      else match insertOutput u ing.delta tx.txid ing.outIdx t with
        | .trap m => .trap m
        | .ok u' d' =>
          ingestLoop fuel u' { ing with outIdx := ing.outIdx + 1, delta := d' } (budget - 1) := by
  have hlt : ing.outIdx < tx.outs.length := (List.getElem?_eq_some_iff.1 ho).1
  have hc : (!tx.coinbase && decide (ing.inIdx < tx.ins.length)) = false := by
    rcases hin with h | h
    · simp [h]
    · simp; intro _; omega
  simp only [ingestLoop, htx, hc, ho, hlt]
  simp only [Bool.false_eq_true, if_false, if_true]
  split
  · rfl
  · cases insertOutput u ing.delta tx.txid ing.outIdx t <;> rfl

theorem ingestLoop_next (fuel : Nat) (u : UtxoSet) (ing : Ingesting) (budget : Nat) (tx : Tx)
    (htx : ing.block.txs[ing.txIdx]? = some tx)
    (hin : tx.coinbase = true ∨ tx.ins.length ≤ ing.inIdx)
    (hout : tx.outs.length ≤ ing.outIdx) :
    ingestLoop (fuel + 1) u ing budget =
      ingestLoop fuel u { ing with txIdx := ing.txIdx + 1, inIdx := 0, outIdx := 0 } budget := by
  have hc : (!tx.coinbase && decide (ing.inIdx < tx.ins.length)) = false := by
    rcases hin with h | h
    · simp [h]
    · simp; intro _; omega
  have hlt : ¬ ing.outIdx < tx.outs.length := by omega
  simp only [ingestLoop, htx, hc, hlt]
  simp

/-! ### Stages of the loop: the inputs of a transaction -/

theorem drop_cons_getElem? {α : Type} (l : List α) (i : Nat) (x : α) (xs : List α)
    (h : l.drop i = x :: xs) : l[i]? = some x ∧ l.drop (i + 1) = xs := by
  constructor
  · have := congrArg (fun m => m[0]?) h
    simpa using this
  · have := congrArg List.tail h
    simpa using this

theorem loop_inputs (tx : Tx) (P : OutPoint → Prop) (hcb : tx.coinbase = false) :
    ∀ (os : List OutPoint) (fuel : Nat) (u : UtxoSet) (ing : Ingesting) (budget : Nat) (l : LedgerMap),
    ing.block.txs[ing.txIdx]? = some tx → tx.ins.drop ing.inIdx = os →
    StableIs u l → (l.map (·.1)).Nodup → DeltaInv l ing.delta P →
    (∀ o ∈ os, (AList.find? l o).isSome = true) → os.Nodup →
    (budget < os.length ∧ (ingestLoop (fuel + os.length) u ing budget).isPaused) ∨
    (os.length ≤ budget ∧ ∃ u' d',
      ingestLoop (fuel + os.length) u ing budget =
        ingestLoop fuel u' ⟨ing.block, ing.txIdx, ing.inIdx + os.length, ing.outIdx, d'⟩
          (budget - os.length) ∧
      StableIs u' (os.foldl AList.erase l) ∧ ((os.foldl AList.erase l).map (·.1)).Nodup ∧
      DeltaInv (os.foldl AList.erase l) d' P ∧ u'.nextHeight = u.nextHeight) := by
  intro os
  induction os with
  | nil =>
    intro fuel u ing budget l _ _ hS hnd hD _ _
    exact Or.inr ⟨Nat.zero_le _, u, ing.delta, rfl, hS, hnd, hD, rfl⟩
  | cons o os ih =>
    intro fuel u ing budget l htx hdrop hS hnd hD hall hnodup
    obtain ⟨ho, hdrop'⟩ := drop_cons_getElem? _ _ _ _ hdrop
    have hstep := ingestLoop_input (fuel + os.length) u ing budget tx o htx hcb ho
    have hlen : fuel + (o :: os).length = (fuel + os.length) + 1 := by simp; omega
    rw [hlen, hstep]
    by_cases hb : budget = 0
    · left
      simp [hb, RoundResult.isPaused]
    · simp only [hb, if_false]
      have hsome := hall o List.mem_cons_self
      cases hf : AList.find? l o with
      | none => rw [hf] at hsome; cases hsome
      | some v =>
        obtain ⟨t, h⟩ := v
        obtain ⟨d1, hd1, hD1⟩ := deltaRemove_ok l ing.delta P o t h hD hf
        obtain ⟨u1, hu1, hS1, hh1⟩ := removeInput_ok u l ing.delta d1 o t h hS hnd hf hd1
        rw [hu1]
        simp only
        rw [List.nodup_cons] at hnodup
        have hall1 : ∀ o' ∈ os, (AList.find? (AList.erase l o) o').isSome = true := by
          intro o' ho'
          have hne : o ≠ o' := fun e => hnodup.1 (e ▸ ho')
          rw [AList.find?_erase_ne _ _ _ hne]
          exact hall o' (List.mem_cons_of_mem _ ho')
        rcases ih fuel u1 { ing with inIdx := ing.inIdx + 1, delta := d1 } (budget - 1)
          (AList.erase l o) htx hdrop' hS1 (AList.nodup_keys_erase _ _ hnd) hD1 hall1 hnodup.2
          with ⟨h1, h2⟩ | ⟨h1, u', d', h2, h3, h4, h5, h6⟩
        · left
          exact ⟨by simp; omega, h2⟩
        · right
          refine ⟨by simp; omega, u', d', ?_, h3, h4, h5, by rw [h6, hh1]⟩
          rw [h2]
          simp only [List.length_cons]
          have e1 : ing.inIdx + 1 + os.length = ing.inIdx + (os.length + 1) := by omega
          have e2 : budget - 1 - os.length = budget - (os.length + 1) := by omega
          rw [e1, e2]

/-! ### Stages of the loop: the outputs of a transaction -/

/-- ledger after creating the outputs `ts` of transaction `txid`, numbered from `i` -/
def createFrom (txid h : Nat) : LedgerMap → Nat → List TxOut → LedgerMap
  | l, _, [] => l
  | l, i, t :: ts =>
    createFrom txid h (if t.opret then l else l ++ [(⟨txid, i⟩, (t, h))]) (i + 1) ts

/-- `P`, or one of the first `i` outputs of `txid` -/
def Pout (P : OutPoint → Prop) (txid i : Nat) : OutPoint → Prop :=
  fun k => P k ∨ (k.txid = txid ∧ k.vout < i)

theorem loop_outputs (tx : Tx) (P : OutPoint → Prop) (hP : ∀ k, P k → k.txid ≠ tx.txid) :
    ∀ (ts : List TxOut) (fuel : Nat) (u : UtxoSet) (ing : Ingesting) (budget : Nat) (l : LedgerMap),
    ing.block.txs[ing.txIdx]? = some tx → (tx.coinbase = true ∨ tx.ins.length ≤ ing.inIdx) →
    tx.outs.drop ing.outIdx = ts →
    StableIs u l → (l.map (·.1)).Nodup → DeltaInv l ing.delta (Pout P tx.txid ing.outIdx) →
    (budget < ts.length ∧ (ingestLoop (fuel + ts.length) u ing budget).isPaused) ∨
    (ts.length ≤ budget ∧ ∃ u' d',
      ingestLoop (fuel + ts.length) u ing budget =
        ingestLoop fuel u' ⟨ing.block, ing.txIdx, ing.inIdx, ing.outIdx + ts.length, d'⟩
          (budget - ts.length) ∧
      StableIs u' (createFrom tx.txid u.nextHeight l ing.outIdx ts) ∧
      ((createFrom tx.txid u.nextHeight l ing.outIdx ts).map (·.1)).Nodup ∧
      DeltaInv (createFrom tx.txid u.nextHeight l ing.outIdx ts) d'
        (Pout P tx.txid (ing.outIdx + ts.length)) ∧
      u'.nextHeight = u.nextHeight) := by
  intro ts
  induction ts with
  | nil =>
    intro fuel u ing budget l _ _ _ hS hnd hD
    exact Or.inr ⟨Nat.zero_le _, u, ing.delta, rfl, hS, hnd, hD, rfl⟩
  | cons t ts ih =>
    intro fuel u ing budget l htx hin hdrop hS hnd hD
    obtain ⟨ho, hdrop'⟩ := drop_cons_getElem? _ _ _ _ hdrop
    have hstep := ingestLoop_output (fuel + ts.length) u ing budget tx t htx hin ho
    have hlen : fuel + (t :: ts).length = (fuel + ts.length) + 1 := by simp; omega
    rw [hlen, hstep]
    by_cases hb : budget = 0
    · left
      simp [hb, RoundResult.isPaused]
    · simp only [hb, if_false]
      have hnotP : ¬ Pout P tx.txid ing.outIdx ⟨tx.txid, ing.outIdx⟩ := by
        rintro (h | h)
        · exact hP _ h rfl
        · simp at h
      have hfresh : AList.find? l ⟨tx.txid, ing.outIdx⟩ = none := by
        cases hf : AList.find? l ⟨tx.txid, ing.outIdx⟩ with
        | none => rfl
        | some v => exact absurd (hD.lP _ (by simp [hf])) hnotP
      obtain ⟨d1, hd1, hD1⟩ := deltaInsert_ok l ing.delta _ ⟨tx.txid, ing.outIdx⟩ t u.nextHeight hD hnotP
      obtain ⟨u1, hu1, hS1, hh1⟩ := insertOutput_ok u l ing.delta d1 tx.txid ing.outIdx t hS hfresh hd1
      rw [hu1]
      simp only
      have hD1' : DeltaInv (if t.opret then l else l ++ [(⟨tx.txid, ing.outIdx⟩, (t, u.nextHeight))]) d1
          (Pout P tx.txid (ing.outIdx + 1)) := by
        apply hD1.mono
        rintro k ((h | h) | h)
        · exact Or.inl h
        · exact Or.inr ⟨h.1, by omega⟩
        · subst h; exact Or.inr ⟨rfl, by simp⟩
      have hnd1 : ((if t.opret then l else l ++ [(⟨tx.txid, ing.outIdx⟩, (t, u.nextHeight))]).map (·.1)).Nodup := by
        split
        · exact hnd
        · exact AList.nodup_keys_append_fresh _ _ _ hnd hfresh
      rcases ih fuel u1 { ing with outIdx := ing.outIdx + 1, delta := d1 } (budget - 1) _
          htx hin hdrop' hS1 hnd1 hD1'
        with ⟨h1, h2⟩ | ⟨h1, u', d', h2, h3, h4, h5, h6⟩
      · left
        exact ⟨by simp; omega, h2⟩
      · right
        simp only [hh1] at h3 h4 h5
        refine ⟨by simp; omega, u', d', ?_, ?_, ?_, ?_, by rw [h6, hh1]⟩
        · rw [h2]
          simp only [List.length_cons]
          have e1 : ing.outIdx + 1 + ts.length = ing.outIdx + (ts.length + 1) := by omega
          have e2 : budget - 1 - ts.length = budget - (ts.length + 1) := by omega
          rw [e1, e2]
        · exact h3
        · exact h4
        · have e1 : ing.outIdx + 1 + ts.length = ing.outIdx + (t :: ts).length := by simp; omega
          rw [← e1]; exact h5

/-! ### Stages of the loop: one transaction -/

/-- number of budgeted steps of a transaction -/
def txSteps (tx : Tx) : Nat := (if tx.coinbase then 0 else tx.ins.length) + tx.outs.length

/-- the ledger after one transaction, as the loop computes it -/
def stepTx (l : LedgerMap) (h : Nat) (tx : Tx) : LedgerMap :=
  createFrom tx.txid h (tx.ins.foldl AList.erase l) 0 tx.outs

theorem loop_tx (tx : Tx) (P : OutPoint → Prop) (hP : ∀ k, P k → k.txid ≠ tx.txid)
    (hcbins : tx.coinbase = true → tx.ins = [])
    (fuel : Nat) (u : UtxoSet) (b : Block) (j : Nat) (d : Delta) (budget : Nat) (l : LedgerMap)
    (htx : b.txs[j]? = some tx) (hS : StableIs u l) (hnd : (l.map (·.1)).Nodup)
    (hD : DeltaInv l d P) (hall : ∀ o ∈ tx.ins, (AList.find? l o).isSome = true)
    (hnodup : tx.ins.Nodup) :
    (budget < txSteps tx ∧ (ingestLoop (fuel + (txSteps tx + 1)) u ⟨b, j, 0, 0, d⟩ budget).isPaused) ∨
    (txSteps tx ≤ budget ∧ ∃ u' d',
      ingestLoop (fuel + (txSteps tx + 1)) u ⟨b, j, 0, 0, d⟩ budget =
        ingestLoop fuel u' ⟨b, j + 1, 0, 0, d'⟩ (budget - txSteps tx) ∧
      StableIs u' (stepTx l u.nextHeight tx) ∧ ((stepTx l u.nextHeight tx).map (·.1)).Nodup ∧
      DeltaInv (stepTx l u.nextHeight tx) d' (Pout P tx.txid tx.outs.length) ∧
      u'.nextHeight = u.nextHeight) := by
  -- the output stage and the transaction boundary, from any input index that is past the inputs
  have houts : ∀ (u1 : UtxoSet) (i : Nat) (d1 : Delta) (l1 : LedgerMap) (budget1 : Nat),
      (tx.coinbase = true ∨ tx.ins.length ≤ i) → StableIs u1 l1 → (l1.map (·.1)).Nodup →
      DeltaInv l1 d1 P →
      (budget1 < tx.outs.length ∧
        (ingestLoop (fuel + 1 + tx.outs.length) u1 ⟨b, j, i, 0, d1⟩ budget1).isPaused) ∨
      (tx.outs.length ≤ budget1 ∧ ∃ u' d',
        ingestLoop (fuel + 1 + tx.outs.length) u1 ⟨b, j, i, 0, d1⟩ budget1 =
          ingestLoop fuel u' ⟨b, j + 1, 0, 0, d'⟩ (budget1 - tx.outs.length) ∧
        StableIs u' (createFrom tx.txid u1.nextHeight l1 0 tx.outs) ∧
        ((createFrom tx.txid u1.nextHeight l1 0 tx.outs).map (·.1)).Nodup ∧
        DeltaInv (createFrom tx.txid u1.nextHeight l1 0 tx.outs) d' (Pout P tx.txid tx.outs.length) ∧
        u'.nextHeight = u1.nextHeight) := by
    intro u1 i d1 l1 budget1 hin hS1 hnd1 hD1
    have hD1' : DeltaInv l1 d1 (Pout P tx.txid 0) := hD1.mono (fun k hk => Or.inl hk)
    rcases loop_outputs tx P hP tx.outs (fuel + 1) u1 ⟨b, j, i, 0, d1⟩ budget1 l1 htx hin
        (by simp) hS1 hnd1 hD1'
      with ⟨h1, h2⟩ | ⟨h1, u', d', h2, h3, h4, h5, h6⟩
    · exact Or.inl ⟨h1, h2⟩
    · right
      refine ⟨h1, u', d', ?_, h3, h4, ?_, h6⟩
      · rw [h2]
        exact ingestLoop_next fuel u' _ _ tx htx hin (by simp)
      · simpa using h5
  unfold txSteps stepTx
  cases hcb : tx.coinbase with
  | true =>
    have hins : tx.ins = [] := hcbins hcb
    simp only [if_true, Nat.zero_add, hins, List.foldl_nil]
    have e : fuel + (tx.outs.length + 1) = fuel + 1 + tx.outs.length := by omega
    rw [e]
    exact houts u 0 d l budget (Or.inl hcb) hS hnd hD
  | false =>
    simp only [Bool.false_eq_true, if_false]
    have e : fuel + (tx.ins.length + tx.outs.length + 1) = (fuel + 1 + tx.outs.length) + tx.ins.length := by
      omega
    rw [e]
    rcases loop_inputs tx P hcb tx.ins (fuel + 1 + tx.outs.length) u ⟨b, j, 0, 0, d⟩ budget l htx
        (by simp) hS hnd hD hall hnodup
      with ⟨h1, h2⟩ | ⟨h1, u1, d1, h2, h3, h4, h5, h6⟩
    · exact Or.inl ⟨by omega, h2⟩
    · rw [h2]
      rcases houts u1 (0 + tx.ins.length) d1 _ (budget - tx.ins.length) (Or.inr (by omega)) h3 h4 h5
        with ⟨k1, k2⟩ | ⟨k1, u', d', k2, k3, k4, k5, k6⟩
      · exact Or.inl ⟨by omega, k2⟩
      · right
        rw [h6] at k3 k4 k5
        refine ⟨by omega, u', d', ?_, k3, k4, k5, by rw [k6, h6]⟩
        rw [k2]
        have e2 : budget - tx.ins.length - tx.outs.length = budget - (tx.ins.length + tx.outs.length) := by
          omega
        rw [e2]

/-! ### The loop's ledger is the reference ledger -/

theorem createFrom_eq (txid h : Nat) : ∀ (ts : List TxOut) (l : LedgerMap) (i : Nat),
    createFrom txid h l i ts = l ++ ((List.range' i ts.length).zip ts).filterMap (fun p =>
      if p.2.opret then none else some ((⟨txid, p.1⟩ : OutPoint), (p.2, h)))
  | [], l, i => by simp [createFrom]
  | t :: ts, l, i => by
    simp only [createFrom, List.length_cons, List.range'_succ, List.zip_cons_cons,
      List.filterMap_cons]
    rw [createFrom_eq txid h ts]
    by_cases ho : t.opret = true
    · simp [ho]
    · simp [ho]

theorem filter_not_contains_eq_foldl_erase : ∀ (os : List OutPoint) (l : LedgerMap),
    l.filter (fun e => !(os.contains e.1)) = os.foldl AList.erase l
  | [], l => by simp
  | o :: os, l => by
    simp only [List.foldl_cons]
    rw [← filter_not_contains_eq_foldl_erase os]
    unfold AList.erase
    rw [List.filter_filter]
    congr 1
    funext e
    simp only [List.contains_cons, Bool.not_or]
    rw [Bool.and_comm]

theorem mem_foldl_erase (os : List OutPoint) (l : LedgerMap) (e : OutPoint × (TxOut × Nat))
    (h : e ∈ os.foldl AList.erase l) : e ∈ l := by
  rw [← filter_not_contains_eq_foldl_erase] at h
  exact (List.mem_filter.1 h).1

/-- With a fresh transaction id, the reference `applyTx` is what the loop computes. -/
theorem applyTx_eq_stepTx (l : LedgerMap) (h : Nat) (tx : Tx)
    (hfresh : ∀ e ∈ l, e.1.txid ≠ tx.txid) : applyTx l h tx = stepTx l h tx := by
  unfold applyTx stepTx
  simp only
  rw [filter_not_contains_eq_foldl_erase, createFrom_eq, List.range_eq_range']
  congr 1
  rw [List.filter_eq_self]
  intro e he
  have hne := hfresh e (mem_foldl_erase _ _ _ he)
  simp only [Bool.not_eq_true', List.any_eq_false, List.mem_filterMap]
  rintro c ⟨p, _, hp⟩
  by_cases ho : p.2.opret = true
  · simp [ho] at hp
  · simp only [ho, Bool.false_eq_true, if_false, Option.some.injEq] at hp
    subst hp
    simp only [beq_iff_eq]
    intro heq
    apply hne
    rw [← heq]

/-- every key of `applyTx l h tx` is a key of `l` or an output of `tx` -/
theorem applyTx_keys (l : LedgerMap) (h : Nat) (tx : Tx) (e : OutPoint × (TxOut × Nat))
    (he : e ∈ applyTx l h tx) : e ∈ l ∨ e.1.txid = tx.txid := by
  unfold applyTx at he
  simp only [List.mem_append, List.mem_filter, List.mem_filterMap] at he
  rcases he with he | ⟨p, _, hp⟩
  · exact Or.inl he.1.1
  · right
    by_cases ho : p.2.opret = true
    · simp [ho] at hp
    · simp only [ho, Bool.false_eq_true, if_false, Option.some.injEq] at hp
      subst hp; rfl

/-! ### All transactions of a block -/

def blockWork (b : Block) : Nat := (b.txs.map txSteps).sum

theorem loop_txs (b : Block) :
    ∀ (rest : List Tx) (fuel : Nat) (u : UtxoSet) (j : Nat) (d : Delta) (budget : Nat) (l : LedgerMap),
    b.txs.drop j = rest → StableIs u l → (l.map (·.1)).Nodup →
    DeltaInv l d (fun k => ∀ tx ∈ rest, k.txid ≠ tx.txid) →
    TxValidFrom.TxsValid l u.nextHeight rest → (rest.map (·.txid)).Nodup →
    (∀ tx ∈ rest, tx.coinbase = true → tx.ins = []) →
    (budget < (rest.map txSteps).sum ∧
      (ingestLoop (fuel + ((rest.map txSteps).sum + rest.length)) u ⟨b, j, 0, 0, d⟩ budget).isPaused) ∨
    ((rest.map txSteps).sum ≤ budget ∧ ∃ u' d',
      ingestLoop (fuel + ((rest.map txSteps).sum + rest.length)) u ⟨b, j, 0, 0, d⟩ budget =
        ingestLoop fuel u' ⟨b, j + rest.length, 0, 0, d'⟩ (budget - (rest.map txSteps).sum) ∧
      StableIs u' (rest.foldl (fun acc tx => applyTx acc u.nextHeight tx) l) ∧
      u'.nextHeight = u.nextHeight) := by
  intro rest
  induction rest with
  | nil =>
    intro fuel u j d budget l _ hS _ _ _ _ _
    exact Or.inr ⟨Nat.zero_le _, u, d, rfl, hS, rfl⟩
  | cons tx rest ih =>
    intro fuel u j d budget l hdrop hS hnd hD hv hids hcb
    obtain ⟨htx, hdrop'⟩ := drop_cons_getElem? _ _ _ _ hdrop
    obtain ⟨hv1, hv2, hv3⟩ := hv
    simp only [List.map_cons, List.nodup_cons] at hids
    simp only [List.map_cons, List.sum_cons, List.length_cons, List.foldl_cons]
    have hP : ∀ k : OutPoint, (∀ tx' ∈ tx :: rest, k.txid ≠ tx'.txid) → k.txid ≠ tx.txid :=
      fun k hk => hk tx List.mem_cons_self
    have hfresh : ∀ e ∈ l, e.1.txid ≠ tx.txid := by
      intro e he
      have : AList.find? l e.1 = some e.2 := AList.find?_of_mem l hnd e.1 e.2 he
      exact hP _ (hD.lP e.1 (by simp [this]))
    have e1 : fuel + (txSteps tx + (rest.map txSteps).sum + (rest.length + 1)) =
        (fuel + ((rest.map txSteps).sum + rest.length)) + (txSteps tx + 1) := by omega
    rw [e1]
    rcases loop_tx tx _ hP (hcb tx List.mem_cons_self) (fuel + ((rest.map txSteps).sum + rest.length))
        u b j d budget l htx hS hnd hD hv1 hv2
      with ⟨h1, h2⟩ | ⟨h1, u1, d1, h2, h3, h4, h5, h6⟩
    · exact Or.inl ⟨by omega, h2⟩
    · rw [h2]
      rw [← applyTx_eq_stepTx l _ tx hfresh] at h3 h4 h5
      have hD1 : DeltaInv (applyTx l u.nextHeight tx) d1 (fun k => ∀ tx' ∈ rest, k.txid ≠ tx'.txid) := by
        apply h5.mono
        rintro k (hk | hk) tx' htx'
        · exact hk tx' (List.mem_cons_of_mem _ htx')
        · rw [hk.1]
          intro heq
          exact hids.1 (heq ▸ List.mem_map.2 ⟨tx', htx', rfl⟩)
      rcases ih fuel u1 (j + 1) d1 (budget - txSteps tx) _ hdrop' h3 h4 hD1 (by rw [h6]; exact hv3)
          hids.2 (fun tx' h' => hcb tx' (List.mem_cons_of_mem _ h'))
        with ⟨k1, k2⟩ | ⟨k1, u', d', k2, k3, k4⟩
      · exact Or.inl ⟨by omega, k2⟩
      · right
        rw [h6] at k3
        refine ⟨by omega, u', d', ?_, k3, by rw [k4, h6]⟩
        rw [k2]
        have e2 : j + 1 + rest.length = j + (rest.length + 1) := by omega
        have e3 : budget - txSteps tx - (rest.map txSteps).sum =
            budget - (txSteps tx + (rest.map txSteps).sum) := by omega
        rw [e2, e3]

theorem blockSteps_eq (b : Block) :
    blockSteps b = 1 + (b.txs.map (fun tx => tx.ins.length + tx.outs.length + 1)).sum := by
  unfold blockSteps
  suffices h : ∀ (txs : List Tx) (n : Nat),
      txs.foldl (fun n tx => n + tx.ins.length + tx.outs.length + 1) n =
        n + (txs.map (fun tx => tx.ins.length + tx.outs.length + 1)).sum from h _ _
  intro txs
  induction txs with
  | nil => simp
  | cons tx txs ih => intro n; simp only [List.foldl_cons, List.map_cons, List.sum_cons]; rw [ih]; omega

theorem blockWork_le (b : Block) : blockWork b + b.txs.length + 1 ≤ blockSteps b := by
  rw [blockSteps_eq]
  unfold blockWork
  induction b.txs with
  | nil => simp
  | cons tx txs ih =>
    simp only [List.map_cons, List.sum_cons, List.length_cons]
    have : txSteps tx ≤ tx.ins.length + tx.outs.length := by
      unfold txSteps; split <;> omega
    omega

/-- **Ingestion of one block** (any budget): the sliced loop never traps; it pauses exactly when
    the budget is smaller than the block's work, and otherwise finishes with the stable structures
    holding the reference ledger after the block. -/
theorem ingestBlock_spec (u : UtxoSet) (l : LedgerMap) (b : Block) (budget : Nat)
    (hS : StableIs u l) (hnd : (l.map (·.1)).Nodup)
    (hcb : ∀ tx ∈ b.txs, tx.coinbase = true → tx.ins = [])
    (hids : (b.txs.map (·.txid)).Nodup)
    (hfresh : ∀ tx ∈ b.txs, ∀ e ∈ l, e.1.txid ≠ tx.txid)
    (hv : TxValidFrom.TxsValid l u.nextHeight b.txs) :
    (budget < blockWork b ∧ (u.ingestBlock b budget).isPaused) ∨
    (blockWork b ≤ budget ∧ ∃ u', u.ingestBlock b budget = .done u' (budget - blockWork b) ∧
      StableIs u' (applyBlock l u.nextHeight b) ∧ u'.nextHeight = u.nextHeight + 1) := by
  have hD : DeltaInv l {} (fun k => ∀ tx ∈ b.txs, k.txid ≠ tx.txid) := by
    refine ⟨by intro k hk; simp [AList.contains] at hk, ?_, by intro k hk; simp [AList.contains] at hk⟩
    intro k hk tx htx
    cases hf : AList.find? l k with
    | none => rw [hf] at hk; cases hk
    | some v => exact hfresh tx htx _ (AList.mem_of_find? l k v hf)
  have hle := blockWork_le b
  obtain ⟨extra, hextra⟩ : ∃ extra, blockSteps b + 2 = (extra + 1) + (blockWork b + b.txs.length) :=
    ⟨blockSteps b + 1 - blockWork b - b.txs.length, by omega⟩
  unfold ingestBlock
  rw [hS.notIngesting]
  simp only
  rw [hextra]
  unfold blockWork at *
  rcases loop_txs b b.txs (extra + 1) u 0 {} budget l (by simp) hS hnd hD hv hids hcb
    with ⟨h1, h2⟩ | ⟨h1, u', d', h2, h3, h4⟩
  · exact Or.inl ⟨h1, h2⟩
  · right
    refine ⟨h1, { u' with ingesting := none, nextHeight := u'.nextHeight + 1 }, ?_, ?_, ?_⟩
    · rw [h2]
      exact ingestLoop_done extra u' _ _ (by simp)
    · unfold applyBlock
      exact ⟨rfl, h3.utxosNodup, h3.utxosEq, h3.indexNodup, h3.indexEq, h3.balancesNodup, h3.balancesEq⟩
    · simp [h4]

end UtxoSet
end Btc

/-! ### General facts about the reference ledger -/

namespace Btc
open Spec

theorem applyTx_keys_nodup (l : LedgerMap) (h : Nat) (tx : Tx) (hnd : (l.map (·.1)).Nodup) :
    ((applyTx l h tx).map (·.1)).Nodup := by
  unfold applyTx
  simp only
  rw [List.map_append, List.nodup_append]
  refine ⟨?_, ?_, ?_⟩
  · exact (((List.filter_sublist.trans List.filter_sublist)).map _).nodup hnd
  · rw [List.map_filterMap, List.nodup_iff_pairwise_ne]
    have hpw : (((List.range tx.outs.length).zip tx.outs)).Pairwise (fun p q => p.1 ≠ q.1) := by
      have h1 : (((List.range tx.outs.length).zip tx.outs).map Prod.fst).Nodup := by
        rw [List.map_fst_zip (by simp)]
        exact List.nodup_range
      rw [List.nodup_iff_pairwise_ne, List.pairwise_map] at h1
      exact h1
    refine List.Pairwise.filterMap _ ?_ hpw
    intro p q hpq b hb b' hb'
    by_cases h1 : p.2.opret = true
    · simp [h1] at hb
    · by_cases h2 : q.2.opret = true
      · simp [h2] at hb'
      · simp [h1] at hb
        simp [h2] at hb'
        subst hb hb'
        intro he
        apply hpq
        simpa using he
  · intro a ha b hb heq
    subst heq
    obtain ⟨e, he, rfl⟩ := List.mem_map.1 ha
    obtain ⟨c, hc, hce⟩ := List.mem_map.1 hb
    have := (List.mem_filter.1 he).2
    simp only [Bool.not_eq_true', List.any_eq_false] at this
    exact this c hc (by simp [hce])

theorem applyBlock_keys_nodup (l : LedgerMap) (h : Nat) (b : Block) (hnd : (l.map (·.1)).Nodup) :
    ((applyBlock l h b).map (·.1)).Nodup := by
  unfold applyBlock
  induction b.txs generalizing l with
  | nil => exact hnd
  | cons tx txs ih => exact ih _ (applyTx_keys_nodup l h tx hnd)

theorem ledgerFrom_keys_nodup : ∀ (chain : List Block) (l : LedgerMap) (h : Nat),
    (l.map (·.1)).Nodup → ((ledgerFrom l h chain).map (·.1)).Nodup
  | [], _, _, hnd => hnd
  | b :: bs, l, h, hnd => ledgerFrom_keys_nodup bs _ _ (applyBlock_keys_nodup l h b hnd)

/-- the keys of a ledger are pairwise distinct -/
theorem ledger_keys_nodup (chain : List Block) : ((ledger chain).map (·.1)).Nodup :=
  ledgerFrom_keys_nodup chain [] 0 (by simp)

theorem ledgerFrom_append : ∀ (a b : List Block) (l : LedgerMap) (h : Nat),
    ledgerFrom l h (a ++ b) = ledgerFrom (ledgerFrom l h a) (h + a.length) b
  | [], b, l, h => by simp [ledgerFrom]
  | x :: a, b, l, h => by
    simp only [List.cons_append, ledgerFrom, List.length_cons]
    rw [ledgerFrom_append a b]
    have : h + 1 + a.length = h + (a.length + 1) := by omega
    rw [this]

theorem ledger_snoc (G : List Block) (A : Block) :
    ledger (G ++ [A]) = applyBlock (ledger G) G.length A := by
  unfold ledger
  rw [ledgerFrom_append]
  simp [ledgerFrom]

theorem TxValidFrom_append : ∀ (a b : List Block) (l : LedgerMap) (h : Nat),
    TxValidFrom l h (a ++ b) ↔
      TxValidFrom l h a ∧ TxValidFrom (ledgerFrom l h a) (h + a.length) b
  | [], b, l, h => by simp [TxValidFrom, ledgerFrom]
  | x :: a, b, l, h => by
    simp only [List.cons_append, TxValidFrom, ledgerFrom, List.length_cons]
    rw [TxValidFrom_append a b]
    have : h + 1 + a.length = h + (a.length + 1) := by omega
    rw [this]
    simp only [and_assoc]

theorem foldl_applyTx_keys (h : Nat) : ∀ (txs : List Tx) (l : LedgerMap)
    (e : OutPoint × (TxOut × Nat)), e ∈ txs.foldl (fun acc tx => applyTx acc h tx) l →
    e ∈ l ∨ ∃ tx ∈ txs, tx.txid = e.1.txid
  | [], _, _, he => Or.inl he
  | tx :: txs, l, e, he => by
    rcases foldl_applyTx_keys h txs _ e he with h1 | ⟨tx', h1, h2⟩
    · rcases UtxoSet.applyTx_keys l h tx e h1 with h3 | h3
      · exact Or.inl h3
      · exact Or.inr ⟨tx, List.mem_cons_self, h3.symm⟩
    · exact Or.inr ⟨tx', List.mem_cons_of_mem _ h1, h2⟩

theorem applyBlock_keys (l : LedgerMap) (h : Nat) (b : Block) (e : OutPoint × (TxOut × Nat))
    (he : e ∈ applyBlock l h b) : e ∈ l ∨ ∃ tx ∈ b.txs, tx.txid = e.1.txid :=
  foldl_applyTx_keys h b.txs l e he

theorem txsOf_cons (b : Block) (bs : List Block) : txsOf (b :: bs) = b.txs ++ txsOf bs := by
  simp [txsOf]

theorem txsOf_append (a b : List Block) : txsOf (a ++ b) = txsOf a ++ txsOf b := by
  simp [txsOf]

theorem mem_txsOf (bs : List Block) (tx : Tx) : tx ∈ txsOf bs ↔ ∃ b ∈ bs, tx ∈ b.txs := by
  simp [txsOf, List.mem_flatMap]

/-- every entry of a ledger was there initially or was created by a transaction of the chain -/
theorem ledgerFrom_keys : ∀ (chain : List Block) (l : LedgerMap) (h : Nat)
    (e : OutPoint × (TxOut × Nat)), e ∈ ledgerFrom l h chain →
    e ∈ l ∨ ∃ tx ∈ txsOf chain, tx.txid = e.1.txid
  | [], _, _, _, he => Or.inl he
  | b :: bs, l, h, e, he => by
    rcases ledgerFrom_keys bs _ _ e he with h1 | ⟨tx, h1, h2⟩
    · rcases applyBlock_keys l h b e h1 with h3 | ⟨tx, h3, h4⟩
      · exact Or.inl h3
      · exact Or.inr ⟨tx, by rw [txsOf_cons]; exact List.mem_append_left _ h3, h4⟩
    · exact Or.inr ⟨tx, by rw [txsOf_cons]; exact List.mem_append_right _ h1, h2⟩

/-- inputs of a valid transaction list spend outputs of the ledger or of the list itself -/
theorem TxsValid_input_source : ∀ (txs : List Tx) (l : LedgerMap) (h : Nat),
    TxValidFrom.TxsValid l h txs → ∀ tx ∈ txs, ∀ o ∈ tx.ins,
    (∃ e ∈ l, e.1 = o) ∨ ∃ tx' ∈ txs, tx'.txid = o.txid
  | [], _, _, _, _, htx, _, _ => by cases htx
  | t :: ts, l, h, hv, tx, htx, o, ho => by
    obtain ⟨hv1, _, hv3⟩ := hv
    rcases List.mem_cons.1 htx with rfl | htx'
    · left
      have := hv1 o ho
      cases hf : AList.find? l o with
      | none => rw [hf] at this; cases this
      | some v => exact ⟨(o, v), AList.mem_of_find? l o v hf, rfl⟩
    · rcases TxsValid_input_source ts _ h hv3 tx htx' o ho with ⟨e, he, heo⟩ | ⟨tx', h1, h2⟩
      · rcases UtxoSet.applyTx_keys l h t e he with h3 | h3
        · exact Or.inl ⟨e, h3, heo⟩
        · exact Or.inr ⟨t, List.mem_cons_self, by rw [← heo, h3]⟩
      · exact Or.inr ⟨tx', List.mem_cons_of_mem _ h1, h2⟩

/-- inputs of a block of a valid chain spend outputs of the initial ledger or of the chain -/
theorem TxValidFrom_input_source : ∀ (chain : List Block) (l : LedgerMap) (h : Nat),
    TxValidFrom l h chain → ∀ B ∈ chain, ∀ tx ∈ B.txs, ∀ o ∈ tx.ins,
    (∃ e ∈ l, e.1 = o) ∨ ∃ tx' ∈ txsOf chain, tx'.txid = o.txid
  | [], _, _, _, _, hB, _, _, _, _ => by cases hB
  | b :: bs, l, h, hv, B, hB, tx, htx, o, ho => by
    obtain ⟨_, _, hv3, hv4⟩ := hv
    rcases List.mem_cons.1 hB with rfl | hB'
    · rcases TxsValid_input_source _ l h hv3 tx htx o ho with h1 | ⟨tx', h1, h2⟩
      · exact Or.inl h1
      · exact Or.inr ⟨tx', by rw [txsOf_cons]; exact List.mem_append_left _ h1, h2⟩
    · rcases TxValidFrom_input_source bs _ _ hv4 B hB' tx htx o ho with ⟨e, he, heo⟩ | ⟨tx', h1, h2⟩
      · rcases applyBlock_keys l h b e he with h3 | ⟨tx', h3, h4⟩
        · exact Or.inl ⟨e, h3, heo⟩
        · exact Or.inr ⟨tx', by rw [txsOf_cons]; exact List.mem_append_left _ h3, by rw [h4, heo]⟩
      · exact Or.inr ⟨tx', by rw [txsOf_cons]; exact List.mem_append_right _ h1, h2⟩

/-- in a transaction-valid chain (from genesis) every input refers to a transaction of the chain -/
theorem TxValid_input_source (chain : List Block) (hv : TxValid chain) (B : Block) (hB : B ∈ chain)
    (tx : Tx) (htx : tx ∈ B.txs) (o : OutPoint) (ho : o ∈ tx.ins) :
    ∃ tx' ∈ txsOf chain, tx'.txid = o.txid := by
  rcases TxValidFrom_input_source chain [] 0 hv B hB tx htx o ho with ⟨e, he, _⟩ | h
  · cases he
  · exact h

end Btc
