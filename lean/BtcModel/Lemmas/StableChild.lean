import BtcModel.Model.Tree
import BtcModel.Lemmas.MainChain

/-! Helper lemmas for C03: the sort used by `get_stable_child`
    (key `(difficulty_based_depth, main_chain_length, Reverse(idx))`), the top two entries of the
    sorted list, and the link with `main_chain_by_difficulty`. -/
namespace Btc
open Tree

variable {α : Type}

/-- an entry of the list sorted by `get_stable_child`: `((dbd, main-chain length), index)` -/
abbrev Entry := (Nat × Nat) × Nat

/-- `Prop` form of `Tree.entryLt`: lexicographic on `(dbd, len)`, then *descending* index -/
def entLt (a b : Entry) : Prop :=
  a.1.1 < b.1.1 ∨ (a.1.1 = b.1.1 ∧ (a.1.2 < b.1.2 ∨ (a.1.2 = b.1.2 ∧ b.2 < a.2)))

theorem entryLt_iff (a b : Entry) : entryLt a b = true ↔ entLt a b := by
  unfold entryLt entLt; simp

theorem entLt_trans {a b c : Entry} (h1 : entLt a b) (h2 : entLt b c) : entLt a c := by
  unfold entLt at *; omega

theorem entLt_total {a b : Entry} (h : a.2 ≠ b.2) (hn : ¬ entLt a b) : entLt b a := by
  unfold entLt at *; omega

theorem entLt_asymm {a b : Entry} (h : entLt a b) : ¬ entLt b a := by
  unfold entLt at *; omega

/-! ### `insertStable` / `sortStable`: permutation, sortedness -/

theorem insertStable_perm (x : Entry) : ∀ l, (insertStable x l).Perm (x :: l)
  | [] => .refl _
  | y :: ys => by
    simp only [insertStable]
    split
    · exact .refl _
    · exact ((insertStable_perm x ys).cons y).trans (.swap x y ys)

theorem mem_insertStable {x z : Entry} {l : List Entry} :
    z ∈ insertStable x l ↔ z = x ∨ z ∈ l := by
  rw [(insertStable_perm x l).mem_iff, List.mem_cons]

theorem foldl_insertStable_perm (l acc : List Entry) :
    (l.foldl (fun acc x => insertStable x acc) acc).Perm (l ++ acc) := by
  induction l generalizing acc with
  | nil => exact .refl _
  | cons x xs ih =>
    simp only [List.foldl_cons, List.cons_append]
    exact (ih _).trans (((insertStable_perm x acc).append_left xs).trans List.perm_middle)

/-- `sortStable l` is a permutation of `l`. -/
theorem sortStable_perm (l : List Entry) : (sortStable l).Perm l := by
  have := foldl_insertStable_perm l []
  simpa [sortStable] using this

theorem mem_sortStable {z : Entry} {l : List Entry} : z ∈ sortStable l ↔ z ∈ l :=
  (sortStable_perm l).mem_iff

theorem sortStable_length (l : List Entry) : (sortStable l).length = l.length :=
  (sortStable_perm l).length_eq

theorem insertStable_sorted (x : Entry) :
    ∀ l : List Entry, l.Pairwise (fun a b => ¬ entLt b a) →
      (insertStable x l).Pairwise (fun a b => ¬ entLt b a)
  | [], _ => by simp [insertStable]
  | y :: ys, h => by
    rw [List.pairwise_cons] at h
    simp only [insertStable]
    split
    · rename_i hlt
      rw [entryLt_iff] at hlt
      refine List.pairwise_cons.2 ⟨?_, List.pairwise_cons.2 h⟩
      intro z hz
      rcases List.mem_cons.1 hz with rfl | hz
      · exact entLt_asymm hlt
      · have := h.1 z hz
        unfold entLt at *; omega
    · rename_i hge
      rw [entryLt_iff] at hge
      refine List.pairwise_cons.2 ⟨?_, insertStable_sorted x ys h.2⟩
      intro z hz
      rcases mem_insertStable.1 hz with rfl | hz
      · exact hge
      · exact h.1 z hz

theorem foldl_insertStable_sorted (l acc : List Entry)
    (h : acc.Pairwise (fun a b => ¬ entLt b a)) :
    (l.foldl (fun acc x => insertStable x acc) acc).Pairwise (fun a b => ¬ entLt b a) := by
  induction l generalizing acc with
  | nil => exact h
  | cons x xs ih => exact ih _ (insertStable_sorted x acc h)

/-- `sortStable l` is ascending for the composite key (no later entry is smaller). -/
theorem sortStable_sorted (l : List Entry) :
    (sortStable l).Pairwise (fun a b => ¬ entLt b a) :=
  foldl_insertStable_sorted l [] List.Pairwise.nil

/-! ### Inputs with distinct indices: the result is strictly ascending -/

theorem insertStable_lex (x : Entry) :
    ∀ l : List Entry, l.Pairwise entLt → (∀ y ∈ l, y.2 ≠ x.2) →
      (insertStable x l).Pairwise entLt
  | [], _, _ => by simp [insertStable]
  | y :: ys, h, hx => by
    rw [List.pairwise_cons] at h
    simp only [insertStable]
    split
    · rename_i hlt
      rw [entryLt_iff] at hlt
      refine List.pairwise_cons.2 ⟨?_, List.pairwise_cons.2 h⟩
      intro z hz
      rcases List.mem_cons.1 hz with rfl | hz
      · exact hlt
      · exact entLt_trans hlt (h.1 z hz)
    · rename_i hge
      rw [entryLt_iff] at hge
      refine List.pairwise_cons.2
        ⟨?_, insertStable_lex x ys h.2 (fun z hz => hx z (List.mem_cons_of_mem _ hz))⟩
      intro z hz
      rcases mem_insertStable.1 hz with rfl | hz
      · exact entLt_total (fun e => hx y List.mem_cons_self e.symm) hge
      · exact h.1 z hz

theorem foldl_insertStable_lex (l acc : List Entry)
    (hl : l.Pairwise (fun a b => a.2 ≠ b.2)) (h : acc.Pairwise entLt)
    (hacc : ∀ a ∈ acc, ∀ b ∈ l, a.2 ≠ b.2) :
    (l.foldl (fun acc x => insertStable x acc) acc).Pairwise entLt := by
  induction l generalizing acc with
  | nil => exact h
  | cons x xs ih =>
    rw [List.pairwise_cons] at hl
    refine ih _ hl.2 (insertStable_lex x acc h (fun y hy => hacc y hy x List.mem_cons_self)) ?_
    intro a ha b hb
    rcases mem_insertStable.1 ha with rfl | ha
    · exact hl.1 b hb
    · exact hacc a ha b (List.mem_cons_of_mem _ hb)

/-- If the indices of the input are pairwise distinct, the sort is strictly ascending in
    `(dbd, len, Reverse idx)`. -/
theorem sortStable_lex (l : List Entry) (hl : l.Pairwise (fun a b => a.2 ≠ b.2)) :
    (sortStable l).Pairwise entLt :=
  foldl_insertStable_lex l [] hl List.Pairwise.nil (by simp)

/-- The descending view used by `get_stable_child` (`last()`, `len - 2`). -/
theorem sortStable_reverse_lex (l : List Entry) (hl : l.Pairwise (fun a b => a.2 ≠ b.2)) :
    (sortStable l).reverse.Pairwise (fun a b => entLt b a) :=
  List.pairwise_reverse.2 (sortStable_lex l hl)

theorem mem_sortStable_reverse {z : Entry} {l : List Entry} :
    z ∈ (sortStable l).reverse ↔ z ∈ l := by
  rw [List.mem_reverse, mem_sortStable]

/-- **Last two entries of the sort** (general list form). For an input with distinct indices, the
    last entry `x` of `sortStable l` is the maximum of `l` for the composite key; the entry
    before it is the maximum of the remaining entries. -/
theorem sortStable_reverse_cons (l : List Entry) (hl : l.Pairwise (fun a b => a.2 ≠ b.2))
    (x : Entry) (rest : List Entry) (h : (sortStable l).reverse = x :: rest) :
    x ∈ l ∧ (∀ y ∈ l, y = x ∨ entLt y x) ∧
    (rest = [] → l = [x]) ∧
    (∀ x2 r, rest = x2 :: r → x2 ∈ l ∧ entLt x2 x ∧ ∀ y ∈ l, y = x ∨ y = x2 ∨ entLt y x2) := by
  have hmem : ∀ z, z ∈ x :: rest ↔ z ∈ l := fun z => by rw [← h]; exact mem_sortStable_reverse
  have hpw := sortStable_reverse_lex l hl
  rw [h, List.pairwise_cons] at hpw
  refine ⟨(hmem x).1 List.mem_cons_self, ?_, ?_, ?_⟩
  · intro y hy
    rcases List.mem_cons.1 ((hmem y).2 hy) with h1 | h1
    · exact Or.inl h1
    · exact Or.inr (hpw.1 y h1)
  · intro hr
    subst hr
    have hlen : l.length = 1 := by
      rw [← sortStable_length, ← List.length_reverse, h]; rfl
    match l, hlen, hmem with
    | [a], _, hm => have := (hm a).2 List.mem_cons_self; simp at this; rw [this]
  · intro x2 r hr
    subst hr
    have hp2 := hpw.2
    rw [List.pairwise_cons] at hp2
    refine ⟨(hmem x2).1 (by simp), hpw.1 x2 List.mem_cons_self, ?_⟩
    intro y hy
    rcases List.mem_cons.1 ((hmem y).2 hy) with h1 | h1
    · exact Or.inl h1
    · rcases List.mem_cons.1 h1 with h1 | h1
      · exact Or.inr (Or.inl h1)
      · exact Or.inr (Or.inr (hp2.1 y h1))

/-! ### `childKeys` -/

theorem childKeys_getElem? (d : α → Nat) (cs : List (Tree α)) (j : Nat) :
    (childKeys d cs)[j]? = cs[j]?.map (fun c => (childKey d c, j)) := by
  unfold childKeys
  rw [List.getElem?_map]
  cases h : cs[j]? with
  | none =>
    have : cs.length ≤ j := by simpa using h
    simp [this]
  | some c =>
    have hj : j < cs.length := (List.getElem?_eq_some_iff.1 h).1
    have : ((List.range cs.length).zip cs)[j]? = some (j, c) := by
      rw [List.getElem?_zip_eq_some]
      simp [hj]
      exact (List.getElem?_eq_some_iff.1 h).2
    simp [this]

theorem mem_childKeys (d : α → Nat) (cs : List (Tree α)) (p : Entry) :
    p ∈ childKeys d cs ↔ ∃ c, cs[p.2]? = some c ∧ childKey d c = p.1 := by
  obtain ⟨k, i⟩ := p
  rw [List.mem_iff_getElem?]
  constructor
  · rintro ⟨j, hj⟩
    rw [childKeys_getElem?] at hj
    cases h : cs[j]? with
    | none => simp [h] at hj
    | some c =>
      simp only [h, Option.map_some, Option.some.injEq, Prod.mk.injEq] at hj
      obtain ⟨h1, h2⟩ := hj
      subst h1 h2
      exact ⟨c, h, rfl⟩
  · rintro ⟨c, hc, hk⟩
    refine ⟨i, ?_⟩
    simp only at hc hk
    rw [childKeys_getElem?, hc, ← hk]
    rfl

theorem childKeys_tags_increasing (d : α → Nat) (cs : List (Tree α)) :
    (childKeys d cs).Pairwise (fun a b => a.2 < b.2) := by
  rw [List.pairwise_iff_getElem]
  intro i j hi hj hij
  have h1 := childKeys_getElem? d cs i
  have h2 := childKeys_getElem? d cs j
  rw [List.getElem?_eq_getElem hi] at h1
  rw [List.getElem?_eq_getElem hj] at h2
  cases hci : cs[i]? with
  | none => simp [hci] at h1
  | some ci =>
    cases hcj : cs[j]? with
    | none => simp [hcj] at h2
    | some cj =>
      simp only [hci, hcj, Option.map_some, Option.some.injEq] at h1 h2
      rw [h1, h2]
      exact hij

theorem childKeys_tags_distinct (d : α → Nat) (cs : List (Tree α)) :
    (childKeys d cs).Pairwise (fun a b => a.2 ≠ b.2) :=
  (childKeys_tags_increasing d cs).imp (fun h => Nat.ne_of_lt h)

theorem childKeys_length (d : α → Nat) (cs : List (Tree α)) : (childKeys d cs).length = cs.length := by
  simp [childKeys]

/-! ### The top two entries of the sorted list -/

/-- child `c` (at index `i`) is preferred to child `c'` (at index `j`), or they are the same
    child: greater difficulty-based depth; on a tie the longer own main chain; on a tie on both,
    the one received first. This is the order in which `main_chain_by_difficulty` prefers children. -/
def PrefTo (d : α → Nat) (c : Tree α) (i : Nat) (c' : Tree α) (j : Nat) : Prop :=
  diffDepth d c' < diffDepth d c ∨
    (diffDepth d c' = diffDepth d c ∧
      (mainChainLen d c' < mainChainLen d c ∨ (mainChainLen d c' = mainChainLen d c ∧ i ≤ j)))

/-- child `i` is the preferred child: maximal `(diffDepth, mainChainLen)`, the *first* one among
    the children that tie on both -/
def Preferred (d : α → Nat) (cs : List (Tree α)) (i : Nat) : Prop :=
  ∃ c, cs[i]? = some c ∧ ∀ (j : Nat) (c' : Tree α), cs[j]? = some c' → PrefTo d c i c' j

/-- child `i2` is the preferred one among the children other than `i` -/
def RunnerUp (d : α → Nat) (cs : List (Tree α)) (i i2 : Nat) : Prop :=
  i2 ≠ i ∧ ∃ c2, cs[i2]? = some c2 ∧
    ∀ (j : Nat) (c' : Tree α), j ≠ i → cs[j]? = some c' → PrefTo d c2 i2 c' j

theorem Preferred.unique {d : α → Nat} {cs : List (Tree α)} {i j : Nat}
    (hi : Preferred d cs i) (hj : Preferred d cs j) : i = j := by
  obtain ⟨c, hc, hp⟩ := hi
  obtain ⟨c', hc', hp'⟩ := hj
  have h1 := hp j c' hc'
  have h2 := hp' i c hc
  unfold PrefTo at h1 h2
  omega

/-- the preferred child is in particular (one of) the heaviest -/
theorem Preferred.heaviest {d : α → Nat} {cs : List (Tree α)} {i : Nat} {c : Tree α}
    (h : Preferred d cs i) (hc : cs[i]? = some c) :
    ∀ (j : Nat) (c' : Tree α), cs[j]? = some c' → diffDepth d c' ≤ diffDepth d c := by
  obtain ⟨c0, hc0, hp⟩ := h
  rw [hc] at hc0; cases hc0
  intro j c' hc'
  have := hp j c' hc'
  unfold PrefTo at this
  omega

theorem RunnerUp.unique {d : α → Nat} {cs : List (Tree α)} {i a b : Nat}
    (ha : RunnerUp d cs i a) (hb : RunnerUp d cs i b) : a = b := by
  obtain ⟨na, c, hc, hp⟩ := ha
  obtain ⟨nb, c', hc', hp'⟩ := hb
  have h1 := hp b c' nb hc'
  have h2 := hp' a c na hc
  unfold PrefTo at h1 h2
  omega

/-- the list `get_stable_child` looks at, in descending order -/
def descKeys (d : α → Nat) (cs : List (Tree α)) : List Entry :=
  (sortStable (childKeys d cs)).reverse

theorem mem_descKeys (d : α → Nat) (cs : List (Tree α)) (p : Entry) :
    p ∈ descKeys d cs ↔ ∃ c, cs[p.2]? = some c ∧ childKey d c = p.1 := by
  unfold descKeys
  rw [mem_sortStable_reverse, mem_childKeys]

theorem descKeys_pairwise (d : α → Nat) (cs : List (Tree α)) :
    (descKeys d cs).Pairwise (fun a b => entLt b a) :=
  sortStable_reverse_lex _ (childKeys_tags_distinct d cs)

theorem descKeys_length (d : α → Nat) (cs : List (Tree α)) : (descKeys d cs).length = cs.length := by
  simp [descKeys, sortStable_length, childKeys_length]

theorem descKeys_nil (d : α → Nat) (cs : List (Tree α)) (h : descKeys d cs = []) : cs = [] := by
  have := descKeys_length d cs
  rw [h] at this
  exact List.eq_nil_of_length_eq_zero this.symm

/-- an entry below (or equal to) the entry of child `c`/`i` means `c` is preferred -/
theorem prefTo_of_entry (d : α → Nat) (c c' : Tree α) (i j : Nat)
    (h : ((childKey d c', j) : Entry) = (childKey d c, i) ∨
      entLt (childKey d c', j) (childKey d c, i)) : PrefTo d c i c' j := by
  unfold PrefTo
  rcases h with h | h
  · simp only [childKey, Prod.mk.injEq] at h; omega
  · unfold entLt at h; simp only [childKey] at h; omega

/-- **The last entry after sorting** is the preferred child; the entry before it, if any, is
    the runner-up. -/
theorem descKeys_cons (d : α → Nat) (cs : List (Tree α)) (K L i : Nat) (rest : List Entry)
    (h : descKeys d cs = ((K, L), i) :: rest) :
    Preferred d cs i ∧ (∃ c, cs[i]? = some c ∧ diffDepth d c = K) ∧
    (rest = [] → ∀ j, j ≠ i → cs[j]? = none) ∧
    (∀ K2 L2 i2 r, rest = ((K2, L2), i2) :: r →
      RunnerUp d cs i i2 ∧ K2 ≤ K ∧ ∃ c2, cs[i2]? = some c2 ∧ diffDepth d c2 = K2) := by
  have hmem := mem_descKeys d cs
  have hpw := descKeys_pairwise d cs
  rw [h] at hmem hpw
  rw [List.pairwise_cons] at hpw
  obtain ⟨hx, hrest⟩ := hpw
  obtain ⟨c, hc, hK⟩ := (hmem ((K, L), i)).1 List.mem_cons_self
  simp only at hc hK
  refine ⟨⟨c, hc, ?_⟩, ⟨c, hc, ?_⟩, ?_, ?_⟩
  · intro j c' hc'
    apply prefTo_of_entry
    rw [hK]
    have : ((childKey d c', j) : Entry) ∈ ((K, L), i) :: rest := (hmem _).2 ⟨c', hc', rfl⟩
    rcases List.mem_cons.1 this with h1 | h1
    · exact Or.inl h1
    · exact Or.inr (hx _ h1)
  · simp only [childKey, Prod.mk.injEq] at hK; exact hK.1
  · intro hr j hj
    cases hcj : cs[j]? with
    | none => rfl
    | some c' =>
      have : ((childKey d c', j) : Entry) ∈ ((K, L), i) :: rest := (hmem _).2 ⟨c', hcj, rfl⟩
      rw [hr] at this
      simp at this
      omega
  · intro K2 L2 i2 r hr
    subst hr
    rw [List.pairwise_cons] at hrest
    obtain ⟨hx2, _⟩ := hrest
    obtain ⟨c2, hc2, hK2⟩ := (hmem ((K2, L2), i2)).1 (by simp)
    simp only at hc2 hK2
    have h2lt : entLt ((K2, L2), i2) ((K, L), i) := hx _ List.mem_cons_self
    have hne : i2 ≠ i := by
      intro heq
      subst heq
      rw [hc] at hc2
      cases hc2
      rw [hK] at hK2
      simp only [Prod.mk.injEq] at hK2
      unfold entLt at h2lt; simp only at h2lt; omega
    refine ⟨⟨hne, c2, hc2, ?_⟩, ?_, ⟨c2, hc2, ?_⟩⟩
    · intro j c' hj hc'
      apply prefTo_of_entry
      rw [hK2]
      have : ((childKey d c', j) : Entry) ∈ ((K, L), i) :: ((K2, L2), i2) :: r :=
        (hmem _).2 ⟨c', hc', rfl⟩
      rcases List.mem_cons.1 this with h1 | h1
      · simp only [Prod.mk.injEq] at h1; omega
      · rcases List.mem_cons.1 h1 with h1 | h1
        · exact Or.inl h1
        · exact Or.inr (hx2 _ h1)
    · unfold entLt at h2lt; simp only at h2lt; omega
    · simp only [childKey, Prod.mk.injEq] at hK2; exact hK2.1

/-! ### Accumulated difficulty of the main chain = difficulty-based depth -/

theorem keyGt_iff (a b : Nat × Nat) :
    keyGt a b = true ↔ (a.1 > b.1 ∨ (a.1 = b.1 ∧ a.2 > b.2)) := by
  unfold keyGt; simp

mutual
theorem mainChainInner_fst : ∀ (d : α → Nat) (t : Tree α), (mainChainInner d t).1 = diffDepth d t
  | d, .node r cs => by
    simp only [mainChainInner, diffDepth]
    rw [bestChild_fst d cs (0, 0, [])]
    simp only [Nat.zero_max]
    omega
theorem bestChild_fst : ∀ (d : α → Nat) (cs : List (Tree α)) (acc : Nat × Nat × List α),
    (bestChild d cs acc).1 = max acc.1 (diffDepthList d cs)
  | d, [], acc => by simp [bestChild, diffDepthList]
  | d, c :: cs, acc => by
    simp only [bestChild, diffDepthList]
    have hc := mainChainInner_fst d c
    split
    · rename_i hgt
      rw [keyGt_iff] at hgt
      simp only at hgt
      rw [bestChild_fst d cs _, hc]
      omega
    · rename_i hgt
      rw [keyGt_iff] at hgt
      simp only at hgt
      rw [bestChild_fst d cs _]
      omega
end

/-- `(difficulty, length)` of the chain served below a child = the child's sort key -/
theorem childKey_eq (d : α → Nat) (c : Tree α) :
    ((mainChainInner d c).1, (mainChainInner d c).2.1) = childKey d c := by
  unfold childKey mainChainLen
  rw [mainChainLenInner_eq, mainChainInner_fst]

theorem mainChainInner_len (d : α → Nat) (c : Tree α) :
    (mainChainInner d c).2.1 = mainChainLen d c := by
  unfold mainChainLen
  rw [mainChainLenInner_eq]

theorem mainChainLen_pos (d : α → Nat) (c : Tree α) : 0 < mainChainLen d c := by
  rw [← mainChainInner_len]
  cases c with
  | node r cs => simp only [mainChainInner]; omega

/-- children whose key does not beat the accumulator never replace it -/
theorem bestChild_keep (d : α → Nat) (cs : List (Tree α)) (acc : Nat × Nat × List α)
    (h : ∀ c ∈ cs, keyGt (childKey d c) (acc.1, acc.2.1) = false) : bestChild d cs acc = acc := by
  induction cs with
  | nil => rfl
  | cons c cs ih =>
    simp only [bestChild]
    have hc := h c List.mem_cons_self
    rw [← childKey_eq] at hc
    rw [hc]
    exact ih (fun c' hc' => h c' (List.mem_cons_of_mem _ hc'))

/-- **`main_chain_by_difficulty` follows the preferred child**: the scan over the children
    returns the chain of the first child with the maximal `(difficulty, length)` key. -/
theorem bestChild_preferred (d : α → Nat) :
    ∀ (cs : List (Tree α)) (acc : Nat × Nat × List α) (i : Nat) (c : Tree α),
      cs[i]? = some c →
      (∀ (j : Nat) (c' : Tree α), cs[j]? = some c' → PrefTo d c i c' j) →
      keyGt (childKey d c) (acc.1, acc.2.1) = true → bestChild d cs acc = mainChainInner d c
  | [], _, _, _, hc, _, _ => by simp at hc
  | c0 :: cs, acc, 0, c, hc, hp, hacc => by
    simp only [List.getElem?_cons_zero, Option.some.injEq] at hc
    subst hc
    simp only [bestChild]
    rw [childKey_eq, hacc]
    simp only [if_true]
    apply bestChild_keep
    intro c' hc'
    obtain ⟨j, hj⟩ := List.mem_iff_getElem?.1 hc'
    have := hp (j + 1) c' (by simpa using hj)
    rw [childKey_eq]
    cases hk : keyGt (childKey d c') (childKey d c0) with
    | false => rfl
    | true =>
      rw [keyGt_iff] at hk
      unfold PrefTo at this
      simp only [childKey] at hk
      omega
  | c0 :: cs, acc, i + 1, c, hc, hp, hacc => by
    simp only [List.getElem?_cons_succ] at hc
    have h0 : keyGt (childKey d c) (childKey d c0) = true := by
      have := hp 0 c0 (by simp)
      rw [keyGt_iff]
      unfold PrefTo at this
      simp only [childKey]
      omega
    have hp' : ∀ (j : Nat) (c' : Tree α), cs[j]? = some c' → PrefTo d c i c' j := by
      intro j c' hc'
      have := hp (j + 1) c' (by simpa using hc')
      unfold PrefTo at this ⊢
      omega
    simp only [bestChild]
    split
    · refine bestChild_preferred d cs _ i c hc hp' ?_
      rw [childKey_eq]; exact h0
    · exact bestChild_preferred d cs _ i c hc hp' hacc

theorem mainChainInner_chain_head (d : α → Nat) (t : Tree α) :
    (mainChainInner d t).2.2.head? = some t.root := by
  cases t with
  | node r cs => rfl

/-- **The preferred child is the second block of the served chain.** -/
theorem mainChain_second_of_preferred (d : α → Nat) (r : α) (cs : List (Tree α)) (i : Nat)
    (c : Tree α) (hc : cs[i]? = some c)
    (hp : ∀ (j : Nat) (c' : Tree α), cs[j]? = some c' → PrefTo d c i c' j) :
    (mainChain d (.node r cs))[1]? = some c.root := by
  have hbest : bestChild d cs (0, 0, []) = mainChainInner d c := by
    apply bestChild_preferred d cs (0, 0, []) i c hc hp
    rw [keyGt_iff]
    have := mainChainLen_pos d c
    simp only [childKey]
    omega
  unfold mainChain
  simp only [mainChainInner]
  rw [hbest]
  have := mainChainInner_chain_head d c
  simp only [List.getElem?_cons_succ]
  rw [← List.head?_eq_getElem?]
  exact this

/-- If one child is strictly heavier (by difficulty-based depth) than all its siblings, the main
    chain continues through that child. -/
theorem mainChain_second_of_strict (d : α → Nat) (r : α) (cs : List (Tree α)) (i : Nat)
    (c : Tree α) (hc : cs[i]? = some c)
    (hlt : ∀ (j : Nat) (c' : Tree α), j ≠ i → cs[j]? = some c' → diffDepth d c' < diffDepth d c) :
    (mainChain d (.node r cs))[1]? = some c.root := by
  apply mainChain_second_of_preferred d r cs i c hc
  intro j c' hc'
  unfold PrefTo
  by_cases hj : j = i
  · subst hj
    rw [hc] at hc'; cases hc'
    omega
  · exact Or.inl (hlt j c' hj hc')

/-! ### Unfolding `stableChild` over the descending key list -/

/-- depth of the runner-up's subtree as read by the code (`0` when there is no second entry) -/
def secondDepth (cs : List (Tree α)) : List Entry → Nat
  | [] => 0
  | (_, i2) :: _ => nthDepth cs i2

theorem stableChild_of_nil (d : α → Nat) (net : Net) (thr bound : Nat) (r : α)
    (cs : List (Tree α)) (h : descKeys d cs = []) :
    stableChild d net thr bound (.node r cs) = none := by
  unfold descKeys at h
  simp only [stableChild, h]

theorem stableChild_of_cons (d : α → Nat) (net : Net) (thr bound : Nat) (r : α)
    (cs : List (Tree α)) (K L i : Nat) (rest : List Entry)
    (h : descKeys d cs = ((K, L), i) :: rest) (i' : Nat) :
    stableChild d net thr bound (.node r cs) = some i' ↔
      i' = i ∧
      ((net.depthRule = true ∧ nthDepth cs i ≥ bound ∧
          nthDepth cs i - secondDepth cs rest ≥ bound) ∨
       (K ≥ d r * thr ∧ ∀ K2 L2 i2 r', rest = ((K2, L2), i2) :: r' → K - K2 ≥ d r * thr)) := by
  unfold descKeys at h
  simp only [stableChild, h]
  generalize d r * thr = T
  cases rest with
  | nil =>
    cases net.depthRule
    · simp [secondDepth] <;> omega
    · simp only [secondDepth, Bool.true_and, Nat.sub_zero, Bool.and_self, decide_eq_true_eq,
        true_and]
      by_cases h1 : nthDepth cs i ≥ bound
      · simp [h1] <;> omega
      · by_cases h2 : K < T
        · simp [h1, h2] <;> omega
        · simp [h1, h2] <;> omega
  | cons x r' =>
    obtain ⟨⟨K2, L2⟩, i2⟩ := x
    have hall : (∀ (K2' L2' i2' : Nat) (r'' : List Entry),
        (((K2, L2), i2) : Entry) :: r' = ((K2', L2'), i2') :: r'' → K - K2' ≥ T) ↔ K - K2 ≥ T := by
      constructor
      · intro h; exact h _ _ _ _ rfl
      · intro h K2' L2' i2' r'' he
        simp only [List.cons.injEq, Prod.mk.injEq] at he
        obtain ⟨⟨⟨rfl, _⟩, _⟩, _⟩ := he
        exact h
    rw [hall]
    cases net.depthRule
    · simp [secondDepth] <;> omega
    · simp only [secondDepth, Bool.true_and, Bool.and_eq_true, decide_eq_true_eq, true_and]
      by_cases h1 : nthDepth cs i ≥ bound ∧ nthDepth cs i - nthDepth cs i2 ≥ bound
      · simp [h1] <;> omega
      · by_cases h2 : K < T
        · simp [h1, h2] <;> omega
        · by_cases h3 : K - K2 < T
          · simp [h1, h2, h3] <;> omega
          · simp [h1, h2, h3] <;> omega

/-! ### `extend` never drops a block -/

theorem blocksList_append (a b : List (Tree α)) :
    blocksList (a ++ b) = blocksList a ++ blocksList b := by
  induction a with
  | nil => rfl
  | cons c cs ih => simp only [List.cons_append, blocksList, ih, List.append_assoc]

mutual
theorem extend_blocks_sublist (h : α → Nat) (prev : Nat) (b : α) :
    ∀ (t t' : Tree α), extend h prev b t = some t' →
      (blocks t).Sublist (blocks t') ∧ t'.root = t.root
  | .node r cs, t', he => by
    simp only [extend] at he
    split at he
    · cases he
      simp only [blocks, blocksList_append, Tree.root]
      exact ⟨(List.sublist_append_left _ _).cons_cons r, trivial⟩
    · split at he
      · rename_i cs' hcs
        cases he
        simp only [blocks, Tree.root]
        exact ⟨(extendList_blocks_sublist h prev b cs cs' hcs).cons_cons r, trivial⟩
      · cases he
theorem extendList_blocks_sublist (h : α → Nat) (prev : Nat) (b : α) :
    ∀ (cs cs' : List (Tree α)), extendList h prev b cs = some cs' →
      (blocksList cs).Sublist (blocksList cs')
  | [], _, he => by simp [extendList] at he
  | c :: cs, cs', he => by
    simp only [extendList] at he
    split at he
    · rename_i c' hc
      cases he
      simp only [blocksList]
      exact (extend_blocks_sublist h prev b c c' hc).1.append (List.Sublist.refl _)
    · split at he
      · rename_i cs'' hcs
        cases he
        simp only [blocksList]
        exact (List.Sublist.refl _).append (extendList_blocks_sublist h prev b cs cs'' hcs)
      · cases he
end

end Btc
