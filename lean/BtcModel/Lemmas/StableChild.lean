import BtcModel.Model.Tree
import BtcModel.Lemmas.MainChain

/-! Helper lemmas for C03: the stable sort used by `get_stable_child`, the top two entries of the
    sorted list, and the accumulated difficulty of the main chain. -/
namespace Btc
open Tree

variable {α : Type}

/-! ### `insertStable` / `sortStable`: permutation, sortedness, stability -/

theorem insertStable_perm (x : Nat × Nat) : ∀ l, (insertStable x l).Perm (x :: l)
  | [] => .refl _
  | y :: ys => by
    simp only [insertStable]
    split
    · exact .refl _
    · exact ((insertStable_perm x ys).cons y).trans (.swap x y ys)

theorem mem_insertStable {x z : Nat × Nat} {l : List (Nat × Nat)} :
    z ∈ insertStable x l ↔ z = x ∨ z ∈ l := by
  rw [(insertStable_perm x l).mem_iff, List.mem_cons]

theorem foldl_insertStable_perm (l acc : List (Nat × Nat)) :
    (l.foldl (fun acc x => insertStable x acc) acc).Perm (l ++ acc) := by
  induction l generalizing acc with
  | nil => exact .refl _
  | cons x xs ih =>
    simp only [List.foldl_cons, List.cons_append]
    exact (ih _).trans (((insertStable_perm x acc).append_left xs).trans List.perm_middle)

/-- `sortStable l` is a permutation of `l`. -/
theorem sortStable_perm (l : List (Nat × Nat)) : (sortStable l).Perm l := by
  have := foldl_insertStable_perm l []
  simpa [sortStable] using this

theorem mem_sortStable {z : Nat × Nat} {l : List (Nat × Nat)} : z ∈ sortStable l ↔ z ∈ l :=
  (sortStable_perm l).mem_iff

theorem sortStable_length (l : List (Nat × Nat)) : (sortStable l).length = l.length :=
  (sortStable_perm l).length_eq

theorem insertStable_sorted (x : Nat × Nat) :
    ∀ l : List (Nat × Nat), l.Pairwise (fun a b => a.1 ≤ b.1) →
      (insertStable x l).Pairwise (fun a b => a.1 ≤ b.1)
  | [], _ => by simp [insertStable]
  | y :: ys, h => by
    rw [List.pairwise_cons] at h
    simp only [insertStable]
    split
    · rename_i hlt
      refine List.pairwise_cons.2 ⟨?_, List.pairwise_cons.2 h⟩
      intro z hz
      rcases List.mem_cons.1 hz with rfl | hz
      · omega
      · have := h.1 z hz; omega
    · rename_i hge
      refine List.pairwise_cons.2 ⟨?_, insertStable_sorted x ys h.2⟩
      intro z hz
      rcases mem_insertStable.1 hz with rfl | hz
      · omega
      · exact h.1 z hz

theorem foldl_insertStable_sorted (l acc : List (Nat × Nat))
    (h : acc.Pairwise (fun a b => a.1 ≤ b.1)) :
    (l.foldl (fun acc x => insertStable x acc) acc).Pairwise (fun a b => a.1 ≤ b.1) := by
  induction l generalizing acc with
  | nil => exact h
  | cons x xs ih => exact ih _ (insertStable_sorted x acc h)

/-- `sortStable l` is ascending by key. -/
theorem sortStable_sorted (l : List (Nat × Nat)) :
    (sortStable l).Pairwise (fun a b => a.1 ≤ b.1) :=
  foldl_insertStable_sorted l [] List.Pairwise.nil

theorem insertStable_filter (k : Nat) (x : Nat × Nat) :
    ∀ l : List (Nat × Nat), l.Pairwise (fun a b => a.1 ≤ b.1) →
      (insertStable x l).filter (fun p => p.1 == k) =
        l.filter (fun p => p.1 == k) ++ [x].filter (fun p => p.1 == k)
  | [], _ => by simp [insertStable]
  | y :: ys, h => by
    rw [List.pairwise_cons] at h
    simp only [insertStable]
    split
    · rename_i hlt
      by_cases hx : x.1 = k
      · have hnil : (y :: ys).filter (fun p => p.1 == k) = [] := by
          rw [List.filter_eq_nil_iff]
          intro z hz
          rcases List.mem_cons.1 hz with rfl | hz
          · simp; omega
          · have := h.1 z hz; simp; omega
        rw [List.filter_cons, hnil]
        simp [hx]
      · simp [List.filter_cons, hx]
    · have ih := insertStable_filter k x ys h.2
      rw [List.filter_cons, ih, List.filter_cons (xs := ys)]
      split <;> simp

theorem foldl_insertStable_filter (k : Nat) (l acc : List (Nat × Nat))
    (h : acc.Pairwise (fun a b => a.1 ≤ b.1)) :
    (l.foldl (fun acc x => insertStable x acc) acc).filter (fun p => p.1 == k) =
      acc.filter (fun p => p.1 == k) ++ l.filter (fun p => p.1 == k) := by
  induction l generalizing acc with
  | nil => simp
  | cons x xs ih =>
    simp only [List.foldl_cons]
    rw [ih _ (insertStable_sorted x acc h), insertStable_filter k x acc h, List.append_assoc,
      ← List.filter_append]
    rfl

/-- **Stability**: entries with equal keys keep their input order. -/
theorem sortStable_stable (k : Nat) (l : List (Nat × Nat)) :
    (sortStable l).filter (fun p => p.1 == k) = l.filter (fun p => p.1 == k) := by
  have := foldl_insertStable_filter k l [] List.Pairwise.nil
  simpa [sortStable] using this

/-! ### Inputs with increasing tags: the result is strictly ascending in `(key, tag)` -/

/-- strict lexicographic order on `(key, tag)` -/
def pairLt (a b : Nat × Nat) : Prop := a.1 < b.1 ∨ (a.1 = b.1 ∧ a.2 < b.2)

theorem insertStable_lex (x : Nat × Nat) :
    ∀ l : List (Nat × Nat), l.Pairwise pairLt → (∀ y ∈ l, y.2 < x.2) →
      (insertStable x l).Pairwise pairLt
  | [], _, _ => by simp [insertStable]
  | y :: ys, h, hx => by
    rw [List.pairwise_cons] at h
    simp only [insertStable]
    split
    · rename_i hlt
      refine List.pairwise_cons.2 ⟨?_, List.pairwise_cons.2 h⟩
      intro z hz
      rcases List.mem_cons.1 hz with rfl | hz
      · exact Or.inl hlt
      · have := h.1 z hz
        unfold pairLt at this ⊢; omega
    · rename_i hge
      refine List.pairwise_cons.2
        ⟨?_, insertStable_lex x ys h.2 (fun z hz => hx z (List.mem_cons_of_mem _ hz))⟩
      intro z hz
      rcases mem_insertStable.1 hz with rfl | hz
      · have := hx y List.mem_cons_self
        unfold pairLt; omega
      · exact h.1 z hz

theorem foldl_insertStable_lex (l acc : List (Nat × Nat))
    (hl : l.Pairwise (fun a b => a.2 < b.2)) (h : acc.Pairwise pairLt)
    (hacc : ∀ a ∈ acc, ∀ b ∈ l, a.2 < b.2) :
    (l.foldl (fun acc x => insertStable x acc) acc).Pairwise pairLt := by
  induction l generalizing acc with
  | nil => exact h
  | cons x xs ih =>
    rw [List.pairwise_cons] at hl
    refine ih _ hl.2 (insertStable_lex x acc h (fun y hy => hacc y hy x List.mem_cons_self)) ?_
    intro a ha b hb
    rcases mem_insertStable.1 ha with rfl | ha
    · exact hl.1 b hb
    · exact hacc a ha b (List.mem_cons_of_mem _ hb)

/-- If the tags (second components) of the input increase, the stable sort is the strict
    lexicographic sort on `(key, tag)`: among equal keys the larger tag comes later. -/
theorem sortStable_lex (l : List (Nat × Nat)) (hl : l.Pairwise (fun a b => a.2 < b.2)) :
    (sortStable l).Pairwise pairLt :=
  foldl_insertStable_lex l [] hl List.Pairwise.nil (by simp)

/-- The descending view used by `get_stable_child` (`last()`, `len - 2`). -/
theorem sortStable_reverse_lex (l : List (Nat × Nat)) (hl : l.Pairwise (fun a b => a.2 < b.2)) :
    (sortStable l).reverse.Pairwise (fun a b => pairLt b a) :=
  List.pairwise_reverse.2 (sortStable_lex l hl)

theorem mem_sortStable_reverse {z : Nat × Nat} {l : List (Nat × Nat)} :
    z ∈ (sortStable l).reverse ↔ z ∈ l := by
  rw [List.mem_reverse, mem_sortStable]

/-- **Last two entries of the stable sort** (general list form). For an input whose tags increase,
    the last entry `x` of `sortStable l` is the `(key, tag)`-lexicographic maximum of `l` (maximum
    key, and the largest tag among the entries with that key); the entry before it is the
    lexicographic maximum of the remaining entries. -/
theorem sortStable_reverse_cons (l : List (Nat × Nat)) (hl : l.Pairwise (fun a b => a.2 < b.2))
    (x : Nat × Nat) (rest : List (Nat × Nat)) (h : (sortStable l).reverse = x :: rest) :
    x ∈ l ∧ (∀ y ∈ l, y = x ∨ pairLt y x) ∧
    (rest = [] → l = [x]) ∧
    (∀ x2 r, rest = x2 :: r → x2 ∈ l ∧ pairLt x2 x ∧ ∀ y ∈ l, y = x ∨ y = x2 ∨ pairLt y x2) := by
  have hmem : ∀ z, z ∈ x :: rest ↔ z ∈ l := fun z => by rw [← h]; exact mem_sortStable_reverse
  have hpw := sortStable_reverse_lex l hl
  rw [h, List.pairwise_cons] at hpw
  refine ⟨(hmem x).1 List.mem_cons_self, ?_, ?_, ?_⟩
  · intro y hy
    rcases List.mem_cons.1 ((hmem y).2 hy) with h1 | h1
    · exact Or.inl h1
    · exact Or.inr (hpw.1 y h1)
  · intro hr
    subst hr
    have hlen : l.length = 1 := by
      rw [← sortStable_length, ← List.length_reverse, h]; rfl
    match l, hlen, hmem with
    | [a], _, hm => have := (hm a).2 List.mem_cons_self; simp at this; rw [this]
  · intro x2 r hr
    subst hr
    have hp2 := hpw.2
    rw [List.pairwise_cons] at hp2
    refine ⟨(hmem x2).1 (by simp), hpw.1 x2 List.mem_cons_self, ?_⟩
    intro y hy
    rcases List.mem_cons.1 ((hmem y).2 hy) with h1 | h1
    · exact Or.inl h1
    · rcases List.mem_cons.1 h1 with h1 | h1
      · exact Or.inr (Or.inl h1)
      · exact Or.inr (Or.inr (hp2.1 y h1))

/-! ### `childKeys` -/

theorem childKeys_getElem? (d : α → Nat) (cs : List (Tree α)) (j : Nat) :
    (childKeys d cs)[j]? = cs[j]?.map (fun c => (diffDepth d c, j)) := by
  unfold childKeys
  rw [List.getElem?_map]
  cases h : cs[j]? with
  | none =>
    have : cs.length ≤ j := by simpa using h
    simp [this]
  | some c =>
    have hj : j < cs.length := (List.getElem?_eq_some_iff.1 h).1
    have : ((List.range cs.length).zip cs)[j]? = some (j, c) := by
      rw [List.getElem?_zip_eq_some]
      simp [hj]
      exact (List.getElem?_eq_some_iff.1 h).2
    simp [this]

theorem mem_childKeys (d : α → Nat) (cs : List (Tree α)) (p : Nat × Nat) :
    p ∈ childKeys d cs ↔ ∃ c, cs[p.2]? = some c ∧ diffDepth d c = p.1 := by
  obtain ⟨k, i⟩ := p
  rw [List.mem_iff_getElem?]
  constructor
  · rintro ⟨j, hj⟩
    rw [childKeys_getElem?] at hj
    cases h : cs[j]? with
    | none => simp [h] at hj
    | some c =>
      simp only [h, Option.map_some, Option.some.injEq, Prod.mk.injEq] at hj
      obtain ⟨h1, h2⟩ := hj
      subst h1 h2
      exact ⟨c, h, rfl⟩
  · rintro ⟨c, hc, hk⟩
    refine ⟨i, ?_⟩
    simp only at hc hk
    rw [childKeys_getElem?, hc, ← hk]
    rfl

theorem childKeys_tags_increasing (d : α → Nat) (cs : List (Tree α)) :
    (childKeys d cs).Pairwise (fun a b => a.2 < b.2) := by
  rw [List.pairwise_iff_getElem]
  intro i j hi hj hij
  have h1 := childKeys_getElem? d cs i
  have h2 := childKeys_getElem? d cs j
  rw [List.getElem?_eq_getElem hi] at h1
  rw [List.getElem?_eq_getElem hj] at h2
  cases hci : cs[i]? with
  | none => simp [hci] at h1
  | some ci =>
    cases hcj : cs[j]? with
    | none => simp [hcj] at h2
    | some cj =>
      simp only [hci, hcj, Option.map_some, Option.some.injEq] at h1 h2
      rw [h1, h2]
      exact hij

theorem childKeys_length (d : α → Nat) (cs : List (Tree α)) : (childKeys d cs).length = cs.length := by
  simp [childKeys]

/-! ### The top two entries of the sorted list -/

/-- child `i` is the heaviest child by difficulty-based depth, the *last* one among equals -/
def Heaviest (d : α → Nat) (cs : List (Tree α)) (i : Nat) : Prop :=
  ∃ c, cs[i]? = some c ∧
    (∀ (j : Nat) (c' : Tree α), cs[j]? = some c' → diffDepth d c' ≤ diffDepth d c) ∧
    (∀ (j : Nat) (c' : Tree α), cs[j]? = some c' → diffDepth d c' = diffDepth d c → j ≤ i)

/-- child `i2` is the heaviest (last among equals) of the children other than `i` -/
def RunnerUp (d : α → Nat) (cs : List (Tree α)) (i i2 : Nat) : Prop :=
  i2 ≠ i ∧ ∃ c2, cs[i2]? = some c2 ∧
    (∀ (j : Nat) (c' : Tree α), j ≠ i → cs[j]? = some c' → diffDepth d c' ≤ diffDepth d c2) ∧
    (∀ (j : Nat) (c' : Tree α), j ≠ i → cs[j]? = some c' → diffDepth d c' = diffDepth d c2 → j ≤ i2)

theorem Heaviest.unique {d : α → Nat} {cs : List (Tree α)} {i j : Nat}
    (hi : Heaviest d cs i) (hj : Heaviest d cs j) : i = j := by
  obtain ⟨c, hc, hmax, hlast⟩ := hi
  obtain ⟨c', hc', hmax', hlast'⟩ := hj
  have h1 := hmax j c' hc'
  have h2 := hmax' i c hc
  have h3 := hlast j c' hc' (by omega)
  have h4 := hlast' i c hc (by omega)
  omega

theorem RunnerUp.unique {d : α → Nat} {cs : List (Tree α)} {i a b : Nat}
    (ha : RunnerUp d cs i a) (hb : RunnerUp d cs i b) : a = b := by
  obtain ⟨na, c, hc, hmax, hlast⟩ := ha
  obtain ⟨nb, c', hc', hmax', hlast'⟩ := hb
  have h1 := hmax b c' nb hc'
  have h2 := hmax' a c na hc
  have h3 := hlast b c' nb hc' (by omega)
  have h4 := hlast' a c na hc (by omega)
  omega

/-- the list `get_stable_child` looks at: `(difficulty-based depth, index)` in descending order -/
def descKeys (d : α → Nat) (cs : List (Tree α)) : List (Nat × Nat) :=
  (sortStable (childKeys d cs)).reverse

theorem mem_descKeys (d : α → Nat) (cs : List (Tree α)) (p : Nat × Nat) :
    p ∈ descKeys d cs ↔ ∃ c, cs[p.2]? = some c ∧ diffDepth d c = p.1 := by
  unfold descKeys
  rw [mem_sortStable_reverse, mem_childKeys]

theorem descKeys_pairwise (d : α → Nat) (cs : List (Tree α)) :
    (descKeys d cs).Pairwise (fun a b => pairLt b a) :=
  sortStable_reverse_lex _ (childKeys_tags_increasing d cs)

theorem descKeys_length (d : α → Nat) (cs : List (Tree α)) : (descKeys d cs).length = cs.length := by
  simp [descKeys, sortStable_length, childKeys_length]

theorem descKeys_nil (d : α → Nat) (cs : List (Tree α)) (h : descKeys d cs = []) : cs = [] := by
  have := descKeys_length d cs
  rw [h] at this
  exact List.eq_nil_of_length_eq_zero this.symm

/-- **The last entry after sorting** is the heaviest child (largest index among equal keys); the
    entry before it, if any, is the runner-up. -/
theorem descKeys_cons (d : α → Nat) (cs : List (Tree α)) (K i : Nat) (rest : List (Nat × Nat))
    (h : descKeys d cs = (K, i) :: rest) :
    Heaviest d cs i ∧ (∃ c, cs[i]? = some c ∧ diffDepth d c = K) ∧
    (rest = [] → ∀ j, j ≠ i → cs[j]? = none) ∧
    (∀ K2 i2 r, rest = (K2, i2) :: r →
      RunnerUp d cs i i2 ∧ K2 ≤ K ∧ ∃ c2, cs[i2]? = some c2 ∧ diffDepth d c2 = K2) := by
  have hmem := mem_descKeys d cs
  have hpw := descKeys_pairwise d cs
  rw [h] at hmem hpw
  rw [List.pairwise_cons] at hpw
  obtain ⟨hx, hrest⟩ := hpw
  obtain ⟨c, hc, hK⟩ := (hmem (K, i)).1 List.mem_cons_self
  -- every child is below the head
  have hbelow : ∀ (j : Nat) (c' : Tree α), cs[j]? = some c' →
      (diffDepth d c', j) = (K, i) ∨ pairLt (diffDepth d c', j) (K, i) := by
    intro j c' hc'
    have : (diffDepth d c', j) ∈ (K, i) :: rest := (hmem _).2 ⟨c', hc', rfl⟩
    rcases List.mem_cons.1 this with h1 | h1
    · exact Or.inl h1
    · exact Or.inr (hx _ h1)
  refine ⟨⟨c, hc, ?_, ?_⟩, ⟨c, hc, hK⟩, ?_, ?_⟩
  · intro j c' hc'
    rcases hbelow j c' hc' with h1 | h1
    · simp only [Prod.mk.injEq] at h1; omega
    · unfold pairLt at h1; simp only at h1; omega
  · intro j c' hc' heq
    rcases hbelow j c' hc' with h1 | h1
    · simp only [Prod.mk.injEq] at h1; omega
    · unfold pairLt at h1; simp only at h1; omega
  · intro hr j hj
    cases hcj : cs[j]? with
    | none => rfl
    | some c' =>
      have : (diffDepth d c', j) ∈ (K, i) :: rest := (hmem _).2 ⟨c', hcj, rfl⟩
      rw [hr] at this
      simp at this
      omega
  · intro K2 i2 r hr
    subst hr
    rw [List.pairwise_cons] at hrest
    obtain ⟨hx2, _⟩ := hrest
    obtain ⟨c2, hc2, hK2⟩ := (hmem (K2, i2)).1 (by simp)
    have h2lt : pairLt (K2, i2) (K, i) := hx _ List.mem_cons_self
    have hne : i2 ≠ i := by
      intro heq
      subst heq
      rw [hc] at hc2
      cases hc2
      unfold pairLt at h2lt; simp only at h2lt; omega
    have hbelow2 : ∀ (j : Nat) (c' : Tree α), j ≠ i → cs[j]? = some c' →
        (diffDepth d c', j) = (K2, i2) ∨ pairLt (diffDepth d c', j) (K2, i2) := by
      intro j c' hj hc'
      have : (diffDepth d c', j) ∈ (K, i) :: (K2, i2) :: r := (hmem _).2 ⟨c', hc', rfl⟩
      rcases List.mem_cons.1 this with h1 | h1
      · simp only [Prod.mk.injEq] at h1; omega
      · rcases List.mem_cons.1 h1 with h1 | h1
        · exact Or.inl h1
        · exact Or.inr (hx2 _ h1)
    refine ⟨⟨hne, c2, hc2, ?_, ?_⟩, ?_, ⟨c2, hc2, hK2⟩⟩
    · intro j c' hj hc'
      rcases hbelow2 j c' hj hc' with h1 | h1
      · simp only [Prod.mk.injEq] at h1; omega
      · unfold pairLt at h1; simp only at h1; omega
    · intro j c' hj hc' heq
      rcases hbelow2 j c' hj hc' with h1 | h1
      · simp only [Prod.mk.injEq] at h1; omega
      · unfold pairLt at h1; simp only at h1; omega
    · unfold pairLt at h2lt; simp only at h2lt; omega

/-! ### Accumulated difficulty of the main chain = difficulty-based depth -/

theorem keyGt_iff (a b : Nat × Nat) :
    keyGt a b = true ↔ (a.1 > b.1 ∨ (a.1 = b.1 ∧ a.2 > b.2)) := by
  unfold keyGt; simp

mutual
theorem mainChainInner_fst : ∀ (d : α → Nat) (t : Tree α), (mainChainInner d t).1 = diffDepth d t
  | d, .node r cs => by
    simp only [mainChainInner, diffDepth]
    rw [bestChild_fst d cs (0, 0, [])]
    simp only [Nat.zero_max]
    omega
theorem bestChild_fst : ∀ (d : α → Nat) (cs : List (Tree α)) (acc : Nat × Nat × List α),
    (bestChild d cs acc).1 = max acc.1 (diffDepthList d cs)
  | d, [], acc => by simp [bestChild, diffDepthList]
  | d, c :: cs, acc => by
    simp only [bestChild, diffDepthList]
    have hc := mainChainInner_fst d c
    split
    · rename_i hgt
      rw [keyGt_iff] at hgt
      simp only at hgt
      rw [bestChild_fst d cs _, hc]
      omega
    · rename_i hgt
      rw [keyGt_iff] at hgt
      simp only at hgt
      rw [bestChild_fst d cs _]
      omega
end

/-- children that are strictly lighter than the accumulator never replace it -/
theorem bestChild_keep (d : α → Nat) (cs : List (Tree α)) (acc : Nat × Nat × List α)
    (h : ∀ c ∈ cs, diffDepth d c < acc.1) : bestChild d cs acc = acc := by
  induction cs with
  | nil => rfl
  | cons c cs ih =>
    simp only [bestChild]
    have hc := h c List.mem_cons_self
    rw [← mainChainInner_fst] at hc
    rw [if_neg]
    · exact ih (fun c' hc' => h c' (List.mem_cons_of_mem _ hc'))
    · rw [keyGt_iff]; simp only; omega

/-- the strictly heaviest child wins the scan over the children -/
theorem bestChild_strict (d : α → Nat) :
    ∀ (cs : List (Tree α)) (acc : Nat × Nat × List α) (i : Nat) (c : Tree α),
      cs[i]? = some c →
      (∀ (j : Nat) (c' : Tree α), j ≠ i → cs[j]? = some c' → diffDepth d c' < diffDepth d c) →
      acc.1 < diffDepth d c → bestChild d cs acc = mainChainInner d c
  | [], _, _, _, hc, _, _ => by simp at hc
  | c0 :: cs, acc, 0, c, hc, hlt, hacc => by
    simp only [List.getElem?_cons_zero, Option.some.injEq] at hc
    subst hc
    simp only [bestChild]
    rw [if_pos]
    · apply bestChild_keep
      intro c' hc'
      obtain ⟨j, hj⟩ := List.mem_iff_getElem?.1 hc'
      rw [mainChainInner_fst]
      exact hlt (j + 1) c' (by omega) (by simpa using hj)
    · rw [keyGt_iff]; simp only; rw [mainChainInner_fst]; omega
  | c0 :: cs, acc, i + 1, c, hc, hlt, hacc => by
    simp only [List.getElem?_cons_succ] at hc
    have h0 : (mainChainInner d c0).1 < diffDepth d c := by
      rw [mainChainInner_fst]; exact hlt 0 c0 (by omega) (by simp)
    have hlt' : ∀ (j : Nat) (c' : Tree α), j ≠ i → cs[j]? = some c' →
        diffDepth d c' < diffDepth d c :=
      fun j c' hj hc' => hlt (j + 1) c' (by omega) (by simpa using hc')
    simp only [bestChild]
    split
    · exact bestChild_strict d cs _ i c hc hlt' h0
    · exact bestChild_strict d cs _ i c hc hlt' hacc

theorem mainChainInner_chain_head (d : α → Nat) (t : Tree α) :
    (mainChainInner d t).2.2.head? = some t.root := by
  cases t with
  | node r cs => rfl

/-- If one child is strictly heavier (by difficulty-based depth) than all its siblings, the main
    chain continues through that child. -/
theorem mainChain_second_of_strict (d : α → Nat) (r : α) (cs : List (Tree α)) (i : Nat)
    (c : Tree α) (hc : cs[i]? = some c)
    (hlt : ∀ (j : Nat) (c' : Tree α), j ≠ i → cs[j]? = some c' → diffDepth d c' < diffDepth d c) :
    (mainChain d (.node r cs))[1]? = some c.root := by
  have hbest : bestChild d cs (0, 0, []) = mainChainInner d c := by
    by_cases hpos : 0 < diffDepth d c
    · exact bestChild_strict d cs (0, 0, []) i c hc hlt hpos
    · -- a child of accumulated difficulty 0 that is strictly heaviest is the only child
      have hnone : ∀ j, j ≠ i → cs[j]? = none := by
        intro j hj
        cases hcj : cs[j]? with
        | none => rfl
        | some c' => have := hlt j c' hj hcj; omega
      have hcs : cs = [c] := by
        cases cs with
        | nil => simp at hc
        | cons c0 cs' =>
          cases i with
          | zero =>
            simp only [List.getElem?_cons_zero, Option.some.injEq] at hc
            subst hc
            have := hnone 1 (by omega)
            cases cs' with
            | nil => rfl
            | cons _ _ => simp at this
          | succ i => have := hnone 0 (by omega); simp at this
      subst hcs
      cases c with
      | node rc ccs =>
        simp only [bestChild]
        rw [if_pos]
        rw [keyGt_iff]
        simp only [mainChainInner]
        omega
  unfold mainChain
  simp only [mainChainInner]
  rw [hbest]
  have := mainChainInner_chain_head d c
  simp only [List.getElem?_cons_succ]
  rw [← List.head?_eq_getElem?]
  exact this

/-! ### Unfolding `stableChild` over the descending key list -/

/-- depth of the runner-up's subtree as read by the code (`0` when there is no second entry) -/
def secondDepth (cs : List (Tree α)) : List (Nat × Nat) → Nat
  | [] => 0
  | (_, i2) :: _ => nthDepth cs i2

theorem stableChild_of_nil (d : α → Nat) (net : Net) (thr bound : Nat) (r : α)
    (cs : List (Tree α)) (h : descKeys d cs = []) :
    stableChild d net thr bound (.node r cs) = none := by
  unfold descKeys at h
  simp only [stableChild, h]

theorem stableChild_of_cons (d : α → Nat) (net : Net) (thr bound : Nat) (r : α)
    (cs : List (Tree α)) (K i : Nat) (rest : List (Nat × Nat))
    (h : descKeys d cs = (K, i) :: rest) (i' : Nat) :
    stableChild d net thr bound (.node r cs) = some i' ↔
      i' = i ∧
      ((net.depthRule = true ∧ nthDepth cs i ≥ bound ∧
          nthDepth cs i - secondDepth cs rest ≥ bound) ∨
       (K ≥ d r * thr ∧ ∀ K2 i2 r', rest = (K2, i2) :: r' → K - K2 ≥ d r * thr)) := by
  unfold descKeys at h
  simp only [stableChild, h]
  generalize d r * thr = T
  cases rest with
  | nil =>
    cases net.depthRule
    · simp [secondDepth] <;> omega
    · simp only [secondDepth, Bool.true_and, Nat.sub_zero, Bool.and_self, decide_eq_true_eq,
        true_and]
      by_cases h1 : nthDepth cs i ≥ bound
      · simp [h1] <;> omega
      · by_cases h2 : K < T
        · simp [h1, h2] <;> omega
        · simp [h1, h2] <;> omega
  | cons x r' =>
    obtain ⟨K2, i2⟩ := x
    cases net.depthRule
    · simp [secondDepth] <;> omega
    · simp only [secondDepth, Bool.true_and, Bool.and_eq_true, decide_eq_true_eq, true_and]
      by_cases h1 : nthDepth cs i ≥ bound ∧ nthDepth cs i - nthDepth cs i2 ≥ bound
      · simp [h1] <;> omega
      · by_cases h2 : K < T
        · simp [h1, h2] <;> omega
        · by_cases h3 : K - K2 < T
          · simp [h1, h2, h3] <;> omega
          · simp [h1, h2, h3] <;> omega

/-! ### `extend` never drops a block -/

theorem blocksList_append (a b : List (Tree α)) :
    blocksList (a ++ b) = blocksList a ++ blocksList b := by
  induction a with
  | nil => rfl
  | cons c cs ih => simp only [List.cons_append, blocksList, ih, List.append_assoc]

mutual
theorem extend_blocks_sublist (h : α → Nat) (prev : Nat) (b : α) :
    ∀ (t t' : Tree α), extend h prev b t = some t' →
      (blocks t).Sublist (blocks t') ∧ t'.root = t.root
  | .node r cs, t', he => by
    simp only [extend] at he
    split at he
    · cases he
      simp only [blocks, blocksList_append, Tree.root]
      exact ⟨(List.sublist_append_left _ _).cons_cons r, trivial⟩
    · split at he
      · rename_i cs' hcs
        cases he
        simp only [blocks, Tree.root]
        exact ⟨(extendList_blocks_sublist h prev b cs cs' hcs).cons_cons r, trivial⟩
      · cases he
theorem extendList_blocks_sublist (h : α → Nat) (prev : Nat) (b : α) :
    ∀ (cs cs' : List (Tree α)), extendList h prev b cs = some cs' →
      (blocksList cs).Sublist (blocksList cs')
  | [], _, he => by simp [extendList] at he
  | c :: cs, cs', he => by
    simp only [extendList] at he
    split at he
    · rename_i c' hc
      cases he
      simp only [blocksList]
      exact (extend_blocks_sublist h prev b c c' hc).1.append (List.Sublist.refl _)
    · split at he
      · rename_i cs'' hcs
        cases he
        simp only [blocksList]
        exact (List.Sublist.refl _).append (extendList_blocks_sublist h prev b cs cs'' hcs)
      · cases he
end

end Btc
